(* RefC04.v — guards are evaluated in the context of the task instance that contains
   them, at the moment the Condition / loop is reached.  Proof file.
   Sections:
    1  the executable monitor holds_C04q (open task instances pushed at TS, popped at TF;
       every EQuery must name an open one)
    2  one evaluation: decide_m_spec (decision = decide on the answers numbered from g_q,
       exactly expr_vars e logged, in order), eval_local / decide_local (no other answer
       matters), read_limit_spec
    3-5 C04_query_context_ref: every run of the reference semantics is accepted (strengthening
       of the C07 lifecycle induction: the monitor's open list IS the list of open task
       instances of the lifecycle monitor, start_q / deliver_q re-use start_life /
       deliver_life as black boxes)
    6  holds_C04q_meaning: what acceptance means (more TS than TF for ctx before the query)
    7,9 the oracle counter equals the number of queries logged (per call, per history);
       decide_m_moment
    10 the queries of a call are whole evaluations of guards / limits of the program
       (api_call_query_blocks)
    11 the context is the INNERMOST instance as far as a trace shows it: monitor holds_C04n
       (what follows a query belongs to the block of the queried context), proved for programs
       whose Parallel branches are calls (pwf; guaranteed by the unfolding), refuted without;
       holds_C04n_meaning
    8,11 examples: non-vacuity on ex_case, a nested example, tampered traces rejected. *)
From PFDL Require Import RefSem RunCase Monitors RefBase RefClosure RefShape RefC01 RefC07 Examples.
From Coq Require Import Lia Permutation.

(* ===================================================================== *)
(* 1. the monitor                                                          *)
(* ===================================================================== *)
(* definitions: Monitors.v (c04_notif ... holds_C04q, mon_C04q), so that the harness can
   evaluate the monitor without this proof file *)
(* ---- the monitor on concatenated logs ---- *)
Lemma c04_log_app : forall a b O,
    c04_log O (a ++ b) = match c04_log O a with Some O1 => c04_log O1 b | None => None end.
Proof.
  induction a as [|e a IH]; intros b O; [reflexivity|]. cbn [app c04_log].
  destruct (c04_entry O e); [apply IH|reflexivity].
Qed.

Fixpoint c04_notifs (open : list nat) (ns : list notif) : option (list nat) :=
  match ns with
  | [] => Some open
  | n :: t => match c04_notif open n with Some o => c04_notifs o t | None => None end
  end.

Definition noq (e : entry) : Prop := match e with EQuery _ _ => False | _ => True end.

Lemma c04_noq : forall log O, Forall noq log -> c04_log O log = c04_notifs O (map fst (ee_notifs log)).
Proof.
  induction log as [|e log IH]; intros O H; [reflexivity|]. inversion H as [|? ? He Hr]; subst.
  rewrite ee_cons. destruct e as [[|l0] n r|o kk nm id fl|v cc|fi|fi fr]; cbn [c04_log c04_entry app map fst];
    try (apply IH; exact Hr); try contradiction.
  cbn [c04_notifs]. destruct (c04_notif O n); [apply IH; exact Hr|reflexivity].
Qed.

(* ===================================================================== *)
(* 2. one evaluation: the decision, and what is logged                     *)
(* ===================================================================== *)
(* the number of oracle calls of one evaluation is the number of variable occurrences *)
Lemma eval_count : forall ops orc e k v k',
    eval ops orc e k = Ok (v, k') -> k' = k + List.length (expr_vars e).
Proof.
  intros ops orc. induction e as [q|b|s|x p|e1 IH1|e1 IH1|o l IHl r IHr]; intros k v k' H; cbn [eval expr_vars] in *.
  - inv H. cbn. lia.
  - inv H. cbn. lia.
  - inv H. cbn. lia.
  - destruct (orc k x) as [y|]; [|discriminate]. destruct (resolve y p); try discriminate. inv H. cbn. lia.
  - destruct (eval ops orc e1 k) as [[v1 k1]| | |] eqn:E1; try discriminate. cbn [rbind] in H.
    destruct (truthy v1); try discriminate. inv H. eapply IH1; eassumption.
  - eapply IH1; eassumption.
  - destruct (eval ops orc l k) as [[a k1]| | |] eqn:E1; try discriminate. cbn [rbind] in H.
    destruct (eval ops orc r k1) as [[b k2]| | |] eqn:E2; try discriminate. cbn [rbind] in H.
    destruct (lookup_op (op_token o) ops); try discriminate.
    destruct (py_apply p a b); try discriminate. inv H.
    apply IHl in E1. apply IHr in E2. rewrite app_length. lia.
Qed.

Lemma decide_count : forall ops orc e k b k',
    decide ops orc e k = Ok (b, k') -> k' = k + List.length (expr_vars e).
Proof.
  intros ops orc e k b k' H. unfold decide in H.
  destruct (eval ops orc e k) as [[v k1]| | |] eqn:E; try discriminate. cbn [rbind] in H.
  destruct (truthy v); try discriminate. inv H. eapply eval_count; eassumption.
Qed.

(* the oracle is asked exactly for the i-th variable occurrence at call number k + i:
   nothing else of the oracle matters *)
Lemma eval_local : forall ops orc orc' e k,
    (forall i v, nth_error (expr_vars e) i = Some v -> orc' (k + i) v = orc (k + i) v) ->
    eval ops orc' e k = eval ops orc e k.
Proof.
  intros ops orc orc'. induction e as [q|b|s|x p|e1 IH1|e1 IH1|o l IHl r IHr]; intros k H; cbn [eval expr_vars] in *;
    try reflexivity.
  - specialize (H 0 x eq_refl). rewrite Nat.add_0_r in H. rewrite H. reflexivity.
  - rewrite (IH1 k H). reflexivity.
  - apply IH1. exact H.
  - rewrite (IHl k).
    + destruct (eval ops orc l k) as [[a k1]| | |] eqn:E1; try reflexivity. cbn [rbind].
      apply eval_count in E1. subst k1. rewrite (IHr (k + List.length (expr_vars l))); [reflexivity|].
      intros i v Hi. rewrite <- Nat.add_assoc. apply H.
      rewrite nth_error_app2 by lia. replace (List.length (expr_vars l) + i - List.length (expr_vars l)) with i by lia.
      exact Hi.
    + intros i v Hi. apply H. rewrite nth_error_app1; [exact Hi|].
      apply nth_error_Some. congruence.
Qed.

Lemma decide_local : forall ops orc orc' e k,
    (forall i v, nth_error (expr_vars e) i = Some v -> orc' (k + i) v = orc (k + i) v) ->
    decide ops orc' e k = decide ops orc e k.
Proof. intros. unfold decide. rewrite (eval_local ops orc orc' e k); [reflexivity|assumption]. Qed.

Section Eval.
  Variable orc : oracle.

  Lemma log_queries_log : forall vs ctx g u g',
      log_queries vs ctx g = Ok (u, g') ->
      g_q g' = g_q g /\ g_log g' = rev (map (fun v => EQuery v ctx) vs) ++ g_log g.
  Proof.
    induction vs as [|v vs IH]; intros ctx g u g' H; cbn [log_queries] in H.
    - mstep. split; reflexivity.
    - mstep as u1 g1 E1. unfold log_entry in E1. apply log_entries_eff in E1.
      destruct E1 as (_ & _ & _ & _ & _ & _ & H7 & _ & H9).
      destruct (IH _ _ _ _ H) as (A1 & A2). split; [congruence|].
      rewrite A2, H9. cbn [map rev app]. rewrite <- app_assoc. reflexivity.
  Qed.

  (* one evaluation of a guard: the decision is [decide] on the answers numbered from the
     current count of oracle calls; exactly the variable occurrences of the expression are
     logged, in order, each with the context handed in; the count advances by their number *)
  Lemma decide_m_spec : forall e ctx g b g',
      decide_m orc e ctx g = Ok (b, g') ->
      decide expected_ops orc e (g_q g) = Ok (b, g_q g')
      /\ g_q g' = g_q g + List.length (expr_vars e)
      /\ g_log g' = rev (map (fun v => EQuery v ctx) (expr_vars e)) ++ g_log g.
  Proof.
    intros e ctx g b g' H. unfold decide_m in H.
    destruct (decide expected_ops orc e (g_q g)) as [[b0 k']| | |] eqn:D; try discriminate.
    mstep as u1 g1 E1. apply log_queries_log in E1. destruct E1 as (A1 & A2).
    mstep as u2 g2 E2. unfold set_q in E2. inv E2. mstep.
    cbn. split; [reflexivity|]. split; [eapply decide_count; exact D|exact A2].
  Qed.

  (* the queries of one evaluation, as a list *)
  Definition queries_of (log : list entry) : list (name * nat) :=
    flat_map (fun e => match e with EQuery v c => [(v, c)] | _ => [] end) log.

  Lemma queries_of_app : forall a b, queries_of (a ++ b) = queries_of a ++ queries_of b.
  Proof. intros. unfold queries_of. apply flat_map_app. Qed.

  Lemma queries_of_map : forall vs ctx,
      queries_of (map (fun v => EQuery v ctx) vs) = map (fun v => (v, ctx)) vs.
  Proof. induction vs as [|v vs IH]; intro ctx; [reflexivity|]. cbn. f_equal. apply IH. Qed.

  Lemma decide_m_queries : forall e ctx g b g',
      decide_m orc e ctx g = Ok (b, g') ->
      queries_of (rev (g_log g')) = queries_of (rev (g_log g)) ++ map (fun v => (v, ctx)) (expr_vars e).
  Proof.
    intros e ctx g b g' H. apply decide_m_spec in H. destruct H as (_ & _ & H).
    rewrite H, rev_app_distr, rev_involutive, queries_of_app, queries_of_map. reflexivity.
  Qed.

  (* reading a loop limit: one query in the context handed in, answered by oracle call
     number g_q, which must be an integer *)
  Lemma read_limit_spec : forall l ctx g n g',
      read_limit orc l ctx g = Ok (n, g') ->
      match l with
      | LimInt k => n = Z.of_nat k /\ g' = g
      | LimPath v p =>
        exists x q, orc (g_q g) v = Some x /\ resolve x p = Ok (VNum q) /\ Qden q = 1%positive /\ n = Qnum q
                    /\ g_q g' = S (g_q g) /\ g_log g' = EQuery v ctx :: g_log g
      end.
  Proof.
    intros l ctx g n g' H. destruct l as [k|v p]; cbn [read_limit] in H.
    - mstep. split; reflexivity.
    - destruct (orc (g_q g) v) as [x|]; [|discriminate].
      destruct (resolve x p) as [[q| | |]| | |] eqn:R; try discriminate.
      destruct (Pos.eqb (Qden q) 1) eqn:Dn; [|discriminate].
      mstep as u1 g1 E1. unfold log_entry in E1. apply log_entries_eff in E1.
      destruct E1 as (_ & _ & _ & _ & _ & _ & _ & _ & H9).
      mstep as u2 g2 E2. unfold set_q in E2. inv E2. mstep.
      exists x, q. split; [reflexivity|]. split; [exact R|]. split; [apply Pos.eqb_eq; exact Dn|].
      split; [reflexivity|]. split; [reflexivity|]. exact H9.
  Qed.
End Eval.

(* ===================================================================== *)
(* 3. the monitor's open list is the lifecycle monitor's list of open      *)
(*    task instances                                                       *)
(* ===================================================================== *)
Definition ids (L : life) : list nat := map oi_id (lf_tasks L).

Lemma remove_first_ids : forall x l l',
    remove_first (oi_eqb x) l = Some l' -> NoDup (map oi_id l) ->
    remove_first (Nat.eqb (oi_id x)) (map oi_id l) = Some (map oi_id l').
Proof.
  intros x. induction l as [|y l IH]; intros l' H ND; cbn in H; [discriminate|].
  cbn [map remove_first]. inversion ND as [|? ? Hn ND']; subst.
  destruct (oi_eqb x y) eqn:E.
  - inv H. apply oi_eqb_eq in E. subst y. rewrite Nat.eqb_refl. reflexivity.
  - destruct (remove_first (oi_eqb x) l) as [t|] eqn:R; [|discriminate]. inv H.
    destruct (Nat.eqb (oi_id x) (oi_id y)) eqn:E2.
    + exfalso. apply Nat.eqb_eq in E2. apply Hn. rewrite <- E2.
      destruct (remove_first_perm _ _ _ _ R) as (z & Hz & Hp). apply oi_eqb_eq in Hz. subst z.
      apply in_map. eapply Permutation_in; [apply Permutation_sym; exact Hp|]. left. reflexivity.
    + rewrite (IH _ eq_refl ND'). reflexivity.
Qed.

Lemma c04_life : forall L n L',
    NoDup (ids L) -> life_step L n = Some L' -> c04_notif (ids L) n = Some (ids L').
Proof.
  intros L n L' ND H. unfold life_step in H. unfold c04_notif. destruct (n_kind n).
  - match type of H with (if ?c then _ else _) = _ => destruct c end; [|discriminate]. inv H. reflexivity.
  - destruct (remove_first (oi_eqb (oi_of n)) (lf_tasks L)) as [rest|] eqn:R; [|discriminate].
    match type of H with (if ?c then _ else _) = _ => destruct c end; [discriminate|]. inv H.
    unfold ids. cbn [lf_tasks]. change (n_id n) with (oi_id (oi_of n)).
    apply remove_first_ids; assumption.
  - match type of H with (if ?c then _ else _) = _ => destruct c end; [|discriminate]. inv H. reflexivity.
  - destruct (remove_first (oi_eqb (oi_of n)) (lf_svcs L)) as [rest|]; [|discriminate]. inv H. reflexivity.
Qed.

Lemma mem_in : forall x l, In x l -> mem x l = true.
Proof.
  induction l as [|y l IH]; intro H; [contradiction|]. cbn. destruct H as [->|H].
  - rewrite Nat.eqb_refl. reflexivity.
  - rewrite (IH H). apply orb_true_r.
Qed.

Lemma mem_true_in : forall x l, mem x l = true -> In x l.
Proof.
  induction l as [|y l IH]; intro H; [discriminate|]. cbn in H. apply orb_true_iff in H. destruct H as [H|H].
  - left. apply Nat.eqb_eq in H. congruence.
  - right. apply IH. exact H.
Qed.

Lemma copen_mem : forall ctx L, copen ctx (lf_tasks L) -> mem ctx (ids L) = true.
Proof. intros ctx L (o & Hi & He). apply mem_in. rewrite <- He. apply in_map. exact Hi. Qed.

(* the monitor has read the log of [g] from the open list [O0] and arrived at the open
   task instances of [L] *)
Definition QW (O0 : list nat) (g : G) (L : life) : Prop := c04_log O0 (rev (g_log g)) = Some (ids L).

Lemma QW_new : forall O0 g g' L L' new,
    QW O0 g L -> g_log g' = rev new ++ g_log g -> c04_log (ids L) new = Some (ids L') -> QW O0 g' L'.
Proof.
  unfold QW. intros O0 g g' L L' new H1 H2 H3.
  rewrite H2, rev_app_distr, rev_involutive, c04_log_app, H1. exact H3.
Qed.

Lemma QW_same : forall O0 g g' L, QW O0 g L -> g_log g' = g_log g -> QW O0 g' L.
Proof. unfold QW. intros O0 g g' L H1 H2. rewrite H2. exact H1. Qed.

Lemma Acc_fun : forall L0 g L L', Acc L0 g L -> Acc L0 g L' -> L = L'.
Proof. unfold Acc. intros. congruence. Qed.

Lemma emit_new : forall n flag g u g',
    emit_gen n flag g = Ok (u, g') -> lst_all (g_ls g) ->
    exists new, g_log g' = rev new ++ g_log g /\ Forall noq new /\ map fst (ee_notifs new) = [n].
Proof.
  intros n flag g u g' H Hl. unfold emit_gen in H. apply log_entries_eff in H.
  destruct H as (_ & _ & _ & _ & _ & _ & _ & _ & H9).
  eexists. split; [exact H9|]. split.
  - apply Forall_app. split; apply Forall_forall; intros x Hx; apply in_map_iff in Hx;
      destruct Hx as (y & <- & _); exact I.
  - rewrite ee_app, ee_listeners, (Hl (n_kind n)), ee_obs by (intro; exact I). reflexivity.
Qed.

Lemma QW_emit : forall O0 n flag g u g' L L',
    emit_gen n flag g = Ok (u, g') -> lst_all (g_ls g) ->
    QW O0 g L -> NoDup (ids L) -> life_step L n = Some L' -> QW O0 g' L'.
Proof.
  intros O0 n flag g u g' L L' H Hl HQ ND HS.
  destruct (emit_new _ _ _ _ _ H Hl) as (new & H1 & H2 & H3).
  eapply QW_new; [exact HQ|exact H1|]. rewrite (c04_noq _ _ H2), H3. cbn [c04_notifs].
  rewrite (c04_life _ _ _ ND HS). reflexivity.
Qed.

Lemma W_nodup : forall L nt ns, W L nt ns -> NoDup (ids L).
Proof. intros L nt ns H. exact (w_nd _ _ _ H). Qed.

Section Quiet4.
  Variable orc : oracle.

  Lemma QW_queries : forall vs ctx g u g' O0 L,
      log_queries vs ctx g = Ok (u, g') -> QW O0 g L -> mem ctx (ids L) = true -> QW O0 g' L.
  Proof.
    induction vs as [|v vs IH]; intros ctx g u g' O0 L H HQ Hm; cbn [log_queries] in H.
    - mstep. exact HQ.
    - mstep as u1 g1 E1. unfold log_entry in E1. apply log_entries_eff in E1.
      destruct E1 as (_ & _ & _ & _ & _ & _ & _ & _ & H9).
      eapply IH; [exact H| |exact Hm].
      eapply QW_new; [exact HQ|exact H9|]. cbn [c04_log c04_entry]. rewrite Hm. reflexivity.
  Qed.

  Lemma QW_decide : forall e ctx g b g' O0 L,
      decide_m orc e ctx g = Ok (b, g') -> QW O0 g L -> copen ctx (lf_tasks L) -> QW O0 g' L.
  Proof.
    intros e ctx g b g' O0 L H HQ Hc. unfold decide_m in H.
    destruct (decide expected_ops orc e (g_q g)) as [[b0 k']| | |]; try discriminate.
    mstep as u1 g1 E1. mstep as u2 g2 E2. unfold set_q in E2. inv E2. mstep.
    eapply QW_same; [eapply QW_queries; [exact E1|exact HQ|apply copen_mem; exact Hc]|reflexivity].
  Qed.

  Lemma QW_limit : forall l ctx g n g' O0 L,
      read_limit orc l ctx g = Ok (n, g') -> QW O0 g L -> copen ctx (lf_tasks L) -> QW O0 g' L.
  Proof.
    intros l ctx g n g' O0 L H HQ Hc. destruct l as [k|v p]; cbn [read_limit] in H.
    - mstep. exact HQ.
    - destruct (orc (g_q g) v) as [x|]; [|discriminate].
      destruct (resolve x p) as [[q| | |]| | |]; try discriminate.
      destruct (Pos.eqb (Qden q) 1); [|discriminate].
      mstep as u1 g1 E1. unfold log_entry in E1. apply log_entries_eff in E1.
      destruct E1 as (_ & _ & _ & _ & _ & _ & _ & _ & H9).
      mstep as u2 g2 E2. unfold set_q in E2. inv E2. mstep.
      eapply QW_same; [|reflexivity].
      eapply QW_new; [exact HQ|exact H9|]. cbn [c04_log c04_entry]. rewrite (copen_mem _ _ Hc). reflexivity.
  Qed.
End Quiet4.

(* ===================================================================== *)
(* 4. the start family                                                     *)
(* ===================================================================== *)
Section Ctx.
  Variable orc : oracle.
  Variable imm : nat -> bool.

  (* the service block: SS (and possibly SF) leave the open task instances as they are *)
  Lemma service_q : forall n at_ ins ctx ie g st g' L0 L O0,
      (id <- fresh_s ;;
       await id ;;;
       emit (mk SS n at_ id (Some ctx) (subst_params ie ins)) ;;;
       k <- tick_ss ;;
       if imm k
       then unawait id ;;; emit (mk SF n at_ id (Some ctx) (subst_params ie ins)) ;;; ret RDone
       else ret (RAwait id)) g = Ok (st, g') ->
      lst_all (g_ls g) -> Acc L0 g L -> W L (g_tid g) (g_sid g) -> copen ctx (lf_tasks L) ->
      QW O0 g L -> forall L', Acc L0 g' L' -> QW O0 g' L'.
  Proof.
    intros n at_ ins ctx ie g st g' L0 L O0 H Hl HA HW Hc HQ L' HA'.
    destruct (service_N _ _ _ _ _ _ _ _ _ H) as (A1 & A2 & A3 & A4).
    destruct (life_SS L _ _ n at_ ctx (subst_params ie ins) HW Hc) as (L1 & S1 & W1 & P1).
    mstep as id g1 E1. unfold fresh_s in E1. inv E1.
    mstep as u2 g2 E2. unfold await, set_awaited in E2. inv E2.
    mstep as u3 g3 E3.
    assert (Q3 : QW O0 g3 L1).
    { eapply QW_emit; [exact E3|exact Hl| |exact (W_nodup _ _ _ HW)|exact S1].
      eapply QW_same; [exact HQ|reflexivity]. }
    destruct (emit_frame _ _ _ _ _ E3) as (B1 & _ & _). cbn in B1.
    mstep as k g4 E4. unfold tick_ss in E4. inv E4.
    destruct (A4 Hl) as [[-> HN]|[-> HN]].
    - assert (HA1 : Acc L0 g' L1).
      { eapply Acc_app; [exact HA|exact HN|]. cbn [life_run]. rewrite S1. reflexivity. }
      rewrite <- (Acc_fun _ _ _ _ HA1 HA').
      destruct (imm (g_ss g3)).
      + mstep as u5 g5 E5. mstep as u6 g6 E6. mstep. discriminate.
      + unfold ret in H. inv H. eapply QW_same; [exact Q3|reflexivity].
    - destruct (life_SF L1 _ _ n at_ (g_sid g) (Some ctx) (subst_params ie ins) (fun tk => sel tk L) W1 P1)
        as (L2 & S2 & W2 & P2).
      assert (HA2 : Acc L0 g' L2).
      { eapply Acc_app; [exact HA|exact HN|]. cbn [life_run]. rewrite S1, S2. reflexivity. }
      rewrite <- (Acc_fun _ _ _ _ HA2 HA').
      destruct (imm (g_ss g3)).
      + mstep as u5 g5 E5. unfold unawait in E5.
        match type of E5 with match ?X with _ => _ end = _ => destruct X as [l|] end; [|discriminate].
        unfold set_awaited in E5. inv E5.
        mstep as u6 g6 E6. unfold ret in H. inv H.
        eapply QW_emit; [exact E6|cbn; rewrite B1; exact Hl| |exact (W_nodup _ _ _ W1)|exact S2].
        eapply QW_same; [exact Q3|reflexivity].
      + mstep. discriminate.
  Qed.

  Lemma start_q : forall f,
      (forall ctx ie s g st g' L0 L O0,
          start_stmt orc imm f ctx ie s g = Ok (st, g') ->
          lst_all (g_ls g) -> Acc L0 g L -> W L (g_tid g) (g_sid g) -> copen ctx (lf_tasks L) ->
          QW O0 g L -> forall L', Acc L0 g' L' -> QW O0 g' L') /\
      (forall ctx ie ss i g r g' L0 L O0,
          run_block orc imm f ctx ie ss i g = Ok (r, g') ->
          lst_all (g_ls g) -> Acc L0 g L -> W L (g_tid g) (g_sid g) -> copen ctx (lf_tasks L) ->
          QW O0 g L -> forall L', Acc L0 g' L' -> QW O0 g' L') /\
      (forall ctx l g sts g' L0 L O0,
          start_list orc imm f ctx l g = Ok (sts, g') ->
          lst_all (g_ls g) -> Acc L0 g L -> W L (g_tid g) (g_sid g) -> copen ctx (lf_tasks L) ->
          QW O0 g L -> forall L', Acc L0 g' L' -> QW O0 g' L') /\
      (forall ctx ie s k g st g' L0 L O0,
          loop_test orc imm f ctx ie s k g = Ok (st, g') ->
          lst_all (g_ls g) -> Acc L0 g L -> W L (g_tid g) (g_sid g) -> copen ctx (lf_tasks L) ->
          QW O0 g L -> forall L', Acc L0 g' L' -> QW O0 g' L').
  Proof.
    induction f as [|f IH]; [split; [|split; [|split]]; intros; discriminate|].
    destruct IH as (IHs & IHb & IHl & IHt).
    destruct (start_life orc imm f) as (LFs & LFb & LFl & LFt).
    split; [|split; [|split]].
    - (* start_stmt *)
      intros ctx ie s g st g' L0 L O0 H Hl HA HW Hc HQ. cbn [start_stmt] in H.
      destruct s as [n at_ ins|t at_ ins body|bs|e p fl|e b|v lim b|v lim c].
      + eapply service_q; eassumption.
      + (* call *)
        mstep as id g1 E1. mstep as u2 g2 E2.
        destruct (tstart_N _ _ _ _ _ _ _ _ _ E1 E2) as (-> & B1 & B2 & B3 & B4). specialize (B4 Hl).
        destruct (life_TS L _ _ t at_ ctx (subst_params ie ins) HW Hc) as (L1 & S1 & W1 & P1).
        assert (Q2 : QW O0 g2 L1).
        { unfold fresh_t in E1. inv E1.
          eapply QW_emit; [exact E2|exact Hl| |exact (W_nodup _ _ _ HW)|exact S1].
          eapply QW_same; [exact HQ|reflexivity]. }
        mstep as r g3 E3.
        pose proof (Eff_Fr _ _ _ (proj1 (proj2 (start_eff orc imm f)) _ _ _ _ _ _ _ E3)) as (F1 & F2 & F3).
        assert (HA1 : Acc L0 g2 L1).
        { eapply Acc_app; [exact HA|exact B4|]. cbn [life_run]. rewrite S1. reflexivity. }
        assert (Hc1 : copen (g_tid g) (lf_tasks L1)).
        { exists (inst (g_tid g) (Some ctx) t at_). split; [|reflexivity].
          eapply Permutation_in; [apply Permutation_sym; apply (P1 true)|]. left. reflexivity. }
        assert (W1' : W L1 (g_tid g2) (g_sid g2)) by (rewrite B2, B3; exact W1).
        assert (Hl2 : lst_all (g_ls g2)) by (rewrite B1; exact Hl).
        destruct (LFb _ _ _ _ _ _ _ _ _ E3 Hl2 HA1 W1' Hc1) as (L3 & A3 & W3 & P3).
        pose proof (IHb _ _ _ _ _ _ _ _ _ _ E3 Hl2 HA1 W1' Hc1 Q2 L3 A3) as Q3.
        destruct r as [[i sti]|].
        * mstep. intros L' HA'. rewrite <- (Acc_fun _ _ _ _ A3 HA'). exact Q3.
        * mstep as u4 g4 E4. destruct (emit_frame _ _ _ _ _ E4) as (C1 & C2 & C3).
          pose proof (emit_N _ _ _ _ _ E4 ltac:(rewrite F1; exact Hl2)) as C4.
          destruct (life_TF L3 _ _ t at_ (g_tid g) (Some ctx) (subst_params ie ins) (fun tk => sel tk L) W3)
            as (L4 & S4 & W4 & P4).
          { cbn [opn_opt] in P3. perm. }
          { intros tk o Hi Hx. pose proof (w_ctx _ _ _ HW _ _ _ Hi Hx). lia. }
          mstep. intros L' HA'.
          assert (A4 : Acc L0 g4 L4).
          { eapply Acc_app; [exact A3|exact C4|]. cbn [life_run]. rewrite S4. reflexivity. }
          rewrite <- (Acc_fun _ _ _ _ A4 HA').
          eapply QW_emit; [exact E4|rewrite F1; exact Hl2|exact Q3|exact (W_nodup _ _ _ W3)|exact S4].
      + (* parallel *)
        mstep as sts g1 E1.
        pose proof (IHl _ _ _ _ _ _ _ _ E1 Hl HA HW Hc HQ) as Q1.
        destruct (all_done sts); mstep; exact Q1.
      + (* condition *)
        mstep as bb g1 E1.
        destruct (pre_quiet _ _ _ _ (Eff_Fr _ _ _ (decide_m_eff _ _ _ _ _ _ E1)) (decide_N _ _ _ _ _ _ E1) Hl HA HW)
          as (Hl1 & HA1 & HW1).
        pose proof (QW_decide _ _ _ _ _ _ _ _ E1 HQ Hc) as Q1.
        mstep as r g2 E2.
        pose proof (IHb _ _ _ _ _ _ _ _ _ _ E2 Hl1 HA1 HW1 Hc Q1) as Q2.
        destruct r as [[i sti]|]; mstep; exact Q2.
      + eapply IHt; eassumption.
      + eapply IHt; eassumption.
      + (* parallel loop *)
        mstep as n g1 E1.
        destruct (pre_quiet _ _ _ _ (Eff_Fr _ _ _ (read_limit_eff _ _ _ _ _ _ E1)) (limit_N _ _ _ _ _ _ E1) Hl HA HW)
          as (Hl1 & HA1 & HW1).
        pose proof (QW_limit _ _ _ _ _ _ _ _ E1 HQ Hc) as Q1.
        mstep as sts g2 E2.
        pose proof (IHl _ _ _ _ _ _ _ _ E2 Hl1 HA1 HW1 Hc Q1) as Q2.
        destruct (all_done sts); mstep; exact Q2.
    - (* run_block *)
      intros ctx ie ss i g r g' L0 L O0 H Hl HA HW Hc HQ. cbn [run_block] in H.
      destruct (nth_error ss i) as [s1|] eqn:Hn.
      + mstep as st g1 E1.
        pose proof (Eff_Fr _ _ _ (proj1 (start_eff orc imm f) _ _ _ _ _ _ E1)) as (F1 & F2 & F3).
        destruct (LFs _ _ _ _ _ _ _ _ E1 Hl HA HW Hc) as (L1 & A1 & W1 & P1).
        pose proof (IHs _ _ _ _ _ _ _ _ _ E1 Hl HA HW Hc HQ L1 A1) as Q1.
        destruct (is_done st) eqn:D.
        * assert (Hl1 : lst_all (g_ls g1)) by (rewrite F1; exact Hl).
          pose proof (copen_grow _ _ _ _ Hc P1) as Hc1.
          exact (IHb _ _ _ _ _ _ _ _ _ _ H Hl1 A1 W1 Hc1 Q1).
        * mstep. intros L' HA'. rewrite <- (Acc_fun _ _ _ _ A1 HA'). exact Q1.
      + mstep. intros L' HA'. rewrite <- (Acc_fun _ _ _ _ HA HA'). exact HQ.
    - (* start_list *)
      intros ctx l g sts g' L0 L O0 H Hl HA HW Hc HQ. cbn [start_list] in H.
      destruct l as [|[ie b] r].
      + mstep. intros L' HA'. rewrite <- (Acc_fun _ _ _ _ HA HA'). exact HQ.
      + mstep as st g1 E1.
        pose proof (Eff_Fr _ _ _ (proj1 (start_eff orc imm f) _ _ _ _ _ _ E1)) as (F1 & F2 & F3).
        destruct (LFs _ _ _ _ _ _ _ _ E1 Hl HA HW Hc) as (L1 & A1 & W1 & P1).
        pose proof (IHs _ _ _ _ _ _ _ _ _ E1 Hl HA HW Hc HQ L1 A1) as Q1.
        mstep as sts1 g2 E2.
        assert (Hl1 : lst_all (g_ls g1)) by (rewrite F1; exact Hl).
        pose proof (copen_grow _ _ _ _ Hc P1) as Hc1.
        pose proof (IHl _ _ _ _ _ _ _ _ E2 Hl1 A1 W1 Hc1 Q1) as Q2.
        mstep. exact Q2.
    - (* loop_test *)
      intros ctx ie s k g st g' L0 L O0 H Hl HA HW Hc HQ. cbn [loop_test] in H.
      destruct s as [n at_ ins|t at_ ins body|bs|e p fl|e b|v lim b|v lim c]; try discriminate.
      + mstep as bb g1 E1.
        destruct (pre_quiet _ _ _ _ (Eff_Fr _ _ _ (decide_m_eff _ _ _ _ _ _ E1)) (decide_N _ _ _ _ _ _ E1) Hl HA HW)
          as (Hl1 & HA1 & HW1).
        pose proof (QW_decide _ _ _ _ _ _ _ _ E1 HQ Hc) as Q1.
        destruct bb.
        * mstep as r g2 E2.
          pose proof (Eff_Fr _ _ _ (proj1 (proj2 (start_eff orc imm f)) _ _ _ _ _ _ _ E2)) as (F1 & F2 & F3).
          destruct (LFb _ _ _ _ _ _ _ _ _ E2 Hl1 HA1 HW1 Hc) as (L2 & A2 & W2 & P2).
          pose proof (IHb _ _ _ _ _ _ _ _ _ _ E2 Hl1 HA1 HW1 Hc Q1 L2 A2) as Q2.
          destruct r as [[i sti]|].
          -- mstep. intros L' HA'. rewrite <- (Acc_fun _ _ _ _ A2 HA'). exact Q2.
          -- assert (Hl2 : lst_all (g_ls g2)) by (rewrite F1; exact Hl1).
             pose proof (copen_grow _ _ _ _ Hc P2) as Hc2.
             exact (IHt _ _ _ _ _ _ _ _ _ _ H Hl2 A2 W2 Hc2 Q2).
        * mstep. intros L' HA'. rewrite <- (Acc_fun _ _ _ _ HA1 HA'). exact Q1.
      + mstep as n g1 E1.
        destruct (pre_quiet _ _ _ _ (Eff_Fr _ _ _ (read_limit_eff _ _ _ _ _ _ E1)) (limit_N _ _ _ _ _ _ E1) Hl HA HW)
          as (Hl1 & HA1 & HW1).
        pose proof (QW_limit _ _ _ _ _ _ _ _ E1 HQ Hc) as Q1.
        destruct (Z.of_nat k <? n)%Z.
        * mstep as r g2 E2.
          pose proof (Eff_Fr _ _ _ (proj1 (proj2 (start_eff orc imm f)) _ _ _ _ _ _ _ E2)) as (F1 & F2 & F3).
          destruct (LFb _ _ _ _ _ _ _ _ _ E2 Hl1 HA1 HW1 Hc) as (L2 & A2 & W2 & P2).
          pose proof (IHb _ _ _ _ _ _ _ _ _ _ E2 Hl1 HA1 HW1 Hc Q1 L2 A2) as Q2.
          destruct r as [[i sti]|].
          -- mstep. intros L' HA'. rewrite <- (Acc_fun _ _ _ _ A2 HA'). exact Q2.
          -- assert (Hl2 : lst_all (g_ls g2)) by (rewrite F1; exact Hl1).
             pose proof (copen_grow _ _ _ _ Hc P2) as Hc2.
             exact (IHt _ _ _ _ _ _ _ _ _ _ H Hl2 A2 W2 Hc2 Q2).
        * mstep. intros L' HA'. rewrite <- (Acc_fun _ _ _ _ HA1 HA'). exact Q1.
  Qed.

  (* ---- the deliver family ---- *)
  Definition qpost {A} (L0 : life) (O0 : list nat) (g' : G) (r : option A) : Prop :=
    match r with
    | None => True
    | Some _ => forall L', Acc L0 g' L' -> QW O0 g' L'
    end.

  Lemma deliver_q : forall f,
      (forall ctx ie s st id g r g' L0 L F O0,
          deliver orc imm f ctx ie s st id g = Ok (r, g') ->
          lst_all (g_ls g) -> Acc L0 g L -> W L (g_tid g) (g_sid g) ->
          (forall tk, Permutation (sel tk L) (opn tk ctx s st ++ F tk)) ->
          copen ctx (F true) -> sep F (map oi_id (opn true ctx s st)) ->
          QW O0 g L -> qpost L0 O0 g' r) /\
      (forall ctx ie ss i sti id g r g' L0 L F O0,
          deliver_block orc imm f ctx ie ss i sti id g = Ok (r, g') ->
          lst_all (g_ls g) -> Acc L0 g L -> W L (g_tid g) (g_sid g) ->
          (forall tk, Permutation (sel tk L) (opn_opt tk ctx ss (Some (i, sti)) ++ F tk)) ->
          copen ctx (F true) -> sep F (map oi_id (opn_opt true ctx ss (Some (i, sti)))) ->
          QW O0 g L -> qpost L0 O0 g' r) /\
      (forall ctx l sts id g r g' L0 L F O0,
          deliver_list orc imm f ctx l sts id g = Ok (r, g') ->
          lst_all (g_ls g) -> Acc L0 g L -> W L (g_tid g) (g_sid g) ->
          (forall tk, Permutation (sel tk L) (opn_list tk ctx (map snd l) sts ++ F tk)) ->
          copen ctx (F true) -> sep F (map oi_id (opn_list true ctx (map snd l) sts)) ->
          QW O0 g L -> qpost L0 O0 g' r).
  Proof.
    induction f as [|f IH]; [split; [|split]; intros; discriminate|].
    destruct IH as (IHd & IHb & IHl).
    destruct (deliver_life orc imm f) as (LFd & LFb & LFl).
    split; [|split].
    - (* deliver *)
      intros ctx ie s st id g r g' L0 L F O0 H Hl HA HW HP HF Hsep HQ. cbn [deliver] in H.
      destruct s as [n at_ ins|t at_ ins body|bs|e p fl|e b|v lim b|v lim c];
        destruct st as [|id'|cid i sti|sts|bb i sti|k i sti|sts];
        try (mstep; exact I).
      + (* service *)
        destruct (Nat.eqb id id') eqn:Eq; [|mstep; exact I].
        apply Nat.eqb_eq in Eq. subst id'.
        mstep as u g1 E1. destruct (emit_frame _ _ _ _ _ E1) as (C1 & C2 & C3).
        pose proof (emit_N _ _ _ _ _ E1 Hl) as C4. mstep.
        destruct (life_SF L _ _ n at_ id (Some ctx) (subst_params ie ins) F HW HP) as (L1 & S1 & W1 & P1).
        intros L' HA'.
        assert (A1 : Acc L0 g1 L1).
        { eapply Acc_app; [exact HA|exact C4|]. cbn [life_run]. rewrite S1. reflexivity. }
        rewrite <- (Acc_fun _ _ _ _ A1 HA').
        eapply QW_emit; [exact E1|exact Hl|exact HQ|exact (W_nodup _ _ _ HW)|exact S1].
      + (* call *)
        mstep as r1 g1 E1.
        pose proof (dres_ls _ _ _ _ _ _ (proj1 (proj2 (deliver_eff orc imm f)) _ _ _ _ _ _ _ _ _ E1)) as Ls1.
        set (T := inst cid (Some ctx) t at_) in *.
        set (F' := fun tk : bool => (if tk then [T] else []) ++ F tk).
        assert (HP0 : forall tk, Permutation (sel tk L)
                 (((if tk then [T] else []) ++ opn_opt tk cid body (Some (i, sti))) ++ F tk)) by exact HP.
        assert (Hsep0 : sep F (cid :: map oi_id (opn_opt true cid body (Some (i, sti))))) by exact Hsep.
        assert (HP' : forall tk, Permutation (sel tk L) (opn_opt tk cid body (Some (i, sti)) ++ F' tk)).
        { unfold F'. clear - HP0. perm. }
        assert (HF' : copen cid (F' true)).
        { exists T. split; [left; reflexivity|reflexivity]. }
        assert (Hsep' : sep F' (map oi_id (opn_opt true cid body (Some (i, sti))))).
        { apply (sep_extend F (fun tk : bool => if tk then [T] else []) _ ctx).
          - eapply sep_sub; [exact Hsep0|]. intros x Hx. right. exact Hx.
          - intros tk o Hi. destruct tk; [|contradiction]. destruct Hi as [<-|[]]. left. reflexivity.
          - intro Hi. destruct HF as (o' & Ho' & Hid').
            eapply (nd_disj _ _ _ ctx (w_nd _ _ _ HW) (HP0 true)).
            + rewrite map_app. apply in_or_app. right. exact Hi.
            + rewrite <- Hid'. apply in_map. exact Ho'.
          - intros t0 Ht0 Hi. destruct Ht0 as [<-|[]].
            assert (Q : Permutation (lf_tasks L) ([T] ++ (opn_opt true cid body (Some (i, sti)) ++ F true))).
            { specialize (HP0 true). cbn [sel] in HP0. clear - HP0. perm. }
            eapply (nd_disj _ _ _ cid (w_nd _ _ _ HW) Q).
            + left. reflexivity.
            + rewrite map_app. apply in_or_app. left. exact Hi. }
        pose proof (LFb _ _ _ _ _ _ _ _ _ _ _ _ E1 Hl HA HW HP' HF' Hsep') as R1.
        pose proof (IHb _ _ _ _ _ _ _ _ _ _ _ _ _ E1 Hl HA HW HP' HF' Hsep' HQ) as Q1.
        destruct r1 as [[[j st']|]|]; cbn [dpost] in R1; cbn [qpost] in Q1.
        * mstep. exact Q1.
        * destruct R1 as (L1 & A1 & W1 & P1).
          mstep as u g2 E2. destruct (emit_frame _ _ _ _ _ E2) as (C1 & C2 & C3).
          pose proof (emit_N _ _ _ _ _ E2 ltac:(rewrite Ls1; exact Hl)) as C4. mstep.
          destruct (life_TF L1 _ _ t at_ cid (Some ctx) (subst_params ie ins) F W1) as (L2 & S2 & W2 & P2).
          { fold T. unfold F' in P1. cbn [opn_opt] in P1. clear - P1. perm. }
          { intros tk o Hi. apply (Hsep0 tk o cid Hi). left. reflexivity. }
          intros L' HA'.
          assert (A2 : Acc L0 g2 L2).
          { eapply Acc_app; [exact A1|exact C4|]. cbn [life_run]. rewrite S2. reflexivity. }
          rewrite <- (Acc_fun _ _ _ _ A2 HA').
          eapply QW_emit; [exact E2|rewrite Ls1; exact Hl|exact (Q1 L1 A1)|exact (W_nodup _ _ _ W1)|exact S2].
        * mstep. exact I.
      + (* parallel *)
        mstep as r1 g1 E1.
        assert (HP' : forall tk, Permutation (sel tk L)
                   (opn_list tk ctx (map snd (map (fun b => (ie, b)) bs)) sts ++ F tk)).
        { intro tk. rewrite map_snd_pair, <- opn_par. apply HP. }
        assert (Hsep' : sep F (map oi_id (opn_list true ctx (map snd (map (fun b => (ie, b)) bs)) sts))).
        { rewrite map_snd_pair, <- opn_par. exact Hsep. }
        pose proof (IHl _ _ _ _ _ _ _ _ _ _ _ E1 Hl HA HW HP' HF Hsep' HQ) as Q1.
        destruct r1 as [sts'|]; cbn [qpost] in Q1; [|mstep; exact I].
        destruct (all_done sts'); mstep; exact Q1.
      + (* condition *)
        mstep as r1 g1 E1.
        pose proof (IHb _ _ _ _ _ _ _ _ _ _ _ _ _ E1 Hl HA HW HP HF Hsep HQ) as Q1.
        destruct r1 as [[[j st']|]|]; cbn [qpost] in Q1; mstep; exact Q1.
      + (* while *)
        mstep as r1 g1 E1.
        pose proof (dres_ls _ _ _ _ _ _ (proj1 (proj2 (deliver_eff orc imm f)) _ _ _ _ _ _ _ _ _ E1)) as Ls1.
        pose proof (LFb _ _ _ _ _ _ _ _ _ _ _ _ E1 Hl HA HW HP HF Hsep) as R1.
        pose proof (IHb _ _ _ _ _ _ _ _ _ _ _ _ _ E1 Hl HA HW HP HF Hsep HQ) as Q1.
        destruct r1 as [[[j st']|]|]; cbn [dpost] in R1; cbn [qpost] in Q1.
        * mstep. exact Q1.
        * destruct R1 as (L1 & A1 & W1 & P1).
          mstep as st' g2 E2.
          pose proof (proj2 (proj2 (proj2 (start_q f))) _ _ _ _ _ _ _ _ _ _ E2
                            ltac:(rewrite Ls1; exact Hl) A1 W1 (copen_F _ _ _ _ HF P1) (Q1 L1 A1)) as Q2.
          mstep. exact Q2.
        * mstep. exact I.
      + (* counting loop *)
        mstep as r1 g1 E1.
        pose proof (dres_ls _ _ _ _ _ _ (proj1 (proj2 (deliver_eff orc imm f)) _ _ _ _ _ _ _ _ _ E1)) as Ls1.
        pose proof (LFb _ _ _ _ _ _ _ _ _ _ _ _ E1 Hl HA HW HP HF Hsep) as R1.
        pose proof (IHb _ _ _ _ _ _ _ _ _ _ _ _ _ E1 Hl HA HW HP HF Hsep HQ) as Q1.
        destruct r1 as [[[j st']|]|]; cbn [dpost] in R1; cbn [qpost] in Q1.
        * mstep. exact Q1.
        * destruct R1 as (L1 & A1 & W1 & P1).
          mstep as st' g2 E2.
          pose proof (proj2 (proj2 (proj2 (start_q f))) _ _ _ _ _ _ _ _ _ _ E2
                            ltac:(rewrite Ls1; exact Hl) A1 W1 (copen_F _ _ _ _ HF P1) (Q1 L1 A1)) as Q2.
          mstep. exact Q2.
        * mstep. exact I.
      + (* parallel loop *)
        mstep as r1 g1 E1.
        assert (HP' : forall tk, Permutation (sel tk L)
                   (opn_list tk ctx (map snd (insts ie v c (List.length sts))) sts ++ F tk)).
        { intro tk. rewrite (opn_list_insts _ _ _ _ _ _ _ eq_refl), <- (opn_parloop tk ctx v lim). apply HP. }
        assert (Hsep' : sep F (map oi_id (opn_list true ctx (map snd (insts ie v c (List.length sts))) sts))).
        { rewrite (opn_list_insts _ _ _ _ _ _ _ eq_refl), <- (opn_parloop true ctx v lim). exact Hsep. }
        pose proof (IHl _ _ _ _ _ _ _ _ _ _ _ E1 Hl HA HW HP' HF Hsep' HQ) as Q1.
        destruct r1 as [sts'|]; cbn [qpost] in Q1; [|mstep; exact I].
        destruct (all_done sts'); mstep; exact Q1.
    - (* deliver_block *)
      intros ctx ie ss i sti id g r g' L0 L F O0 H Hl HA HW HP HF Hsep HQ. cbn [deliver_block] in H.
      cbn [opn_opt] in HP, Hsep.
      destruct (nth_error ss i) as [s1|] eqn:Hn; [|mstep; exact I].
      mstep as r1 g1 E1.
      pose proof (dres_ls _ _ _ _ _ _ (proj1 (deliver_eff orc imm f) _ _ _ _ _ _ _ _ E1)) as Ls1.
      pose proof (LFd _ _ _ _ _ _ _ _ _ _ _ E1 Hl HA HW HP HF Hsep) as R1.
      pose proof (IHd _ _ _ _ _ _ _ _ _ _ _ _ E1 Hl HA HW HP HF Hsep HQ) as Q1.
      destruct r1 as [st'|]; cbn [dpost] in R1; cbn [qpost] in Q1; [|mstep; exact I].
      destruct R1 as (L1 & A1 & W1 & P1).
      destruct (is_done st') eqn:D.
      + mstep as r' g2 E2.
        pose proof (proj1 (proj2 (start_q f)) _ _ _ _ _ _ _ _ _ _ E2
                          ltac:(rewrite Ls1; exact Hl) A1 W1 (copen_F _ _ _ _ HF P1) (Q1 L1 A1)) as Q2.
        mstep. exact Q2.
      + mstep. exact Q1.
    - (* deliver_list *)
      intros ctx l sts id g r g' L0 L F O0 H Hl HA HW HP HF Hsep HQ. cbn [deliver_list] in H.
      destruct l as [|[ie b] br]; [mstep; exact I|].
      destruct sts as [|st sr]; [mstep; exact I|].
      cbn [map snd opn_list] in HP, Hsep. rewrite map_app in Hsep.
      set (A := fun tk : bool => opn tk ctx b st) in *.
      set (B := fun tk : bool => opn_list tk ctx (map snd br) sr) in *.
      assert (HPt : Permutation (lf_tasks L) (A true ++ (B true ++ F true))).
      { specialize (HP true). cbn [sel] in HP. unfold A, B. clear - HP. perm. }
      assert (HPt' : Permutation (lf_tasks L) (B true ++ (A true ++ F true))).
      { specialize (HP true). cbn [sel] in HP. unfold A, B. clear - HP. perm. }
      assert (NoA : ~ In ctx (map oi_id (A true))).
      { intro Hi. destruct HF as (o' & Ho' & Hid').
        eapply (nd_disj _ _ _ ctx (w_nd _ _ _ HW) HPt); [exact Hi|].
        rewrite map_app. apply in_or_app. right. rewrite <- Hid'. apply in_map. exact Ho'. }
      assert (NoB : ~ In ctx (map oi_id (B true))).
      { intro Hi. destruct HF as (o' & Ho' & Hid').
        eapply (nd_disj _ _ _ ctx (w_nd _ _ _ HW) HPt'); [exact Hi|].
        rewrite map_app. apply in_or_app. right. rewrite <- Hid'. apply in_map. exact Ho'. }
      mstep as r1 g1 E1.
      pose proof (proj1 (deliver_eff orc imm f) _ _ _ _ _ _ _ _ E1) as DE1.
      assert (HP1 : forall tk, Permutation (sel tk L) (A tk ++ (fun tk => B tk ++ F tk) tk)).
      { unfold A, B. clear - HP. perm. }
      assert (HF1 : copen ctx ((fun tk => B tk ++ F tk) true)).
      { destruct HF as (o' & Ho' & Hid'). exists o'. split; [apply in_or_app; right; exact Ho'|exact Hid']. }
      assert (Hsep1 : sep (fun tk => B tk ++ F tk) (map oi_id (A true))).
      { apply (sep_extend F B _ ctx).
        - eapply sep_sub; [exact Hsep|]. intros x Hx. apply in_or_app. left. exact Hx.
        - apply opn_list_ctx.
        - exact NoA.
        - intros t0 Ht0 Hi. eapply (nd_disj _ _ _ t0 (w_nd _ _ _ HW) HPt); [exact Hi|].
          rewrite map_app. apply in_or_app. left. exact Ht0. }
      pose proof (IHd _ _ _ _ _ _ _ _ _ _ _ _ E1 Hl HA HW HP1 HF1 Hsep1 HQ) as Q1.
      destruct r1 as [st'|]; cbn [qpost dres] in Q1, DE1.
      + mstep. exact Q1.
      + subst g1. mstep as r2 g2 E2.
        assert (HP2 : forall tk, Permutation (sel tk L) (B tk ++ (fun tk => A tk ++ F tk) tk)).
        { unfold A, B. clear - HP. perm. }
        assert (HF2 : copen ctx ((fun tk => A tk ++ F tk) true)).
        { destruct HF as (o' & Ho' & Hid'). exists o'. split; [apply in_or_app; right; exact Ho'|exact Hid']. }
        assert (Hsep2 : sep (fun tk => A tk ++ F tk) (map oi_id (B true))).
        { apply (sep_extend F A _ ctx).
          - eapply sep_sub; [exact Hsep|]. intros x Hx. apply in_or_app. right. exact Hx.
          - apply opn_ctx.
          - exact NoB.
          - intros t0 Ht0 Hi. eapply (nd_disj _ _ _ t0 (w_nd _ _ _ HW) HPt'); [exact Hi|].
            rewrite map_app. apply in_or_app. left. exact Ht0. }
        pose proof (IHl _ _ _ _ _ _ _ _ _ _ _ E2 Hl HA HW HP2 HF2 Hsep2 HQ) as Q2.
        destruct r2 as [sr'|]; cbn [qpost] in Q2; mstep; [exact Q2|exact I].
  Qed.
End Ctx.

(* ===================================================================== *)
(* 5. API calls and whole scripts                                          *)
(* ===================================================================== *)
Section Api4.
  Variable orc : oracle.
  Variable imm : nat -> bool.
  Variable body : list xstmt.

  Lemma finish_root_q : forall L0 O0 L g u g',
      finish_root g = Ok (u, g') -> lst_all (g_ls g) ->
      Acc L0 g L -> W L (g_tid g) (g_sid g) -> (forall tk, Permutation (sel tk L) (rootF tk)) ->
      QW O0 g L -> forall L', Acc L0 g' L' -> QW O0 g' L'.
  Proof.
    intros L0 O0 L g u g' H Hl HA HW HP HQ L' HA'. unfold finish_root in H.
    mstep as u1 g1 E1. unfold set_running in H. inv H.
    pose proof (emit_N _ _ _ _ _ E1 Hl) as C4.
    destruct (life_TF L _ _ production_task root_site 0 None [] (fun _ => []) HW) as (L1 & S1 & W1 & P1).
    - intro tk. rewrite app_nil_r. apply HP.
    - intros tk o [].
    - assert (A1 : Acc L0 (g1 <| g_running := false |>) L1).
      { eapply Acc_app; [exact HA| |].
        - change (N (g1 <| g_running := false |>)) with (N g1). exact C4.
        - cbn [life_run]. rewrite S1. reflexivity. }
      rewrite <- (Acc_fun _ _ _ _ A1 HA').
      apply (QW_same O0 g1); [|reflexivity].
      eapply QW_emit; [exact E1|exact Hl|exact HQ|exact (W_nodup _ _ _ HW)|exact S1].
  Qed.

  Lemma start_step_q : forall f s st g',
      Inv body s life0 -> sc_root s = None -> g_tid (sc_g s) = 0 ->
      (set_running true ;;;
       id <- fresh_t ;;
       emit (mk TS production_task root_site id None []) ;;;
       r <- run_block orc imm f id [] body 0 ;;
       match r with
       | None => finish_root ;;; ret RDone
       | Some (i, st) => ret (RCall id i st)
       end) (clear_log (sc_g s)) = Ok (st, g') ->
      forall L', Acc life0 g' L' -> QW [] g' L'.
  Proof.
    intros f s st g' (Hl & _) Hroot Htid H.
    set (g0 := clear_log (sc_g s)) in *.
    mstep as u1 g1 E1. unfold set_running in E1. inv E1.
    set (g1 := g0 <| g_running := true |>) in *.
    assert (Hl1 : lst_all (g_ls g1)) by exact Hl.
    mstep as id g2 E2. mstep as u3 g3 E3.
    destruct (tstart_N _ _ _ _ _ _ _ _ _ E2 E3) as (-> & B1 & B2 & B3 & B4). specialize (B4 Hl1).
    change (g_tid g1) with (g_tid (sc_g s)) in *. rewrite Htid in *.
    change (N g1) with (@nil notif) in B4. cbn [app] in B4.
    set (L1 := {| lf_tasks := [rootT]; lf_svcs := []; lf_used_t := [0]; lf_used_s := []; lf_seen_any := true |}).
    assert (A3 : Acc life0 g3 L1) by (unfold Acc; rewrite B4; reflexivity).
    assert (W3 : W L1 (g_tid g3) (g_sid g3)).
    { rewrite B2. constructor; cbn.
      - reflexivity.
      - constructor; [lia|constructor].
      - constructor.
      - intros tk o c0 Hi Hc. destruct tk; cbn in Hi; [|contradiction]. destruct Hi as [<-|[]]. discriminate.
      - constructor; [cbn; lia|constructor].
      - constructor; [intros []|constructor]. }
    assert (Hl3 : lst_all (g_ls g3)) by (rewrite B1; exact Hl1).
    assert (Hc3 : copen 0 (lf_tasks L1)) by (exists rootT; split; [left; reflexivity|reflexivity]).
    assert (Q3 : QW [] g3 L1).
    { unfold fresh_t in E2. inv E2.
      eapply (QW_emit [] _ _ _ _ _ life0 L1); [exact E3|exact Hl1|reflexivity|constructor|reflexivity]. }
    mstep as r g4 E4.
    pose proof (Eff_Fr _ _ _ (proj1 (proj2 (start_eff orc imm f)) _ _ _ _ _ _ _ E4)) as (F1 & F2 & F3).
    destruct (proj1 (proj2 (start_life orc imm f)) _ _ _ _ _ _ _ _ _ E4 Hl3 A3 W3 Hc3) as (L4 & A4 & W4 & P4).
    pose proof (proj1 (proj2 (start_q orc imm f)) _ _ _ _ _ _ _ _ _ _ E4 Hl3 A3 W3 Hc3 Q3 L4 A4) as Q4.
    destruct r as [[i sti]|].
    - mstep. intros L' HA'. rewrite <- (Acc_fun _ _ _ _ A4 HA'). exact Q4.
    - mstep as u5 g5 E5. mstep.
      exact (finish_root_q life0 [] L4 _ _ _ E5 ltac:(rewrite F1; exact Hl3) A4 W4 P4 Q4).
  Qed.

  Lemma finish_step_q : forall f s L id i sti st g',
      Inv body s L -> sc_root s = Some (RCall 0 i sti) ->
      (unawait id ;;;
       r <- deliver_block orc imm f 0 [] body i sti id ;;
       match r with
       | None => lift Unsupported
       | Some None => finish_root ;;; ret RDone
       | Some (Some (j, st')) => ret (RCall 0 j st')
       end) (clear_log (sc_g s)) = Ok (st, g') ->
      forall L', Acc L g' L' -> QW (ids L) g' L'.
  Proof.
    intros f s L id i sti st g' (Hl & Hr) Hroot H. rewrite Hroot in Hr. destruct Hr as (_ & HW & HP).
    set (g0 := clear_log (sc_g s)) in *.
    mstep as u1 g1 E1. unfold unawait in E1.
    match type of E1 with match ?X with _ => _ end = _ => destruct X as [aw1|] end; [|discriminate].
    unfold set_awaited in E1. inv E1.
    set (g1 := g0 <| g_awaited := aw1 |>) in *.
    assert (Hl1 : lst_all (g_ls g1)) by exact Hl.
    assert (A1 : Acc L g1 L) by reflexivity.
    assert (W1 : W L (g_tid g1) (g_sid g1)) by exact HW.
    assert (Q1 : QW (ids L) g1 L) by reflexivity.
    mstep as r g2 E2.
    pose proof (dres_ls _ _ _ _ _ _ (proj1 (proj2 (deliver_eff orc imm f)) _ _ _ _ _ _ _ _ _ E2)) as Ls2.
    assert (Hsep : sep rootF (map oi_id (opn_opt true 0 body (Some (i, sti))))).
    { intros tk o t Hi _. destruct tk; [|contradiction]. destruct Hi as [<-|[]]. discriminate. }
    assert (HF : copen 0 (rootF true)) by (exists rootT; split; [left; reflexivity|reflexivity]).
    pose proof (proj1 (proj2 (deliver_life orc imm f)) _ _ _ _ _ _ _ _ _ _ _ _ E2 Hl1 A1 W1 HP HF Hsep) as R2.
    pose proof (proj1 (proj2 (deliver_q orc imm f)) _ _ _ _ _ _ _ _ _ _ _ _ _ E2 Hl1 A1 W1 HP HF Hsep Q1) as Q2.
    destruct r as [[[j st']|]|]; cbn [dpost] in R2; cbn [qpost] in Q2; [| |discriminate].
    - mstep. exact Q2.
    - destruct R2 as (L2 & A2 & W2 & P2).
      mstep as u5 g5 E5. mstep.
      exact (finish_root_q L (ids L) L2 _ _ _ E5 ltac:(rewrite Ls2; exact Hl1) A2 W2 P2 (Q2 L2 A2)).
  Qed.

  (* one API call: the monitor reads the call's log from the open task instances of the
     lifecycle state before the call and arrives at those of the lifecycle state after it *)
  Lemma api_step_q : forall f s L c b s' L',
      Inv body s L -> api_call orc imm f body s c = Ok (b, s') ->
      life_run L (map fst (ee_notifs (cr_log (observe b s')))) = Some L' ->
      c04_log (ids L) (cr_log (observe b s')) = Some (ids L').
  Proof.
    intros f s L c b s' L' HI H HR.
    assert (Quiet : forall b0 ls obs,
               let s0 := {| sc_g := clear_log (sc_g s) <| g_ls := ls |> <| g_obs := obs |>; sc_root := sc_root s |} in
               life_run L (map fst (ee_notifs (cr_log (observe b0 s0)))) = Some L' ->
               c04_log (ids L) (cr_log (observe b0 s0)) = Some (ids L')).
    { intros b0 ls obs s0 HR0. cbn in HR0. inv HR0. reflexivity. }
    destruct c as [|id| |k l|o|o]; cbn [api_call] in H.
    - (* start *)
      destruct (sc_root s) as [r0|] eqn:Hroot.
      + inv H. exact (Quiet true (g_ls (sc_g s)) (g_obs (sc_g s)) HR).
      + match type of H with match ?X with _ => _ end = _ => destruct X as [[st g']| | |] eqn:E end;
          try discriminate. inv H.
        pose proof HI as (_ & Hr). rewrite Hroot in Hr. destruct Hr as [-> Htid].
        exact (start_step_q f _ _ _ HI Hroot Htid E L' HR).
    - (* completion *)
      change (g_awaited (clear_log (sc_g s))) with (g_awaited (sc_g s)) in H.
      destruct (mem id (g_awaited (sc_g s))).
      + destruct (sc_root s) as [[|id'|cid i sti|sts|bb i sti|k i sti|sts]|] eqn:Hroot; try discriminate.
        match type of H with match ?X with _ => _ end = _ => destruct X as [[st g']| | |] eqn:E end;
          try discriminate. inv H.
        pose proof HI as (_ & Hr). rewrite Hroot in Hr. destruct Hr as (-> & _).
        exact (finish_step_q f _ _ id _ _ _ _ HI Hroot E L' HR).
      + inv H. exact (Quiet false (g_ls (sc_g s)) (g_obs (sc_g s)) HR).
    - inv H. exact (Quiet false (g_ls (sc_g s)) (g_obs (sc_g s)) HR).
    - change (g_ls (clear_log (sc_g s))) with (g_ls (sc_g s)) in H.
      destruct (existsb (fun p => nkind_eqb (fst p) k && Nat.eqb (snd p) l) (g_ls (sc_g s))); inv H.
      + exact (Quiet false (g_ls (sc_g s)) (g_obs (sc_g s)) HR).
      + exact (Quiet true (g_ls (sc_g s) ++ [(k, l)]) (g_obs (sc_g s)) HR).
    - inv H. exact (Quiet true (g_ls (sc_g s)) (g_obs (sc_g s) ++ [o]) HR).
    - change (g_obs (clear_log (sc_g s))) with (g_obs (sc_g s)) in H.
      destruct (remove_first (Nat.eqb o) (g_obs (sc_g s))) as [l|]; [|discriminate]. inv H.
      exact (Quiet true (g_ls (sc_g s)) l HR).
  Qed.

  Theorem C04_run : forall f cs s L tr,
      Inv body s L -> run_script orc imm f body s cs = Ok tr -> c04_run (ids L) tr = true.
  Proof.
    intros f cs. induction cs as [|c cs IH]; intros s L tr HI H; cbn [run_script] in H.
    - inv H. reflexivity.
    - destruct (api_call orc imm f body s c) as [[b s']| | |] eqn:E; try discriminate.
      cbn [rbind] in H.
      destruct (run_script orc imm f body s' cs) as [t| | |] eqn:E2; try discriminate.
      cbn [rbind] in H. inv H.
      destruct (api_step _ _ _ _ _ _ _ _ _ HI E) as (L' & (S1 & S2 & S3) & S4).
      cbn [c04_run]. rewrite (api_step_q _ _ _ _ _ _ _ HI E S2). eapply IH; eassumption.
  Qed.
End Api4.

(* Every run of the reference semantics, for every program body, oracle, choice of
   immediate completions, amount of fuel and every script of API calls: every oracle query
   names an open task instance. *)
Theorem C04_query_context_ref : forall orc imm body f cs tr,
    run_script orc imm f body sched0 cs = Ok tr -> holds_C04q tr = true.
Proof.
  intros orc imm body f cs tr H. unfold holds_C04q.
  change (@nil nat) with (ids life0).
  eapply C04_run; [|exact H].
  split; [apply lst_all_default|]. cbn. split; reflexivity.
Qed.

Theorem C04_query_context_programs : forall (c : runcase) (tr : list callrec),
    run_ref c = Ok tr -> mon_C04q c tr = true.
Proof.
  intros c tr H. unfold run_ref in H.
  destruct (existsb _ (rc_react c)); [discriminate|].
  destruct (unfold_program (p_tasks (rc_prog c)) 200) as [body| | |]; try discriminate.
  cbn [rbind] in H. eapply C04_query_context_ref; exact H.
Qed.

(* ===================================================================== *)
(* 6. what the monitor means, declaratively                                *)
(* ===================================================================== *)
(* notifications of kind k about instance id that function 0 received *)
Definition is_tn (k : nkind) (id : nat) (e : entry) : bool :=
  match e with
  | ENotif 0 n _ => nkind_eqb (n_kind n) k && Nat.eqb (n_id n) id
  | _ => false
  end.
Definition tcount (k : nkind) (id : nat) (log : list entry) : nat := List.length (filter (is_tn k id) log).

Lemma remove_first_count : forall (l l' : list nat) x id,
    remove_first (Nat.eqb x) l = Some l' ->
    count_occ Nat.eq_dec l id = count_occ Nat.eq_dec l' id + (if Nat.eqb x id then 1 else 0).
Proof.
  induction l as [|y l IH]; intros l' x id H; cbn in H; [discriminate|].
  destruct (Nat.eqb x y) eqn:E.
  - inv H. apply Nat.eqb_eq in E. subst y. cbn [count_occ].
    destruct (Nat.eq_dec x id) as [->|Hne].
    + rewrite Nat.eqb_refl. lia.
    + destruct (Nat.eqb x id) eqn:E2; [apply Nat.eqb_eq in E2; contradiction|lia].
  - destruct (remove_first (Nat.eqb x) l) as [t|] eqn:R; [|discriminate]. inv H.
    cbn [count_occ]. rewrite (IH _ _ id R). destruct (Nat.eq_dec y id); lia.
Qed.

Lemma tcount_cons : forall k id e log,
    tcount k id (e :: log) = (if is_tn k id e then 1 else 0) + tcount k id log.
Proof. intros. unfold tcount. cbn [filter]. destruct (is_tn k id e); reflexivity. Qed.

(* bookkeeping of the open list: occurrences of an identifier = started - finished *)
Lemma c04_log_count : forall log O O' id,
    c04_log O log = Some O' ->
    count_occ Nat.eq_dec O' id + tcount TF id log = count_occ Nat.eq_dec O id + tcount TS id log.
Proof.
  induction log as [|e log IH]; intros O O' id H; cbn [c04_log] in H.
  - inv H. reflexivity.
  - destruct (c04_entry O e) as [O1|] eqn:E; [|discriminate]. specialize (IH _ _ id H).
    rewrite !tcount_cons.
    destruct e as [[|l0] n r|o kk nm i fl|v cc|fi|fi fr]; cbn [c04_entry is_tn] in *;
      try (inv E; lia).
    + unfold c04_notif in E. destruct (n_kind n) eqn:K; cbn [nkind_eqb andb].
      * inv E. cbn [count_occ] in IH.
        destruct (Nat.eq_dec (n_id n) id) as [Hx|Hx].
        -- rewrite Hx, Nat.eqb_refl in *. lia.
        -- destruct (Nat.eqb (n_id n) id) eqn:E2; [apply Nat.eqb_eq in E2; contradiction|lia].
      * rewrite (remove_first_count _ _ _ id E). lia.
      * inv E. lia.
      * inv E. lia.
    + destruct (mem cc O); inv E. lia.
Qed.

Lemma c04_run_concat : forall tr O,
    c04_run O tr = true -> exists O', c04_log O (concat (map cr_log tr)) = Some O'.
Proof.
  induction tr as [|r tr IH]; intros O H; cbn [c04_run] in H.
  - exists O. reflexivity.
  - destruct (c04_log O (cr_log r)) as [O1|] eqn:E; [|discriminate].
    destruct (IH _ H) as (O' & HO). exists O'. cbn [map concat]. rewrite c04_log_app, E. exact HO.
Qed.

Lemma count_occ_mem : forall x l, mem x l = true -> 1 <= count_occ Nat.eq_dec l x.
Proof. intros x l H. apply mem_true_in in H. apply (count_occ_In Nat.eq_dec) in H. lia. Qed.

(* a trace accepted by the monitor: before every oracle query, in the whole history (all
   calls so far and the part of the current call before the query), function 0 has received
   more task-started than task-finished notifications for the instance named as context *)
Theorem holds_C04q_meaning : forall tr pre v ctx post,
    holds_C04q tr = true ->
    concat (map cr_log tr) = pre ++ EQuery v ctx :: post ->
    tcount TF ctx pre < tcount TS ctx pre.
Proof.
  intros tr pre v ctx post H Hc. unfold holds_C04q in H.
  destruct (c04_run_concat _ _ H) as (O' & HO). rewrite Hc, c04_log_app in HO.
  destruct (c04_log [] pre) as [O1|] eqn:E; [|discriminate].
  cbn [c04_log c04_entry] in HO. destruct (mem ctx O1) eqn:M; [|discriminate].
  pose proof (c04_log_count _ _ _ ctx E) as C. pose proof (count_occ_mem _ _ M). cbn [count_occ] in C. lia.
Qed.

(* ... in particular a task-started notification for that instance precedes the query *)
Corollary holds_C04q_started_before : forall tr pre v ctx post,
    holds_C04q tr = true ->
    concat (map cr_log tr) = pre ++ EQuery v ctx :: post ->
    exists n r, In (ENotif 0 n r) pre /\ n_kind n = TS /\ n_id n = ctx.
Proof.
  intros tr pre v ctx post H Hc. pose proof (holds_C04q_meaning _ _ _ _ _ H Hc) as Hlt.
  unfold tcount in Hlt at 2.
  destruct (filter (is_tn TS ctx) pre) as [|e l] eqn:F; [cbn in Hlt; lia|].
  assert (Hi : In e (filter (is_tn TS ctx) pre)) by (rewrite F; left; reflexivity).
  apply filter_In in Hi. destruct Hi as [Hi Hp].
  destruct e as [[|l0] n r|o kk nm i fl|v0 cc|fi|fi fr]; cbn [is_tn] in Hp; try discriminate.
  apply andb_true_iff in Hp. destruct Hp as [H1 H2]. apply Nat.eqb_eq in H2.
  exists n, r. split; [exact Hi|]. split; [|exact H2]. destruct (n_kind n); try discriminate. reflexivity.
Qed.

(* the two together, for every run of the reference semantics *)
Theorem C04_context_open_at_query : forall orc imm body f cs tr pre v ctx post,
    run_script orc imm f body sched0 cs = Ok tr ->
    concat (map cr_log tr) = pre ++ EQuery v ctx :: post ->
    tcount TF ctx pre < tcount TS ctx pre /\
    exists n r, In (ENotif 0 n r) pre /\ n_kind n = TS /\ n_id n = ctx.
Proof.
  intros orc imm body f cs tr pre v ctx post H Hc.
  pose proof (C04_query_context_ref _ _ _ _ _ _ H) as HM. split.
  - eapply holds_C04q_meaning; eassumption.
  - eapply holds_C04q_started_before; eassumption.
Qed.

(* ===================================================================== *)
(* 7. "at that moment": the oracle counter is the number of queries logged  *)
(* ===================================================================== *)
(* across any computation the counter of oracle calls advances by exactly the number of
   EQuery entries appended to the log: the k-th query of the whole history is the k-th
   oracle call, so an evaluation reads the answers current when its Condition / loop is
   reached, not earlier or later ones *)
Definition QC (g g' : G) : Prop :=
  exists new, g_log g' = rev new ++ g_log g /\ g_q g' = g_q g + List.length (queries_of new).

Lemma QC_refl : forall g, QC g g.
Proof. intro g. exists []. split; [reflexivity|cbn; lia]. Qed.

Lemma QC_trans : forall a b c, QC a b -> QC b c -> QC a c.
Proof.
  intros a b c (n1 & A1 & A2) (n2 & B1 & B2). exists (n1 ++ n2). split.
  - rewrite B1, A1, rev_app_distr, app_assoc. reflexivity.
  - rewrite queries_of_app, app_length. lia.
Qed.

Lemma QC_pure : forall g g', g_log g' = g_log g -> g_q g' = g_q g -> QC g g'.
Proof. intros g g' H1 H2. exists []. split; [exact H1|cbn; lia]. Qed.

Lemma queries_of_noq : forall log, Forall noq log -> queries_of log = [].
Proof.
  induction log as [|e log IH]; intro H; [reflexivity|]. inversion H as [|? ? He Hr]; subst.
  unfold queries_of. cbn [flat_map]. fold (queries_of log). rewrite (IH Hr).
  destruct e; try reflexivity. contradiction.
Qed.

Lemma QC_emit : forall n flag g u g', emit_gen n flag g = Ok (u, g') -> QC g g'.
Proof.
  intros n flag g u g' H. unfold emit_gen in H. apply log_entries_eff in H.
  destruct H as (_ & _ & _ & _ & _ & _ & H7 & _ & H9).
  eexists. split; [exact H9|]. rewrite queries_of_noq; [cbn; lia|].
  apply Forall_app. split; apply Forall_forall; intros x Hx; apply in_map_iff in Hx;
    destruct Hx as (y & <- & _); exact I.
Qed.

Section Counter.
  Variable orc : oracle.
  Variable imm : nat -> bool.

  Lemma QC_decide : forall e ctx g b g', decide_m orc e ctx g = Ok (b, g') -> QC g g'.
  Proof.
    intros e ctx g b g' H. apply decide_m_spec in H. destruct H as (_ & H1 & H2).
    eexists. split; [exact H2|]. rewrite queries_of_map, map_length. exact H1.
  Qed.

  Lemma QC_limit : forall l ctx g n g', read_limit orc l ctx g = Ok (n, g') -> QC g g'.
  Proof.
    intros l ctx g n g' H. apply read_limit_spec in H. destruct l as [k|v p].
    - destruct H as (_ & ->). apply QC_refl.
    - destruct H as (x & q & _ & _ & _ & _ & H1 & H2). exists [EQuery v ctx]. split; [exact H2|]. cbn. lia.
  Qed.

  Lemma QC_service : forall n at_ ins ctx ie g st g',
      (id <- fresh_s ;;
       await id ;;;
       emit (mk SS n at_ id (Some ctx) (subst_params ie ins)) ;;;
       k <- tick_ss ;;
       if imm k
       then unawait id ;;; emit (mk SF n at_ id (Some ctx) (subst_params ie ins)) ;;; ret RDone
       else ret (RAwait id)) g = Ok (st, g') -> QC g g'.
  Proof.
    intros n at_ ins ctx ie g st g' H.
    mstep as id g1 E1. unfold fresh_s in E1. inv E1.
    mstep as u2 g2 E2. unfold await, set_awaited in E2. inv E2.
    mstep as u3 g3 E3. apply QC_emit in E3.
    mstep as k g4 E4. unfold tick_ss in E4. inv E4.
    assert (S03 : QC g g3).
    { eapply QC_trans; [|exact E3]. apply QC_pure; reflexivity. }
    destruct (imm (g_ss g3)).
    - mstep as u5 g5 E5. unfold unawait in E5.
      match type of E5 with match ?X with _ => _ end = _ => destruct X as [l|] end; [|discriminate].
      unfold set_awaited in E5. inv E5.
      mstep as u6 g6 E6. apply QC_emit in E6. mstep.
      eapply QC_trans; [exact S03|]. eapply QC_trans; [|exact E6]. apply QC_pure; reflexivity.
    - mstep. eapply QC_trans; [exact S03|]. apply QC_pure; reflexivity.
  Qed.

  Lemma QC_tstart : forall t at_ ctx ps g id g1 u g2,
      fresh_t g = Ok (id, g1) -> emit (mk TS t at_ id (Some ctx) ps) g1 = Ok (u, g2) -> QC g g2.
  Proof.
    intros t at_ ctx ps g id g1 u g2 E1 E2. unfold fresh_t in E1. inv E1.
    apply QC_emit in E2. eapply QC_trans; [|exact E2]. apply QC_pure; reflexivity.
  Qed.

  Definition start_qc := start_closed orc imm QC QC_refl QC_trans QC_decide QC_limit QC_service QC_tstart
                                      (fun t at_ id ctx ps => @QC_emit (mk TF t at_ id (Some ctx) ps) false)
  .
  Definition deliver_qc := deliver_closed orc imm QC QC_refl QC_trans QC_decide QC_limit QC_service QC_tstart
                                      (fun t at_ id ctx ps => @QC_emit (mk TF t at_ id (Some ctx) ps) false)
                                      (fun n at_ id ctx ps => @QC_emit (mk SF n at_ id (Some ctx) ps) false).

  Variable body : list xstmt.

  Lemma QC_log0 : forall g g', QC g g' -> g_log g = [] ->
                               g_q g' = g_q g + List.length (queries_of (rev (g_log g'))).
  Proof.
    intros g g' (new & H1 & H2) H0. rewrite H1, H0, app_nil_r, rev_involutive. exact H2.
  Qed.

  (* one API call advances the oracle counter by the number of queries in its log *)
  Theorem api_call_query_count : forall f s c b s',
      api_call orc imm f body s c = Ok (b, s') ->
      g_q (sc_g s') = g_q (sc_g s) + List.length (queries_of (cr_log (observe b s'))).
  Proof.
    intros f s c b s' H.
    assert (Q0 : forall ls obs, g_q (clear_log (sc_g s) <| g_ls := ls |> <| g_obs := obs |>) = g_q (sc_g s) + 0)
      by (intros; cbn; lia).
    destruct c as [|id| |k l|o|o]; cbn [api_call] in H.
    - destruct (sc_root s) as [r0|] eqn:Hroot.
      + inv H. exact (Q0 (g_ls (sc_g s)) (g_obs (sc_g s))).
      + match type of H with match ?X with _ => _ end = _ => destruct X as [[st g']| | |] eqn:E end;
          try discriminate. inv H.
        mstep as u1 g1 E1. unfold set_running in E1. inv E1.
        set (g0 := clear_log (sc_g s) <| g_running := true |>) in *.
        mstep as id g2 E2. unfold fresh_t in E2. inv E2.
        mstep as u3 g3 E3. apply QC_emit in E3.
        mstep as r g4 E4. apply (proj1 (proj2 (start_qc f))) in E4.
        assert (S04 : QC g0 g4).
        { eapply QC_trans; [|exact E4]. eapply QC_trans; [|exact E3]. apply QC_pure; reflexivity. }
        destruct r as [[i sti]|].
        * mstep. exact (QC_log0 _ _ S04 eq_refl).
        * mstep as u5 g5 E5. unfold finish_root in E5. mstep as u6 g6 E6.
          apply QC_emit in E6. unfold set_running in E5. inv E5. mstep.
          assert (S06 : QC g0 g6) by (eapply QC_trans; eassumption).
          exact (QC_log0 _ _ S06 eq_refl).
    - change (g_awaited (clear_log (sc_g s))) with (g_awaited (sc_g s)) in H.
      destruct (mem id (g_awaited (sc_g s))).
      + destruct (sc_root s) as [[|id'|cid i sti|sts|bb i sti|k i sti|sts]|] eqn:Hroot; try discriminate.
        match type of H with match ?X with _ => _ end = _ => destruct X as [[st g']| | |] eqn:E end;
          try discriminate. inv H.
        mstep as u1 g1 E1. unfold unawait in E1.
        match type of E1 with match ?X with _ => _ end = _ => destruct X as [aw1|] end; [|discriminate].
        unfold set_awaited in E1. inv E1.
        set (g0 := clear_log (sc_g s)) in *.
        mstep as r g2 E2. apply (proj1 (proj2 (deliver_qc f))) in E2.
        assert (S02 : QC g0 g2).
        { eapply QC_trans; [|exact E2]. apply QC_pure; reflexivity. }
        destruct r as [[[j st']|]|]; [| |discriminate].
        * mstep. exact (QC_log0 _ _ S02 eq_refl).
        * mstep as u5 g5 E5. unfold finish_root in E5. mstep as u6 g6 E6.
          apply QC_emit in E6. unfold set_running in E5. inv E5. mstep.
          assert (S06 : QC g0 g6) by (eapply QC_trans; eassumption).
          exact (QC_log0 _ _ S06 eq_refl).
      + inv H. exact (Q0 (g_ls (sc_g s)) (g_obs (sc_g s))).
    - inv H. exact (Q0 (g_ls (sc_g s)) (g_obs (sc_g s))).
    - change (g_ls (clear_log (sc_g s))) with (g_ls (sc_g s)) in H.
      destruct (existsb (fun p => nkind_eqb (fst p) k && Nat.eqb (snd p) l) (g_ls (sc_g s))); inv H.
      + exact (Q0 (g_ls (sc_g s)) (g_obs (sc_g s))).
      + exact (Q0 (g_ls (sc_g s) ++ [(k, l)]) (g_obs (sc_g s))).
    - inv H. exact (Q0 (g_ls (sc_g s)) (g_obs (sc_g s) ++ [o])).
    - change (g_obs (clear_log (sc_g s))) with (g_obs (sc_g s)) in H.
      destruct (remove_first (Nat.eqb o) (g_obs (sc_g s))) as [l|]; [|discriminate]. inv H.
      exact (Q0 (g_ls (sc_g s)) l).
  Qed.
End Counter.

(* ===================================================================== *)
(* 8. the statements are not vacuous; the monitor is not trivial           *)
(* ===================================================================== *)
Definition all_queries (tr : list callrec) : list (name * nat) := queries_of (concat (map cr_log tr)).

(* the generated example runs to the end of the order, asks the oracle 7 times (two
   counting loops with a variable limit, a Condition, a While loop re-tested in later
   calls), and the monitor accepts *)
Theorem C04_query_context_nonvacuous :
  exists tr, run_ref ex_case = Ok tr /\ existsb (fun r => cr_final r) tr = true
             /\ List.length (all_queries tr) = 7 /\ holds_C04q tr = true.
Proof.
  destruct ex_runs as (tr & H & _ & Hf). exists tr. split; [exact H|]. split; [exact Hf|].
  split; [|exact (C04_query_context_programs _ _ H)].
  revert H. vm_compute. intro H. inv H. reflexivity.
Qed.

(* a guard inside a called task: While loop in task 5 (instance 1), re-tested in the calls
   that deliver the completions of its service.  Every query names instance 1, not the
   production task's instance 0 *)
Definition ex_nested_body : list xstmt :=
  [XCall 5 {| st_task := 0; st_path := [0] |} []
         [XWhile (EPath 9 []) [XService 7 {| st_task := 5; st_path := [0; 0] |} []]];
   XCond (EPath 9 []) [] [XService 8 {| st_task := 0; st_path := [1; 1; 0] |} []]].
Definition ex_nested_orc : oracle := fun k _ => Some (VBool (k <? 2)).
Definition ex_nested_script : list apicall := [AStart; AFinish 0; AFinish 1; AFinish 2].

Example ex_nested_runs :
  exists tr, run_script ex_nested_orc (fun _ => false) 100 ex_nested_body sched0 ex_nested_script = Ok tr
             /\ map (fun r => queries_of (cr_log r)) tr = [[(9, 1)]; [(9, 1)]; [(9, 1); (9, 0)]; []]
             /\ existsb (fun r => cr_final r) tr = true
             /\ holds_C04q tr = true.
Proof. eexists. split; [vm_compute; reflexivity|]. repeat split; reflexivity. Qed.

(* tampering with a trace: the monitor rejects a query whose context was renamed to an
   instance that is already finished (instance 1 = task t1 of the example, reported finished
   before the first query), to an instance that was never announced, and a query moved in
   front of the task-started notification of its context *)
Definition retag (c : nat) (e : entry) : entry :=
  match e with EQuery v _ => EQuery v c | _ => e end.
Definition retag_trace (c : nat) (tr : list callrec) : list callrec :=
  map (fun r => {| cr_ret := cr_ret r; cr_log := map (retag c) (cr_log r); cr_running := cr_running r;
                   cr_awaited := cr_awaited r; cr_final := cr_final r |}) tr.

Example tampered_finished_context_rejected :
  match run_ref ex_case with
  | Ok tr => holds_C04q tr = true /\ holds_C04q (retag_trace 1 tr) = false
  | _ => False
  end.
Proof. vm_compute. split; reflexivity. Qed.

Example tampered_unknown_context_rejected :
  match run_ref ex_case with
  | Ok tr => holds_C04q (retag_trace 7 tr) = false
  | _ => False
  end.
Proof. vm_compute. reflexivity. Qed.

Example tampered_outer_context_rejected :
  (* in the nested example: after the inner task instance 1 is finished the last query names
     instance 0; renaming all queries to 1 is rejected, renaming all to 0 is accepted by this
     monitor (instance 0 is open too: which OPEN instance is the right one is fixed by
     the semantics, lemma start_stmt / loop_test hand [ctx] to decide_m, not by the trace) *)
  match run_script ex_nested_orc (fun _ => false) 100 ex_nested_body sched0 ex_nested_script with
  | Ok tr => holds_C04q (retag_trace 1 tr) = false /\ holds_C04q (retag_trace 0 tr) = true
  | _ => False
  end.
Proof. vm_compute. split; reflexivity. Qed.

Example query_before_started_rejected :
  holds_C04q [{| cr_ret := true;
                 cr_log := [EQuery 9 0; ENotif 0 (mk TS 0 root_site 0 None []) true];
                 cr_running := true; cr_awaited := []; cr_final := false |}] = false.
Proof. reflexivity. Qed.

(* ===================================================================== *)
(* 9. the counter over whole scripts; locality of one evaluation           *)
(* ===================================================================== *)
(* an evaluation depends on the oracle only through the answers to its own queries: call
   number g_q + i for the i-th variable occurrence.  Earlier or later answers (the values
   the variables had before the Condition / loop was reached, or will have afterwards) are
   irrelevant *)
Lemma decide_m_moment : forall orc orc' e ctx g,
    (forall i v, nth_error (expr_vars e) i = Some v -> orc' (g_q g + i) v = orc (g_q g + i) v) ->
    decide_m orc' e ctx g = decide_m orc e ctx g.
Proof.
  intros orc orc' e ctx g H. unfold decide_m. rewrite (decide_local expected_ops orc orc' e (g_q g) H).
  reflexivity.
Qed.

Lemma read_limit_moment : forall orc orc' l ctx g,
    (forall v p, l = LimPath v p -> orc' (g_q g) v = orc (g_q g) v) ->
    read_limit orc' l ctx g = read_limit orc l ctx g.
Proof.
  intros orc orc' l ctx g H. destruct l as [k|v p]; [reflexivity|]. cbn [read_limit].
  rewrite (H v p eq_refl). reflexivity.
Qed.

Section Script.
  Variable orc : oracle.
  Variable imm : nat -> bool.
  Variable body : list xstmt.

  Fixpoint end_sched (f : nat) (s : sched) (cs : list apicall) : res sched :=
    match cs with
    | [] => Ok s
    | c :: r => rbind (api_call orc imm f body s c) (fun '(_, s') => end_sched f s' r)
    end.

  Lemma all_queries_cons : forall r t, all_queries (r :: t) = queries_of (cr_log r) ++ all_queries t.
  Proof. intros. unfold all_queries. cbn [map concat]. apply queries_of_app. Qed.

  (* after any history the number of oracle calls made is the number of queries logged *)
  Theorem run_query_count : forall f cs s tr,
      run_script orc imm f body s cs = Ok tr ->
      exists s', end_sched f s cs = Ok s' /\
                 g_q (sc_g s') = g_q (sc_g s) + List.length (all_queries tr).
  Proof.
    intros f cs. induction cs as [|c cs IH]; intros s tr H; cbn [run_script] in H.
    - inv H. exists s. split; [reflexivity|]. cbn. lia.
    - destruct (api_call orc imm f body s c) as [[b s']| | |] eqn:E; try discriminate.
      cbn [rbind] in H.
      destruct (run_script orc imm f body s' cs) as [t| | |] eqn:E2; try discriminate.
      cbn [rbind] in H. inv H.
      destruct (IH _ _ E2) as (s2 & H1 & H2). exists s2. cbn [end_sched]. rewrite E. cbn [rbind].
      split; [exact H1|]. rewrite all_queries_cons, app_length, H2, (api_call_query_count _ _ _ _ _ _ _ _ E). lia.
  Qed.
End Script.

(* ===================================================================== *)
(* 10. the queries of a call are whole evaluations of guards / limits of   *)
(*     the program, one after the other                                    *)
(* ===================================================================== *)
Definition lim_vars (l : limit) : list name := match l with LimInt _ => [] | LimPath v _ => [v] end.

(* the variable occurrences of every guard and every loop limit of a statement tree, one
   block per guard / limit *)
Fixpoint gblocks (s : xstmt) : list (list name) :=
  match s with
  | XService _ _ _ => []
  | XCall _ _ _ body => flat_map gblocks body
  | XParallel bs => flat_map gblocks bs
  | XCond e p f => expr_vars e :: flat_map gblocks p ++ flat_map gblocks f
  | XWhile e b => expr_vars e :: flat_map gblocks b
  | XCount _ lim b => lim_vars lim :: flat_map gblocks b
  | XParLoop _ lim c => lim_vars lim :: gblocks c
  end.

Lemma incl_flat_map_Forall : forall A B (f : A -> list B) l X,
    incl (flat_map f l) X -> Forall (fun x => incl (f x) X) l.
Proof.
  intros A B f l X. induction l as [|x l IH]; intro H; constructor.
  - intros y Hy. apply H. cbn. apply in_or_app. left. exact Hy.
  - apply IH. intros y Hy. apply H. cbn. apply in_or_app. right. exact Hy.
Qed.

Section Blocks.
  Variable orc : oracle.
  Variable imm : nat -> bool.
  Variable ALL : list (list name).

  (* one evaluation: the variables asked for, and the context they were asked in *)
  Definition item_q (it : list name * nat) : list (name * nat) := map (fun v => (v, snd it)) (fst it).

  Definition QB (g g' : G) : Prop :=
    exists new items, g_log g' = rev new ++ g_log g /\ queries_of new = flat_map item_q items
                      /\ Forall (fun it => In (fst it) ALL) items.

  Lemma QB_refl : forall g, QB g g.
  Proof. intro g. exists [], []. repeat split; constructor. Qed.

  Lemma QB_trans : forall a b c, QB a b -> QB b c -> QB a c.
  Proof.
    intros a b c (n1 & i1 & A1 & A2 & A3) (n2 & i2 & B1 & B2 & B3). exists (n1 ++ n2), (i1 ++ i2).
    split; [|split].
    - rewrite B1, A1, rev_app_distr, app_assoc. reflexivity.
    - rewrite queries_of_app, flat_map_app, A2, B2. reflexivity.
    - apply Forall_app. split; assumption.
  Qed.

  Lemma QB_pure : forall g g', g_log g' = g_log g -> QB g g'.
  Proof. intros g g' H. exists [], []. repeat split; [exact H|constructor]. Qed.

  Lemma QB_emit : forall n flag g u g', emit_gen n flag g = Ok (u, g') -> QB g g'.
  Proof.
    intros n flag g u g' H. unfold emit_gen in H. apply log_entries_eff in H.
    destruct H as (_ & _ & _ & _ & _ & _ & _ & _ & H9).
    eexists. exists []. split; [exact H9|]. split; [|constructor]. apply queries_of_noq.
    apply Forall_app. split; apply Forall_forall; intros x Hx; apply in_map_iff in Hx;
      destruct Hx as (y & <- & _); exact I.
  Qed.

  Lemma QB_decide : forall e ctx g b g', In (expr_vars e) ALL -> decide_m orc e ctx g = Ok (b, g') -> QB g g'.
  Proof.
    intros e ctx g b g' Hi H. apply decide_m_spec in H. destruct H as (_ & _ & H2).
    eexists. exists [(expr_vars e, ctx)]. split; [exact H2|]. split.
    - rewrite queries_of_map. cbn. rewrite app_nil_r. reflexivity.
    - constructor; [exact Hi|constructor].
  Qed.

  Lemma QB_limit : forall l ctx g n g', In (lim_vars l) ALL -> read_limit orc l ctx g = Ok (n, g') -> QB g g'.
  Proof.
    intros l ctx g n g' Hi H. apply read_limit_spec in H. destruct l as [k|v p].
    - destruct H as (_ & ->). apply QB_refl.
    - destruct H as (x & q & _ & _ & _ & _ & _ & H2). exists [EQuery v ctx], [([v], ctx)].
      split; [exact H2|]. split; [reflexivity|]. constructor; [exact Hi|constructor].
  Qed.

  Lemma QB_service : forall n at_ ins ctx ie g st g',
      (id <- fresh_s ;;
       await id ;;;
       emit (mk SS n at_ id (Some ctx) (subst_params ie ins)) ;;;
       k <- tick_ss ;;
       if imm k
       then unawait id ;;; emit (mk SF n at_ id (Some ctx) (subst_params ie ins)) ;;; ret RDone
       else ret (RAwait id)) g = Ok (st, g') -> QB g g'.
  Proof.
    intros n at_ ins ctx ie g st g' H.
    mstep as id g1 E1. unfold fresh_s in E1. inv E1.
    mstep as u2 g2 E2. unfold await, set_awaited in E2. inv E2.
    mstep as u3 g3 E3. apply QB_emit in E3.
    mstep as k g4 E4. unfold tick_ss in E4. inv E4.
    assert (S03 : QB g g3).
    { eapply QB_trans; [|exact E3]. apply QB_pure; reflexivity. }
    destruct (imm (g_ss g3)).
    - mstep as u5 g5 E5. unfold unawait in E5.
      match type of E5 with match ?X with _ => _ end = _ => destruct X as [l|] end; [|discriminate].
      unfold set_awaited in E5. inv E5.
      mstep as u6 g6 E6. apply QB_emit in E6. mstep.
      eapply QB_trans; [exact S03|]. eapply QB_trans; [|exact E6]. apply QB_pure; reflexivity.
    - mstep. eapply QB_trans; [exact S03|]. apply QB_pure; reflexivity.
  Qed.

  Definition GI (s : xstmt) : Prop := incl (gblocks s) ALL.

  Lemma GI_nth : forall ss i s, Forall GI ss -> nth_error ss i = Some s -> GI s.
  Proof. intros ss i s H Hn. rewrite Forall_forall in H. apply H. eapply nth_error_In; exact Hn. Qed.

  Lemma GI_list : forall l, incl (flat_map gblocks l) ALL -> Forall GI l.
  Proof. intros l H. apply incl_flat_map_Forall. exact H. Qed.

  Lemma incl_cons_l : forall (x : list name) l, incl (x :: l) ALL -> In x ALL /\ incl l ALL.
  Proof. intros x l H. split; [apply H; left; reflexivity|intros y Hy; apply H; right; exact Hy]. Qed.

  Lemma incl_app_l : forall (a b : list (list name)), incl (a ++ b) ALL -> incl a ALL /\ incl b ALL.
  Proof. intros a b H. split; intros y Hy; apply H; apply in_or_app; [left|right]; exact Hy. Qed.

  Ltac tr := eapply QB_trans; [eassumption|].

  Lemma start_blocks : forall f,
      (forall ctx ie s g st g', start_stmt orc imm f ctx ie s g = Ok (st, g') -> GI s -> QB g g') /\
      (forall ctx ie ss i g r g', run_block orc imm f ctx ie ss i g = Ok (r, g') -> Forall GI ss -> QB g g') /\
      (forall ctx l g sts g', start_list orc imm f ctx l g = Ok (sts, g') -> Forall GI (map snd l) -> QB g g') /\
      (forall ctx ie s k g st g', loop_test orc imm f ctx ie s k g = Ok (st, g') -> GI s -> QB g g').
  Proof.
    induction f as [|f IH]; [split; [|split; [|split]]; intros; discriminate|].
    destruct IH as (IHs & IHb & IHl & IHt).
    split; [|split; [|split]].
    - intros ctx ie s g st g' H HG. cbn [start_stmt] in H.
      destruct s as [n at_ ins|t at_ ins body|bs|e p fl|e b|v lim b|v lim c].
      + eapply QB_service; eassumption.
      + unfold GI in HG. cbn [gblocks] in HG. apply GI_list in HG.
        mstep as id g1 E1. unfold fresh_t in E1. inv E1. mstep as u2 g2 E2. apply QB_emit in E2.
        assert (T1 : QB g g2) by (eapply QB_trans; [|exact E2]; apply QB_pure; reflexivity).
        mstep as r g3 E3. apply IHb in E3; [|exact HG].
        destruct r as [[i sti]|].
        * mstep. tr. exact E3.
        * mstep as u4 g4 E4. apply QB_emit in E4. mstep. tr. tr. exact E4.
      + unfold GI in HG. cbn [gblocks] in HG. apply GI_list in HG.
        mstep as sts g1 E1. apply IHl in E1; [|rewrite map_snd_pair; exact HG].
        destruct (all_done sts); mstep; exact E1.
      + unfold GI in HG. cbn [gblocks] in HG. apply incl_cons_l in HG. destruct HG as (He & HG).
        apply incl_app_l in HG. destruct HG as (Hp & Hf). apply GI_list in Hp. apply GI_list in Hf.
        mstep as b g1 E1. apply QB_decide in E1; [|exact He]. mstep as r g2 E2.
        apply IHb in E2; [|destruct b; assumption].
        destruct r as [[i sti]|]; mstep; (tr; exact E2).
      + eapply IHt; eassumption.
      + eapply IHt; eassumption.
      + unfold GI in HG. cbn [gblocks] in HG. apply incl_cons_l in HG. destruct HG as (He & HG).
        mstep as n g1 E1. apply QB_limit in E1; [|exact He]. mstep as sts g2 E2. apply IHl in E2.
        * destruct (all_done sts); mstep; (tr; exact E2).
        * rewrite insts_snd. apply Forall_forall. intros x Hx. apply repeat_spec in Hx. subst x. exact HG.
    - intros ctx ie ss i g r g' H HG. cbn [run_block] in H.
      destruct (nth_error ss i) as [s1|] eqn:Hn; [|mstep; apply QB_refl].
      mstep as st g1 E1. apply IHs in E1; [|eapply GI_nth; eassumption].
      destruct (is_done st).
      + apply IHb in H; [|exact HG]. tr. exact H.
      + mstep. exact E1.
    - intros ctx l g sts g' H HG. cbn [start_list] in H.
      destruct l as [|[ie b] r]; [mstep; apply QB_refl|].
      cbn [map snd] in HG. inversion HG as [|? ? G1 G2]; subst.
      mstep as st g1 E1. apply IHs in E1; [|exact G1]. mstep as sts1 g2 E2. apply IHl in E2; [|exact G2].
      mstep. tr. exact E2.
    - intros ctx ie s k g st g' H HG. cbn [loop_test] in H.
      destruct s as [n at_ ins|t at_ ins body|bs|e p fl|e b|v lim b|v lim c]; try discriminate.
      + pose proof HG as HG0. unfold GI in HG. cbn [gblocks] in HG. apply incl_cons_l in HG. destruct HG as (He & HG).
        apply GI_list in HG.
        mstep as bb g1 E1. apply QB_decide in E1; [|exact He]. destruct bb; [|mstep; exact E1].
        mstep as r g2 E2. apply IHb in E2; [|exact HG].
        destruct r as [[i sti]|]; [mstep; tr; exact E2|]. apply IHt in H; [|exact HG0]. tr. tr. exact H.
      + pose proof HG as HG0. unfold GI in HG. cbn [gblocks] in HG. apply incl_cons_l in HG. destruct HG as (He & HG).
        apply GI_list in HG.
        mstep as n g1 E1. apply QB_limit in E1; [|exact He]. destruct (Z.of_nat k <? n)%Z; [|mstep; exact E1].
        mstep as r g2 E2. apply IHb in E2; [|exact HG].
        destruct r as [[i sti]|]; [mstep; tr; exact E2|]. apply IHt in H; [|exact HG0]. tr. tr. exact H.
  Qed.

  Lemma deliver_blocks : forall f,
      (forall ctx ie s st id g r g', deliver orc imm f ctx ie s st id g = Ok (r, g') -> GI s -> QB g g') /\
      (forall ctx ie ss i sti id g r g', deliver_block orc imm f ctx ie ss i sti id g = Ok (r, g') -> Forall GI ss -> QB g g') /\
      (forall ctx l sts id g r g', deliver_list orc imm f ctx l sts id g = Ok (r, g') -> Forall GI (map snd l) -> QB g g').
  Proof.
    induction f as [|f IH]; [split; [|split]; intros; discriminate|].
    destruct IH as (IHd & IHb & IHl).
    split; [|split].
    - intros ctx ie s st id g r g' H HG. cbn [deliver] in H.
      destruct s as [n at_ ins|t at_ ins body|bs|e p fl|e b|v lim b|v lim c];
        destruct st as [|id'|cid i sti|sts|bb i sti|k i sti|sts];
        try (mstep; apply QB_refl).
      + destruct (Nat.eqb id id'); [|mstep; apply QB_refl].
        mstep as u g1 E1. apply QB_emit in E1. mstep. exact E1.
      + unfold GI in HG. cbn [gblocks] in HG. apply GI_list in HG.
        mstep as r1 g1 E1. apply IHb in E1; [|exact HG].
        destruct r1 as [[[j st']|]|].
        * mstep. exact E1.
        * mstep as u g2 E2. apply QB_emit in E2. mstep. tr. exact E2.
        * mstep. exact E1.
      + unfold GI in HG. cbn [gblocks] in HG. apply GI_list in HG.
        mstep as r1 g1 E1. apply IHl in E1; [|rewrite map_snd_pair; exact HG].
        destruct r1 as [sts'|]; [destruct (all_done sts')|]; mstep; exact E1.
      + unfold GI in HG. cbn [gblocks] in HG. apply incl_cons_l in HG. destruct HG as (He & HG).
        apply incl_app_l in HG. destruct HG as (Hp & Hf). apply GI_list in Hp. apply GI_list in Hf.
        mstep as r1 g1 E1. apply IHb in E1; [|destruct bb; assumption].
        destruct r1 as [[[j st']|]|]; mstep; exact E1.
      + pose proof HG as HG0. unfold GI in HG. cbn [gblocks] in HG. apply incl_cons_l in HG. destruct HG as (He & HG).
        apply GI_list in HG.
        mstep as r1 g1 E1. apply IHb in E1; [|exact HG].
        destruct r1 as [[[j st']|]|].
        * mstep. exact E1.
        * mstep as st' g2 E2. apply (proj2 (proj2 (proj2 (start_blocks f)))) in E2; [|exact HG0]. mstep. tr. exact E2.
        * mstep. exact E1.
      + pose proof HG as HG0. unfold GI in HG. cbn [gblocks] in HG. apply incl_cons_l in HG. destruct HG as (He & HG).
        apply GI_list in HG.
        mstep as r1 g1 E1. apply IHb in E1; [|exact HG].
        destruct r1 as [[[j st']|]|].
        * mstep. exact E1.
        * mstep as st' g2 E2. apply (proj2 (proj2 (proj2 (start_blocks f)))) in E2; [|exact HG0]. mstep. tr. exact E2.
        * mstep. exact E1.
      + unfold GI in HG. cbn [gblocks] in HG. apply incl_cons_l in HG. destruct HG as (He & HG).
        mstep as r1 g1 E1. apply IHl in E1.
        * destruct r1 as [sts'|]; [destruct (all_done sts')|]; mstep; exact E1.
        * rewrite insts_snd. apply Forall_forall. intros x Hx. apply repeat_spec in Hx. subst x. exact HG.
    - intros ctx ie ss i sti id g r g' H HG. cbn [deliver_block] in H.
      destruct (nth_error ss i) as [s1|] eqn:Hn; [|mstep; apply QB_refl].
      mstep as r1 g1 E1. apply IHd in E1; [|eapply GI_nth; eassumption].
      destruct r1 as [st'|]; [|mstep; exact E1].
      destruct (is_done st').
      + mstep as r' g2 E2. apply (proj1 (proj2 (start_blocks f))) in E2; [|exact HG]. mstep. tr. exact E2.
      + mstep. exact E1.
    - intros ctx l sts id g r g' H HG. cbn [deliver_list] in H.
      destruct l as [|[ie b] br]; [mstep; apply QB_refl|].
      destruct sts as [|st sr]; [mstep; apply QB_refl|].
      cbn [map snd] in HG. inversion HG as [|? ? G1 G2]; subst.
      mstep as r1 g1 E1. apply IHd in E1; [|exact G1].
      destruct r1 as [st'|].
      + mstep. exact E1.
      + mstep as r2 g2 E2. apply IHl in E2; [|exact G2].
        destruct r2 as [sr'|]; mstep; (tr; exact E2).
  Qed.
End Blocks.

Section BlocksApi.
  Variable orc : oracle.
  Variable imm : nat -> bool.
  Variable body : list xstmt.

  Lemma QB_log0 : forall ALL g g', QB ALL g g' -> g_log g = [] ->
      exists items, queries_of (rev (g_log g')) = flat_map item_q items
                    /\ Forall (fun it => In (fst it) ALL) items.
  Proof.
    intros ALL g g' (new & items & H1 & H2 & H3) H0. exists items.
    rewrite H1, H0, app_nil_r, rev_involutive. split; assumption.
  Qed.

  (* the oracle queries of one API call are the concatenation of complete evaluations: each
     block lists the variable occurrences of one guard or loop limit of the program, in
     order, all asked in one and the same context *)
  Theorem api_call_query_blocks : forall f s c b s',
      api_call orc imm f body s c = Ok (b, s') ->
      exists items, queries_of (cr_log (observe b s')) = flat_map item_q items
                    /\ Forall (fun it => In (fst it) (flat_map gblocks body)) items.
  Proof.
    intros f s c b s' H. set (ALL := flat_map gblocks body).
    assert (HG : Forall (GI ALL) body) by (apply GI_list; apply incl_refl).
    assert (Q0 : forall ls obs b0,
               let s0 := {| sc_g := clear_log (sc_g s) <| g_ls := ls |> <| g_obs := obs |>; sc_root := sc_root s |} in
               exists items, queries_of (cr_log (observe b0 s0)) = flat_map item_q items
                             /\ Forall (fun it => In (fst it) ALL) items).
    { intros. exists []. split; [reflexivity|constructor]. }
    destruct c as [|id| |k l|o|o]; cbn [api_call] in H.
    - destruct (sc_root s) as [r0|] eqn:Hroot.
      + inv H. exact (Q0 (g_ls (sc_g s)) (g_obs (sc_g s)) true).
      + match type of H with match ?X with _ => _ end = _ => destruct X as [[st g']| | |] eqn:E end;
          try discriminate. inv H.
        mstep as u1 g1 E1. unfold set_running in E1. inv E1.
        set (g0 := clear_log (sc_g s) <| g_running := true |>) in *.
        mstep as id g2 E2. unfold fresh_t in E2. inv E2.
        mstep as u3 g3 E3. apply (QB_emit ALL) in E3.
        mstep as r g4 E4. apply (proj1 (proj2 (start_blocks orc imm ALL f))) in E4; [|exact HG].
        assert (S04 : QB ALL g0 g4).
        { eapply QB_trans; [|exact E4]. eapply QB_trans; [|exact E3]. apply QB_pure; reflexivity. }
        destruct r as [[i sti]|].
        * mstep. exact (QB_log0 _ _ _ S04 eq_refl).
        * mstep as u5 g5 E5. unfold finish_root in E5. mstep as u6 g6 E6.
          apply (QB_emit ALL) in E6. unfold set_running in E5. inv E5. mstep.
          assert (S06 : QB ALL g0 g6) by (eapply QB_trans; eassumption).
          exact (QB_log0 _ _ _ S06 eq_refl).
    - change (g_awaited (clear_log (sc_g s))) with (g_awaited (sc_g s)) in H.
      destruct (mem id (g_awaited (sc_g s))).
      + destruct (sc_root s) as [[|id'|cid i sti|sts|bb i sti|k i sti|sts]|] eqn:Hroot; try discriminate.
        match type of H with match ?X with _ => _ end = _ => destruct X as [[st g']| | |] eqn:E end;
          try discriminate. inv H.
        mstep as u1 g1 E1. unfold unawait in E1.
        match type of E1 with match ?X with _ => _ end = _ => destruct X as [aw1|] end; [|discriminate].
        unfold set_awaited in E1. inv E1.
        set (g0 := clear_log (sc_g s)) in *.
        mstep as r g2 E2. apply (proj1 (proj2 (deliver_blocks orc imm ALL f))) in E2; [|exact HG].
        assert (S02 : QB ALL g0 g2).
        { eapply QB_trans; [|exact E2]. apply QB_pure; reflexivity. }
        destruct r as [[[j st']|]|]; [| |discriminate].
        * mstep. exact (QB_log0 _ _ _ S02 eq_refl).
        * mstep as u5 g5 E5. unfold finish_root in E5. mstep as u6 g6 E6.
          apply (QB_emit ALL) in E6. unfold set_running in E5. inv E5. mstep.
          assert (S06 : QB ALL g0 g6) by (eapply QB_trans; eassumption).
          exact (QB_log0 _ _ _ S06 eq_refl).
      + inv H. exact (Q0 (g_ls (sc_g s)) (g_obs (sc_g s)) false).
    - inv H. exact (Q0 (g_ls (sc_g s)) (g_obs (sc_g s)) false).
    - change (g_ls (clear_log (sc_g s))) with (g_ls (sc_g s)) in H.
      destruct (existsb (fun p => nkind_eqb (fst p) k && Nat.eqb (snd p) l) (g_ls (sc_g s))); inv H.
      + exact (Q0 (g_ls (sc_g s)) (g_obs (sc_g s)) false).
      + exact (Q0 (g_ls (sc_g s) ++ [(k, l)]) (g_obs (sc_g s)) true).
    - inv H. exact (Q0 (g_ls (sc_g s)) (g_obs (sc_g s) ++ [o]) true).
    - change (g_obs (clear_log (sc_g s))) with (g_obs (sc_g s)) in H.
      destruct (remove_first (Nat.eqb o) (g_obs (sc_g s))) as [l|]; [|discriminate]. inv H.
      exact (Q0 (g_ls (sc_g s)) l true).
  Qed.

  Theorem run_query_blocks : forall f cs s tr,
      run_script orc imm f body s cs = Ok tr ->
      Forall (fun r => exists items, queries_of (cr_log r) = flat_map item_q items
                                     /\ Forall (fun it => In (fst it) (flat_map gblocks body)) items) tr.
  Proof.
    intros f cs. induction cs as [|c cs IH]; intros s tr H; cbn [run_script] in H.
    - inv H. constructor.
    - destruct (api_call orc imm f body s c) as [[b s']| | |] eqn:E; try discriminate.
      cbn [rbind] in H.
      destruct (run_script orc imm f body s' cs) as [t| | |] eqn:E2; try discriminate.
      cbn [rbind] in H. inv H. constructor; [eapply api_call_query_blocks; exact E|eapply IH; exact E2].
  Qed.
End BlocksApi.

(* ===================================================================== *)
(* 11. the context is the INNERMOST instance, as far as a trace can show:   *)
(*     what follows a query belongs to the block of the queried context    *)
(* ===================================================================== *)
(* definitions: Monitors.v (n_ok, nstep_*, nwalk, holds_C04n, mon_C04n, mon_C04ctx) *)
(* the branches of a Parallel and the body of a parallel loop are task calls (what the
   grammar allows and the unfolding produces) *)
Definition is_call (s : xstmt) : bool := match s with XCall _ _ _ _ => true | _ => false end.

Fixpoint pwf (s : xstmt) : bool :=
  match s with
  | XService _ _ _ => true
  | XCall _ _ _ body => forallb pwf body
  | XParallel bs => forallb (fun b => is_call b && pwf b) bs
  | XCond _ p f => forallb pwf p && forallb pwf f
  | XWhile _ b => forallb pwf b
  | XCount _ _ b => forallb pwf b
  | XParLoop _ _ c => is_call c && pwf c
  end.

Lemma nwalk_app : forall a b p,
    nwalk p (a ++ b) = match nwalk p a with Some p1 => nwalk p1 b | None => None end.
Proof.
  induction a as [|e a IH]; intros b p; [reflexivity|]. cbn [app nwalk].
  destruct (nstep_entry p e); [apply IH|reflexivity].
Qed.

Fixpoint nwalk_notifs (p : option nat) (ns : list notif) : option (option nat) :=
  match ns with
  | [] => Some p
  | n :: t => match nstep_notif p n with Some p' => nwalk_notifs p' t | None => None end
  end.

Lemma nwalk_noq : forall log p, Forall noq log -> nwalk p log = nwalk_notifs p (map fst (ee_notifs log)).
Proof.
  induction log as [|e log IH]; intros p H; [reflexivity|]. inversion H as [|? ? He Hr]; subst.
  rewrite ee_cons. destruct e as [[|l0] n r|o kk nm id fl|v cc|fi|fi fr]; cbn [nwalk nstep_entry app map fst];
    try (apply IH; exact Hr); try contradiction.
  cbn [nwalk_notifs]. destruct (nstep_notif p n); [apply IH; exact Hr|reflexivity].
Qed.

Definition pok (ctx : nat) (p : option nat) : Prop := p = None \/ p = Some ctx.

(* a computation in context ctx: whatever query was pending before it (none, or one in ctx),
   the walk over what it logs succeeds and leaves nothing or a query in ctx pending; with
   flag w nothing is left pending *)
Definition Step (ctx : nat) (w : bool) (g g' : G) : Prop :=
  g_ls g' = g_ls g /\
  exists new, g_log g' = rev new ++ g_log g /\
              forall pin, pok ctx pin ->
                          exists pout, nwalk pin new = Some pout /\ pok ctx pout /\ (w = true -> pout = None).

Lemma Step_refl : forall ctx g, Step ctx false g g.
Proof.
  intros ctx g. split; [reflexivity|]. exists []. split; [reflexivity|].
  intros pin Hp. exists pin. split; [reflexivity|]. split; [exact Hp|discriminate].
Qed.

Lemma Step_relax : forall ctx w g g', Step ctx w g g' -> Step ctx false g g'.
Proof.
  intros ctx w g g' (H1 & new & H2 & H3). split; [exact H1|]. exists new. split; [exact H2|].
  intros pin Hp. destruct (H3 pin Hp) as (pout & A & B & _). exists pout. split; [exact A|]. split; [exact B|discriminate].
Qed.

Lemma Step_seq : forall ctx w1 w2 g g1 g2, Step ctx w1 g g1 -> Step ctx w2 g1 g2 -> Step ctx w2 g g2.
Proof.
  intros ctx w1 w2 g g1 g2 (A1 & n1 & A2 & A3) (B1 & n2 & B2 & B3). split; [congruence|].
  exists (n1 ++ n2). split; [rewrite B2, A2, rev_app_distr, app_assoc; reflexivity|].
  intros pin Hp. destruct (A3 pin Hp) as (p1 & W1 & P1 & _). destruct (B3 p1 P1) as (p2 & W2 & P2 & F2).
  exists p2. split; [rewrite nwalk_app, W1; exact W2|]. split; assumption.
Qed.

Lemma Step_pure : forall ctx g g', g_ls g' = g_ls g -> g_log g' = g_log g -> Step ctx false g g'.
Proof.
  intros ctx g g' H1 H2. split; [exact H1|]. exists []. split; [exact H2|].
  intros pin Hp. exists pin. split; [reflexivity|]. split; [exact Hp|discriminate].
Qed.

Lemma Step_pure_r : forall ctx w g g1 g2,
    Step ctx w g g1 -> g_ls g2 = g_ls g1 -> g_log g2 = g_log g1 -> Step ctx w g g2.
Proof.
  intros ctx w g g1 g2 (A1 & n1 & A2 & A3) H1 H2. split; [congruence|]. exists n1. split; [congruence|exact A3].
Qed.

Lemma Step_pure_l : forall ctx w g g1 g2,
    g_ls g1 = g_ls g -> g_log g1 = g_log g -> Step ctx w g1 g2 -> Step ctx w g g2.
Proof.
  intros ctx w g g1 g2 H1 H2 (A1 & n1 & A2 & A3). split; [congruence|]. exists n1. split; [congruence|exact A3].
Qed.

Lemma nwalk_queries : forall ctx vs pin,
    pok ctx pin -> exists pout, nwalk pin (map (fun v => EQuery v ctx) vs) = Some pout /\ pok ctx pout.
Proof.
  intros ctx. induction vs as [|v vs IH]; intros pin Hp.
  - exists pin. split; [reflexivity|exact Hp].
  - cbn [map nwalk nstep_entry].
    assert (E : match pin with None => Some (Some ctx) | Some c' => if Nat.eqb c' ctx then Some (Some ctx) else None end
                = Some (Some ctx)).
    { destruct Hp as [->| ->]; [reflexivity|]. rewrite Nat.eqb_refl. reflexivity. }
    rewrite E. apply IH. right. reflexivity.
Qed.

Lemma emit_walk : forall n flag g u g',
    emit_gen n flag g = Ok (u, g') -> lst_all (g_ls g) ->
    g_ls g' = g_ls g /\
    exists new, g_log g' = rev new ++ g_log g /\ forall p, nwalk p new = nstep_notif p n.
Proof.
  intros n flag g u g' H Hl. destruct (emit_frame _ _ _ _ _ H) as (A1 & _ & _).
  destruct (emit_new _ _ _ _ _ H Hl) as (new & B1 & B2 & B3). split; [exact A1|].
  exists new. split; [exact B1|]. intro p. rewrite (nwalk_noq _ _ B2), B3. cbn [nwalk_notifs].
  destruct (nstep_notif p n); reflexivity.
Qed.

Lemma nstep_in : forall ctx k nm at_ id ps pin,
    pok ctx pin -> (k = TS \/ k = SS) -> nstep_notif pin (mk k nm at_ id (Some ctx) ps) = Some None.
Proof.
  intros ctx k nm at_ id ps pin [->| ->] Hk; [reflexivity|]. unfold nstep_notif, n_ok. cbn [mk n_kind n_ctx].
  destruct Hk as [->| ->]; cbn [option_eqb]; rewrite Nat.eqb_refl; reflexivity.
Qed.

Lemma nstep_tf : forall ctx nm at_ c ps pin,
    pok ctx pin -> nstep_notif pin (mk TF nm at_ ctx c ps) = Some None.
Proof.
  intros ctx nm at_ c ps pin [->| ->]; [reflexivity|]. unfold nstep_notif, n_ok. cbn [mk n_kind n_id].
  rewrite Nat.eqb_refl. reflexivity.
Qed.

Section Next.
  Variable orc : oracle.
  Variable imm : nat -> bool.

  Lemma Step_decide : forall e ctx g b g', decide_m orc e ctx g = Ok (b, g') -> Step ctx false g g'.
  Proof.
    intros e ctx g b g' H. split; [apply (e_ls _ _ _ (decide_m_eff _ _ _ _ _ _ H))|].
    apply decide_m_spec in H. destruct H as (_ & _ & H2). eexists. split; [exact H2|].
    intros pin Hp. destruct (nwalk_queries ctx (expr_vars e) pin Hp) as (pout & A & B).
    exists pout. split; [exact A|]. split; [exact B|discriminate].
  Qed.

  Lemma Step_limit : forall l ctx g n g', read_limit orc l ctx g = Ok (n, g') -> Step ctx false g g'.
  Proof.
    intros l ctx g n g' H. pose proof (e_ls _ _ _ (read_limit_eff _ _ _ _ _ _ H)) as Hls.
    apply read_limit_spec in H. destruct l as [k|v p].
    - destruct H as (_ & ->). apply Step_refl.
    - destruct H as (x & q & _ & _ & _ & _ & _ & H2). split; [exact Hls|]. exists [EQuery v ctx]. split; [exact H2|].
      intros pin Hp. destruct (nwalk_queries ctx [v] pin Hp) as (pout & A & B).
      exists pout. split; [exact A|]. split; [exact B|discriminate].
  Qed.

  Lemma Step_service : forall n at_ ins ctx ie g st g',
      (id <- fresh_s ;;
       await id ;;;
       emit (mk SS n at_ id (Some ctx) (subst_params ie ins)) ;;;
       k <- tick_ss ;;
       if imm k
       then unawait id ;;; emit (mk SF n at_ id (Some ctx) (subst_params ie ins)) ;;; ret RDone
       else ret (RAwait id)) g = Ok (st, g') ->
      lst_all (g_ls g) -> Step ctx true g g'.
  Proof.
    intros n at_ ins ctx ie g st g' H Hl.
    mstep as id g1 E1. unfold fresh_s in E1. inv E1.
    mstep as u2 g2 E2. unfold await, set_awaited in E2. inv E2.
    mstep as u3 g3 E3. destruct (emit_walk _ _ _ _ _ E3 Hl) as (A1 & n1 & A2 & A3). cbn in A1, A2.
    mstep as k g4 E4. unfold tick_ss in E4. inv E4.
    destruct (imm (g_ss g3)).
    - mstep as u5 g5 E5. unfold unawait in E5.
      match type of E5 with match ?X with _ => _ end = _ => destruct X as [l|] end; [|discriminate].
      unfold set_awaited in E5. inv E5.
      mstep as u6 g6 E6. destruct (emit_walk _ _ _ _ _ E6 ltac:(cbn; rewrite A1; exact Hl)) as (B1 & n2 & B2 & B3).
      cbn in B1, B2. mstep.
      split; [congruence|]. exists (n1 ++ n2). split; [rewrite B2, A2, rev_app_distr, app_assoc; reflexivity|].
      intros pin Hp. exists None. split; [|split; [left; reflexivity|reflexivity]].
      rewrite nwalk_app, A3, (nstep_in ctx SS _ _ _ _ pin Hp (or_intror eq_refl)), B3. reflexivity.
    - mstep. split; [exact A1|]. exists n1. split; [exact A2|].
      intros pin Hp. exists None. split; [|split; [left; reflexivity|reflexivity]].
      rewrite A3. apply (nstep_in ctx SS _ _ _ _ pin Hp (or_intror eq_refl)).
  Qed.

  Lemma pwf_nth : forall ss i s, forallb pwf ss = true -> nth_error ss i = Some s -> pwf s = true.
  Proof. intros ss i s H Hn. rewrite forallb_forall in H. apply H. eapply nth_error_In; exact Hn. Qed.

  Definition waiting {A} (r : option A) : bool := match r with Some _ => true | None => false end.
  Definition nonnil {A} (l : list A) : bool := match l with [] => false | _ => true end.

  Lemma all_done_nonnil : forall f ctx l g sts g',
      start_list orc imm f ctx l g = Ok (sts, g') -> all_done sts = false -> nonnil l = true.
  Proof.
    intros f ctx l g sts g' H D. apply start_list_length in H. destruct l; [|reflexivity].
    destruct sts; [discriminate|discriminate].
  Qed.

  Lemma Step_flag : forall ctx w w' g g', Step ctx w g g' -> (w' = true -> w = true) -> Step ctx w' g g'.
  Proof.
    intros ctx w w' g g' (H1 & new & H2 & H3) Hw. split; [exact H1|]. exists new. split; [exact H2|].
    intros pin Hp. destruct (H3 pin Hp) as (pout & A & B & C). exists pout. split; [exact A|]. split; [exact B|].
    intro Hx. apply C. apply Hw. exact Hx.
  Qed.

  Lemma start_n : forall f,
      (forall ctx ie s g st g',
          start_stmt orc imm f ctx ie s g = Ok (st, g') -> pwf s = true -> lst_all (g_ls g) ->
          Step ctx (is_call s || negb (is_done st)) g g') /\
      (forall ctx ie ss i g r g',
          run_block orc imm f ctx ie ss i g = Ok (r, g') -> forallb pwf ss = true -> lst_all (g_ls g) ->
          Step ctx (waiting r) g g') /\
      (forall ctx l g sts g',
          start_list orc imm f ctx l g = Ok (sts, g') ->
          forallb (fun b => is_call b && pwf b) (map snd l) = true -> lst_all (g_ls g) ->
          Step ctx (nonnil l) g g') /\
      (forall ctx ie s k g st g',
          loop_test orc imm f ctx ie s k g = Ok (st, g') -> pwf s = true -> lst_all (g_ls g) ->
          Step ctx (negb (is_done st)) g g').
  Proof.
    induction f as [|f IH]; [split; [|split; [|split]]; intros; discriminate|].
    destruct IH as (IHs & IHb & IHl & IHt).
    split; [|split; [|split]].
    - (* start_stmt *)
      intros ctx ie s g st g' H HW Hl. cbn [start_stmt] in H.
      destruct s as [n at_ ins|t at_ ins body|bs|e p fl|e b|v lim b|v lim c]; cbn [pwf is_call orb] in *.
      + eapply Step_flag; [eapply Step_service; eassumption|reflexivity].
      + (* call *)
        mstep as id g1 E1. unfold fresh_t in E1. inv E1.
        mstep as u2 g2 E2. destruct (emit_walk _ _ _ _ _ E2 Hl) as (A1 & n1 & A2 & A3). cbn in A1, A2.
        mstep as r g3 E3.
        destruct (IHb _ _ _ _ _ _ _ E3 HW ltac:(rewrite A1; exact Hl)) as (B1 & n3 & B2 & B3).
        destruct r as [[i sti]|].
        * mstep. split; [congruence|]. exists (n1 ++ n3).
          split; [rewrite B2, A2, rev_app_distr, app_assoc; reflexivity|].
          intros pin Hp. destruct (B3 None (or_introl eq_refl)) as (p3 & W3 & P3 & F3).
          exists p3. split; [|split; [rewrite (F3 eq_refl); left; reflexivity|intros _; exact (F3 eq_refl)]].
          rewrite nwalk_app, A3, (nstep_in ctx TS _ _ _ _ pin Hp (or_introl eq_refl)). exact W3.
        * mstep as u4 g4 E4.
          destruct (emit_walk _ _ _ _ _ E4 ltac:(rewrite B1, A1; exact Hl)) as (C1 & n4 & C2 & C3). mstep.
          split; [congruence|]. exists (n1 ++ n3 ++ n4).
          split; [rewrite C2, B2, A2, !rev_app_distr, !app_assoc; reflexivity|].
          intros pin Hp. destruct (B3 None (or_introl eq_refl)) as (p3 & W3 & P3 & F3).
          exists None. split; [|split; [left; reflexivity|reflexivity]].
          rewrite nwalk_app, A3, (nstep_in ctx TS _ _ _ _ pin Hp (or_introl eq_refl)), nwalk_app, W3, C3.
          apply nstep_tf. exact P3.
      + (* parallel *)
        mstep as sts g1 E1.
        pose proof (IHl _ _ _ _ _ E1 ltac:(rewrite map_snd_pair; exact HW) Hl) as S1.
        destruct (all_done sts) eqn:D; mstep.
        * eapply Step_relax; exact S1.
        * cbn. rewrite <- (all_done_nonnil _ _ _ _ _ _ E1 D). exact S1.
      + (* condition *)
        apply andb_true_iff in HW. destruct HW as (Wp & Wf).
        mstep as bb g1 E1. pose proof (Step_decide _ _ _ _ _ E1) as S1.
        mstep as r g2 E2.
        pose proof (IHb _ _ _ _ _ _ _ E2 ltac:(destruct bb; assumption) ltac:(rewrite (proj1 S1); exact Hl)) as S2.
        destruct r as [[i sti]|]; mstep; exact (Step_seq _ _ _ _ _ _ S1 S2).
      + eapply IHt; eassumption.
      + eapply IHt; eassumption.
      + (* parallel loop *)
        mstep as n g1 E1. pose proof (Step_limit _ _ _ _ _ E1) as S1.
        mstep as sts g2 E2.
        assert (HW' : forallb (fun b => is_call b && pwf b) (map snd (insts ie v c (Z.to_nat n))) = true).
        { rewrite insts_snd. apply forallb_forall. intros x Hx. apply repeat_spec in Hx. subst x. exact HW. }
        pose proof (IHl _ _ _ _ _ E2 HW' ltac:(rewrite (proj1 S1); exact Hl)) as S2.
        destruct (all_done sts) eqn:D; mstep.
        * eapply Step_relax. exact (Step_seq _ _ _ _ _ _ S1 S2).
        * cbn. rewrite <- (all_done_nonnil _ _ _ _ _ _ E2 D). exact (Step_seq _ _ _ _ _ _ S1 S2).
    - (* run_block *)
      intros ctx ie ss i g r g' H HW Hl. cbn [run_block] in H.
      destruct (nth_error ss i) as [s1|] eqn:Hn; [|mstep; apply Step_refl].
      mstep as st g1 E1.
      pose proof (IHs _ _ _ _ _ _ E1 (pwf_nth _ _ _ HW Hn) Hl) as S1.
      destruct (is_done st) eqn:D.
      + pose proof (IHb _ _ _ _ _ _ _ H HW ltac:(rewrite (proj1 S1); exact Hl)) as S2.
        exact (Step_seq _ _ _ _ _ _ S1 S2).
      + mstep. cbn [waiting]. eapply Step_flag; [exact S1|]. intros _. apply orb_true_r.
    - (* start_list *)
      intros ctx l g sts g' H HW Hl. cbn [start_list] in H.
      destruct l as [|[ie b] r]; [mstep; apply Step_refl|].
      cbn [map snd forallb] in HW. apply andb_true_iff in HW. destruct HW as (Wb & Wr).
      apply andb_true_iff in Wb. destruct Wb as (Cb & Wb).
      mstep as st g1 E1. pose proof (IHs _ _ _ _ _ _ E1 Wb Hl) as S1. rewrite Cb in S1. cbn [orb] in S1.
      mstep as sts1 g2 E2.
      pose proof (IHl _ _ _ _ _ E2 Wr ltac:(rewrite (proj1 S1); exact Hl)) as S2.
      mstep. cbn [nonnil]. destruct r as [|x r].
      + destruct f as [|f0]; [discriminate|]. cbn [start_list] in E2. unfold ret in E2. inv E2. exact S1.
      + exact (Step_seq _ _ _ _ _ _ S1 S2).
    - (* loop_test *)
      intros ctx ie s k g st g' H HW Hl. cbn [loop_test] in H.
      destruct s as [n at_ ins|t at_ ins body|bs|e p fl|e b|v lim b|v lim c]; try discriminate.
      + pose proof HW as HW0. cbn [pwf] in HW.
        mstep as bb g1 E1. pose proof (Step_decide _ _ _ _ _ E1) as S1.
        destruct bb; [|mstep; exact S1].
        mstep as r g2 E2.
        pose proof (IHb _ _ _ _ _ _ _ E2 HW ltac:(rewrite (proj1 S1); exact Hl)) as S2.
        destruct r as [[i sti]|]; [mstep; exact (Step_seq _ _ _ _ _ _ S1 S2)|].
        pose proof (IHt _ _ _ _ _ _ _ H HW0 ltac:(rewrite (proj1 S2), (proj1 S1); exact Hl)) as S3.
        exact (Step_seq _ _ _ _ _ _ (Step_seq _ _ _ _ _ _ S1 S2) S3).
      + pose proof HW as HW0. cbn [pwf] in HW.
        mstep as n g1 E1. pose proof (Step_limit _ _ _ _ _ E1) as S1.
        destruct (Z.of_nat k <? n)%Z; [|mstep; exact S1].
        mstep as r g2 E2.
        pose proof (IHb _ _ _ _ _ _ _ E2 HW ltac:(rewrite (proj1 S1); exact Hl)) as S2.
        destruct r as [[i sti]|]; [mstep; exact (Step_seq _ _ _ _ _ _ S1 S2)|].
        pose proof (IHt _ _ _ _ _ _ _ H HW0 ltac:(rewrite (proj1 S2), (proj1 S1); exact Hl)) as S3.
        exact (Step_seq _ _ _ _ _ _ (Step_seq _ _ _ _ _ _ S1 S2) S3).
  Qed.

  (* ---- the deliver family: the call starts with nothing pending ---- *)
  Definition DS (ctx : nat) (fin : bool) (g g' : G) : Prop :=
    g_ls g' = g_ls g /\
    exists new, g_log g' = rev new ++ g_log g /\
                exists pout, nwalk None new = Some pout /\ (fin = true -> pok ctx pout).

  Lemma DS_refl : forall ctx fin g, DS ctx fin g g.
  Proof.
    intros ctx fin g. split; [reflexivity|]. exists []. split; [reflexivity|]. exists None.
    split; [reflexivity|]. intros _. left. reflexivity.
  Qed.

  Lemma DS_fin : forall ctx fin fin' g g', DS ctx fin g g' -> (fin' = true -> fin = true) -> DS ctx fin' g g'.
  Proof.
    intros ctx fin fin' g g' (H1 & new & H2 & pout & H3 & H4) Hf. split; [exact H1|]. exists new. split; [exact H2|].
    exists pout. split; [exact H3|]. intro Hx. apply H4. apply Hf. exact Hx.
  Qed.

  Lemma DS_false : forall c1 c2 fin g g', DS c1 fin g g' -> DS c2 false g g'.
  Proof.
    intros c1 c2 fin g g' (H1 & new & H2 & pout & H3 & _). split; [exact H1|]. exists new. split; [exact H2|].
    exists pout. split; [exact H3|discriminate].
  Qed.

  Lemma DS_Step : forall ctx w g g1 g2, DS ctx true g g1 -> Step ctx w g1 g2 -> DS ctx true g g2.
  Proof.
    intros ctx w g g1 g2 (A1 & n1 & A2 & p1 & A3 & A4) (B1 & n2 & B2 & B3). split; [congruence|].
    exists (n1 ++ n2). split; [rewrite B2, A2, rev_app_distr, app_assoc; reflexivity|].
    destruct (B3 p1 (A4 eq_refl)) as (p2 & W2 & P2 & _). exists p2.
    split; [rewrite nwalk_app, A3; exact W2|]. intros _. exact P2.
  Qed.

  Lemma pwf_par : forall bs, forallb (fun b => is_call b && pwf b) bs = true -> forallb pwf bs = true.
  Proof.
    intros bs H. apply forallb_forall. intros x Hx. rewrite forallb_forall in H. specialize (H x Hx).
    apply andb_true_iff in H. apply H.
  Qed.

  Lemma deliver_n : forall f,
      (forall ctx ie s st id g r g',
          deliver orc imm f ctx ie s st id g = Ok (r, g') -> pwf s = true -> lst_all (g_ls g) ->
          DS ctx (match r with Some st' => is_done st' | None => true end) g g') /\
      (forall ctx ie ss i sti id g r g',
          deliver_block orc imm f ctx ie ss i sti id g = Ok (r, g') -> forallb pwf ss = true -> lst_all (g_ls g) ->
          DS ctx (match r with Some (Some _) => false | _ => true end) g g') /\
      (forall ctx l sts id g r g',
          deliver_list orc imm f ctx l sts id g = Ok (r, g') -> forallb pwf (map snd l) = true -> lst_all (g_ls g) ->
          DS ctx (match r with Some sts' => all_done sts' | None => true end) g g').
  Proof.
    induction f as [|f IH]; [split; [|split]; intros; discriminate|].
    destruct IH as (IHd & IHb & IHl).
    split; [|split].
    - (* deliver *)
      intros ctx ie s st id g r g' H HW Hl. cbn [deliver] in H.
      destruct s as [n at_ ins|t at_ ins body|bs|e p fl|e b|v lim b|v lim c];
        destruct st as [|id'|cid i sti|sts|bb i sti|k i sti|sts]; cbn [pwf] in HW;
        try (mstep; apply DS_refl).
      + (* service *)
        destruct (Nat.eqb id id'); [|mstep; apply DS_refl].
        mstep as u g1 E1. destruct (emit_walk _ _ _ _ _ E1 Hl) as (A1 & n1 & A2 & A3). mstep.
        split; [exact A1|]. exists n1. split; [exact A2|]. exists None. split; [rewrite A3; reflexivity|].
        intros _. left. reflexivity.
      + (* call *)
        mstep as r1 g1 E1.
        pose proof (proj1 (proj2 (deliver_eff orc imm f)) _ _ _ _ _ _ _ _ _ E1) as DE1.
        pose proof (IHb _ _ _ _ _ _ _ _ _ E1 HW Hl) as S1.
        destruct r1 as [[[j st']|]|]; cbn [dres] in DE1.
        * mstep. eapply DS_false. exact S1.
        * mstep as u g2 E2. destruct S1 as (A1 & n1 & A2 & p1 & A3 & A4).
          destruct (emit_walk _ _ _ _ _ E2 ltac:(rewrite A1; exact Hl)) as (B1 & n2 & B2 & B3). mstep.
          split; [congruence|]. exists (n1 ++ n2). split; [rewrite B2, A2, rev_app_distr, app_assoc; reflexivity|].
          exists None. split; [|intros _; left; reflexivity].
          rewrite nwalk_app, A3, B3. apply nstep_tf. exact (A4 eq_refl).
        * mstep. subst g1. apply DS_refl.
      + (* parallel *)
        mstep as r1 g1 E1.
        pose proof (IHl _ _ _ _ _ _ _ E1 ltac:(rewrite map_snd_pair; apply pwf_par; exact HW) Hl) as S1.
        destruct r1 as [sts'|]; [|mstep; exact S1].
        destruct (all_done sts') eqn:D; mstep; [exact S1|eapply DS_false; exact S1].
      + (* condition *)
        apply andb_true_iff in HW. destruct HW as (Wp & Wf).
        mstep as r1 g1 E1.
        pose proof (IHb _ _ _ _ _ _ _ _ _ E1 ltac:(destruct bb; assumption) Hl) as S1.
        destruct r1 as [[[j st']|]|]; mstep; exact S1.
      + (* while *)
        mstep as r1 g1 E1.
        pose proof (IHb _ _ _ _ _ _ _ _ _ E1 HW Hl) as S1.
        destruct r1 as [[[j st']|]|].
        * mstep. exact S1.
        * mstep as st' g2 E2.
          pose proof (proj2 (proj2 (proj2 (start_n f))) _ _ _ _ _ _ _ E2 HW ltac:(rewrite (proj1 S1); exact Hl)) as S2.
          mstep. eapply DS_fin; [exact (DS_Step _ _ _ _ _ S1 S2)|reflexivity].
        * mstep. exact S1.
      + (* counting loop *)
        mstep as r1 g1 E1.
        pose proof (IHb _ _ _ _ _ _ _ _ _ E1 HW Hl) as S1.
        destruct r1 as [[[j st']|]|].
        * mstep. exact S1.
        * mstep as st' g2 E2.
          pose proof (proj2 (proj2 (proj2 (start_n f))) _ _ _ _ _ _ _ E2 HW ltac:(rewrite (proj1 S1); exact Hl)) as S2.
          mstep. eapply DS_fin; [exact (DS_Step _ _ _ _ _ S1 S2)|reflexivity].
        * mstep. exact S1.
      + (* parallel loop *)
        apply andb_true_iff in HW. destruct HW as (_ & Wc).
        mstep as r1 g1 E1.
        assert (HW' : forallb pwf (map snd (insts ie v c (List.length sts))) = true).
        { rewrite insts_snd. apply forallb_forall. intros x Hx. apply repeat_spec in Hx. subst x. exact Wc. }
        pose proof (IHl _ _ _ _ _ _ _ E1 HW' Hl) as S1.
        destruct r1 as [sts'|]; [|mstep; exact S1].
        destruct (all_done sts') eqn:D; mstep; [exact S1|eapply DS_false; exact S1].
    - (* deliver_block *)
      intros ctx ie ss i sti id g r g' H HW Hl. cbn [deliver_block] in H.
      destruct (nth_error ss i) as [s1|] eqn:Hn; [|mstep; apply DS_refl].
      mstep as r1 g1 E1.
      pose proof (IHd _ _ _ _ _ _ _ _ E1 (pwf_nth _ _ _ HW Hn) Hl) as S1.
      destruct r1 as [st'|]; [|mstep; exact S1].
      destruct (is_done st') eqn:D.
      + mstep as r' g2 E2.
        pose proof (proj1 (proj2 (start_n f)) _ _ _ _ _ _ _ E2 HW ltac:(rewrite (proj1 S1); exact Hl)) as S2.
        mstep. eapply DS_fin; [exact (DS_Step _ _ _ _ _ S1 S2)|reflexivity].
      + mstep. exact S1.
    - (* deliver_list *)
      intros ctx l sts id g r g' H HW Hl. cbn [deliver_list] in H.
      destruct l as [|[ie b] br]; [mstep; apply DS_refl|].
      destruct sts as [|st sr]; [mstep; apply DS_refl|].
      cbn [map snd forallb] in HW. apply andb_true_iff in HW. destruct HW as (Wb & Wr).
      mstep as r1 g1 E1.
      pose proof (proj1 (deliver_eff orc imm f) _ _ _ _ _ _ _ _ E1) as DE1.
      pose proof (IHd _ _ _ _ _ _ _ _ E1 Wb Hl) as S1.
      destruct r1 as [st'|]; cbn [dres] in DE1.
      + mstep. eapply DS_fin; [exact S1|]. cbn [all_done]. intro Hx. apply andb_true_iff in Hx. apply Hx.
      + subst g1. mstep as r2 g2 E2.
        pose proof (IHl _ _ _ _ _ _ _ E2 Wr Hl) as S2.
        destruct r2 as [sr'|]; mstep; [|exact S2].
        eapply DS_fin; [exact S2|]. cbn [all_done]. intro Hx. apply andb_true_iff in Hx. apply Hx.
  Qed.
End Next.

Section NextApi.
  Variable orc : oracle.
  Variable imm : nat -> bool.
  Variable body : list xstmt.

  (* between API calls: function 0 registered once per kind, the production task's
     instance is number 0 *)
  Definition RI (s : sched) : Prop :=
    lst_all (g_ls (sc_g s)) /\
    match sc_root s with
    | None => g_tid (sc_g s) = 0
    | Some (RCall cid _ _) => cid = 0
    | Some _ => True
    end.

  Lemma finish_root_n : forall g u g' p,
      finish_root g = Ok (u, g') -> lst_all (g_ls g) -> pok 0 p ->
      g_ls g' = g_ls g /\ exists new, g_log g' = rev new ++ g_log g /\ nwalk p new = Some None.
  Proof.
    intros g u g' p H Hl Hp. unfold finish_root in H.
    mstep as u1 g1 E1. unfold set_running in H. inv H.
    destruct (emit_walk _ _ _ _ _ E1 Hl) as (A1 & n1 & A2 & A3).
    split; [exact A1|]. exists n1. split; [exact A2|]. rewrite A3. apply nstep_tf. exact Hp.
  Qed.

  Lemma api_step_n : forall f s c b s',
      forallb pwf body = true -> RI s -> api_call orc imm f body s c = Ok (b, s') ->
      RI s' /\ exists p, nwalk None (cr_log (observe b s')) = Some p.
  Proof.
    intros f s c b s' HW (Hl & Hr) H.
    assert (Quiet : forall b0 ls obs, lst_all ls ->
               let s0 := {| sc_g := clear_log (sc_g s) <| g_ls := ls |> <| g_obs := obs |>; sc_root := sc_root s |} in
               RI s0 /\ exists p, nwalk None (cr_log (observe b0 s0)) = Some p).
    { intros b0 ls obs Hls s0. split; [split; [exact Hls|exact Hr]|]. exists None. reflexivity. }
    destruct c as [|id| |k l|o|o]; cbn [api_call] in H.
    - (* start *)
      destruct (sc_root s) as [r0|] eqn:Hroot.
      + inv H. exact (Quiet true (g_ls (sc_g s)) (g_obs (sc_g s)) Hl).
      + match type of H with match ?X with _ => _ end = _ => destruct X as [[st g']| | |] eqn:E end;
          try discriminate. inv H.
        mstep as u1 g1 E1. unfold set_running in E1. inv E1.
        set (g0 := clear_log (sc_g s) <| g_running := true |>) in *.
        assert (Hl0 : lst_all (g_ls g0)) by exact Hl.
        mstep as id g2 E2. unfold fresh_t in E2. inv E2.
        change (g_tid g0) with (g_tid (sc_g s)) in *. rewrite Hr in *.
        mstep as u3 g3 E3. destruct (emit_walk _ _ _ _ _ E3 Hl0) as (A1 & n1 & A2 & A3). cbn in A1, A2.
        mstep as r g4 E4.
        destruct (proj1 (proj2 (start_n orc imm f)) _ _ _ _ _ _ _ E4 HW ltac:(rewrite A1; exact Hl0))
          as (B1 & n3 & B2 & B3).
        destruct (B3 None (or_introl eq_refl)) as (p3 & W3 & P3 & _).
        destruct r as [[i sti]|].
        * mstep. split; [split; [cbn; rewrite B1, A1; exact Hl0|reflexivity]|].
          exists p3. unfold observe. cbn [cr_log sc_g].
          rewrite B2, A2. change (g_log g0) with (@nil entry). rewrite app_nil_r, rev_app_distr, !rev_involutive.
          rewrite nwalk_app, A3. exact W3.
        * mstep as u5 g5 E5. mstep.
          destruct (finish_root_n _ _ _ p3 E5 ltac:(rewrite B1, A1; exact Hl0) P3) as (C1 & n5 & C2 & C3).
          split; [split; [cbn; rewrite C1, B1, A1; exact Hl0|exact I]|].
          exists None. unfold observe. cbn [cr_log sc_g].
          rewrite C2, B2, A2. change (g_log g0) with (@nil entry).
          rewrite app_nil_r, !rev_app_distr, !rev_involutive.
          rewrite !nwalk_app, A3. cbn [nstep_notif]. rewrite W3. exact C3.
    - (* completion *)
      change (g_awaited (clear_log (sc_g s))) with (g_awaited (sc_g s)) in H.
      destruct (mem id (g_awaited (sc_g s))).
      + destruct (sc_root s) as [[|id'|cid i sti|sts|bb i sti|k i sti|sts]|] eqn:Hroot; try discriminate.
        match type of H with match ?X with _ => _ end = _ => destruct X as [[st g']| | |] eqn:E end;
          try discriminate. inv H.
        mstep as u1 g1 E1. unfold unawait in E1.
        match type of E1 with match ?X with _ => _ end = _ => destruct X as [aw1|] end; [|discriminate].
        unfold set_awaited in E1. inv E1.
        set (g0 := clear_log (sc_g s) <| g_awaited := aw1 |>) in *.
        assert (Hl0 : lst_all (g_ls g0)) by exact Hl.
        mstep as r g2 E2.
        destruct (proj1 (proj2 (deliver_n orc imm f)) _ _ _ _ _ _ _ _ _ E2 HW Hl0) as (B1 & n3 & B2 & p3 & W3 & P3).
        destruct r as [[[j st']|]|]; [| |discriminate].
        * mstep. split; [split; [cbn; rewrite B1; exact Hl0|reflexivity]|].
          exists p3. unfold observe. cbn [cr_log sc_g].
          rewrite B2. change (g_log g0) with (@nil entry). rewrite app_nil_r, rev_involutive. exact W3.
        * mstep as u5 g5 E5. mstep.
          destruct (finish_root_n _ _ _ p3 E5 ltac:(rewrite B1; exact Hl0) (P3 eq_refl))
            as (C1 & n5 & C2 & C3).
          split; [split; [cbn; rewrite C1, B1; exact Hl0|exact I]|].
          exists None. unfold observe. cbn [cr_log sc_g].
          rewrite C2, B2. change (g_log g0) with (@nil entry).
          rewrite app_nil_r, !rev_app_distr, !rev_involutive.
          rewrite nwalk_app, W3. exact C3.
      + inv H. exact (Quiet false (g_ls (sc_g s)) (g_obs (sc_g s)) Hl).
    - inv H. exact (Quiet false (g_ls (sc_g s)) (g_obs (sc_g s)) Hl).
    - change (g_ls (clear_log (sc_g s))) with (g_ls (sc_g s)) in H.
      destruct (existsb (fun p => nkind_eqb (fst p) k && Nat.eqb (snd p) l) (g_ls (sc_g s))) eqn:Ex; inv H.
      + exact (Quiet false (g_ls (sc_g s)) (g_obs (sc_g s)) Hl).
      + exact (Quiet true (g_ls (sc_g s) ++ [(k, l)]) (g_obs (sc_g s)) (register_keeps _ _ _ Hl Ex)).
    - inv H. exact (Quiet true (g_ls (sc_g s)) (g_obs (sc_g s) ++ [o]) Hl).
    - change (g_obs (clear_log (sc_g s))) with (g_obs (sc_g s)) in H.
      destruct (remove_first (Nat.eqb o) (g_obs (sc_g s))) as [l|]; [|discriminate]. inv H.
      exact (Quiet true (g_ls (sc_g s)) l Hl).
  Qed.

  Theorem C04n_run : forall f cs s tr,
      forallb pwf body = true -> RI s -> run_script orc imm f body s cs = Ok tr -> holds_C04n tr = true.
  Proof.
    intros f cs. induction cs as [|c cs IH]; intros s tr HW HI H; cbn [run_script] in H.
    - inv H. reflexivity.
    - destruct (api_call orc imm f body s c) as [[b s']| | |] eqn:E; try discriminate.
      cbn [rbind] in H.
      destruct (run_script orc imm f body s' cs) as [t| | |] eqn:E2; try discriminate.
      cbn [rbind] in H. inv H.
      destruct (api_step_n _ _ _ _ _ HW HI E) as (HI' & p & Hp).
      unfold holds_C04n. cbn [forallb]. rewrite Hp. cbn [andb]. exact (IH _ _ HW HI' E2).
  Qed.
End NextApi.

(* every run of the reference semantics on a program whose Parallel branches and parallel-loop
   bodies are task calls *)
Theorem C04_query_innermost_ref : forall orc imm body f cs tr,
    forallb pwf body = true ->
    run_script orc imm f body sched0 cs = Ok tr -> holds_C04n tr = true.
Proof.
  intros orc imm body f cs tr HW H. eapply C04n_run; [exact HW| |exact H].
  split; [apply lst_all_default|reflexivity].
Qed.

(* ---- the call-tree unfolding produces such programs ---- *)
Lemma blk_gen : forall (P : xstmt -> bool) (g : nat -> stmt -> res xstmt),
    (forall i s x, g i s = Ok x -> P x = true) ->
    forall ss i xs,
      (fix blk (i : nat) (ss : list stmt) {struct ss} : res (list xstmt) :=
         match ss with
         | [] => Ok []
         | s1 :: r => rbind (g i s1) (fun x => rbind (blk (S i) r) (fun xs => Ok (x :: xs)))
         end) i ss = Ok xs -> forallb P xs = true.
Proof.
  intros P g Hg. induction ss as [|s1 r IHr]; intros i xs H.
  - inv H. reflexivity.
  - destruct (g i s1) as [x| | |] eqn:E1; try discriminate. cbn [rbind] in H.
    match type of H with rbind ?X _ = _ => destruct X as [xs'| | |] eqn:E2 end; try discriminate.
    cbn [rbind] in H. inv H. cbn [forallb]. rewrite (Hg _ _ _ E1), (IHr _ _ E2). reflexivity.
Qed.

Lemma block_gen : forall (P : xstmt -> bool) (g : list nat -> nat -> stmt -> res xstmt),
    (forall pre i s x, g pre i s = Ok x -> P x = true) ->
    forall ss pre i xs,
      (fix block (pre : list nat) (i : nat) (ss : list stmt) {struct ss} : res (list xstmt) :=
         match ss with
         | [] => Ok []
         | s1 :: r => rbind (g pre i s1) (fun x => rbind (block pre (S i) r) (fun xs => Ok (x :: xs)))
         end) pre i ss = Ok xs -> forallb P xs = true.
Proof.
  intros P g Hg. induction ss as [|s1 r IHr]; intros pre i xs H.
  - inv H. reflexivity.
  - destruct (g pre i s1) as [x| | |] eqn:E1; try discriminate. cbn [rbind] in H.
    match type of H with rbind ?X _ = _ => destruct X as [xs'| | |] eqn:E2 end; try discriminate.
    cbn [rbind] in H. inv H. cbn [forallb]. rewrite (Hg _ _ _ _ E1), (IHr _ _ _ E2). reflexivity.
Qed.

Lemma calls_gen : forall (P : xstmt -> bool) (g : nat -> call -> res xstmt),
    (forall i s x, g i s = Ok x -> P x = true) ->
    forall ss i xs,
      (fix calls (i : nat) (l : list call) {struct l} : res (list xstmt) :=
         match l with
         | [] => Ok []
         | c :: r => rbind (g i c) (fun x => rbind (calls (S i) r) (fun xs => Ok (x :: xs)))
         end) i ss = Ok xs -> forallb P xs = true.
Proof.
  intros P g Hg. induction ss as [|s1 r IHr]; intros i xs H.
  - inv H. reflexivity.
  - destruct (g i s1) as [x| | |] eqn:E1; try discriminate. cbn [rbind] in H.
    match type of H with rbind ?X _ = _ => destruct X as [xs'| | |] eqn:E2 end; try discriminate.
    cbn [rbind] in H. inv H. cbn [forallb]. rewrite (Hg _ _ _ E1), (IHr _ _ E2). reflexivity.
Qed.

Section U.
  Variable tasks : list task.

  Lemma unfold_pwf : forall f tn path s x,
      unfold_stmt tasks f tn path s = Ok x -> pwf x = true.
  Proof.
    induction f as [|f IH]; intros tn path s x H; [discriminate|].
    cbn [unfold_stmt] in H.
    assert (DC : forall pth c y,
               match find_task (c_name c) tasks with
               | Some t =>
                 rbind
                   ((fix blk (i : nat) (ss : list stmt) {struct ss} : res (list xstmt) :=
                       match ss with
                       | [] => Ok []
                       | s1 :: r =>
                         rbind (unfold_stmt tasks f (t_name t) [i] s1)
                               (fun x : xstmt => rbind (blk (S i) r) (fun xs : list xstmt => Ok (x :: xs)))
                       end) 0 (t_body t))
                   (fun body : list xstmt =>
                      Ok (XCall (c_name c) {| st_task := tn; st_path := pth |} (c_ins c) body))
               | None => Exn KeyError
               end = Ok y -> is_call y && pwf y = true).
    { intros pth c y Hy. destruct (find_task (c_name c) tasks) as [t|]; [|discriminate].
      match type of Hy with rbind ?X _ = _ => destruct X as [body| | |] eqn:E end; try discriminate.
      cbn [rbind] in Hy. inv Hy. cbn [is_call pwf andb].
      apply (blk_gen pwf (fun i s1 => unfold_stmt tasks f (t_name t) [i] s1)) in E; [exact E|].
      intros i s0 x0 Hx. eapply IH; exact Hx. }
    assert (BL : forall pre i ss xs,
               (fix block (pre : list nat) (i : nat) (ss : list stmt) {struct ss} : res (list xstmt) :=
                  match ss with
                  | [] => Ok []
                  | s1 :: r =>
                    rbind (unfold_stmt tasks f tn (pre ++ [i]) s1)
                          (fun x : xstmt => rbind (block pre (S i) r) (fun xs : list xstmt => Ok (x :: xs)))
                  end) pre i ss = Ok xs -> forallb pwf xs = true).
    { intros pre i ss xs Hx.
      apply (block_gen pwf (fun pre i s1 => unfold_stmt tasks f tn (pre ++ [i]) s1)) in Hx; [exact Hx|].
      intros pre0 i0 s0 x0 Hx0. eapply IH; exact Hx0. }
    destruct s as [n ins outs|c|cs|e body|par v lim body|e p fl].
    - inv H. reflexivity.
    - apply DC in H. apply andb_true_iff in H. apply H.
    - match type of H with rbind ?X _ = _ => destruct X as [bs| | |] eqn:E end; try discriminate.
      cbn [rbind] in H. inv H. cbn [pwf].
      apply (calls_gen (fun b => is_call b && pwf b)
               (fun i c => match find_task (c_name c) tasks with
               | Some t =>
                 rbind
                   ((fix blk (i0 : nat) (ss : list stmt) {struct ss} : res (list xstmt) :=
                       match ss with
                       | [] => Ok []
                       | s1 :: r0 =>
                         rbind (unfold_stmt tasks f (t_name t) [i0] s1)
                               (fun x : xstmt => rbind (blk (S i0) r0) (fun xs : list xstmt => Ok (x :: xs)))
                       end) 0 (t_body t))
                   (fun body : list xstmt =>
                      Ok (XCall (c_name c) {| st_task := tn; st_path := path ++ [i] |} (c_ins c) body))
               | None => Exn KeyError
               end)) in E; [exact E|].
      intros i c y Hy. eapply DC. exact Hy.
    - match type of H with rbind ?X _ = _ => destruct X as [b| | |] eqn:E end; try discriminate.
      cbn [rbind] in H. inv H. cbn [pwf]. eapply BL. exact E.
    - destruct par.
      + destruct body as [|[n0 i0 o0|c|cs0|e0 b0|p0 v0 l0 b0|e0 p0 f0] [|s2 r2]]; try discriminate.
        match type of H with rbind ?X _ = _ => destruct X as [y| | |] eqn:E end; try discriminate.
        cbn [rbind] in H. inv H. cbn [pwf]. eapply DC. exact E.
      + match type of H with rbind ?X _ = _ => destruct X as [b| | |] eqn:E end; try discriminate.
        cbn [rbind] in H. inv H. cbn [pwf]. eapply BL. exact E.
    - match type of H with rbind ?X _ = _ => destruct X as [xp| | |] eqn:E1 end; try discriminate.
      cbn [rbind] in H.
      match type of H with rbind ?X _ = _ => destruct X as [xf| | |] eqn:E2 end; try discriminate.
      cbn [rbind] in H. inv H. cbn [pwf]. rewrite (BL _ _ _ _ E1), (BL _ _ _ _ E2). reflexivity.
  Qed.

  Lemma unfold_program_pwf : forall f body, unfold_program tasks f = Ok body -> forallb pwf body = true.
  Proof.
    intros f body H. unfold unfold_program in H. destruct (find_task production_task tasks) as [t|]; [|discriminate].
    apply (blk_gen pwf (fun i s1 => unfold_stmt tasks f production_task [i] s1)) in H; [exact H|].
    intros i s0 x0 Hx. eapply unfold_pwf; exact Hx.
  Qed.
End U.

Theorem C04_query_innermost_programs : forall (c : runcase) (tr : list callrec),
    run_ref c = Ok tr -> holds_C04n tr = true.
Proof.
  intros c tr H. unfold run_ref in H.
  destruct (existsb _ (rc_react c)); [discriminate|].
  destruct (unfold_program (p_tasks (rc_prog c)) 200) as [body| | |] eqn:U; try discriminate.
  cbn [rbind] in H. eapply C04_query_innermost_ref; [|exact H].
  eapply unfold_program_pwf. exact U.
Qed.

(* ---- what acceptance means ---- *)
Definition relevant (e : entry) : bool :=
  match e with ENotif 0 _ _ | EQuery _ _ => true | _ => false end.

Lemma nwalk_irrelevant : forall mid p, forallb (fun e => negb (relevant e)) mid = true -> nwalk p mid = Some p.
Proof.
  induction mid as [|e mid IH]; intros p H; [reflexivity|]. cbn [forallb] in H.
  apply andb_true_iff in H. destruct H as (H1 & H2).
  destruct e as [[|l0] n r|o kk nm id fl|v cc|fi|fi fr]; cbn [relevant negb] in H1; try discriminate;
    cbn [nwalk nstep_entry]; apply IH; exact H2.
Qed.

(* in an accepted trace, the first entry of function 0 or of the oracle after a query in
   context c, in the same call, is a query in context c, a started notification of a statement
   whose enclosing instance is c, or the finished notification of c *)
Theorem holds_C04n_meaning : forall tr r pre v c mid e post,
    holds_C04n tr = true -> In r tr ->
    cr_log r = pre ++ EQuery v c :: mid ++ e :: post ->
    forallb (fun e => negb (relevant e)) mid = true ->
    match e with
    | EQuery _ c' => c' = c
    | ENotif 0 n _ => n_ok c n = true
    | _ => True
    end.
Proof.
  intros tr r pre v c mid e post H Hi Hlog Hm. unfold holds_C04n in H. rewrite forallb_forall in H.
  specialize (H r Hi). rewrite Hlog, nwalk_app in H.
  destruct (nwalk None pre) as [p1|]; [|discriminate]. cbn [nwalk] in H.
  destruct (nstep_entry p1 (EQuery v c)) as [p2|] eqn:E; [|discriminate].
  assert (p2 = Some c).
  { cbn [nstep_entry] in E. destruct p1 as [c'|]; [destruct (Nat.eqb c' c)|]; inv E; reflexivity. }
  subst p2. rewrite nwalk_app, (nwalk_irrelevant _ _ Hm) in H. cbn [nwalk] in H.
  destruct e as [[|l0] n r0|o kk nm id fl|v0 cc|fi|fi fr]; try exact I.
  - cbn [nstep_entry nstep_notif] in H. destruct (n_ok c n); [reflexivity|discriminate].
  - cbn [nstep_entry] in H. destruct (Nat.eqb c cc) eqn:Eq; [|discriminate]. apply Nat.eqb_eq in Eq. congruence.
Qed.

(* ---- examples ---- *)
Example ex_case_innermost :
  match run_ref ex_case with
  | Ok tr => forallb pwf ex_body = true /\ holds_C04n tr = true
  | _ => False
  end.
Proof. vm_compute. split; reflexivity. Qed.

(* the nested example: the guard of the While loop inside instance 1 renamed to the (open)
   parent instance 0 is rejected by this monitor, although holds_C04q accepts it *)
Example nested_parent_context_rejected :
  match run_script ex_nested_orc (fun _ => false) 100 ex_nested_body sched0 ex_nested_script with
  | Ok tr => forallb pwf ex_nested_body = true /\ holds_C04n tr = true
             /\ holds_C04q (retag_trace 0 tr) = true /\ holds_C04n (retag_trace 0 tr) = false
  | _ => False
  end.
Proof. vm_compute. repeat split; reflexivity. Qed.

(* without the hypothesis on Parallel the statement is false: a Condition as a branch of a
   Parallel inside task 5, next to a call that is still waiting; the next notification
   belongs to the production task *)
Definition ex_mixed_parallel_body : list xstmt :=
  [XParallel
     [XCall 5 {| st_task := 0; st_path := [0; 0] |} []
        [XParallel [XCall 6 {| st_task := 5; st_path := [0; 0] |} []
                          [XService 7 {| st_task := 6; st_path := [0] |} []];
                    XCond (EPath 9 []) [] []]];
      XService 8 {| st_task := 0; st_path := [0; 1] |} []]].

Example innermost_needs_call_branches :
  match run_script ex_nested_orc (fun _ => false) 100 ex_mixed_parallel_body sched0 [AStart] with
  | Ok tr => forallb pwf ex_mixed_parallel_body = false /\ holds_C04q tr = true /\ holds_C04n tr = false
  | _ => False
  end.
Proof. vm_compute. repeat split; reflexivity. Qed.

Theorem C04_context_monitors_programs : forall (c : runcase) (tr : list callrec),
    run_ref c = Ok tr -> mon_C04ctx c tr = true.
Proof.
  intros c tr H. unfold mon_C04ctx.
  rewrite (C04_query_context_programs c tr H : holds_C04q tr = true), (C04_query_innermost_programs c tr H).
  reflexivity.
Qed.
