(* RefC01.v — every run of the reference semantics satisfies the monitor holds_C01:
   the production task is reported finished exactly once, in the call that delivers the
   last outstanding completion; the reported state (running, awaited, final) follows.
   Proof file. *)
From PFDL Require Import RefSem RunCase Monitors RefBase Examples.
From Coq Require Import Lia.

(* ---- the monitor's view of a log, in terms of the counts of RefBase ---- *)
Lemma ee_cons : forall e l,
    ee_notifs (e :: l) = (match e with ENotif O n r => [(n, r)] | _ => [] end) ++ ee_notifs l.
Proof. reflexivity. Qed.

Lemma count_kind_is0 : forall k l,
    count_kind k (ee_notifs l) = List.length (filter (is0 k) l).
Proof.
  intros k l. unfold count_kind. induction l as [|e l IH]; [reflexivity|].
  rewrite ee_cons. destruct e as [[|l0] n r|o kk nm id fl|v c|fi|fi fr]; cbn [app filter is0]; auto.
  cbn [fst]. unfold is_kind at 1. destruct (nkind_eqb (n_kind n) k); cbn [List.length]; auto.
Qed.

Lemma has_prod_isP : forall k l,
    has_prod k (ee_notifs l) = negb (Nat.eqb (List.length (filter (isP k) l)) 0).
Proof.
  intros k l. unfold has_prod. induction l as [|e l IH]; [reflexivity|].
  rewrite ee_cons. destruct e as [[|l0] n r|o kk nm id fl|v c|fi|fi fr]; cbn [app filter isP existsb]; auto.
  cbn [fst]. unfold is_kind at 1. change (is_prod n) with (prodn n).
  destruct (nkind_eqb (n_kind n) k && prodn n); cbn [orb List.length]; auto.
Qed.

Lemma count_prod_isP : forall k l,
    count_kind k (filter (fun p => is_prod (fst p)) (ee_notifs l)) = List.length (filter (isP k) l).
Proof.
  intros k l. unfold count_kind. induction l as [|e l IH]; [reflexivity|].
  rewrite ee_cons. destruct e as [[|l0] n r|o kk nm id fl|v c|fi|fi fr]; cbn [app filter isP]; auto.
  cbn [fst]. change (is_prod n) with (prodn n).
  destruct (prodn n); cbn [filter fst].
  - rewrite andb_true_r. unfold is_kind at 1. destruct (nkind_eqb (n_kind n) k); cbn [List.length]; auto.
  - rewrite andb_false_r. exact IH.
Qed.

Lemma forallb_snd_run : forall l, forallb run_flag l = true -> forallb (fun p => snd p) (ee_notifs l) = true.
Proof.
  induction l as [|e l IH]; [reflexivity|].
  intro H. cbn [forallb] in H. apply andb_true_iff in H. destruct H as [H1 H2].
  rewrite ee_cons. destruct e as [[|l0] n r|o kk nm id fl|v c|fi|fi fr]; cbn [app]; auto.
  cbn [forallb snd]. cbn in H1. rewrite H1. cbn. auto.
Qed.

Lemma ee_nil : forall l, l = [] -> ee_notifs l = [].
Proof. intros l ->. reflexivity. Qed.

Section C01.
  Variable orc : oracle.
  Variable imm : nat -> bool.
  Variable body : list xstmt.

  (* function 0 registered exactly once for each kind *)
  Definition lst_all (ls : list (nkind * nat)) : Prop :=
    forall k, count_occ Nat.eq_dec (listeners_of k ls) 0 = 1.

  Lemma lst_all_lst0 : forall ls, lst_all ls -> lst0 ls.
  Proof. intros ls H. split; apply H. Qed.

  (* relation between the scheduler and the monitor state between two API calls *)
  Definition Inv (s : sched) (m : c01_state) : Prop :=
    let g := sc_g s in
    lst_all (g_ls g) /\ Forall (fun x => x < g_sid g) (g_awaited g) /\
    match sc_root s with
    | None => c01_started m = false /\ c01_finished m = false /\ c01_out m = 0
              /\ g_awaited g = [] /\ g_running g = false
    | Some RDone => c01_started m = true /\ c01_finished m = true /\ c01_out m = 0
                    /\ g_awaited g = [] /\ g_running g = false
    | Some (RCall cid i st) =>
      c01_started m = true /\ c01_finished m = false /\ c01_out m = List.length (g_awaited g)
      /\ List.length (g_awaited g) = List.length (svc_ids st)
      /\ good st /\ is_done st = false /\ g_running g = true
    | Some _ => False
    end.

  (* a call that is rejected or only administrative: nothing is logged, the monitor
     state stays *)
  Lemma quiet_step : forall s m b ls obs,
      Inv s m ->
      let s' := {| sc_g := clear_log (sc_g s) <| g_ls := ls |> <| g_obs := obs |>; sc_root := sc_root s |} in
      lst_all ls ->
      c01_step m (observe b s') = Some m /\ Inv s' m.
  Proof.
    intros s m b ls obs (Hl & Hlt & Hr) s' Hls.
    assert (Hlog : cr_log (observe b s') = []) by reflexivity.
    split.
    - unfold c01_step. rewrite Hlog. cbn [ee_notifs flat_map has_prod existsb count_kind filter List.length forallb].
      rewrite !Nat.add_0_r, !Nat.sub_0_r, !orb_false_r, !andb_false_r. cbn [negb andb].
      unfold observe. cbn [cr_running cr_final cr_awaited sc_g sc_root s'].
      change (g_running (clear_log (sc_g s) <| g_ls := ls |> <| g_obs := obs |>)) with (g_running (sc_g s)).
      change (g_awaited (clear_log (sc_g s) <| g_ls := ls |> <| g_obs := obs |>)) with (g_awaited (sc_g s)).
      destruct (sc_root s) as [[|id|cid i st|sts|bb i st|k i st|sts]|]; try contradiction.
      + destruct Hr as (H1 & H2 & H3 & H4 & H5). rewrite H1, H2, H3, H4, H5. cbn.
        destruct m; cbn in *; subst; reflexivity.
      + destruct Hr as (H1 & H2 & H3 & H4 & H5 & H6 & H7). rewrite H1, H2, H3, H7. cbn.
        rewrite Nat.eqb_refl. cbn.
        assert (Hne : Nat.eqb (List.length (g_awaited (sc_g s))) 0 = false).
        { apply Nat.eqb_neq. rewrite H4. intro Hz. apply length_zero_iff_nil in Hz.
          revert Hz. apply good_nonstall; assumption. }
        rewrite Hne. cbn.
        destruct m; cbn in *; subst; reflexivity.
      + destruct Hr as (H1 & H2 & H3 & H4 & H5). rewrite H1, H2, H3, H4, H5. cbn.
        destruct m; cbn in *; subst; reflexivity.
    - unfold Inv. cbn [sc_g sc_root s']. split; [exact Hls|]. split; [exact Hlt|]. exact Hr.
  Qed.

  (* the monitor's expressions over the observed log, as counts *)
  Lemma obs_count : forall b s k, count_kind k (ee_notifs (cr_log (observe b s))) = nK k (sc_g s).
  Proof. intros. unfold observe. cbn [cr_log]. rewrite count_kind_is0, filter_rev_length. reflexivity. Qed.
  Lemma obs_has_prod : forall b s k,
      has_prod k (ee_notifs (cr_log (observe b s))) = negb (Nat.eqb (nP k (sc_g s)) 0).
  Proof. intros. unfold observe. cbn [cr_log]. rewrite has_prod_isP, filter_rev_length. reflexivity. Qed.
  Lemma obs_count_prod : forall b s k,
      count_kind k (filter (fun p => is_prod (fst p)) (ee_notifs (cr_log (observe b s)))) = nP k (sc_g s).
  Proof. intros. unfold observe. cbn [cr_log]. rewrite count_prod_isP, filter_rev_length. reflexivity. Qed.
  Lemma obs_all_run : forall b s,
      all_run (sc_g s) = true -> forallb (fun p => snd p) (ee_notifs (cr_log (observe b s))) = true.
  Proof. intros b s H. unfold observe. cbn [cr_log]. apply forallb_snd_run. rewrite forallb_rev. exact H. Qed.

  (* sufficient conditions for one monitor step, in terms of counts *)
  Lemma c01_step_ok : forall m b s (g := sc_g s) started finished out,
      started = (c01_started m || negb (Nat.eqb (nP TS g) 0)) ->
      finished = (c01_finished m || negb (Nat.eqb (nP TF g) 0)) ->
      out + nK SF g = c01_out m + nK SS g ->
      started = true ->
      c01_finished m = false ->
      (c01_started m = true -> nP TS g = 0) ->
      nP TF g <= 1 ->
      (nP TF g = 1 <-> out = 0) ->
      all_run g = true ->
      g_running g = negb finished ->
      root_done (sc_root s) = finished ->
      List.length (g_awaited g) = out ->
      c01_step m (observe b s) = Some {| c01_started := started; c01_finished := finished; c01_out := out |}.
  Proof.
    intros m b s g started finished out Hs Hf Hout Hst Hnf Hts Htf Hiff Har Hrun Hroot Hlen.
    unfold c01_step.
    rewrite !obs_has_prod, !obs_count, obs_count_prod, (obs_all_run b s Har).
    fold g. rewrite <- Hs, <- Hf. rewrite Hnf, Hst. cbn [andb negb orb].
    assert (Ho : c01_out m + nK SS g - nK SF g = out) by lia. rewrite Ho.
    unfold observe. cbn [cr_running cr_final cr_awaited]. fold g. rewrite Hrun, Hroot, Hlen.
    rewrite Nat.eqb_refl, !eqb_reflx.
    replace (nK SF g <=? c01_out m + nK SS g) with true by (symmetry; apply Nat.leb_le; lia).
    replace (nP TF g <=? 1) with true by (symmetry; apply Nat.leb_le; lia).
    assert (H1 : negb (c01_started m && negb (Nat.eqb (nP TS g) 0)) = true).
    { destruct (c01_started m) eqn:E; cbn; auto. rewrite (Hts eq_refl). reflexivity. }
    rewrite H1.
    assert (H2 : Bool.eqb (negb (Nat.eqb (nP TF g) 0)) (Nat.eqb out 0) = true).
    { destruct (Nat.eqb out 0) eqn:E.
      - apply Nat.eqb_eq in E. apply Hiff in E. rewrite E. reflexivity.
      - apply Nat.eqb_neq in E. destruct (Nat.eqb (nP TF g) 0) eqn:E2; [reflexivity|].
        apply Nat.eqb_neq in E2. exfalso. apply E. apply Hiff. lia. }
    rewrite H2. cbn [andb orb]. rewrite !orb_true_r. cbn [andb]. reflexivity.
  Qed.

  (* notifications about the production task itself *)
  Lemma emit_prod_facts : forall k flag g u g',
      emit_gen (mk k production_task root_site 0 None []) flag g = Ok (u, g') ->
      (k = TS \/ k = TF) -> lst_all (g_ls g) ->
      g_ls g' = g_ls g /\ g_obs g' = g_obs g /\ g_running g' = g_running g /\ g_sid g' = g_sid g
      /\ g_tid g' = g_tid g /\ g_awaited g' = g_awaited g
      /\ nK SS g' = nK SS g /\ nK SF g' = nK SF g
      /\ nP k g' = nP k g + 1 /\ (forall k', k' <> k -> nP k' g' = nP k' g)
      /\ (g_running g = true -> all_run g = true -> all_run g' = true).
  Proof.
    intros k flag g u g' H Hk Hl. apply emit_gen_facts in H. cbn [n_kind mk] in H.
    destruct H as (H1 & H2 & H3 & H4 & H5 & H6 & H7 & H8 & H9 & H10 & H11).
    repeat split; auto.
    - rewrite (H9 SS). destruct Hk as [-> | ->]; cbn; lia.
    - rewrite (H9 SF). destruct Hk as [-> | ->]; cbn; lia.
    - rewrite (H11 k). rewrite (Hl k). destruct Hk as [-> | ->]; cbn; lia.
    - intros k' Hne. rewrite (H11 k'). destruct k, k'; cbn; try lia; congruence.
  Qed.

  Lemma nK_clear : forall k g, nK k (clear_log g) = 0.
  Proof. reflexivity. Qed.
  Lemma nP_clear : forall k g, nP k (clear_log g) = 0.
  Proof. reflexivity. Qed.

  (* the accepted start *)
  Lemma start_step : forall f s m st g',
      Inv s m -> sc_root s = None ->
      (set_running true ;;;
       id <- fresh_t ;;
       emit (mk TS production_task root_site id None []) ;;;
       r <- run_block orc imm f id [] body 0 ;;
       match r with
       | None => finish_root ;;; ret RDone
       | Some (i, st) => ret (RCall id i st)
       end) (clear_log (sc_g s)) = Ok (st, g') ->
      g_tid (sc_g s) = 0 ->
      let s' := {| sc_g := g'; sc_root := Some st |} in
      exists m', c01_step m (observe true s') = Some m' /\ Inv s' m'.
  Proof.
    intros f s m st g' (Hl & Hlt & Hr) Hroot H Htid s'. rewrite Hroot in Hr.
    destruct Hr as (M1 & M2 & M3 & Haw & Hrun).
    set (g0 := clear_log (sc_g s)) in *.
    mstep as u1 g1 E1. unfold set_running in E1. inv E1.
    mstep as id g2 E2. unfold fresh_t in E2. inv E2.
    rewrite Htid in H.
    mstep as u3 g3 E3. unfold emit in E3. apply emit_prod_facts in E3; [|left; reflexivity|exact Hl].
    cbn [g_ls g_obs g_running g_sid g_tid g_awaited set] in E3.
    destruct E3 as (A1 & A2 & A3 & A4 & A5 & A6 & A7 & A8 & A9 & A10 & A11).
    mstep as r g4 E4.
    pose proof (proj1 (proj2 (start_eff orc imm f)) _ _ _ _ _ _ _ E4) as EF.
    pose proof (proj1 (proj2 (start_good orc imm f)) _ _ _ _ _ _ _ E4) as GD.
    destruct EF as [F1 F2 F3 F4 F5 F6 F7 F8 F9].
    assert (Hlt3 : Forall (fun x => x < g_sid g3) (g_awaited g3)).
    { rewrite A6. cbn. unfold g0. cbn. rewrite Haw. constructor. }
    destruct (F6 Hlt3) as [B1 B2].
    assert (Hl3 : lst0 (g_ls g3)) by (apply lst_all_lst0; rewrite A1; exact Hl).
    specialize (F7 Hl3).
    assert (Aw3 : g_awaited g3 = []) by (rewrite A6; cbn; unfold g0; cbn; exact Haw).
    assert (N1 : nK SS g3 = 0) by (rewrite A7; reflexivity).
    assert (N2 : nK SF g3 = 0) by (rewrite A8; reflexivity).
    assert (N3 : nP TS g3 = 1) by (rewrite A9; reflexivity).
    assert (N4 : nP TF g3 = 0) by (rewrite (A10 TF) by discriminate; reflexivity).
    assert (R3 : g_running g3 = true) by (rewrite A3; reflexivity).
    assert (AR3 : all_run g3 = true) by (apply A11; reflexivity).
    destruct r as [[i sti]|].
    - (* the order is now waiting for services *)
      mstep. cbn [ids_opt good_opt] in *. destruct GD as [GD ND].
      eexists. split.
      + eapply c01_step_ok; cbn [sc_g sc_root s'].
        * reflexivity.
        * reflexivity.
        * rewrite M3. instantiate (1 := List.length (svc_ids sti)). lia.
        * rewrite (F9 TS), N3. cbn. apply orb_true_r.
        * exact M2.
        * rewrite M1. discriminate.
        * rewrite (F9 TF), N4. lia.
        * rewrite (F9 TF), N4. split; [discriminate|].
          intro Hz. apply length_zero_iff_nil in Hz. exfalso. revert Hz. apply good_nonstall; assumption.
        * apply F8; assumption.
        * rewrite F3, R3, M2, (F9 TF), N4. reflexivity.
        * cbn. rewrite M2, (F9 TF), N4. reflexivity.
        * rewrite B1, Aw3. reflexivity.
      + unfold Inv. cbn [sc_g sc_root s' c01_started c01_finished c01_out].
        split; [rewrite F1, A1; exact Hl|]. split.
        * rewrite B1, Aw3. cbn. eapply Forall_impl; [|exact B2]. cbn. intros; lia.
        * rewrite M1, M2, (F9 TS), (F9 TF), N3, N4. cbn. rewrite B1, Aw3. cbn.
          repeat split; auto. congruence.
    - (* the whole order completed inside start() *)
      mstep as u5 g5 E5. unfold finish_root in E5.
      mstep as u6 g6 E6. apply emit_prod_facts in E6; [|right; reflexivity|rewrite F1, A1; exact Hl].
      destruct E6 as (C1 & C2 & C3 & C4 & C5 & C6 & C7 & C8 & C9 & C10 & C11).
      unfold set_running in E5. inv E5. mstep. cbn [ids_opt List.length] in *.
      eexists. split.
      + eapply c01_step_ok; cbn [sc_g sc_root s'].
        * reflexivity.
        * reflexivity.
        * instantiate (1 := 0). change (nK SF (g6 <| g_running := false |>)) with (nK SF g6).
          change (nK SS (g6 <| g_running := false |>)) with (nK SS g6). rewrite C7, C8, M3. lia.
        * change (nP TS (g6 <| g_running := false |>)) with (nP TS g6).
          rewrite (C10 TS) by discriminate. rewrite (F9 TS), N3. apply orb_true_r.
        * exact M2.
        * rewrite M1. discriminate.
        * change (nP TF (g6 <| g_running := false |>)) with (nP TF g6). rewrite C9, (F9 TF), N4. lia.
        * change (nP TF (g6 <| g_running := false |>)) with (nP TF g6). rewrite C9, (F9 TF), N4. split; auto.
        * change (all_run (g6 <| g_running := false |>)) with (all_run g6).
          apply C11; [congruence|]. apply F8; assumption.
        * change (nP TF (g6 <| g_running := false |>)) with (nP TF g6). rewrite C9, (F9 TF), N4, M2. reflexivity.
        * change (nP TF (g6 <| g_running := false |>)) with (nP TF g6). rewrite C9, (F9 TF), N4, M2. reflexivity.
        * cbn. rewrite C6, B1, Aw3. reflexivity.
      + unfold Inv. cbn [sc_g sc_root s' c01_started c01_finished c01_out].
        change (nP TF (g6 <| g_running := false |>)) with (nP TF g6).
        change (nP TS (g6 <| g_running := false |>)) with (nP TS g6).
        cbn [g_ls g_sid g_awaited g_running set].
        split; [rewrite C1, F1, A1; exact Hl|]. split.
        * rewrite C6, B1, Aw3. constructor.
        * rewrite C9, (C10 TS) by discriminate. rewrite (F9 TS), (F9 TF), N3, N4, C6, B1, Aw3. cbn.
          rewrite ?orb_true_r. repeat split; try reflexivity; apply orb_true_r.
  Qed.

  Lemma remove_first_length : forall A (p : A -> bool) l l',
      remove_first p l = Some l' -> List.length l = S (List.length l').
  Proof.
    induction l as [|x l IH]; intros l' H; cbn in H; [discriminate|].
    destruct (p x).
    - inv H. reflexivity.
    - destruct (remove_first p l) as [t|]; [|discriminate]. inv H. cbn. f_equal. apply IH. reflexivity.
  Qed.

  Lemma remove_first_Forall : forall A (P : A -> Prop) (p : A -> bool) l l',
      remove_first p l = Some l' -> Forall P l -> Forall P l'.
  Proof.
    induction l as [|x l IH]; intros l' H HF; cbn in H; [discriminate|].
    inversion HF as [|? ? Hx Hr]; subst.
    destruct (p x).
    - inv H. exact Hr.
    - destruct (remove_first p l) as [t|]; [|discriminate]. inv H. constructor; [exact Hx|]. apply IH; auto.
  Qed.

  (* an accepted completion *)
  Lemma finish_step : forall f s m id cid i sti st g',
      Inv s m -> sc_root s = Some (RCall cid i sti) ->
      (unawait id ;;;
       r <- deliver_block orc imm f cid [] body i sti id ;;
       match r with
       | None => lift Unsupported
       | Some None => finish_root ;;; ret RDone
       | Some (Some (j, st')) => ret (RCall cid j st')
       end) (clear_log (sc_g s)) = Ok (st, g') ->
      let s' := {| sc_g := g'; sc_root := Some st |} in
      exists m', c01_step m (observe true s') = Some m' /\ Inv s' m'.
  Proof.
    intros f s m id cid i sti st g' (Hl & Hlt & Hr) Hroot H s'. rewrite Hroot in Hr.
    destruct Hr as (M1 & M2 & M3 & Hlen & Hgood & Hnd & Hrun).
    set (g0 := clear_log (sc_g s)) in *.
    mstep as u1 g1 E1. unfold unawait in E1.
    change (g_awaited g0) with (g_awaited (sc_g s)) in E1.
    destruct (remove_first (Nat.eqb id) (g_awaited (sc_g s))) as [aw1|] eqn:R; [|discriminate].
    unfold set_awaited in E1. inv E1.
    pose proof (remove_first_length _ _ _ _ R) as L1.
    pose proof (remove_first_Forall _ _ _ _ _ R Hlt) as FA1.
    set (g1 := g0 <| g_awaited := aw1 |>) in *.
    mstep as r g2 E2.
    pose proof (proj1 (proj2 (deliver_eff orc imm f)) _ _ _ _ _ _ _ _ _ E2) as DE.
    pose proof (proj1 (proj2 (deliver_good orc imm f)) _ _ _ _ _ _ _ _ _ E2 Hgood) as DG.
    destruct r as [r|]; cbn [dres] in DE; [|discriminate].
    destruct DE as [D1 D2 D3 D4 D5 D6 D7 D8 D9].
    assert (Hl1 : lst0 (g_ls g1)) by (apply lst_all_lst0; exact Hl).
    specialize (D7 Hl1).
    assert (FA1' : Forall (fun x => x < g_sid g1) (g_awaited g1)) by exact FA1.
    destruct (D6 FA1') as (new & B1 & B2 & B3).
    assert (N1 : nK SS g1 = 0) by reflexivity.
    assert (N2 : nK SF g1 = 0) by reflexivity.
    assert (R1 : g_running g1 = true) by exact Hrun.
    assert (AR2 : all_run g2 = true) by (apply D8; [exact R1|reflexivity]).
    assert (P0 : forall k, nP k g2 = 0) by (intro k; rewrite D9; reflexivity).
    assert (Aw2 : List.length (g_awaited g2) = List.length (ids_opt r)).
    { rewrite B1, app_length. change (g_awaited g1) with aw1. lia. }
    assert (FA2 : Forall (fun x => x < g_sid g2) (g_awaited g2)).
    { rewrite B1. apply Forall_app. split.
      - eapply Forall_lt_le; [exact D4|exact FA1].
      - eapply Forall_impl; [|exact B2]. cbn; intros; lia. }
    destruct r as [[j st']|].
    - (* still waiting *)
      mstep. cbn [good_oo good_opt ids_opt] in *. destruct DG as [GD ND].
      eexists. split.
      + eapply c01_step_ok; cbn [sc_g sc_root s'].
        * reflexivity.
        * reflexivity.
        * instantiate (1 := List.length (svc_ids st')). rewrite M3. lia.
        * rewrite M1. reflexivity.
        * exact M2.
        * intros _. apply P0.
        * rewrite (P0 TF). lia.
        * rewrite (P0 TF). split; [discriminate|].
          intro Hz. apply length_zero_iff_nil in Hz. exfalso. revert Hz. apply good_nonstall; assumption.
        * exact AR2.
        * rewrite D3, R1, M2, (P0 TF). reflexivity.
        * cbn. rewrite M2, (P0 TF). reflexivity.
        * exact Aw2.
      + unfold Inv. cbn [sc_g sc_root s' c01_started c01_finished c01_out].
        split; [rewrite D1; exact Hl|]. split; [exact FA2|].
        rewrite M1, M2, (P0 TS), (P0 TF). cbn. rewrite Aw2, D3.
        repeat split; auto.
    - (* the last outstanding completion *)
      mstep as u5 g5 E5. unfold finish_root in E5.
      mstep as u6 g6 E6. apply emit_prod_facts in E6; [|right; reflexivity|rewrite D1; exact Hl].
      destruct E6 as (C1 & C2 & C3 & C4 & C5 & C6 & C7 & C8 & C9 & C10 & C11).
      unfold set_running in E5. inv E5. mstep. cbn [ids_opt List.length] in *.
      assert (Aw6 : g_awaited g6 = []) by (rewrite C6; apply length_zero_iff_nil; exact Aw2).
      eexists. split.
      + eapply c01_step_ok; cbn [sc_g sc_root s'].
        * reflexivity.
        * reflexivity.
        * instantiate (1 := 0). change (nK SF (g6 <| g_running := false |>)) with (nK SF g6).
          change (nK SS (g6 <| g_running := false |>)) with (nK SS g6). rewrite C7, C8, M3. lia.
        * rewrite M1. reflexivity.
        * exact M2.
        * intros _. change (nP TS (g6 <| g_running := false |>)) with (nP TS g6).
          rewrite (C10 TS) by discriminate. apply P0.
        * change (nP TF (g6 <| g_running := false |>)) with (nP TF g6). rewrite C9, (P0 TF). lia.
        * change (nP TF (g6 <| g_running := false |>)) with (nP TF g6). rewrite C9, (P0 TF). split; auto.
        * change (all_run (g6 <| g_running := false |>)) with (all_run g6).
          apply C11; [congruence|exact AR2].
        * change (nP TF (g6 <| g_running := false |>)) with (nP TF g6). rewrite C9, (P0 TF), M2. reflexivity.
        * change (nP TF (g6 <| g_running := false |>)) with (nP TF g6). rewrite C9, (P0 TF), M2. reflexivity.
        * cbn. rewrite Aw6. reflexivity.
      + unfold Inv. cbn [sc_g sc_root s' c01_started c01_finished c01_out].
        change (nP TF (g6 <| g_running := false |>)) with (nP TF g6).
        change (nP TS (g6 <| g_running := false |>)) with (nP TS g6).
        cbn [g_ls g_sid g_awaited g_running set].
        split; [rewrite C1, D1; exact Hl|]. split.
        * rewrite Aw6. constructor.
        * rewrite C9, (P0 TF), M1, Aw6. cbn. repeat split; try reflexivity; apply orb_true_r.
  Qed.

  Lemma lst_all_default : lst_all default_listeners.
  Proof. intro k. destruct k; reflexivity. Qed.

  Definition InvT (s : sched) : Prop := sc_root s = None -> g_tid (sc_g s) = 0.

  Lemma quiet_same : forall s m b,
      Inv s m ->
      let s' := {| sc_g := clear_log (sc_g s); sc_root := sc_root s |} in
      c01_step m (observe b s') = Some m /\ Inv s' m.
  Proof.
    intros s m b HI.
    exact (quiet_step _ _ b (g_ls (sc_g s)) (g_obs (sc_g s)) HI (proj1 HI)).
  Qed.

  Lemma listeners_of_app : forall k ls k' l,
      listeners_of k (ls ++ [(k', l)]) = listeners_of k ls ++ (if nkind_eqb k' k then [l] else []).
  Proof.
    intros. unfold listeners_of. rewrite filter_app, map_app. cbn [filter fst snd map].
    destruct (nkind_eqb k' k); reflexivity.
  Qed.

  Lemma existsb_registered : forall k ls,
      count_occ Nat.eq_dec (listeners_of k ls) 0 = 1 ->
      existsb (fun p => nkind_eqb (fst p) k && Nat.eqb (snd p) 0) ls = true.
  Proof.
    intros k ls. unfold listeners_of. induction ls as [|[k' l] ls IH]; cbn [filter map count_occ existsb fst snd].
    - discriminate.
    - destruct (nkind_eqb k' k) eqn:E; cbn [map count_occ andb].
      + destruct l as [|l]; cbn [Nat.eqb]; [reflexivity|].
        destruct (Nat.eq_dec (S l) 0); [discriminate|]. exact IH.
      + exact IH.
  Qed.

  Lemma nkind_eqb_sym : forall a b, nkind_eqb a b = nkind_eqb b a.
  Proof. destruct a, b; reflexivity. Qed.

  Lemma register_keeps : forall ls k l,
      lst_all ls ->
      existsb (fun p => nkind_eqb (fst p) k && Nat.eqb (snd p) l) ls = false ->
      lst_all (ls ++ [(k, l)]).
  Proof.
    intros ls k l Hl Hne k0. rewrite listeners_of_app.
    destruct (nkind_eqb k k0) eqn:E; [|rewrite app_nil_r; apply Hl].
    rewrite count_occ_app, (Hl k0). cbn [count_occ].
    destruct (Nat.eq_dec l 0) as [->|]; [|reflexivity].
    exfalso. assert (k = k0) by (destruct k, k0; try discriminate; reflexivity). subst k0.
    rewrite (existsb_registered _ _ (Hl k)) in Hne. discriminate.
  Qed.

  Lemma api_step : forall f s m c b s',
      Inv s m -> InvT s -> api_call orc imm f body s c = Ok (b, s') ->
      exists m', c01_step m (observe b s') = Some m' /\ Inv s' m' /\ InvT s'.
  Proof.
    intros f s m c b s' HI HT H. destruct c as [|id| |k l|o|o]; cbn [api_call] in H.
    - (* start *)
      destruct (sc_root s) as [r0|] eqn:Hroot.
      + inv H. destruct (quiet_same _ _ true HI) as [Q1 Q2]. rewrite Hroot in *.
        exists m. split; [exact Q1|]. split; [exact Q2|]. intro Hn. discriminate.
      + match type of H with match ?X with _ => _ end = _ => destruct X as [[st g']| | |] eqn:E end;
          try discriminate. inv H.
        destruct (start_step f _ _ _ _ HI Hroot E (HT Hroot)) as (m' & S1 & S2).
        exists m'. split; [exact S1|]. split; [exact S2|]. intro Hn. discriminate.
    - (* completion *)
      change (g_awaited (clear_log (sc_g s))) with (g_awaited (sc_g s)) in H.
      destruct (mem id (g_awaited (sc_g s))).
      + destruct (sc_root s) as [[|id'|cid i sti|sts|bb i sti|k i sti|sts]|] eqn:Hroot; try discriminate.
        match type of H with match ?X with _ => _ end = _ => destruct X as [[st g']| | |] eqn:E end;
          try discriminate. inv H.
        destruct (finish_step f _ _ id _ _ _ _ _ HI Hroot E) as (m' & S1 & S2).
        exists m'. split; [exact S1|]. split; [exact S2|]. intro Hn. discriminate.
      + inv H. destruct (quiet_same _ _ false HI) as [Q1 Q2].
        exists m. split; [exact Q1|]. split; [exact Q2|]. exact HT.
    - inv H. destruct (quiet_same _ _ false HI) as [Q1 Q2].
      exists m. split; [exact Q1|]. split; [exact Q2|]. exact HT.
    - (* register *)
      change (g_ls (clear_log (sc_g s))) with (g_ls (sc_g s)) in H.
      destruct (existsb (fun p => nkind_eqb (fst p) k && Nat.eqb (snd p) l) (g_ls (sc_g s))) eqn:Ex.
      + inv H. destruct (quiet_same _ _ false HI) as [Q1 Q2].
        exists m. split; [exact Q1|]. split; [exact Q2|]. exact HT.
      + inv H.
        destruct (quiet_step _ _ true (g_ls (sc_g s) ++ [(k, l)]) (g_obs (sc_g s)) HI
                             (register_keeps _ _ _ (proj1 HI) Ex)) as [Q1 Q2].
        exists m. split; [exact Q1|]. split; [exact Q2|]. exact HT.
    - inv H.
      destruct (quiet_step _ _ true (g_ls (sc_g s)) (g_obs (sc_g s) ++ [o]) HI (proj1 HI)) as [Q1 Q2].
      exists m. split; [exact Q1|]. split; [exact Q2|]. exact HT.
    - change (g_obs (clear_log (sc_g s))) with (g_obs (sc_g s)) in H.
      destruct (remove_first (Nat.eqb o) (g_obs (sc_g s))) as [l|]; [|discriminate]. inv H.
      destruct (quiet_step _ _ true (g_ls (sc_g s)) l HI (proj1 HI)) as [Q1 Q2].
      exists m. split; [exact Q1|]. split; [exact Q2|]. exact HT.
  Qed.

  Theorem C01_run : forall f cs s m tr,
      Inv s m -> InvT s -> run_script orc imm f body s cs = Ok tr -> c01_run m tr = true.
  Proof.
    intros f cs. induction cs as [|c cs IH]; intros s m tr HI HT H; cbn [run_script] in H.
    - inv H. reflexivity.
    - destruct (api_call orc imm f body s c) as [[b s']| | |] eqn:E; try discriminate.
      cbn [rbind] in H.
      destruct (run_script orc imm f body s' cs) as [t| | |] eqn:E2; try discriminate.
      cbn [rbind] in H. inv H.
      destruct (api_step _ _ _ _ _ _ HI HT E) as (m' & S1 & S2 & S3).
      cbn [c01_run]. rewrite S1. eapply IH; eassumption.
  Qed.
End C01.

(* Every run of the reference semantics, for every program body, oracle, choice of
   immediate completions and every script of API calls (starts, completions of any
   identifier, junk events, registrations, observers): if the model runs to the end of
   the script the C01 monitor accepts the trace. *)
Theorem C01_ref : forall orc imm body f cs tr,
    run_script orc imm f body sched0 cs = Ok tr -> holds_C01 tr = true.
Proof.
  intros orc imm body f cs tr H. unfold holds_C01.
  eapply C01_run; [| |exact H].
  - unfold Inv. cbn. split; [apply lst_all_default|]. split; [constructor|]. repeat split; reflexivity.
  - intro. reflexivity.
Qed.

Theorem C01_ref_programs : forall (c : runcase) (tr : list callrec), run_ref c = Ok tr -> holds_C01 tr = true.
Proof.
  intros c tr H. unfold run_ref in H.
  destruct (existsb _ (rc_react c)); [discriminate|].
  destruct (unfold_program (p_tasks (rc_prog c)) 200) as [body| | |]; try discriminate.
  cbn [rbind] in H. eapply C01_ref; exact H.
Qed.

Theorem C01_ref_nonvacuous :
  exists tr, run_ref ex_case = Ok tr /\ existsb (fun r => cr_final r) tr = true /\ holds_C01 tr = true.
Proof.
  destruct ex_runs as (tr & H & _ & Hf). exists tr. split; [exact H|]. split; [exact Hf|].
  exact (C01_ref_programs _ _ H).
Qed.
