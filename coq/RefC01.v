(* RefC01.v — every run of the reference semantics satisfies the monitor holds_C01:
   the production task is reported finished exactly once, in the call that delivers the
   last outstanding completion; the reported state (running, awaited, final) follows.
   Proof file. *)
From PFDL Require Import RefSem RunCase Monitors RefBase.
From Coq Require Import Lia.

(* ---- the monitor's view of a log, in terms of the counts of RefBase ---- *)
Lemma ee_cons : forall e l,
    ee_notifs (e :: l) = (match e with ENotif O n r => [(n, r)] | _ => [] end) ++ ee_notifs l.
Proof. reflexivity. Qed.

Lemma count_kind_is0 : forall k l,
    count_kind k (ee_notifs l) = List.length (filter (is0 k) l).
Proof.
  intros k l. unfold count_kind. induction l as [|e l IH]; [reflexivity|].
  rewrite ee_cons. destruct e as [[|l0] n r|o kk nm id fl|v c]; cbn [app filter is0]; auto.
  cbn [fst]. unfold is_kind at 1. destruct (nkind_eqb (n_kind n) k); cbn [List.length]; auto.
Qed.

Lemma has_prod_isP : forall k l,
    has_prod k (ee_notifs l) = negb (Nat.eqb (List.length (filter (isP k) l)) 0).
Proof.
  intros k l. unfold has_prod. induction l as [|e l IH]; [reflexivity|].
  rewrite ee_cons. destruct e as [[|l0] n r|o kk nm id fl|v c]; cbn [app filter isP existsb]; auto.
  cbn [fst]. unfold is_kind at 1. change (is_prod n) with (prodn n).
  destruct (nkind_eqb (n_kind n) k && prodn n); cbn [orb List.length]; auto.
Qed.

Lemma count_prod_isP : forall k l,
    count_kind k (filter (fun p => is_prod (fst p)) (ee_notifs l)) = List.length (filter (isP k) l).
Proof.
  intros k l. unfold count_kind. induction l as [|e l IH]; [reflexivity|].
  rewrite ee_cons. destruct e as [[|l0] n r|o kk nm id fl|v c]; cbn [app filter isP]; auto.
  cbn [fst]. change (is_prod n) with (prodn n).
  destruct (prodn n); cbn [filter fst].
  - rewrite andb_true_r. unfold is_kind at 1. destruct (nkind_eqb (n_kind n) k); cbn [List.length]; auto.
  - rewrite andb_false_r. exact IH.
Qed.

Lemma forallb_snd_run : forall l, forallb run_flag l = true -> forallb (fun p => snd p) (ee_notifs l) = true.
Proof.
  induction l as [|e l IH]; [reflexivity|].
  intro H. cbn [forallb] in H. apply andb_true_iff in H. destruct H as [H1 H2].
  rewrite ee_cons. destruct e as [[|l0] n r|o kk nm id fl|v c]; cbn [app]; auto.
  cbn [forallb snd]. cbn in H1. rewrite H1. cbn. auto.
Qed.

Lemma ee_nil : forall l, l = [] -> ee_notifs l = [].
Proof. intros l ->. reflexivity. Qed.

Section C01.
  Variable orc : oracle.
  Variable imm : nat -> bool.
  Variable body : list xstmt.

  (* function 0 registered exactly once for each kind *)
  Definition lst_all (ls : list (nkind * nat)) : Prop :=
    forall k, count_occ Nat.eq_dec (listeners_of k ls) 0 = 1.

  Lemma lst_all_lst0 : forall ls, lst_all ls -> lst0 ls.
  Proof. intros ls H. split; apply H. Qed.

  (* relation between the scheduler and the monitor state between two API calls *)
  Definition Inv (s : sched) (m : c01_state) : Prop :=
    let g := sc_g s in
    lst_all (g_ls g) /\ Forall (fun x => x < g_sid g) (g_awaited g) /\
    match sc_root s with
    | None => c01_started m = false /\ c01_finished m = false /\ c01_out m = 0
              /\ g_awaited g = [] /\ g_running g = false
    | Some RDone => c01_started m = true /\ c01_finished m = true /\ c01_out m = 0
                    /\ g_awaited g = [] /\ g_running g = false
    | Some (RCall cid i st) =>
      c01_started m = true /\ c01_finished m = false /\ c01_out m = List.length (g_awaited g)
      /\ List.length (g_awaited g) = List.length (svc_ids st)
      /\ good st /\ is_done st = false /\ g_running g = true
    | Some _ => False
    end.

  (* a call that is rejected or only administrative: nothing is logged, the monitor
     state stays *)
  Lemma quiet_step : forall s m b ls obs,
      Inv s m ->
      let s' := {| sc_g := clear_log (sc_g s) <| g_ls := ls |> <| g_obs := obs |>; sc_root := sc_root s |} in
      lst_all ls ->
      c01_step m (observe b s') = Some m /\ Inv s' m.
  Proof.
    intros s m b ls obs (Hl & Hlt & Hr) s' Hls.
    assert (Hlog : cr_log (observe b s') = []) by reflexivity.
    split.
    - unfold c01_step. rewrite Hlog. cbn [ee_notifs flat_map has_prod existsb count_kind filter List.length forallb].
      rewrite !Nat.add_0_r, !Nat.sub_0_r, !orb_false_r, !andb_false_r. cbn [negb andb].
      unfold observe. cbn [cr_running cr_final cr_awaited sc_g sc_root s'].
      change (g_running (clear_log (sc_g s) <| g_ls := ls |> <| g_obs := obs |>)) with (g_running (sc_g s)).
      change (g_awaited (clear_log (sc_g s) <| g_ls := ls |> <| g_obs := obs |>)) with (g_awaited (sc_g s)).
      destruct (sc_root s) as [[|id|cid i st|sts|bb i st|k i st|sts]|]; try contradiction.
      + destruct Hr as (H1 & H2 & H3 & H4 & H5). rewrite H1, H2, H3, H4, H5. cbn.
        destruct m; cbn in *; subst; reflexivity.
      + destruct Hr as (H1 & H2 & H3 & H4 & H5 & H6 & H7). rewrite H1, H2, H3, H7. cbn.
        rewrite Nat.eqb_refl. cbn.
        assert (Hne : Nat.eqb (List.length (g_awaited (sc_g s))) 0 = false).
        { apply Nat.eqb_neq. rewrite H4. intro Hz. apply length_zero_iff_nil in Hz.
          revert Hz. apply good_nonstall; assumption. }
        rewrite Hne. cbn.
        destruct m; cbn in *; subst; reflexivity.
      + destruct Hr as (H1 & H2 & H3 & H4 & H5). rewrite H1, H2, H3, H4, H5. cbn.
        destruct m; cbn in *; subst; reflexivity.
    - unfold Inv. cbn [sc_g sc_root s']. split; [exact Hls|]. split; [exact Hlt|]. exact Hr.
  Qed.

  (* the monitor's expressions over the observed log, as counts *)
  Lemma obs_count : forall b s k, count_kind k (ee_notifs (cr_log (observe b s))) = nK k (sc_g s).
  Proof. intros. unfold observe. cbn [cr_log]. rewrite count_kind_is0, filter_rev_length. reflexivity. Qed.
  Lemma obs_has_prod : forall b s k,
      has_prod k (ee_notifs (cr_log (observe b s))) = negb (Nat.eqb (nP k (sc_g s)) 0).
  Proof. intros. unfold observe. cbn [cr_log]. rewrite has_prod_isP, filter_rev_length. reflexivity. Qed.
  Lemma obs_count_prod : forall b s k,
      count_kind k (filter (fun p => is_prod (fst p)) (ee_notifs (cr_log (observe b s)))) = nP k (sc_g s).
  Proof. intros. unfold observe. cbn [cr_log]. rewrite count_prod_isP, filter_rev_length. reflexivity. Qed.
  Lemma obs_all_run : forall b s,
      all_run (sc_g s) = true -> forallb (fun p => snd p) (ee_notifs (cr_log (observe b s))) = true.
  Proof. intros b s H. unfold observe. cbn [cr_log]. apply forallb_snd_run. rewrite forallb_rev. exact H. Qed.

  (* sufficient conditions for one monitor step, in terms of counts *)
  Lemma c01_step_ok : forall m b s (g := sc_g s) started finished out,
      started = (c01_started m || negb (Nat.eqb (nP TS g) 0)) ->
      finished = (c01_finished m || negb (Nat.eqb (nP TF g) 0)) ->
      out + nK SF g = c01_out m + nK SS g ->
      started = true ->
      c01_finished m = false ->
      (c01_started m = true -> nP TS g = 0) ->
      nP TF g <= 1 ->
      (nP TF g = 1 <-> out = 0) ->
      all_run g = true ->
      g_running g = negb finished ->
      root_done (sc_root s) = finished ->
      List.length (g_awaited g) = out ->
      c01_step m (observe b s) = Some {| c01_started := started; c01_finished := finished; c01_out := out |}.
  Proof.
    intros m b s g started finished out Hs Hf Hout Hst Hnf Hts Htf Hiff Har Hrun Hroot Hlen.
    unfold c01_step.
    rewrite !obs_has_prod, !obs_count, obs_count_prod, (obs_all_run b s Har).
    fold g. rewrite <- Hs, <- Hf. rewrite Hnf, Hst. cbn [andb negb orb].
    assert (Ho : c01_out m + nK SS g - nK SF g = out) by lia. rewrite Ho.
    unfold observe. cbn [cr_running cr_final cr_awaited]. fold g. rewrite Hrun, Hroot, Hlen.
    rewrite Nat.eqb_refl, !eqb_reflx.
    replace (nK SF g <=? c01_out m + nK SS g) with true by (symmetry; apply Nat.leb_le; lia).
    replace (nP TF g <=? 1) with true by (symmetry; apply Nat.leb_le; lia).
    assert (H1 : negb (c01_started m && negb (Nat.eqb (nP TS g) 0)) = true).
    { destruct (c01_started m) eqn:E; cbn; auto. rewrite (Hts eq_refl). reflexivity. }
    rewrite H1.
    assert (H2 : Bool.eqb (negb (Nat.eqb (nP TF g) 0)) (Nat.eqb out 0) = true).
    { destruct (Nat.eqb out 0) eqn:E.
      - apply Nat.eqb_eq in E. apply Hiff in E. rewrite E. reflexivity.
      - apply Nat.eqb_neq in E. destruct (Nat.eqb (nP TF g) 0) eqn:E2; [reflexivity|].
        apply Nat.eqb_neq in E2. exfalso. apply E. apply Hiff. lia. }
    rewrite H2. cbn [andb orb]. rewrite !orb_true_r. cbn [andb]. reflexivity.
  Qed.

  (* notifications about the production task itself *)
  Lemma emit_prod_facts : forall k flag g u g',
      emit_gen (mk k production_task root_site 0 None []) flag g = Ok (u, g') ->
      (k = TS \/ k = TF) -> lst_all (g_ls g) ->
      g_ls g' = g_ls g /\ g_obs g' = g_obs g /\ g_running g' = g_running g /\ g_sid g' = g_sid g
      /\ g_tid g' = g_tid g /\ g_awaited g' = g_awaited g
      /\ nK SS g' = nK SS g /\ nK SF g' = nK SF g
      /\ nP k g' = nP k g + 1 /\ (forall k', k' <> k -> nP k' g' = nP k' g)
      /\ (g_running g = true -> all_run g = true -> all_run g' = true).
  Proof.
    intros k flag g u g' H Hk Hl. apply emit_gen_facts in H. cbn [n_kind mk] in H.
    destruct H as (H1 & H2 & H3 & H4 & H5 & H6 & H7 & H8 & H9 & H10 & H11).
    repeat split; auto.
    - rewrite (H9 SS). destruct Hk as [-> | ->]; cbn; lia.
    - rewrite (H9 SF). destruct Hk as [-> | ->]; cbn; lia.
    - rewrite (H11 k). rewrite (Hl k). destruct Hk as [-> | ->]; cbn; lia.
    - intros k' Hne. rewrite (H11 k'). destruct k, k'; cbn; try lia; congruence.
  Qed.

  Lemma nK_clear : forall k g, nK k (clear_log g) = 0.
  Proof. reflexivity. Qed.
  Lemma nP_clear : forall k g, nP k (clear_log g) = 0.
  Proof. reflexivity. Qed.

  (* the accepted start *)
  Lemma start_step : forall f s m st g',
      Inv s m -> sc_root s = None ->
      (set_running true ;;;
       id <- fresh_t ;;
       emit (mk TS production_task root_site id None []) ;;;
       r <- run_block orc imm f id [] body 0 ;;
       match r with
       | None => finish_root ;;; ret RDone
       | Some (i, st) => ret (RCall id i st)
       end) (clear_log (sc_g s)) = Ok (st, g') ->
      g_tid (sc_g s) = 0 ->
      let s' := {| sc_g := g'; sc_root := Some st |} in
      exists m', c01_step m (observe true s') = Some m' /\ Inv s' m'.
  Proof.
    intros f s m st g' (Hl & Hlt & Hr) Hroot H Htid s'. rewrite Hroot in Hr.
    destruct Hr as (M1 & M2 & M3 & Haw & Hrun).
    set (g0 := clear_log (sc_g s)) in *.
    mstep as u1 g1 E1. unfold set_running in E1. inv E1.
    mstep as id g2 E2. unfold fresh_t in E2. inv E2.
    assert (Hid : g_tid (g0 <| g_running := true |>) = 0) by exact Htid. rewrite Hid in H.
    mstep as u3 g3 E3. unfold emit in E3. apply emit_prod_facts in E3; [|left; reflexivity|exact Hl].
    cbn [g_ls g_obs g_running g_sid g_tid g_awaited set] in E3.
    destruct E3 as (A1 & A2 & A3 & A4 & A5 & A6 & A7 & A8 & A9 & A10 & A11).
    mstep as r g4 E4.
    pose proof (proj1 (proj2 (start_eff orc imm f)) _ _ _ _ _ _ _ E4) as EF.
    pose proof (proj1 (proj2 (start_good orc imm f)) _ _ _ _ _ _ _ E4) as GD.
    destruct EF as [F1 F2 F3 F4 F5 F6 F7 F8 F9].
    assert (Hlt3 : Forall (fun x => x < g_sid g3) (g_awaited g3)).
    { rewrite A6. cbn. unfold g0. cbn. rewrite Haw. constructor. }
    destruct (F6 Hlt3) as [B1 B2].
    assert (Hl3 : lst0 (g_ls g3)) by (apply lst_all_lst0; rewrite A1; exact Hl).
    specialize (F7 Hl3).
    assert (Aw3 : g_awaited g3 = []) by (rewrite A6; cbn; unfold g0; cbn; exact Haw).
    assert (N1 : nK SS g3 = 0) by (rewrite A7; reflexivity).
    assert (N2 : nK SF g3 = 0) by (rewrite A8; reflexivity).
    assert (N3 : nP TS g3 = 1) by (rewrite A9; reflexivity).
    assert (N4 : nP TF g3 = 0) by (rewrite (A10 TF) by discriminate; reflexivity).
    assert (R3 : g_running g3 = true) by (rewrite A3; reflexivity).
    assert (AR3 : all_run g3 = true) by (apply A11; reflexivity).
    destruct r as [[i sti]|].
    - (* the order is now waiting for services *)
      mstep. cbn [ids_opt good_opt] in *. destruct GD as [GD ND].
      eexists. split.
      + eapply c01_step_ok; cbn [sc_g sc_root s'].
        * reflexivity.
        * reflexivity.
        * rewrite M3. instantiate (1 := List.length (svc_ids sti)). lia.
        * rewrite (F9 TS), N3. cbn. apply orb_true_r.
        * exact M2.
        * rewrite M1. discriminate.
        * rewrite (F9 TF), N4. lia.
        * rewrite (F9 TF), N4. split; [discriminate|].
          intro Hz. apply length_zero_iff_nil in Hz. exfalso. revert Hz. apply good_nonstall; assumption.
        * apply F8; assumption.
        * rewrite F3, R3, M2, (F9 TF), N4. reflexivity.
        * cbn. rewrite M2, (F9 TF), N4. reflexivity.
        * rewrite B1, Aw3. reflexivity.
      + unfold Inv. cbn [sc_g sc_root s' c01_started c01_finished c01_out].
        split; [rewrite F1, A1; exact Hl|]. split.
        * rewrite B1, Aw3. cbn. eapply Forall_impl; [|exact B2]. cbn. intros; lia.
        * rewrite M1, M2, (F9 TS), (F9 TF), N3, N4. cbn. rewrite B1, Aw3. cbn.
          repeat split; auto. congruence.
    - (* the whole order completed inside start() *)
      mstep as u5 g5 E5. unfold finish_root in E5.
      mstep as u6 g6 E6. apply emit_prod_facts in E6; [|right; reflexivity|rewrite F1, A1; exact Hl].
      destruct E6 as (C1 & C2 & C3 & C4 & C5 & C6 & C7 & C8 & C9 & C10 & C11).
      unfold set_running in E5. inv E5. mstep. cbn [ids_opt List.length] in *.
      eexists. split.
      + eapply c01_step_ok; cbn [sc_g sc_root s'].
        * reflexivity.
        * reflexivity.
        * instantiate (1 := 0). change (nK SF (g6 <| g_running := false |>)) with (nK SF g6).
          change (nK SS (g6 <| g_running := false |>)) with (nK SS g6). rewrite C7, C8, M3. lia.
        * change (nP TS (g6 <| g_running := false |>)) with (nP TS g6).
          rewrite (C10 TS) by discriminate. rewrite (F9 TS), N3. apply orb_true_r.
        * exact M2.
        * rewrite M1. discriminate.
        * change (nP TF (g6 <| g_running := false |>)) with (nP TF g6). rewrite C9, (F9 TF), N4. lia.
        * change (nP TF (g6 <| g_running := false |>)) with (nP TF g6). rewrite C9, (F9 TF), N4. split; auto.
        * change (all_run (g6 <| g_running := false |>)) with (all_run g6).
          apply C11; [congruence|]. apply F8; assumption.
        * change (nP TF (g6 <| g_running := false |>)) with (nP TF g6). rewrite C9, (F9 TF), N4, M2. reflexivity.
        * change (nP TF (g6 <| g_running := false |>)) with (nP TF g6). rewrite C9, (F9 TF), N4, M2. reflexivity.
        * cbn. rewrite C6, B1, Aw3. reflexivity.
      + unfold Inv. cbn [sc_g sc_root s' c01_started c01_finished c01_out].
        change (nP TF (g6 <| g_running := false |>)) with (nP TF g6).
        change (nP TS (g6 <| g_running := false |>)) with (nP TS g6).
        cbn [g_ls g_sid g_awaited g_running set].
        split; [rewrite C1, F1, A1; exact Hl|]. split.
        * rewrite C6, B1, Aw3. constructor.
        * rewrite C9, (C10 TS) by discriminate. rewrite (F9 TS), (F9 TF), N3, N4, C6, B1, Aw3. cbn.
          rewrite orb_true_r. repeat split; reflexivity.
  Qed.

  Lemma lst_all_default : lst_all default_listeners.
  Proof. intro k. destruct k; reflexivity. Qed.
End C01.
