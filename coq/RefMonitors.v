(* RefMonitors.v — the executable monitors of Monitors.v never reject a trace of the
   reference semantics: holds_C08 (return values, rejected calls change nothing, accepted
   once, acceptance judged against what was announced), holds_C14 (accepted completions
   carry an announced identifier), holds_C20 and holds_C17 (every registered function /
   attached observer is told every notification once, in order).  Proof file. *)
From PFDL Require Import RefSem RunCase Monitors RefBase RefClosure RefShape RefC01 RefC08 RefC07 Examples.
From Coq Require Import Lia Permutation.

(* ===================================================================== *)
(* 0. small facts about lists and the boolean equalities                   *)
(* ===================================================================== *)
Lemma list_eqb_refl : forall A (eqb : A -> A -> bool) (l : list A),
    (forall x, In x l -> eqb x x = true) -> list_eqb eqb l l = true.
Proof.
  intros A eqb l. induction l as [|x l IH]; intro H; [reflexivity|]. cbn [list_eqb].
  rewrite (H x) by (left; reflexivity). apply IH. intros y Hy. apply H. right. exact Hy.
Qed.

Lemma list_eqb_nat_refl : forall l : list nat, list_eqb Nat.eqb l l = true.
Proof. intro l. apply list_eqb_refl. intros. apply Nat.eqb_refl. Qed.

Lemma pelem_eqb_refl : forall p, pelem_eqb p p = true.
Proof. destruct p; cbn; auto using Nat.eqb_refl. Qed.

Lemma q_eqb_refl : forall q, q_eqb q q = true.
Proof. intro q. unfold q_eqb. apply Qeq_bool_iff. reflexivity. Qed.

Lemma json_eqb_refl : forall j, json_eqb j j = true.
Proof.
  fix IH 1. intros [q|b|s|fs|es]; cbn [json_eqb].
  - apply q_eqb_refl.
  - apply eqb_reflx.
  - apply Nat.eqb_refl.
  - induction fs as [|[k v] fs IHf]; [reflexivity|].
    rewrite Nat.eqb_refl, IH. cbn [andb]. exact IHf.
  - induction es as [|v es IHe]; [reflexivity|].
    rewrite IH. cbn [andb]. exact IHe.
Qed.

Lemma param_eqb_refl : forall p, param_eqb p p = true.
Proof.
  destruct p as [v|v p|s j]; cbn [param_eqb].
  - apply Nat.eqb_refl.
  - rewrite Nat.eqb_refl. cbn [andb]. apply list_eqb_refl. intros. apply pelem_eqb_refl.
  - rewrite Nat.eqb_refl, json_eqb_refl. reflexivity.
Qed.

Lemma nkind_eqb_refl : forall k, nkind_eqb k k = true.
Proof. destruct k; reflexivity. Qed.

Lemma site_eqb_refl : forall s, site_eqb s s = true.
Proof. intro s. unfold site_eqb. rewrite Nat.eqb_refl, list_eqb_nat_refl. reflexivity. Qed.

Lemma notif_eqb_refl : forall n, notif_eqb n n = true.
Proof.
  intro n. unfold notif_eqb.
  rewrite nkind_eqb_refl, Nat.eqb_refl, site_eqb_refl, Nat.eqb_refl. cbn [andb].
  assert (H : option_eqb Nat.eqb (n_ctx n) (n_ctx n) = true)
    by (destruct (n_ctx n); cbn; auto using Nat.eqb_refl).
  rewrite H. cbn [andb]. apply list_eqb_refl. intros. apply param_eqb_refl.
Qed.

Lemma nkind_eqb_eq : forall a b, nkind_eqb a b = true -> a = b.
Proof. destruct a, b; cbn; intro; try discriminate; reflexivity. Qed.

Lemma notif_eqb_key : forall a b, notif_eqb a b = true -> n_kind a = n_kind b /\ n_id a = n_id b.
Proof.
  intros a b H. unfold notif_eqb in H. repeat (apply andb_true_iff in H; destruct H as [H ?]).
  split; [apply nkind_eqb_eq; assumption|apply Nat.eqb_eq; assumption].
Qed.

(* ===================================================================== *)
(* 1. the acceptance monitor on logs without nested completions            *)
(* ===================================================================== *)
(* what [acc_log] does to the announced-and-not-finished list, as a function of the
   notifications function 0 was told *)
Definition acc_n (o : list nat) (n : notif) : option (list nat) :=
  match n_kind n with
  | SS => Some (o ++ [n_id n])
  | SF => remove_first (Nat.eqb (n_id n)) o
  | _ => Some o
  end.

Fixpoint acc_ns (o : list nat) (ns : list notif) : option (list nat) :=
  match ns with
  | [] => Some o
  | n :: t => match acc_n o n with Some o' => acc_ns o' t | None => None end
  end.

Lemma acc_ns_app : forall a b o,
    acc_ns o (a ++ b) = match acc_ns o a with Some o' => acc_ns o' b | None => None end.
Proof.
  induction a as [|n a IH]; intros b o; [reflexivity|]. cbn [app acc_ns].
  destruct (acc_n o n); [apply IH|reflexivity].
Qed.

Lemma acc_log_ns : forall imm log a o',
    Forall nofire log ->
    acc_ns (ac_open a) (map fst (ee_notifs log)) = Some o' ->
    exists a', acc_log imm a log = Some a' /\ ac_open a' = o' /\ ac_exp a' = ac_exp a.
Proof.
  intros imm log. induction log as [|e log IH]; intros a o' HF H.
  - cbn in H. inv H. exists a. repeat split.
  - inversion HF as [|? ? He Hr]; subst. rewrite ee_cons in H.
    destruct e as [[|l0] n r|o kk nm id fl|v cc|fi|fi fr]; cbn [acc_log app map fst] in *;
      try (apply IH; assumption); try contradiction.
    cbn [acc_ns] in H. unfold acc_n in H. destruct (n_kind n).
    + apply IH; assumption.
    + apply IH; assumption.
    + match goal with |- exists a', acc_log imm ?a1 log = _ /\ _ => destruct (IH a1 o' Hr H) as (a' & A1 & A2 & A3) end.
      exists a'. repeat split; assumption.
    + destruct (remove_first (Nat.eqb (n_id n)) (ac_open a)) as [l|]; [|discriminate].
      match goal with |- exists a', acc_log imm ?a1 log = _ /\ _ => destruct (IH a1 o' Hr H) as (a' & A1 & A2 & A3) end.
      exists a'. repeat split; assumption.
Qed.

(* the identifiers announced / reported finished in a sequence of notifications *)
Definition ann_of (ns : list notif) : list nat := map n_id (filter (is_kind SS) ns).
Definition fin_of (ns : list notif) : list nat := map n_id (filter (is_kind SF) ns).

Lemma ann_of_app : forall a b, ann_of (a ++ b) = ann_of a ++ ann_of b.
Proof. intros. unfold ann_of. rewrite filter_app, map_app. reflexivity. Qed.

(* ===================================================================== *)
(* 2. announced = awaited: the relation kept by every macro step           *)
(* ===================================================================== *)
(* the notifications [ns] function 0 is told between two states drive the monitor's list
   from the awaited list before to the awaited list after; the announced identifiers are
   exactly the identifiers handed out in between *)
Definition AcN (aw : list nat) (sid : nat) (g' : G) (ns : list notif) : Prop :=
  acc_ns aw ns = Some (g_awaited g') /\ ann_of ns = seq sid (g_sid g' - sid) /\ sid <= g_sid g'.

Definition AcR (g g' : G) : Prop :=
  g_ls g' = g_ls g /\
  (lst_all (g_ls g) -> exists ns, N g' = N g ++ ns /\ AcN (g_awaited g) (g_sid g) g' ns).

Lemma AcR_refl : forall g, AcR g g.
Proof.
  intro g. split; [reflexivity|]. intros _. exists []. split; [rewrite app_nil_r; reflexivity|].
  split; [reflexivity|]. split; [rewrite Nat.sub_diag; reflexivity|lia].
Qed.

Lemma AcN_trans : forall aw sid g1 g2 n1 n2,
    AcN aw sid g1 n1 -> AcN (g_awaited g1) (g_sid g1) g2 n2 -> AcN aw sid g2 (n1 ++ n2).
Proof.
  intros aw sid g1 g2 n1 n2 (A1 & A2 & A3) (B1 & B2 & B3). split; [|split].
  - rewrite acc_ns_app, A1. exact B1.
  - rewrite ann_of_app, A2, B2.
    replace (g_sid g2 - sid) with ((g_sid g1 - sid) + (g_sid g2 - g_sid g1)) by lia.
    rewrite seq_app. do 2 f_equal. lia.
  - lia.
Qed.

Lemma AcR_trans : forall a b c, AcR a b -> AcR b c -> AcR a c.
Proof.
  intros a b c (A1 & A2) (B1 & B2). split; [congruence|]. intro Hl.
  destruct (A2 Hl) as (n1 & N1 & K1). destruct B2 as (n2 & N2 & K2); [rewrite A1; exact Hl|].
  exists (n1 ++ n2). split; [rewrite N2, N1, app_assoc; reflexivity|].
  eapply AcN_trans; eassumption.
Qed.

(* steps that tell function 0 nothing about services and leave the bookkeeping alone *)
Lemma AcR_other : forall g g' ns,
    g_ls g' = g_ls g -> g_sid g' = g_sid g -> g_awaited g' = g_awaited g ->
    (lst_all (g_ls g) -> N g' = N g ++ ns) ->
    Forall (fun n => n_kind n = TS \/ n_kind n = TF) ns ->
    AcR g g'.
Proof.
  intros g g' ns H1 H2 H3 H4 H5. split; [exact H1|]. intro Hl. exists ns. split; [exact (H4 Hl)|].
  unfold AcN. rewrite H3, H2, Nat.sub_diag. clear H4. split; [|split; [|lia]].
  - induction H5 as [|n t [Hn|Hn] Ht IH]; [reflexivity| |]; cbn [acc_ns]; unfold acc_n; rewrite Hn; exact IH.
  - unfold ann_of. induction H5 as [|n t [Hn|Hn] Ht IH]; [reflexivity| |]; cbn [filter]; unfold is_kind at 1;
      rewrite Hn; cbn [nkind_eqb]; exact IH.
Qed.

Lemma AcR_same : forall g g',
    g_ls g' = g_ls g -> g_sid g' = g_sid g -> g_awaited g' = g_awaited g -> N g' = N g -> AcR g g'.
Proof.
  intros g g' H1 H2 H3 H4. apply (AcR_other g g' []); auto.
  intros _. rewrite app_nil_r. exact H4.
Qed.

Lemma AcR_emit : forall n flag g u g',
    emit_gen n flag g = Ok (u, g') -> n_kind n = TS \/ n_kind n = TF -> AcR g g'.
Proof.
  intros n flag g u g' H Hk. pose proof (emit_gen_facts _ _ _ _ _ H) as (H1 & _ & _ & H4 & _ & H6 & _).
  apply (AcR_other g g' [n]); auto.
  intro Hl. eapply emit_N; eassumption.
Qed.

Section AcClosure.
  Variable orc : oracle.
  Variable imm : nat -> bool.

  Lemma AcR_decide : forall e ctx g b g', decide_m orc e ctx g = Ok (b, g') -> AcR g g'.
  Proof.
    intros e ctx g b g' H. pose proof (decide_N _ _ _ _ _ _ H) as HN.
    unfold decide_m in H.
    destruct (decide expected_ops orc e (g_q g)) as [[b0 k']| | |]; try discriminate.
    mstep as u1 g1 E1. mstep as u2 g2 E2. unfold set_q in E2. inv E2. mstep.
    assert (F : g_ls g1 = g_ls g /\ g_sid g1 = g_sid g /\ g_awaited g1 = g_awaited g).
    { clear HN. revert g g1 u1 E1. induction (expr_vars e) as [|v vs IH]; intros g g1 u1 E1; cbn [log_queries] in E1.
      - mstep. auto.
      - mstep as u0 g0 E0. unfold log_entry in E0. apply log_entries_eff in E0.
        destruct E0 as (A1 & _ & _ & A4 & _ & A6 & _). destruct (IH _ _ _ E1) as (B1 & B2 & B3).
        repeat split; congruence. }
    destruct F as (F1 & F2 & F3). apply AcR_same; assumption.
  Qed.

  Lemma AcR_limit : forall l ctx g n g', read_limit orc l ctx g = Ok (n, g') -> AcR g g'.
  Proof.
    intros l ctx g n g' H. pose proof (limit_N _ _ _ _ _ _ H) as HN.
    destruct l as [k|v p]; cbn [read_limit] in H.
    - mstep. apply AcR_refl.
    - destruct (orc (g_q g) v) as [x|]; [|discriminate].
      destruct (resolve x p) as [[q| | |]| | |]; try discriminate.
      destruct (Pos.eqb (Qden q) 1); [|discriminate].
      mstep as u1 g1 E1. unfold log_entry in E1. apply log_entries_eff in E1.
      destruct E1 as (A1 & _ & _ & A4 & _ & A6 & _).
      mstep as u2 g2 E2. unfold set_q in E2. inv E2. mstep.
      apply AcR_same; assumption.
  Qed.

  Lemma AcR_service : forall n at_ ins ctx ie g st g',
      (id <- fresh_s ;;
       await id ;;;
       emit (mk SS n at_ id (Some ctx) (subst_params ie ins)) ;;;
       k <- tick_ss ;;
       if imm k
       then unawait id ;;; emit (mk SF n at_ id (Some ctx) (subst_params ie ins)) ;;; ret RDone
       else ret (RAwait id)) g = Ok (st, g') -> AcR g g'.
  Proof.
    intros n at_ ins ctx ie g st g' H.
    mstep as id g1 E1. unfold fresh_s in E1. inv E1.
    mstep as u2 g2 E2. unfold await, set_awaited in E2. inv E2.
    mstep as u3 g3 E3. pose proof (emit_gen_facts _ _ _ _ _ E3) as (A1 & _ & _ & A4 & _ & A6 & _).
    pose proof (emit_N _ _ _ _ _ E3) as A7. cbn in A1, A4, A6.
    mstep as k g4 E4. unfold tick_ss in E4. inv E4.
    destruct (imm (g_ss g3)).
    - mstep as u5 g5 E5. unfold unawait in E5. cbn in E5. rewrite A6 in E5.
      destruct (remove_first (Nat.eqb (g_sid g)) (g_awaited g ++ [g_sid g])) as [l|] eqn:R; [|discriminate].
      unfold set_awaited in E5. inv E5.
      mstep as u6 g6 E6. pose proof (emit_gen_facts _ _ _ _ _ E6) as (B1 & _ & _ & B4 & _ & B6 & _).
      pose proof (emit_N _ _ _ _ _ E6) as B7. cbn in B1, B4, B6. mstep.
      split; [congruence|]. intro Hl.
      exists [mk SS n at_ (g_sid g) (Some ctx) (subst_params ie ins);
              mk SF n at_ (g_sid g) (Some ctx) (subst_params ie ins)].
      split; [|split; [|split]].
      + rewrite B7 by (cbn; rewrite A1; exact Hl).
        match goal with |- N ?x ++ _ = _ => change (N x) with (N g3) end.
        rewrite A7 by exact Hl.
        match goal with |- (N ?x ++ _) ++ _ = _ => change (N x) with (N g) end.
        rewrite <- app_assoc. reflexivity.
      + cbn [acc_ns acc_n mk n_kind n_id]. rewrite R, B6. reflexivity.
      + rewrite B4, A4. replace (S (g_sid g) - g_sid g) with 1 by lia. reflexivity.
      + rewrite B4, A4. lia.
    - mstep. split; [exact A1|]. intro Hl.
      exists [mk SS n at_ (g_sid g) (Some ctx) (subst_params ie ins)].
      split; [|split; [|split]].
      + match goal with |- N ?x = _ => change (N x) with (N g3) end.
        rewrite A7 by exact Hl. reflexivity.
      + cbn [acc_ns acc_n mk n_kind n_id g_awaited set]. rewrite A6. reflexivity.
      + cbn [g_sid set]. rewrite A4. replace (S (g_sid g) - g_sid g) with 1 by lia. reflexivity.
      + cbn [g_sid set]. rewrite A4. lia.
  Qed.

  Lemma AcR_tstart : forall t at_ ctx ps g id g1 u g2,
      fresh_t g = Ok (id, g1) -> emit (mk TS t at_ id (Some ctx) ps) g1 = Ok (u, g2) -> AcR g g2.
  Proof.
    intros t at_ ctx ps g id g1 u g2 E1 E2. unfold fresh_t in E1. inv E1.
    eapply AcR_trans; [|eapply AcR_emit; [exact E2|left; reflexivity]].
    apply AcR_same; reflexivity.
  Qed.

  Lemma AcR_tfin : forall t at_ id ctx ps g u g',
      emit (mk TF t at_ id (Some ctx) ps) g = Ok (u, g') -> AcR g g'.
  Proof. intros. eapply AcR_emit; [eassumption|right; reflexivity]. Qed.

  Definition start_ac := start_closed orc imm AcR AcR_refl AcR_trans AcR_decide AcR_limit
                                      AcR_service AcR_tstart AcR_tfin.
End AcClosure.

(* ===================================================================== *)
(* 3. a completion that is delivered: first the service-finished           *)
(*    notification of that service, then steps of the start family         *)
(* ===================================================================== *)
Section Decomp.
  Variable orc : oracle.
  Variable imm : nat -> bool.
  Variable R : G -> G -> Prop.
  Variable R_refl : forall g, R g g.
  Variable R_trans : forall a b c, R a b -> R b c -> R a c.
  Variable R_block : forall f ctx ie ss i g r g', run_block orc imm f ctx ie ss i g = Ok (r, g') -> R g g'.
  Variable R_loop : forall f ctx ie s k g st g', loop_test orc imm f ctx ie s k g = Ok (st, g') -> R g g'.
  Variable R_tfin : forall t at_ id ctx ps g u g',
      emit (mk TF t at_ id (Some ctx) ps) g = Ok (u, g') -> R g g'.
  Variable d : nat.

  Definition dpost {A} (g : G) (r : option A) (g' : G) : Prop :=
    match r with
    | None => g' = g
    | Some _ => exists n at_ ctx ps u g1,
                emit (mk SF n at_ d (Some ctx) ps) g = Ok (u, g1) /\ R g1 g'
    end.

  Lemma dpost_trans : forall A B g (a : A) (b : B) g1 g2, dpost g (Some a) g1 -> R g1 g2 -> dpost g (Some b) g2.
  Proof.
    intros A B g a b g1 g2 (n & at_ & ctx & ps & u & gm & E & HR) H2.
    exists n, at_, ctx, ps, u, gm. split; [exact E|]. eapply R_trans; eassumption.
  Qed.

  Lemma dpost_some : forall A B g (a : A) (b : B) g1, dpost g (Some a) g1 -> dpost g (Some b) g1.
  Proof. intros A B g a b g1 H. exact H. Qed.

  Lemma deliver_decomp : forall f,
      (forall ctx ie s st g r g', deliver orc imm f ctx ie s st d g = Ok (r, g') -> dpost g r g') /\
      (forall ctx ie ss i sti g r g', deliver_block orc imm f ctx ie ss i sti d g = Ok (r, g') -> dpost g r g') /\
      (forall ctx l sts g r g', deliver_list orc imm f ctx l sts d g = Ok (r, g') -> dpost g r g').
  Proof.
    induction f as [|f IH]; [split; [|split]; intros; discriminate|].
    destruct IH as (IHd & IHb & IHl).
    split; [|split].
    - intros ctx ie s st g r g' H. cbn [deliver] in H.
      destruct s as [n at_ ins|t at_ ins body|bs|e p fl|e b|v lim b|v lim c];
        destruct st as [|id'|cid i sti|sts|bb i sti|k i sti|sts];
        try (mstep; reflexivity).
      + destruct (Nat.eqb d id'); [|mstep; reflexivity].
        mstep as u g1 E1. mstep. cbn [dpost]. exists n, at_, ctx, (subst_params ie ins), u, g1.
        split; [exact E1|apply R_refl].
      + mstep as r1 g1 E1. apply IHb in E1.
        destruct r1 as [[[j st']|]|].
        * mstep. eapply dpost_some; exact E1.
        * mstep as u g2 E2. apply R_tfin in E2. mstep. eapply dpost_trans; eassumption.
        * mstep. exact E1.
      + mstep as r1 g1 E1. apply IHl in E1.
        destruct r1 as [sts'|]; [destruct (all_done sts')|]; mstep; try exact E1; eapply dpost_some; exact E1.
      + mstep as r1 g1 E1. apply IHb in E1.
        destruct r1 as [[[j st']|]|]; mstep; try exact E1; eapply dpost_some; exact E1.
      + mstep as r1 g1 E1. apply IHb in E1.
        destruct r1 as [[[j st']|]|].
        * mstep. eapply dpost_some; exact E1.
        * mstep as st' g2 E2. apply R_loop in E2. mstep. eapply dpost_trans; eassumption.
        * mstep. exact E1.
      + mstep as r1 g1 E1. apply IHb in E1.
        destruct r1 as [[[j st']|]|].
        * mstep. eapply dpost_some; exact E1.
        * mstep as st' g2 E2. apply R_loop in E2. mstep. eapply dpost_trans; eassumption.
        * mstep. exact E1.
      + mstep as r1 g1 E1. apply IHl in E1.
        destruct r1 as [sts'|]; [destruct (all_done sts')|]; mstep; try exact E1; eapply dpost_some; exact E1.
    - intros ctx ie ss i sti g r g' H. cbn [deliver_block] in H.
      destruct (nth_error ss i) as [s1|]; [|mstep; reflexivity].
      mstep as r1 g1 E1. apply IHd in E1.
      destruct r1 as [st'|]; [|mstep; exact E1].
      destruct (is_done st').
      + mstep as r' g2 E2. apply R_block in E2. mstep. eapply dpost_trans; eassumption.
      + mstep. eapply dpost_some; exact E1.
    - intros ctx l sts g r g' H. cbn [deliver_list] in H.
      destruct l as [|[ie b] br]; [mstep; reflexivity|].
      destruct sts as [|st sr]; [mstep; reflexivity|].
      mstep as r1 g1 E1. apply IHd in E1.
      destruct r1 as [st'|].
      + mstep. eapply dpost_some; exact E1.
      + cbn [dpost] in E1. subst g1. mstep as r2 g2 E2. apply IHl in E2.
        destruct r2 as [sr'|]; mstep; try exact E2; eapply dpost_some; exact E2.
  Qed.
End Decomp.

(* ===================================================================== *)
(* 4. one API call: the notifications of the call drive the monitor's list *)
(*    from the awaited list before to the awaited list after               *)
(* ===================================================================== *)
Lemma AcN_nil : forall aw sid g', g_awaited g' = aw -> g_sid g' = sid -> AcN aw sid g' [].
Proof.
  intros aw sid g' H1 H2. unfold AcN. rewrite H1, H2, Nat.sub_diag. repeat split. lia.
Qed.

Lemma AcN_step : forall aw sid g1 g2,
    AcN aw sid g1 (N g1) -> AcR g1 g2 -> lst_all (g_ls g1) -> AcN aw sid g2 (N g2) /\ lst_all (g_ls g2).
Proof.
  intros aw sid g1 g2 H1 (A1 & A2) Hl. destruct (A2 Hl) as (ns & HN & K).
  split; [|rewrite A1; exact Hl]. rewrite HN. eapply AcN_trans; eassumption.
Qed.

Section ApiAcc.
  Variable orc : oracle.
  Variable imm : nat -> bool.
  Variable body : list xstmt.

  Lemma finish_root_ac : forall g u g', finish_root g = Ok (u, g') -> AcR g g'.
  Proof.
    intros g u g' H. unfold finish_root in H. mstep as u1 g1 E1. unfold set_running in H. inv H.
    eapply AcR_trans; [eapply AcR_emit; [exact E1|right; reflexivity]|]. apply AcR_same; reflexivity.
  Qed.

  Lemma api_acc : forall f s c b s',
      api_call orc imm f body s c = Ok (b, s') -> lst_all (g_ls (sc_g s)) ->
      AcN (g_awaited (sc_g s)) (g_sid (sc_g s)) (sc_g s') (N (sc_g s')) /\ lst_all (g_ls (sc_g s')).
  Proof.
    intros f s c b s' H Hl.
    assert (Q : forall ls obs, lst_all ls ->
               AcN (g_awaited (sc_g s)) (g_sid (sc_g s)) (clear_log (sc_g s) <| g_ls := ls |> <| g_obs := obs |>)
                   (N (clear_log (sc_g s) <| g_ls := ls |> <| g_obs := obs |>))
               /\ lst_all (g_ls (clear_log (sc_g s) <| g_ls := ls |> <| g_obs := obs |>))).
    { intros ls obs Hls. split; [apply AcN_nil; reflexivity|exact Hls]. }
    assert (Q0 : AcN (g_awaited (sc_g s)) (g_sid (sc_g s)) (clear_log (sc_g s)) (N (clear_log (sc_g s)))
                 /\ lst_all (g_ls (clear_log (sc_g s)))).
    { split; [apply AcN_nil; reflexivity|exact Hl]. }
    destruct c as [|id| |k l|o|o]; cbn [api_call] in H.
    - (* start *)
      destruct (sc_root s) as [r0|] eqn:Hroot.
      + inv H. exact Q0.
      + match type of H with match ?X with _ => _ end = _ => destruct X as [[st g']| | |] eqn:E end;
          try discriminate. inv H. cbn [sc_g].
        mstep as u1 g1 E1. unfold set_running in E1. inv E1.
        mstep as id g2 E2. unfold fresh_t in E2. inv E2.
        mstep as u3 g3 E3. eapply AcR_emit in E3; [|left; reflexivity].
        mstep as r g4 E4. apply (proj1 (proj2 (start_ac orc imm f))) in E4.
        match type of E3 with AcR ?x _ =>
          assert (B : AcN (g_awaited (sc_g s)) (g_sid (sc_g s)) x (N x) /\ lst_all (g_ls x))
            by (split; [apply AcN_nil; reflexivity|exact Hl]) end.
        destruct B as [B1 B2]. destruct (AcN_step _ _ _ _ B1 E3 B2) as [C1 C2].
        destruct (AcN_step _ _ _ _ C1 E4 C2) as [D1 D2].
        destruct r as [[i sti]|].
        * mstep. split; assumption.
        * mstep as u5 g5 E5. apply finish_root_ac in E5. mstep.
          exact (AcN_step _ _ _ _ D1 E5 D2).
    - (* completion *)
      change (g_awaited (clear_log (sc_g s))) with (g_awaited (sc_g s)) in H.
      destruct (mem id (g_awaited (sc_g s))).
      + destruct (sc_root s) as [[|id'|cid i sti|sts|bb i sti|k i sti|sts]|] eqn:Hroot; try discriminate.
        match type of H with match ?X with _ => _ end = _ => destruct X as [[st g']| | |] eqn:E end;
          try discriminate. inv H. cbn [sc_g].
        mstep as u1 g1 E1. unfold unawait in E1.
        change (g_awaited (clear_log (sc_g s))) with (g_awaited (sc_g s)) in E1.
        destruct (remove_first (Nat.eqb id) (g_awaited (sc_g s))) as [aw1|] eqn:R; [|discriminate].
        unfold set_awaited in E1. inv E1.
        mstep as r g2 E2.
        apply (proj1 (proj2 (deliver_decomp orc imm AcR AcR_refl AcR_trans
                               (fun f => proj1 (proj2 (start_ac orc imm f)))
                               (fun f => proj2 (proj2 (proj2 (start_ac orc imm f))))
                               (AcR_tfin) id f))) in E2.
        destruct r as [r|]; [|discriminate]. cbn [dpost] in E2.
        destruct E2 as (n & at_ & ctx & ps & u & gm & Em & HR).
        pose proof (emit_gen_facts _ _ _ _ _ Em) as (A1 & _ & _ & A4 & _ & A6 & _).
        pose proof (emit_N _ _ _ _ _ Em Hl) as A7. cbn in A1, A4, A6.
        change (N (clear_log (sc_g s) <| g_awaited := aw1 |>)) with (@nil notif) in A7. cbn [app] in A7.
        assert (B1 : AcN (g_awaited (sc_g s)) (g_sid (sc_g s)) gm (N gm)).
        { rewrite A7. unfold AcN. cbn [acc_ns acc_n mk n_kind n_id]. rewrite R, A6, A4, Nat.sub_diag.
          repeat split. lia. }
        assert (B2 : lst_all (g_ls gm)) by (rewrite A1; exact Hl).
        destruct (AcN_step _ _ _ _ B1 HR B2) as [C1 C2].
        destruct r as [[j st']|].
        * mstep. split; assumption.
        * mstep as u5 g5 E5. apply finish_root_ac in E5. mstep.
          exact (AcN_step _ _ _ _ C1 E5 C2).
      + inv H. exact Q0.
    - inv H. exact Q0.
    - change (g_ls (clear_log (sc_g s))) with (g_ls (sc_g s)) in H.
      destruct (existsb (fun p => nkind_eqb (fst p) k && Nat.eqb (snd p) l) (g_ls (sc_g s))) eqn:Ex; inv H.
      + exact Q0.
      + exact (Q (g_ls (sc_g s) ++ [(k, l)]) (g_obs (sc_g s)) (register_keeps _ _ _ Hl Ex)).
    - inv H. exact (Q (g_ls (sc_g s)) (g_obs (sc_g s) ++ [o]) Hl).
    - change (g_obs (clear_log (sc_g s))) with (g_obs (sc_g s)) in H.
      destruct (remove_first (Nat.eqb o) (g_obs (sc_g s))) as [l|]; [|discriminate]. inv H.
      exact (Q (g_ls (sc_g s)) l Hl).
  Qed.
End ApiAcc.

(* ===================================================================== *)
(* 5. C08: the monitor accepts every trace of the reference semantics      *)
(* ===================================================================== *)
Section C08.
  Variable orc : oracle.
  Variable imm : nat -> bool.
  Variable body : list xstmt.

  (* what the monitor compares a call record with: the reported state before the call *)
  Definition unch (s : sched) (r : callrec) : Prop :=
    cr_log r = [] /\ cr_running r = g_running (sc_g s) /\ cr_awaited r = g_awaited (sc_g s)
    /\ cr_final r = root_done (sc_root s).

  Lemma unch_quiet : forall s b, unch s (observe b (quiet s)).
  Proof. intros s b. repeat split. Qed.

  Lemma api_finish_ret : forall f s id b s',
      api_call orc imm f body s (AFinish id) = Ok (b, s') -> b = mem id (g_awaited (sc_g s)).
  Proof.
    intros f s id b s' H. cbn [api_call] in H.
    change (g_awaited (clear_log (sc_g s))) with (g_awaited (sc_g s)) in H.
    destruct (mem id (g_awaited (sc_g s))).
    - destruct (sc_root s) as [[|id'|cid i sti|sts|bb i sti|k i sti|sts]|]; try discriminate.
      match type of H with match ?X with _ => _ end = _ => destruct X as [[st g']| | |] end;
        try discriminate. inv H. reflexivity.
    - inv H. reflexivity.
  Qed.

  Lemma api_start_ret : forall f s b s',
      api_call orc imm f body s AStart = Ok (b, s') -> b = true /\ sc_root s' <> None.
  Proof.
    intros f s b s' H. cbn [api_call] in H. destruct (sc_root s) as [r0|] eqn:Hr.
    - inv H. cbn [sc_root]. split; [reflexivity|discriminate].
    - match type of H with match ?X with _ => _ end = _ => destruct X as [[st g']| | |] end;
        try discriminate. inv H. split; [reflexivity|discriminate].
  Qed.

  Lemma api_root_some : forall f s c b s',
      api_call orc imm f body s c = Ok (b, s') -> sc_root s <> None -> sc_root s' <> None.
  Proof.
    intros f s c b s' H Hr. destruct c as [|id| |k l|o|o]; cbn [api_call] in H.
    - exact (proj2 (api_start_ret _ _ _ _ H)).
    - destruct (mem id (g_awaited (clear_log (sc_g s)))).
      + destruct (sc_root s) as [[|id'|cid i sti|sts|bb i sti|k i sti|sts]|]; try discriminate.
        match type of H with match ?X with _ => _ end = _ => destruct X as [[st g']| | |] end;
          try discriminate. inv H. discriminate.
      + inv H. exact Hr.
    - inv H. exact Hr.
    - destruct (existsb _ (g_ls (clear_log (sc_g s)))); inv H; exact Hr.
    - inv H. exact Hr.
    - destruct (remove_first (Nat.eqb o) (g_obs (clear_log (sc_g s)))); [|discriminate]. inv H. exact Hr.
  Qed.

  Lemma api_c08 : forall f s c b s',
      api_call orc imm f body s c = Ok (b, s') -> AwInv (sc_g s) ->
      match c with
      | AFinish id => b = mem id (g_awaited (sc_g s)) /\ (b = false -> unch s (observe b s'))
                      /\ (b = true -> mem id (cr_awaited (observe b s')) = false)
      | AJunk => b = false /\ unch s (observe b s')
      | AStart => b = true /\ (sc_root s <> None -> unch s (observe b s'))
      | _ => True
      end.
  Proof.
    intros f s c b s' H HI. destruct c as [|id| |k l|o|o]; try exact I.
    - split; [exact (proj1 (api_start_ret _ _ _ _ H))|]. intro Hr.
      destruct (sc_root s) as [r0|] eqn:E; [|congruence].
      rewrite (start_again_noop orc imm body f s r0 E) in H. inv H. apply unch_quiet.
    - pose proof (api_finish_ret _ _ _ _ _ H) as Hb. split; [exact Hb|]. split.
      + intro Hf. rewrite Hf in Hb. rewrite (reject_finish_noop orc imm body f s id (eq_sym Hb)) in H.
        inv H. apply unch_quiet.
      + intro Ht. destruct (api_aw orc imm body _ _ _ _ _ HI H) as (_ & _ & A3).
        destruct (A3 id eq_refl Ht) as [_ Hn]. cbn [observe cr_awaited].
        destruct (mem id (g_awaited (sc_g s'))) eqn:Hm; [|reflexivity].
        exfalso. apply Hn. apply (mem_In imm id). exact Hm.
    - cbn [api_call] in H. inv H. split; [reflexivity|]. apply unch_quiet.
  Qed.

  Definition PrevOK (prev : callrec) (s : sched) : Prop :=
    cr_running prev = g_running (sc_g s) /\ cr_awaited prev = g_awaited (sc_g s)
    /\ cr_final prev = root_done (sc_root s).

  Lemma unch_b : forall s prev r,
      unch s r -> PrevOK prev s ->
      (match cr_log r with [] => true | _ => false end)
      && Bool.eqb (cr_running r) (cr_running prev)
      && list_eqb Nat.eqb (cr_awaited r) (cr_awaited prev)
      && Bool.eqb (cr_final r) (cr_final prev) = true.
  Proof.
    intros s prev r (U1 & U2 & U3 & U4) (P1 & P2 & P3).
    rewrite U1, U2, U3, U4, P1, P2, P3, !eqb_reflx, list_eqb_nat_refl. reflexivity.
  Qed.

  Lemma c08_run_ref : forall f cs s prev started tr,
      AwInv (sc_g s) -> PrevOK prev s -> (started = true -> sc_root s <> None) ->
      run_script orc imm f body s cs = Ok tr -> c08_run started prev cs tr = true.
  Proof.
    intros f cs. induction cs as [|c cs IH]; intros s prev started tr HI HP HS H; cbn [run_script] in H.
    - inv H. reflexivity.
    - destruct (api_call orc imm f body s c) as [[b s']| | |] eqn:E; try discriminate.
      cbn [rbind] in H.
      destruct (run_script orc imm f body s' cs) as [t| | |] eqn:E2; try discriminate.
      cbn [rbind] in H. inv H.
      pose proof (api_c08 _ _ _ _ _ E HI) as K.
      destruct (api_aw orc imm body _ _ _ _ _ HI E) as (HI' & _ & _).
      assert (HP' : PrevOK (observe b s') s') by (repeat split).
      assert (HS' : (started || match c with AStart => true | _ => false end) = true -> sc_root s' <> None).
      { intro Hs. destruct c; try (rewrite orb_false_r in Hs; eapply api_root_some; [exact E|exact (HS Hs)]).
        exact (proj2 (api_start_ret _ _ _ _ E)). }
      specialize (IH s' (observe b s') _ t HI' HP' HS' E2).
      cbn [c08_run]. rewrite IH, andb_true_r.
      assert (Hret : cr_ret (observe b s') = b) by reflexivity.
      set (r := observe b s') in *. clearbody r.
      destruct c as [|id| |k l|o|o]; try reflexivity.
      + destruct K as [K1 K2]. rewrite Hret, K1. cbn [andb].
        destruct started; [|reflexivity]. cbn [negb orb].
        eapply unch_b; [apply K2, HS; reflexivity|exact HP].
      + destruct K as (K1 & K2 & K3). destruct HP as (P1 & P2 & P3). rewrite Hret, P2, <- K1, eqb_reflx.
        cbn [andb]. destruct b; cbn [orb negb andb].
        * rewrite (K3 eq_refl). reflexivity.
        * rewrite andb_true_r. rewrite <- P2. eapply unch_b; [apply K2; reflexivity|].
          repeat split; assumption.
      + destruct K as [K1 K2]. rewrite Hret, K1. cbn [negb andb].
        eapply unch_b; [exact K2|exact HP].
  Qed.

  Lemma acc_run_ref : forall f cs s a tr,
      lst_all (g_ls (sc_g s)) -> ac_open a = g_awaited (sc_g s) ->
      run_script orc imm f body s cs = Ok tr -> acc_run imm a cs tr = true.
  Proof.
    intros f cs. induction cs as [|c cs IH]; intros s a tr Hl Ha H; cbn [run_script] in H.
    - inv H. reflexivity.
    - destruct (api_call orc imm f body s c) as [[b s']| | |] eqn:E; try discriminate.
      cbn [rbind] in H.
      destruct (run_script orc imm f body s' cs) as [t| | |] eqn:E2; try discriminate.
      cbn [rbind] in H. inv H.
      destruct (api_acc orc imm body _ _ _ _ _ E Hl) as ((A1 & _ & _) & Hl').
      pose proof (shape_nofire orc imm body _ _ _ _ _ E) as HF.
      cbn [acc_run].
      match goal with |- _ && match acc_log imm ?a0 _ with _ => _ end = true =>
        destruct (acc_log_ns imm (cr_log (observe b s')) a0 (g_awaited (sc_g s')) HF) as (a' & L1 & L2 & L3) end.
      { cbn [ac_open]. rewrite Ha. exact A1. }
      rewrite L1. cbn [ac_exp] in L3. rewrite L3. cbn [andb].
      rewrite (IH s' a' t Hl' L2 E2), andb_true_r.
      destruct c as [|id| |k l|o|o]; try reflexivity.
      cbn [observe cr_ret]. rewrite Ha, <- (api_finish_ret _ _ _ _ _ E). apply eqb_reflx.
  Qed.
End C08.

(* Every run of the reference semantics, for every program body, oracle, choice of
   immediate completions, amount of fuel and every script of API calls: if the model runs
   to the end of the script the C08 monitor accepts the trace. *)
Theorem C08_monitor_ref : forall orc imm body f cs tr,
    run_script orc imm f body sched0 cs = Ok tr -> holds_C08 imm cs tr = true.
Proof.
  intros orc imm body f cs tr H. unfold holds_C08. apply andb_true_iff. split.
  - eapply c08_run_ref; [apply AwInv_sched0| |discriminate|exact H]. repeat split.
  - eapply (acc_run_ref orc imm body f cs sched0); [apply lst_all_default| |exact H]. reflexivity.
Qed.

(* ===================================================================== *)
(* 6. C14: accepted completions carry an announced identifier              *)
(* ===================================================================== *)
Lemma remove_first_split : forall A (p : A -> bool) l l',
    remove_first p l = Some l' ->
    exists l1 x l2, l = l1 ++ x :: l2 /\ l' = l1 ++ l2 /\ p x = true.
Proof.
  induction l as [|y l IH]; intros l' H; cbn in H; [discriminate|].
  destruct (p y) eqn:E.
  - inv H. exists [], y, l'. repeat split. exact E.
  - destruct (remove_first p l) as [t|]; [|discriminate]. inv H.
    destruct (IH _ eq_refl) as (l1 & x & l2 & -> & -> & Hx). exists (y :: l1), x, l2. repeat split. exact Hx.
Qed.

Lemma filter_all : forall A (p : A -> bool) l, (forall x, In x l -> p x = true) -> filter p l = l.
Proof.
  induction l as [|x l IH]; intro H; [reflexivity|]. cbn. rewrite (H x) by (left; reflexivity).
  f_equal. apply IH. intros y Hy. apply H. right. exact Hy.
Qed.

Lemma fin_of_cons : forall n t,
    fin_of (n :: t) = (if is_kind SF n then [n_id n] else []) ++ fin_of t.
Proof. intros. unfold fin_of. cbn [filter]. destruct (is_kind SF n); reflexivity. Qed.

Lemma ann_of_cons : forall n t,
    ann_of (n :: t) = (if is_kind SS n then [n_id n] else []) ++ ann_of t.
Proof. intros. unfold ann_of. cbn [filter]. destruct (is_kind SS n); reflexivity. Qed.

(* with fresh identifiers the sequential bookkeeping of the acceptance monitor is the
   set difference computed by [accepted_announced] *)
Lemma acc_ns_filter : forall ns aw aw',
    NoDup (aw ++ ann_of ns) -> acc_ns aw ns = Some aw' ->
    aw' = filter (fun i => negb (mem i (fin_of ns))) (aw ++ ann_of ns).
Proof.
  induction ns as [|n t IH]; intros aw aw' Hnd H.
  - cbn in H. inv H. cbn. rewrite app_nil_r. symmetry. apply filter_all. reflexivity.
  - cbn [acc_ns] in H. rewrite ann_of_cons in *. rewrite fin_of_cons. unfold acc_n in H. unfold is_kind in *.
    destruct (n_kind n); cbn [nkind_eqb app] in *.
    + apply IH; assumption.
    + apply IH; assumption.
    + rewrite (IH (aw ++ [n_id n]) aw'); [| |exact H].
      * rewrite <- app_assoc. reflexivity.
      * rewrite <- app_assoc. exact Hnd.
    + destruct (remove_first (Nat.eqb (n_id n)) aw) as [l|] eqn:R; [|discriminate].
      destruct (remove_first_split _ _ _ _ R) as (l1 & x & l2 & -> & -> & Hx).
      apply Nat.eqb_eq in Hx. subst x.
      rewrite <- app_assoc in Hnd. cbn [app] in Hnd.
      pose proof (NoDup_remove_1 _ _ _ Hnd) as Hnd1. pose proof (NoDup_remove_2 _ _ _ Hnd) as Hni.
      rewrite (IH (l1 ++ l2) aw'); [| |exact H].
      * rewrite <- !app_assoc. cbn [app]. rewrite !filter_app. cbn [filter mem].
        rewrite Nat.eqb_refl. cbn [orb negb].
        assert (Q : forall X, ~ In (n_id n) X ->
                     filter (fun i => negb (mem i (fin_of t))) X =
                     filter (fun i => negb (Nat.eqb i (n_id n) || mem i (fin_of t))) X).
        { intros X HX. apply filter_ext_in. intros a Ha.
          destruct (Nat.eqb a (n_id n)) eqn:E; [|reflexivity]. apply Nat.eqb_eq in E. subst a. contradiction. }
        rewrite !filter_app. f_equal; [apply Q|f_equal; apply Q];
          intro Hi; apply Hni; rewrite !in_app_iff; auto.
      * rewrite <- app_assoc. exact Hnd1.
Qed.

Section C14.
  Variable orc : oracle.
  Variable imm : nat -> bool.
  Variable body : list xstmt.

  Lemma accepted_announced_ref : forall f cs s tr,
      lst_all (g_ls (sc_g s)) -> AwInv (sc_g s) ->
      run_script orc imm f body s cs = Ok tr -> accepted_announced (g_awaited (sc_g s)) cs tr = true.
  Proof.
    intros f cs. induction cs as [|c cs IH]; intros s tr Hl HI H; cbn [run_script] in H.
    - inv H. reflexivity.
    - destruct (api_call orc imm f body s c) as [[b s']| | |] eqn:E; try discriminate.
      cbn [rbind] in H.
      destruct (run_script orc imm f body s' cs) as [t| | |] eqn:E2; try discriminate.
      cbn [rbind] in H. inv H.
      destruct (api_acc orc imm body _ _ _ _ _ E Hl) as ((A1 & A2 & A3) & Hl').
      destruct (api_aw orc imm body _ _ _ _ _ HI E) as (HI' & _ & _).
      cbn [accepted_announced].
      change (map fst (ee_notifs (cr_log (observe b s')))) with (N (sc_g s')).
      fold (ann_of (N (sc_g s'))). fold (fin_of (N (sc_g s'))).
      assert (Hnd : NoDup (g_awaited (sc_g s) ++ ann_of (N (sc_g s')))).
      { rewrite A2. destruct HI as [HF HN]. apply RefC08.NoDup_app_disj; [exact HN|apply seq_NoDup|].
        intros x Hx1 Hx2. rewrite Forall_forall in HF. specialize (HF _ Hx1). apply in_seq in Hx2. lia. }
      rewrite <- (acc_ns_filter _ _ _ Hnd A1).
      rewrite (IH s' t Hl' HI' E2), andb_true_r.
      destruct c as [|id| |k l|o|o]; try reflexivity.
      cbn [observe cr_ret]. rewrite <- (api_finish_ret _ _ _ _ _ _ _ _ E). apply orb_negb_l.
  Qed.
End C14.

Theorem accepted_announced_monitor_ref : forall orc imm body f cs tr,
    run_script orc imm f body sched0 cs = Ok tr -> accepted_announced [] cs tr = true.
Proof.
  intros orc imm body f cs tr H.
  exact (accepted_announced_ref orc imm body f cs sched0 tr lst_all_default (AwInv_sched0) H).
Qed.

Theorem C14_monitor_ref : forall orc imm body f cs tr,
    run_script orc imm f body sched0 cs = Ok tr -> holds_C14 cs tr = true.
Proof.
  intros orc imm body f cs tr H. unfold holds_C14. apply andb_true_iff. split.
  - exact (C07_ref orc imm body f cs tr H).
  - eapply accepted_announced_monitor_ref; exact H.
Qed.

(* ===================================================================== *)
(* 7. a sequence accepted by the lifecycle monitor never repeats a         *)
(*    notification                                                         *)
(* ===================================================================== *)
Definition ids (l : list open_inst) : list nat := map oi_id l.

Definition WL (L : life) : Prop :=
  NoDup (ids (lf_tasks L)) /\ NoDup (ids (lf_svcs L))
  /\ incl (ids (lf_tasks L)) (lf_used_t L) /\ incl (ids (lf_svcs L)) (lf_used_s L).

Lemma mem_iff : forall x l, mem x l = true <-> In x l.
Proof.
  intros x l. induction l as [|y l IH]; cbn; [split; [discriminate|tauto]|].
  rewrite orb_true_iff, IH, Nat.eqb_eq. split; intros [H|H]; auto.
Qed.

Lemma mem_false : forall x l, mem x l = false -> ~ In x l.
Proof. intros x l H Hi. apply mem_iff in Hi. congruence. Qed.

Lemma oi_eqb_id : forall a b, oi_eqb a b = true -> oi_id a = oi_id b.
Proof.
  intros a b H. unfold oi_eqb in H. repeat (apply andb_true_iff in H; destruct H as [H ?]).
  apply Nat.eqb_eq. exact H.
Qed.

Lemma ids_app : forall a b, ids (a ++ b) = ids a ++ ids b.
Proof. intros. apply map_app. Qed.

(* what one accepted step does to the monitor's lists *)
Lemma life_step_eff : forall L m L',
    WL L -> life_step L m = Some L' ->
    WL L' /\
    incl (lf_used_t L) (lf_used_t L') /\ incl (lf_used_s L) (lf_used_s L') /\
    (forall x, In x (ids (lf_tasks L')) ->
               In x (ids (lf_tasks L)) \/ (n_kind m = TS /\ x = n_id m)) /\
    (forall x, In x (ids (lf_svcs L')) ->
               In x (ids (lf_svcs L)) \/ (n_kind m = SS /\ x = n_id m)) /\
    (n_kind m = TS -> ~ In (n_id m) (lf_used_t L) /\ In (n_id m) (lf_used_t L')) /\
    (n_kind m = SS -> ~ In (n_id m) (lf_used_s L) /\ In (n_id m) (lf_used_s L')) /\
    (n_kind m = TF -> In (n_id m) (ids (lf_tasks L)) /\ ~ In (n_id m) (ids (lf_tasks L'))) /\
    (n_kind m = SF -> In (n_id m) (ids (lf_svcs L)) /\ ~ In (n_id m) (ids (lf_svcs L'))).
Proof.
  intros L m L' (W1 & W2 & W3 & W4) H. unfold life_step in H. destruct (n_kind m) eqn:K.
  - (* TS *)
    match type of H with (if ?c then _ else _) = _ => destruct c eqn:C end; [|discriminate]. inv H.
    apply andb_true_iff in C. destruct C as [_ C]. apply negb_true_iff in C. apply mem_false in C.
    unfold WL. cbn [lf_tasks lf_svcs lf_used_t lf_used_s ids map oi_of oi_id].
    repeat split; try discriminate; try (apply incl_refl); try (apply incl_tl, incl_refl); auto.
    + constructor; [intro Hi; apply C, W3, Hi|exact W1].
    + intros x [Hx|Hx]; [left; exact Hx|right; apply W3, Hx].
    + intros x [Hx|Hx]; [right; auto|left; exact Hx].
    + left; reflexivity.
  - (* TF *)
    destruct (remove_first (oi_eqb (oi_of m)) (lf_tasks L)) as [rest|] eqn:R; [|discriminate].
    match type of H with (if ?c then _ else _) = _ => destruct c end; [discriminate|]. inv H.
    destruct (remove_first_split _ _ _ _ R) as (l1 & x & l2 & E1 & -> & Hx).
    apply oi_eqb_id in Hx. cbn [oi_of oi_id] in Hx.
    unfold WL. cbn [lf_tasks lf_svcs lf_used_t lf_used_s]. rewrite E1, !ids_app in *.
    cbn [ids map] in *. rewrite <- Hx in *.
    repeat split; try discriminate; try (apply incl_refl); auto.
    + apply NoDup_remove_1 in W1. exact W1.
    + intros y Hy. apply W3. rewrite in_app_iff in *. cbn [In]. tauto.
    + intros y Hy. left. rewrite in_app_iff in *. cbn [In]. tauto.
    + rewrite in_app_iff. cbn [In]. auto.
    + apply NoDup_remove_2 in W1. exact W1.
  - (* SS *)
    match type of H with (if ?c then _ else _) = _ => destruct c eqn:C end; [|discriminate]. inv H.
    apply andb_true_iff in C. destruct C as [_ C]. apply negb_true_iff in C. apply mem_false in C.
    unfold WL. cbn [lf_tasks lf_svcs lf_used_t lf_used_s ids map oi_of oi_id].
    repeat split; try discriminate; try (apply incl_refl); try (apply incl_tl, incl_refl); auto.
    + constructor; [intro Hi; apply C, W4, Hi|exact W2].
    + intros x [Hx|Hx]; [left; exact Hx|right; apply W4, Hx].
    + intros x [Hx|Hx]; [right; auto|left; exact Hx].
    + left; reflexivity.
  - (* SF *)
    destruct (remove_first (oi_eqb (oi_of m)) (lf_svcs L)) as [rest|] eqn:R; [|discriminate]. inv H.
    destruct (remove_first_split _ _ _ _ R) as (l1 & x & l2 & E1 & -> & Hx).
    apply oi_eqb_id in Hx. cbn [oi_of oi_id] in Hx.
    unfold WL. cbn [lf_tasks lf_svcs lf_used_t lf_used_s]. rewrite E1, !ids_app in *.
    cbn [ids map] in *. rewrite <- Hx in *.
    repeat split; try discriminate; try (apply incl_refl); auto.
    + apply NoDup_remove_1 in W2. exact W2.
    + intros y Hy. apply W4. rewrite in_app_iff in *. cbn [In]. tauto.
    + intros y Hy. left. rewrite in_app_iff in *. cbn [In]. tauto.
    + rewrite in_app_iff. cbn [In]. auto.
    + apply NoDup_remove_2 in W2. exact W2.
Qed.

(* a notification that the monitor can never accept again *)
Definition Blk (n : notif) (L : life) : Prop :=
  match n_kind n with
  | TS => In (n_id n) (lf_used_t L)
  | SS => In (n_id n) (lf_used_s L)
  | TF => In (n_id n) (lf_used_t L) /\ ~ In (n_id n) (ids (lf_tasks L))
  | SF => In (n_id n) (lf_used_s L) /\ ~ In (n_id n) (ids (lf_svcs L))
  end.

Lemma Blk_after : forall L n L', WL L -> life_step L n = Some L' -> Blk n L'.
Proof.
  intros L n L' HW H. pose proof HW as (W1 & W2 & W3 & W4).
  destruct (life_step_eff _ _ _ HW H) as (_ & U1 & U2 & _ & _ & S1 & S2 & S3 & S4).
  unfold Blk. destruct (n_kind n).
  - apply S1. reflexivity.
  - destruct (S3 eq_refl) as [A B]. split; [apply U1, W3, A|exact B].
  - apply S2. reflexivity.
  - destruct (S4 eq_refl) as [A B]. split; [apply U2, W4, A|exact B].
Qed.

Lemma Blk_step : forall L n m L',
    WL L -> Blk n L -> life_step L m = Some L' ->
    Blk n L' /\ (n_kind m = n_kind n -> n_id m <> n_id n).
Proof.
  intros L n m L' HW HB H.
  destruct (life_step_eff _ _ _ HW H) as (_ & U1 & U2 & T1 & T2 & S1 & S2 & S3 & S4).
  unfold Blk in *. destruct (n_kind n).
  - split; [apply U1, HB|]. intros K E. destruct (S1 K) as [A _]. rewrite E in A. exact (A HB).
  - destruct HB as [B1 B2]. split; [split; [apply U1, B1|]|].
    + intro Hi. destruct (T1 _ Hi) as [Hi'|[K E]]; [exact (B2 Hi')|].
      destruct (S1 K) as [A _]. rewrite <- E in A. exact (A B1).
    + intros K E. destruct (S3 K) as [A _]. rewrite E in A. exact (B2 A).
  - split; [apply U2, HB|]. intros K E. destruct (S2 K) as [A _]. rewrite E in A. exact (A HB).
  - destruct HB as [B1 B2]. split; [split; [apply U2, B1|]|].
    + intro Hi. destruct (T2 _ Hi) as [Hi'|[K E]]; [exact (B2 Hi')|].
      destruct (S2 K) as [A _]. rewrite <- E in A. exact (A B1).
    + intros K E. destruct (S4 K) as [A _]. rewrite E in A. exact (B2 A).
Qed.

(* no two notifications of the sequence are equal *)
Fixpoint nodupn (ns : list notif) : Prop :=
  match ns with
  | [] => True
  | n :: t => Forall (fun m => notif_eqb n m = false) t /\ nodupn t
  end.

Lemma Blk_run : forall n t L L',
    WL L -> Blk n L -> life_run L t = Some L' -> Forall (fun m => notif_eqb n m = false) t.
Proof.
  intros n t. induction t as [|m t IH]; intros L L' HW HB H; [constructor|].
  cbn [life_run] in H. destruct (life_step L m) as [L1|] eqn:E; [|discriminate].
  destruct (Blk_step _ _ _ _ HW HB E) as [HB1 Hne].
  destruct (life_step_eff _ _ _ HW E) as (HW1 & _).
  constructor; [|eapply IH; eassumption].
  destruct (notif_eqb n m) eqn:Q; [|reflexivity].
  apply notif_eqb_key in Q. destruct Q as [Q1 Q2]. exfalso. apply Hne; congruence.
Qed.

Lemma life_run_nodup : forall ns L L', WL L -> life_run L ns = Some L' -> nodupn ns /\ WL L'.
Proof.
  induction ns as [|n t IH]; intros L L' HW H.
  - cbn in H. inv H. split; [exact I|exact HW].
  - cbn [life_run] in H. destruct (life_step L n) as [L1|] eqn:E; [|discriminate].
    destruct (life_step_eff _ _ _ HW E) as (HW1 & _).
    destruct (IH _ _ HW1 H) as [N1 W']. split; [|exact W']. split; [|exact N1].
    eapply Blk_run; [exact HW1|exact (Blk_after _ _ _ HW E)|exact H].
Qed.

Definition call_nodup (r : callrec) : Prop := nodupn (map fst (ee_notifs (cr_log r))).

Lemma life_calls_nodup : forall tr cs L,
    WL L -> life_calls L cs tr = true -> Forall call_nodup tr.
Proof.
  induction tr as [|r t IH]; intros cs L HW H; [constructor|].
  destruct cs as [|c cs]; [discriminate|]. cbn [life_calls] in H.
  apply andb_true_iff in H. destruct H as [_ H].
  destruct (life_run L (map fst (ee_notifs (cr_log r)))) as [L'|] eqn:E; [|discriminate].
  apply andb_true_iff in H. destruct H as [_ H].
  destruct (life_run_nodup _ _ _ HW E) as [N1 W']. constructor; [exact N1|]. eapply IH; eassumption.
Qed.

Lemma WL_life0 : WL life0.
Proof. repeat split; try constructor; intros x []. Qed.

(* in every run of the reference semantics the notifications of one call are pairwise different *)
Theorem ref_call_nodup : forall orc imm body f cs tr,
    run_script orc imm f body sched0 cs = Ok tr -> Forall call_nodup tr.
Proof.
  intros orc imm body f cs tr H. eapply life_calls_nodup; [apply WL_life0|].
  exact (C07_ref orc imm body f cs tr H).
Qed.

(* ===================================================================== *)
(* 8. C20 / C17: the grouping monitors on rendered logs                    *)
(* ===================================================================== *)
Definition notifs_of (evs : list aev) : list notif :=
  flat_map (fun a => match a with ANot n _ _ => [n] | AQ _ _ => [] end) evs.

Lemma ee_render : forall ls obs evs,
    lst_all ls -> map fst (ee_notifs (flat_map (render ls obs) evs)) = notifs_of evs.
Proof.
  intros ls obs evs Hl. induction evs as [|a evs IH]; [reflexivity|].
  cbn [flat_map notifs_of]. rewrite ee_app, map_app, IH. f_equal.
  destruct a as [n fl r|v c]; [|reflexivity]. cbn [render].
  rewrite ee_app, ee_listeners, (Hl (n_kind n)), ee_obs by (intro; exact I). reflexivity.
Qed.

Lemma listeners_nonempty : forall ls k, lst_all ls -> listeners_of k ls <> [].
Proof. intros ls k Hl E. specialize (Hl k). rewrite E in Hl. discriminate. Qed.

Definition fresh_for (n : notif) (evs : list aev) : Prop :=
  Forall (fun m => notif_eqb n m = false) (notifs_of evs).

Lemma take_group_same : forall n r L X,
    take_group n (map (fun l => ENotif l n r) L ++ X) =
    (L ++ fst (take_group n X), snd (take_group n X)).
Proof.
  intros n r L X. induction L as [|l L IH]; cbn [map app].
  - destruct (take_group n X); reflexivity.
  - cbn [take_group]. unfold same_notif. rewrite notif_eqb_refl, IH. reflexivity.
Qed.

Lemma take_group_fresh : forall ls obs n evs,
    fresh_for n evs -> take_group n (flat_map (render ls obs) evs) = ([], flat_map (render ls obs) evs).
Proof.
  intros ls obs n evs. induction evs as [|a evs IH]; intro H; [reflexivity|].
  destruct a as [m fl r|v c]; [|reflexivity].
  unfold fresh_for in H. cbn [notifs_of flat_map app] in H. inversion H as [|? ? Hm Hr]; subst.
  cbn [flat_map render]. destruct (listeners_of (n_kind m) ls) as [|l L].
  - cbn [map app]. destruct obs as [|o os]; [cbn [map app]; apply IH; exact Hr|reflexivity].
  - cbn [map app take_group]. unfold same_notif. rewrite Hm. reflexivity.
Qed.

Lemma take_group_obs : forall ls obs n (f : nat -> entry) evs,
    (forall o, match f o with ENotif _ _ _ => False | _ => True end) ->
    fresh_for n evs ->
    take_group n (map f obs ++ flat_map (render ls obs) evs) = ([], map f obs ++ flat_map (render ls obs) evs).
Proof.
  intros ls obs n f evs Hf H. destruct obs as [|o os].
  - cbn [map app]. apply take_group_fresh. exact H.
  - cbn [map app]. specialize (Hf o). destruct (f o); try reflexivity. contradiction.
Qed.

Section Logs.
  Variable ls : list (nkind * nat).
  Variable obs : list nat.
  Variable Hl : lst_all ls.

  Lemma c20_skip_obs : forall (f : nat -> entry) os rest,
      (forall o, match f o with ENotif _ _ _ => False | _ => True end) ->
      (forall fuel, c20_log fuel ls rest = true) ->
      forall fuel, c20_log fuel ls (map f os ++ rest) = true.
  Proof.
    intros f os rest Hf Hr. induction os as [|o os IH]; intro fuel; [apply Hr|].
    destruct fuel as [|fuel]; [reflexivity|]. cbn [map app c20_log].
    specialize (Hf o). destruct (f o); try apply IH. contradiction.
  Qed.

  Lemma c20_log_render : forall evs,
      nodupn (notifs_of evs) -> forall fuel, c20_log fuel ls (flat_map (render ls obs) evs) = true.
  Proof.
    induction evs as [|a evs IH]; intros Hn fuel; [destruct fuel; reflexivity|].
    destruct fuel as [|fuel]; [reflexivity|].
    destruct a as [n fl r|v c].
    - cbn [notifs_of flat_map app nodupn] in Hn. destruct Hn as [Hf Hn].
      cbn [flat_map render]. pose proof (listeners_nonempty ls (n_kind n) Hl) as Hne.
      destruct (listeners_of (n_kind n) ls) as [|l L] eqn:EL; [congruence|].
      cbn [map app]. rewrite <- !app_assoc. cbn [c20_log].
      rewrite take_group_same, take_group_obs; [|intro; exact I|exact Hf].
      cbn [fst snd]. rewrite app_nil_r, EL, list_eqb_nat_refl. cbn [andb].
      apply c20_skip_obs; [intro; exact I|]. apply IH. exact Hn.
    - cbn [flat_map render app c20_log]. apply IH. exact Hn.
  Qed.

  (* the observer entries after a notification group *)
  Lemma take_obs_render : forall evs,
      take_obs (flat_map (render ls obs) evs) = ([], flat_map (render ls obs) evs).
  Proof.
    intros [|a evs]; [reflexivity|]. destruct a as [n fl r|v c]; [|reflexivity].
    cbn [flat_map render]. pose proof (listeners_nonempty ls (n_kind n) Hl) as Hne.
    destruct (listeners_of (n_kind n) ls) as [|l L]; [congruence|]. reflexivity.
  Qed.

  Lemma take_obs_app : forall k nm id fl os R,
      take_obs R = ([], R) ->
      take_obs (map (fun o => EObs o k nm id fl) os ++ R) = (map (fun o => (o, k, nm, id, fl)) os, R).
  Proof.
    intros k nm id fl os R HR. induction os as [|o os IH]; [exact HR|].
    cbn [map app take_obs]. rewrite IH. reflexivity.
  Qed.

  Lemma obs_matches_refl : forall n fl os,
      obs_matches n fl os (map (fun o => (o, n_kind n, n_name n, n_id n, fl)) os) = true.
  Proof.
    intros n fl os. induction os as [|o os IH]; [reflexivity|]. cbn [map obs_matches].
    rewrite !Nat.eqb_refl, nkind_eqb_refl, eqb_reflx, IH. reflexivity.
  Qed.

  Lemma c17_log_render : forall evs,
      nodupn (notifs_of evs) -> Forall flag_ok evs ->
      forall fuel, c17_log fuel obs (flat_map (render ls obs) evs) = true.
  Proof.
    induction evs as [|a evs IH]; intros Hn Hfl fuel; [destruct fuel; reflexivity|].
    destruct fuel as [|fuel]; [reflexivity|].
    inversion Hfl as [|? ? Ha Hfl']; subst.
    destruct a as [n fl r|v c].
    - cbn [notifs_of flat_map app nodupn] in Hn. destruct Hn as [Hf Hn]. cbn [flag_ok] in Ha.
      cbn [flat_map render]. pose proof (listeners_nonempty ls (n_kind n) Hl) as Hne.
      destruct (listeners_of (n_kind n) ls) as [|l L] eqn:EL; [congruence|].
      cbn [map app]. rewrite <- !app_assoc. cbn [c17_log].
      rewrite take_group_same, take_group_obs; [|intro; exact I|exact Hf].
      cbn [fst snd]. rewrite take_obs_app by apply take_obs_render.
      rewrite <- Ha, obs_matches_refl. cbn [andb]. apply IH; assumption.
    - cbn [flat_map render app c17_log]. apply IH; assumption.
  Qed.
End Logs.

Section C20C17.
  Variable orc : oracle.
  Variable imm : nat -> bool.
  Variable body : list xstmt.

  (* the log of one call, as the monitors see it *)
  Lemma call_log : forall f s c b s',
      api_call orc imm f body s c = Ok (b, s') -> lst_all (g_ls (sc_g s)) -> call_nodup (observe b s') ->
      exists evs, cr_log (observe b s') = flat_map (render (g_ls (sc_g s)) (g_obs (sc_g s))) evs
                  /\ nodupn (notifs_of evs) /\ Forall flag_ok evs.
  Proof.
    intros f s c b s' H Hl Hn. destruct (api_shape _ _ _ _ _ _ _ _ H) as (((evs & E1 & E2) & _) & _).
    exists evs. split; [exact E1|]. split; [|exact E2].
    unfold call_nodup in Hn. rewrite E1, ee_render in Hn by exact Hl. exact Hn.
  Qed.

  Lemma c20_run_ref : forall f cs s tr,
      lst_all (g_ls (sc_g s)) -> run_script orc imm f body s cs = Ok tr -> Forall call_nodup tr ->
      c20_run (g_ls (sc_g s)) cs tr = true.
  Proof.
    intros f cs. induction cs as [|c cs IH]; intros s tr Hl H Hn; cbn [run_script] in H.
    - inv H. reflexivity.
    - destruct (api_call orc imm f body s c) as [[b s']| | |] eqn:E; try discriminate.
      cbn [rbind] in H.
      destruct (run_script orc imm f body s' cs) as [t| | |] eqn:E2; try discriminate.
      cbn [rbind] in H. inv H. inversion Hn as [|? ? Hn1 Hn2]; subst.
      destruct (api_acc orc imm body _ _ _ _ _ E Hl) as (_ & Hl').
      destruct (api_shape _ _ _ _ _ _ _ _ E) as ((_ & S1 & S2) & S3 & _).
      specialize (IH s' t Hl' E2 Hn2). rewrite S3 in IH.
      destruct (call_log _ _ _ _ _ E Hl Hn1) as (evs & L1 & L2 & _).
      assert (G : c20_log (S (List.length (cr_log (observe b s')))) (g_ls (sc_g s)) (cr_log (observe b s')) = true).
      { rewrite L1. apply c20_log_render; assumption. }
      cbn [c20_run].
      destruct c as [|id| |k l|o|o]; cbn [next_ls] in IH; try (rewrite G, IH; reflexivity).
      rewrite (S2 k l eq_refl), eqb_reflx, (S1 eq_refl). cbn [andb]. exact IH.
  Qed.

  Lemma c17_run_ref : forall f cs s tr,
      lst_all (g_ls (sc_g s)) -> run_script orc imm f body s cs = Ok tr -> Forall call_nodup tr ->
      c17_run (g_obs (sc_g s)) cs tr = true.
  Proof.
    intros f cs. induction cs as [|c cs IH]; intros s tr Hl H Hn; cbn [run_script] in H.
    - inv H. reflexivity.
    - destruct (api_call orc imm f body s c) as [[b s']| | |] eqn:E; try discriminate.
      cbn [rbind] in H.
      destruct (run_script orc imm f body s' cs) as [t| | |] eqn:E2; try discriminate.
      cbn [rbind] in H. inv H. inversion Hn as [|? ? Hn1 Hn2]; subst.
      destruct (api_acc orc imm body _ _ _ _ _ E Hl) as (_ & Hl').
      destruct (api_shape _ _ _ _ _ _ _ _ E) as (_ & _ & S4).
      specialize (IH s' t Hl' E2 Hn2). rewrite S4 in IH.
      destruct (call_log _ _ _ _ _ E Hl Hn1) as (evs & L1 & L2 & L3).
      assert (G : c17_log (S (List.length (cr_log (observe b s')))) (g_obs (sc_g s)) (cr_log (observe b s')) = true).
      { rewrite L1. apply (c17_log_render (g_ls (sc_g s))); assumption. }
      cbn [c17_run].
      destruct c as [|id| |k l|o|o]; cbn [next_obs] in IH; try (rewrite G, IH; reflexivity).
      + exact IH.
      + cbn [api_call] in E. change (g_obs (clear_log (sc_g s))) with (g_obs (sc_g s)) in E.
        destruct (remove_first (Nat.eqb o) (g_obs (sc_g s))) as [l|]; [|discriminate]. exact IH.
  Qed.
End C20C17.

Theorem C20_monitor_ref : forall orc imm body f cs tr,
    run_script orc imm f body sched0 cs = Ok tr -> holds_C20 cs tr = true.
Proof.
  intros orc imm body f cs tr H. unfold holds_C20.
  exact (c20_run_ref orc imm body f cs sched0 tr lst_all_default H (ref_call_nodup _ _ _ _ _ _ H)).
Qed.

Theorem C17_monitor_ref : forall orc imm body f cs tr,
    run_script orc imm f body sched0 cs = Ok tr -> holds_C17 cs tr = true.
Proof.
  intros orc imm body f cs tr H. unfold holds_C17.
  exact (c17_run_ref orc imm body f cs sched0 tr lst_all_default H (ref_call_nodup _ _ _ _ _ _ H)).
Qed.

(* ===================================================================== *)
(* 9. the same statements for `run` cases of the harness, and a witness    *)
(* ===================================================================== *)
Lemma run_ref_script : forall (c : runcase) tr,
    run_ref c = Ok tr ->
    exists body, run_script (orc_of (rc_vals c)) (imm_of (rc_imm c)) default_fuel body sched0 (rc_script c) = Ok tr.
Proof.
  intros c tr H. unfold run_ref in H.
  destruct (existsb _ (rc_react c)); [discriminate|].
  destruct (unfold_program (p_tasks (rc_prog c)) 200) as [body| | |]; try discriminate.
  cbn [rbind] in H. exists body. exact H.
Qed.

Theorem C08_monitor_ref_programs : forall (c : runcase) tr, run_ref c = Ok tr -> mon_C08 c tr = true.
Proof. intros c tr H. destruct (run_ref_script c tr H) as (body & Hb). eapply C08_monitor_ref; exact Hb. Qed.

Theorem C14_monitor_ref_programs : forall (c : runcase) tr, run_ref c = Ok tr -> mon_C14 c tr = true.
Proof. intros c tr H. destruct (run_ref_script c tr H) as (body & Hb). eapply C14_monitor_ref; exact Hb. Qed.

Theorem C20_monitor_ref_programs : forall (c : runcase) tr, run_ref c = Ok tr -> mon_C20 c tr = true.
Proof. intros c tr H. destruct (run_ref_script c tr H) as (body & Hb). eapply C20_monitor_ref; exact Hb. Qed.

Theorem C17_monitor_ref_programs : forall (c : runcase) tr, run_ref c = Ok tr -> mon_C17 c tr = true.
Proof. intros c tr H. destruct (run_ref_script c tr H) as (body & Hb). eapply C17_monitor_ref; exact Hb. Qed.

(* the verdict field "the monitor accepts the model's trace" of the harness' judgement is
   constantly true for these monitors: a False there can only come from a broken build *)
Theorem judge_model_accepts : forall mon,
    (forall c tr, run_ref c = Ok tr -> mon c tr = true) ->
    forall p c impl, v_mon_model (judge_with p mon c impl) = true.
Proof.
  intros mon Hm p c impl. unfold judge_with. destruct (run_ref c) as [tr| | |] eqn:E; cbn [v_mon_model]; auto.
Qed.

Definition judge_model_accepts_C08 := judge_model_accepts mon_C08 C08_monitor_ref_programs.
Definition judge_model_accepts_C14 := judge_model_accepts mon_C14 C14_monitor_ref_programs.
Definition judge_model_accepts_C20 := judge_model_accepts mon_C20 C20_monitor_ref_programs.
Definition judge_model_accepts_C17 := judge_model_accepts mon_C17 C17_monitor_ref_programs.

(* the hypotheses are inhabited: a run through all statement kinds (16 API calls, one service
   completed from inside its own notification, rejected and repeated completions, junk) that
   reaches the end of the order *)
Theorem monitors_ref_nonvacuous :
  exists tr, run_ref ex_case = Ok tr /\ existsb (fun r => cr_final r) tr = true
             /\ existsb (fun r => negb (cr_ret r)) tr = true
             /\ mon_C08 ex_case tr = true /\ mon_C14 ex_case tr = true
             /\ mon_C20 ex_case tr = true /\ mon_C17 ex_case tr = true.
Proof.
  destruct ex_runs as (tr & H & _ & Hf). exists tr. split; [exact H|]. split; [exact Hf|]. split.
  - revert H. vm_compute. intro H. inv H. reflexivity.
  - repeat split; [apply C08_monitor_ref_programs|apply C14_monitor_ref_programs
                   |apply C20_monitor_ref_programs|apply C17_monitor_ref_programs]; exact H.
Qed.

(* all six monitors of Monitors.v at once (holds_C01: RefC01, holds_C07: RefC07) *)
Theorem monitors_ref_all : forall orc imm body f cs tr,
    run_script orc imm f body sched0 cs = Ok tr ->
    holds_C01 tr = true /\ holds_C07 cs tr = true /\ holds_C08 imm cs tr = true
    /\ holds_C14 cs tr = true /\ holds_C17 cs tr = true /\ holds_C20 cs tr = true.
Proof.
  intros orc imm body f cs tr H.
  split; [exact (C01_ref orc imm body f cs tr H)|].
  split; [exact (C07_ref orc imm body f cs tr H)|].
  split; [exact (C08_monitor_ref orc imm body f cs tr H)|].
  split; [exact (C14_monitor_ref orc imm body f cs tr H)|].
  split; [exact (C17_monitor_ref orc imm body f cs tr H)|exact (C20_monitor_ref orc imm body f cs tr H)].
Qed.

(* ===================================================================== *)
(* 10. the monitors are not trivially true: tampered copies of a reference *)
(*     trace are rejected (evaluated)                                      *)
(* ===================================================================== *)
Definition ex_trace : list callrec := match run_ref ex_case with Ok t => t | _ => [] end.

Fixpoint upd {A} (i : nat) (f : A -> A) (l : list A) : list A :=
  match l, i with
  | [], _ => []
  | x :: t, O => f x :: t
  | x :: t, S j => x :: upd j f t
  end.

Definition set_ret (b : bool) (r : callrec) : callrec :=
  {| cr_ret := b; cr_log := cr_log r; cr_running := cr_running r; cr_awaited := cr_awaited r;
     cr_final := cr_final r |}.
Definition set_log (f : list entry -> list entry) (r : callrec) : callrec :=
  {| cr_ret := cr_ret r; cr_log := f (cr_log r); cr_running := cr_running r; cr_awaited := cr_awaited r;
     cr_final := cr_final r |}.

(* a completion sent before the start, reported as accepted *)
Example C08_rejects_wrong_return :
  mon_C08 ex_case ex_trace = true /\ mon_C08 ex_case (upd 0 (set_ret true) ex_trace) = false.
Proof. split; vm_compute; reflexivity. Qed.

(* an accepted completion whose identifier was never announced (the script names another one) *)
Example C14_rejects_unannounced :
  holds_C14 (rc_script ex_case) ex_trace = true
  /\ accepted_announced [] (upd 2 (fun _ => AFinish 99) (rc_script ex_case)) ex_trace = false.
Proof. split; vm_compute; reflexivity. Qed.

(* a function invoked twice for one notification *)
Example C20_rejects_double_invocation :
  mon_C20 ex_case ex_trace = true
  /\ mon_C20 ex_case (upd 1 (set_log (fun l => match l with e :: t => e :: e :: t | [] => [] end)) ex_trace) = false.
Proof. split; vm_compute; reflexivity. Qed.

(* an observer entry nobody is attached for *)
Example C17_rejects_stray_observer_entry :
  mon_C17 ex_case ex_trace = true
  /\ mon_C17 ex_case (upd 1 (set_log (fun l => l ++ [EObs 7 TS 0 0 false])) ex_trace) = false.
Proof. split; vm_compute; reflexivity. Qed.
