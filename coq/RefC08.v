(* RefC08.v — rejected events change nothing; erasing them from a history leaves the rest
   of the run unchanged; start is idempotent; only awaited completions are accepted.
   Theorems about the reference semantics' API layer (RefSem.api_call).  Proof file. *)
From PFDL Require Import RefSem RunCase Monitors RefBase.

Section C08.
  Variable orc : oracle.
  Variable imm : nat -> bool.
  Variable body : list xstmt.

  (* the state between two calls, up to the log of the previous call (which every call
     discards first) *)
  Definition quiet (s : sched) : sched := {| sc_g := clear_log (sc_g s); sc_root := sc_root s |}.

  (* a call sees its predecessor's state only through [quiet] *)
  Lemma api_call_quiet : forall f s c, api_call orc imm f body (quiet s) c = api_call orc imm f body s c.
  Proof. intros f s c. destruct c; reflexivity. Qed.

  (* 1. an event that is not an awaited completion is reported False and changes nothing:
        no notification, same awaited set, same running flag, same progress, same listeners *)
  Theorem reject_finish_noop : forall f s id,
      mem id (g_awaited (sc_g s)) = false ->
      api_call orc imm f body s (AFinish id) = Ok (false, quiet s).
  Proof. intros f s id H. cbn [api_call]. change (g_awaited (clear_log (sc_g s))) with (g_awaited (sc_g s)).
         rewrite H. reflexivity. Qed.

  Theorem reject_junk_noop : forall f s, api_call orc imm f body s AJunk = Ok (false, quiet s).
  Proof. reflexivity. Qed.

  (* 2. an accepted event is an awaited completion *)
  Theorem accepted_was_awaited : forall f s id s',
      api_call orc imm f body s (AFinish id) = Ok (true, s') -> mem id (g_awaited (sc_g s)) = true.
  Proof.
    intros f s id s' H. cbn [api_call] in H.
    change (g_awaited (clear_log (sc_g s))) with (g_awaited (sc_g s)) in H.
    destruct (mem id (g_awaited (sc_g s))); [reflexivity|discriminate].
  Qed.

  (* 3. calling start again never restarts, duplicates or un-finishes an order *)
  Theorem start_again_noop : forall f s r,
      sc_root s = Some r -> api_call orc imm f body s AStart = Ok (true, quiet s).
  Proof. intros f s r H. cbn [api_call]. unfold quiet. rewrite H. reflexivity. Qed.

  (* 4. erasing rejected events from a history: the remaining calls produce exactly the same
        records (return values, notifications, reported state) *)
  Definition rejected (s : sched) (c : apicall) : bool :=
    match c with
    | AJunk => true
    | AFinish id => negb (mem id (g_awaited (sc_g s)))
    | AStart => match sc_root s with Some _ => true | None => false end
    | _ => false
    end.

  Lemma rejected_step : forall f s c,
      rejected s c = true ->
      exists b, api_call orc imm f body s c = Ok (b, quiet s).
  Proof.
    intros f s c H. destruct c as [|id| |k l|o|o]; cbn [rejected] in H; try discriminate.
    - destruct (sc_root s) as [r|] eqn:E; [|discriminate]. exists true. eapply start_again_noop; eassumption.
    - exists false. apply reject_finish_noop. destruct (mem id (g_awaited (sc_g s))); [discriminate|reflexivity].
    - exists false. reflexivity.
  Qed.

  Lemma run_script_quiet : forall f cs s, run_script orc imm f body (quiet s) cs = run_script orc imm f body s cs.
  Proof. intros f cs s. destruct cs as [|c cs]; [reflexivity|]. cbn [run_script]. rewrite api_call_quiet. reflexivity. Qed.

  Theorem erase_rejected : forall f s c cs tr,
      rejected s c = true ->
      run_script orc imm f body s (c :: cs) = Ok tr ->
      exists r, tr = r :: match run_script orc imm f body s cs with Ok t => t | _ => [] end
                /\ run_script orc imm f body s cs = Ok (tl tr)
                /\ cr_log r = [] /\ cr_running r = g_running (sc_g s) /\ cr_awaited r = g_awaited (sc_g s).
  Proof.
    intros f s c cs tr Hr H. destruct (rejected_step f s c Hr) as (b & E).
    cbn [run_script] in H. rewrite E in H. cbn [rbind] in H. rewrite run_script_quiet in H.
    destruct (run_script orc imm f body s cs) as [t| | |] eqn:E2; try discriminate.
    cbn [rbind] in H. inv H. eexists. split; [reflexivity|]. split; [reflexivity|]. repeat split.
  Qed.
End C08.

(* ---- each completion is accepted at most once ---- *)
From PFDL Require Import RefClosure.

Definition AwInv (g : G) : Prop := Forall (fun x => x < g_sid g) (g_awaited g) /\ NoDup (g_awaited g).

(* the awaited set keeps its invariant, and identifiers that are already in use are neither
   added nor removed *)
Definition AwR (g g' : G) : Prop :=
  g_sid g <= g_sid g' /\
  (AwInv g -> AwInv g' /\ forall x, x < g_sid g -> (In x (g_awaited g') <-> In x (g_awaited g))).

Lemma AwR_refl : forall g, AwR g g.
Proof. intro g. split; [lia|]. intro H. split; [exact H|]. intros; tauto. Qed.

Lemma AwR_trans : forall a b c, AwR a b -> AwR b c -> AwR a c.
Proof.
  intros a b c [A1 A2] [B1 B2]. split; [lia|]. intro Ha.
  destruct (A2 Ha) as [Hb Mab]. destruct (B2 Hb) as [Hc Mbc]. split; [exact Hc|].
  intros x Hx. rewrite Mbc by lia. apply Mab. exact Hx.
Qed.

Lemma NoDup_app_disj : forall (a b : list nat),
    NoDup a -> NoDup b -> (forall x, In x a -> In x b -> False) -> NoDup (a ++ b).
Proof.
  induction a as [|x a IH]; intros b Ha Hb Hd; cbn; [exact Hb|].
  inversion Ha as [|? ? Hx Ha']; subst. constructor.
  - rewrite in_app_iff. intros [H|H]; [exact (Hx H)|]. apply (Hd x); [left; reflexivity|exact H].
  - apply IH; auto. intros y Hy1 Hy2. apply (Hd y); [right; exact Hy1|exact Hy2].
Qed.

Lemma Eff_AwR : forall g g' ids, Eff g g' ids -> NoDup ids -> AwR g g'.
Proof.
  intros g g' ids E Hnd. destruct E as [_ _ _ E4 _ E6 _ _ _]. split; [exact E4|].
  intros [HF HN]. destruct (E6 HF) as [Ha Hr]. split; [split|].
  - rewrite Ha. apply Forall_app. split.
    + eapply Forall_lt_le; [exact E4|exact HF].
    + eapply Forall_impl; [|exact Hr]. cbn; intros; lia.
  - rewrite Ha. apply NoDup_app_disj; [exact HN|exact Hnd|].
    intros x Hx1 Hx2. rewrite Forall_forall in HF, Hr. specialize (HF _ Hx1). specialize (Hr _ Hx2). lia.
  - intros x Hx. rewrite Ha, in_app_iff. split; [|tauto].
    intros [H|H]; [exact H|]. rewrite Forall_forall in Hr. specialize (Hr _ H). lia.
Qed.

Lemma NoDup_short : forall (l : list nat), List.length l <= 1 -> NoDup l.
Proof. intros [|x [|y l]] H; cbn in H; try lia; repeat constructor; intros []. Qed.

Section Once.
  Variable orc : oracle.
  Variable imm : nat -> bool.
  Variable body : list xstmt.

  Lemma AwR_service : forall n at_ ins ctx ie g st g',
      (id <- fresh_s ;;
       await id ;;;
       emit (mk SS n at_ id (Some ctx) (subst_params ie ins)) ;;;
       k <- tick_ss ;;
       if imm k
       then unawait id ;;; emit (mk SF n at_ id (Some ctx) (subst_params ie ins)) ;;; ret RDone
       else ret (RAwait id)) g = Ok (st, g') -> AwR g g'.
  Proof.
    intros n at_ ins ctx ie g st g' H.
    eapply Eff_AwR; [eapply service_eff; exact H|].
    mstep as id g1 E1. mstep as u2 g2 E2. mstep as u3 g3 E3. mstep as k g4 E4.
    destruct (imm k).
    - mstep as u5 g5 E5. mstep as u6 g6 E6. mstep. constructor.
    - mstep. apply NoDup_short. cbn. lia.
  Qed.

  Lemma AwR_nil : forall g g', Eff g g' [] -> AwR g g'.
  Proof. intros. eapply Eff_AwR; [eassumption|constructor]. Qed.

  Lemma AwR_tstart : forall t at_ ctx ps g id g1 u g2,
      fresh_t g = Ok (id, g1) -> emit (mk TS t at_ id (Some ctx) ps) g1 = Ok (u, g2) -> AwR g g2.
  Proof.
    intros t at_ ctx ps g id g1 u g2 E1 E2. apply fresh_t_eff in E1. destruct E1 as (E1 & _ & _).
    eapply emit_task_eff in E2; [|left; reflexivity|discriminate].
    eapply AwR_trans; apply AwR_nil; eassumption.
  Qed.

  Lemma AwR_tfin : forall t at_ id ctx ps g u g',
      emit (mk TF t at_ id (Some ctx) ps) g = Ok (u, g') -> AwR g g'.
  Proof. intros. apply AwR_nil. eapply emit_task_eff; [eassumption|right; reflexivity|discriminate]. Qed.

  Lemma AwR_sfin : forall n at_ id ctx ps g u g',
      emit (mk SF n at_ id (Some ctx) ps) g = Ok (u, g') -> AwR g g'.
  Proof.
    intros n at_ id ctx ps g u g' H. apply emit_gen_facts in H.
    destruct H as (H1 & H2 & H3 & H4 & H5 & H6 & _). split; [lia|].
    intros [HF HN]. unfold AwInv. rewrite H6, H4. split; [split; assumption|]. intros; tauto.
  Qed.

  Definition start_aw := start_closed orc imm AwR AwR_refl AwR_trans
                           (fun e ctx g b g' H => AwR_nil _ _ (decide_m_eff orc e ctx g b g' H))
                           (fun l ctx g n g' H => AwR_nil _ _ (read_limit_eff orc l ctx g n g' H))
                           AwR_service AwR_tstart AwR_tfin.
  Definition deliver_aw := deliver_closed orc imm AwR AwR_refl AwR_trans
                           (fun e ctx g b g' H => AwR_nil _ _ (decide_m_eff orc e ctx g b g' H))
                           (fun l ctx g n g' H => AwR_nil _ _ (read_limit_eff orc l ctx g n g' H))
                           AwR_service AwR_tstart AwR_tfin AwR_sfin.
End Once.

Section OnceApi.
  Variable orc : oracle.
  Variable imm : nat -> bool.
  Variable body : list xstmt.

  Lemma mem_In : forall x l, mem x l = true <-> In x l.
  Proof.
    intros x l. induction l as [|y l IH]; cbn; [split; [discriminate|tauto]|].
    rewrite orb_true_iff, IH, Nat.eqb_eq. split; intros [H|H]; auto.
  Qed.

  Lemma remove_first_NoDup : forall id (l l' : list nat),
      remove_first (Nat.eqb id) l = Some l' -> NoDup l ->
      NoDup l' /\ ~ In id l' /\ (forall x, In x l' -> In x l).
  Proof.
    intros id. induction l as [|y l IH]; intros l' H Hn; cbn in H; [discriminate|].
    inversion Hn as [|? ? Hy Hl]; subst.
    destruct (Nat.eqb id y) eqn:E.
    - apply Nat.eqb_eq in E. subst y. inv H. repeat split; auto. intros; right; assumption.
    - destruct (remove_first (Nat.eqb id) l) as [t|]; [|discriminate]. inv H.
      destruct (IH t eq_refl Hl) as (N1 & N2 & N3). repeat split.
      + constructor; [|exact N1]. intro Hi. apply Hy. apply N3. exact Hi.
      + intros [Hi|Hi]; [apply Nat.eqb_neq in E; congruence|exact (N2 Hi)].
      + intros x [Hx|Hx]; [left; exact Hx|right; apply N3; exact Hx].
  Qed.

  (* "id is spent": it has been handed out and is no longer awaited *)
  Definition spent (id : nat) (g : G) : Prop := id < g_sid g /\ ~ In id (g_awaited g).

  Lemma AwR_spent : forall g g' id, AwR g g' -> AwInv g -> spent id g -> AwInv g' /\ spent id g'.
  Proof.
    intros g g' id [R1 R2] HI [S1 S2]. destruct (R2 HI) as [HI' M]. split; [exact HI'|].
    split; [lia|]. rewrite M by exact S1. exact S2.
  Qed.

  (* every API call keeps the invariant; spent identifiers stay spent; an accepted
     completion spends its identifier *)
  Lemma api_aw : forall f s c b s',
      AwInv (sc_g s) -> api_call orc imm f body s c = Ok (b, s') ->
      AwInv (sc_g s')
      /\ (forall id, spent id (sc_g s) -> spent id (sc_g s'))
      /\ (forall id, c = AFinish id -> b = true -> spent id (sc_g s')).
  Proof.
    intros f s c b s' HI H.
    assert (Q : forall g0, g_sid g0 = g_sid (sc_g s) -> g_awaited g0 = g_awaited (sc_g s) ->
                           AwInv g0 /\ (forall id, spent id (sc_g s) -> spent id g0)).
    { intros g0 E1 E2. unfold AwInv, spent. rewrite E1, E2. split; [exact HI|auto]. }
    destruct c as [|id| |k l|o|o]; cbn [api_call] in H.
    - destruct (sc_root s) as [r0|] eqn:Hroot.
      + inv H. destruct (Q (clear_log (sc_g s)) eq_refl eq_refl) as [Q1 Q2].
        split; [exact Q1|]. split; [exact Q2|]. intros; discriminate.
      + match type of H with match ?X with _ => _ end = _ => destruct X as [[st g']| | |] eqn:E end;
          try discriminate. inv H.
        mstep as u1 g1 E1. unfold set_running in E1. inv E1.
        set (g0 := clear_log (sc_g s) <| g_running := true |>) in *.
        mstep as id g2 E2. mstep as u3 g3 E3.
        assert (A03 : AwR g0 g3).
        { unfold fresh_t in E2. inv E2. apply emit_gen_facts in E3.
          destruct E3 as (H1 & H2 & H3 & H4 & H5 & H6 & _). split; [rewrite H4; cbn; lia|].
          intros HI0. unfold AwInv. rewrite H6, H4. split; [exact HI0|]. intros; tauto. }
        mstep as r g4 E4. apply (proj1 (proj2 (start_aw orc imm f))) in E4.
        assert (A04 : AwR g0 g4) by (eapply AwR_trans; eassumption).
        assert (Fin : forall gx gy, AwR g0 gx -> g_sid gy = g_sid gx -> g_awaited gy = g_awaited gx ->
                                    AwInv gy /\ (forall id, spent id (sc_g s) -> spent id gy)).
        { intros gx gy Ax Y1 Y2. destruct (Q g0 eq_refl eq_refl) as [Q1 Q2].
          split.
          - destruct Ax as [_ Ax]. destruct (Ax Q1) as [[F1 F2] _]. unfold AwInv. rewrite Y1, Y2. split; assumption.
          - intros id0 Hs. destruct (AwR_spent _ _ _ Ax Q1 (Q2 _ Hs)) as [_ [S1 S2]]. unfold spent. rewrite Y1, Y2. split; assumption. }
        destruct r as [[i sti]|].
        * mstep. destruct (Fin g4 g4 A04 eq_refl eq_refl) as [F1 F2].
          split; [exact F1|]. split; [exact F2|]. intros; discriminate.
        * mstep as u5 g5 E5. unfold finish_root in E5. mstep as u6 g6 E6.
          apply emit_gen_facts in E6. destruct E6 as (H1 & H2 & H3 & H4 & H5 & H6 & _).
          unfold set_running in E5. inv E5. mstep.
          destruct (Fin g4 (g6 <| g_running := false |>) A04 H4 H6) as [F1 F2].
          split; [exact F1|]. split; [exact F2|]. intros; discriminate.
    - change (g_awaited (clear_log (sc_g s))) with (g_awaited (sc_g s)) in H.
      destruct (mem id (g_awaited (sc_g s))) eqn:Hm.
      + destruct (sc_root s) as [[|id'|cid i sti|sts|bb i sti|k i sti|sts]|] eqn:Hroot; try discriminate.
        match type of H with match ?X with _ => _ end = _ => destruct X as [[st g']| | |] eqn:E end;
          try discriminate. inv H.
        mstep as u1 g1 E1. unfold unawait in E1.
        change (g_awaited (clear_log (sc_g s))) with (g_awaited (sc_g s)) in E1.
        destruct (remove_first (Nat.eqb id) (g_awaited (sc_g s))) as [aw1|] eqn:R; [|discriminate].
        unfold set_awaited in E1. inv E1.
        destruct HI as [HF HN].
        destruct (remove_first_NoDup _ _ _ R HN) as (N1 & N2 & N3).
        set (g1 := clear_log (sc_g s) <| g_awaited := aw1 |>) in *.
        assert (I1 : AwInv g1).
        { split; [|exact N1]. apply Forall_forall. intros x Hx. rewrite Forall_forall in HF. apply HF, N3, Hx. }
        assert (Sid : spent id g1).
        { split; [|exact N2]. rewrite Forall_forall in HF. apply HF. apply mem_In. exact Hm. }
        assert (Old : forall id0, spent id0 (sc_g s) -> spent id0 g1).
        { intros id0 [S1 S2]. split; [exact S1|]. intro Hi. apply S2, N3, Hi. }
        mstep as r g2 E2. apply (proj1 (proj2 (deliver_aw orc imm f))) in E2.
        assert (Fin : forall gy, g_sid gy = g_sid g2 -> g_awaited gy = g_awaited g2 ->
                                 AwInv gy /\ (forall id0, spent id0 (sc_g s) -> spent id0 gy) /\ spent id gy).
        { intros gy Y1 Y2. destruct E2 as [R1 R2]. destruct (R2 I1) as [[F1 F2] M].
          split; [unfold AwInv; rewrite Y1, Y2; split; assumption|]. split.
          - intros id0 Hs. destruct (AwR_spent _ _ _ (conj R1 R2) I1 (Old _ Hs)) as [_ [S1 S2]].
            unfold spent. rewrite Y1, Y2. split; assumption.
          - destruct (AwR_spent _ _ _ (conj R1 R2) I1 Sid) as [_ [S1 S2]].
            unfold spent. rewrite Y1, Y2. split; assumption. }
        destruct r as [[[j st']|]|]; [| |discriminate].
        * mstep. destruct (Fin g2 eq_refl eq_refl) as (F1 & F2 & F3).
          split; [exact F1|]. split; [exact F2|]. intros id0 Heq _. inv Heq. exact F3.
        * mstep as u5 g5 E5. unfold finish_root in E5. mstep as u6 g6 E6.
          apply emit_gen_facts in E6. destruct E6 as (H1 & H2 & H3 & H4 & H5 & H6 & _).
          unfold set_running in E5. inv E5. mstep.
          destruct (Fin (g6 <| g_running := false |>) H4 H6) as (F1 & F2 & F3).
          split; [exact F1|]. split; [exact F2|]. intros id0 Heq _. inv Heq. exact F3.
      + inv H. destruct (Q (clear_log (sc_g s)) eq_refl eq_refl) as [Q1 Q2].
        split; [exact Q1|]. split; [exact Q2|]. intros; discriminate.
    - inv H. destruct (Q (clear_log (sc_g s)) eq_refl eq_refl) as [Q1 Q2].
      split; [exact Q1|]. split; [exact Q2|]. intros; discriminate.
    - destruct (existsb _ (g_ls (clear_log (sc_g s)))); inv H;
        (match goal with |- AwInv ?g0 /\ _ => destruct (Q g0 eq_refl eq_refl) as [Q1 Q2] end;
         split; [exact Q1|]; split; [exact Q2|]; intros; discriminate).
    - inv H. match goal with |- AwInv ?g0 /\ _ => destruct (Q g0 eq_refl eq_refl) as [Q1 Q2] end.
      split; [exact Q1|]. split; [exact Q2|]. intros; discriminate.
    - destruct (remove_first (Nat.eqb o) (g_obs (clear_log (sc_g s)))); [|discriminate]. inv H.
      match goal with |- AwInv ?g0 /\ _ => destruct (Q g0 eq_refl eq_refl) as [Q1 Q2] end.
      split; [exact Q1|]. split; [exact Q2|]. intros; discriminate.
  Qed.

  (* in every history, after a completion has been accepted, every later report of the same
     identifier is rejected *)
  Fixpoint none_accepted (id : nat) (cs : list apicall) (tr : list callrec) : Prop :=
    match cs, tr with
    | c :: cs', r :: tr' => (c = AFinish id -> cr_ret r = false) /\ none_accepted id cs' tr'
    | _, _ => True
    end.

  Lemma spent_rejected : forall f cs s id tr,
      AwInv (sc_g s) -> spent id (sc_g s) ->
      run_script orc imm f body s cs = Ok tr -> none_accepted id cs tr.
  Proof.
    intros f cs. induction cs as [|c cs IH]; intros s id tr HI HS H; cbn [run_script] in H.
    - inv H. exact I.
    - destruct (api_call orc imm f body s c) as [[b s']| | |] eqn:E; try discriminate.
      cbn [rbind] in H.
      destruct (run_script orc imm f body s' cs) as [t| | |] eqn:E2; try discriminate.
      cbn [rbind] in H. inv H.
      destruct (api_aw _ _ _ _ _ HI E) as (A1 & A2 & A3).
      cbn [none_accepted]. split.
      + intros ->. cbn [observe cr_ret]. destruct b; [|reflexivity]. exfalso.
        pose proof (accepted_was_awaited orc imm body _ _ _ _ E) as Hm. apply mem_In in Hm.
        destruct HS as [_ HS]. exact (HS Hm).
      + eapply IH; [exact A1|apply A2; exact HS|exact E2].
  Qed.

  Fixpoint once_run (cs : list apicall) (tr : list callrec) : Prop :=
    match cs, tr with
    | c :: cs', r :: tr' =>
      (forall id, c = AFinish id -> cr_ret r = true -> none_accepted id cs' tr') /\ once_run cs' tr'
    | _, _ => True
    end.

  Theorem accepted_at_most_once : forall f cs s tr,
      AwInv (sc_g s) -> run_script orc imm f body s cs = Ok tr -> once_run cs tr.
  Proof.
    intros f cs. induction cs as [|c cs IH]; intros s tr HI H; cbn [run_script] in H.
    - inv H. exact I.
    - destruct (api_call orc imm f body s c) as [[b s']| | |] eqn:E; try discriminate.
      cbn [rbind] in H.
      destruct (run_script orc imm f body s' cs) as [t| | |] eqn:E2; try discriminate.
      cbn [rbind] in H. inv H.
      destruct (api_aw _ _ _ _ _ HI E) as (A1 & A2 & A3).
      cbn [once_run]. split.
      + intros id -> Hb. cbn [observe cr_ret] in Hb. subst b.
        eapply spent_rejected; [exact A1|apply (A3 id eq_refl eq_refl)|exact E2].
      + eapply IH; eassumption.
  Qed.

  Lemma AwInv_sched0 : AwInv (sc_g sched0).
  Proof. split; constructor. Qed.
End OnceApi.
