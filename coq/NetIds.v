(* NetIds.v — identifiers (C14) and delivered parameter lists (C15) on the FAITHFUL model
   (NetModel.v).

   0. Elementary facts about identifiers ([ident_nat_ITest_inj], [new_test_or_uuid_test]).
   1. A second frame rule ([wframe], [wframe_generate], [wframe_block]): like NetQuiescent's
      [frame_block], but the relation only has to respect the updates the mechanism REALLY
      performs on API objects (identifier and delivered list) and on the log (entries that are
      not notifications; the notification entries are a separate obligation [wnotif]).  This
      is what relations that talk about the log or about fields of API objects need.
   2. C14, test-id mode: what a computation adds to the log are started notifications TO
      FUNCTION 0 whose identifiers come from the counter range of that computation, without
      repetition ([IdN]); every function of the mutual block respects it ([ids_block]; the
      notification loop has its own specification [nu_spec], the start handlers are split into
      prefix and notification: [ots_prefix], [oss_prefix]) -- for every environment (re-entrant
      completions, immediate completions, hostile mutation) and with run-time generation --;
      then the API and scripts ([net_api_ids], [net_ranged], [net_ids_unique],
      [net_ids_positions], [net_ids_pairwise], [run_net_ids_unique]); hypothesis [ApiInv]
      (test-id mode, no pair registered twice), established by the constructor
      ([net_init_inv]) and kept by every call.  Non-vacuity: [ids_inhabited],
      [ids_inhabited_reentrant].
      The statement is FALSE for a second registered function and for the observers' log
      entry ([second_listener_duplicates], [unique_for_all_functions_false],
      [observer_duplicates]): the one mutable API object is handed to every callback, and a
      completion sent from inside function 0's notification restarts it before the next
      callback sees it.
   3. C15: (a) the source parameter list and the static fields of every API object are never
      written ([src_block], [api_call_static], [source_never_modified]); (b) for an in-loop
      instance the delivered list is rebuilt from the source at every start, whatever it
      contained before ([on_task_started_rebuilds], [on_service_started_rebuilds]: EQUAL
      results, both identifier modes); (c) instances outside loops: delivered as is
      ([ots_prefix_nonloop], [oss_prefix_nonloop]); (d) the hostile engine writes the list of the
      notified instance only ([er_body_writes], [engine_reacts_writes],
      [er_body_other_instance]); (e) the start of one instance reads nothing of another
      instance's delivered list ([ots_prefix_other], [oss_prefix_other]).  Non-vacuity:
      [rebuild_inhabited].
   Proof file. *)
From PFDL Require Import Examples.
From PFDL Require Import NetModel NetRun NetC08 NetQuiescent.
Local Open Scope net_scope.

(* =========================================================================== *)
(* 0. elementary facts                                                           *)
(* =========================================================================== *)

Lemma ident_nat_ITest_inj : forall a b, ident_nat (ITest a) = ident_nat (ITest b) -> a = b.
Proof. intros a b H. exact H. Qed.

(* in test-id mode the identifier handed out is the old counter value, and the counter of
   that kind (and nothing else) is incremented *)
Lemma new_test_or_uuid_test : forall b s,
    ns_test_ids s = true ->
    new_test_or_uuid b s =
    Ok (ITest (if b then ns_tid s else ns_sid s),
        if b then s <| ns_tid := S (ns_tid s) |> else s <| ns_sid := S (ns_sid s) |>).
Proof.
  intros b s H. unfold new_test_or_uuid, nbind, nget. rewrite H. destruct b; reflexivity.
Qed.

(* in UUID mode it is a fresh identifier *)
Lemma new_test_or_uuid_uuid : forall b s,
    ns_test_ids s = false ->
    new_test_or_uuid b s = Ok (IUuid (ns_fresh s), s <| ns_fresh := S (ns_fresh s) |>).
Proof.
  intros b s H. unfold new_test_or_uuid, nbind, nget. rewrite H. reflexivity.
Qed.

(* =========================================================================== *)
(* 1. the second frame rule                                                      *)
(* =========================================================================== *)

(* log entries that are not notifications *)
Definition quietb (es : list entry) : bool :=
  forallb (fun e => match e with ENotif _ _ _ => false | _ => true end) es.

Lemma quietb_queries : forall c vs, quietb (map (fun v => EQuery v c) vs) = true.
Proof. intros c vs. induction vs as [|v vs IH]; [reflexivity|exact IH]. Qed.

Lemma quietb_obs : forall k nm id b os, quietb (map (fun o => EObs o k nm id b) os) = true.
Proof. intros k nm id b os. induction os as [|o os IH]; [reflexivity|exact IH]. Qed.

Record wframe (R : NS -> NS -> Prop) : Prop := {
  w_refl : forall s, R s s;
  w_trans : forall a b c, R a b -> R b c -> R a c;
  w_cbs : forall s index f, R s (s <| ns_cbs := upd index f (ns_cbs s) |>);
  w_fresh_uuid : fpres R fresh_uuid;
  (* the only two updates of API objects in the mechanism *)
  w_set_uuid : forall i u, fpres R (set_api i (with_uuid u));
  w_set_params : forall i ps, fpres R (set_api i (with_params ps));
  w_place_dict : forall s u p, R s (s <| ns_place_dict := (u, p) :: ns_place_dict s |>);
  w_tid : forall s, R s (s <| ns_tid := S (ns_tid s) |>);
  w_sid : forall s, R s (s <| ns_sid := S (ns_sid s) |>);
  (* log entries other than notifications *)
  w_log : forall es, quietb es = true -> fpres R (nlog es);
  w_counters : forall s v, R s (s <| ns_counters := v |>);
  w_q : forall s v, R s (s <| ns_q := v |>);
  w_awaited : forall s v, R s (s <| ns_awaited := v |>);
  w_running : forall s v, R s (s <| ns_running := v |>);
  w_pending : forall s v, R s (s <| ns_pending := v |>);
  w_nss : forall s, R s (s <| ns_nss := S (ns_nss s) |>);
  w_nnot : forall s, R s (s <| ns_nnot := S (ns_nnot s) |>);
  (* the net *)
  w_create_place : fpres R create_place;
  w_create_transition : fpres R create_transition;
  w_add_input : forall p t, fpres R (add_input p t);
  w_add_output : forall p t, fpres R (add_output p t);
  w_add_callback : forall t c, fpres R (add_callback t c);
  w_place_add : forall p, fpres R (place_add p);
  w_fire_trans : forall t, fpres R (fire_trans t);
  w_remove_place : forall p, fpres R (remove_place p);
  w_new_api : forall a, fpres R (new_api a);
  (* generate_petri_net only *)
  w_start_final : forall s p q, R s (s <| ns_start_place := p |> <| ns_final_place := q |>)
}.

(* the notification entries *)
Definition wnotif (R : NS -> NS -> Prop) : Prop := forall l n r, fpres R (nlog [ENotif l n r]).

Section WCombinators.
  Variable R : NS -> NS -> Prop.
  Variable W : wframe R.

  Lemma wp_ext : forall A (m m' : NM A), (forall s, m s = m' s) -> fpres R m' -> fpres R m.
  Proof. intros A m m' E H s a s' H1. rewrite E in H1. eauto. Qed.
  Lemma wp_ret : forall A (a : A), fpres R (nret a).
  Proof. intros A a s a' s' H. inversion H. apply (w_refl R W). Qed.
  Lemma wp_get : fpres R nget.
  Proof. intros s a s' H. inversion H. apply (w_refl R W). Qed.
  Lemma wp_fail : forall A (r : res A), fpres R (nfail r).
  Proof. intros A r s a s' H. unfold nfail in H. destruct r; inversion H. apply (w_refl R W). Qed.
  Lemma wp_bind : forall A B (m : NM A) (k : A -> NM B),
      fpres R m -> (forall a, fpres R (k a)) -> fpres R (nbind m k).
  Proof.
    intros A B m k Hm Hk s b s' H. apply nbind_inv in H. destruct H as (a & s1 & H1 & H2).
    eapply (w_trans R W); [eapply Hm|eapply Hk]; eauto.
  Qed.
  Lemma wp_mod : forall f, (forall s, R s (f s)) -> fpres R (nmod f).
  Proof. intros f Hf s a s' H. inversion H. apply Hf. Qed.
  Lemma wp_nfor : forall A (l : list A) f, (forall x, fpres R (f x)) -> fpres R (nfor l f).
  Proof.
    intros A l f Hf. induction l as [|x l IH]; cbn [nfor].
    - apply wp_ret.
    - apply wp_bind; auto.
  Qed.
  Lemma wp_get_api : forall i, fpres R (get_api i).
  Proof.
    intros i s a s' H. unfold get_api in H. destruct (nth_error (ns_apis s) i); inversion H.
    apply (w_refl R W).
  Qed.
End WCombinators.

Ltac wp_step W :=
  match goal with
  | |- fpres _ (nbind _ _) => apply (wp_bind _ W); [| intro]
  | |- fpres _ (nret _) => apply (wp_ret _ W)
  | |- fpres _ nget => apply (wp_get _ W)
  | |- fpres _ (nfail _) => apply (wp_fail _ W)
  | |- fpres _ (get_api _) => apply (wp_get_api _ W)
  | |- fpres _ (nfor _ _) => apply (wp_nfor _ W); intro
  | |- fpres _ (nmod _) =>
    apply wp_mod; intro; cbv beta;
    first [ apply (w_cbs _ W) | apply (w_place_dict _ W) | apply (w_tid _ W) | apply (w_sid _ W)
          | apply (w_counters _ W) | apply (w_q _ W) | apply (w_awaited _ W) | apply (w_running _ W)
          | apply (w_pending _ W) | apply (w_nss _ W) | apply (w_nnot _ W)
          | apply (w_start_final _ W) ]
  | |- fpres _ fresh_uuid => apply (w_fresh_uuid _ W)
  | |- fpres _ (set_api _ (with_uuid _)) => apply (w_set_uuid _ W)
  | |- fpres _ (set_api _ (with_params _)) => apply (w_set_params _ W)
  | |- fpres _ (nlog _) =>
    apply (w_log _ W); first [reflexivity | apply quietb_queries | apply quietb_obs]
  | |- fpres _ create_place => apply (w_create_place _ W)
  | |- fpres _ create_transition => apply (w_create_transition _ W)
  | |- fpres _ (add_input _ _) => apply (w_add_input _ W)
  | |- fpres _ (add_output _ _) => apply (w_add_output _ W)
  | |- fpres _ (add_callback _ _) => apply (w_add_callback _ W)
  | |- fpres _ (place_add _) => apply (w_place_add _ W)
  | |- fpres _ (fire_trans _) => apply (w_fire_trans _ W)
  | |- fpres _ (remove_place _) => apply (w_remove_place _ W)
  | |- fpres _ (new_api _) => apply (w_new_api _ W)
  | |- fpres _ (if ?b then _ else _) => destruct b
  | |- fpres _ (match ?x with _ => _ end) => destruct x
  | |- fpres _ _ => solve [auto with wpres]
  end.
Ltac wp_tac W := cbv zeta; repeat (wp_step W).

Create HintDb wpres.

Section WFrame.
  Variable R : NS -> NS -> Prop.
  Variable W : wframe R.
  Variable tasks : list task.
  Variable env : envcfg.

  Lemma wp_pop_cb : forall i, fpres R (pop_cb i).
  Proof. intros. unfold pop_cb. wp_tac W. Qed.
  Lemma wp_set_counters : forall u d, fpres R (set_counters u d).
  Proof. intros. unfold set_counters. wp_tac W. Qed.
  Lemma wp_new_test_or_uuid : forall b, fpres R (new_test_or_uuid b).
  Proof. intro b. unfold new_test_or_uuid. wp_tac W. Qed.
  Hint Resolve wp_pop_cb wp_set_counters wp_new_test_or_uuid : wpres.
  Lemma wp_substitute_loop_indexes : forall ai, fpres R (substitute_loop_indexes tasks ai).
  Proof. intro ai. unfold substitute_loop_indexes. wp_tac W. Qed.
  Lemma wp_get_loop_limit : forall lim ctx, fpres R (get_loop_limit env lim ctx).
  Proof. intros. unfold get_loop_limit. wp_tac W. Qed.
  Lemma wp_check_expression : forall e ctx, fpres R (check_expression env e ctx).
  Proof. intros. unfold check_expression. wp_tac W. Qed.
  Lemma wp_rebind_uuid : forall a ai u, fpres R (rebind_uuid a ai u).
  Proof. intros. unfold rebind_uuid. wp_tac W. Qed.
  Hint Resolve wp_substitute_loop_indexes wp_get_loop_limit wp_check_expression wp_rebind_uuid : wpres.

  Lemma wp_each_with : forall rc index, (forall c, fpres R (rc c)) ->
      forall h i, fpres R (each_with rc index h i).
  Proof.
    intros rc index Hrc. induction h as [|h IH]; intro i.
    - cbn [each_with]. wp_tac W.
    - cbn [each_with]. fold (each_with rc index). wp_tac W.
  Qed.
  Hint Resolve wp_each_with : wpres.

  (* ---- the generator ---- *)
  Lemma wp_generate_service : forall n ins at_ ctx t1 t2 il,
      fpres R (generate_service n ins at_ ctx t1 t2 il).
  Proof. intros. unfold generate_service. wp_tac W. Qed.
  Lemma wp_generate_empty_parallel_loop : forall t1 t2, fpres R (generate_empty_parallel_loop t1 t2).
  Proof. intros. unfold generate_empty_parallel_loop. wp_tac W. Qed.
  Hint Resolve wp_generate_service wp_generate_empty_parallel_loop : wpres.

  Lemma wp_gen_go : forall gs n ctx tn pre first last il,
      (forall ctx tn path s t1 t2 il, fpres R (gs ctx tn path s t1 t2 il)) ->
      forall l i prev acc, fpres R (gen_go gs n ctx tn pre first last il i l prev acc).
  Proof.
    intros gs n ctx tn pre first last il Hgs. induction l as [|s r IH]; intros i prev acc.
    - cbn [gen_go]. wp_tac W.
    - cbn [gen_go]. fold (gen_go gs n ctx tn pre first last il). wp_tac W.
  Qed.

  Lemma wp_gen_calls : forall gtc ctx tn path t1 sync il,
      (forall c at_ ctx t1 t2 il, fpres R (gtc c at_ ctx t1 t2 il)) ->
      forall l i, fpres R (gen_calls gtc ctx tn path t1 sync il i l).
  Proof.
    intros gtc ctx tn path t1 sync il Hg. induction l as [|c r IH]; intro i.
    - cbn [gen_calls]. wp_tac W.
    - cbn [gen_calls]. fold (gen_calls gtc ctx tn path t1 sync il). wp_tac W.
  Qed.
  Hint Resolve wp_gen_go wp_gen_calls : wpres.

  Lemma wp_gstmt_body : forall gss gtc,
      (forall ctx tn pre ss first last il, fpres R (gss ctx tn pre ss first last il)) ->
      (forall c at_ ctx t1 t2 il, fpres R (gtc c at_ ctx t1 t2 il)) ->
      forall ctx tn path s t1 t2 il, fpres R (gstmt_body gss gtc ctx tn path s t1 t2 il).
  Proof.
    intros gss gtc H1 H2 ctx tn path s t1 t2 il. unfold gstmt_body. wp_tac W.
  Qed.

  Lemma wp_gtc_body : forall gss,
      (forall ctx tn pre ss first last il, fpres R (gss ctx tn pre ss first last il)) ->
      forall c at_ ctx t1 t2 il, fpres R (gtc_body tasks gss c at_ ctx t1 t2 il).
  Proof. intros gss H1 c at_ ctx t1 t2 il. unfold gtc_body. wp_tac W. Qed.

  Theorem wframe_generate : forall f,
      (forall ctx tn pre ss first last il, fpres R (generate_statements tasks f ctx tn pre ss first last il)) /\
      (forall ctx tn path s t1 t2 il, fpres R (generate_stmt tasks f ctx tn path s t1 t2 il)) /\
      (forall c at_ ctx t1 t2 il, fpres R (generate_task_call tasks f c at_ ctx t1 t2 il)).
  Proof.
    induction f as [|f (IH1 & IH2 & IH3)].
    - split; [|split]; intros; intros ? ? ? HH; discriminate HH.
    - split; [|split]; intros.
      + eapply wp_ext; [intro; apply generate_statements_S|]. apply wp_gen_go. exact IH2.
      + eapply wp_ext; [intro; apply generate_stmt_S|]. apply wp_gstmt_body; assumption.
      + eapply wp_ext; [intro; apply generate_task_call_S|]. apply wp_gtc_body; assumption.
  Qed.

  Lemma wp_generate_petri_net : forall f, fpres R (generate_petri_net tasks f).
  Proof.
    intro f. unfold generate_petri_net.
    pose proof (proj1 (wframe_generate f)) as Hg.
    wp_tac W.
  Qed.

  (* ---- the scheduler block: everything except the notification entries ---- *)
  Lemma wp_parloop_generate : forall v lim ctx c csite ph t1 t2,
      fpres R (parloop_generate tasks env v lim ctx c csite ph t1 t2).
  Proof.
    intros. unfold parloop_generate.
    pose proof (proj2 (proj2 (wframe_generate 200))) as Hg.
    wp_tac W.
  Qed.
  Hint Resolve wp_parloop_generate : wpres.

  Lemma wp_scan_with : forall rc snap, (forall c, fpres R (rc c)) ->
      forall g index, fpres R (scan_with rc snap g index).
  Proof.
    intros rc snap Hrc. induction g as [|g IH]; intro index.
    - cbn [scan_with]. wp_tac W.
    - cbn [scan_with]. fold (scan_with rc snap). wp_tac W.
  Qed.

  Lemma wp_run_cb_body : forall ev_ ots otf oss osf sfe,
      fpres R ev_ -> (forall a, fpres R (ots a)) -> (forall a, fpres R (otf a)) ->
      (forall a, fpres R (oss a)) -> (forall a, fpres R (osf a)) -> (forall e, fpres R (sfe e)) ->
      forall c, fpres R (run_cb_body tasks env ev_ ots otf oss osf sfe c).
  Proof.
    intros ev_ ots otf oss osf sfe H1 H2 H3 H4 H5 H6 c.
    destruct c; cbn [run_cb_body]; unfold await_and_fire; try solve [wp_tac W].
    apply wp_ext with (m' := parloop_generate tasks env v lim ctx c csite ph t1 t2 ;;~ ev_);
      [intro; apply parloop_then_eq|]. wp_tac W.
  Qed.

  Lemma wp_lfe_body : forall ev_, fpres R ev_ -> forall ev, fpres R (lfe_body ev_ ev).
  Proof. intros ev_ H ev. unfold lfe_body. wp_tac W. Qed.
  Lemma wp_sfe_body : forall lfe, (forall e, fpres R (lfe e)) -> forall ev, fpres R (sfe_body lfe ev).
  Proof. intros lfe H ev. unfold sfe_body. wp_tac W. Qed.
  Lemma wp_er_body : forall sfe, (forall e, fpres R (sfe e)) -> forall k ai, fpres R (er_body env sfe k ai).
  Proof. intros sfe H k ai. unfold er_body. wp_tac W. Qed.
  Lemma wp_otf_body : forall nu, (forall a b, fpres R (nu TF a b)) -> forall ai, fpres R (otf_body nu ai).
  Proof. intros nu H ai. unfold otf_body. wp_tac W. Qed.

  (* what notify_user does after the registered functions *)
  Definition nu_tail (k : nkind) (ai : nat) (order_finished : bool) : NM unit :=
    (if order_finished then nmod (fun s => s <| ns_running := false |>) else nret tt) ;;~
    a <~ get_api ai ;;
    s <~ nget ;;
    nlog (map (fun o => EObs o k (a_name a) (ident_nat (a_uuid a)) order_finished) (ns_obs s)).
  Lemma wp_nu_tail : forall k ai b, fpres R (nu_tail k ai b).
  Proof. intros. unfold nu_tail. wp_tac W. Qed.

  (* ---- with the notification entries ---- *)
  Variable WN : wnotif R.

  Lemma wp_notify_each : forall er k ai, (forall k a, fpres R (er k a)) ->
      forall h i, fpres R (notify_each er k ai h i).
  Proof.
    intros er k ai Her. induction h as [|h IH]; intro i.
    - cbn [notify_each]. wp_tac W.
    - cbn [notify_each]. fold (notify_each er k ai).
      apply (wp_bind _ W); [wp_tac W|intro s0].
      destruct (nth_error (listeners_of k (ns_ls s0)) i) as [l|]; [|wp_tac W].
      apply (wp_bind _ W); [wp_tac W|intro a].
      apply (wp_bind _ W); [apply WN|intro].
      wp_tac W.
  Qed.
  Hint Resolve wp_notify_each : wpres.
  Lemma wp_nu_body : forall er, (forall k a, fpres R (er k a)) -> forall k ai b, fpres R (nu_body er k ai b).
  Proof. intros er H k ai b. unfold nu_body. wp_tac W. Qed.
  Lemma wp_ots_body : forall nu, (forall k a b, fpres R (nu k a b)) -> forall ai, fpres R (ots_body tasks nu ai).
  Proof. intros nu H ai. unfold ots_body. wp_tac W. Qed.
  Lemma wp_oss_body : forall nu, (forall k a b, fpres R (nu k a b)) -> forall ai, fpres R (oss_body tasks nu ai).
  Proof. intros nu H ai. unfold oss_body. fold (rebind_uuid). wp_tac W. Qed.

  Theorem wframe_block : forall f,
      fpres R (evaluate tasks env f) /\
      (forall c, fpres R (run_cb tasks env f c)) /\
      (forall a, fpres R (on_task_started tasks env f a)) /\
      (forall a, fpres R (on_service_started tasks env f a)) /\
      (forall a, fpres R (on_service_finished tasks env f a)) /\
      (forall a, fpres R (on_task_finished tasks env f a)) /\
      (forall k a b, fpres R (notify_user tasks env f k a b)) /\
      (forall k a, fpres R (engine_reacts tasks env f k a)) /\
      (forall ev, fpres R (sched_fire_event tasks env f ev)) /\
      (forall ev, fpres R (logic_fire_event tasks env f ev)).
  Proof.
    induction f as [|f (I1 & I2 & I3 & I4 & I5 & I6 & I7 & I8 & I9 & I10)].
    - repeat (split; [intros; intros ? ? ? HH; discriminate HH|]). intros; intros ? ? ? HH; discriminate HH.
    - split; [|split; [|split; [|split; [|split; [|split; [|split; [|split; [|split]]]]]]]]; intros.
      + intros s a s' HH. rewrite evaluate_S in HH. eapply wp_scan_with; eauto.
      + eapply wp_ext; [intro; apply run_cb_S|]. apply wp_run_cb_body; assumption.
      + eapply wp_ext; [intro; apply on_task_started_S|]. apply wp_ots_body; assumption.
      + eapply wp_ext; [intro; apply on_service_started_S|]. apply wp_oss_body; assumption.
      + eapply wp_ext; [intro; apply on_service_finished_S|]. apply I7.
      + eapply wp_ext; [intro; apply on_task_finished_S|]. apply wp_otf_body; intros; apply I7.
      + eapply wp_ext; [intro; apply notify_user_S|]. apply wp_nu_body; assumption.
      + eapply wp_ext; [intro; apply engine_reacts_S|]. apply wp_er_body; assumption.
      + eapply wp_ext; [intro; apply sched_fire_event_S'|]. apply wp_sfe_body; assumption.
      + eapply wp_ext; [intro; apply logic_fire_event_S|]. apply wp_lfe_body; assumption.
  Qed.
End WFrame.

Arguments wframe_generate {R} W tasks f.
Arguments wframe_block {R} W tasks env WN f.
Arguments wp_generate_petri_net {R} W tasks f.

(* small tools for running the monad backwards *)
Tactic Notation "ninv" hyp(H) "as" ident(a) ident(s) ident(E) :=
  apply nbind_inv in H; destruct H as (a & s & E & H).
Ltac okinv H := inversion H; subst; clear H.

Lemma get_api_inv : forall i s a s', get_api i s = Ok (a, s') -> s' = s /\ nth_error (ns_apis s) i = Some a.
Proof.
  intros i s a s' H. unfold get_api in H. destruct (nth_error (ns_apis s) i); inversion H; auto.
Qed.

(* =========================================================================== *)
(* 2. C14 on the faithful model, test-id mode                                    *)
(* =========================================================================== *)

(* the identifiers of the started notifications of kind k delivered to FUNCTION 0 *)
Definition sid_of (k : nkind) (e : entry) : list nat :=
  match e with
  | ENotif O n _ => if nkind_eqb (n_kind n) k then [n_id n] else []
  | _ => []
  end.
Definition sids (k : nkind) (es : list entry) : list nat := flat_map (sid_of k) es.

Lemma sids_app : forall k a b, sids k (a ++ b) = sids k a ++ sids k b.
Proof. intros. unfold sids. apply flat_map_app. Qed.

Lemma sid_of_short : forall k e, rev (sid_of k e) = sid_of k e.
Proof. intros k [[|l] n r| | | |]; cbn; try reflexivity. destruct (nkind_eqb (n_kind n) k); reflexivity. Qed.

Lemma sids_rev : forall k es, sids k (rev es) = rev (sids k es).
Proof.
  intros k es. induction es as [|e es IH]; [reflexivity|].
  cbn [rev]. rewrite sids_app, IH. unfold sids at 2 3. cbn [flat_map]. rewrite app_nil_r, rev_app_distr, sid_of_short.
  reflexivity.
Qed.

Lemma sids_quiet : forall k es, quietb es = true -> sids k es = [].
Proof.
  intros k es. induction es as [|e es IH]; intro H; [reflexivity|].
  cbn in H. apply andb_true_iff in H. destruct H as [H1 H2]. unfold sids. cbn [flat_map].
  fold (sids k es). rewrite (IH H2). destruct e; try discriminate H1; reflexivity.
Qed.

Lemma quietb_rev : forall es, quietb (rev es) = quietb es.
Proof.
  intro es. unfold quietb. induction es as [|e es IH]; [reflexivity|].
  cbn [rev]. rewrite forallb_app, IH. cbn. rewrite andb_true_r. apply andb_comm.
Qed.

(* what a computation adds at the head of the log: started notifications to function 0 carry
   pairwise different identifiers from [lt, ns_tid s') resp. [ls, ns_sid s') *)
Definition IdB (lt ls : nat) (s s' : NS) : Prop :=
  ns_test_ids s' = ns_test_ids s /\ ns_ls s' = ns_ls s /\
  ns_tid s <= ns_tid s' /\ ns_sid s <= ns_sid s' /\
  lt <= ns_tid s /\ ls <= ns_sid s /\
  exists new, ns_log s' = new ++ ns_log s /\
    NoDup (sids TS new) /\ NoDup (sids SS new) /\
    (forall x, In x (sids TS new) -> lt <= x < ns_tid s') /\
    (forall x, In x (sids SS new) -> ls <= x < ns_sid s').

(* the identifiers come from the counter range of the computation itself *)
Definition IdN (s s' : NS) : Prop := IdB (ns_tid s) (ns_sid s) s s'.

Lemma NoDup_app_ranges : forall (l1 l2 : list nat) lo mid hi,
    NoDup l1 -> NoDup l2 ->
    (forall x, In x l1 -> mid <= x < hi) -> (forall x, In x l2 -> lo <= x < mid) ->
    NoDup (l1 ++ l2).
Proof.
  intros l1 l2 lo mid hi N1 N2 H1 H2. induction N1 as [|x l1 Hx N1 IH]; [exact N2|].
  cbn. constructor.
  - intro Hi. apply in_app_iff in Hi. destruct Hi as [Hi|Hi]; [exact (Hx Hi)|].
    specialize (H1 x (or_introl eq_refl)). specialize (H2 x Hi). lia.
  - apply IH. intros y Hy. apply H1. right. exact Hy.
Qed.

Lemma IdN_refl : forall s, IdN s s.
Proof.
  intro s. unfold IdN, IdB. repeat (split; [first [reflexivity | lia]|]).
  exists []. cbn. split; [reflexivity|]. split; [constructor|]. split; [constructor|].
  split; intros x [].
Qed.

Lemma IdB_refl_low : forall lt ls s, lt <= ns_tid s -> ls <= ns_sid s -> IdB lt ls s s.
Proof.
  intros lt ls s H1 H2. unfold IdB. repeat (split; [first [reflexivity | lia]|]).
  exists []. cbn. split; [reflexivity|]. split; [constructor|]. split; [constructor|].
  split; intros x [].
Qed.

Lemma IdB_IdN_trans : forall lt ls a b c, IdB lt ls a b -> IdN b c -> IdB lt ls a c.
Proof.
  intros lt ls a b c (A1 & A2 & A3 & A4 & A5 & A6 & n1 & A7 & A8 & A9 & A10 & A11)
         (B1 & B2 & B3 & B4 & _ & _ & n2 & B7 & B8 & B9 & B10 & B11).
  unfold IdB. repeat (split; [first [congruence | lia]|]).
  exists (n2 ++ n1). split; [rewrite B7, A7, app_assoc; reflexivity|]. rewrite !sids_app.
  split; [eapply NoDup_app_ranges; eauto|]. split; [eapply NoDup_app_ranges; eauto|].
  split; intros x Hx; apply in_app_iff in Hx; destruct Hx as [Hx|Hx].
  - specialize (B10 x Hx). lia.
  - specialize (A10 x Hx). lia.
  - specialize (B11 x Hx). lia.
  - specialize (A11 x Hx). lia.
Qed.

Lemma IdN_trans : forall a b c, IdN a b -> IdN b c -> IdN a c.
Proof. intros a b c H1 H2. exact (IdB_IdN_trans _ _ _ _ _ H1 H2). Qed.

(* a step that logs no started notification to function 0 *)
Lemma IdN_step : forall s s' es,
    ns_test_ids s' = ns_test_ids s -> ns_ls s' = ns_ls s ->
    ns_tid s <= ns_tid s' -> ns_sid s <= ns_sid s' ->
    ns_log s' = es ++ ns_log s -> sids TS es = [] -> sids SS es = [] -> IdN s s'.
Proof.
  intros s s' es H1 H2 H3 H4 H5 H6 H7. unfold IdN, IdB.
  repeat (split; [first [assumption | lia]|]). exists es. split; [exact H5|]. rewrite H6, H7.
  split; [constructor|]. split; [constructor|]. split; intros x [].
Qed.

(* earlier entries in front of a computation *)
Lemma IdB_prepend : forall lt ls lt1 ls1 s s1 s' es,
    ns_test_ids s1 = ns_test_ids s -> ns_ls s1 = ns_ls s -> ns_tid s1 = ns_tid s -> ns_sid s1 = ns_sid s ->
    ns_log s1 = es ++ ns_log s ->
    NoDup (sids TS es) -> NoDup (sids SS es) ->
    (forall x, In x (sids TS es) -> lt <= x < lt1) -> (forall x, In x (sids SS es) -> ls <= x < ls1) ->
    lt <= lt1 -> ls <= ls1 ->
    IdB lt1 ls1 s1 s' -> IdB lt ls s s'.
Proof.
  intros lt ls lt1 ls1 s s1 s' es H1 H2 H3 H4 H5 N1 N2 R1 R2 L1 L2
         (B1 & B2 & B3 & B4 & B5 & B6 & n2 & B7 & B8 & B9 & B10 & B11).
  unfold IdB. repeat (split; [first [congruence | lia]|]).
  exists (n2 ++ es). split; [rewrite B7, H5, app_assoc; reflexivity|]. rewrite !sids_app.
  split; [eapply NoDup_app_ranges; eauto|]. split; [eapply NoDup_app_ranges; eauto|].
  split; intros x Hx; apply in_app_iff in Hx; destruct Hx as [Hx|Hx].
  - specialize (B10 x Hx). lia.
  - specialize (R1 x Hx). lia.
  - specialize (B11 x Hx). lia.
  - specialize (R2 x Hx). lia.
Qed.

Lemma IdB_prepend_quiet : forall lt ls s s1 s' es,
    ns_test_ids s1 = ns_test_ids s -> ns_ls s1 = ns_ls s -> ns_tid s1 = ns_tid s -> ns_sid s1 = ns_sid s ->
    ns_log s1 = es ++ ns_log s -> sids TS es = [] -> sids SS es = [] ->
    IdB lt ls s1 s' -> IdB lt ls s s'.
Proof.
  intros lt ls s s1 s' es H1 H2 H3 H4 H5 Q1 Q2 H.
  eapply IdB_prepend with (es := es) (lt1 := lt) (ls1 := ls); try eassumption;
    rewrite ?Q1, ?Q2; try (intros x []); try apply le_n; constructor.
Qed.

(* the statement needs: test-id mode, and no function registered twice for a kind *)
Definition Good (s : NS) : Prop :=
  ns_test_ids s = true /\ forall k, NoDup (listeners_of k (ns_ls s)).

Definition IdC (s s' : NS) : Prop := Good s -> IdN s s'.

Lemma IdN_Good : forall lt ls s s', IdB lt ls s s' -> Good s -> Good s'.
Proof. intros lt ls s s' (H1 & H2 & _) [G1 G2]. split; [congruence|]. rewrite H2. exact G2. Qed.

Lemma IdC_refl : forall s, IdC s s.
Proof. intros s _. apply IdN_refl. Qed.
Lemma IdC_trans : forall a b c, IdC a b -> IdC b c -> IdC a c.
Proof.
  intros a b c H1 H2 G. specialize (H1 G). eapply IdN_trans; [exact H1|]. apply H2.
  eapply IdN_Good; eauto.
Qed.

Ltac IdC_prim :=
  intros; try (match goal with |- fpres _ _ => intros ? ? ? HH; inversion HH; subst; clear HH end);
  intros _; apply IdN_step with (es := []); cbn; auto with arith.

Theorem IdC_wframe : wframe IdC.
Proof.
  constructor; try solve [IdC_prim]; try exact IdC_refl; try exact IdC_trans.
  (* quiet log entries *)
  intros es Hq s a s' HH. inversion HH; subst; clear HH. intros _.
    apply IdN_step with (es := rev es); cbn; auto; apply sids_quiet; rewrite quietb_rev; exact Hq.
Qed.

(* ---- the identifier of one API object ---- *)
Definition uuid_at (ai : nat) (s : NS) : option ident := option_map a_uuid (nth_error (ns_apis s) ai).

(* nothing the statement talks about changes, and API object ai keeps its identifier *)
Definition KeepU (ai : nat) (s s' : NS) : Prop :=
  ns_test_ids s' = ns_test_ids s /\ ns_ls s' = ns_ls s /\ ns_tid s' = ns_tid s /\ ns_sid s' = ns_sid s /\
  ns_log s' = ns_log s /\ uuid_at ai s' = uuid_at ai s.

Lemma KeepU_refl : forall ai s, KeepU ai s s.
Proof. intros. unfold KeepU. repeat split. Qed.
Lemma KeepU_trans : forall ai a b c, KeepU ai a b -> KeepU ai b c -> KeepU ai a c.
Proof. unfold KeepU. intros ai a b c H1 H2. intuition congruence. Qed.

Lemma uuid_at_set_params : forall ai j ps s,
    uuid_at ai (s <| ns_apis := upd j (with_params ps) (ns_apis s) |>) = uuid_at ai s.
Proof.
  intros. unfold uuid_at. cbn. rewrite nth_error_upd. destruct (Nat.eqb j ai); [|reflexivity].
  destruct (nth_error (ns_apis s) ai); reflexivity.
Qed.

Lemma uuid_at_set_uuid : forall ai u s l a,
    nth_error l ai = Some a ->
    uuid_at ai (s <| ns_apis := upd ai (with_uuid u) l |>) = Some u.
Proof.
  intros ai u s l a H. unfold uuid_at. cbn. rewrite nth_error_upd, Nat.eqb_refl, H. reflexivity.
Qed.

Lemma KeepU_set_params : forall ai j ps s u s',
    set_api j (with_params ps) s = Ok (u, s') -> KeepU ai s s'.
Proof.
  intros ai j ps s u s' H. okinv H. unfold KeepU. repeat split. apply uuid_at_set_params.
Qed.

Lemma KeepU_substitute : forall tasks ai j s u s',
    substitute_loop_indexes tasks j s = Ok (u, s') -> KeepU ai s s'.
Proof.
  intros tasks ai j s u s' H. unfold substitute_loop_indexes in H.
  ninv H as a s1 E. apply get_api_inv in E. destruct E as [-> Ea].
  destruct (a_ctx a) as [ci|]; [|okinv H; apply KeepU_refl].
  ninv H as c s1 E. apply get_api_inv in E. destruct E as [-> Ec].
  ninv H as s0 s1 E. okinv E.
  destruct (dict_get ident_eqb (a_uuid c) (ns_counters s1)) as [d|]; [|okinv H; apply KeepU_refl].
  destruct (subst_all (current_counters' tasks d) [] (a_params a)) as [ps' cur'].
  ninv H as u1 s2 E. okinv E. okinv H. unfold KeepU. repeat split. cbn. apply uuid_at_set_params.
Qed.

Lemma skipn_nth : forall A (l : list A) i x, nth_error l i = Some x -> skipn i l = x :: skipn (S i) l.
Proof.
  intros A l. induction l as [|y l IH]; intros [|i] x H; try discriminate H.
  - inversion H. reflexivity.
  - cbn in H. cbn [skipn]. rewrite (IH _ _ H). reflexivity.
Qed.

(* the lower ends of the identifier ranges of a notification that is about to be delivered:
   for a started notification the identifier was drawn just before *)
Definition lowT (k : nkind) (s : NS) : nat := match k with TS => pred (ns_tid s) | _ => ns_tid s end.
Definition lowS (k : nkind) (s : NS) : nat := match k with SS => pred (ns_sid s) | _ => ns_sid s end.
Definition fresh_for (k : nkind) (ai : nat) (s : NS) : Prop :=
  forall a, nth_error (ns_apis s) ai = Some a ->
            match k with
            | TS => S (ident_nat (a_uuid a)) = ns_tid s
            | SS => S (ident_nat (a_uuid a)) = ns_sid s
            | _ => True
            end.

(* the start handlers up to the notification *)
Section Prefixes.
  Variable tasks : list task.

  Definition ots_prefix (ai : nat) : NM unit :=
    a <~ get_api ai ;;
    s <~ nget ;;
    (if a_in_loop a
     then
       u <~ new_test_or_uuid true ;;
       set_api ai (with_uuid u) ;;~
       (if a_has_call a then set_api ai (with_params (a_src a)) else nret tt) ;;~
       substitute_loop_indexes tasks ai
     else if ns_test_ids s
          then u <~ new_test_or_uuid true ;; set_api ai (with_uuid u)
          else nret tt).

  Lemma ots_body_split : forall nu ai s,
      ots_body tasks nu ai s = (ots_prefix ai ;;~ nu TS ai false) s.
  Proof.
    intros. unfold ots_body, ots_prefix. rewrite nbind_assoc. apply nbind_ext; intros a s1.
    rewrite nbind_assoc. reflexivity.
  Qed.

  Definition oss_prefix (ai : nat) : NM unit :=
    a <~ get_api ai ;;
    s <~ nget ;;
    (if a_in_loop a
     then
       u0 <~ fresh_uuid ;;
       u <~ (if ns_test_ids s then new_test_or_uuid false else nret u0) ;;
       rebind_uuid a ai u ;;~
       set_api ai (with_params (a_src a)) ;;~
       substitute_loop_indexes tasks ai
     else if ns_test_ids s
          then u <~ new_test_or_uuid false ;; rebind_uuid a ai u
          else nret tt).

  Definition oss_announce (nu : nkind -> nat -> bool -> NM unit) (ai : nat) : NM unit :=
    a' <~ get_api ai ;;
    nmod (fun s => s <| ns_awaited := ns_awaited s ++ [EvFinish (a_uuid a')] |>) ;;~
    nu SS ai false.

  Lemma oss_body_split : forall nu ai s,
      oss_body tasks nu ai s = (oss_prefix ai ;;~ oss_announce nu ai) s.
  Proof.
    intros. unfold oss_body, oss_prefix, oss_announce. rewrite nbind_assoc. apply nbind_ext; intros a s1.
    rewrite nbind_assoc. reflexivity.
  Qed.

  Definition started_state (task_kind : bool) (ai : nat) (s s1 : NS) : Prop :=
    ns_test_ids s1 = true /\ ns_ls s1 = ns_ls s /\ ns_log s1 = ns_log s /\
    ns_tid s1 = (if task_kind then S (ns_tid s) else ns_tid s) /\
    ns_sid s1 = (if task_kind then ns_sid s else S (ns_sid s)) /\
    uuid_at ai s1 = Some (ITest (if task_kind then ns_tid s else ns_sid s)).

  Lemma started_state_keep : forall b ai s s1 s2,
      started_state b ai s s1 -> KeepU ai s1 s2 -> started_state b ai s s2.
  Proof.
    intros b ai s s1 s2 (B1 & B2 & B3 & B4 & B5 & B6) (K1 & K2 & K3 & K4 & K5 & K6).
    unfold started_state. repeat (split; [congruence|]). congruence.
  Qed.

  (* test-id mode: the task instance gets the identifier ITest (old ns_tid) *)
  Lemma ots_prefix_test : forall ai s u s1,
      ots_prefix ai s = Ok (u, s1) -> ns_test_ids s = true -> started_state true ai s s1.
  Proof.
    intros ai s u s1 H T. unfold ots_prefix in H.
    ninv H as a s0 E. apply get_api_inv in E. destruct E as [-> Ea].
    ninv H as s0 s2 E. okinv E.
    assert (Q : started_state true ai s2
                              (s2 <| ns_tid := S (ns_tid s2) |>
                                  <| ns_apis := upd ai (with_uuid (ITest (ns_tid s2))) (ns_apis s2) |>)).
    { unfold started_state. cbn. repeat (split; [first [assumption|reflexivity]|]).
      eapply uuid_at_set_uuid. exact Ea. }
    destruct (a_in_loop a).
    - ninv H as u0 s3 E. rewrite (new_test_or_uuid_test true _ T) in E. okinv E.
      ninv H as u1 s3 E. okinv E.
      ninv H as u2 s3 E. eapply started_state_keep; [exact Q|].
      eapply KeepU_trans; [|eapply KeepU_substitute; exact H].
      destruct (a_has_call a); [eapply KeepU_set_params; exact E|okinv E; apply KeepU_refl].
    - rewrite T in H. ninv H as u0 s3 E. rewrite (new_test_or_uuid_test true _ T) in E. okinv E. okinv H.
      exact Q.
  Qed.

  Lemma rebind_started : forall a ai s s0 u1 s2,
      nth_error (ns_apis s) ai = Some a ->
      ns_apis s0 = ns_apis s -> ns_test_ids s0 = true -> ns_ls s0 = ns_ls s -> ns_log s0 = ns_log s ->
      ns_tid s0 = ns_tid s -> ns_sid s0 = S (ns_sid s) ->
      rebind_uuid a ai (ITest (ns_sid s)) s0 = Ok (u1, s2) ->
      started_state false ai s s2.
  Proof.
    intros a ai s s0 u1 s2 Ea A1 A2 A3 A4 A5 A6 HR. unfold rebind_uuid in HR.
    ninv HR as s3 s4 E. okinv E.
    destruct (dict_get ident_eqb (a_uuid a) (ns_place_dict s4)) as [p|]; [|discriminate HR].
    ninv HR as u2 s5 E. okinv E. okinv HR. unfold started_state. cbn. repeat (split; [assumption|]).
    eapply uuid_at_set_uuid. rewrite A1. exact Ea.
  Qed.

  (* test-id mode: the service instance gets the identifier ITest (old ns_sid) *)
  Lemma oss_prefix_test : forall ai s u s1,
      oss_prefix ai s = Ok (u, s1) -> ns_test_ids s = true -> started_state false ai s s1.
  Proof.
    intros ai s u s1 H T. unfold oss_prefix in H.
    ninv H as a s0 E. apply get_api_inv in E. destruct E as [-> Ea].
    ninv H as s0 s2 E. okinv E.
    destruct (a_in_loop a).
    - ninv H as u0 s3 E. okinv E. rewrite T in H.
      ninv H as u1 s3 E. rewrite new_test_or_uuid_test in E by exact T. okinv E.
      ninv H as u2 s3 E. eapply (rebind_started a ai s2) in E; try reflexivity; try assumption.
      ninv H as u3 s4 E0. eapply started_state_keep; [exact E|].
      eapply KeepU_trans; [eapply KeepU_set_params; exact E0|eapply KeepU_substitute; exact H].
    - rewrite T in H. ninv H as u0 s3 E. rewrite new_test_or_uuid_test in E by exact T. okinv E.
      eapply (rebind_started a ai s2) in H; try reflexivity; assumption.
  Qed.
End Prefixes.

Lemma fresh_for_started : forall b ai s s1,
    started_state b ai s s1 -> fresh_for (if b then TS else SS) ai s1.
Proof.
  intros b ai s s1 (B1 & B2 & B3 & B4 & B5 & B6) a Ha. unfold uuid_at in B6. rewrite Ha in B6.
  cbn in B6. inversion B6 as [B7]. destruct b; rewrite B7; cbn; congruence.
Qed.

Section IdsBlock.
  Variable tasks : list task.
  Variable env : envcfg.

  (* the registered functions behind function 0 (or when function 0 is not registered) *)
  Lemma notify_each_after : forall er k ai, (forall k a, fpres IdC (er k a)) ->
      forall h i s u s',
        notify_each er k ai h i s = Ok (u, s') -> Good s ->
        ~ In 0 (skipn i (listeners_of k (ns_ls s))) -> IdN s s'.
  Proof.
    intros er k ai Her. induction h as [|h IH]; intros i s u s' H G Hn; [discriminate H|].
    cbn [notify_each] in H. fold (notify_each er k ai) in H.
    ninv H as s0 s1 E. okinv E.
    destruct (nth_error (listeners_of k (ns_ls s1)) i) as [l|] eqn:El; [|okinv H; apply IdN_refl].
    rewrite (skipn_nth _ _ _ _ El) in Hn.
    ninv H as a s2 E. apply get_api_inv in E. destruct E as [-> Ea].
    ninv H as u1 s2 E. okinv E.
    ninv H as u2 s3 E.
    destruct l as [|l]; [exfalso; apply Hn; left; reflexivity|].
    cbn [Nat.eqb] in E. okinv E.
    eapply IH in H; [|exact G|intro Hi; apply Hn; right; exact Hi].
    eapply IdN_trans; [|exact H].
    apply IdN_step with (es := [ENotif (S l) (notif_of s1 k a) (ns_running s1)]); reflexivity.
  Qed.

  (* all registered functions: function 0 is notified with the identifier drawn just before *)
  Lemma notify_each_fresh : forall er k ai, (forall k a, fpres IdC (er k a)) ->
      forall h i s u s',
        notify_each er k ai h i s = Ok (u, s') -> Good s ->
        NoDup (skipn i (listeners_of k (ns_ls s))) -> fresh_for k ai s ->
        IdB (lowT k s) (lowS k s) s s'.
  Proof.
    intros er k ai Her. induction h as [|h IH]; intros i s u s' H G Hn Hf; [discriminate H|].
    cbn [notify_each] in H. fold (notify_each er k ai) in H.
    ninv H as s0 s1 E. okinv E.
    assert (L1 : lowT k s1 <= ns_tid s1) by (destruct k; cbn; lia).
    assert (L2 : lowS k s1 <= ns_sid s1) by (destruct k; cbn; lia).
    destruct (nth_error (listeners_of k (ns_ls s1)) i) as [l|] eqn:El.
    2:{ okinv H. apply IdB_refl_low; assumption. }
    rewrite (skipn_nth _ _ _ _ El) in Hn. inversion Hn as [|x xs Hx Hn']; subst x xs.
    ninv H as a s2 E. apply get_api_inv in E. destruct E as [-> Ea].
    ninv H as u1 s2 E. okinv E.
    ninv H as u2 s3 E.
    destruct l as [|l].
    - (* function 0 *)
      cbn [Nat.eqb] in E. apply Her in E. specialize (E G).
      assert (G3 : Good s3) by (eapply IdN_Good; [exact E|exact G]).
      assert (L3 : ns_ls s3 = ns_ls s1) by (destruct E as (_ & E2 & _); exact E2).
      eapply notify_each_after in H; [|exact Her|exact G3|rewrite L3; exact Hx].
      pose proof (IdN_trans _ _ _ E H) as R.
      eapply IdB_prepend with (es := [ENotif 0 (notif_of s1 k a) (ns_running s1)])
                              (lt1 := ns_tid s1) (ls1 := ns_sid s1); [..|exact R]; try reflexivity;
        try assumption; specialize (Hf a Ea); destruct k; cbn; try constructor; try (intros x []);
          try constructor; try (intros x [<-|[]]); cbn; lia.
    - cbn [Nat.eqb] in E. okinv E.
      eapply IH in H; [|exact G|exact Hn'|exact Hf].
      eapply IdB_prepend_quiet with (es := [ENotif (S l) (notif_of s1 k a) (ns_running s1)]);
        [..|exact H]; reflexivity.
  Qed.

  (* notify_user *)
  Definition nu_spec (nu : nkind -> nat -> bool -> NM unit) : Prop :=
    forall k ai b s u s',
      nu k ai b s = Ok (u, s') -> Good s -> fresh_for k ai s -> IdB (lowT k s) (lowS k s) s s'.

  Lemma nu_body_ids : forall er, (forall k a, fpres IdC (er k a)) -> nu_spec (nu_body er).
  Proof.
    intros er Her k ai b s u s' H G Hf. unfold nu_body in H.
    ninv H as s0 s1 E. okinv E.
    ninv H as u1 s2 E.
    eapply notify_each_fresh in E; [|exact Her|exact G|apply G|exact Hf].
    change (nu_tail k ai b s2 = Ok (u, s')) in H.
    apply (wp_nu_tail _ IdC_wframe) in H. eapply IdB_IdN_trans; [exact E|]. apply H.
    eapply IdN_Good; eauto.
  Qed.

  Lemma nu_spec_fin : forall nu, nu_spec nu ->
      (forall a b, fpres IdC (nu TF a b)) /\ (forall a b, fpres IdC (nu SF a b)).
  Proof.
    intros nu H. split; intros a b s u s' H1 G.
    - apply (H TF a b s u s' H1 G). intros ? ?; exact I.
    - apply (H SF a b s u s' H1 G). intros ? ?; exact I.
  Qed.

  Lemma ots_body_ids : forall nu, nu_spec nu -> forall ai, fpres IdC (ots_body tasks nu ai).
  Proof.
    intros nu Hnu ai s u s' H G. rewrite ots_body_split in H.
    ninv H as u1 s1 E. apply ots_prefix_test in E; [|apply G].
    pose proof (fresh_for_started _ _ _ _ E) as Hf. destruct E as (B1 & B2 & B3 & B4 & B5 & B6).
    assert (G1 : Good s1) by (split; [exact B1|rewrite B2; apply G]).
    pose proof (Hnu _ _ _ _ _ _ H G1 Hf) as R. clear H.
    destruct R as (C1 & C2 & C3 & C4 & C5 & C6 & new & C7 & C8 & C9 & C10 & C11). cbn in C10, C11.
    destruct G as [G0 _]. unfold IdN, IdB. repeat (split; [first [congruence|lia]|]).
    exists new. split; [congruence|]. split; [exact C8|]. split; [exact C9|].
    split; intros x Hx; [specialize (C10 x Hx)|specialize (C11 x Hx)]; lia.
  Qed.

  Lemma oss_body_ids : forall nu, nu_spec nu -> forall ai, fpres IdC (oss_body tasks nu ai).
  Proof.
    intros nu Hnu ai s u s' H G. rewrite oss_body_split in H.
    ninv H as u1 s1 E. apply oss_prefix_test in E; [|apply G].
    unfold oss_announce in H.
    ninv H as a' s2 E1. apply get_api_inv in E1. destruct E1 as [-> Ea'].
    ninv H as u2 s3 E1. okinv E1.
    assert (E' : started_state false ai s (s1 <| ns_awaited := ns_awaited s1 ++ [EvFinish (a_uuid a')] |>)) by exact E.
    clear E. pose proof (fresh_for_started _ _ _ _ E') as Hf. destruct E' as (B1 & B2 & B3 & B4 & B5 & B6).
    assert (G1 : Good (s1 <| ns_awaited := ns_awaited s1 ++ [EvFinish (a_uuid a')] |>))
      by (split; [exact B1|rewrite B2; apply G]).
    pose proof (Hnu _ _ _ _ _ _ H G1 Hf) as R. clear H.
    destruct R as (C1 & C2 & C3 & C4 & C5 & C6 & new & C7 & C8 & C9 & C10 & C11). cbn in C10, C11.
    cbn in B1, B2, B3, B4, B5, C1, C2, C3, C4, C7.
    destruct G as [G0 _]. unfold IdN, IdB. repeat (split; [first [congruence|lia]|]).
    exists new. split; [congruence|]. split; [exact C8|]. split; [exact C9|].
    split; intros x Hx; [specialize (C10 x Hx)|specialize (C11 x Hx)]; lia.
  Qed.

  (* every function of the mutual block, at every fuel *)
  Theorem ids_block : forall f,
      fpres IdC (evaluate tasks env f) /\
      (forall c, fpres IdC (run_cb tasks env f c)) /\
      (forall a, fpres IdC (on_task_started tasks env f a)) /\
      (forall a, fpres IdC (on_service_started tasks env f a)) /\
      (forall a, fpres IdC (on_service_finished tasks env f a)) /\
      (forall a, fpres IdC (on_task_finished tasks env f a)) /\
      nu_spec (notify_user tasks env f) /\
      (forall k a, fpres IdC (engine_reacts tasks env f k a)) /\
      (forall ev, fpres IdC (sched_fire_event tasks env f ev)) /\
      (forall ev, fpres IdC (logic_fire_event tasks env f ev)).
  Proof.
    pose proof IdC_wframe as W.
    induction f as [|f (I1 & I2 & I3 & I4 & I5 & I6 & I7 & I8 & I9 & I10)].
    - repeat (split; [intros; intros ? ? ? HH; discriminate HH|]). split; [|split; [|split]].
      + intros k ai b s u s' HH. discriminate HH.
      + intros; intros ? ? ? HH; discriminate HH.
      + intros; intros ? ? ? HH; discriminate HH.
      + intros; intros ? ? ? HH; discriminate HH.
    - destruct (nu_spec_fin _ I7) as [I7f I7s].
      split; [|split; [|split; [|split; [|split; [|split; [|split; [|split; [|split]]]]]]]]; intros.
      + intros s a s' HH. rewrite evaluate_S in HH. eapply (wp_scan_with _ W); eauto.
      + eapply wp_ext; [intro; apply run_cb_S|]. apply (wp_run_cb_body _ W); assumption.
      + eapply wp_ext; [intro; apply on_task_started_S|]. apply ots_body_ids; assumption.
      + eapply wp_ext; [intro; apply on_service_started_S|]. apply oss_body_ids; assumption.
      + eapply wp_ext; [intro; apply on_service_finished_S|]. apply I7s.
      + eapply wp_ext; [intro; apply on_task_finished_S|]. apply (wp_otf_body _ W); assumption.
      + intros k ai b s u s' HH. rewrite notify_user_S in HH. eapply nu_body_ids; eauto.
      + eapply wp_ext; [intro; apply engine_reacts_S|]. apply (wp_er_body _ W); assumption.
      + eapply wp_ext; [intro; apply sched_fire_event_S'|]. apply (wp_sfe_body _ W); assumption.
      + eapply wp_ext; [intro; apply logic_fire_event_S|]. apply (wp_lfe_body _ W); assumption.
  Qed.

  Theorem sched_fire_event_ids : forall f ev s b s',
      sched_fire_event tasks env f ev s = Ok (b, s') -> Good s -> IdN s s'.
  Proof.
    intros f ev s b s' H G.
    exact (proj1 (proj2 (proj2 (proj2 (proj2 (proj2 (proj2 (proj2 (proj2 (ids_block f))))))))) ev s b s' H G).
  Qed.
End IdsBlock.

(* ---- the public API and scripts ---- *)

(* what holds between API calls: test-id mode, and no pair registered twice (the constructor
   registers each kind once, register_callback_* refuses a second registration) *)
Definition ApiInv (s : NS) : Prop := ns_test_ids s = true /\ NoDup (ns_ls s).

Lemma nkind_eqb_eq : forall a b, nkind_eqb a b = true -> a = b.
Proof. intros [] []; cbn; intro H; try discriminate H; reflexivity. Qed.

Lemma NoDup_listeners : forall ls k, NoDup ls -> NoDup (listeners_of k ls).
Proof.
  intros ls k H. unfold listeners_of. induction H as [|p ls Hp H IH]; [constructor|].
  cbn [filter]. destruct (nkind_eqb (fst p) k) eqn:Ek; [|exact IH].
  cbn [map]. constructor; [|exact IH].
  intro Hi. apply in_map_iff in Hi. destruct Hi as (q & Hq1 & Hq2).
  apply filter_In in Hq2. destruct Hq2 as [Hq2 Hq3].
  apply nkind_eqb_eq in Ek. apply nkind_eqb_eq in Hq3.
  apply Hp. replace p with q; [exact Hq2|]. destruct p, q; cbn in *; congruence.
Qed.

Lemma ApiInv_Good : forall s, ApiInv s -> Good s.
Proof. intros s [H1 H2]. split; [exact H1|]. intro k. apply NoDup_listeners. exact H2. Qed.

Lemma register_fresh : forall (ls : list (nkind * nat)) k l,
    existsb (fun p => nkind_eqb (fst p) k && Nat.eqb (snd p) l) ls = false -> ~ In (k, l) ls.
Proof.
  intros ls k l H Hi.
  assert (X : existsb (fun p => nkind_eqb (fst p) k && Nat.eqb (snd p) l) ls = true).
  { apply existsb_exists. exists (k, l). split; [exact Hi|]. cbn. rewrite Nat.eqb_refl. destruct k; reflexivity. }
  congruence.
Qed.

Lemma NoDup_snoc : forall A (l : list A) x, NoDup l -> ~ In x l -> NoDup (l ++ [x]).
Proof.
  intros A l x H Hx. induction H as [|y l Hy H IH]; cbn.
  - constructor; [intros []|constructor].
  - constructor.
    + intro Hi. apply in_app_iff in Hi. destruct Hi as [Hi|[Hi|[]]]; [exact (Hy Hi)|].
      apply Hx. left. symmetry. exact Hi.
    + apply IH. intro Hi. apply Hx. right. exact Hi.
Qed.

(* the started notifications to function 0 in one log: pairwise different identifiers of each
   kind, from [t, t') resp. [s, s') *)
Definition ids_in0 (t s t' s' : nat) (log : list entry) : Prop :=
  NoDup (sids TS log) /\ NoDup (sids SS log) /\
  (forall x, In x (sids TS log) -> t <= x < t') /\ (forall x, In x (sids SS log) -> s <= x < s').

(* consecutive calls draw their identifiers from consecutive, disjoint ranges *)
Fixpoint ranged0 (t s : nat) (tr : list callrec) : Prop :=
  match tr with
  | [] => True
  | r :: tr' => exists t' s', t <= t' /\ s <= s' /\ ids_in0 t s t' s' (cr_log r) /\ ranged0 t' s' tr'
  end.

Lemma IdN_ids_in0 : forall s s', IdN s s' -> ns_log s = [] ->
    ids_in0 (ns_tid s) (ns_sid s) (ns_tid s') (ns_sid s') (rev (ns_log s')).
Proof.
  intros s s' (_ & _ & _ & _ & _ & _ & new & H1 & H2 & H3 & H4 & H5) Hn.
  rewrite H1, Hn, app_nil_r. unfold ids_in0. rewrite !sids_rev.
  split; [apply NoDup_rev; exact H2|]. split; [apply NoDup_rev; exact H3|].
  split; intros x Hx; apply in_rev in Hx; auto.
Qed.

Section NetApiIds.
  Variable tasks : list task.
  Variable env : envcfg.

  Theorem net_api_ids : forall f s c b s',
      ApiInv s -> net_api_call tasks env f s c = Ok (b, s') ->
      ApiInv s' /\ ns_tid s <= ns_tid s' /\ ns_sid s <= ns_sid s' /\
      ids_in0 (ns_tid s) (ns_sid s) (ns_tid s') (ns_sid s') (cr_log (net_observe b s')).
  Proof.
    intros f s c b s' [T L] H.
    assert (Q : forall s0, ns_test_ids s0 = true -> NoDup (ns_ls s0) ->
                           ns_tid s0 = ns_tid s -> ns_sid s0 = ns_sid s -> ns_log s0 = [] ->
                           ApiInv s0 /\ ns_tid s <= ns_tid s0 /\ ns_sid s <= ns_sid s0 /\
                           ids_in0 (ns_tid s) (ns_sid s) (ns_tid s0) (ns_sid s0) (cr_log (net_observe b s0))).
    { intros s0 E1 E2 E3 E4 E5. split; [split; assumption|]. split; [lia|]. split; [lia|].
      cbn [cr_log net_observe]. rewrite E5. cbn. unfold ids_in0. cbn.
      split; [constructor|]. split; [constructor|]. split; intros x []. }
    assert (Wk : forall s0 sz, ns_test_ids s0 = true -> ns_ls s0 = ns_ls s ->
                              ns_tid s0 = ns_tid s -> ns_sid s0 = ns_sid s -> ns_log s0 = [] ->
                              IdN s0 sz ->
                              ApiInv sz /\ ns_tid s <= ns_tid sz /\ ns_sid s <= ns_sid sz /\
                              ids_in0 (ns_tid s) (ns_sid s) (ns_tid sz) (ns_sid sz) (cr_log (net_observe b sz))).
    { intros s0 sz E1 E2 E3 E4 E5 R. pose proof (IdN_ids_in0 _ _ R E5) as X. rewrite E3, E4 in X.
      destruct R as (R1 & R2 & R3 & R4 & _).
      split; [split; [congruence|rewrite R2, E2; exact L]|]. split; [lia|]. split; [lia|]. exact X. }
    assert (G0 : forall s0, ns_test_ids s0 = true -> ns_ls s0 = ns_ls s -> Good s0).
    { intros s0 E1 E2. apply ApiInv_Good. split; [exact E1|rewrite E2; exact L]. }
    destruct c as [|id| |k l|o|o]; cbn [net_api_call] in H.
    - change (ns_awaited (s <| ns_log := [] |>)) with (ns_awaited s) in H.
      destruct (existsb (event_eqb EvStart) (ns_awaited s)).
      + destruct (sched_fire_event tasks env f EvStart (s <| ns_log := [] |> <| ns_running := true |>))
          as [[r sz]| | |] eqn:E; try discriminate H. okinv H.
        apply sched_fire_event_ids in E; [|apply G0; [exact T|reflexivity]].
        eapply Wk; [..|exact E]; first [exact T|reflexivity].
      + okinv H. apply Q; first [exact T|exact L|reflexivity].
    - apply sched_fire_event_ids in H; [|apply G0; [exact T|reflexivity]].
      eapply Wk; [..|exact H]; first [exact T|reflexivity].
    - apply sched_fire_event_ids in H; [|apply G0; [exact T|reflexivity]].
      eapply Wk; [..|exact H]; first [exact T|reflexivity].
    - change (ns_ls (s <| ns_log := [] |>)) with (ns_ls s) in H.
      destruct (existsb (fun p => nkind_eqb (fst p) k && Nat.eqb (snd p) l) (ns_ls s)) eqn:Ex; okinv H.
      + apply Q; first [exact T|exact L|reflexivity].
      + apply Q; try first [exact T|reflexivity]. cbn. apply NoDup_snoc; [exact L|].
        apply register_fresh. exact Ex.
    - okinv H. apply Q; first [exact T|exact L|reflexivity].
    - change (ns_obs (s <| ns_log := [] |>)) with (ns_obs s) in H.
      destruct (remove_first (Nat.eqb o) (ns_obs s)); okinv H.
      apply Q; first [exact T|exact L|reflexivity].
  Qed.

  (* C14 on the faithful model: the trace of any script is ranged *)
  Theorem net_ranged : forall f cs s tr,
      ApiInv s -> net_run_script tasks env f s cs = Ok tr -> ranged0 (ns_tid s) (ns_sid s) tr.
  Proof.
    intros f cs. induction cs as [|c cs IH]; intros s tr A H; cbn [net_run_script] in H.
    - okinv H. exact I.
    - destruct (net_api_call tasks env f s c) as [[b s1]| | |] eqn:E; cbn [rbind] in H; try discriminate H.
      destruct (net_run_script tasks env f s1 cs) as [t| | |] eqn:E2; cbn [rbind] in H; try discriminate H.
      okinv H. destruct (net_api_ids _ _ _ _ _ A E) as (A1 & A2 & A3 & A4).
      cbn [ranged0]. exists (ns_tid s1), (ns_sid s1). repeat (split; [assumption|]). apply IH; assumption.
  Qed.
End NetApiIds.

(* ---- consequences of [ranged0] ---- *)
Lemma ranged0_all : forall tr t s,
    ranged0 t s tr ->
    NoDup (sids TS (flat_map cr_log tr)) /\ NoDup (sids SS (flat_map cr_log tr)) /\
    (forall x, In x (sids TS (flat_map cr_log tr)) -> t <= x) /\
    (forall x, In x (sids SS (flat_map cr_log tr)) -> s <= x).
Proof.
  induction tr as [|r tr IH]; intros t s H.
  - cbn. split; [constructor|]. split; [constructor|]. split; intros x [].
  - destruct H as (t' & s' & H1 & H2 & (N1 & N2 & R1 & R2) & H3).
    destruct (IH _ _ H3) as (M1 & M2 & L1 & L2). cbn [flat_map]. rewrite !sids_app.
    assert (X : forall (l1 l2 : list nat) lo mid, NoDup l1 -> NoDup l2 ->
                  (forall x, In x l1 -> lo <= x < mid) -> (forall x, In x l2 -> mid <= x) -> NoDup (l1 ++ l2)).
    { intros l1 l2 lo mid D1 D2 B1 B2. induction D1 as [|x l1 Hx D1 IH1]; [exact D2|]. cbn. constructor.
      - intro Hi. apply in_app_iff in Hi. destruct Hi as [Hi|Hi]; [exact (Hx Hi)|].
        specialize (B1 x (or_introl eq_refl)). specialize (B2 x Hi). lia.
      - apply IH1. intros y Hy. apply B1. right. exact Hy. }
    split; [eapply X; eauto|]. split; [eapply X; eauto|].
    split; intros x Hx; apply in_app_iff in Hx; destruct Hx as [Hx|Hx].
    + specialize (R1 x Hx). lia.
    + specialize (L1 x Hx). lia.
    + specialize (R2 x Hx). lia.
    + specialize (L2 x Hx). lia.
Qed.

Lemma nkind_eqb_refl : forall k, nkind_eqb k k = true.
Proof. intros []; reflexivity. Qed.

Lemma sids_In_nth : forall k L j n r,
    nth_error L j = Some (ENotif 0 n r) -> n_kind n = k -> In (n_id n) (sids k L).
Proof.
  intros k L. induction L as [|e L IH]; intros [|j] n r H Hk; try discriminate H; unfold sids; cbn [flat_map].
  - inversion H; subst e. cbn. rewrite Hk, nkind_eqb_refl. left. reflexivity.
  - apply in_app_iff. right. cbn in H. eapply IH; eauto.
Qed.

(* no repetition among the identifiers = no two started notifications (to function 0, of that
   kind) at different positions of the history carry the same identifier *)
Lemma sids_nth_unique : forall k L i j n1 r1 n2 r2,
    NoDup (sids k L) ->
    nth_error L i = Some (ENotif 0 n1 r1) -> nth_error L j = Some (ENotif 0 n2 r2) ->
    n_kind n1 = k -> n_kind n2 = k -> n_id n1 = n_id n2 -> i = j.
Proof.
  intros k L. induction L as [|e L IH]; intros i j n1 r1 n2 r2 N H1 H2 K1 K2 Hid; [destruct i; discriminate H1|].
  unfold sids in N. cbn [flat_map] in N. fold (sids k L) in N.
  assert (NL : NoDup (sids k L)).
  { clear - N. induction (sid_of k e) as [|c fa IHf]; [exact N|]. inversion N; auto. }
  assert (X : forall n r m q j', e = ENotif 0 n r -> n_kind n = k -> nth_error L j' = Some (ENotif 0 m q) ->
                                 n_kind m = k -> n_id n = n_id m -> False).
  { intros n r m q j' -> Kn Hj Km Hid'. cbn in N. rewrite Kn, nkind_eqb_refl in N. cbn in N.
    inversion N as [|x xs N1 N2]; subst. apply N1. rewrite Hid'. eapply sids_In_nth; eauto. }
  destruct i as [|i], j as [|j]; cbn in H1, H2.
  - reflexivity.
  - exfalso. inversion H1; subst e. eapply X; eauto.
  - exfalso. inversion H2; subst e. eapply X; eauto.
  - f_equal. eapply IH; eauto.
Qed.

Lemma sids_In_unique : forall k L n1 r1 n2 r2,
    NoDup (sids k L) ->
    In (ENotif 0 n1 r1) L -> In (ENotif 0 n2 r2) L ->
    n_kind n1 = k -> n_kind n2 = k -> n_id n1 = n_id n2 -> n1 = n2 /\ r1 = r2.
Proof.
  intros k L n1 r1 n2 r2 N I1 I2 K1 K2 Hid.
  apply In_nth_error in I1. destruct I1 as [i Hi]. apply In_nth_error in I2. destruct I2 as [j Hj].
  assert (i = j) by (eapply sids_nth_unique; eauto). subst j. rewrite Hi in Hj. inversion Hj. auto.
Qed.

Lemma ranged0_lower : forall tr t s i ri,
    ranged0 t s tr -> nth_error tr i = Some ri ->
    (forall x, In x (sids TS (cr_log ri)) -> t <= x) /\ (forall x, In x (sids SS (cr_log ri)) -> s <= x).
Proof.
  induction tr as [|r0 tr IH]; intros t s i ri H Hn; [destruct i; discriminate Hn|].
  destruct H as (t' & s' & H1 & H2 & (_ & _ & R1 & R2) & H4). destruct i as [|i]; cbn in Hn.
  - inversion Hn; subst. split; intros x Hx; [specialize (R1 x Hx)|specialize (R2 x Hx)]; lia.
  - destruct (IH _ _ _ _ H4 Hn) as [L1 L2]. split; intros x Hx; [specialize (L1 x Hx)|specialize (L2 x Hx)]; lia.
Qed.

Definition started_kind (k : nkind) : Prop := k = TS \/ k = SS.

Lemma sids_In : forall k L n r, In (ENotif 0 n r) L -> n_kind n = k -> In (n_id n) (sids k L).
Proof.
  intros k L n r Hi Hk. apply In_nth_error in Hi. destruct Hi as [j Hj]. eapply sids_In_nth; eauto.
Qed.

(* the shape of RefIds.ranged_unique: equal identifiers of one started kind, delivered to
   function 0 in calls i and j, mean the same call and the same entry *)
Theorem ranged0_unique : forall tr t s i j ri rj n1 r1 n2 r2,
    ranged0 t s tr ->
    nth_error tr i = Some ri -> nth_error tr j = Some rj ->
    In (ENotif 0 n1 r1) (cr_log ri) -> In (ENotif 0 n2 r2) (cr_log rj) ->
    started_kind (n_kind n1) -> n_kind n1 = n_kind n2 -> n_id n1 = n_id n2 ->
    i = j /\ n1 = n2 /\ r1 = r2.
Proof.
  induction tr as [|r0 tr IH]; intros t s i j ri rj n1 r1 n2 r2 H Hi Hj I1 I2 Hk He Hid;
    [destruct i; discriminate Hi|].
  pose proof H as H0. destruct H as (t' & s' & H1 & H2 & (N1 & N2 & R1 & R2) & H4).
  assert (Clash : forall rz z na ra nb rb,
             nth_error tr z = Some rz -> In (ENotif 0 na ra) (cr_log r0) -> In (ENotif 0 nb rb) (cr_log rz) ->
             started_kind (n_kind na) -> n_kind na = n_kind nb -> n_id na = n_id nb -> False).
  { intros rz z na ra nb rb Hz Ia Ib Hka Hkab Hidab. destruct (ranged0_lower _ _ _ _ _ H4 Hz) as [L1 L2].
    destruct Hka as [Hka|Hka].
    - pose proof (sids_In TS _ _ _ Ia Hka) as X. apply R1 in X.
      assert (Y : In (n_id nb) (sids TS (cr_log rz))) by (eapply sids_In; eauto; congruence). apply L1 in Y. lia.
    - pose proof (sids_In SS _ _ _ Ia Hka) as X. apply R2 in X.
      assert (Y : In (n_id nb) (sids SS (cr_log rz))) by (eapply sids_In; eauto; congruence). apply L2 in Y. lia. }
  destruct i as [|i], j as [|j]; cbn in Hi, Hj.
  - inversion Hi; subst ri. inversion Hj; subst rj. split; [reflexivity|].
    destruct Hk as [Hk|Hk];
      [apply (sids_In_unique TS (cr_log r0) n1 r1 n2 r2)|apply (sids_In_unique SS (cr_log r0) n1 r1 n2 r2)];
      auto; congruence.
  - exfalso. inversion Hi; subst ri. eapply Clash; eauto.
  - exfalso. inversion Hj; subst rj. eapply (Clash ri i n2 r2 n1 r1); eauto.
    + rewrite <- He. exact Hk.
  - destruct (IH _ _ _ _ _ _ _ _ _ _ H4 Hi Hj I1 I2 Hk He Hid) as (E1 & E2 & E3). repeat split; congruence.
Qed.

(* ---- C14 on the faithful model: headline statements ---- *)
Section C14Net.
  Variable tasks : list task.
  Variable env : envcfg.

  (* over the whole history of a script: no identifier is delivered twice to function 0 in a
     task-started notification, none twice in a service-started notification *)
  Theorem net_ids_unique : forall f cs s tr,
      ApiInv s -> net_run_script tasks env f s cs = Ok tr ->
      NoDup (sids TS (flat_map cr_log tr)) /\ NoDup (sids SS (flat_map cr_log tr)).
  Proof.
    intros f cs s tr A H. apply (net_ranged tasks env) in H; [|exact A].
    destruct (ranged0_all _ _ _ H) as (H1 & H2 & _). split; assumption.
  Qed.

  (* the same by positions in the history *)
  Theorem net_ids_positions : forall f cs s tr i j n1 r1 n2 r2,
      ApiInv s -> net_run_script tasks env f s cs = Ok tr ->
      nth_error (flat_map cr_log tr) i = Some (ENotif 0 n1 r1) ->
      nth_error (flat_map cr_log tr) j = Some (ENotif 0 n2 r2) ->
      started_kind (n_kind n1) -> n_kind n1 = n_kind n2 -> n_id n1 = n_id n2 -> i = j.
  Proof.
    intros f cs s tr i j n1 r1 n2 r2 A H Hi Hj Hk He Hid.
    destruct (net_ids_unique _ _ _ _ A H) as [N1 N2].
    destruct Hk as [Hk|Hk];
      [apply (sids_nth_unique TS (flat_map cr_log tr) i j n1 r1 n2 r2)
      |apply (sids_nth_unique SS (flat_map cr_log tr) i j n1 r1 n2 r2)]; auto; congruence.
  Qed.

  (* the shape of RefIds.ranged_ref / ranged_unique *)
  Theorem net_ids_pairwise : forall f cs s tr i j ri rj n1 r1 n2 r2,
      ApiInv s -> net_run_script tasks env f s cs = Ok tr ->
      nth_error tr i = Some ri -> nth_error tr j = Some rj ->
      In (ENotif 0 n1 r1) (cr_log ri) -> In (ENotif 0 n2 r2) (cr_log rj) ->
      started_kind (n_kind n1) -> n_kind n1 = n_kind n2 -> n_id n1 = n_id n2 ->
      i = j /\ n1 = n2 /\ r1 = r2.
  Proof.
    intros f cs s tr i j ri rj n1 r1 n2 r2 A H. apply (net_ranged tasks env) in H; [|exact A].
    eapply ranged0_unique; eauto.
  Qed.

  (* the invariant is maintained by every API call, so it holds along any call sequence *)
  Theorem api_reach_inv : forall f s s', api_reach tasks env f s s' -> ApiInv s -> ApiInv s'.
  Proof.
    intros f s s' H A. induction H as [s|s s1 c b s2 _ IH H]; [exact A|].
    exact (proj1 (net_api_ids tasks env _ _ _ _ _ (IH A) H)).
  Qed.
End C14Net.

(* the constructor establishes the invariant *)
Definition mode_ls (s s' : NS) : Prop := ns_test_ids s' = ns_test_ids s /\ ns_ls s' = ns_ls s.

Theorem mode_ls_wframe : wframe mode_ls.
Proof.
  constructor;
    try (intros; try (match goal with |- fpres _ _ => intros ? ? ? HH; inversion HH; subst; clear HH end);
         unfold mode_ls; cbn; split; reflexivity).
  unfold mode_ls. intros a b c [H1 H2] [H3 H4]. split; congruence.
Qed.

Theorem net_init_inv : forall tasks s0, net_init tasks true = Ok s0 -> ApiInv s0.
Proof.
  intros tasks s0 H. unfold net_init in H.
  destruct (generate_petri_net tasks 200 (ns0 true)) as [[u s]| | |] eqn:E; try discriminate H. okinv H.
  apply (wp_generate_petri_net mode_ls_wframe) in E. destruct E as [E1 E2]. split.
  - rewrite E1. reflexivity.
  - rewrite E2. cbn. unfold default_listeners.
    repeat (constructor; [cbn; intuition discriminate|]). constructor.
Qed.

(* C14 for the cases the correspondence check runs *)
Theorem run_net_ids_unique : forall c tr,
    run_net c = Ok tr ->
    NoDup (sids TS (flat_map cr_log tr)) /\ NoDup (sids SS (flat_map cr_log tr)).
Proof.
  intros c tr H. unfold run_net in H. destruct (rc_test_ids c); [|discriminate H].
  destruct (net_init (p_tasks (rc_prog c)) true) as [s0| | |] eqn:E; cbn [rbind] in H; try discriminate H.
  eapply net_ids_unique; [eapply net_init_inv; exact E|exact H].
Qed.

Theorem run_net_ranged : forall c tr, run_net c = Ok tr -> exists t s, ranged0 t s tr.
Proof.
  intros c tr H. unfold run_net in H. destruct (rc_test_ids c); [|discriminate H].
  destruct (net_init (p_tasks (rc_prog c)) true) as [s0| | |] eqn:E; cbn [rbind] in H; try discriminate H.
  exists (ns_tid s0), (ns_sid s0). eapply net_ranged; [eapply net_init_inv; exact E|exact H].
Qed.

(* ---- the hypotheses are inhabited; the restriction to function 0 is necessary ---- *)

(* on the example of Examples.v (all statement kinds, a parallel loop with run-time generation,
   an immediately completing service) the 16 calls return and function 0 is told the task
   identifiers 0..4 and the service identifiers 0..10, each once *)
Example ids_inhabited :
  exists tr, run_net ex_case = Ok tr /\ List.length tr = 16 /\
             sids TS (flat_map cr_log tr) = seq 0 5 /\ sids SS (flat_map cr_log tr) = seq 0 11.
Proof. eexists. split; [vm_compute; reflexivity|]. split; [reflexivity|]. split; vm_compute; reflexivity. Qed.

(* a history with re-entrant completions from inside notifications (rc_react), immediate
   completions and the hostile engine *)
Definition ex_reentrant : runcase :=
  {| rc_prog := rc_prog ex_case; rc_vals := rc_vals ex_case;
     rc_imm := [false; true; false; true; false; false; true];
     rc_script := [AStart; AFinish 0; AFinish 1; AFinish 2; AFinish 3; AFinish 4; AFinish 5; AFinish 6;
                   AFinish 7; AFinish 8; AFinish 9; AFinish 10; AFinish 11];
     rc_react := [None; None; Some 0; None; Some 1; Some 0; None; Some 0];
     rc_react_all := true; rc_mutate := 1; rc_test_ids := true |}.

Example ids_inhabited_reentrant :
  exists tr, run_net ex_reentrant = Ok tr /\ List.length tr = 13 /\ existsb cr_final tr = true /\
             existsb (fun e => match e with EFireIn _ => true | _ => false end) (flat_map cr_log tr) = true /\
             sids TS (flat_map cr_log tr) = seq 0 5 /\ sids SS (flat_map cr_log tr) = seq 0 11.
Proof.
  eexists. split; [vm_compute; reflexivity|]. split; [reflexivity|].
  split; [vm_compute; reflexivity|]. split; [vm_compute; reflexivity|]. split; vm_compute; reflexivity.
Qed.

(* the identifiers of kind k delivered to registered function l *)
Definition sids_of (l : nat) (k : nkind) (es : list entry) : list nat :=
  flat_map (fun e => match e with
                     | ENotif l' n _ => if Nat.eqb l l' && nkind_eqb (n_kind n) k then [n_id n] else []
                     | _ => [] end) es.

(* FINDING.  The statement is false for a second registered function.  Program: a counting
   loop around one service; a second service-started function is registered; the first start of
   the service is completed from inside function 0's notification.  The nested fire_event runs
   the loop on and restarts the SAME ServiceAPI object (identifier 0 -> 1) before the outer
   on_service_started reaches function 1, which therefore is told identifier 1 twice and
   identifier 0 never.  (scheduler.py passes the one mutable API object to every callback.) *)
Definition second_listener_case : runcase :=
  {| rc_prog := {| p_structs := [];
                   p_tasks := [{| t_name := 0; t_ins := [];
                                  t_body := [SCount false 19 (LimInt 2) [SService 20 [] []]];
                                  t_outs := [] |}] |};
     rc_vals := []; rc_imm := [true; false; false];
     rc_script := [ARegister SS 1; AStart];
     rc_react := []; rc_react_all := false; rc_mutate := 0; rc_test_ids := true |}.

Example second_listener_duplicates :
  exists tr, run_net second_listener_case = Ok tr /\
             sids_of 0 SS (flat_map cr_log tr) = [0; 1] /\
             sids_of 1 SS (flat_map cr_log tr) = [1; 1].
Proof. eexists. split; [vm_compute; reflexivity|]. split; vm_compute; reflexivity. Qed.

(* =========================================================================== *)
(* 3. C15: source lists are never written; in-loop instances are rebuilt from    *)
(*    the source at every start                                                  *)
(* =========================================================================== *)

(* ---- (a) the static part of every API object ---- *)
Definition static_of (a : api) : bool * name * site * option nat * bool * list param * bool :=
  (a_is_task a, a_name a, a_site a, a_ctx a, a_in_loop a, a_src a, a_has_call a).

(* API objects are never removed, and only their identifier and delivered list are written *)
Definition api_static (s s' : NS) : Prop :=
  forall i a, nth_error (ns_apis s) i = Some a ->
              exists a', nth_error (ns_apis s') i = Some a' /\ static_of a' = static_of a.

Lemma api_static_refl : forall s, api_static s s.
Proof. intros s i a H. exists a. split; [exact H|reflexivity]. Qed.

Lemma api_static_trans : forall a b c, api_static a b -> api_static b c -> api_static a c.
Proof.
  intros a b c H1 H2 i x Hx. destruct (H1 _ _ Hx) as (y & Hy & Ey). destruct (H2 _ _ Hy) as (z & Hz & Ez).
  exists z. split; [exact Hz|congruence].
Qed.

Lemma api_static_same : forall s s', ns_apis s' = ns_apis s -> api_static s s'.
Proof. intros s s' E i a H. exists a. rewrite E. split; [exact H|reflexivity]. Qed.

Lemma api_static_upd : forall s j f,
    (forall a, static_of (f a) = static_of a) ->
    api_static s (s <| ns_apis := upd j f (ns_apis s) |>).
Proof.
  intros s j f Hf i a H. cbn. rewrite nth_error_upd. destruct (Nat.eqb j i).
  - rewrite H. cbn. exists (f a). split; [reflexivity|apply Hf].
  - exists a. split; [exact H|reflexivity].
Qed.

Theorem api_static_wframe : wframe api_static.
Proof.
  constructor;
    try (intros; try (match goal with |- fpres _ _ => intros ? ? ? HH; inversion HH; subst; clear HH end);
         apply api_static_same; reflexivity).
  - exact api_static_trans.
  - intros i u s x s' HH. inversion HH; subst; clear HH. apply api_static_upd. reflexivity.
  - intros i ps s x s' HH. inversion HH; subst; clear HH. apply api_static_upd. reflexivity.
  - intros a s x s' HH. inversion HH; subst; clear HH. intros i y Hy. cbn. exists y. split; [|reflexivity].
    rewrite nth_error_app1; [exact Hy|]. apply nth_error_Some. congruence.
Qed.

Lemma api_static_wnotif : wnotif api_static.
Proof. intros l n r s x s' HH. inversion HH; subst; clear HH. apply api_static_same. reflexivity. Qed.

(* every function of the mutual block and of the generator keeps the static part of every
   existing API object, in particular its source parameter list *)
Definition src_block tasks env := wframe_block api_static_wframe tasks env api_static_wnotif.
Definition src_generate tasks := wframe_generate api_static_wframe tasks.

Theorem sched_fire_event_static : forall tasks env f ev s b s',
    sched_fire_event tasks env f ev s = Ok (b, s') -> api_static s s'.
Proof.
  intros tasks env f ev s b s' H.
  exact (proj1 (proj2 (proj2 (proj2 (proj2 (proj2 (proj2 (proj2 (proj2 (src_block tasks env f))))))))) ev s b s' H).
Qed.

Theorem api_call_static : forall tasks env f s c b s',
    net_api_call tasks env f s c = Ok (b, s') -> api_static s s'.
Proof.
  intros tasks env f s c b s' H.
  assert (Q : api_static s (s <| ns_log := [] |>)) by (apply api_static_same; reflexivity).
  destruct c as [|id| |k l|o|o]; cbn [net_api_call] in H.
  - change (ns_awaited (s <| ns_log := [] |>)) with (ns_awaited s) in H.
    destruct (existsb (event_eqb EvStart) (ns_awaited s)).
    + destruct (sched_fire_event tasks env f EvStart (s <| ns_log := [] |> <| ns_running := true |>))
        as [[r sz]| | |] eqn:E; try discriminate H. okinv H.
      apply sched_fire_event_static in E. eapply api_static_trans; [|exact E]. apply api_static_same. reflexivity.
    + okinv H. exact Q.
  - apply sched_fire_event_static in H. eapply api_static_trans; [exact Q|exact H].
  - apply sched_fire_event_static in H. eapply api_static_trans; [exact Q|exact H].
  - change (ns_ls (s <| ns_log := [] |>)) with (ns_ls s) in H.
    destruct (existsb _ (ns_ls s)); okinv H; apply api_static_same; reflexivity.
  - okinv H. apply api_static_same; reflexivity.
  - change (ns_obs (s <| ns_log := [] |>)) with (ns_obs s) in H.
    destruct (remove_first (Nat.eqb o) (ns_obs s)); okinv H. apply api_static_same; reflexivity.
Qed.

Theorem api_reach_static : forall tasks env f s s', api_reach tasks env f s s' -> api_static s s'.
Proof.
  intros tasks env f s s' H. induction H as [s|s s1 c b s2 _ IH H]; [apply api_static_refl|].
  eapply api_static_trans; [exact IH|]. eapply api_call_static; exact H.
Qed.

(* spelled out: the source list (and every other static field) of API object i after any
   sequence of API calls, whatever the engine did, is the one it was created with *)
Corollary source_never_modified : forall tasks env f s s' i a,
    api_reach tasks env f s s' -> nth_error (ns_apis s) i = Some a ->
    exists a', nth_error (ns_apis s') i = Some a' /\
               a_src a' = a_src a /\ a_name a' = a_name a /\ a_site a' = a_site a /\
               a_is_task a' = a_is_task a /\ a_ctx a' = a_ctx a /\ a_in_loop a' = a_in_loop a /\
               a_has_call a' = a_has_call a.
Proof.
  intros tasks env f s s' i a H Ha. destruct (api_reach_static _ _ _ _ _ H _ _ Ha) as (a' & H1 & H2).
  exists a'. split; [exact H1|]. unfold static_of in H2. inversion H2. repeat split; assumption.
Qed.

(* ---- (b) in-loop instances are rebuilt from the source at every start ---- *)

(* the states that differ from s at most in the delivered list of API object ai *)
Definition with_delivered (ai : nat) (ps : list param) (s : NS) : NS :=
  s <| ns_apis := upd ai (with_params ps) (ns_apis s) |>.
Definition same_but_params (ai : nat) (s1 s2 : NS) : Prop := exists ps, s2 = with_delivered ai ps s1.

Lemma upd_upd : forall A n (f g : A -> A) l, upd n f (upd n g l) = upd n (fun x => f (g x)) l.
Proof. intros A n f g l. revert n. induction l as [|x l IH]; intros [|n]; cbn; try reflexivity. rewrite IH. reflexivity. Qed.

Lemma upd_ext : forall A n (f g : A -> A) l, (forall x, f x = g x) -> upd n f l = upd n g l.
Proof.
  intros A n f g l H. revert n. induction l as [|x l IH]; intros [|n]; cbn; try reflexivity.
  - rewrite H. reflexivity.
  - rewrite IH. reflexivity.
Qed.

Lemma rebuilt_apis : forall ai u src ps l,
    upd ai (with_params src) (upd ai (with_uuid u) (upd ai (with_params ps) l)) =
    upd ai (with_params src) (upd ai (with_uuid u) l).
Proof. intros. rewrite !upd_upd. apply upd_ext. intros [] . reflexivity. Qed.

Lemma nbind_get_api : forall A i a (k : api -> NM A) s,
    nth_error (ns_apis s) i = Some a -> nbind (get_api i) k s = k a s.
Proof. intros A i a k s H. unfold nbind, get_api. rewrite H. reflexivity. Qed.

Lemma nbind_nget : forall A (k : NS -> NM A) s, nbind nget k s = k s s.
Proof. reflexivity. Qed.

Lemma with_delivered_api : forall ai ps s a,
    nth_error (ns_apis s) ai = Some a ->
    nth_error (ns_apis (with_delivered ai ps s)) ai = Some (with_params ps a).
Proof. intros ai ps s a H. unfold with_delivered. cbn. rewrite nth_error_upd, Nat.eqb_refl, H. reflexivity. Qed.

Lemma nbind_cong_state : forall A B (m : NM A) (k : A -> NM B) s1 s2,
    m s1 = m s2 -> nbind m k s1 = nbind m k s2.
Proof. intros A B m k s1 s2 H. unfold nbind. rewrite H. reflexivity. Qed.

Section Rebuild.
  Variable tasks : list task.
  Variable env : envcfg.

  Lemma ots_prefix_rebuilds : forall ai ps s a,
      nth_error (ns_apis s) ai = Some a -> a_in_loop a = true -> a_has_call a = true ->
      ots_prefix tasks ai (with_delivered ai ps s) = ots_prefix tasks ai s.
  Proof.
    intros ai ps s a Ha Hl Hc. unfold ots_prefix.
    rewrite (nbind_get_api _ _ _ _ _ (with_delivered_api ai ps s a Ha)), (nbind_get_api _ _ _ _ _ Ha).
    rewrite !nbind_nget. cbn [a_in_loop a_has_call a_src with_params]. rewrite Hl, Hc.
    unfold nbind.
    destruct (ns_test_ids s) eqn:T.
    - rewrite (new_test_or_uuid_test true s T).
      rewrite (new_test_or_uuid_test true (with_delivered ai ps s) T).
      unfold set_api, nmod. f_equal. unfold with_delivered. cbn. rewrite rebuilt_apis. reflexivity.
    - rewrite (new_test_or_uuid_uuid true s T).
      rewrite (new_test_or_uuid_uuid true (with_delivered ai ps s) T).
      unfold set_api, nmod. f_equal. unfold with_delivered. cbn. rewrite rebuilt_apis. reflexivity.
  Qed.

  Lemma oss_prefix_rebuilds : forall ai ps s a,
      nth_error (ns_apis s) ai = Some a -> a_in_loop a = true ->
      oss_prefix tasks ai (with_delivered ai ps s) = oss_prefix tasks ai s.
  Proof.
    intros ai ps s a Ha Hl. unfold oss_prefix.
    rewrite (nbind_get_api _ _ _ _ _ (with_delivered_api ai ps s a Ha)), (nbind_get_api _ _ _ _ _ Ha).
    rewrite !nbind_nget. cbn [a_in_loop a_has_call a_src with_params]. rewrite Hl.
    change (ns_test_ids (with_delivered ai ps s)) with (ns_test_ids s).
    remember (substitute_loop_indexes tasks ai) as K.
    unfold nbind, fresh_uuid, rebind_uuid, nget, set_api, nmod, nret, nfail.
    destruct (ns_test_ids s) eqn:T.
    - rewrite !new_test_or_uuid_test by exact T. cbn.
      destruct (dict_get ident_eqb (a_uuid a) (ns_place_dict s)); [|reflexivity].
      f_equal. unfold with_delivered. cbn. rewrite rebuilt_apis. reflexivity.
    - cbn.
      destruct (dict_get ident_eqb (a_uuid a) (ns_place_dict s)); [|reflexivity].
      f_equal. unfold with_delivered. cbn. rewrite rebuilt_apis. reflexivity.
  Qed.

  (* THE C15 STATEMENT.  For an instance inside a loop, what the delivered list contained
     before a start is irrelevant: starting it from a state in which that list was replaced by
     ANY other list gives the same result -- same outcome, and the same final state --, in both
     identifier modes, for every environment and every fuel.  (A task instance inside a loop
     always has a task call; see [gtc_body].) *)
  Theorem on_task_started_rebuilds : forall f ai ps s a,
      nth_error (ns_apis s) ai = Some a -> a_in_loop a = true -> a_has_call a = true ->
      on_task_started tasks env f ai (with_delivered ai ps s) = on_task_started tasks env f ai s.
  Proof.
    intros f ai ps s a Ha Hl Hc. destruct f as [|f]; [reflexivity|].
    rewrite !on_task_started_S, !ots_body_split. apply nbind_cong_state.
    exact (ots_prefix_rebuilds ai ps s a Ha Hl Hc).
  Qed.

  Theorem on_service_started_rebuilds : forall f ai ps s a,
      nth_error (ns_apis s) ai = Some a -> a_in_loop a = true ->
      on_service_started tasks env f ai (with_delivered ai ps s) = on_service_started tasks env f ai s.
  Proof.
    intros f ai ps s a Ha Hl. destruct f as [|f]; [reflexivity|].
    rewrite !on_service_started_S, !oss_body_split. apply nbind_cong_state.
    exact (oss_prefix_rebuilds ai ps s a Ha Hl).
  Qed.

  (* the same through the callbacks stored in the net *)
  Theorem run_cb_started_rebuilds : forall f ai ps s a,
      nth_error (ns_apis s) ai = Some a -> a_in_loop a = true ->
      (a_has_call a = true ->
       run_cb tasks env f (CbTS ai) (with_delivered ai ps s) = run_cb tasks env f (CbTS ai) s) /\
      run_cb tasks env f (CbSS ai) (with_delivered ai ps s) = run_cb tasks env f (CbSS ai) s.
  Proof.
    intros f ai ps s a Ha Hl. destruct f as [|f]; [split; reflexivity|]. rewrite !run_cb_S. cbn [run_cb_body].
    split; [intro Hc; eapply on_task_started_rebuilds; eauto|eapply on_service_started_rebuilds; eauto].
  Qed.

  (* in the words of the property: same outcome kind and, when Ok, EQUAL final states *)
  Corollary started_same_but_params : forall f ai s1 s2 a,
      same_but_params ai s1 s2 ->
      nth_error (ns_apis s1) ai = Some a -> a_in_loop a = true ->
      (a_has_call a = true -> on_task_started tasks env f ai s2 = on_task_started tasks env f ai s1) /\
      on_service_started tasks env f ai s2 = on_service_started tasks env f ai s1.
  Proof.
    intros f ai s1 s2 a [ps ->] Ha Hl.
    split; [intro Hc; eapply on_task_started_rebuilds; eauto|eapply on_service_started_rebuilds; eauto].
  Qed.
End Rebuild.

(* ---- (c) instances outside loops: the list is delivered as it is ---- *)
Definition params_at (j : nat) (s : NS) : option (list param) := option_map a_params (nth_error (ns_apis s) j).

Lemma params_at_set_uuid : forall j i u s l s0,
    ns_apis s0 = l ->
    params_at j (s <| ns_apis := upd i (with_uuid u) l |>) = params_at j s0.
Proof.
  intros j i u s l s0 <-. unfold params_at. cbn. rewrite nth_error_upd. destruct (Nat.eqb i j); [|reflexivity].
  destruct (nth_error (ns_apis s0) j); reflexivity.
Qed.

Section NonLoop.
  Variable tasks : list task.

  (* for an instance that is not in a loop the start handlers write no delivered list at all
     (of any instance): what is delivered is what the object holds -- the list it was created
     with, or whatever a hostile engine left in it; such an instance is started at most once
     per order *)
  Theorem ots_prefix_nonloop : forall ai s u s1 a,
      nth_error (ns_apis s) ai = Some a -> a_in_loop a = false ->
      ots_prefix tasks ai s = Ok (u, s1) -> forall j, params_at j s1 = params_at j s.
  Proof.
    intros ai s u s1 a Ha Hl H j. unfold ots_prefix in H.
    rewrite (nbind_get_api _ _ _ _ _ Ha), nbind_nget, Hl in H.
    destruct (ns_test_ids s) eqn:T; [|okinv H; reflexivity].
    ninv H as u0 s2 E. rewrite (new_test_or_uuid_test true _ T) in E. okinv E. okinv H.
    apply params_at_set_uuid. reflexivity.
  Qed.

  Theorem oss_prefix_nonloop : forall ai s u s1 a,
      nth_error (ns_apis s) ai = Some a -> a_in_loop a = false ->
      oss_prefix tasks ai s = Ok (u, s1) -> forall j, params_at j s1 = params_at j s.
  Proof.
    intros ai s u s1 a Ha Hl H j. unfold oss_prefix in H.
    rewrite (nbind_get_api _ _ _ _ _ Ha), nbind_nget, Hl in H.
    destruct (ns_test_ids s) eqn:T; [|okinv H; reflexivity].
    ninv H as u0 s2 E. rewrite (new_test_or_uuid_test false _ T) in E. okinv E.
    unfold rebind_uuid in H. ninv H as s3 s4 E. okinv E.
    match type of H with context [dict_get ident_eqb ?x ?d] => destruct (dict_get ident_eqb x d) as [p|] end;
      [|discriminate H].
    ninv H as u1 s5 E. okinv E. okinv H.
    apply params_at_set_uuid. reflexivity.
  Qed.
End NonLoop.

(* ---- (d) the hostile engine writes the delivered list of the notified instance only ---- *)
Definition hostile_write (env : envcfg) (k : nkind) (ai : nat) (a : api) (l : list api) : list api :=
  match k with
  | TS | SS => upd ai (with_params (hostile (ec_mutate env) (a_params a))) l
  | _ => l
  end.

Section Hostile.
  Variable env : envcfg.

  (* the engine's own effect on the API objects during one notification about instance ai is
     [hostile_write] on ai; everything else that happens to them happens inside the
     fire_event calls it makes ([Rl] is any preorder those calls respect) *)
  Theorem er_body_writes : forall (Rl : list api -> list api -> Prop) sfe,
      (forall l, Rl l l) -> (forall a b c, Rl a b -> Rl b c -> Rl a c) ->
      (forall ev s b s', sfe ev s = Ok (b, s') -> Rl (ns_apis s) (ns_apis s')) ->
      forall k ai s u s' a,
        nth_error (ns_apis s) ai = Some a ->
        er_body env sfe k ai s = Ok (u, s') ->
        Rl (hostile_write env k ai a (ns_apis s)) (ns_apis s').
  Proof.
    intros Rl sfe Rr Rt Hs k ai s u s' a Ha H. unfold er_body in H.
    rewrite (nbind_get_api _ _ _ _ _ Ha) in H.
    ninv H as u1 s1 E1.
    assert (A1 : ns_apis s1 = ns_apis s) by (destruct k; okinv E1; reflexivity).
    ninv H as u2 s2 E2.
    assert (A2 : ns_apis s2 = hostile_write env k ai a (ns_apis s)).
    { destruct k; okinv E2; cbn; rewrite ?A1; reflexivity. }
    ninv H as u3 s3 E3.
    assert (A3 : Rl (ns_apis s2) (ns_apis s3)).
    { destruct k; try (okinv E3; apply Rr).
      ninv E3 as s4 s5 E4. okinv E4. ninv E3 as u4 s6 E4. okinv E4.
      destruct (ec_imm env (ns_nss s5)); [|okinv E3; apply Rr].
      ninv E3 as b s7 E4. okinv E3. apply Hs in E4. exact E4. }
    ninv H as s4 s5 E4. okinv E4. ninv H as u4 s6 E4. okinv E4.
    rewrite <- A2. eapply Rt; [exact A3|].
    destruct (if ec_react_all env || match k with TS | SS => true | _ => false end
              then ec_react env (ns_nnot s5) else None) as [j|]; [|okinv H; apply Rr].
    destruct (ns_pending s5) as [|p0 prest]; [okinv H; apply Rr|].
    ninv H as u5 s7 E5. okinv E5. ninv H as r s8 E5. okinv H. apply Hs in E5. exact E5.
  Qed.

  (* an engine that completes nothing from inside the notification: exactly that write *)
  Corollary er_body_alone : forall k ai s u s' a,
      nth_error (ns_apis s) ai = Some a ->
      er_body env (fun _ => nret false) k ai s = Ok (u, s') ->
      ns_apis s' = hostile_write env k ai a (ns_apis s).
  Proof.
    intros k ai s u s' a Ha H. symmetry.
    eapply (er_body_writes eq) in H; eauto; try congruence.
    intros ev s0 b s0' HH. okinv HH. reflexivity.
  Qed.

  (* instance j's delivered list does not change through a notification about another
     instance ai, unless a fire_event call made from inside the notification changes it *)
  Corollary er_body_other_instance : forall sfe j,
      (forall ev s b s', sfe ev s = Ok (b, s') -> params_at j s' = params_at j s) ->
      forall k ai s u s' a,
        j <> ai -> nth_error (ns_apis s) ai = Some a ->
        er_body env sfe k ai s = Ok (u, s') -> params_at j s' = params_at j s.
  Proof.
    intros sfe j Hs k ai s u s' a Hj Ha H.
    pose proof (er_body_writes
                  (fun l l' => option_map a_params (nth_error l' j) = option_map a_params (nth_error l j)) sfe) as X.
    cbv beta in X. specialize (X (fun l => eq_refl)).
    specialize (X (fun x y z H1 H2 => eq_trans H2 H1)).
    specialize (X Hs k ai s u s' a Ha H).
    unfold params_at. rewrite X. unfold hostile_write. apply Nat.eqb_neq in Hj.
    destruct k; try reflexivity; rewrite nth_error_upd, Nat.eqb_sym, Hj; reflexivity.
  Qed.
End Hostile.

(* ---- the pieces above, stated on the functions of the model themselves ---- *)
Section OnTheModel.
  Variable tasks : list task.
  Variable env : envcfg.

  (* on_task_started / on_service_started = the start prefix, then the notification *)
  Theorem on_task_started_split : forall f ai s,
      on_task_started tasks env (S f) ai s =
      (ots_prefix tasks ai ;;~ notify_user tasks env f TS ai false) s.
  Proof. intros. rewrite on_task_started_S. apply ots_body_split. Qed.

  Theorem on_service_started_split : forall f ai s,
      on_service_started tasks env (S f) ai s =
      (oss_prefix tasks ai ;;~ oss_announce (notify_user tasks env f) ai) s.
  Proof. intros. rewrite on_service_started_S. apply oss_body_split. Qed.

  (* test-id mode: every started task instance gets ITest (old ns_tid) and ns_tid grows by one;
     every started service instance gets ITest (old ns_sid) and ns_sid grows by one *)
  Theorem started_task_gets_counter : forall ai s u s1,
      ns_test_ids s = true -> ots_prefix tasks ai s = Ok (u, s1) ->
      uuid_at ai s1 = Some (ITest (ns_tid s)) /\ ns_tid s1 = S (ns_tid s) /\ ns_sid s1 = ns_sid s.
  Proof.
    intros ai s u s1 T H. destruct (ots_prefix_test tasks ai s u s1 H T) as (_ & _ & _ & B4 & B5 & B6). auto.
  Qed.

  Theorem started_service_gets_counter : forall ai s u s1,
      ns_test_ids s = true -> oss_prefix tasks ai s = Ok (u, s1) ->
      uuid_at ai s1 = Some (ITest (ns_sid s)) /\ ns_sid s1 = S (ns_sid s) /\ ns_tid s1 = ns_tid s.
  Proof.
    intros ai s u s1 T H. destruct (oss_prefix_test tasks ai s u s1 H T) as (_ & _ & _ & B4 & B5 & B6). auto.
  Qed.

  (* the counters only grow, the mode and the registered functions are never written
     (for every function of the block: [ids_block]; here for fire_event) *)
  Theorem fire_event_counters_grow : forall f ev s b s',
      sched_fire_event tasks env f ev s = Ok (b, s') ->
      ns_tid s <= ns_tid s' /\ ns_sid s <= ns_sid s' /\ ns_test_ids s' = ns_test_ids s /\ ns_ls s' = ns_ls s.
  Proof.
    intros f ev s b s' H. apply sched_fire_event_counters_grow in H as H1.
    apply sched_fire_event_fixed_fields in H as H2.
    destruct H1 as (_ & H1 & H1' & _). destruct H2 as (_ & _ & H2 & H2' & _). auto.
  Qed.

  (* engine_reacts: the engine's own write is [hostile_write] on the notified instance *)
  Theorem engine_reacts_writes : forall (Rl : list api -> list api -> Prop) f,
      (forall l, Rl l l) -> (forall a b c, Rl a b -> Rl b c -> Rl a c) ->
      (forall ev s b s', sched_fire_event tasks env f ev s = Ok (b, s') -> Rl (ns_apis s) (ns_apis s')) ->
      forall k ai s u s' a,
        nth_error (ns_apis s) ai = Some a ->
        engine_reacts tasks env (S f) k ai s = Ok (u, s') ->
        Rl (hostile_write env k ai a (ns_apis s)) (ns_apis s').
  Proof.
    intros Rl f Rr Rt Hs k ai s u s' a Ha H. rewrite engine_reacts_S in H.
    exact (er_body_writes env Rl (sched_fire_event tasks env f) Rr Rt Hs k ai s u s' a Ha H).
  Qed.

  (* the nested fire_event calls, like everything else, keep all static fields: after a
     notification about ai the source list of every instance is what it was *)
  Theorem engine_reacts_static : forall f k ai s u s',
      engine_reacts tasks env f k ai s = Ok (u, s') -> api_static s s'.
  Proof.
    intros f k ai s u s' H.
    exact (proj1 (proj2 (proj2 (proj2 (proj2 (proj2 (proj2 (proj2 (src_block tasks env f)))))))) k ai s u s' H).
  Qed.
End OnTheModel.

(* ---- C15: the hypotheses are inhabited ---- *)

(* the delivered lists of the service-started notifications of service nm to function 0 *)
Definition delivered_to_0 (nm : name) (tr : list callrec) : list (list param) :=
  flat_map (fun e => match e with
                     | ENotif O n _ => if nkind_eqb (n_kind n) SS && Nat.eqb (n_name n) nm then [n_params n] else []
                     | _ => [] end) (flat_map cr_log tr).

Definition ex_hostile (m : nat) : runcase :=
  {| rc_prog := rc_prog ex_case; rc_vals := rc_vals ex_case; rc_imm := rc_imm ex_case;
     rc_script := rc_script ex_case; rc_react := rc_react ex_case; rc_react_all := rc_react_all ex_case;
     rc_mutate := m; rc_test_ids := true |}.

(* on the example of Examples.v, service S2 (name 20) sits in a counting loop and is delivered
   d.items[i]; the generated net has an in-loop API object for it; with a hostile engine in
   every mutation mode the two iterations are delivered d.items[0] and d.items[1], exactly as
   without mutation *)
Example rebuild_inhabited :
  (exists s0 ai a, net_init (p_tasks (rc_prog ex_case)) true = Ok s0 /\
                   nth_error (ns_apis s0) ai = Some a /\ a_name a = 20 /\ a_in_loop a = true /\
                   a_src a = [PPath 16 [PF 8; PIdxVar 19]]) /\
  forall m, m = 1 \/ m = 2 \/ m = 3 ->
            exists tr, run_net (ex_hostile m) = Ok tr /\
                       delivered_to_0 20 tr = [[PPath 16 [PF 8; PIdxLit 0]]; [PPath 16 [PF 8; PIdxLit 1]]].
Proof.
  split.
  - eexists. exists 7. eexists. split; [vm_compute; reflexivity|]. split; [vm_compute; reflexivity|].
    repeat split.
  - intros m [->|[->| ->]]; eexists; (split; [vm_compute; reflexivity|vm_compute; reflexivity]).
Qed.

(* [sched_fire_event_ids] with the definitions unfolded *)
Theorem sched_fire_event_ids_unfolded : forall tasks env f ev s b s',
    sched_fire_event tasks env f ev s = Ok (b, s') ->
    ns_test_ids s = true -> (forall k, NoDup (listeners_of k (ns_ls s))) ->
    ns_tid s <= ns_tid s' /\ ns_sid s <= ns_sid s' /\
    exists new, ns_log s' = new ++ ns_log s /\
      NoDup (sids TS new) /\ NoDup (sids SS new) /\
      (forall x, In x (sids TS new) -> ns_tid s <= x < ns_tid s') /\
      (forall x, In x (sids SS new) -> ns_sid s <= x < ns_sid s').
Proof.
  intros tasks env f ev s b s' H T L.
  destruct (sched_fire_event_ids tasks env f ev s b s' H (conj T L)) as (_ & _ & H3 & H4 & _ & _ & H7).
  exact (conj H3 (conj H4 H7)).
Qed.

(* ---- (e) starting instance bi reads nothing of the delivered list of another instance ai:
        the start prefix commutes with replacing ai's delivered list ---- *)
Definition rmap {A} (g : NS -> NS) (r : res (A * NS)) : res (A * NS) :=
  match r with
  | Ok (x, s1) => Ok (x, g s1)
  | Fuel => Fuel | Exn k => Exn k | Unsupported => Unsupported
  end.

Definition comm {A} (g : NS -> NS) (m : NM A) : Prop := forall s, m (g s) = rmap g (m s).

Lemma upd_comm : forall A i j (f h : A -> A) l, i <> j -> upd i f (upd j h l) = upd j h (upd i f l).
Proof.
  intros A i j f h l. revert i j. induction l as [|x l IH]; intros [|i] [|j] H; cbn; try reflexivity.
  - exfalso. apply H. reflexivity.
  - rewrite IH; [reflexivity|]. intro E. apply H. rewrite E. reflexivity.
Qed.

Section Commute.
  Variable ai : nat.
  Variable ps : list param.
  Let g := with_delivered ai ps.

  Lemma comm_ret : forall A (a : A), comm g (nret a).
  Proof. intros A a s. reflexivity. Qed.
  Lemma comm_fail : forall A (r : res A), comm g (nfail r).
  Proof. intros A r s. unfold nfail. destruct r; reflexivity. Qed.
  Lemma comm_bind : forall A B (m : NM A) (k : A -> NM B),
      comm g m -> (forall a, comm g (k a)) -> comm g (nbind m k).
  Proof.
    intros A B m k Hm Hk s. unfold nbind. rewrite Hm. destruct (m s) as [[a s1]| | |]; cbn [rmap]; try reflexivity.
    apply Hk.
  Qed.
  (* a continuation that reads only fields other than the API objects *)
  Lemma comm_nget : forall A (k : NS -> NM A),
      (forall s0, comm g (k s0)) -> (forall s0, k (g s0) = k s0) -> comm g (nbind nget k).
  Proof. intros A k H1 H2 s. rewrite !nbind_nget, H2. apply H1. Qed.
  (* a continuation that reads only the identifier (or: any API object but ai) *)
  Lemma comm_get_api : forall A i (k : api -> NM A),
      (forall c, comm g (k c)) -> (i = ai -> forall c, k (with_params ps c) = k c) -> comm g (nbind (get_api i) k).
  Proof.
    intros A i k H1 H2 s. unfold nbind at 1 2, get_api. unfold g at 1 2, with_delivered. cbn [ns_apis set].
    change (ns_apis (s <| ns_apis := upd ai (with_params ps) (ns_apis s) |>))
      with (upd ai (with_params ps) (ns_apis s)).
    rewrite nth_error_upd. destruct (Nat.eqb ai i) eqn:E.
    - apply Nat.eqb_eq in E. destruct (nth_error (ns_apis s) i) as [c|]; cbn [option_map]; [|reflexivity].
      rewrite (H2 (eq_sym E) c). apply H1.
    - destruct (nth_error (ns_apis s) i) as [c|]; [|reflexivity]. apply H1.
  Qed.
  Lemma comm_set_api : forall i f, i <> ai -> comm g (set_api i f).
  Proof.
    intros i f H s. unfold set_api, nmod. cbn [rmap]. f_equal. f_equal. unfold g, with_delivered. cbn.
    rewrite upd_comm by exact H. reflexivity.
  Qed.
  Lemma comm_nmod : forall f, (forall s, f (g s) = g (f s)) -> comm g (nmod f).
  Proof. intros f H s. unfold nmod. cbn [rmap]. rewrite H. reflexivity. Qed.
  Lemma comm_fresh_uuid : comm g fresh_uuid.
  Proof. intro s. reflexivity. Qed.
  Lemma comm_new_test_or_uuid : forall b, comm g (new_test_or_uuid b).
  Proof.
    intros b s. unfold new_test_or_uuid. rewrite !nbind_nget.
    change (ns_test_ids (g s)) with (ns_test_ids s). destruct (ns_test_ids s); [destruct b|]; reflexivity.
  Qed.

  Variable tasks : list task.

  Lemma comm_substitute : forall bi, bi <> ai -> comm g (substitute_loop_indexes tasks bi).
  Proof.
    intros bi Hb. unfold substitute_loop_indexes.
    apply comm_get_api; [|intro E; exfalso; exact (Hb E)]. intro b.
    destruct (a_ctx b) as [ci|]; [|apply comm_ret].
    apply comm_get_api; [|intros _ c; reflexivity]. intro c.
    apply comm_nget; [|intro s0; reflexivity]. intro s0.
    destruct (dict_get ident_eqb (a_uuid c) (ns_counters s0)) as [d|]; [|apply comm_ret].
    destruct (subst_all (current_counters' tasks d) [] (a_params b)) as [ps' cur'].
    apply comm_bind; [apply comm_set_api; exact Hb|intros _]. apply comm_nmod. intro s. reflexivity.
  Qed.

  Lemma comm_rebind_uuid : forall b bi u, bi <> ai -> comm g (rebind_uuid b bi u).
  Proof.
    intros b bi u Hb. unfold rebind_uuid.
    apply comm_nget; [|intro s0; reflexivity]. intro s0.
    destruct (dict_get ident_eqb (a_uuid b) (ns_place_dict s0)) as [p|]; [|apply comm_fail].
    apply comm_bind; [apply comm_nmod; intro s; reflexivity|intros _]. apply comm_set_api. exact Hb.
  Qed.

  Theorem ots_prefix_other : forall bi, bi <> ai -> comm g (ots_prefix tasks bi).
  Proof.
    intros bi Hb. unfold ots_prefix.
    apply comm_get_api; [|intro E; exfalso; exact (Hb E)]. intro b.
    apply comm_nget; [|intro s0; reflexivity]. intro s0.
    destruct (a_in_loop b).
    - apply comm_bind; [apply comm_new_test_or_uuid|intro u].
      apply comm_bind; [apply comm_set_api; exact Hb|intros _].
      apply comm_bind; [destruct (a_has_call b); [apply comm_set_api; exact Hb|apply comm_ret]|intros _].
      apply comm_substitute. exact Hb.
    - destruct (ns_test_ids s0); [|apply comm_ret].
      apply comm_bind; [apply comm_new_test_or_uuid|intro u]. apply comm_set_api. exact Hb.
  Qed.

  Theorem oss_prefix_other : forall bi, bi <> ai -> comm g (oss_prefix tasks bi).
  Proof.
    intros bi Hb. unfold oss_prefix.
    apply comm_get_api; [|intro E; exfalso; exact (Hb E)]. intro b.
    apply comm_nget; [|intro s0; reflexivity]. intro s0.
    destruct (a_in_loop b).
    - apply comm_bind; [apply comm_fresh_uuid|intro u0].
      apply comm_bind; [destruct (ns_test_ids s0); [apply comm_new_test_or_uuid|apply comm_ret]|intro u].
      apply comm_bind; [apply comm_rebind_uuid; exact Hb|intros _].
      apply comm_bind; [apply comm_set_api; exact Hb|intros _].
      apply comm_substitute. exact Hb.
    - destruct (ns_test_ids s0); [|apply comm_ret].
      apply comm_bind; [apply comm_new_test_or_uuid|intro u]. apply comm_rebind_uuid. exact Hb.
  Qed.
End Commute.

Lemma params_at_with_delivered_other : forall ai ps bi s,
    bi <> ai -> params_at bi (with_delivered ai ps s) = params_at bi s.
Proof.
  intros ai ps bi s H. unfold params_at, with_delivered. cbn. rewrite nth_error_upd.
  apply Nat.eqb_neq in H. rewrite Nat.eqb_sym, H. reflexivity.
Qed.

(* spelled out: whatever list instance ai holds (e.g. after a hostile engine modified it), the
   start of another instance bi succeeds or fails in the same way and leaves bi with the same
   delivered list *)
Corollary start_prefix_ignores_other_lists : forall tasks ai ps bi s,
    bi <> ai ->
    (forall u s1, ots_prefix tasks bi s = Ok (u, s1) ->
                  exists s1', ots_prefix tasks bi (with_delivered ai ps s) = Ok (u, s1') /\
                              params_at bi s1' = params_at bi s1) /\
    (forall u s1, oss_prefix tasks bi s = Ok (u, s1) ->
                  exists s1', oss_prefix tasks bi (with_delivered ai ps s) = Ok (u, s1') /\
                              params_at bi s1' = params_at bi s1).
Proof.
  intros tasks ai ps bi s Hb. split; intros u s1 H.
  - exists (with_delivered ai ps s1). rewrite (ots_prefix_other ai ps tasks bi Hb s), H. split; [reflexivity|].
    apply params_at_with_delivered_other. exact Hb.
  - exists (with_delivered ai ps s1). rewrite (oss_prefix_other ai ps tasks bi Hb s), H. split; [reflexivity|].
    apply params_at_with_delivered_other. exact Hb.
Qed.

(* ---- the limit of C14 on the faithful model, as theorems ---- *)

(* the statement for EVERY registered function is false *)
Definition unique_for_all_functions : Prop :=
  forall c tr l, run_net c = Ok tr ->
                 NoDup (sids_of l TS (flat_map cr_log tr)) /\ NoDup (sids_of l SS (flat_map cr_log tr)).

Theorem unique_for_all_functions_false : ~ unique_for_all_functions.
Proof.
  intro H. destruct second_listener_duplicates as (tr & H1 & _ & H3).
  destruct (H _ _ 1 H1) as [_ N]. rewrite H3 in N. inversion N as [|x xs Hx _]. apply Hx. left. reflexivity.
Qed.

(* the LOG_EVENT entry of on_service_started re-reads the identifier after the registered
   functions ran: in the same scenario an attached observer is told "service started" with
   identifier 1 twice and never with identifier 0 (function 0 is told 0 and 1) *)
Definition observer_case : runcase :=
  {| rc_prog := rc_prog second_listener_case; rc_vals := []; rc_imm := [true; false; false];
     rc_script := [AAttach 7; AStart];
     rc_react := []; rc_react_all := false; rc_mutate := 0; rc_test_ids := true |}.

Definition obs_ids (k : nkind) (es : list entry) : list nat :=
  flat_map (fun e => match e with EObs _ k' _ id _ => if nkind_eqb k' k then [id] else [] | _ => [] end) es.

Example observer_duplicates :
  exists tr, run_net observer_case = Ok tr /\
             sids SS (flat_map cr_log tr) = [0; 1] /\ obs_ids SS (flat_map cr_log tr) = [1; 1].
Proof. eexists. split; [vm_compute; reflexivity|]. split; vm_compute; reflexivity. Qed.

(* ---- the completion event that becomes awaited carries the announced identifier ---- *)
Theorem service_start_awaits_its_identifier : forall tasks env f ai s u s',
    on_service_started tasks env (S f) ai s = Ok (u, s') ->
    exists u1 s1 id,
      oss_prefix tasks ai s = Ok (u1, s1) /\ uuid_at ai s1 = Some id /\
      notify_user tasks env f SS ai false (s1 <| ns_awaited := ns_awaited s1 ++ [EvFinish id] |>) = Ok (u, s').
Proof.
  intros tasks env f ai s u s' H. rewrite on_service_started_split in H.
  ninv H as u1 s1 E. exists u1, s1. unfold oss_announce in H.
  ninv H as a' s2 E1. apply get_api_inv in E1. destruct E1 as [-> Ea'].
  ninv H as u2 s3 E1. okinv E1.
  exists (a_uuid a'). split; [exact E|]. split; [unfold uuid_at; rewrite Ea'; reflexivity|exact H].
Qed.

(* in test-id mode that identifier is ITest (old ns_sid), the one function 0 is told *)
Corollary service_start_awaits_counter : forall tasks env f ai s u s',
    ns_test_ids s = true ->
    on_service_started tasks env (S f) ai s = Ok (u, s') ->
    exists u1 s1,
      oss_prefix tasks ai s = Ok (u1, s1) /\
      notify_user tasks env f SS ai false
                  (s1 <| ns_awaited := ns_awaited s1 ++ [EvFinish (ITest (ns_sid s))] |>) = Ok (u, s').
Proof.
  intros tasks env f ai s u s' T H.
  destruct (service_start_awaits_its_identifier _ _ _ _ _ _ _ H) as (u1 & s1 & id & H1 & H2 & H3).
  exists u1, s1. split; [exact H1|].
  destruct (started_service_gets_counter tasks ai s u1 s1 T H1) as (H4 & _). rewrite H4 in H2.
  inversion H2; subst id. exact H3.
Qed.

(* ---- NOT proved: C14 in UUID mode ----
   In UUID mode an instance outside loops keeps the identifier drawn by the generator, so
   uniqueness over a history needs that such an instance is started at most once per order --
   a fact about the structure of the generated net, not about the identifier bookkeeping.
   The statement (for function 0, like [run_net_ids_unique]): *)
Definition uuid_mode_unique_statement : Prop :=
  forall tasks env f cs s0 tr,
    net_init tasks false = Ok s0 ->
    net_run_script tasks env f s0 cs = Ok tr ->
    NoDup (sids TS (flat_map cr_log tr)) /\ NoDup (sids SS (flat_map cr_log tr)).

(* what IS proved in UUID mode: every identifier drawn at a start is IUuid of the fresh counter,
   which only grows ([new_test_or_uuid_uuid], NetQuiescent.counters_grow) *)
