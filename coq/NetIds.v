(* NetIds.v — identifiers (C14) and delivered parameter lists (C15) on the FAITHFUL model
   (NetModel.v).

   1. A second frame rule ([wframe], [wframe_block]): like NetQuiescent's [frame_block], but the
      relation only has to respect the updates the mechanism REALLY performs on API objects
      (uuid and parameter list) and on the log (entries that are not notifications; the
      notification entries are a separate obligation [wnotif]).  This is what relations that
      talk about the log or about fields of API objects need.
   2. C14, test-id mode: what a computation adds to the log are started notifications TO
      FUNCTION 0 whose identifiers come from the counter range of that computation, without
      repetition ([IdN]); every function of the mutual block respects it ([ids_block]) -- for
      every environment (re-entrant completions, hostile mutation) and with run-time
      generation --, then the API and scripts ([net_ranged], [net_ids_unique], [net_ids_pairwise]).
      The statement is FALSE for a second registered function ([second_listener_duplicates]).
   3. C15: the source parameter list and the static fields of every API object are never
      written ([src_block], [api_call_static]); for an in-loop instance the delivered list is
      rebuilt from the source at every start, whatever it contained before
      ([on_task_started_rebuilds], [on_service_started_rebuilds]: EQUAL results); what holds for
      instances outside loops; the hostile engine writes the list of the notified instance
      only ([er_body_writes]).
   Proof file. *)
From PFDL Require Import Examples.
From PFDL Require Import NetModel NetRun NetC08 NetQuiescent.
Local Open Scope net_scope.

(* =========================================================================== *)
(* 0. elementary facts                                                           *)
(* =========================================================================== *)

Lemma ident_nat_ITest_inj : forall a b, ident_nat (ITest a) = ident_nat (ITest b) -> a = b.
Proof. intros a b H. exact H. Qed.

(* in test-id mode the identifier handed out is the old counter value, and the counter of
   that kind (and nothing else) is incremented *)
Lemma new_test_or_uuid_test : forall b s,
    ns_test_ids s = true ->
    new_test_or_uuid b s =
    Ok (ITest (if b then ns_tid s else ns_sid s),
        if b then s <| ns_tid := S (ns_tid s) |> else s <| ns_sid := S (ns_sid s) |>).
Proof.
  intros b s H. unfold new_test_or_uuid, nbind, nget. rewrite H. destruct b; reflexivity.
Qed.

(* in UUID mode it is a fresh identifier *)
Lemma new_test_or_uuid_uuid : forall b s,
    ns_test_ids s = false ->
    new_test_or_uuid b s = Ok (IUuid (ns_fresh s), s <| ns_fresh := S (ns_fresh s) |>).
Proof.
  intros b s H. unfold new_test_or_uuid, nbind, nget. rewrite H. reflexivity.
Qed.

(* =========================================================================== *)
(* 1. the second frame rule                                                      *)
(* =========================================================================== *)

(* log entries that are not notifications *)
Definition quietb (es : list entry) : bool :=
  forallb (fun e => match e with ENotif _ _ _ => false | _ => true end) es.

Lemma quietb_queries : forall c vs, quietb (map (fun v => EQuery v c) vs) = true.
Proof. intros c vs. induction vs as [|v vs IH]; [reflexivity|exact IH]. Qed.

Lemma quietb_obs : forall k nm id b os, quietb (map (fun o => EObs o k nm id b) os) = true.
Proof. intros k nm id b os. induction os as [|o os IH]; [reflexivity|exact IH]. Qed.

Record wframe (R : NS -> NS -> Prop) : Prop := {
  w_refl : forall s, R s s;
  w_trans : forall a b c, R a b -> R b c -> R a c;
  w_cbs : forall s index f, R s (s <| ns_cbs := upd index f (ns_cbs s) |>);
  w_fresh_uuid : fpres R fresh_uuid;
  (* the only two updates of API objects in the mechanism *)
  w_set_uuid : forall i u, fpres R (set_api i (with_uuid u));
  w_set_params : forall i ps, fpres R (set_api i (with_params ps));
  w_place_dict : forall s u p, R s (s <| ns_place_dict := (u, p) :: ns_place_dict s |>);
  w_tid : forall s, R s (s <| ns_tid := S (ns_tid s) |>);
  w_sid : forall s, R s (s <| ns_sid := S (ns_sid s) |>);
  (* log entries other than notifications *)
  w_log : forall es, quietb es = true -> fpres R (nlog es);
  w_counters : forall s v, R s (s <| ns_counters := v |>);
  w_q : forall s v, R s (s <| ns_q := v |>);
  w_awaited : forall s v, R s (s <| ns_awaited := v |>);
  w_running : forall s v, R s (s <| ns_running := v |>);
  w_pending : forall s v, R s (s <| ns_pending := v |>);
  w_nss : forall s, R s (s <| ns_nss := S (ns_nss s) |>);
  w_nnot : forall s, R s (s <| ns_nnot := S (ns_nnot s) |>);
  (* the net *)
  w_create_place : fpres R create_place;
  w_create_transition : fpres R create_transition;
  w_add_input : forall p t, fpres R (add_input p t);
  w_add_output : forall p t, fpres R (add_output p t);
  w_add_callback : forall t c, fpres R (add_callback t c);
  w_place_add : forall p, fpres R (place_add p);
  w_fire_trans : forall t, fpres R (fire_trans t);
  w_remove_place : forall p, fpres R (remove_place p);
  w_new_api : forall a, fpres R (new_api a);
  (* generate_petri_net only *)
  w_start_final : forall s p q, R s (s <| ns_start_place := p |> <| ns_final_place := q |>)
}.

(* the notification entries *)
Definition wnotif (R : NS -> NS -> Prop) : Prop := forall l n r, fpres R (nlog [ENotif l n r]).

Section WCombinators.
  Variable R : NS -> NS -> Prop.
  Variable W : wframe R.

  Lemma wp_ext : forall A (m m' : NM A), (forall s, m s = m' s) -> fpres R m' -> fpres R m.
  Proof. intros A m m' E H s a s' H1. rewrite E in H1. eauto. Qed.
  Lemma wp_ret : forall A (a : A), fpres R (nret a).
  Proof. intros A a s a' s' H. inversion H. apply (w_refl R W). Qed.
  Lemma wp_get : fpres R nget.
  Proof. intros s a s' H. inversion H. apply (w_refl R W). Qed.
  Lemma wp_fail : forall A (r : res A), fpres R (nfail r).
  Proof. intros A r s a s' H. unfold nfail in H. destruct r; inversion H. apply (w_refl R W). Qed.
  Lemma wp_bind : forall A B (m : NM A) (k : A -> NM B),
      fpres R m -> (forall a, fpres R (k a)) -> fpres R (nbind m k).
  Proof.
    intros A B m k Hm Hk s b s' H. apply nbind_inv in H. destruct H as (a & s1 & H1 & H2).
    eapply (w_trans R W); [eapply Hm|eapply Hk]; eauto.
  Qed.
  Lemma wp_mod : forall f, (forall s, R s (f s)) -> fpres R (nmod f).
  Proof. intros f Hf s a s' H. inversion H. apply Hf. Qed.
  Lemma wp_nfor : forall A (l : list A) f, (forall x, fpres R (f x)) -> fpres R (nfor l f).
  Proof.
    intros A l f Hf. induction l as [|x l IH]; cbn [nfor].
    - apply wp_ret.
    - apply wp_bind; auto.
  Qed.
  Lemma wp_get_api : forall i, fpres R (get_api i).
  Proof.
    intros i s a s' H. unfold get_api in H. destruct (nth_error (ns_apis s) i); inversion H.
    apply (w_refl R W).
  Qed.
End WCombinators.

Ltac wp_step W :=
  match goal with
  | |- fpres _ (nbind _ _) => apply (wp_bind _ W); [| intro]
  | |- fpres _ (nret _) => apply (wp_ret _ W)
  | |- fpres _ nget => apply (wp_get _ W)
  | |- fpres _ (nfail _) => apply (wp_fail _ W)
  | |- fpres _ (get_api _) => apply (wp_get_api _ W)
  | |- fpres _ (nfor _ _) => apply (wp_nfor _ W); intro
  | |- fpres _ (nmod _) =>
    apply wp_mod; intro; cbv beta;
    first [ apply (w_cbs _ W) | apply (w_place_dict _ W) | apply (w_tid _ W) | apply (w_sid _ W)
          | apply (w_counters _ W) | apply (w_q _ W) | apply (w_awaited _ W) | apply (w_running _ W)
          | apply (w_pending _ W) | apply (w_nss _ W) | apply (w_nnot _ W)
          | apply (w_start_final _ W) ]
  | |- fpres _ fresh_uuid => apply (w_fresh_uuid _ W)
  | |- fpres _ (set_api _ (with_uuid _)) => apply (w_set_uuid _ W)
  | |- fpres _ (set_api _ (with_params _)) => apply (w_set_params _ W)
  | |- fpres _ (nlog _) =>
    apply (w_log _ W); first [reflexivity | apply quietb_queries | apply quietb_obs]
  | |- fpres _ create_place => apply (w_create_place _ W)
  | |- fpres _ create_transition => apply (w_create_transition _ W)
  | |- fpres _ (add_input _ _) => apply (w_add_input _ W)
  | |- fpres _ (add_output _ _) => apply (w_add_output _ W)
  | |- fpres _ (add_callback _ _) => apply (w_add_callback _ W)
  | |- fpres _ (place_add _) => apply (w_place_add _ W)
  | |- fpres _ (fire_trans _) => apply (w_fire_trans _ W)
  | |- fpres _ (remove_place _) => apply (w_remove_place _ W)
  | |- fpres _ (new_api _) => apply (w_new_api _ W)
  | |- fpres _ (if ?b then _ else _) => destruct b
  | |- fpres _ (match ?x with _ => _ end) => destruct x
  | |- fpres _ _ => solve [auto with wpres]
  end.
Ltac wp_tac W := cbv zeta; repeat (wp_step W).

Create HintDb wpres.

Section WFrame.
  Variable R : NS -> NS -> Prop.
  Variable W : wframe R.
  Variable tasks : list task.
  Variable env : envcfg.

  Lemma wp_pop_cb : forall i, fpres R (pop_cb i).
  Proof. intros. unfold pop_cb. wp_tac W. Qed.
  Lemma wp_set_counters : forall u d, fpres R (set_counters u d).
  Proof. intros. unfold set_counters. wp_tac W. Qed.
  Lemma wp_new_test_or_uuid : forall b, fpres R (new_test_or_uuid b).
  Proof. intro b. unfold new_test_or_uuid. wp_tac W. Qed.
  Hint Resolve wp_pop_cb wp_set_counters wp_new_test_or_uuid : wpres.
  Lemma wp_substitute_loop_indexes : forall ai, fpres R (substitute_loop_indexes tasks ai).
  Proof. intro ai. unfold substitute_loop_indexes. wp_tac W. Qed.
  Lemma wp_get_loop_limit : forall lim ctx, fpres R (get_loop_limit env lim ctx).
  Proof. intros. unfold get_loop_limit. wp_tac W. Qed.
  Lemma wp_check_expression : forall e ctx, fpres R (check_expression env e ctx).
  Proof. intros. unfold check_expression. wp_tac W. Qed.
  Lemma wp_rebind_uuid : forall a ai u, fpres R (rebind_uuid a ai u).
  Proof. intros. unfold rebind_uuid. wp_tac W. Qed.
  Hint Resolve wp_substitute_loop_indexes wp_get_loop_limit wp_check_expression wp_rebind_uuid : wpres.

  Lemma wp_each_with : forall rc index, (forall c, fpres R (rc c)) ->
      forall h i, fpres R (each_with rc index h i).
  Proof.
    intros rc index Hrc. induction h as [|h IH]; intro i.
    - cbn [each_with]. wp_tac W.
    - cbn [each_with]. fold (each_with rc index). wp_tac W.
  Qed.
  Hint Resolve wp_each_with : wpres.

  (* ---- the generator ---- *)
  Lemma wp_generate_service : forall n ins at_ ctx t1 t2 il,
      fpres R (generate_service n ins at_ ctx t1 t2 il).
  Proof. intros. unfold generate_service. wp_tac W. Qed.
  Lemma wp_generate_empty_parallel_loop : forall t1 t2, fpres R (generate_empty_parallel_loop t1 t2).
  Proof. intros. unfold generate_empty_parallel_loop. wp_tac W. Qed.
  Hint Resolve wp_generate_service wp_generate_empty_parallel_loop : wpres.

  Lemma wp_gen_go : forall gs n ctx tn pre first last il,
      (forall ctx tn path s t1 t2 il, fpres R (gs ctx tn path s t1 t2 il)) ->
      forall l i prev acc, fpres R (gen_go gs n ctx tn pre first last il i l prev acc).
  Proof.
    intros gs n ctx tn pre first last il Hgs. induction l as [|s r IH]; intros i prev acc.
    - cbn [gen_go]. wp_tac W.
    - cbn [gen_go]. fold (gen_go gs n ctx tn pre first last il). wp_tac W.
  Qed.

  Lemma wp_gen_calls : forall gtc ctx tn path t1 sync il,
      (forall c at_ ctx t1 t2 il, fpres R (gtc c at_ ctx t1 t2 il)) ->
      forall l i, fpres R (gen_calls gtc ctx tn path t1 sync il i l).
  Proof.
    intros gtc ctx tn path t1 sync il Hg. induction l as [|c r IH]; intro i.
    - cbn [gen_calls]. wp_tac W.
    - cbn [gen_calls]. fold (gen_calls gtc ctx tn path t1 sync il). wp_tac W.
  Qed.
  Hint Resolve wp_gen_go wp_gen_calls : wpres.

  Lemma wp_gstmt_body : forall gss gtc,
      (forall ctx tn pre ss first last il, fpres R (gss ctx tn pre ss first last il)) ->
      (forall c at_ ctx t1 t2 il, fpres R (gtc c at_ ctx t1 t2 il)) ->
      forall ctx tn path s t1 t2 il, fpres R (gstmt_body gss gtc ctx tn path s t1 t2 il).
  Proof.
    intros gss gtc H1 H2 ctx tn path s t1 t2 il. unfold gstmt_body. wp_tac W.
  Qed.

  Lemma wp_gtc_body : forall gss,
      (forall ctx tn pre ss first last il, fpres R (gss ctx tn pre ss first last il)) ->
      forall c at_ ctx t1 t2 il, fpres R (gtc_body tasks gss c at_ ctx t1 t2 il).
  Proof. intros gss H1 c at_ ctx t1 t2 il. unfold gtc_body. wp_tac W. Qed.

  Theorem wframe_generate : forall f,
      (forall ctx tn pre ss first last il, fpres R (generate_statements tasks f ctx tn pre ss first last il)) /\
      (forall ctx tn path s t1 t2 il, fpres R (generate_stmt tasks f ctx tn path s t1 t2 il)) /\
      (forall c at_ ctx t1 t2 il, fpres R (generate_task_call tasks f c at_ ctx t1 t2 il)).
  Proof.
    induction f as [|f (IH1 & IH2 & IH3)].
    - split; [|split]; intros; intros ? ? ? HH; discriminate HH.
    - split; [|split]; intros.
      + eapply wp_ext; [intro; apply generate_statements_S|]. apply wp_gen_go. exact IH2.
      + eapply wp_ext; [intro; apply generate_stmt_S|]. apply wp_gstmt_body; assumption.
      + eapply wp_ext; [intro; apply generate_task_call_S|]. apply wp_gtc_body; assumption.
  Qed.

  Lemma wp_generate_petri_net : forall f, fpres R (generate_petri_net tasks f).
  Proof.
    intro f. unfold generate_petri_net.
    pose proof (proj1 (wframe_generate f)) as Hg.
    wp_tac W.
  Qed.

  (* ---- the scheduler block: everything except the notification entries ---- *)
  Lemma wp_parloop_generate : forall v lim ctx c csite ph t1 t2,
      fpres R (parloop_generate tasks env v lim ctx c csite ph t1 t2).
  Proof.
    intros. unfold parloop_generate.
    pose proof (proj2 (proj2 (wframe_generate 200))) as Hg.
    wp_tac W.
  Qed.
  Hint Resolve wp_parloop_generate : wpres.

  Lemma wp_scan_with : forall rc snap, (forall c, fpres R (rc c)) ->
      forall g index, fpres R (scan_with rc snap g index).
  Proof.
    intros rc snap Hrc. induction g as [|g IH]; intro index.
    - cbn [scan_with]. wp_tac W.
    - cbn [scan_with]. fold (scan_with rc snap). wp_tac W.
  Qed.

  Lemma wp_run_cb_body : forall ev_ ots otf oss osf sfe,
      fpres R ev_ -> (forall a, fpres R (ots a)) -> (forall a, fpres R (otf a)) ->
      (forall a, fpres R (oss a)) -> (forall a, fpres R (osf a)) -> (forall e, fpres R (sfe e)) ->
      forall c, fpres R (run_cb_body tasks env ev_ ots otf oss osf sfe c).
  Proof.
    intros ev_ ots otf oss osf sfe H1 H2 H3 H4 H5 H6 c.
    destruct c; cbn [run_cb_body]; unfold await_and_fire; try solve [wp_tac W].
    apply wp_ext with (m' := parloop_generate tasks env v lim ctx c csite ph t1 t2 ;;~ ev_);
      [intro; apply parloop_then_eq|]. wp_tac W.
  Qed.

  Lemma wp_lfe_body : forall ev_, fpres R ev_ -> forall ev, fpres R (lfe_body ev_ ev).
  Proof. intros ev_ H ev. unfold lfe_body. wp_tac W. Qed.
  Lemma wp_sfe_body : forall lfe, (forall e, fpres R (lfe e)) -> forall ev, fpres R (sfe_body lfe ev).
  Proof. intros lfe H ev. unfold sfe_body. wp_tac W. Qed.
  Lemma wp_er_body : forall sfe, (forall e, fpres R (sfe e)) -> forall k ai, fpres R (er_body env sfe k ai).
  Proof. intros sfe H k ai. unfold er_body. wp_tac W. Qed.
  Lemma wp_otf_body : forall nu, (forall a b, fpres R (nu TF a b)) -> forall ai, fpres R (otf_body nu ai).
  Proof. intros nu H ai. unfold otf_body. wp_tac W. Qed.

  (* what notify_user does after the registered functions *)
  Definition nu_tail (k : nkind) (ai : nat) (order_finished : bool) : NM unit :=
    (if order_finished then nmod (fun s => s <| ns_running := false |>) else nret tt) ;;~
    a <~ get_api ai ;;
    s <~ nget ;;
    nlog (map (fun o => EObs o k (a_name a) (ident_nat (a_uuid a)) order_finished) (ns_obs s)).
  Lemma wp_nu_tail : forall k ai b, fpres R (nu_tail k ai b).
  Proof. intros. unfold nu_tail. wp_tac W. Qed.

  (* ---- with the notification entries ---- *)
  Variable WN : wnotif R.

  Lemma wp_notify_each : forall er k ai, (forall k a, fpres R (er k a)) ->
      forall h i, fpres R (notify_each er k ai h i).
  Proof.
    intros er k ai Her. induction h as [|h IH]; intro i.
    - cbn [notify_each]. wp_tac W.
    - cbn [notify_each]. fold (notify_each er k ai).
      apply (wp_bind _ W); [wp_tac W|intro s0].
      destruct (nth_error (listeners_of k (ns_ls s0)) i) as [l|]; [|wp_tac W].
      apply (wp_bind _ W); [wp_tac W|intro a].
      apply (wp_bind _ W); [apply WN|intro].
      wp_tac W.
  Qed.
  Hint Resolve wp_notify_each : wpres.
  Lemma wp_nu_body : forall er, (forall k a, fpres R (er k a)) -> forall k ai b, fpres R (nu_body er k ai b).
  Proof. intros er H k ai b. unfold nu_body. wp_tac W. Qed.
  Lemma wp_ots_body : forall nu, (forall k a b, fpres R (nu k a b)) -> forall ai, fpres R (ots_body tasks nu ai).
  Proof. intros nu H ai. unfold ots_body. wp_tac W. Qed.
  Lemma wp_oss_body : forall nu, (forall k a b, fpres R (nu k a b)) -> forall ai, fpres R (oss_body tasks nu ai).
  Proof. intros nu H ai. unfold oss_body. fold (rebind_uuid). wp_tac W. Qed.

  Theorem wframe_block : forall f,
      fpres R (evaluate tasks env f) /\
      (forall c, fpres R (run_cb tasks env f c)) /\
      (forall a, fpres R (on_task_started tasks env f a)) /\
      (forall a, fpres R (on_service_started tasks env f a)) /\
      (forall a, fpres R (on_service_finished tasks env f a)) /\
      (forall a, fpres R (on_task_finished tasks env f a)) /\
      (forall k a b, fpres R (notify_user tasks env f k a b)) /\
      (forall k a, fpres R (engine_reacts tasks env f k a)) /\
      (forall ev, fpres R (sched_fire_event tasks env f ev)) /\
      (forall ev, fpres R (logic_fire_event tasks env f ev)).
  Proof.
    induction f as [|f (I1 & I2 & I3 & I4 & I5 & I6 & I7 & I8 & I9 & I10)].
    - repeat (split; [intros; intros ? ? ? HH; discriminate HH|]). intros; intros ? ? ? HH; discriminate HH.
    - split; [|split; [|split; [|split; [|split; [|split; [|split; [|split; [|split]]]]]]]]; intros.
      + intros s a s' HH. rewrite evaluate_S in HH. eapply wp_scan_with; eauto.
      + eapply wp_ext; [intro; apply run_cb_S|]. apply wp_run_cb_body; assumption.
      + eapply wp_ext; [intro; apply on_task_started_S|]. apply wp_ots_body; assumption.
      + eapply wp_ext; [intro; apply on_service_started_S|]. apply wp_oss_body; assumption.
      + eapply wp_ext; [intro; apply on_service_finished_S|]. apply I7.
      + eapply wp_ext; [intro; apply on_task_finished_S|]. apply wp_otf_body; intros; apply I7.
      + eapply wp_ext; [intro; apply notify_user_S|]. apply wp_nu_body; assumption.
      + eapply wp_ext; [intro; apply engine_reacts_S|]. apply wp_er_body; assumption.
      + eapply wp_ext; [intro; apply sched_fire_event_S'|]. apply wp_sfe_body; assumption.
      + eapply wp_ext; [intro; apply logic_fire_event_S|]. apply wp_lfe_body; assumption.
  Qed.
End WFrame.

Arguments wframe_generate {R} W tasks f.
Arguments wframe_block {R} W tasks env WN f.
Arguments wp_generate_petri_net {R} W tasks f.

(* small tools for running the monad backwards *)
Ltac ninv H :=
  let a := fresh "a" in let s := fresh "s" in let E := fresh "E" in
  apply nbind_inv in H; destruct H as (a & s & E & H).
Ltac okinv H := inversion H; subst; clear H.

Lemma get_api_inv : forall i s a s', get_api i s = Ok (a, s') -> s' = s /\ nth_error (ns_apis s) i = Some a.
Proof.
  intros i s a s' H. unfold get_api in H. destruct (nth_error (ns_apis s) i); inversion H; auto.
Qed.

(* =========================================================================== *)
(* 2. C14 on the faithful model, test-id mode                                    *)
(* =========================================================================== *)

(* the identifiers of the started notifications of kind k delivered to FUNCTION 0 *)
Definition sid_of (k : nkind) (e : entry) : list nat :=
  match e with
  | ENotif O n _ => if nkind_eqb (n_kind n) k then [n_id n] else []
  | _ => []
  end.
Definition sids (k : nkind) (es : list entry) : list nat := flat_map (sid_of k) es.

Lemma sids_app : forall k a b, sids k (a ++ b) = sids k a ++ sids k b.
Proof. intros. unfold sids. apply flat_map_app. Qed.

Lemma sid_of_short : forall k e, rev (sid_of k e) = sid_of k e.
Proof. intros k [[|l] n r| | | |]; cbn; try reflexivity. destruct (nkind_eqb (n_kind n) k); reflexivity. Qed.

Lemma sids_rev : forall k es, sids k (rev es) = rev (sids k es).
Proof.
  intros k es. induction es as [|e es IH]; [reflexivity|].
  cbn [rev]. rewrite sids_app, IH. unfold sids at 2 3. cbn [flat_map]. rewrite app_nil_r, rev_app_distr, sid_of_short.
  reflexivity.
Qed.

Lemma sids_quiet : forall k es, quietb es = true -> sids k es = [].
Proof.
  intros k es. induction es as [|e es IH]; intro H; [reflexivity|].
  cbn in H. apply andb_true_iff in H. destruct H as [H1 H2]. unfold sids. cbn [flat_map].
  fold (sids k es). rewrite (IH H2). destruct e; try discriminate H1; reflexivity.
Qed.

Lemma quietb_rev : forall es, quietb (rev es) = quietb es.
Proof.
  intro es. unfold quietb. induction es as [|e es IH]; [reflexivity|].
  cbn [rev]. rewrite forallb_app, IH. cbn. rewrite andb_true_r. apply andb_comm.
Qed.

(* what a computation adds at the head of the log: started notifications to function 0 carry
   pairwise different identifiers from [lt, ns_tid s') resp. [ls, ns_sid s') *)
Definition IdB (lt ls : nat) (s s' : NS) : Prop :=
  ns_test_ids s' = ns_test_ids s /\ ns_ls s' = ns_ls s /\
  ns_tid s <= ns_tid s' /\ ns_sid s <= ns_sid s' /\
  lt <= ns_tid s /\ ls <= ns_sid s /\
  exists new, ns_log s' = new ++ ns_log s /\
    NoDup (sids TS new) /\ NoDup (sids SS new) /\
    (forall x, In x (sids TS new) -> lt <= x < ns_tid s') /\
    (forall x, In x (sids SS new) -> ls <= x < ns_sid s').

(* the identifiers come from the counter range of the computation itself *)
Definition IdN (s s' : NS) : Prop := IdB (ns_tid s) (ns_sid s) s s'.

Lemma NoDup_app_ranges : forall (l1 l2 : list nat) lo mid hi,
    NoDup l1 -> NoDup l2 ->
    (forall x, In x l1 -> mid <= x < hi) -> (forall x, In x l2 -> lo <= x < mid) ->
    NoDup (l1 ++ l2).
Proof.
  intros l1 l2 lo mid hi N1 N2 H1 H2. induction N1 as [|x l1 Hx N1 IH]; [exact N2|].
  cbn. constructor.
  - intro Hi. apply in_app_iff in Hi. destruct Hi as [Hi|Hi]; [exact (Hx Hi)|].
    specialize (H1 x (or_introl eq_refl)). specialize (H2 x Hi). lia.
  - apply IH. intros y Hy. apply H1. right. exact Hy.
Qed.

Lemma IdN_refl : forall s, IdN s s.
Proof.
  intro s. unfold IdN, IdB. repeat (split; [first [reflexivity | lia]|]).
  exists []. cbn. split; [reflexivity|]. split; [constructor|]. split; [constructor|].
  split; intros x [].
Qed.

Lemma IdB_IdN_trans : forall lt ls a b c, IdB lt ls a b -> IdN b c -> IdB lt ls a c.
Proof.
  intros lt ls a b c (A1 & A2 & A3 & A4 & A5 & A6 & n1 & A7 & A8 & A9 & A10 & A11)
         (B1 & B2 & B3 & B4 & _ & _ & n2 & B7 & B8 & B9 & B10 & B11).
  unfold IdB. repeat (split; [first [congruence | lia]|]).
  exists (n2 ++ n1). split; [rewrite B7, A7, app_assoc; reflexivity|]. rewrite !sids_app.
  split; [eapply NoDup_app_ranges; eauto|]. split; [eapply NoDup_app_ranges; eauto|].
  split; intros x Hx; apply in_app_iff in Hx; destruct Hx as [Hx|Hx].
  - specialize (B10 x Hx). lia.
  - specialize (A10 x Hx). lia.
  - specialize (B11 x Hx). lia.
  - specialize (A11 x Hx). lia.
Qed.

Lemma IdN_trans : forall a b c, IdN a b -> IdN b c -> IdN a c.
Proof. intros a b c H1 H2. exact (IdB_IdN_trans _ _ _ _ _ H1 H2). Qed.

(* a step that logs no started notification to function 0 *)
Lemma IdN_step : forall s s' es,
    ns_test_ids s' = ns_test_ids s -> ns_ls s' = ns_ls s ->
    ns_tid s <= ns_tid s' -> ns_sid s <= ns_sid s' ->
    ns_log s' = es ++ ns_log s -> sids TS es = [] -> sids SS es = [] -> IdN s s'.
Proof.
  intros s s' es H1 H2 H3 H4 H5 H6 H7. unfold IdN, IdB.
  repeat (split; [first [assumption | lia]|]). exists es. split; [exact H5|]. rewrite H6, H7.
  split; [constructor|]. split; [constructor|]. split; intros x [].
Qed.

(* earlier entries in front of a computation *)
Lemma IdB_prepend : forall lt ls lt1 ls1 s s1 s' es,
    ns_test_ids s1 = ns_test_ids s -> ns_ls s1 = ns_ls s -> ns_tid s1 = ns_tid s -> ns_sid s1 = ns_sid s ->
    ns_log s1 = es ++ ns_log s ->
    NoDup (sids TS es) -> NoDup (sids SS es) ->
    (forall x, In x (sids TS es) -> lt <= x < lt1) -> (forall x, In x (sids SS es) -> ls <= x < ls1) ->
    lt <= lt1 -> ls <= ls1 ->
    IdB lt1 ls1 s1 s' -> IdB lt ls s s'.
Proof.
  intros lt ls lt1 ls1 s s1 s' es H1 H2 H3 H4 H5 N1 N2 R1 R2 L1 L2
         (B1 & B2 & B3 & B4 & B5 & B6 & n2 & B7 & B8 & B9 & B10 & B11).
  unfold IdB. repeat (split; [first [congruence | lia]|]).
  exists (n2 ++ es). split; [rewrite B7, H5, app_assoc; reflexivity|]. rewrite !sids_app.
  split; [eapply NoDup_app_ranges; eauto|]. split; [eapply NoDup_app_ranges; eauto|].
  split; intros x Hx; apply in_app_iff in Hx; destruct Hx as [Hx|Hx].
  - specialize (B10 x Hx). lia.
  - specialize (R1 x Hx). lia.
  - specialize (B11 x Hx). lia.
  - specialize (R2 x Hx). lia.
Qed.

(* the statement needs: test-id mode, and no function registered twice for a kind *)
Definition Good (s : NS) : Prop :=
  ns_test_ids s = true /\ forall k, NoDup (listeners_of k (ns_ls s)).

Definition IdC (s s' : NS) : Prop := Good s -> IdN s s'.

Lemma IdN_Good : forall lt ls s s', IdB lt ls s s' -> Good s -> Good s'.
Proof. intros lt ls s s' (H1 & H2 & _) [G1 G2]. split; [congruence|]. rewrite H2. exact G2. Qed.

Lemma IdC_refl : forall s, IdC s s.
Proof. intros s _. apply IdN_refl. Qed.
Lemma IdC_trans : forall a b c, IdC a b -> IdC b c -> IdC a c.
Proof.
  intros a b c H1 H2 G. specialize (H1 G). eapply IdN_trans; [exact H1|]. apply H2.
  eapply IdN_Good; eauto.
Qed.

Ltac IdC_prim :=
  intros; try (match goal with |- fpres _ _ => intros ? ? ? HH; inversion HH; subst; clear HH end);
  intros _; apply IdN_step with (es := []); cbn; auto with arith.

Theorem IdC_wframe : wframe IdC.
Proof.
  constructor; try solve [IdC_prim]; try exact IdC_refl; try exact IdC_trans.
  (* quiet log entries *)
  intros es Hq s a s' HH. inversion HH; subst; clear HH. intros _.
    apply IdN_step with (es := rev es); cbn; auto; apply sids_quiet; rewrite quietb_rev; exact Hq.
Qed.
