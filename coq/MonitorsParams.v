(* MonitorsParams.v — executable monitor for C15 (delivered call parameters), for ALL schedules.
   Definitions only (model support file); theorems: RefDecide.v / RefParams.v.

   The monitor is the decision-following monitor of MonitorsDecide.v with its hook: every
   listener-0 STARTED notification (service started, task started) in the context of a task
   instance c is also tested against the new record of c, which holds the position p of the started
   statement in c's task tn and the iteration counters of the counting loops / instance numbers of
   the parallel loops around it:
       n_params  =  subst_params ie (ins_at tasks tn p)
   where [ins_at] is the parameter list written at that site of the SOURCE program (a service, a
   task call, the j-th call of a Parallel, the call of a parallel loop) and [ie] binds, innermost
   first, the variable of every counting loop / parallel loop of THIS task whose body contains p
   to the loop's current counter / the instance number ([lv_at] = the loop variable at a
   position).  A called task starts with the empty environment: a variable of the caller is not
   substituted in the callee; an index variable outside every loop that binds it stays as written;
   an inner loop with the same variable shadows the outer one.  The instances of a parallel loop
   are numbered in the order of their task-started notifications (the reference semantics starts
   them in the order 0, 1, ...).  The production task's own notification (no context) carries no
   parameters and is not tested.  When the underlying monitor gives up (fuel), this one does too. *)
From PFDL Require Export MonitorsDecide.

Fixpoint ins_path (ss : list stmt) (p : list nat) {struct p} : list param :=
  match p with
  | [] => []
  | i :: rest =>
    match nth_error ss i with
    | None => []
    | Some (SService _ ins _) => match rest with [] => ins | _ => [] end
    | Some (SCall c) => match rest with [] => c_ins c | _ => [] end
    | Some (SParallel cs) =>
      match rest with
      | [j] => match nth_error cs j with Some c => c_ins c | None => [] end
      | _ => []
      end
    | Some (SWhile _ b) => match rest with [] => [] | _ => ins_path b rest end
    | Some (SCount false _ _ b) => match rest with [] => [] | _ => ins_path b rest end
    | Some (SCount true _ _ b) =>
      match rest with
      | [O] => match b with [SCall c] => c_ins c | _ => [] end
      | _ => []
      end
    | Some (SCond _ ps fs) =>
      match rest with
      | O :: rest' => ins_path ps rest'
      | 1 :: rest' => ins_path fs rest'
      | _ => []
      end
    end
  end.

(* the variable of the counting loop / parallel loop at a position *)
Fixpoint lv_path (ss : list stmt) (p : list nat) {struct p} : option name :=
  match p with
  | [] => None
  | i :: rest =>
    match nth_error ss i with
    | Some (SWhile _ b) => match rest with [] => None | _ => lv_path b rest end
    | Some (SCount false v _ b) => match rest with [] => Some v | _ => lv_path b rest end
    | Some (SCount true v _ _) => match rest with [] => Some v | _ => None end
    | Some (SCond _ ps fs) =>
      match rest with
      | O :: rest' => lv_path ps rest'
      | 1 :: rest' => lv_path fs rest'
      | _ => None
      end
    | _ => None
    end
  end.

Definition ins_at (tasks : list task) (tn : name) (p : list nat) : list param :=
  match find_task tn tasks with Some t => ins_path (t_body t) p | None => [] end.
Definition lv_at (tasks : list task) (tn : name) (p : list nat) : option name :=
  match find_task tn tasks with Some t => lv_path (t_body t) p | None => None end.

(* the index environment at position p: the loops at the nonempty prefixes of p, innermost first *)
Fixpoint ie_go (LVt : list nat -> option name) (cn : cnts) (q rest : list nat) (acc : ienv) : ienv :=
  match rest with
  | [] => acc
  | i :: r => ie_go LVt cn (q ++ [i]) r
                    (match LVt (q ++ [i]) with Some v => (v, getc (q ++ [i]) cn) :: acc | None => acc end)
  end.
Definition ie_of (LVt : list nat -> option name) (cn : cnts) (p : list nat) : ienv := ie_go LVt cn [] p [].

Definition chk_params (INS : name -> list nat -> list param) (LV : name -> list nat -> option name)
    (r : drec) (n : notif) : bool :=
  match d_last r with
  | Some p => list_eqb param_eqb (n_params n) (subst_params (ie_of (LV (d_task r)) (d_cnt r) p) (INS (d_task r) p))
  | None => false
  end.

Definition mon_params (c : runcase) (tr : list callrec) : bool :=
  holds_check_with (gk_at (p_tasks (rc_prog c))) (orc_of (rc_vals c))
                   (chk_params (ins_at (p_tasks (rc_prog c))) (lv_at (p_tasks (rc_prog c)))) decide_fuel tr.

Definition mon_C15 (c : runcase) (tr : list callrec) : bool := mon_decide c tr && mon_params c tr.
