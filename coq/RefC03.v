(* RefC03.v — every run of the reference semantics satisfies the fork / join monitors of
   MonitorsFork.v (C03: all branches of a Parallel are started in one call, in order, the
   follower starts in the call that finishes the last branch; C06: all instances of a parallel
   loop are started in one call, exactly as many as the limit read at that moment), for all
   schedules.  The induction strengthens the one of RefC07.v as RefC04.v / RefC02.v do.
   Proof file. *)
From PFDL Require Import RefSem RunCase Monitors MonitorsSeq MonitorsFork RefBase RefClosure RefShape RefC01 RefC07
     RefC04 RefProgress RefC02 Examples.
From Coq Require Import Lia Permutation.

(* ===================================================================== *)
(* 1. association lists                                                    *)
(* ===================================================================== *)
Lemma assoc_dropk_same : forall V k (l : list (nat * V)), assoc k (dropk k l) = None.
Proof.
  intros V k l. induction l as [|[k' v] l IH]; [reflexivity|]. cbn [dropk filter fst].
  destruct (Nat.eqb k' k) eqn:E; cbn [negb].
  - exact IH.
  - cbn [assoc]. rewrite Nat.eqb_sym, E. exact IH.
Qed.

Lemma assoc_dropk_other : forall V k k' (l : list (nat * V)), k <> k' -> assoc k (dropk k' l) = assoc k l.
Proof.
  intros V k k' l Hne. induction l as [|[k1 v] l IH]; [reflexivity|]. cbn [dropk filter fst].
  destruct (Nat.eqb k1 k') eqn:E; cbn [negb].
  - cbn [assoc]. apply Nat.eqb_eq in E. subst k1.
    assert (Nat.eqb k k' = false) as -> by (apply Nat.eqb_neq; exact Hne). exact IH.
  - cbn [assoc]. destruct (Nat.eqb k k1); [reflexivity|exact IH].
Qed.

Lemma dropk_absent : forall V k (l : list (nat * V)), assoc k l = None -> dropk k l = l.
Proof.
  intros V k l. induction l as [|[k1 v] l IH]; intro H; [reflexivity|]. cbn [assoc] in H. cbn [dropk filter fst].
  destruct (Nat.eqb k k1) eqn:E; [discriminate|]. rewrite Nat.eqb_sym, E. cbn [negb]. f_equal. apply IH. exact H.
Qed.

Lemma assoc_none_key : forall V k (l : list (nat * V)) x, assoc k l = None -> In x l -> fst x <> k.
Proof.
  intros V k l. induction l as [|[k1 v] l IH]; intros x H Hi; [contradiction|]. cbn [assoc] in H.
  destruct (Nat.eqb k k1) eqn:E; [discriminate|]. destruct Hi as [<-|Hi].
  - cbn. apply Nat.eqb_neq in E. congruence.
  - apply IH; assumption.
Qed.

Lemma assoc_none_all : forall V k (l : list (nat * V)), (forall x, In x l -> fst x <> k) -> assoc k l = None.
Proof.
  intros V k l. induction l as [|[k1 v] l IH]; intro H; [reflexivity|]. cbn [assoc].
  destruct (Nat.eqb k k1) eqn:E.
  - apply Nat.eqb_eq in E. exfalso. apply (H (k1, v)); [left; reflexivity|cbn; congruence].
  - apply IH. intros x Hx. apply H. right. exact Hx.
Qed.

Lemma in_dropk : forall V k (l : list (nat * V)) x, In x (dropk k l) -> In x l /\ fst x <> k.
Proof.
  intros V k l x H. unfold dropk in H. apply filter_In in H. destruct H as [H1 H2]. split; [exact H1|].
  apply negb_true_iff in H2. apply Nat.eqb_neq in H2. exact H2.
Qed.

(* ===================================================================== *)
(* 2. the monitor: generic facts                                           *)
(* ===================================================================== *)
Section ForkFacts.
  Variable FAN : name -> list nat -> fan.
  Variable orc : oracle.

  Lemma fork_log_app : forall cp cl a b S,
      fork_log FAN orc cp cl S (a ++ b) =
      match fork_log FAN orc cp cl S a with Some S1 => fork_log FAN orc cp cl S1 b | None => None end.
  Proof.
    intros cp cl. induction a as [|e a IH]; intros b S; [reflexivity|]. cbn [app fork_log].
    destruct (fork_entry FAN orc cp cl S e); [apply IH|reflexivity].
  Qed.

  (* the rules can only be switched off *)
  Lemma andb_gate : forall (c x y : bool), c = true -> (negb true || x) && (negb true || y) = true ->
      forall cp cl, (negb cp || x) && (negb cl || y) = true.
  Proof. intros c x y _ H cp cl. cbn in H. apply andb_true_iff in H. destruct H as [-> ->]. rewrite !orb_true_r. reflexivity. Qed.

  Lemma fork_start_mono : forall cp cl S tk n S',
      fork_start FAN orc true true S tk n = Some S' -> fork_start FAN orc cp cl S tk n = Some S'.
  Proof.
    intros cp cl S tk n S' H. unfold fork_start in *. destruct (n_ctx n) as [c|]; [|exact H].
    destruct (classify (FAN (st_task (n_site n))) tk (st_path (n_site n))) as [r j m|r f|];
      match type of H with (if ?X then _ else _) = _ => destruct X eqn:E end; try discriminate;
      rewrite (andb_gate true _ _ eq_refl E cp cl); exact H.
  Qed.

  Lemma fork_notif_mono : forall cp cl S n S',
      fork_notif FAN orc true true S n = Some S' -> fork_notif FAN orc cp cl S n = Some S'.
  Proof.
    intros cp cl S n S' H. unfold fork_notif in *. destruct (n_kind n); try (apply fork_start_mono; exact H); try exact H.
    unfold fork_finish_task in *. destruct (remove_first (oi_eqb (oi_of n)) (fk_tasks S)); [|discriminate].
    match type of H with (if ?X then _ else _) = _ => destruct X eqn:E end; try discriminate.
    rewrite (andb_gate true _ _ eq_refl E cp cl). exact H.
  Qed.

  Lemma fork_log_mono : forall cp cl log S S',
      fork_log FAN orc true true S log = Some S' -> fork_log FAN orc cp cl S log = Some S'.
  Proof.
    intros cp cl. induction log as [|e log IH]; intros S S' H; [exact H|]. cbn [fork_log] in *.
    destruct (fork_entry FAN orc true true S e) as [S1|] eqn:E; [|discriminate].
    assert (E' : fork_entry FAN orc cp cl S e = Some S1).
    { destruct e as [[|l] n r| | | |]; cbn [fork_entry] in *; try exact E. apply fork_notif_mono. exact E. }
    rewrite E'. apply IH. exact H.
  Qed.

  Lemma fork_settled_mono : forall cp cl S, fork_settled FAN true true S = true -> fork_settled FAN cp cl S = true.
  Proof. intros cp cl S H. unfold fork_settled in *. apply (andb_gate true _ _ eq_refl H). Qed.

  Lemma fork_run_mono : forall cp cl tr S, fork_run FAN orc true true S tr = true -> fork_run FAN orc cp cl S tr = true.
  Proof.
    intros cp cl. induction tr as [|r tr IH]; intros S H; [reflexivity|]. cbn [fork_run] in *.
    destruct (fork_log FAN orc true true (fork_new_call S) (cr_log r)) as [S1|] eqn:E; [|discriminate].
    rewrite (fork_log_mono _ _ _ _ _ E). apply andb_true_iff in H. destruct H as [H1 H2].
    rewrite (fork_settled_mono _ _ _ H1). cbn. apply IH. exact H2.
  Qed.
End ForkFacts.

(* ===================================================================== *)
(* 3. bodies whose positions fan out as the classification says            *)
(* ===================================================================== *)
Definition lim_fan (lim : limit) : fan := match lim with LimInt n => FLit n | LimPath v p => FVar v p end.

Section Forked.
  Variable FAN : name -> list nat -> fan.

  Fixpoint forked (tn : name) (q : list nat) (s : xstmt) {struct s} : Prop :=
    match s with
    | XService _ at_ _ => at_ = mksite tn q
    | XCall t at_ _ body =>
      at_ = mksite tn q /\ FAN t [] = FNone /\ all_from (fun i s1 => forked t ([] ++ [i]) s1) 0 body
    | XParallel bs =>
      FAN tn q = FPar (List.length bs) /\ all_from (fun j b => is_call b = true /\ forked tn (q ++ [j]) b) 0 bs
    | XCond _ p f =>
      FAN tn (q ++ [0]) = FNone /\ FAN tn (q ++ [1]) = FNone /\
      all_from (fun i s1 => forked tn ((q ++ [0]) ++ [i]) s1) 0 p /\
      all_from (fun i s1 => forked tn ((q ++ [1]) ++ [i]) s1) 0 f
    | XWhile _ b => FAN tn q = FNone /\ all_from (fun i s1 => forked tn (q ++ [i]) s1) 0 b
    | XCount _ _ b => FAN tn q = FNone /\ all_from (fun i s1 => forked tn (q ++ [i]) s1) 0 b
    | XParLoop _ lim c => FAN tn q = lim_fan lim /\ is_call c = true /\ forked tn (q ++ [0]) c
    end.

  Definition fblock (tn : name) (pre : list nat) (ss : list xstmt) : Prop :=
    all_from (fun i s1 => forked tn (pre ++ [i]) s1) 0 ss.

  Definition forked_body (body : list xstmt) : Prop :=
    FAN production_task [] = FNone /\ fblock production_task [] body.

  Lemma fblock_nth : forall tn pre ss i s, fblock tn pre ss -> nth_error ss i = Some s -> forked tn (pre ++ [i]) s.
  Proof. intros tn pre ss i s H Hn. exact (all_from_nth _ _ _ 0 i s H Hn). Qed.

  Lemma classify_other : forall tn pre i tk, FAN tn pre = FNone -> classify (FAN tn) tk (pre ++ [i]) = FOther.
  Proof. intros tn pre i tk H. unfold classify. rewrite unsnoc_app, H. destruct tk; reflexivity. Qed.

  Lemma classify_branch : forall tn P j n, FAN tn P = FPar n -> classify (FAN tn) true (P ++ [j]) = FBranch P j n.
  Proof. intros tn P j n H. unfold classify. rewrite unsnoc_app, H. reflexivity. Qed.

  Lemma classify_inst : forall tn P j lim, FAN tn P = lim_fan lim -> classify (FAN tn) true (P ++ [j]) = FInst P (lim_fan lim).
  Proof. intros tn P j lim H. unfold classify. rewrite unsnoc_app, H. destruct lim; reflexivity. Qed.
End Forked.

(* ===================================================================== *)
(* 4. the monitor next to the log of the scheduler                         *)
(* ===================================================================== *)
Definition NoKidsT (c : nat) (L : life) : Prop := forall o, In o (lf_tasks L) -> oi_ctx o <> Some c.

Lemma existsb_false_all : forall A (p : A -> bool) l, (forall x, In x l -> p x = false) -> existsb p l = false.
Proof.
  intros A p l H. destruct (existsb p l) eqn:E; [|reflexivity]. apply existsb_exists in E.
  destruct E as (x & Hi & Hp). rewrite (H x Hi) in Hp. discriminate.
Qed.

Lemma fan_kid_nokids : forall F pl c tasks, (forall o, In o tasks -> oi_ctx o <> Some c) -> fan_kid F pl c tasks = false.
Proof.
  intros F pl c tasks H. unfold fan_kid. apply existsb_false_all. intros o Hi.
  destruct (ctx_is c o) eqn:E; [|reflexivity]. apply ctx_is_true in E. exfalso. exact (H o Hi E).
Qed.

Lemma live_nokids : forall c r tasks, (forall o, In o tasks -> oi_ctx o <> Some c) -> live c r tasks = false.
Proof.
  intros c r tasks H. unfold live. apply existsb_false_all. intros o Hi.
  destruct (ctx_is c o) eqn:E; [|reflexivity]. apply ctx_is_true in E. exfalso. exact (H o Hi E).
Qed.

Lemma live_in : forall c r tasks o, In o tasks -> oi_ctx o = Some c -> parent_is r o = true -> live c r tasks = true.
Proof.
  intros c r tasks o Hi Hc Hp. unfold live. apply existsb_exists. exists o. split; [exact Hi|].
  rewrite (proj2 (ctx_is_true c o) Hc), Hp. reflexivity.
Qed.

Lemma live_true : forall c r tasks, live c r tasks = true -> exists o, In o tasks /\ oi_ctx o = Some c /\ parent_is r o = true.
Proof.
  intros c r tasks H. unfold live in H. apply existsb_exists in H. destruct H as (o & Hi & Hp).
  apply andb_true_iff in Hp. destruct Hp as [H1 H2]. exists o. split; [exact Hi|]. split; [apply ctx_is_true; exact H1|exact H2].
Qed.

Lemma parent_is_app : forall r j o tn, oi_site o = mksite tn (r ++ [j]) -> parent_is r o = true.
Proof. intros r j o tn H. unfold parent_is. rewrite H. cbn [mksite st_path]. rewrite unsnoc_app. apply list_eqb_refl_nat. Qed.

Section Log.
  Variable FAN : name -> list nat -> fan.
  Variable orc : oracle.

  Definition fnotif := fork_notif FAN orc true true.
  Definition flog := fork_log FAN orc true true.

  Fixpoint fnotifs (S : forkst) (ns : list notif) : option forkst :=
    match ns with
    | [] => Some S
    | n :: t => match fnotif S n with Some S' => fnotifs S' t | None => None end
    end.

  Lemma flog_noq : forall log S, Forall noq log -> flog S log = fnotifs S (map fst (ee_notifs log)).
  Proof.
    induction log as [|e log IH]; intros S H; [reflexivity|]. inversion H as [|? ? He Hr]; subst.
    rewrite ee_cons. unfold flog in *. cbn [fork_log].
    destruct e as [[|l] n r|o kk nm id fl|v cc|fi|fi fr]; cbn [fork_entry app map fst fnotifs]; try (apply IH; exact Hr).
    - fold fnotif. destruct (fnotif S n); [apply IH; exact Hr|reflexivity].
    - contradiction.
  Qed.

  Definition FQ (F0 : forkst) (g : G) (L : life) (F : forkst) : Prop :=
    flog F0 (rev (g_log g)) = Some F /\ fk_tasks F = lf_tasks L /\ fk_q F = g_q g.

  Lemma FQ_new : forall F0 g g' L L' F F' new,
      FQ F0 g L F -> g_log g' = rev new ++ g_log g -> flog F new = Some F' ->
      fk_tasks F' = lf_tasks L' -> fk_q F' = g_q g' -> FQ F0 g' L' F'.
  Proof.
    intros F0 g g' L L' F F' new (H1 & H2 & H3) Hl Hn Ht Hq. split; [|split; assumption].
    rewrite Hl, rev_app_distr, rev_involutive. unfold flog. rewrite fork_log_app. fold flog. rewrite H1. exact Hn.
  Qed.

  Lemma FQ_same : forall F0 g g' L F, FQ F0 g L F -> g_log g' = g_log g -> g_q g' = g_q g -> FQ F0 g' L F.
  Proof. intros F0 g g' L F (H1 & H2 & H3) Hl Hq. split; [rewrite Hl; exact H1|]. split; [exact H2|congruence]. Qed.

  Lemma fnotif_q : forall S n S', fnotif S n = Some S' -> fk_q S' = fk_q S.
  Proof.
    intros S n S' H. unfold fnotif, fork_notif in H. destruct (n_kind n).
    - unfold fork_start in H. destruct (n_ctx n); [|inv H; reflexivity].
      destruct (classify _ _ _); match type of H with (if ?X then _ else _) = _ => destruct X end; try discriminate; inv H; reflexivity.
    - unfold fork_finish_task in H. destruct (remove_first _ _); [|discriminate].
      match type of H with (if ?X then _ else _) = _ => destruct X end; try discriminate. inv H. reflexivity.
    - unfold fork_start in H. destruct (n_ctx n); [|inv H; reflexivity].
      destruct (classify _ _ _); match type of H with (if ?X then _ else _) = _ => destruct X end; try discriminate; inv H; reflexivity.
    - inv H. reflexivity.
  Qed.

  Lemma fnotif_tasks : forall S L n L' S',
      fk_tasks S = lf_tasks L -> life_step L n = Some L' -> fnotif S n = Some S' -> fk_tasks S' = lf_tasks L'.
  Proof.
    intros S L n L' S' HT HL H. unfold life_step in HL. unfold fnotif, fork_notif in H. destruct (n_kind n).
    - match type of HL with (if ?X then _ else _) = _ => destruct X end; [|discriminate]. inv HL. cbn [lf_tasks].
      unfold fork_start in H. destruct (n_ctx n); [|inv H; cbn; congruence].
      destruct (classify _ _ _); match type of H with (if ?X then _ else _) = _ => destruct X end; try discriminate; inv H; cbn; congruence.
    - rewrite <- HT in HL. unfold fork_finish_task in H.
      destruct (remove_first (oi_eqb (oi_of n)) (fk_tasks S)) as [rest|]; [|discriminate].
      match type of HL with (if ?X then _ else _) = _ => destruct X end; [discriminate|]. inv HL. cbn [lf_tasks].
      match type of H with (if ?X then _ else _) = _ => destruct X end; try discriminate. inv H. reflexivity.
    - match type of HL with (if ?X then _ else _) = _ => destruct X end; [|discriminate]. inv HL. cbn [lf_tasks].
      unfold fork_start in H. destruct (n_ctx n); [|inv H; cbn; congruence].
      destruct (classify _ _ _); match type of H with (if ?X then _ else _) = _ => destruct X end; try discriminate; inv H; cbn; congruence.
    - destruct (remove_first (oi_eqb (oi_of n)) (lf_svcs L)); [|discriminate]. inv HL. inv H. cbn. exact HT.
  Qed.

  (* one notification *)
  Lemma FQ_emit : forall F0 n flag g u g' L L' F F',
      emit_gen n flag g = Ok (u, g') -> lst_all (g_ls g) -> FQ F0 g L F ->
      life_step L n = Some L' -> fnotif F n = Some F' -> FQ F0 g' L' F'.
  Proof.
    intros F0 n flag g u g' L L' F F' H Hl HQ HL HF.
    destruct (emit_new _ _ _ _ _ H Hl) as (new & H1 & H2 & H3).
    apply emit_gen_facts in H. destruct H as (_ & _ & _ & _ & _ & _ & H7 & _).
    eapply FQ_new; [exact HQ|exact H1| | |].
    - rewrite (flog_noq _ _ H2), H3. cbn [fnotifs]. rewrite HF. reflexivity.
    - eapply fnotif_tasks; [apply HQ|exact HL|exact HF].
    - rewrite (fnotif_q _ _ _ HF), H7. apply HQ.
  Qed.

  (* queries *)
  Definition qstep (S : forkst) (c : nat) : forkst :=
    {| fk_tasks := fk_tasks S; fk_par := fk_par S; fk_pl := fk_pl S; fk_owe := fk_owe S;
       fk_q := Datatypes.S (fk_q S); fk_lastq := (c, fk_q S) :: dropk c (fk_lastq S) |}.

  Record QEx (c : nat) (F F' : forkst) : Prop := {
    qx_tasks : fk_tasks F' = fk_tasks F;
    qx_par : fk_par F' = fk_par F;
    qx_pl : fk_pl F' = fk_pl F;
    qx_owe : fk_owe F' = fk_owe F;
    qx_lq : forall k, k <> c -> assoc k (fk_lastq F') = assoc k (fk_lastq F)
  }.

  Lemma QEx_refl : forall c F, QEx c F F.
  Proof. intros. constructor; reflexivity. Qed.

  Lemma QEx_step : forall c F, QEx c F (qstep F c).
  Proof.
    intros c F. constructor; try reflexivity. intros k Hk. cbn [qstep fk_lastq assoc].
    assert (Nat.eqb k c = false) as -> by (apply Nat.eqb_neq; exact Hk). apply assoc_dropk_other. exact Hk.
  Qed.

  Lemma QEx_trans : forall c F F1 F2, QEx c F F1 -> QEx c F1 F2 -> QEx c F F2.
  Proof.
    intros c F F1 F2 [A1 A2 A3 A4 A5] [B1 B2 B3 B4 B5]. constructor; try congruence.
    intros k Hk. rewrite B5, A5; auto.
  Qed.

  Lemma FQ_queries : forall vs ctx g u g' F0 F,
      log_queries vs ctx g = Ok (u, g') -> flog F0 (rev (g_log g)) = Some F ->
      exists F', flog F0 (rev (g_log g')) = Some F' /\ fk_q F' = fk_q F + List.length vs /\ QEx ctx F F' /\
                 g_q g' = g_q g.
  Proof.
    induction vs as [|v vs IH]; intros ctx g u g' F0 F H HQ; cbn [log_queries] in H.
    - mstep. exists F. split; [exact HQ|]. split; [cbn; lia|]. split; [apply QEx_refl|reflexivity].
    - mstep as u1 g1 E1. unfold log_entry in E1. apply log_entries_eff in E1.
      destruct E1 as (_ & _ & _ & _ & _ & _ & H7 & _ & H9).
      assert (HQ1 : flog F0 (rev (g_log g1)) = Some (qstep F ctx)).
      { rewrite H9, rev_app_distr, rev_involutive. unfold flog. rewrite fork_log_app.
        fold flog. rewrite HQ. reflexivity. }
      destruct (IH _ _ _ _ F0 _ H HQ1) as (F' & A1 & A2 & A3 & A4).
      exists F'. split; [exact A1|]. split; [rewrite A2; cbn; lia|]. split; [|congruence].
      eapply QEx_trans; [apply QEx_step|exact A3].
  Qed.

  Lemma FQ_decide : forall e ctx g b g' F0 L F,
      decide_m orc e ctx g = Ok (b, g') -> FQ F0 g L F ->
      exists F', FQ F0 g' L F' /\ QEx ctx F F'.
  Proof.
    intros e ctx g b g' F0 L F H (H1 & H2 & H3). unfold decide_m in H.
    destruct (decide expected_ops orc e (g_q g)) as [[b0 k']| | |] eqn:D; try discriminate.
    apply decide_count in D.
    mstep as u1 g1 E1. destruct (FQ_queries _ _ _ _ _ F0 F E1 H1) as (F' & A1 & A2 & A3 & A4).
    mstep as u2 g2 E2. unfold set_q in E2. inv E2. mstep.
    exists F'. split; [|exact A3]. split; [exact A1|]. split; [rewrite (qx_tasks _ _ _ A3); exact H2|].
    cbn. rewrite A2, H3. reflexivity.
  Qed.

  Lemma FQ_limit : forall l ctx g n g' F0 L F,
      read_limit orc l ctx g = Ok (n, g') -> FQ F0 g L F ->
      exists F', FQ F0 g' L F' /\ QEx ctx F F' /\
                 match l with
                 | LimInt m => n = Z.of_nat m
                 | LimPath v p => assoc ctx (fk_lastq F') = Some (g_q g) /\
                                  limit_answer orc (g_q g) v p = Some (Z.to_nat n)
                 end.
  Proof.
    intros l ctx g n g' F0 L F H (H1 & H2 & H3). destruct l as [k|v p]; cbn [read_limit] in H.
    - mstep. exists F. split; [split; [exact H1|split; assumption]|]. split; [apply QEx_refl|reflexivity].
    - destruct (orc (g_q g) v) as [x|] eqn:Eo; [|discriminate].
      destruct (resolve x p) as [[q| | |]| | |] eqn:Er; try discriminate.
      destruct (Pos.eqb (Qden q) 1) eqn:Ed; [|discriminate].
      mstep as u1 g1 E1. unfold log_entry in E1. apply log_entries_eff in E1.
      destruct E1 as (_ & _ & _ & _ & _ & _ & H7 & _ & H9).
      mstep as u2 g2 E2. unfold set_q in E2. inv E2. mstep.
      exists (qstep F ctx). split; [|split; [apply QEx_step|]].
      + split; [|split].
        * cbn [g_log]. change (g_log (g1 <| g_q := Datatypes.S (g_q g) |>)) with (g_log g1).
          rewrite H9, rev_app_distr, rev_involutive. unfold flog. rewrite fork_log_app.
          fold flog. rewrite H1. reflexivity.
        * exact H2.
        * cbn. rewrite H3. reflexivity.
      + split.
        * cbn [qstep fk_lastq assoc]. rewrite Nat.eqb_refl, H3. reflexivity.
        * unfold limit_answer. rewrite Eo, Er, Ed. reflexivity.
  Qed.
End Log.

(* ===================================================================== *)
(* 5. single events                                                        *)
(* ===================================================================== *)
Section Events.
  Variable FAN : name -> list nat -> fan.
  Variable orc : oracle.

  Definition wf_ent (e : plent) : Prop :=
    pe_exp e <> None -> exists v p, FAN (pe_task e) (pe_pos e) = FVar v p.

  (* every parallel-loop fork of the call has the right count, except those of the instances [X]
     that are in the middle of starting their instances *)
  Definition PLok (F : forkst) (X : list nat) : Prop :=
    forall k e, assoc k (fk_pl F) = Some e -> wf_ent e /\ (In k X \/ pl_ok FAN e = true).

  Lemma PLok_opt : forall F X c, PLok F X -> ~ In c X -> pl_ok_opt FAN (assoc c (fk_pl F)) = true.
  Proof.
    intros F X c H Hn. destruct (assoc c (fk_pl F)) as [e|] eqn:E; [|reflexivity]. cbn.
    destruct (H c e E) as [_ [Hi|Ho]]; [contradiction|exact Ho].
  Qed.

  Lemma PLok_drop : forall F F' X c, PLok F X -> fk_pl F' = dropk c (fk_pl F) -> PLok F' X.
  Proof.
    intros F F' X c H E k e Hk. rewrite E in Hk. destruct (Nat.eq_dec k c) as [->|Hne].
    - rewrite assoc_dropk_same in Hk. discriminate.
    - rewrite assoc_dropk_other in Hk by exact Hne. exact (H k e Hk).
  Qed.

  Lemma PLok_same : forall F F' X, PLok F X -> fk_pl F' = fk_pl F -> PLok F' X.
  Proof. intros F F' X H E k e Hk. rewrite E in Hk. exact (H k e Hk). Qed.

  Lemma PLok_weaken : forall F X c, PLok F X -> PLok F (c :: X).
  Proof. intros F X c H k e Hk. destruct (H k e Hk) as [A [B|B]]; split; auto; left; right; exact B. Qed.

  (* a started notification that is neither a branch of a Parallel nor an instance of a
     parallel loop *)
  Lemma ev_other : forall F (tk : bool) n c tn p,
      n_ctx n = Some c -> n_site n = mksite tn p -> classify (FAN tn) tk p = FOther ->
      assoc c (fk_par F) = None -> (forall o, In o (fk_tasks F) -> oi_ctx o <> Some c) ->
      pl_ok_opt FAN (assoc c (fk_pl F)) = true ->
      fork_start FAN orc true true F tk n =
      Some {| fk_tasks := if tk then oi_of n :: fk_tasks F else fk_tasks F; fk_par := fk_par F;
              fk_pl := dropk c (fk_pl F); fk_owe := dropk c (fk_owe F); fk_q := fk_q F;
              fk_lastq := dropk c (if tk then dropk (n_id n) (fk_lastq F) else fk_lastq F) |}.
  Proof.
    intros F tk n c tn p Hc Hs Hcl Hp Hk Ho. unfold fork_start. rewrite Hc, Hs. cbn [mksite st_task st_path].
    rewrite Hcl, Hp, Ho, !(fan_kid_nokids _ _ _ _ Hk). reflexivity.
  Qed.

  Lemma ev_branch : forall F n c tn r j m,
      n_ctx n = Some c -> n_site n = mksite tn (r ++ [j]) -> FAN tn r = FPar m -> j < m ->
      assoc c (fk_par F) = (if Nat.eqb j 0 then None else Some (r, j, m)) ->
      pl_ok_opt FAN (assoc c (fk_pl F)) = true -> fan_kid (FAN tn) true c (fk_tasks F) = false ->
      fork_start FAN orc true true F true n =
      Some {| fk_tasks := oi_of n :: fk_tasks F;
              fk_par := if Nat.ltb (S j) m then (c, (r, S j, m)) :: dropk c (fk_par F) else dropk c (fk_par F);
              fk_pl := dropk c (fk_pl F); fk_owe := dropk c (fk_owe F); fk_q := fk_q F;
              fk_lastq := dropk c (dropk (n_id n) (fk_lastq F)) |}.
  Proof.
    intros F n c tn r j m Hc Hs HF Hj Hp Ho Hk. unfold fork_start. rewrite Hc, Hs. cbn [mksite st_task st_path].
    rewrite (classify_branch FAN _ _ _ _ HF), Hp, Ho, Hk.
    assert (Nat.ltb j m = true) as -> by (apply Nat.ltb_lt; exact Hj).
    destruct (Nat.eqb j 0) eqn:E; cbn [negb orb andb].
    - reflexivity.
    - rewrite list_eqb_refl_nat, !Nat.eqb_refl. reflexivity.
  Qed.

  (* a task-finished notification *)
  Lemma ev_TF : forall F L n L',
      fk_tasks F = lf_tasks L -> n_kind n = TF -> life_step L n = Some L' ->
      assoc (n_id n) (fk_par F) = None -> pl_ok_opt FAN (assoc (n_id n) (fk_pl F)) = true ->
      exists F', fork_notif FAN orc true true F n = Some F' /\
                 fk_par F' = fk_par F /\ fk_pl F' = dropk (n_id n) (fk_pl F) /\
                 fk_lastq F' = dropk (n_id n) (match n_ctx n with Some c => dropk c (fk_lastq F) | None => fk_lastq F end) /\
                 (forall x, In x (fk_owe F') ->
                            (In x (fk_owe F) /\ fst x <> n_id n) \/ n_ctx n = Some (fst x)) /\
                 (forall c r j, n_ctx n = Some c -> st_path (n_site n) = r ++ [j] -> c <> n_id n ->
                                live c r (lf_tasks L') = true -> assoc c (fk_owe F) = None -> assoc c (fk_owe F') = None) /\
                 (n_ctx n = None -> forall x, In x (fk_owe F') -> In x (fk_owe F) /\ fst x <> n_id n).
  Proof.
    intros F L n L' HT Hk HL Hp Ho. unfold fork_notif. rewrite Hk. unfold fork_finish_task.
    unfold life_step in HL. rewrite Hk in HL. rewrite <- HT in HL.
    destruct (remove_first (oi_eqb (oi_of n)) (fk_tasks F)) as [rest|]; [|discriminate].
    match type of HL with (if ?X then _ else _) = _ => destruct X end; [discriminate|]. inv HL. cbn [lf_tasks].
    rewrite Hp, Ho. cbn [negb orb andb is_none].
    eexists. split; [reflexivity|]. cbn [fk_par fk_pl fk_lastq fk_owe].
    split; [reflexivity|]. split; [reflexivity|]. split; [reflexivity|].
    assert (D : forall x, In x (dropk (n_id n) (fk_owe F)) -> In x (fk_owe F) /\ fst x <> n_id n) by (intros; apply in_dropk; assumption).
    split; [|split].
    - intros x Hx. destruct (n_ctx n) as [c|]; [|left; apply D; exact Hx].
      destruct (unsnoc (st_path (n_site n))) as [[r j]|]; [|left; apply D; exact Hx].
      destruct (FAN (st_task (n_site n)) r); try (left; apply D; exact Hx);
        (destruct (negb (live c r rest) && is_none (assoc c (fk_par F))); [|left; apply D; exact Hx]);
        (destruct Hx as [<-|Hx]; [right; reflexivity|left; apply D; exact Hx]).
    - intros c r j Hc Hpath Hne Hlive Hnone. rewrite Hc, Hpath, unsnoc_app.
      assert (E : assoc c (dropk (n_id n) (fk_owe F)) = None) by (rewrite assoc_dropk_other by exact Hne; exact Hnone).
      destruct (FAN (st_task (n_site n)) r); try exact E; rewrite Hlive; cbn [negb andb]; exact E.
    - intros Hc x Hx. rewrite Hc in Hx. apply D. exact Hx.
  Qed.

  Lemma ev_SF : forall F n, n_kind n = SF ->
      exists F', fork_notif FAN orc true true F n = Some F' /\ fk_tasks F' = fk_tasks F /\ fk_par F' = fk_par F /\
                 fk_pl F' = fk_pl F /\ fk_owe F' = fk_owe F /\
                 fk_lastq F' = match n_ctx n with Some c => dropk c (fk_lastq F) | None => fk_lastq F end.
  Proof. intros F n Hk. unfold fork_notif. rewrite Hk. eexists. split; [reflexivity|]. repeat split; reflexivity. Qed.
End Events.

(* ===================================================================== *)
(* 6. the start family                                                     *)
(* ===================================================================== *)
Section StartF.
  Variable FAN : name -> list nat -> fan.
  Variable orc : oracle.
  Variable imm : nat -> bool.

  Notation FQ := (FQ FAN orc).
  Notation PLok := (PLok FAN).

  Definition ParLt (g : G) (l : list (nat * (list nat * nat * nat))) : Prop := forall x, In x l -> fst x < g_tid g.
  Definition XLt (g : G) (X : list nat) : Prop := forall x, In x X -> x < g_tid g.

  Lemma ParLt_mono : forall g g' l, ParLt g l -> g_tid g <= g_tid g' -> ParLt g' l.
  Proof. intros g g' l H Hle x Hx. specialize (H x Hx). lia. Qed.
  Lemma XLt_mono : forall g g' X, XLt g X -> g_tid g <= g_tid g' -> XLt g' X.
  Proof. intros g g' X H Hle x Hx. specialize (H x Hx). lia. Qed.

  (* what a computation of the start family inside instance [ctx] does to the bookkeeping *)
  Record FEx (bound ctx : nat) (F F' : forkst) (done : bool) : Prop := {
    fx_par : fk_par F' = fk_par F;
    fx_owe1 : forall x, In x (fk_owe F') -> In x (fk_owe F) \/ fst x = ctx;
    fx_owe2 : done = false -> assoc ctx (fk_owe F') = None;
    fx_pl : forall k, k < bound -> k <> ctx -> assoc k (fk_pl F') = assoc k (fk_pl F);
    fx_lq : forall k, k < bound -> k <> ctx -> assoc k (fk_lastq F') = assoc k (fk_lastq F)
  }.

  Lemma FEx_refl_done : forall b c F, FEx b c F F true.
  Proof. intros. constructor; auto. discriminate. Qed.

  Lemma FEx_trans : forall b b1 c F F1 F2 d1 d2,
      FEx b c F F1 d1 -> FEx b1 c F1 F2 d2 -> b <= b1 -> FEx b c F F2 d2.
  Proof.
    intros b b1 c F F1 F2 d1 d2 [A1 A2 A3 A4 A5] [B1 B2 B3 B4 B5] Hle. constructor.
    - congruence.
    - intros x Hx. destruct (B2 x Hx) as [H|H]; [apply A2; exact H|right; exact H].
    - exact B3.
    - intros k Hk Hne. rewrite B4 by (try lia; assumption). apply A4; assumption.
    - intros k Hk Hne. rewrite B5 by (try lia; assumption). apply A5; assumption.
  Qed.

  Lemma FEx_q : forall b c F F1 F2 d, QEx c F F1 -> FEx b c F1 F2 d -> FEx b c F F2 d.
  Proof.
    intros b c F F1 F2 d [A1 A2 A3 A4 A5] [B1 B2 B3 B4 B5]. constructor.
    - congruence.
    - intros x Hx. rewrite <- A4. apply B2. exact Hx.
    - exact B3.
    - intros k Hk Hne. rewrite B4 by assumption. rewrite A3. reflexivity.
    - intros k Hk Hne. rewrite B5 by assumption. apply A5. exact Hne.
  Qed.

  Lemma FEx_of_q : forall b c F F1, QEx c F F1 -> FEx b c F F1 true.
  Proof. intros b c F F1 H. eapply FEx_q; [exact H|apply FEx_refl_done]. Qed.

  Lemma FEx_bound : forall b b' c F F' d, FEx b c F F' d -> b' <= b -> FEx b' c F F' d.
  Proof. intros b b' c F F' d [A1 A2 A3 A4 A5] Hle. constructor; auto; intros k Hk; [apply A4|apply A5]; lia. Qed.

  Record BEx (bound ctx : nat) (F F' : forkst) : Prop := {
    bx_owe1 : forall x, In x (fk_owe F') -> In x (fk_owe F) \/ fst x = ctx;
    bx_pl : forall k, k < bound -> k <> ctx -> assoc k (fk_pl F') = assoc k (fk_pl F);
    bx_lq : forall k, k < bound -> k <> ctx -> assoc k (fk_lastq F') = assoc k (fk_lastq F)
  }.

  Lemma BEx_refl : forall b c F, BEx b c F F.
  Proof. intros. constructor; auto. Qed.

  Lemma BEx_trans : forall b b1 c F F1 F2, BEx b c F F1 -> BEx b1 c F1 F2 -> b <= b1 -> BEx b c F F2.
  Proof.
    intros b b1 c F F1 F2 [A1 A2 A3] [B1 B2 B3] Hle. constructor.
    - intros x Hx. destruct (B1 x Hx) as [H|H]; [apply A1; exact H|right; exact H].
    - intros k Hk Hne. rewrite B2 by (try lia; assumption). apply A2; assumption.
    - intros k Hk Hne. rewrite B3 by (try lia; assumption). apply A3; assumption.
  Qed.

  (* the branches of a Parallel ([lim] = None) / the instances of a parallel loop *)
  Definition fan_of (lim : option limit) (n : nat) : fan :=
    match lim with None => FPar n | Some lm => lim_fan lm end.
  Definition lit_ok (lim : option limit) (n : nat) : Prop :=
    match lim with Some (LimInt m) => n = m | _ => True end.
  Definition eidx (lim : option limit) (j : nat) : nat := match lim with None => j | Some _ => 0 end.

  Fixpoint flist (lim : option limit) (tn : name) (P : list nat) (j : nat) (l : list (ienv * xstmt)) : Prop :=
    match l with
    | [] => True
    | (_, b) :: r => is_call b = true /\ forked FAN tn (P ++ [eidx lim j]) b /\ flist lim tn P (S j) r
    end.

  Definition PLst (tn : name) (P : list nat) (lm : limit) (n j : nat) (e : plent) : Prop :=
    pe_task e = tn /\ pe_pos e = P /\
    match lm with
    | LimPath _ _ => pe_cnt e = j /\ pe_exp e = Some n
    | LimInt _ => pe_exp e = None /\ Nat.modulo (pe_cnt e) n = Nat.modulo j n
    end.

  Definition pre_state (lim : option limit) (ctx : nat) (tn : name) (P : list nat) (j n : nat)
             (rest : list (nat * (list nat * nat * nat))) (X : list nat) (F : forkst) (L : life) : Prop :=
    match lim with
    | None => fk_par F = (if Nat.ltb 0 j && Nat.ltb j n then (ctx, (P, j, n)) :: rest else rest) /\ PLok F X
    | Some lm =>
      fk_par F = rest /\
      if Nat.eqb j 0
      then PLok F X /\ NoKidsT ctx L /\
           match lm with
           | LimPath v p => exists qi, assoc ctx (fk_lastq F) = Some qi /\ limit_answer orc qi v p = Some n
           | LimInt _ => True
           end
      else PLok F (ctx :: X) /\ (exists e, assoc ctx (fk_pl F) = Some e /\ PLst tn P lm n j e) /\
           assoc ctx (fk_lastq F) = None
    end.

  Definition Sibs (ctx : nat) (tn : name) (P : list nat) (L : life) : Prop :=
    forall o, In o (lf_tasks L) -> oi_ctx o = Some ctx -> exists j', oi_site o = mksite tn (P ++ [j']).

  Definition done_opt (r : option (nat * rst)) : bool := match r with None => true | Some _ => false end.

  Definition SS_spec (f : nat) : Prop :=
    forall ctx ie s g st g' L0 F0 L F tn pre i X,
      start_stmt orc imm f ctx ie s g = Ok (st, g') ->
      lst_all (g_ls g) -> Acc L0 g L -> W L (g_tid g) (g_sid g) ->
      FQ F0 g L F -> forked FAN tn (pre ++ [i]) s -> copen ctx (lf_tasks L) ->
      FAN tn pre = FNone -> NoKidsT ctx L ->
      assoc ctx (fk_par F) = None -> ParLt g (fk_par F) -> PLok F X -> ~ In ctx X -> XLt g X ->
      forall L', Acc L0 g' L' ->
      exists F', FQ F0 g' L' F' /\ FEx (g_tid g) ctx F F' (is_done st) /\ PLok F' X.

  Definition RB_spec (f : nat) : Prop :=
    forall ctx ie ss i g r g' L0 F0 L F tn pre X,
      run_block orc imm f ctx ie ss i g = Ok (r, g') ->
      lst_all (g_ls g) -> Acc L0 g L -> W L (g_tid g) (g_sid g) ->
      FQ F0 g L F -> fblock FAN tn pre ss -> copen ctx (lf_tasks L) ->
      FAN tn pre = FNone -> NoKidsT ctx L ->
      assoc ctx (fk_par F) = None -> ParLt g (fk_par F) -> PLok F X -> ~ In ctx X -> XLt g X ->
      forall L', Acc L0 g' L' ->
      exists F', FQ F0 g' L' F' /\ FEx (g_tid g) ctx F F' (done_opt r) /\ PLok F' X.

  Definition LT_spec (f : nat) : Prop :=
    forall ctx ie s k g st g' L0 F0 L F tn pre i X,
      loop_test orc imm f ctx ie s k g = Ok (st, g') ->
      lst_all (g_ls g) -> Acc L0 g L -> W L (g_tid g) (g_sid g) ->
      FQ F0 g L F -> forked FAN tn (pre ++ [i]) s -> copen ctx (lf_tasks L) ->
      FAN tn pre = FNone -> NoKidsT ctx L ->
      assoc ctx (fk_par F) = None -> ParLt g (fk_par F) -> PLok F X -> ~ In ctx X -> XLt g X ->
      forall L', Acc L0 g' L' ->
      exists F', FQ F0 g' L' F' /\ FEx (g_tid g) ctx F F' (is_done st) /\ PLok F' X.

  (* one branch / instance *)
  Definition BC_spec (f : nat) : Prop :=
    forall ctx ie t at_ ins body g st g' L0 F0 L F tn lim P j n rest X,
      start_stmt orc imm f ctx ie (XCall t at_ ins body) g = Ok (st, g') ->
      lst_all (g_ls g) -> Acc L0 g L -> W L (g_tid g) (g_sid g) ->
      FQ F0 g L F -> forked FAN tn (P ++ [eidx lim j]) (XCall t at_ ins body) -> copen ctx (lf_tasks L) ->
      FAN tn P = fan_of lim n -> j < n -> lit_ok lim n -> Sibs ctx tn P L ->
      pre_state lim ctx tn P j n rest X F L ->
      assoc ctx rest = None -> ParLt g rest -> ~ In ctx X -> XLt g X ->
      forall L', Acc L0 g' L' ->
      exists F', FQ F0 g' L' F' /\ pre_state lim ctx tn P (S j) n rest X F' L' /\ BEx (g_tid g) ctx F F' /\
                 ((is_done st = false \/ live ctx P (lf_tasks L) = true) -> assoc ctx (fk_owe F') = None).

  Definition SL_spec (f : nat) : Prop :=
    forall ctx l g sts g' L0 F0 L F tn lim P j n rest X,
      start_list orc imm f ctx l g = Ok (sts, g') ->
      lst_all (g_ls g) -> Acc L0 g L -> W L (g_tid g) (g_sid g) ->
      FQ F0 g L F -> flist lim tn P j l -> copen ctx (lf_tasks L) ->
      FAN tn P = fan_of lim n -> j + List.length l = n -> lit_ok lim n -> Sibs ctx tn P L ->
      pre_state lim ctx tn P j n rest X F L ->
      assoc ctx rest = None -> ParLt g rest -> ~ In ctx X -> XLt g X ->
      (live ctx P (lf_tasks L) = true -> assoc ctx (fk_owe F) = None) ->
      forall L', Acc L0 g' L' ->
      exists F', FQ F0 g' L' F' /\ fk_par F' = rest /\ PLok F' X /\ BEx (g_tid g) ctx F F' /\
                 ((all_done sts = false \/ live ctx P (lf_tasks L) = true) -> assoc ctx (fk_owe F') = None).

  Lemma Sibs_nokids : forall ctx tn P L, NoKidsT ctx L -> Sibs ctx tn P L.
  Proof. intros ctx tn P L H o Hi Hc. exfalso. exact (H o Hi Hc). Qed.

  Lemma live_perm : forall c r l l', (forall o, In o l -> In o l') -> live c r l = true -> live c r l' = true.
  Proof.
    intros c r l l' H Hl. destruct (live_true _ _ _ Hl) as (o & Hi & Hc & Hp). eapply live_in; [apply H; exact Hi|exact Hc|exact Hp].
  Qed.

  (* the body of a call and its task-finished notification, after its task-started notification *)
  Lemma call_rest : forall f, RB_spec f ->
      forall ctx ie t tn P jj ins body g2 st g' L0 F0 L L1 F1 idn ns X,
        (r <- run_block orc imm f idn [] body 0 ;;
         match r with
         | None => emit (mk TF t (mksite tn (P ++ [jj])) idn (Some ctx) (subst_params ie ins)) ;;; ret RDone
         | Some (i, sti) => ret (RCall idn i sti)
         end) g2 = Ok (st, g') ->
        lst_all (g_ls g2) -> Acc L0 g2 L1 -> W L1 (g_tid g2) (g_sid g2) -> g_tid g2 = S idn ->
        W L idn ns -> ctx < idn ->
        (forall tk, Permutation (sel tk L1)
                      ((if tk then [inst idn (Some ctx) t (mksite tn (P ++ [jj]))] else []) ++ sel tk L)) ->
        FQ F0 g2 L1 F1 -> fblock FAN t [] body -> FAN t [] = FNone ->
        assoc idn (fk_par F1) = None -> ParLt g2 (fk_par F1) -> PLok F1 X -> ~ In idn X -> XLt g2 X ->
        assoc ctx (fk_owe F1) = None -> assoc ctx (fk_lastq F1) = None ->
        forall L', Acc L0 g' L' ->
        exists F', FQ F0 g' L' F' /\ fk_par F' = fk_par F1 /\
                   (forall x, In x (fk_owe F') -> In x (fk_owe F1) \/ fst x = ctx) /\
                   ((is_done st = false \/ live ctx P (lf_tasks L) = true) -> assoc ctx (fk_owe F') = None) /\
                   (forall k, k < idn -> assoc k (fk_pl F') = assoc k (fk_pl F1)) /\
                   (forall k, k < idn -> k <> ctx -> assoc k (fk_lastq F') = assoc k (fk_lastq F1)) /\
                   assoc ctx (fk_lastq F') = None /\ PLok F' X.
  Proof.
    intros f RB ctx ie t tn P jj ins body g2 st g' L0 F0 L L1 F1 idn ns X H Hl2 HA1 W1 Htid HW Hlt P1 Q1 Hbody HBt
           Hpar HPl HPL HnX HXl Howe Hlq L' HA'.
    set (T := inst idn (Some ctx) t (mksite tn (P ++ [jj]))) in *.
    assert (HT : In T (lf_tasks L1)).
    { eapply Permutation_in; [apply Permutation_sym; apply (P1 true)|]. left. reflexivity. }
    assert (Hc1 : copen idn (lf_tasks L1)) by (exists T; split; [exact HT|reflexivity]).
    assert (NK1 : NoKidsT idn L1).
    { intros o Hi Hcx. destruct (sel_perm_in _ _ _ _ (P1 true) Hi) as [Hi1|Hi1].
      - destruct Hi1 as [<-|[]]. cbn in Hcx. inv Hcx. lia.
      - pose proof (w_ctx _ _ _ HW true o idn Hi1 Hcx). lia. }
    mstep as r g3 E3.
    pose proof (Eff_Fr _ _ _ (proj1 (proj2 (start_eff orc imm f)) _ _ _ _ _ _ _ E3)) as (F1' & F2' & F3').
    destruct (proj1 (proj2 (start_life orc imm f)) _ _ _ _ _ _ _ _ _ E3 Hl2 HA1 W1 Hc1) as (L3 & A3 & W3 & P3).
    destruct (RB _ _ _ _ _ _ _ _ _ _ _ t [] X E3 Hl2 HA1 W1 Q1 Hbody Hc1 HBt NK1 Hpar HPl HPL HnX HXl L3 A3)
      as (F3 & Q3 & X3 & PL3).
    assert (Hne : ctx <> idn) by lia.
    assert (Howe3 : assoc ctx (fk_owe F3) = None).
    { apply assoc_none_all. intros x Hx He. destruct (fx_owe1 _ _ _ _ _ X3 x Hx) as [Hy|Hy]; [|congruence].
      exact (assoc_none_key _ _ _ _ Howe Hy He). }
    assert (Hpl3 : forall k, k < idn -> assoc k (fk_pl F3) = assoc k (fk_pl F1)).
    { intros k Hk. apply (fx_pl _ _ _ _ _ X3); lia. }
    assert (Hlq3 : forall k, k < idn -> assoc k (fk_lastq F3) = assoc k (fk_lastq F1)).
    { intros k Hk. apply (fx_lq _ _ _ _ _ X3); lia. }
    destruct r as [[i0 sti]|].
    - mstep. rewrite <- (Acc_fun _ _ _ _ A3 HA'). exists F3. split; [exact Q3|]. split; [apply (fx_par _ _ _ _ _ X3)|].
      split.
      { intros x Hx. destruct (fx_owe1 _ _ _ _ _ X3 x Hx) as [Hy|Hy]; [left; exact Hy|].
        exfalso. exact (assoc_none_key _ _ _ _ (fx_owe2 _ _ _ _ _ X3 eq_refl) Hx Hy). }
      split; [intros _; exact Howe3|]. split; [exact Hpl3|]. split; [intros k Hk _; apply Hlq3; exact Hk|].
      split; [rewrite Hlq3 by exact Hlt; exact Hlq|exact PL3].
    - mstep as u4 g4 E4. destruct (emit_frame _ _ _ _ _ E4) as (C1 & C2 & C3).
      pose proof (emit_N _ _ _ _ _ E4 ltac:(rewrite F1'; exact Hl2)) as C4.
      destruct (life_TF L3 _ _ t (mksite tn (P ++ [jj])) idn (Some ctx) (subst_params ie ins) (fun tk => sel tk L) W3)
        as (L4 & S4 & W4 & P4).
      { fold T. cbn [opn_opt] in P3. clear - P1 P3. perm. }
      { intros tk o Hi Hx. pose proof (w_ctx _ _ _ HW _ _ _ Hi Hx). lia. }
      mstep.
      assert (HA4 : Acc L0 g4 L4).
      { eapply Acc_app; [exact A3|exact C4|]. cbn [life_run]. rewrite S4. reflexivity. }
      rewrite <- (Acc_fun _ _ _ _ HA4 HA').
      set (nTF := mk TF t (mksite tn (P ++ [jj])) idn (Some ctx) (subst_params ie ins)) in *.
      destruct (ev_TF FAN orc F3 L3 nTF L4 (proj1 (proj2 Q3)) eq_refl S4) as (F4 & T4 & E1 & E2 & E5 & E6 & E7 & _).
      { cbn [nTF mk n_id]. rewrite (fx_par _ _ _ _ _ X3). exact Hpar. }
      { cbn [nTF mk n_id]. eapply PLok_opt; eassumption. }
      cbn [nTF mk n_id n_ctx n_site mksite st_path] in E1, E2, E5, E6, E7.
      exists F4. split; [eapply FQ_emit; [exact E4|rewrite F1'; exact Hl2|exact Q3|exact S4|exact T4]|].
      split; [rewrite E1; apply (fx_par _ _ _ _ _ X3)|].
      split.
      { intros x Hx. destruct (E6 x Hx) as [[Hy Hz]|Hy].
        - destruct (fx_owe1 _ _ _ _ _ X3 x Hy) as [Hw|Hw]; [left; exact Hw|contradiction].
        - right. inv Hy. reflexivity. }
      split.
      { intros [Hd|Hlive]; [discriminate Hd|].
        apply (E7 ctx P jj eq_refl eq_refl Hne); [|exact Howe3].
        eapply live_perm; [|exact Hlive]. intros o Ho.
        eapply Permutation_in; [apply Permutation_sym; apply (P4 true)|exact Ho]. }
      split.
      { intros k Hk. rewrite E2, assoc_dropk_other by lia. apply Hpl3. exact Hk. }
      split.
      { intros k Hk Hkc. rewrite E5, !assoc_dropk_other by lia. apply Hlq3. exact Hk. }
      split.
      { rewrite E5, assoc_dropk_other by lia. apply assoc_dropk_same. }
      eapply PLok_drop; [exact PL3|exact E2].
  Qed.

  Lemma flist_par : forall tn P (ie : ienv) bs j,
      all_from (fun j b => is_call b = true /\ forked FAN tn (P ++ [j]) b) j bs ->
      flist None tn P j (map (fun b => (ie, b)) bs).
  Proof.
    intros tn P ie bs. induction bs as [|b bs IH]; intros j H; [exact I|].
    destruct H as [[H1 H2] H3]. cbn [map flist eidx]. split; [exact H1|]. split; [exact H2|]. apply IH. exact H3.
  Qed.

  Lemma flist_insts : forall tn P lm ie v c n j,
      is_call c = true -> forked FAN tn (P ++ [0]) c -> flist (Some lm) tn P j (insts ie v c n).
  Proof.
    intros tn P lm ie v c n j H1 H2. unfold insts. generalize (seq 0 n). intro l. revert j.
    induction l as [|x l IH]; intro j; [exact I|]. cbn [map flist eidx]. split; [exact H1|]. split; [exact H2|]. apply IH.
  Qed.

  Lemma insts_length : forall ie v c n, List.length (insts ie v c n) = n.
  Proof. intros. unfold insts. rewrite map_length, seq_length. reflexivity. Qed.

  Lemma fan_kid_sibs : forall tn P pl c tasks,
      (forall o, In o tasks -> oi_ctx o = Some c -> exists j', oi_site o = mksite tn (P ++ [j'])) ->
      match FAN tn P with FPar _ => negb pl | FNone => false | _ => pl end = false ->
      fan_kid (FAN tn) pl c tasks = false.
  Proof.
    intros tn P pl c tasks H HF. unfold fan_kid. apply existsb_false_all. intros o Hi.
    destruct (ctx_is c o) eqn:E; [|reflexivity]. apply ctx_is_true in E. destruct (H o Hi E) as (j' & Hs).
    rewrite Hs. cbn [mksite st_path andb]. rewrite unsnoc_app. exact HF.
  Qed.

  Lemma PLst_ok : forall tn P lm n e,
      FAN tn P = lim_fan lm -> lit_ok (Some lm) n -> PLst tn P lm n n e -> pl_ok FAN e = true.
  Proof.
    intros tn P lm n e HF Hlit (H1 & H2 & H3). unfold pl_ok. destruct lm as [m|v p].
    - destruct H3 as [H3 H4]. rewrite H3, H1, H2, HF. cbn [lim_fan]. cbn in Hlit. subst m.
      apply Nat.eqb_eq. rewrite H4. destruct n; [reflexivity|]. apply Nat.mod_same. discriminate.
    - destruct H3 as [H3 H4]. rewrite H4. apply Nat.eqb_eq. exact H3.
  Qed.

  Lemma succ_mod : forall a b n, n <> 0 -> Nat.modulo a n = Nat.modulo b n -> Nat.modulo (S a) n = Nat.modulo (S b) n.
  Proof.
    intros a b n Hn H. change (S a) with (1 + a). change (S b) with (1 + b).
    rewrite (Nat.add_mod 1 a n Hn), (Nat.add_mod 1 b n Hn), H. reflexivity.
  Qed.

  (* the task-started notification of an instance of a parallel loop *)
  Lemma ev_inst : forall F n c tn P lm nn j rest X L,
      n_ctx n = Some c -> n_site n = mksite tn (P ++ [0]) -> FAN tn P = lim_fan lm -> j < nn ->
      lit_ok (Some lm) nn -> pre_state (Some lm) c tn P j nn rest X F L -> assoc c rest = None -> ~ In c X ->
      fk_tasks F = lf_tasks L -> Sibs c tn P L ->
      exists e1,
        fork_start FAN orc true true F true n =
        Some {| fk_tasks := oi_of n :: fk_tasks F; fk_par := fk_par F; fk_pl := (c, e1) :: dropk c (fk_pl F);
                fk_owe := dropk c (fk_owe F); fk_q := fk_q F;
                fk_lastq := dropk c (dropk (n_id n) (fk_lastq F)) |}
        /\ PLst tn P lm nn (S j) e1 /\ wf_ent FAN e1.
  Proof.
    intros F n c tn P lm nn j rest X L Hc Hs HF Hj Hlit (Hpar & Hst) Hrest HnX HT Hsib.
    assert (Hn0 : nn <> 0) by lia.
    assert (Hpend : assoc c (fk_par F) = None) by (rewrite Hpar; exact Hrest).
    assert (Hkid : fan_kid (FAN tn) false c (fk_tasks F) = false).
    { rewrite HT. apply (fan_kid_sibs tn P); [exact Hsib|]. rewrite HF. destruct lm; reflexivity. }
    unfold fork_start. rewrite Hc, Hs. cbn [mksite st_task st_path]. rewrite (classify_inst FAN _ _ _ _ HF).
    rewrite Hpend, Hkid. cbn [is_none negb orb andb].
    destruct (Nat.eqb j 0) eqn:Ej.
    - apply Nat.eqb_eq in Ej. subst j. destruct Hst as (HPL & HNK & Hlq).
      assert (Hlive : live c P (fk_tasks F) = false) by (rewrite HT; apply live_nokids; exact HNK).
      assert (Hok : pl_ok_opt FAN (assoc c (fk_pl F)) = true) by (eapply PLok_opt; eassumption).
      destruct lm as [m|v p]; cbn [lim_fan].
      + cbn in Hlit. subst m.
        destruct (assoc c (fk_pl F)) as [e|] eqn:Ee.
        * destruct (Nat.eqb (pe_task e) tn && list_eqb Nat.eqb (pe_pos e) P) eqn:Es; cbn [negb].
          -- apply andb_true_iff in Es. destruct Es as [Es1 Es2]. apply Nat.eqb_eq in Es1. apply list_eqb_nat_eq in Es2.
             destruct (HPL c e Ee) as [Hwf [Hin|Hoke]]; [contradiction|].
             assert (Hexp : pe_exp e = None).
             { destruct (pe_exp e) eqn:Ex; [|reflexivity]. exfalso. destruct (Hwf ltac:(rewrite Ex; discriminate)) as (v & p & Hv).
               rewrite Es1, Es2, HF in Hv. discriminate Hv. }
             eexists. split; [|split].
             ++ cbn [pe_exp pe_cnt andb]. rewrite Hexp. reflexivity.
             ++ split; [reflexivity|]. split; [reflexivity|]. cbn [pe_exp pe_cnt]. split; [reflexivity|].
                apply succ_mod; [exact Hn0|]. unfold pl_ok in Hoke. rewrite Hexp, Es1, Es2, HF in Hoke. cbn [lim_fan] in Hoke.
                apply Nat.eqb_eq in Hoke. rewrite Hoke. symmetry. apply Nat.mod_0_l. exact Hn0.
             ++ intro Hx. exfalso. apply Hx. reflexivity.
          -- eexists. split; [|split].
             ++ rewrite Hok, Hlive. cbn. reflexivity.
             ++ split; [reflexivity|]. split; [reflexivity|]. split; reflexivity.
             ++ intro Hx. exfalso. apply Hx. reflexivity.
        * eexists. split; [|split].
          -- rewrite Hlive. cbn. reflexivity.
          -- split; [reflexivity|]. split; [reflexivity|]. split; reflexivity.
          -- intro Hx. exfalso. apply Hx. reflexivity.
      + destruct Hlq as (qi & Hq1 & Hq2). rewrite Hq1, Hq2, Hok, Hlive. cbn [is_none negb andb pe_exp pe_cnt].
        assert (Nat.leb 1 nn = true) as -> by (apply Nat.leb_le; lia).
        eexists. split; [reflexivity|]. split.
        * split; [reflexivity|]. split; [reflexivity|]. split; reflexivity.
        * intros _. cbn. exists v, p. exact HF.
    - apply Nat.eqb_neq in Ej. destruct Hst as (HPL & (e & He & (Ht & Hp & Hcnt)) & Hlq).
      rewrite He, Hlq. destruct (HPL c e He) as [Hwf _].
      destruct lm as [m|v p]; cbn [lim_fan].
      + cbn in Hlit. subst m. destruct Hcnt as [Hexp Hmod].
        rewrite Ht, Hp, Nat.eqb_refl, list_eqb_refl_nat, Hexp. cbn.
        eexists. split; [reflexivity|]. split.
        * split; [reflexivity|]. split; [reflexivity|]. split; [reflexivity|]. apply succ_mod; assumption.
        * intro Hx. exfalso. apply Hx. reflexivity.
      + destruct Hcnt as [Hcnt Hexp]. rewrite Ht, Hp, Nat.eqb_refl, list_eqb_refl_nat, Hexp, Hcnt. cbn.
        assert (Nat.leb (S j) nn = true) as E by (apply Nat.leb_le; lia). cbn in E. rewrite E.
        eexists. split; [reflexivity|]. split.
        * split; [reflexivity|]. split; [reflexivity|]. split; reflexivity.
        * intros _. cbn. exists v, p. exact HF.
  Qed.

  Lemma ParLt_assoc : forall g l k, ParLt g l -> g_tid g <= k -> assoc k l = None.
  Proof.
    intros g l k H Hle. apply assoc_none_all. intros x Hx He. specialize (H x Hx). lia.
  Qed.

  Lemma copen_lt : forall L nt ns c, W L nt ns -> copen c (lf_tasks L) -> c < nt.
  Proof.
    intros L nt ns c HW (o & Hi & He). pose proof (w_ids _ _ _ HW) as H. rewrite Forall_forall in H.
    specialize (H _ Hi). lia.
  Qed.

  Lemma NoKidsT_perm_nil : forall c L L1,
      NoKidsT c L -> (forall tk, Permutation (sel tk L1) ([] ++ sel tk L)) -> NoKidsT c L1.
  Proof. intros c L L1 H HP o Hi. apply (H o). eapply Permutation_in; [apply (HP true)|exact Hi]. Qed.

  Lemma start_call_state : forall f ctx ie t a ins body g st g',
      start_stmt orc imm f ctx ie (XCall t a ins body) g = Ok (st, g') ->
      st = RDone \/ exists cid i sti, st = RCall cid i sti.
  Proof.
    intros f ctx ie t a ins body g st g' H. destruct f; [discriminate|]. cbn [start_stmt] in H.
    mstep as id g1 E1. mstep as u2 g2 E2. mstep as r0 g3 E3.
    destruct r0 as [[i0 sti]|].
    - mstep. right. eexists _, _, _. reflexivity.
    - mstep as u4 g4 E4. mstep. left. reflexivity.
  Qed.

  Theorem start_fork : forall f, SS_spec f /\ RB_spec f /\ SL_spec f /\ LT_spec f /\ BC_spec f.
  Proof.
    induction f as [|f IH].
    { split; [|split; [|split; [|split]]]; red; intros; discriminate. }
    destruct IH as (IHs & IHb & IHl & IHt & IHc).
    destruct (start_life orc imm f) as (LFs & LFb & LFl & LFt).
    split; [|split; [|split; [|split]]].
    - (* start_stmt, as a statement of a block *)
      intros ctx ie s g st g' L0 F0 L F tn pre i X H Hl HA HW HQ Hfk Hc HFp NK Hpar HPlt HPL HnX HXl L' HA'.
      pose proof (copen_lt _ _ _ _ HW Hc) as Hlt.
      pose proof HQ as (HQ1 & HQ2 & HQ3).
      assert (NKF : forall o, In o (fk_tasks F) -> oi_ctx o <> Some ctx) by (rewrite HQ2; exact NK).
      cbn [start_stmt] in H.
      destruct s as [n at_ ins|t at_ ins body|bs|e p fl|e b|v lim b|v lim c].
      + (* service *)
        cbn [forked] in Hfk. subst at_.
        destruct (service_N _ _ _ _ _ _ _ _ _ H) as (A1 & A2 & A3 & A4).
        destruct (life_SS L _ _ n (mksite tn (pre ++ [i])) ctx (subst_params ie ins) HW Hc) as (L1 & S1 & W1 & P1).
        mstep as id g1 E1. unfold fresh_s in E1. inv E1.
        mstep as u2 g2 E2. unfold await, set_awaited in E2. inv E2.
        mstep as u3 g3 E3.
        set (nSS := mk SS n (mksite tn (pre ++ [i])) (g_sid g) (Some ctx) (subst_params ie ins)) in *.
        pose proof (ev_other FAN orc F false nSS ctx tn (pre ++ [i]) eq_refl eq_refl eq_refl Hpar NKF
                             (PLok_opt _ _ _ _ HPL HnX)) as T1.
        match type of T1 with _ = Some ?Y => set (F1 := Y) in * end.
        assert (Q3 : FQ F0 g3 L1 F1).
        { eapply FQ_emit; [exact E3|exact Hl| |exact S1|unfold fnotif, fork_notif; exact T1].
          eapply FQ_same; [exact HQ|reflexivity|reflexivity]. }
        assert (X1 : forall d, FEx (g_tid g) ctx F F1 d).
        { intro d. constructor; cbn [F1 fk_par fk_owe fk_pl fk_lastq].
          - reflexivity.
          - intros x Hx. left. apply in_dropk in Hx. apply Hx.
          - intros _. apply assoc_dropk_same.
          - intros k _ Hne. apply assoc_dropk_other. exact Hne.
          - intros k _ Hne. apply assoc_dropk_other. exact Hne. }
        assert (PL1 : PLok F1 X) by (eapply PLok_drop; [exact HPL|reflexivity]).
        destruct (emit_frame _ _ _ _ _ E3) as (B1 & _ & _). cbn in B1.
        mstep as k g4 E4. unfold tick_ss in E4. inv E4.
        destruct (A4 Hl) as [[-> HN]|[-> HN]].
        * assert (HA1 : Acc L0 g' L1).
          { eapply Acc_app; [exact HA|exact HN|]. cbn [life_run]. rewrite S1. reflexivity. }
          rewrite <- (Acc_fun _ _ _ _ HA1 HA').
          destruct (imm (g_ss g3)).
          -- mstep as u5 g5 E5. mstep as u6 g6 E6. mstep. discriminate.
          -- unfold ret in H. inv H. exists F1. split; [eapply FQ_same; [exact Q3|reflexivity|reflexivity]|].
             split; [apply X1|exact PL1].
        * destruct (life_SF L1 _ _ n (mksite tn (pre ++ [i])) (g_sid g) (Some ctx) (subst_params ie ins)
                            (fun tk => sel tk L) W1 P1) as (L2 & S2 & W2 & P2).
          assert (HA2 : Acc L0 g' L2).
          { eapply Acc_app; [exact HA|exact HN|]. cbn [life_run]. rewrite S1, S2. reflexivity. }
          rewrite <- (Acc_fun _ _ _ _ HA2 HA').
          destruct (imm (g_ss g3)); [|mstep; discriminate].
          mstep as u5 g5 E5. unfold unawait in E5.
          match type of E5 with match ?Y with _ => _ end = _ => destruct Y as [l|] end; [|discriminate].
          unfold set_awaited in E5. inv E5.
          mstep as u6 g6 E6. unfold ret in H. inv H.
          set (nSF := mk SF n (mksite tn (pre ++ [i])) (g_sid g) (Some ctx) (subst_params ie ins)) in *.
          destruct (ev_SF FAN orc F1 nSF eq_refl) as (F2 & T2 & R1 & R2 & R3 & R4 & R5).
          exists F2. split; [|split].
          -- eapply FQ_emit; [exact E6|cbn; rewrite B1; exact Hl| |exact S2|exact T2].
             eapply FQ_same; [exact Q3|reflexivity|reflexivity].
          -- constructor.
             ++ rewrite R2. apply (fx_par _ _ _ _ _ (X1 true)).
             ++ rewrite R4. apply (fx_owe1 _ _ _ _ _ (X1 true)).
             ++ intros _. rewrite R4. apply (fx_owe2 _ _ _ _ _ (X1 false)). reflexivity.
             ++ intros k Hk Hne. rewrite R3. apply (fx_pl _ _ _ _ _ (X1 true)); assumption.
             ++ intros k Hk Hne. rewrite R5. cbn [nSF mk n_ctx]. rewrite assoc_dropk_other by exact Hne.
                apply (fx_lq _ _ _ _ _ (X1 true)); assumption.
          -- eapply PLok_same; [exact PL1|exact R3].
      + (* task call *)
        cbn [forked] in Hfk. destruct Hfk as (-> & HBt & Hbody).
        mstep as id g1 E1. mstep as u2 g2 E2.
        destruct (tstart_N _ _ _ _ _ _ _ _ _ E1 E2) as (-> & B1 & B2 & B3 & B4). specialize (B4 Hl).
        destruct (life_TS L _ _ t (mksite tn (pre ++ [i])) ctx (subst_params ie ins) HW Hc) as (L1 & S1 & W1 & P1).
        set (nTS := mk TS t (mksite tn (pre ++ [i])) (g_tid g) (Some ctx) (subst_params ie ins)) in *.
        pose proof (ev_other FAN orc F true nTS ctx tn (pre ++ [i]) eq_refl eq_refl (classify_other FAN _ _ _ _ HFp) Hpar NKF
                             (PLok_opt _ _ _ _ HPL HnX)) as T1.
        match type of T1 with _ = Some ?Y => set (F1 := Y) in * end.
        assert (Q2 : FQ F0 g2 L1 F1).
        { eapply FQ_emit; [exact E2| | |exact S1|unfold fnotif, fork_notif; exact T1].
          - unfold fresh_t in E1. inv E1. exact Hl.
          - unfold fresh_t in E1. inv E1. eapply FQ_same; [exact HQ|reflexivity|reflexivity]. }
        assert (HA1 : Acc L0 g2 L1).
        { eapply Acc_app; [exact HA|exact B4|]. cbn [life_run]. rewrite S1. reflexivity. }
        assert (W1' : W L1 (g_tid g2) (g_sid g2)) by (rewrite B2, B3; exact W1).
        assert (Hl2 : lst_all (g_ls g2)) by (rewrite B1; exact Hl).
        assert (Hle2 : g_tid g <= g_tid g2) by (rewrite B2; lia).
        destruct (call_rest f IHb ctx ie t tn pre i ins body g2 st g' L0 F0 L L1 F1 (g_tid g) (g_sid g) X H Hl2 HA1 W1' B2 HW Hlt P1 Q2
                            Hbody HBt) with (L' := L') as (F' & Q' & R1 & R2 & R3 & R4 & R5 & R6 & R7).
        { cbn [F1 fk_par]. eapply ParLt_assoc; [exact HPlt|lia]. }
        { cbn [F1 fk_par]. eapply ParLt_mono; eassumption. }
        { eapply PLok_drop; [exact HPL|reflexivity]. }
        { intro Hi. specialize (HXl _ Hi). lia. }
        { eapply XLt_mono; eassumption. }
        { cbn [F1 fk_owe]. apply assoc_dropk_same. }
        { cbn [F1 fk_lastq]. apply assoc_dropk_same. }
        { exact HA'. }
        exists F'. split; [exact Q'|]. split; [|exact R7]. constructor.
        * rewrite R1. reflexivity.
        * intros x Hx. destruct (R2 x Hx) as [Hy|Hy]; [|right; exact Hy]. left. cbn [F1 fk_owe] in Hy. apply in_dropk in Hy. apply Hy.
        * intros Hd. apply R3. left. exact Hd.
        * intros k Hk Hne. rewrite R4 by exact Hk. cbn [F1 fk_pl]. apply assoc_dropk_other. exact Hne.
        * intros k Hk Hne. rewrite R5 by assumption. cbn [F1 fk_lastq nTS mk n_id]. rewrite !assoc_dropk_other by lia. reflexivity.
      + (* parallel *)
        cbn [forked] in Hfk. destruct Hfk as (HK & Hbs).
        mstep as sts g1 E1.
        destruct (IHl ctx _ g sts g1 L0 F0 L F tn None (pre ++ [i]) 0 (List.length bs) (fk_par F) X E1 Hl HA HW HQ
                      (flist_par _ _ _ _ _ Hbs) Hc HK) with (L' := L') as (F' & Q' & R1 & R2 & R3 & R4).
        { cbn. apply map_length. }
        { exact I. }
        { apply Sibs_nokids. exact NK. }
        { split; [reflexivity|exact HPL]. }
        { exact Hpar. }
        { exact HPlt. }
        { exact HnX. }
        { exact HXl. }
        { intro Hlv. rewrite live_nokids in Hlv by exact NK. discriminate. }
        { destruct (all_done sts); mstep; exact HA'. }
        exists F'. split; [destruct (all_done sts); mstep; exact Q'|]. split; [|exact R2].
        constructor; [exact R1|apply (bx_owe1 _ _ _ _ R3)| |apply (bx_pl _ _ _ _ R3)|apply (bx_lq _ _ _ _ R3)].
        intro Hd. apply R4. left. destruct (all_done sts); [mstep; discriminate|reflexivity].
      + (* condition *)
        cbn [forked] in Hfk. destruct Hfk as (HB0 & HB1 & Hp & Hf).
        mstep as bb g1 E1.
        pose proof (Eff_Fr _ _ _ (decide_m_eff _ _ _ _ _ _ E1)) as FR1.
        destruct (pre_quiet _ _ _ _ FR1 (decide_N _ _ _ _ _ _ E1) Hl HA HW) as (Hl1 & HA1 & HW1).
        destruct (FQ_decide FAN orc _ _ _ _ _ F0 L F E1 HQ) as (F1 & Q1 & QX).
        destruct FR1 as (_ & FR1 & _).
        mstep as r g2 E2.
        destruct (IHb ctx ie _ 0 g1 r g2 L0 F0 L F1 tn ((pre ++ [i]) ++ [if bb then 0 else 1]) X E2 Hl1 HA1 HW1 Q1)
          with (L' := L') as (F2 & Q2 & X2 & PL2); try assumption.
        { destruct bb; assumption. }
        { destruct bb; assumption. }
        { rewrite (qx_par _ _ _ QX). exact Hpar. }
        { rewrite (qx_par _ _ _ QX). eapply ParLt_mono; eassumption. }
        { eapply PLok_same; [exact HPL|apply (qx_pl _ _ _ QX)]. }
        { eapply XLt_mono; eassumption. }
        { destruct r as [[i0 sti]|]; mstep; exact HA'. }
        exists F2. split; [destruct r as [[i0 sti]|]; mstep; exact Q2|]. split; [|exact PL2].
        assert (Ed : is_done st = done_opt r) by (destruct r as [[i0 sti]|]; mstep; reflexivity).
        rewrite Ed. eapply FEx_q; [exact QX|]. eapply FEx_bound; eassumption.
      + (* while *)
        eapply IHt; eassumption.
      + (* counting loop *)
        eapply IHt; eassumption.
      + (* parallel loop *)
        cbn [forked] in Hfk. destruct Hfk as (HK & Hcc & Hcs).
        mstep as nz g1 E1.
        pose proof (Eff_Fr _ _ _ (read_limit_eff _ _ _ _ _ _ E1)) as FR1.
        destruct (pre_quiet _ _ _ _ FR1 (limit_N _ _ _ _ _ _ E1) Hl HA HW) as (Hl1 & HA1 & HW1).
        destruct (FQ_limit FAN orc _ _ _ _ _ F0 L F E1 HQ) as (F1 & Q1 & QX & Hlim).
        destruct FR1 as (_ & FR1 & _).
        mstep as sts g2 E2.
        destruct (IHl ctx _ g1 sts g2 L0 F0 L F1 tn (Some lim) (pre ++ [i]) 0 (Z.to_nat nz) (fk_par F) X E2 Hl1 HA1 HW1 Q1
                      (flist_insts _ _ _ _ _ _ _ _ Hcc Hcs) Hc HK) with (L' := L') as (F' & Q' & R1 & R2 & R3 & R4).
        { cbn. apply insts_length. }
        { destruct lim as [m|x p]; [|exact I]. cbn. rewrite Hlim. apply Nat2Z.id. }
        { apply Sibs_nokids. exact NK. }
        { split; [apply (qx_par _ _ _ QX)|]. cbn [Nat.eqb]. split; [eapply PLok_same; [exact HPL|apply (qx_pl _ _ _ QX)]|].
          split; [exact NK|]. destruct lim as [m|x p]; [exact I|]. exists (g_q g). exact Hlim. }
        { exact Hpar. }
        { eapply ParLt_mono; eassumption. }
        { exact HnX. }
        { eapply XLt_mono; eassumption. }
        { intro Hlv. rewrite live_nokids in Hlv by exact NK. discriminate. }
        { destruct (all_done sts); mstep; exact HA'. }
        exists F'. split; [destruct (all_done sts); mstep; exact Q'|]. split; [|exact R2].
        eapply FEx_q; [exact QX|]. eapply (FEx_bound (g_tid g1)); [|exact FR1].
        constructor; [rewrite R1; symmetry; apply (qx_par _ _ _ QX)|apply (bx_owe1 _ _ _ _ R3)| |apply (bx_pl _ _ _ _ R3)|apply (bx_lq _ _ _ _ R3)].
        intro Hd. apply R4. left. destruct (all_done sts); [mstep; discriminate|reflexivity].
    - (* run_block *)
      intros ctx ie ss i g r g' L0 F0 L F tn pre X H Hl HA HW HQ Hfb Hc HFp NK Hpar HPlt HPL HnX HXl L' HA'.
      cbn [run_block] in H. destruct (nth_error ss i) as [s1|] eqn:Hn.
      + mstep as st g1 E1.
        pose proof (Eff_Fr _ _ _ (proj1 (start_eff orc imm f) _ _ _ _ _ _ E1)) as (F1' & F2' & F3').
        destruct (LFs _ _ _ _ _ _ _ _ E1 Hl HA HW Hc) as (L1 & A1 & W1 & P1).
        destruct (IHs ctx ie s1 g st g1 L0 F0 L F tn pre i X E1 Hl HA HW HQ (fblock_nth _ _ _ _ _ _ Hfb Hn) Hc HFp NK
                      Hpar HPlt HPL HnX HXl L1 A1) as (F1 & Q1 & X1 & PL1).
        destruct (is_done st) eqn:D.
        * assert (P1' : forall tk, Permutation (sel tk L1) ([] ++ sel tk L)).
          { intro tk. rewrite <- (opn_done tk ctx s1 st D). apply P1. }
          destruct (IHb ctx ie ss (S i) g1 r g' L0 F0 L1 F1 tn pre X H ltac:(rewrite F1'; exact Hl) A1 W1 Q1 Hfb) with (L' := L')
            as (F2 & Q2 & X2 & PL2); try assumption.
          { eapply copen_grow; [exact Hc|exact P1']. }
          { eapply NoKidsT_perm_nil; eassumption. }
          { rewrite (fx_par _ _ _ _ _ X1). exact Hpar. }
          { rewrite (fx_par _ _ _ _ _ X1). eapply ParLt_mono; eassumption. }
          { eapply XLt_mono; eassumption. }
          exists F2. split; [exact Q2|]. split; [|exact PL2]. eapply FEx_trans; eassumption.
        * mstep. rewrite <- (Acc_fun _ _ _ _ A1 HA'). exists F1. split; [exact Q1|]. split; [exact X1|exact PL1].
      + mstep. rewrite <- (Acc_fun _ _ _ _ HA HA'). exists F. split; [exact HQ|]. split; [apply FEx_refl_done|exact HPL].
    - (* start_list *)
      intros ctx l g sts g' L0 F0 L F tn lim P j n rest X H Hl HA HW HQ Hfl Hc HK Hlen Hlit Hsib Hpre Hrest HPlt HnX HXl Hlive L' HA'.
      pose proof (copen_lt _ _ _ _ HW Hc) as Hlt.
      cbn [start_list] in H. destruct l as [|[ie b] r].
      + mstep. rewrite <- (Acc_fun _ _ _ _ HA HA'). cbn [List.length] in Hlen. rewrite Nat.add_0_r in Hlen. subst j.
        exists F. split; [exact HQ|].
        assert (E : fk_par F = rest /\ PLok F X).
        { destruct lim as [lm|]; cbn [pre_state] in Hpre.
          - destruct Hpre as [Hp Hs]. split; [exact Hp|]. destruct (Nat.eqb n 0) eqn:En; [apply Hs|].
            destruct Hs as (HPL & (e & He & Hst) & _). intros k e0 Hk.
            destruct (HPL k e0 Hk) as [Hw [[<-|Hi]|Ho]]; (split; [exact Hw|]); [right|left; exact Hi|right; exact Ho].
            rewrite He in Hk. inv Hk. eapply PLst_ok; eassumption.
          - destruct Hpre as [Hp Hs]. split; [|exact Hs]. rewrite Hp.
            assert (Nat.ltb n n = false) as -> by (apply Nat.ltb_ge; lia). rewrite andb_false_r. reflexivity. }
        destruct E as [E1 E2]. split; [exact E1|]. split; [exact E2|]. split; [apply BEx_refl|].
        intros [Hd|Hlv]; [discriminate Hd|apply Hlive; exact Hlv].
      + destruct Hfl as (Hcb & Hfb & Hfr).
        destruct b as [?|t at_ ins body|?|? ? ?|? ?|? ? ?|? ? ?]; try discriminate Hcb.
        cbn [List.length] in Hlen.
        mstep as st g1 E1.
        pose proof (Eff_Fr _ _ _ (proj1 (start_eff orc imm f) _ _ _ _ _ _ E1)) as (F1' & F2' & F3').
        destruct (LFs _ _ _ _ _ _ _ _ E1 Hl HA HW Hc) as (L1 & A1 & W1 & P1).
        destruct (IHc ctx ie t at_ ins body g st g1 L0 F0 L F tn lim P j n rest X E1 Hl HA HW HQ Hfb Hc HK ltac:(lia) Hlit Hsib
                      Hpre Hrest HPlt HnX HXl L1 A1) as (F1 & Q1 & Hpre1 & B1 & O1).
        mstep as sts1 g2 E2.
        cbn [forked] in Hfb. destruct Hfb as (-> & _ & _).
        assert (Hin1 : forall o, In o (lf_tasks L1) -> In o (opn true ctx (XCall t (mksite tn (P ++ [eidx lim j])) ins body) st) \/ In o (lf_tasks L)).
        { intros o Ho. exact (sel_perm_in _ _ _ _ (P1 true) Ho). }
        destruct (IHl ctx r g1 sts1 g2 L0 F0 L1 F1 tn lim P (S j) n rest X E2 ltac:(rewrite F1'; exact Hl) A1 W1 Q1 Hfr) with (L' := L')
          as (F2 & Q2 & R1 & R2 & R3 & R4); try assumption.
        { eapply copen_grow; [exact Hc|exact P1]. }
        { lia. }
        { intros o Ho Hcx. destruct (Hin1 o Ho) as [Hi1|Hi1].
          - destruct (call_kids true ctx t _ ins body st _ _ o (w_nd _ _ _ W1) (P1 true) Hc Hi1 Hcx) as (_ & id & ->).
            eexists. reflexivity.
          - exact (Hsib o Hi1 Hcx). }
        { eapply ParLt_mono; eassumption. }
        { eapply XLt_mono; eassumption. }
        { intro Hlv. apply O1. destruct (live_true _ _ _ Hlv) as (o & Ho & Hcx & Hpo).
          destruct (Hin1 o Ho) as [Hi1|Hi1].
          - left. destruct (is_done st) eqn:D; [|reflexivity]. rewrite (opn_done _ _ _ _ D) in Hi1. contradiction.
          - right. eapply live_in; eassumption. }
        { mstep. exact HA'. }
        mstep. exists F2. split; [exact Q2|]. split; [exact R1|]. split; [exact R2|].
        split; [eapply BEx_trans; eassumption|].
        intros Hprem. apply R4.
        destruct Hprem as [Hd|Hlv].
        * cbn [all_done] in Hd. destruct (is_done st) eqn:D.
          -- left. exact Hd.
          -- right. destruct (start_call_state _ _ _ _ _ _ _ _ _ _ E1) as [->|(cid & i0 & sti & ->)]; [discriminate D|].
             eapply (live_in ctx P _ (inst cid (Some ctx) t (mksite tn (P ++ [eidx lim j])))).
             ++ eapply Permutation_in; [apply Permutation_sym; apply (P1 true)|]. cbn [opn]. left. reflexivity.
             ++ reflexivity.
             ++ eapply parent_is_app. reflexivity.
        * right. eapply live_perm; [|exact Hlv]. intros o Ho.
          eapply Permutation_in; [apply Permutation_sym; apply (P1 true)|]. apply in_or_app. right. exact Ho.
    - (* loop_test *)
      intros ctx ie s k g st g' L0 F0 L F tn pre i X H Hl HA HW HQ Hfk Hc HFp NK Hpar HPlt HPL HnX HXl L' HA'.
      cbn [loop_test] in H.
      destruct s as [n at_ ins|t at_ ins body|bs|e p fl|e b|v lim b|v lim c]; try discriminate.
      + (* while *)
        pose proof Hfk as Hfk0. cbn [forked] in Hfk. destruct Hfk as (HK & Hb).
        mstep as bb g1 E1.
        pose proof (Eff_Fr _ _ _ (decide_m_eff _ _ _ _ _ _ E1)) as FR1.
        destruct (pre_quiet _ _ _ _ FR1 (decide_N _ _ _ _ _ _ E1) Hl HA HW) as (Hl1 & HA1 & HW1).
        destruct (FQ_decide FAN orc _ _ _ _ _ F0 L F E1 HQ) as (F1 & Q1 & QX).
        destruct FR1 as (_ & FR1 & _).
        destruct bb.
        * mstep as r g2 E2.
          pose proof (Eff_Fr _ _ _ (proj1 (proj2 (start_eff orc imm f)) _ _ _ _ _ _ _ E2)) as (F1' & F2' & F3').
          destruct (LFb _ _ _ _ _ _ _ _ _ E2 Hl1 HA1 HW1 Hc) as (L2 & A2 & W2 & P2).
          destruct (IHb ctx ie b 0 g1 r g2 L0 F0 L F1 tn (pre ++ [i]) X E2 Hl1 HA1 HW1 Q1 Hb Hc HK NK) with (L' := L2)
            as (F2 & Q2 & X2 & PL2); try assumption.
          { rewrite (qx_par _ _ _ QX). exact Hpar. }
          { rewrite (qx_par _ _ _ QX). eapply ParLt_mono; eassumption. }
          { eapply PLok_same; [exact HPL|apply (qx_pl _ _ _ QX)]. }
          { eapply XLt_mono; eassumption. }
          assert (X2' : FEx (g_tid g) ctx F F2 (done_opt r)).
          { eapply FEx_q; [exact QX|]. eapply FEx_bound; eassumption. }
          destruct r as [[i0 sti]|].
          -- mstep. rewrite <- (Acc_fun _ _ _ _ A2 HA'). exists F2. split; [exact Q2|]. split; [exact X2'|exact PL2].
          -- cbn [opn_opt] in P2.
             destruct (IHt ctx ie (XWhile e b) (S k) g2 st g' L0 F0 L2 F2 tn pre i X H ltac:(rewrite F1'; exact Hl1) A2 W2 Q2 Hfk0)
               with (L' := L') as (F3 & Q3 & X3 & PL3); try assumption.
             { eapply copen_grow; [exact Hc|exact P2]. }
             { eapply NoKidsT_perm_nil; eassumption. }
             { rewrite (fx_par _ _ _ _ _ X2'). exact Hpar. }
             { rewrite (fx_par _ _ _ _ _ X2'). eapply ParLt_mono; [exact HPlt|lia]. }
             { eapply XLt_mono; [exact HXl|lia]. }
             exists F3. split; [exact Q3|]. split; [|exact PL3]. eapply FEx_trans; [exact X2'|exact X3|lia].
        * mstep. rewrite <- (Acc_fun _ _ _ _ HA1 HA'). exists F1. split; [exact Q1|]. split; [apply FEx_of_q; exact QX|].
          eapply PLok_same; [exact HPL|apply (qx_pl _ _ _ QX)].
      + (* counting loop *)
        pose proof Hfk as Hfk0. cbn [forked] in Hfk. destruct Hfk as (HK & Hb).
        mstep as nz g1 E1.
        pose proof (Eff_Fr _ _ _ (read_limit_eff _ _ _ _ _ _ E1)) as FR1.
        destruct (pre_quiet _ _ _ _ FR1 (limit_N _ _ _ _ _ _ E1) Hl HA HW) as (Hl1 & HA1 & HW1).
        destruct (FQ_limit FAN orc _ _ _ _ _ F0 L F E1 HQ) as (F1 & Q1 & QX & _).
        destruct FR1 as (_ & FR1 & _).
        destruct (Z.of_nat k <? nz)%Z.
        * mstep as r g2 E2.
          pose proof (Eff_Fr _ _ _ (proj1 (proj2 (start_eff orc imm f)) _ _ _ _ _ _ _ E2)) as (F1' & F2' & F3').
          destruct (LFb _ _ _ _ _ _ _ _ _ E2 Hl1 HA1 HW1 Hc) as (L2 & A2 & W2 & P2).
          destruct (IHb ctx ((v, k) :: ie) b 0 g1 r g2 L0 F0 L F1 tn (pre ++ [i]) X E2 Hl1 HA1 HW1 Q1 Hb Hc HK NK) with (L' := L2)
            as (F2 & Q2 & X2 & PL2); try assumption.
          { rewrite (qx_par _ _ _ QX). exact Hpar. }
          { rewrite (qx_par _ _ _ QX). eapply ParLt_mono; eassumption. }
          { eapply PLok_same; [exact HPL|apply (qx_pl _ _ _ QX)]. }
          { eapply XLt_mono; eassumption. }
          assert (X2' : FEx (g_tid g) ctx F F2 (done_opt r)).
          { eapply FEx_q; [exact QX|]. eapply FEx_bound; eassumption. }
          destruct r as [[i0 sti]|].
          -- mstep. rewrite <- (Acc_fun _ _ _ _ A2 HA'). exists F2. split; [exact Q2|]. split; [exact X2'|exact PL2].
          -- cbn [opn_opt] in P2.
             destruct (IHt ctx ie (XCount v lim b) (S k) g2 st g' L0 F0 L2 F2 tn pre i X H ltac:(rewrite F1'; exact Hl1) A2 W2 Q2 Hfk0)
               with (L' := L') as (F3 & Q3 & X3 & PL3); try assumption.
             { eapply copen_grow; [exact Hc|exact P2]. }
             { eapply NoKidsT_perm_nil; eassumption. }
             { rewrite (fx_par _ _ _ _ _ X2'). exact Hpar. }
             { rewrite (fx_par _ _ _ _ _ X2'). eapply ParLt_mono; [exact HPlt|lia]. }
             { eapply XLt_mono; [exact HXl|lia]. }
             exists F3. split; [exact Q3|]. split; [|exact PL3]. eapply FEx_trans; [exact X2'|exact X3|lia].
        * mstep. rewrite <- (Acc_fun _ _ _ _ HA1 HA'). exists F1. split; [exact Q1|]. split; [apply FEx_of_q; exact QX|].
          eapply PLok_same; [exact HPL|apply (qx_pl _ _ _ QX)].
    - (* a branch of a Parallel / an instance of a parallel loop *)
      intros ctx ie t at_ ins body g st g' L0 F0 L F tn lim P j n rest X H Hl HA HW HQ Hfk Hc HK Hj Hlit Hsib Hpre
             Hrest HPlt HnX HXl L' HA'.
      pose proof (copen_lt _ _ _ _ HW Hc) as Hlt.
      pose proof HQ as (HQ1 & HQ2 & HQ3).
      cbn [start_stmt] in H. cbn [forked] in Hfk. destruct Hfk as (-> & HBt & Hbody).
      mstep as id g1 E1. mstep as u2 g2 E2.
      destruct (tstart_N _ _ _ _ _ _ _ _ _ E1 E2) as (-> & B1 & B2 & B3 & B4). specialize (B4 Hl).
      destruct (life_TS L _ _ t (mksite tn (P ++ [eidx lim j])) ctx (subst_params ie ins) HW Hc) as (L1 & S1 & W1 & P1).
      set (nTS := mk TS t (mksite tn (P ++ [eidx lim j])) (g_tid g) (Some ctx) (subst_params ie ins)) in *.
      assert (HA1 : Acc L0 g2 L1).
      { eapply Acc_app; [exact HA|exact B4|]. cbn [life_run]. rewrite S1. reflexivity. }
      assert (W1' : W L1 (g_tid g2) (g_sid g2)) by (rewrite B2, B3; exact W1).
      assert (Hl2 : lst_all (g_ls g2)) by (rewrite B1; exact Hl).
      assert (Hle2 : g_tid g <= g_tid g2) by (rewrite B2; lia).
      assert (Hl1 : lst_all (g_ls g1)) by (unfold fresh_t in E1; inv E1; exact Hl).
      assert (Q1 : FQ F0 g1 L F) by (unfold fresh_t in E1; inv E1; eapply FQ_same; [exact HQ|reflexivity|reflexivity]).
      destruct lim as [lm|]; cbn [eidx] in *.
      + (* an instance of a parallel loop *)
        destruct (ev_inst F nTS ctx tn P lm n j rest X L eq_refl eq_refl HK Hj Hlit Hpre Hrest HnX HQ2 Hsib)
          as (e1 & T1 & Hst1 & Hwf1).
        match type of T1 with _ = Some ?Y => set (F1 := Y) in * end.
        assert (Q2 : FQ F0 g2 L1 F1).
        { eapply FQ_emit; [exact E2|exact Hl1|exact Q1|exact S1|unfold fnotif, fork_notif; exact T1]. }
        destruct Hpre as (Hp & Hs).
        assert (PL1 : PLok F1 (ctx :: X)).
        { intros k e Hk. cbn [F1 fk_pl assoc] in Hk. destruct (Nat.eqb k ctx) eqn:Ek.
          - inv Hk. split; [exact Hwf1|]. left. left. apply Nat.eqb_eq in Ek. congruence.
          - apply Nat.eqb_neq in Ek. rewrite assoc_dropk_other in Hk by exact Ek.
            destruct (Nat.eqb j 0).
            + destruct Hs as (HPL & _). destruct (HPL k e Hk) as [A [B|B]]; (split; [exact A|]); [left; right; exact B|right; exact B].
            + destruct Hs as (HPL & _). exact (HPL k e Hk). }
        destruct (call_rest f IHb ctx ie t tn P 0 ins body g2 st g' L0 F0 L L1 F1 (g_tid g) (g_sid g) (ctx :: X) H Hl2 HA1 W1' B2 HW Hlt P1 Q2
                            Hbody HBt) with (L' := L') as (F' & Q' & R1 & R2 & R3 & R4 & R5 & R6 & R7).
        { cbn [F1 fk_par]. rewrite Hp. eapply ParLt_assoc; [exact HPlt|lia]. }
        { cbn [F1 fk_par]. rewrite Hp. eapply ParLt_mono; eassumption. }
        { exact PL1. }
        { intros [Hi|Hi]; [lia|]. specialize (HXl _ Hi). lia. }
        { intros x [<-|Hx]; [lia|]. specialize (HXl _ Hx). lia. }
        { cbn [F1 fk_owe]. apply assoc_dropk_same. }
        { cbn [F1 fk_lastq]. apply assoc_dropk_same. }
        { exact HA'. }
        exists F'. split; [exact Q'|]. split; [|split].
        * cbn [pre_state]. split; [rewrite R1; exact Hp|]. cbn [Nat.eqb]. split; [exact R7|]. split; [|exact R6].
          exists e1. split; [|exact Hst1]. rewrite R4 by exact Hlt. cbn [F1 fk_pl assoc]. rewrite Nat.eqb_refl. reflexivity.
        * constructor.
          -- intros x Hx. destruct (R2 x Hx) as [Hy|Hy]; [|right; exact Hy]. left. cbn [F1 fk_owe] in Hy. apply in_dropk in Hy. apply Hy.
          -- intros k Hk Hne. rewrite R4 by exact Hk. cbn [F1 fk_pl assoc].
             assert (Nat.eqb k ctx = false) as -> by (apply Nat.eqb_neq; exact Hne). apply assoc_dropk_other. exact Hne.
          -- intros k Hk Hne. rewrite R5 by assumption. cbn [F1 fk_lastq nTS mk n_id]. rewrite !assoc_dropk_other by lia. reflexivity.
        * exact R3.
      + (* a branch of a Parallel *)
        destruct Hpre as (Hp & HPL).
        assert (Hpend : assoc ctx (fk_par F) = (if Nat.eqb j 0 then None else Some (P, j, n))).
        { rewrite Hp. destruct (Nat.eqb j 0) eqn:Ej.
          - apply Nat.eqb_eq in Ej. subst j. cbn. exact Hrest.
          - apply Nat.eqb_neq in Ej.
            assert (Nat.ltb 0 j = true) as -> by (apply Nat.ltb_lt; lia).
            assert (Nat.ltb j n = true) as -> by (apply Nat.ltb_lt; exact Hj).
            cbn [andb assoc]. rewrite Nat.eqb_refl. reflexivity. }
        assert (Hdrop : dropk ctx (fk_par F) = rest).
        { rewrite Hp. destruct (Nat.ltb 0 j && Nat.ltb j n).
          - cbn [dropk filter fst]. rewrite Nat.eqb_refl. cbn [negb]. apply dropk_absent. exact Hrest.
          - apply dropk_absent. exact Hrest. }
        assert (Hkid : fan_kid (FAN tn) true ctx (fk_tasks F) = false).
        { rewrite HQ2. apply (fan_kid_sibs tn P); [exact Hsib|]. rewrite HK. reflexivity. }
        pose proof (ev_branch FAN orc F nTS ctx tn P j n eq_refl eq_refl HK Hj Hpend (PLok_opt _ _ _ _ HPL HnX) Hkid) as T1.
        rewrite Hdrop in T1.
        match type of T1 with _ = Some ?Y => set (F1 := Y) in * end.
        assert (Q2 : FQ F0 g2 L1 F1).
        { eapply FQ_emit; [exact E2|exact Hl1|exact Q1|exact S1|unfold fnotif, fork_notif; exact T1]. }
        assert (Hpar1 : forall x, In x (fk_par F1) -> fst x < g_tid g).
        { intros x Hx. cbn [F1 fk_par] in Hx. destruct (Nat.ltb (S j) n); [destruct Hx as [<-|Hx]; [exact Hlt|]|]; apply HPlt; exact Hx. }
        destruct (call_rest f IHb ctx ie t tn P j ins body g2 st g' L0 F0 L L1 F1 (g_tid g) (g_sid g) X H Hl2 HA1 W1' B2 HW Hlt P1 Q2
                            Hbody HBt) with (L' := L') as (F' & Q' & R1 & R2 & R3 & R4 & R5 & R6 & R7).
        { apply assoc_none_all. intros x Hx He. specialize (Hpar1 x Hx). lia. }
        { intros x Hx. specialize (Hpar1 x Hx). lia. }
        { eapply PLok_drop; [exact HPL|reflexivity]. }
        { intro Hi. specialize (HXl _ Hi). lia. }
        { eapply XLt_mono; eassumption. }
        { cbn [F1 fk_owe]. apply assoc_dropk_same. }
        { cbn [F1 fk_lastq]. apply assoc_dropk_same. }
        { exact HA'. }
        exists F'. split; [exact Q'|]. split; [|split].
        * cbn [pre_state]. split; [|exact R7]. rewrite R1. cbn [F1 fk_par]. reflexivity.
        * constructor.
          -- intros x Hx. destruct (R2 x Hx) as [Hy|Hy]; [|right; exact Hy]. left. cbn [F1 fk_owe] in Hy. apply in_dropk in Hy. apply Hy.
          -- intros k Hk Hne. rewrite R4 by exact Hk. cbn [F1 fk_pl]. apply assoc_dropk_other. exact Hne.
          -- intros k Hk Hne. rewrite R5 by assumption. cbn [F1 fk_lastq nTS mk n_id]. rewrite !assoc_dropk_other by lia. reflexivity.
        * exact R3.
  Qed.
End StartF.

(* ===================================================================== *)
(* 7. the deliver family                                                   *)
(* ===================================================================== *)
Section DeliverF.
  Variable FAN : name -> list nat -> fan.
  Variable orc : oracle.
  Variable imm : nat -> bool.

  Notation FQ := (FQ FAN orc).
  Notation PLok := (PLok FAN).

  Definition NoKidsTF (c : nat) (Fr : bool -> list open_inst) : Prop := forall o, In o (Fr true) -> oi_ctx o <> Some c.

  Lemma owe_nil : forall (l : list (nat * bool)) c, (forall x, In x l -> fst x = c) -> assoc c l = None -> l = [].
  Proof.
    intros [|[k b] l] c H Ha; [reflexivity|]. exfalso. cbn [assoc] in Ha.
    pose proof (H (k, b) (or_introl eq_refl)) as E. cbn [fst] in E. subst k. rewrite Nat.eqb_refl in Ha. discriminate.
  Qed.

  (* a branch / instance that has not completed is in progress *)
  Lemma notdone_call_live : forall ctx tn P jj b st,
      is_call b = true -> forked FAN tn (P ++ [jj]) b -> wf b st -> is_done st = false ->
      live ctx P (opn true ctx b st) = true.
  Proof.
    intros ctx tn P jj b st Hc Hf Hw Hd. destruct b as [?|t at_ ins body|?|? ? ?|? ?|? ? ?|? ? ?]; try discriminate Hc.
    cbn [forked] in Hf. destruct Hf as (-> & _).
    inversion Hw as [ | | t0 a0 ins0 body0 cid i0 s1 st1 Hn1 Hw1 | | | | | ]; subst; [discriminate Hd|].
    cbn [opn]. eapply (live_in ctx P _ (inst cid (Some ctx) t (mksite tn (P ++ [jj])))).
    - left. reflexivity.
    - reflexivity.
    - eapply parent_is_app. reflexivity.
  Qed.

  Lemma notdone_list_live : forall ctx tn lim P l j sts,
      flist FAN lim tn P j l -> wf_list l sts -> all_done sts = false ->
      live ctx P (opn_list true ctx (map snd l) sts) = true.
  Proof.
    intros ctx tn lim P. induction l as [|[ie b] l IH]; intros j sts Hf Hw Hd.
    - inversion Hw; subst. discriminate Hd.
    - inversion Hw as [|? st ? sr Hb Hr]; subst. destruct Hf as (Hc & Hfb & Hfr). cbn [map snd opn_list all_done] in *.
      destruct (is_done st) eqn:D.
      + cbn [andb] in Hd. eapply live_perm; [|eapply IH; eassumption]. intros o Ho. apply in_or_app. right. exact Ho.
      + eapply live_perm; [|eapply notdone_call_live; eassumption]. intros o Ho. apply in_or_app. left. exact Ho.
  Qed.

  Definition DD_spec (f : nat) : Prop :=
    forall ctx ie s st id g r g' L0 F0 L F Fr tn pre i,
      deliver orc imm f ctx ie s st id g = Ok (r, g') ->
      lst_all (g_ls g) -> Acc L0 g L -> W L (g_tid g) (g_sid g) ->
      (forall tk, Permutation (sel tk L) (opn tk ctx s st ++ Fr tk)) ->
      copen ctx (Fr true) -> sep Fr (map oi_id (opn true ctx s st)) ->
      FQ F0 g L F -> forked FAN tn (pre ++ [i]) s -> wf s st ->
      fk_par F = [] -> fk_owe F = [] -> PLok F [] ->
      (is_call s = true \/ (FAN tn pre = FNone /\ NoKidsTF ctx Fr)) ->
      match r with
      | None => True
      | Some st' =>
        forall L', Acc L0 g' L' ->
        exists F', FQ F0 g' L' F' /\ fk_par F' = [] /\ PLok F' [] /\
                   (forall x, In x (fk_owe F') -> fst x = ctx) /\
                   ((is_done st' = false \/ live ctx pre (Fr true) = true) -> fk_owe F' = [])
      end.

  Definition DB_spec (f : nat) : Prop :=
    forall ctx ie ss i sti id g r g' L0 F0 L F Fr tn pre,
      deliver_block orc imm f ctx ie ss i sti id g = Ok (r, g') ->
      lst_all (g_ls g) -> Acc L0 g L -> W L (g_tid g) (g_sid g) ->
      (forall tk, Permutation (sel tk L) (opn_opt tk ctx ss (Some (i, sti)) ++ Fr tk)) ->
      copen ctx (Fr true) -> sep Fr (map oi_id (opn_opt true ctx ss (Some (i, sti)))) ->
      FQ F0 g L F -> fblock FAN tn pre ss -> wf_block ss i sti ->
      FAN tn pre = FNone -> NoKidsTF ctx Fr ->
      fk_par F = [] -> fk_owe F = [] -> PLok F [] ->
      match r with
      | None => True
      | Some r' =>
        forall L', Acc L0 g' L' ->
        exists F', FQ F0 g' L' F' /\ fk_par F' = [] /\ PLok F' [] /\
                   (forall x, In x (fk_owe F') -> fst x = ctx) /\
                   (done_opt r' = false -> fk_owe F' = [])
      end.

  Definition DL_spec (f : nat) : Prop :=
    forall ctx l sts id g r g' L0 F0 L F Fr tn lim P j n,
      deliver_list orc imm f ctx l sts id g = Ok (r, g') ->
      lst_all (g_ls g) -> Acc L0 g L -> W L (g_tid g) (g_sid g) ->
      (forall tk, Permutation (sel tk L) (opn_list tk ctx (map snd l) sts ++ Fr tk)) ->
      copen ctx (Fr true) -> sep Fr (map oi_id (opn_list true ctx (map snd l) sts)) ->
      FQ F0 g L F -> flist FAN lim tn P j l -> wf_list l sts -> FAN tn P = fan_of lim n ->
      fk_par F = [] -> fk_owe F = [] -> PLok F [] ->
      match r with
      | None => True
      | Some sts' =>
        forall L', Acc L0 g' L' ->
        exists F', FQ F0 g' L' F' /\ fk_par F' = [] /\ PLok F' [] /\
                   (forall x, In x (fk_owe F') -> fst x = ctx) /\
                   ((all_done sts' = false \/ live ctx P (Fr true) = true) -> fk_owe F' = [])
      end.

  Lemma NoKidsT_F : forall ctx L1 (Fr : bool -> list open_inst),
      NoKidsTF ctx Fr -> (forall tk, Permutation (sel tk L1) ([] ++ Fr tk)) -> NoKidsT ctx L1.
  Proof. intros ctx L1 Fr H HP o Hi. apply (H o). eapply Permutation_in; [apply (HP true)|exact Hi]. Qed.

  Lemma live_F_false : forall ctx pre Fr, NoKidsTF ctx Fr -> live ctx pre (Fr true) = false.
  Proof. intros ctx pre Fr H. apply live_nokids. exact H. Qed.

  Lemma ParLt_nil : forall g, ParLt g [].
  Proof. intros g x []. Qed.
  Lemma XLt_nil : forall g, XLt g [].
  Proof. intros g x []. Qed.

  Theorem deliver_fork : forall f, DD_spec f /\ DB_spec f /\ DL_spec f.
  Proof.
    induction f as [|f IH]; [split; [|split]; red; intros; discriminate|].
    destruct IH as (IHd & IHb & IHl).
    destruct (deliver_life orc imm f) as (DLd & DLb & DLl).
    destruct (start_fork FAN orc imm f) as (_ & SSb & _ & SSt & _).
    split; [|split].
    - (* deliver *)
      intros ctx ie s st id g r g' L0 F0 L F Fr tn pre i H Hl HA HW HP HF Hsep HQ Hfk Hwf Hpar Howe HPL HKF.
      cbn [deliver] in H.
      destruct s as [n at_ ins|t at_ ins body|bs|e p fl|e b|v lim b|v lim c];
        destruct st as [|id'|cid j sti|sts|bb j sti|k j sti|sts];
        try (mstep; exact I).
      + (* service *)
        destruct (Nat.eqb id id') eqn:Eq; [|mstep; exact I].
        apply Nat.eqb_eq in Eq. subst id'. cbn [forked] in Hfk. subst at_.
        mstep as u g1 E1. destruct (emit_frame _ _ _ _ _ E1) as (C1 & C2 & C3).
        pose proof (emit_N _ _ _ _ _ E1 Hl) as C4. mstep.
        destruct (life_SF L _ _ n (mksite tn (pre ++ [i])) id (Some ctx) (subst_params ie ins) Fr HW HP) as (L1 & S1 & W1 & P1).
        intros L' HA'.
        assert (HA1 : Acc L0 g1 L1).
        { eapply Acc_app; [exact HA|exact C4|]. cbn [life_run]. rewrite S1. reflexivity. }
        rewrite <- (Acc_fun _ _ _ _ HA1 HA').
        destruct (ev_SF FAN orc F (mk SF n (mksite tn (pre ++ [i])) id (Some ctx) (subst_params ie ins)) eq_refl)
          as (F1 & T1 & R1 & R2 & R3 & R4 & R5).
        exists F1. split; [eapply FQ_emit; [exact E1|exact Hl|exact HQ|exact S1|exact T1]|].
        split; [rewrite R2; exact Hpar|]. split; [eapply PLok_same; [exact HPL|exact R3]|].
        rewrite R4, Howe. split; [intros x []|intros _; reflexivity].
      + (* call *)
        cbn [forked] in Hfk. destruct Hfk as (-> & HBt & Hbody).
        inversion Hwf as [ | | t0 a0 ins0 body0 cid0 i0 s1 st1 Hn1 Hw1 | | | | | ]; subst.
        mstep as r1 g1 E1.
        pose proof (dres_ls _ _ _ _ _ _ (proj1 (proj2 (deliver_eff orc imm f)) _ _ _ _ _ _ _ _ _ E1)) as Ls1.
        set (T := inst cid (Some ctx) t (mksite tn (pre ++ [i]))) in *.
        set (Fr' := fun tk : bool => (if tk then [T] else []) ++ Fr tk).
        assert (HP0 : forall tk, Permutation (sel tk L)
                 (((if tk then [T] else []) ++ opn_opt tk cid body (Some (j, sti))) ++ Fr tk)) by exact HP.
        assert (Hsep0 : sep Fr (cid :: map oi_id (opn_opt true cid body (Some (j, sti))))) by exact Hsep.
        assert (HP' : forall tk, Permutation (sel tk L) (opn_opt tk cid body (Some (j, sti)) ++ Fr' tk)).
        { unfold Fr'. clear - HP0. perm. }
        assert (HF' : copen cid (Fr' true)).
        { exists T. split; [left; reflexivity|reflexivity]. }
        assert (Hne : cid <> ctx).
        { intro Heq. destruct HF as (o' & Ho' & Hid').
          eapply (nd_disj _ _ _ ctx (w_nd _ _ _ HW) (HP0 true)).
          - rewrite map_app. apply in_or_app. left. cbn [map app]. left. cbn. exact Heq.
          - rewrite <- Hid'. apply in_map. exact Ho'. }
        assert (Hsep' : sep Fr' (map oi_id (opn_opt true cid body (Some (j, sti))))).
        { apply (sep_extend Fr (fun tk : bool => if tk then [T] else []) _ ctx).
          - eapply sep_sub; [exact Hsep0|]. intros x Hx. right. exact Hx.
          - intros tk o Hi. destruct tk; [|contradiction]. destruct Hi as [<-|[]]. left. reflexivity.
          - intro Hi. destruct HF as (o' & Ho' & Hid').
            eapply (nd_disj _ _ _ ctx (w_nd _ _ _ HW) (HP0 true)).
            + rewrite map_app. apply in_or_app. right. exact Hi.
            + rewrite <- Hid'. apply in_map. exact Ho'.
          - intros t0 Ht0 Hi. destruct Ht0 as [<-|[]].
            assert (Q : Permutation (lf_tasks L) ([T] ++ (opn_opt true cid body (Some (j, sti)) ++ Fr true))).
            { specialize (HP0 true). cbn [sel] in HP0. clear - HP0. perm. }
            eapply (nd_disj _ _ _ cid (w_nd _ _ _ HW) Q).
            + left. reflexivity.
            + rewrite map_app. apply in_or_app. left. exact Hi. }
        assert (NK' : NoKidsTF cid Fr').
        { intros o Hi Hcx. unfold Fr' in Hi. apply in_app_iff in Hi. destruct Hi as [Hi|Hi].
          - destruct Hi as [<-|[]]. cbn in Hcx. inv Hcx. apply Hne. reflexivity.
          - apply (Hsep0 true o cid Hi); [left; reflexivity|exact Hcx]. }
        pose proof (DLb _ _ _ _ _ _ _ _ _ _ _ _ E1 Hl HA HW HP' HF' Hsep') as R1.
        pose proof (IHb cid [] body j sti id g r1 g1 L0 F0 L F Fr' t [] E1 Hl HA HW HP' HF' Hsep' HQ Hbody
                        (ex_intro _ s1 (conj Hn1 Hw1)) HBt NK' Hpar Howe HPL) as R1'.
        destruct r1 as [[[j' st']|]|]; cbn [dpost] in R1.
        * mstep. intros L' HA'. destruct (R1' L' HA') as (F1 & Q1 & E2 & E3 & E4 & E5).
          exists F1. split; [exact Q1|]. split; [exact E2|]. split; [exact E3|].
          rewrite (E5 eq_refl). split; [intros x []|intros _; reflexivity].
        * destruct R1 as (L1 & A1 & W1 & P1). destruct (R1' L1 A1) as (F1 & Q1 & E2 & E3 & E4 & _).
          mstep as u g2 E6. destruct (emit_frame _ _ _ _ _ E6) as (C1 & C2 & C3).
          pose proof (emit_N _ _ _ _ _ E6 ltac:(rewrite Ls1; exact Hl)) as C4. mstep.
          destruct (life_TF L1 _ _ t (mksite tn (pre ++ [i])) cid (Some ctx) (subst_params ie ins) Fr W1) as (L2 & S2 & W2 & P2).
          { fold T. unfold Fr' in P1. cbn [opn_opt] in P1. clear - P1. perm. }
          { intros tk o Hi. apply (Hsep0 tk o cid Hi). left. reflexivity. }
          intros L' HA'.
          assert (HA2 : Acc L0 g2 L2).
          { eapply Acc_app; [exact A1|exact C4|]. cbn [life_run]. rewrite S2. reflexivity. }
          rewrite <- (Acc_fun _ _ _ _ HA2 HA').
          set (nTF := mk TF t (mksite tn (pre ++ [i])) cid (Some ctx) (subst_params ie ins)) in *.
          destruct (ev_TF FAN orc F1 L1 nTF L2 (proj1 (proj2 Q1)) eq_refl S2) as (F2 & T2 & G1 & G2 & G3 & G4 & G5 & _).
          { cbn [nTF mk n_id]. rewrite E2. reflexivity. }
          { cbn [nTF mk n_id]. eapply PLok_opt; [exact E3|intros []]. }
          cbn [nTF mk n_id n_ctx n_site mksite st_path] in G1, G2, G3, G4, G5.
          assert (Hx2 : forall x, In x (fk_owe F2) -> fst x = ctx).
          { intros x Hx. destruct (G4 x Hx) as [[Hy Hz]|Hy]; [exfalso; apply Hz; apply E4; exact Hy|]. inv Hy. reflexivity. }
          exists F2. split; [eapply FQ_emit; [exact E6|rewrite Ls1; exact Hl|exact Q1|exact S2|exact T2]|].
          split; [rewrite G1; exact E2|]. split; [eapply PLok_drop; [exact E3|exact G2]|]. split; [exact Hx2|].
          intros [Hd|Hlive]; [discriminate Hd|]. apply (owe_nil _ ctx Hx2).
          apply (G5 ctx pre i eq_refl eq_refl (fun E => Hne (eq_sym E))).
          -- eapply live_perm; [|exact Hlive]. intros o Ho.
             eapply Permutation_in; [apply Permutation_sym; apply (P2 true)|exact Ho].
          -- apply assoc_none_all. intros x Hx He. apply Hne. rewrite <- (E4 x Hx). exact He.
        * mstep. exact I.
      + (* parallel *)
        cbn [forked] in Hfk. destruct Hfk as (HK & Hbs).
        inversion Hwf as [ | | | bs0 sts0 HF2 | | | | ]; subst.
        assert (NKF : NoKidsTF ctx Fr) by (destruct HKF as [X|[_ X]]; [discriminate X|exact X]).
        mstep as r1 g1 E1.
        assert (HP' : forall tk, Permutation (sel tk L)
                   (opn_list tk ctx (map snd (map (fun b => (ie, b)) bs)) sts ++ Fr tk)).
        { intro tk. rewrite map_snd_pair, <- opn_par. apply HP. }
        assert (Hsep' : sep Fr (map oi_id (opn_list true ctx (map snd (map (fun b => (ie, b)) bs)) sts))).
        { rewrite map_snd_pair, <- opn_par. exact Hsep. }
        pose proof (IHl ctx _ sts id g r1 g1 L0 F0 L F Fr tn None (pre ++ [i]) 0 (List.length bs) E1 Hl HA HW HP' HF Hsep' HQ
                        (flist_par FAN _ _ _ _ _ Hbs) (wf_list_map_intro ie _ _ HF2) HK Hpar Howe HPL) as R1'.
        destruct r1 as [sts'|]; [|mstep; exact I].
        destruct (all_done sts') eqn:D; mstep; intros L' HA'; destruct (R1' L' HA') as (F1 & Q1 & E2 & E3 & E4 & E5);
          exists F1; (split; [exact Q1|]); (split; [exact E2|]); (split; [exact E3|]); (split; [exact E4|]).
        * intros [Hd|Hlv]; [discriminate Hd|]. rewrite (live_F_false _ _ _ NKF) in Hlv. discriminate Hlv.
        * intros _. apply E5. left. reflexivity.
      + (* condition *)
        cbn [forked] in Hfk. destruct Hfk as (HB0 & HB1 & Hp & Hf).
        inversion Hwf as [ | | | | e0 p0 fl0 b0 i0 s1 st1 Hn1 Hw1 | | | ]; subst.
        assert (NKF : NoKidsTF ctx Fr) by (destruct HKF as [X|[_ X]]; [discriminate X|exact X]).
        mstep as r1 g1 E1.
        pose proof (IHb ctx ie (if bb then p else fl) j sti id g r1 g1 L0 F0 L F Fr tn ((pre ++ [i]) ++ [if bb then 0 else 1])
                        E1 Hl HA HW HP HF Hsep HQ) as R1'.
        assert (R1'' : match r1 with
                       | None => True
                       | Some r' => forall L', Acc L0 g1 L' ->
                          exists F', FQ F0 g1 L' F' /\ fk_par F' = [] /\ PLok F' [] /\
                                     (forall x, In x (fk_owe F') -> fst x = ctx) /\ (done_opt r' = false -> fk_owe F' = [])
                       end).
        { apply R1'; try assumption; try (destruct bb; assumption). exists s1. split; assumption. }
        clear R1'.
        destruct r1 as [[[j' st']|]|]; mstep; try exact I; intros L' HA'; destruct (R1'' L' HA') as (F1 & Q1 & E2 & E3 & E4 & E5);
          exists F1; (split; [exact Q1|]); (split; [exact E2|]); (split; [exact E3|]); (split; [exact E4|]).
        * intros _. apply E5. reflexivity.
        * intros [Hd|Hlv]; [discriminate Hd|]. rewrite (live_F_false _ _ _ NKF) in Hlv. discriminate Hlv.
      + (* while *)
        pose proof Hfk as Hfk0. cbn [forked] in Hfk. destruct Hfk as (HK & Hb).
        inversion Hwf as [ | | | | | e0 body0 k0 i0 s1 st1 Hn1 Hw1 | | ]; subst.
        assert (HFp : FAN tn pre = FNone) by (destruct HKF as [X|[X _]]; [discriminate X|exact X]).
        assert (NKF : NoKidsTF ctx Fr) by (destruct HKF as [X|[_ X]]; [discriminate X|exact X]).
        mstep as r1 g1 E1.
        pose proof (dres_ls _ _ _ _ _ _ (proj1 (proj2 (deliver_eff orc imm f)) _ _ _ _ _ _ _ _ _ E1)) as Ls1.
        pose proof (DLb _ _ _ _ _ _ _ _ _ _ _ _ E1 Hl HA HW HP HF Hsep) as R1.
        pose proof (IHb ctx ie b j sti id g r1 g1 L0 F0 L F Fr tn (pre ++ [i]) E1 Hl HA HW HP HF Hsep HQ Hb
                        (ex_intro _ s1 (conj Hn1 Hw1)) HK NKF Hpar Howe HPL) as R1'.
        destruct r1 as [[[j' st']|]|]; cbn [dpost] in R1.
        * mstep. intros L' HA'. destruct (R1' L' HA') as (F1 & Q1 & E2 & E3 & E4 & E5).
          exists F1. split; [exact Q1|]. split; [exact E2|]. split; [exact E3|]. split; [exact E4|].
          intros _. apply E5. reflexivity.
        * destruct R1 as (L1 & A1 & W1 & P1). destruct (R1' L1 A1) as (F1 & Q1 & E2 & E3 & E4 & _).
          mstep as st' g2 E6. mstep. cbn [opn_opt] in P1.
          intros L' HA'.
          destruct (SSt ctx ie (XWhile e b) (S k) g1 st' g2 L0 F0 L1 F1 tn pre i [] E6 ltac:(rewrite Ls1; exact Hl) A1 W1 Q1 Hfk0)
            with (L' := L') as (F2 & Q2 & X2 & PL2); try assumption.
          { exact (copen_F ctx L1 (fun _ => []) Fr HF P1). }
          { exact (NoKidsT_F ctx L1 Fr NKF P1). }
          { rewrite E2. reflexivity. }
          { rewrite E2. apply ParLt_nil. }
          { intros []. }
          { apply XLt_nil. }
          assert (Hx2 : forall x, In x (fk_owe F2) -> fst x = ctx).
          { intros x Hx. destruct (fx_owe1 _ _ _ _ _ X2 x Hx) as [Hy|Hy]; [apply E4; exact Hy|exact Hy]. }
          exists F2. split; [exact Q2|]. split; [rewrite (fx_par _ _ _ _ _ X2); exact E2|]. split; [exact PL2|]. split; [exact Hx2|].
          intros [Hd|Hlv]; [|rewrite (live_F_false _ _ _ NKF) in Hlv; discriminate Hlv].
          apply (owe_nil _ ctx Hx2). apply (fx_owe2 _ _ _ _ _ X2). exact Hd.
        * mstep. exact I.
      + (* counting loop *)
        pose proof Hfk as Hfk0. cbn [forked] in Hfk. destruct Hfk as (HK & Hb).
        inversion Hwf as [ | | | | | | v0 lim0 body0 k0 i0 s1 st1 Hn1 Hw1 | ]; subst.
        assert (HFp : FAN tn pre = FNone) by (destruct HKF as [X|[X _]]; [discriminate X|exact X]).
        assert (NKF : NoKidsTF ctx Fr) by (destruct HKF as [X|[_ X]]; [discriminate X|exact X]).
        mstep as r1 g1 E1.
        pose proof (dres_ls _ _ _ _ _ _ (proj1 (proj2 (deliver_eff orc imm f)) _ _ _ _ _ _ _ _ _ E1)) as Ls1.
        pose proof (DLb _ _ _ _ _ _ _ _ _ _ _ _ E1 Hl HA HW HP HF Hsep) as R1.
        pose proof (IHb ctx ((v, k) :: ie) b j sti id g r1 g1 L0 F0 L F Fr tn (pre ++ [i]) E1 Hl HA HW HP HF Hsep HQ Hb
                        (ex_intro _ s1 (conj Hn1 Hw1)) HK NKF Hpar Howe HPL) as R1'.
        destruct r1 as [[[j' st']|]|]; cbn [dpost] in R1.
        * mstep. intros L' HA'. destruct (R1' L' HA') as (F1 & Q1 & E2 & E3 & E4 & E5).
          exists F1. split; [exact Q1|]. split; [exact E2|]. split; [exact E3|]. split; [exact E4|].
          intros _. apply E5. reflexivity.
        * destruct R1 as (L1 & A1 & W1 & P1). destruct (R1' L1 A1) as (F1 & Q1 & E2 & E3 & E4 & _).
          mstep as st' g2 E6. mstep. cbn [opn_opt] in P1.
          intros L' HA'.
          destruct (SSt ctx ie (XCount v lim b) (S k) g1 st' g2 L0 F0 L1 F1 tn pre i [] E6 ltac:(rewrite Ls1; exact Hl) A1 W1 Q1 Hfk0)
            with (L' := L') as (F2 & Q2 & X2 & PL2); try assumption.
          { exact (copen_F ctx L1 (fun _ => []) Fr HF P1). }
          { exact (NoKidsT_F ctx L1 Fr NKF P1). }
          { rewrite E2. reflexivity. }
          { rewrite E2. apply ParLt_nil. }
          { intros []. }
          { apply XLt_nil. }
          assert (Hx2 : forall x, In x (fk_owe F2) -> fst x = ctx).
          { intros x Hx. destruct (fx_owe1 _ _ _ _ _ X2 x Hx) as [Hy|Hy]; [apply E4; exact Hy|exact Hy]. }
          exists F2. split; [exact Q2|]. split; [rewrite (fx_par _ _ _ _ _ X2); exact E2|]. split; [exact PL2|]. split; [exact Hx2|].
          intros [Hd|Hlv]; [|rewrite (live_F_false _ _ _ NKF) in Hlv; discriminate Hlv].
          apply (owe_nil _ ctx Hx2). apply (fx_owe2 _ _ _ _ _ X2). exact Hd.
        * mstep. exact I.
      + (* parallel loop *)
        cbn [forked] in Hfk. destruct Hfk as (HK & Hcc & Hcs).
        inversion Hwf as [ | | | | | | | v0 lim0 c0 sts0 HF1 ]; subst.
        assert (NKF : NoKidsTF ctx Fr) by (destruct HKF as [X|[_ X]]; [discriminate X|exact X]).
        mstep as r1 g1 E1.
        assert (HP' : forall tk, Permutation (sel tk L)
                   (opn_list tk ctx (map snd (insts ie v c (List.length sts))) sts ++ Fr tk)).
        { intro tk. rewrite (opn_list_insts _ _ _ _ _ _ _ eq_refl), <- (opn_parloop tk ctx v lim). apply HP. }
        assert (Hsep' : sep Fr (map oi_id (opn_list true ctx (map snd (insts ie v c (List.length sts))) sts))).
        { rewrite (opn_list_insts _ _ _ _ _ _ _ eq_refl), <- (opn_parloop true ctx v lim). exact Hsep. }
        pose proof (IHl ctx _ sts id g r1 g1 L0 F0 L F Fr tn (Some lim) (pre ++ [i]) 0 0 E1 Hl HA HW HP' HF Hsep' HQ
                        (flist_insts FAN _ _ _ _ _ _ _ _ Hcc Hcs) (wf_list_insts ie v c sts HF1) HK Hpar Howe HPL) as R1'.
        destruct r1 as [sts'|]; [|mstep; exact I].
        destruct (all_done sts') eqn:D; mstep; intros L' HA'; destruct (R1' L' HA') as (F1 & Q1 & E2 & E3 & E4 & E5);
          exists F1; (split; [exact Q1|]); (split; [exact E2|]); (split; [exact E3|]); (split; [exact E4|]).
        * intros [Hd|Hlv]; [discriminate Hd|]. rewrite (live_F_false _ _ _ NKF) in Hlv. discriminate Hlv.
        * intros _. apply E5. left. reflexivity.
    - (* deliver_block *)
      intros ctx ie ss i sti id g r g' L0 F0 L F Fr tn pre H Hl HA HW HP HF Hsep HQ Hfb Hwf HFp NKF Hpar Howe HPL.
      cbn [deliver_block] in H. cbn [opn_opt] in HP, Hsep. destruct Hwf as (s0 & Hn0 & Hw0).
      destruct (nth_error ss i) as [s1|] eqn:Hn; [|mstep; exact I]. inv Hn0.
      mstep as r1 g1 E1.
      pose proof (dres_ls _ _ _ _ _ _ (proj1 (deliver_eff orc imm f) _ _ _ _ _ _ _ _ E1)) as Ls1.
      pose proof (DLd _ _ _ _ _ _ _ _ _ _ _ E1 Hl HA HW HP HF Hsep) as R1.
      pose proof (IHd ctx ie s0 sti id g r1 g1 L0 F0 L F Fr tn pre i E1 Hl HA HW HP HF Hsep HQ (fblock_nth FAN _ _ _ _ _ Hfb Hn)
                      Hw0 Hpar Howe HPL (or_intror (conj HFp NKF))) as R1'.
      destruct r1 as [st'|]; cbn [dpost] in R1; [|mstep; exact I].
      destruct R1 as (L1 & A1 & W1 & P1).
      destruct (is_done st') eqn:D.
      + destruct (R1' L1 A1) as (F1 & Q1 & E2 & E3 & E4 & _).
        mstep as r' g2 E6. mstep. intros L' HA'.
        assert (P1' : forall tk, Permutation (sel tk L1) ([] ++ Fr tk)).
        { intro tk. rewrite <- (opn_done tk ctx s0 st' D). apply P1. }
        destruct (SSb ctx ie ss (S i) g1 r' g2 L0 F0 L1 F1 tn pre [] E6 ltac:(rewrite Ls1; exact Hl) A1 W1 Q1 Hfb)
          with (L' := L') as (F2 & Q2 & X2 & PL2); try assumption.
        { exact (copen_F ctx L1 (fun _ => []) Fr HF P1'). }
        { exact (NoKidsT_F ctx L1 Fr NKF P1'). }
        { rewrite E2. reflexivity. }
        { rewrite E2. apply ParLt_nil. }
        { intros []. }
        { apply XLt_nil. }
        assert (Hx2 : forall x, In x (fk_owe F2) -> fst x = ctx).
        { intros x Hx. destruct (fx_owe1 _ _ _ _ _ X2 x Hx) as [Hy|Hy]; [apply E4; exact Hy|exact Hy]. }
        exists F2. split; [exact Q2|]. split; [rewrite (fx_par _ _ _ _ _ X2); exact E2|]. split; [exact PL2|]. split; [exact Hx2|].
        intro Hd. apply (owe_nil _ ctx Hx2). apply (fx_owe2 _ _ _ _ _ X2). exact Hd.
      + mstep. intros L' HA'. destruct (R1' L' HA') as (F1 & Q1 & E2 & E3 & E4 & E5).
        exists F1. split; [exact Q1|]. split; [exact E2|]. split; [exact E3|]. split; [exact E4|].
        intros _. apply E5. left. reflexivity.
    - (* deliver_list *)
      intros ctx l sts id g r g' L0 F0 L F Fr tn lim P j n H Hl HA HW HP HF Hsep HQ Hfl Hwf HK Hpar Howe HPL.
      cbn [deliver_list] in H.
      destruct l as [|[ie b] br]; [mstep; exact I|].
      destruct sts as [|st sr]; [mstep; exact I|].
      destruct Hfl as (Hcb & Hfb & Hfr). inversion Hwf as [|? ? ? ? Hwb Hwr]; subst. cbn [snd] in Hwb.
      cbn [map snd opn_list] in HP, Hsep. rewrite map_app in Hsep.
      set (A := fun tk : bool => opn tk ctx b st) in *.
      set (B := fun tk : bool => opn_list tk ctx (map snd br) sr) in *.
      assert (HPt : Permutation (lf_tasks L) (A true ++ (B true ++ Fr true))).
      { specialize (HP true). cbn [sel] in HP. unfold A, B. clear - HP. perm. }
      assert (HPt' : Permutation (lf_tasks L) (B true ++ (A true ++ Fr true))).
      { specialize (HP true). cbn [sel] in HP. unfold A, B. clear - HP. perm. }
      assert (NoA : ~ In ctx (map oi_id (A true))).
      { intro Hi. destruct HF as (o' & Ho' & Hid').
        eapply (nd_disj _ _ _ ctx (w_nd _ _ _ HW) HPt); [exact Hi|].
        rewrite map_app. apply in_or_app. right. rewrite <- Hid'. apply in_map. exact Ho'. }
      assert (NoB : ~ In ctx (map oi_id (B true))).
      { intro Hi. destruct HF as (o' & Ho' & Hid').
        eapply (nd_disj _ _ _ ctx (w_nd _ _ _ HW) HPt'); [exact Hi|].
        rewrite map_app. apply in_or_app. right. rewrite <- Hid'. apply in_map. exact Ho'. }
      mstep as r1 g1 E1.
      pose proof (proj1 (deliver_eff orc imm f) _ _ _ _ _ _ _ _ E1) as DE1.
      assert (HP1 : forall tk, Permutation (sel tk L) (A tk ++ (fun tk => B tk ++ Fr tk) tk)).
      { unfold A, B. clear - HP. perm. }
      assert (HF1 : copen ctx ((fun tk => B tk ++ Fr tk) true)).
      { destruct HF as (o' & Ho' & Hid'). exists o'. split; [apply in_or_app; right; exact Ho'|exact Hid']. }
      assert (Hsep1 : sep (fun tk => B tk ++ Fr tk) (map oi_id (A true))).
      { apply (sep_extend Fr B _ ctx).
        - eapply sep_sub; [exact Hsep|]. intros x Hx. apply in_or_app. left. exact Hx.
        - apply opn_list_ctx.
        - exact NoA.
        - intros t0 Ht0 Hi. eapply (nd_disj _ _ _ t0 (w_nd _ _ _ HW) HPt); [exact Hi|].
          rewrite map_app. apply in_or_app. left. exact Ht0. }
      pose proof (IHd ctx ie b st id g r1 g1 L0 F0 L F (fun tk => B tk ++ Fr tk) tn P (eidx lim j) E1 Hl HA HW HP1 HF1 Hsep1 HQ Hfb
                      Hwb Hpar Howe HPL (or_introl Hcb)) as R1'.
      destruct r1 as [st'|]; cbn [dres] in DE1.
      + mstep. intros L' HA'. destruct (R1' L' HA') as (F1 & Q1 & E2 & E3 & E4 & E5).
        exists F1. split; [exact Q1|]. split; [exact E2|]. split; [exact E3|]. split; [exact E4|].
        intros Hprem. apply E5. cbn [all_done] in Hprem.
        destruct (is_done st') eqn:D; [right|left; reflexivity].
        destruct Hprem as [Hd|Hlv].
        * cbn [andb] in Hd. eapply live_perm; [|eapply (notdone_list_live ctx tn lim P br (S j) sr); eassumption].
          intros o Ho. apply in_or_app. left. exact Ho.
        * eapply live_perm; [|exact Hlv]. intros o Ho. apply in_or_app. right. exact Ho.
      + subst g1. mstep as r2 g2 E2.
        assert (HP2 : forall tk, Permutation (sel tk L) (B tk ++ (fun tk => A tk ++ Fr tk) tk)).
        { unfold A, B. clear - HP. perm. }
        assert (HF2 : copen ctx ((fun tk => A tk ++ Fr tk) true)).
        { destruct HF as (o' & Ho' & Hid'). exists o'. split; [apply in_or_app; right; exact Ho'|exact Hid']. }
        assert (Hsep2 : sep (fun tk => A tk ++ Fr tk) (map oi_id (B true))).
        { apply (sep_extend Fr A _ ctx).
          - eapply sep_sub; [exact Hsep|]. intros x Hx. apply in_or_app. right. exact Hx.
          - apply opn_ctx.
          - exact NoB.
          - intros t0 Ht0 Hi. eapply (nd_disj _ _ _ t0 (w_nd _ _ _ HW) HPt'); [exact Hi|].
            rewrite map_app. apply in_or_app. left. exact Ht0. }
        pose proof (IHl ctx br sr id g r2 g2 L0 F0 L F (fun tk => A tk ++ Fr tk) tn lim P (S j) n E2 Hl HA HW HP2 HF2 Hsep2 HQ Hfr
                        Hwr HK Hpar Howe HPL) as R2'.
        destruct r2 as [sr'|]; mstep; [|exact I].
        intros L' HA'. destruct (R2' L' HA') as (F2 & Q2 & E3 & E4 & E5 & E6).
        exists F2. split; [exact Q2|]. split; [exact E3|]. split; [exact E4|]. split; [exact E5|].
        intros Hprem. apply E6. cbn [all_done] in Hprem.
        destruct (is_done st) eqn:D.
        * destruct Hprem as [Hd|Hlv]; [left; exact Hd|right].
          eapply live_perm; [|exact Hlv]. intros o Ho. apply in_or_app. right. exact Ho.
        * right. eapply live_perm; [|eapply (notdone_call_live ctx tn P (eidx lim j) b st); eassumption].
          intros o Ho. apply in_or_app. left. exact Ho.
  Qed.
End DeliverF.

(* ===================================================================== *)
(* 8. the call-tree unfolding produces forked bodies                       *)
(* ===================================================================== *)
Definition fblk_at (body : list stmt) (pre : list nat) (ss : list stmt) : Prop :=
  forall p, p <> [] -> fan_path body (pre ++ p) = fan_path ss p.

Lemma fblk_at_root : forall body, fblk_at body [] body.
Proof. intros body p _. reflexivity. Qed.

Lemma calls_length : forall (g : nat -> call -> res xstmt) ss i xs,
    (fix calls (i : nat) (l : list call) {struct l} : res (list xstmt) :=
       match l with
       | [] => Ok []
       | c :: r => rbind (g i c) (fun x => rbind (calls (S i) r) (fun xs => Ok (x :: xs)))
       end) i ss = Ok xs -> List.length xs = List.length ss.
Proof.
  intros g. induction ss as [|s1 r IHr]; intros i xs H.
  - inv H. reflexivity.
  - destruct (g i s1) as [x| | |] eqn:E1; try discriminate. cbn [rbind] in H.
    match type of H with rbind ?X _ = _ => destruct X as [xs'| | |] eqn:E2 end; try discriminate.
    cbn [rbind] in H. inv H. cbn. f_equal. eapply IHr. exact E2.
Qed.

Section UnfoldForked.
  Variable tasks : list task.

  Lemma fan_at_nil : forall t, fan_at tasks t [] = FNone.
  Proof. intro t. unfold fan_at. destruct (find_task t tasks); reflexivity. Qed.

  Lemma unfold_forked : forall f tn t0 pre i ss s x,
      find_task tn tasks = Some t0 -> fblk_at (t_body t0) pre ss -> nth_error ss i = Some s ->
      unfold_stmt tasks f tn (pre ++ [i]) s = Ok x -> forked (fan_at tasks) tn (pre ++ [i]) x.
  Proof.
    induction f as [|f IH]; intros tn t0 pre i ss s x Hft Hblk Hn H; [discriminate|].
    cbn [unfold_stmt] in H.
    assert (KA : forall p, p <> [] -> fan_at tasks tn (pre ++ p) = fan_path ss p).
    { intros p Hp. unfold fan_at. rewrite Hft. apply Hblk. exact Hp. }
    assert (DC : forall pth c y,
               match find_task (c_name c) tasks with
               | Some t =>
                 rbind
                   ((fix blk (i : nat) (ss : list stmt) {struct ss} : res (list xstmt) :=
                       match ss with
                       | [] => Ok []
                       | s1 :: r =>
                         rbind (unfold_stmt tasks f (t_name t) [i] s1)
                               (fun x : xstmt => rbind (blk (S i) r) (fun xs : list xstmt => Ok (x :: xs)))
                       end) 0 (t_body t))
                   (fun body : list xstmt =>
                      Ok (XCall (c_name c) {| st_task := tn; st_path := pth |} (c_ins c) body))
               | None => Exn KeyError
               end = Ok y -> is_call y = true /\ forked (fan_at tasks) tn pth y).
    { intros pth c y Hy. destruct (find_task (c_name c) tasks) as [t|] eqn:Ft; [|discriminate].
      match type of Hy with rbind ?X _ = _ => destruct X as [body| | |] eqn:E end; try discriminate.
      cbn [rbind] in Hy. inv Hy. split; [reflexivity|]. cbn [forked]. split; [reflexivity|].
      split; [apply fan_at_nil|].
      pose proof (find_task_name _ _ _ Ft) as Hname.
      apply (blk_all_from (fun k s1 => forked (fan_at tasks) (c_name c) ([] ++ [k]) s1)
                          (fun k s1 => unfold_stmt tasks f (t_name t) [k] s1)) in E; [exact E|].
      intros k s1 x1 Hk Hx. cbn [Nat.add] in *. rewrite <- Hname.
      apply (IH (t_name t) t [] k (t_body t) s1 x1); [rewrite Hname; exact Ft|apply fblk_at_root|exact Hk|exact Hx]. }
    assert (BL : forall pre0 ss0 xs,
               fblk_at (t_body t0) pre0 ss0 ->
               (fix block (pre : list nat) (i : nat) (ss : list stmt) {struct ss} : res (list xstmt) :=
                  match ss with
                  | [] => Ok []
                  | s1 :: r =>
                    rbind (unfold_stmt tasks f tn (pre ++ [i]) s1)
                          (fun x : xstmt => rbind (block pre (S i) r) (fun xs : list xstmt => Ok (x :: xs)))
                  end) pre0 0 ss0 = Ok xs ->
               all_from (fun k s1 => forked (fan_at tasks) tn (pre0 ++ [k]) s1) 0 xs).
    { intros pre0 ss0 xs Hb Hx.
      apply (block_all_from (fun k s1 => forked (fan_at tasks) tn (pre0 ++ [k]) s1)
                            (fun pre i s1 => unfold_stmt tasks f tn (pre ++ [i]) s1)) in Hx; [exact Hx|].
      intros k s1 x1 Hk Hx1. cbn [Nat.add] in *. eapply IH; eassumption. }
    pose proof (KA [i] ltac:(discriminate)) as Ki. cbn [fan_path] in Ki. rewrite Hn in Ki.
    destruct s as [n ins outs|c|cs|e body|par v lim body|e p fl].
    - inv H. reflexivity.
    - apply DC in H. apply H.
    - match type of H with rbind ?X _ = _ => destruct X as [bs| | |] eqn:E end; try discriminate.
      cbn [rbind] in H. inv H. cbn [forked].
      assert (Hlen : List.length bs = List.length cs).
      { eapply (calls_length (fun j c => match find_task (c_name c) tasks with
               | Some t =>
                 rbind
                   ((fix blk (i0 : nat) (ss : list stmt) {struct ss} : res (list xstmt) :=
                       match ss with
                       | [] => Ok []
                       | s1 :: r0 =>
                         rbind (unfold_stmt tasks f (t_name t) [i0] s1)
                               (fun x : xstmt => rbind (blk (S i0) r0) (fun xs : list xstmt => Ok (x :: xs)))
                       end) 0 (t_body t))
                   (fun body : list xstmt =>
                      Ok (XCall (c_name c) {| st_task := tn; st_path := (pre ++ [i]) ++ [j] |} (c_ins c) body))
               | None => Exn KeyError
               end)). exact E. }
      split; [rewrite Ki, Hlen; reflexivity|].
      apply (calls_all_from (fun j b => is_call b = true /\ forked (fan_at tasks) tn ((pre ++ [i]) ++ [j]) b)
               (fun j c => match find_task (c_name c) tasks with
               | Some t =>
                 rbind
                   ((fix blk (i0 : nat) (ss : list stmt) {struct ss} : res (list xstmt) :=
                       match ss with
                       | [] => Ok []
                       | s1 :: r0 =>
                         rbind (unfold_stmt tasks f (t_name t) [i0] s1)
                               (fun x : xstmt => rbind (blk (S i0) r0) (fun xs : list xstmt => Ok (x :: xs)))
                       end) 0 (t_body t))
                   (fun body : list xstmt =>
                      Ok (XCall (c_name c) {| st_task := tn; st_path := (pre ++ [i]) ++ [j] |} (c_ins c) body))
               | None => Exn KeyError
               end)) in E; [exact E|].
      intros j y c Hy. eapply DC. exact Hy.
    - match type of H with rbind ?X _ = _ => destruct X as [b| | |] eqn:E end; try discriminate.
      cbn [rbind] in H. inv H. cbn [forked]. split; [exact Ki|]. eapply BL; [|exact E].
      intros p Hp. rewrite <- app_assoc. cbn [app]. rewrite (Hblk (i :: p)) by discriminate.
      cbn [fan_path]. rewrite Hn. destruct p; [contradiction|reflexivity].
    - destruct par.
      + destruct body as [|[n0 i0 o0|c|cs0|e0 b0|p0 v0 l0 b0|e0 p0 f0] [|s2 r2]]; try discriminate.
        match type of H with rbind ?X _ = _ => destruct X as [y| | |] eqn:E end; try discriminate.
        cbn [rbind] in H. inv H. cbn [forked]. split; [rewrite Ki; destruct lim; reflexivity|]. apply DC in E. exact E.
      + match type of H with rbind ?X _ = _ => destruct X as [b| | |] eqn:E end; try discriminate.
        cbn [rbind] in H. inv H. cbn [forked]. split; [exact Ki|]. eapply BL; [|exact E].
        intros p Hp. rewrite <- app_assoc. cbn [app]. rewrite (Hblk (i :: p)) by discriminate.
        cbn [fan_path]. rewrite Hn. destruct p; [contradiction|reflexivity].
    - match type of H with rbind ?X _ = _ => destruct X as [xp| | |] eqn:E1 end; try discriminate.
      cbn [rbind] in H.
      match type of H with rbind ?X _ = _ => destruct X as [xf| | |] eqn:E2 end; try discriminate.
      cbn [rbind] in H. inv H. cbn [forked].
      assert (K0 : forall b q, fan_at tasks tn (((pre ++ [i]) ++ [b]) ++ q) = fan_path ss (i :: b :: q)).
      { intros b q. rewrite <- !app_assoc. cbn [app]. apply KA. discriminate. }
      split; [|split; [|split]].
      + pose proof (K0 0 []) as X. rewrite app_nil_r in X. rewrite X. cbn [fan_path]. rewrite Hn. reflexivity.
      + pose proof (K0 1 []) as X. rewrite app_nil_r in X. rewrite X. cbn [fan_path]. rewrite Hn. reflexivity.
      + eapply BL; [|exact E1]. intros q Hq. rewrite <- !app_assoc. cbn [app]. rewrite (Hblk (i :: 0 :: q)) by discriminate.
        cbn [fan_path]. rewrite Hn. reflexivity.
      + eapply BL; [|exact E2]. intros q Hq. rewrite <- !app_assoc. cbn [app]. rewrite (Hblk (i :: 1 :: q)) by discriminate.
        cbn [fan_path]. rewrite Hn. reflexivity.
  Qed.

  Lemma unfold_program_forked : forall f body,
      unfold_program tasks f = Ok body -> forked_body (fan_at tasks) body.
  Proof.
    intros f body H. unfold unfold_program in H.
    destruct (find_task production_task tasks) as [t|] eqn:Ft; [|discriminate].
    split; [apply fan_at_nil|]. unfold fblock.
    apply (blk_all_from (fun k s1 => forked (fan_at tasks) production_task ([] ++ [k]) s1)
                        (fun k s1 => unfold_stmt tasks f production_task [k] s1)) in H; [exact H|].
    intros k s1 x1 Hk Hx. cbn [Nat.add] in *.
    apply (unfold_forked f production_task t [] k (t_body t) s1 x1 Ft (fblk_at_root _) Hk Hx).
  Qed.
End UnfoldForked.

(* ===================================================================== *)
(* 10. what acceptance means                                               *)
(* ===================================================================== *)
Lemma first_such : forall A (p : A -> bool) l,
    (forall x, In x l -> p x = false) \/
    exists l1 x l2, l = l1 ++ x :: l2 /\ p x = true /\ forall y, In y l1 -> p y = false.
Proof.
  intros A p. induction l as [|a l IH]; [left; intros x []|].
  destruct (p a) eqn:E.
  - right. exists [], a, l. split; [reflexivity|]. split; [exact E|intros y []].
  - destruct IH as [IH|(l1 & x & l2 & -> & Hx & Hl)].
    + left. intros x [<-|Hx]; [exact E|apply IH; exact Hx].
    + right. exists (a :: l1), x, l2. split; [reflexivity|]. split; [exact Hx|].
      intros y [<-|Hy]; [exact E|apply Hl; exact Hy].
Qed.

Section MeaningF.
  Variable FAN : name -> list nat -> fan.
  Variable orc : oracle.
  Variables cp cl : bool.

  (* the bookkeeping alone: the monitor with all rules switched off *)
  Definition book := fork_log FAN orc false false.

  Lemma gate_off : forall (x y : bool), (negb false || x) && (negb false || y) = true.
  Proof. reflexivity. Qed.

  Lemma fork_entry_off : forall S e S', fork_entry FAN orc cp cl S e = Some S' -> fork_entry FAN orc false false S e = Some S'.
  Proof.
    intros S e S' H. destruct e as [[|l] n r| | | |]; cbn [fork_entry] in *; try exact H.
    unfold fork_notif in *. destruct (n_kind n); try exact H.
    - unfold fork_start in *. destruct (n_ctx n) as [c|]; [|exact H].
      destruct (classify _ _ _); match type of H with (if ?X then _ else _) = _ => destruct X end; try discriminate;
        rewrite gate_off; exact H.
    - unfold fork_finish_task in *. destruct (remove_first _ _); [|discriminate].
      match type of H with (if ?X then _ else _) = _ => destruct X end; try discriminate. rewrite gate_off. exact H.
    - unfold fork_start in *. destruct (n_ctx n) as [c|]; [|exact H].
      destruct (classify _ _ _); match type of H with (if ?X then _ else _) = _ => destruct X end; try discriminate;
        rewrite gate_off; exact H.
  Qed.

  Lemma fork_log_off : forall log S S', fork_log FAN orc cp cl S log = Some S' -> book S log = Some S'.
  Proof.
    unfold book. induction log as [|e log IH]; intros S S' H; [exact H|]. cbn [fork_log] in *.
    destruct (fork_entry FAN orc cp cl S e) as [S1|] eqn:E; [|discriminate].
    rewrite (fork_entry_off _ _ _ E). apply IH. exact H.
  Qed.

  (* the bookkeeping after the calls [tr] *)
  Fixpoint bhist (S : forkst) (tr : list callrec) : option forkst :=
    match tr with
    | [] => Some S
    | r :: t => match book (fork_new_call S) (cr_log r) with Some S' => bhist S' t | None => None end
    end.

  (* In an accepted trace every entry of every call passes the monitor's tests against the
     bookkeeping of the history before it, and at the end of every call the bookkeeping is
     settled: no fork of a Parallel open, the parallel-loop counts right, no continuation owed. *)
  Theorem fork_run_meaning : forall tr pre r post a e b S,
      fork_run FAN orc cp cl S tr = true -> tr = pre ++ r :: post -> cr_log r = a ++ e :: b ->
      exists S1 H H' S2,
        bhist S pre = Some S1 /\ book (fork_new_call S1) a = Some H /\
        fork_entry FAN orc cp cl H e = Some H' /\ fork_log FAN orc cp cl H' b = Some S2 /\
        fork_settled FAN cp cl S2 = true.
  Proof.
    intros tr pre. revert tr. induction pre as [|r0 pre IH]; intros tr r post a e b S Hrun -> Hlog; cbn [app fork_run bhist] in *.
    - destruct (fork_log FAN orc cp cl (fork_new_call S) (cr_log r)) as [S2|] eqn:E; [|discriminate].
      apply andb_true_iff in Hrun. destruct Hrun as [Hs _]. rewrite Hlog, fork_log_app in E.
      destruct (fork_log FAN orc cp cl (fork_new_call S) a) as [H|] eqn:Ea; [|discriminate]. cbn [fork_log] in E.
      destruct (fork_entry FAN orc cp cl H e) as [H'|] eqn:Ee; [|discriminate].
      exists S, H, H', S2. split; [reflexivity|]. split; [apply fork_log_off; exact Ea|]. split; [exact Ee|]. split; assumption.
    - destruct (fork_log FAN orc cp cl (fork_new_call S) (cr_log r0)) as [S1|] eqn:E; [|discriminate].
      apply andb_true_iff in Hrun. destruct Hrun as [_ Hrun]. rewrite (fork_log_off _ _ _ E).
      eapply IH; [exact Hrun|reflexivity|exact Hlog].
  Qed.
End MeaningF.

(* ---- the rules, read off an accepted step ---- *)
Section Rules.
  Variable FAN : name -> list nat -> fan.
  Variable orc : oracle.

  (* (f1) a branch of a Parallel *)
  Lemma branch_rule : forall cl H n H' c r j m,
      fork_start FAN orc true cl H true n = Some H' -> n_ctx n = Some c ->
      classify (FAN (st_task (n_site n))) true (st_path (n_site n)) = FBranch r j m ->
      j < m /\ ((j = 0 /\ assoc c (fk_par H) = None) \/ assoc c (fk_par H) = Some (r, j, m)) /\
      assoc c (fk_par H') = (if Nat.ltb (S j) m then Some (r, S j, m) else None).
  Proof.
    intros cl H n H' c r j m HS Hc Hcl. unfold fork_start in HS. rewrite Hc, Hcl in HS.
    match type of HS with (if ?X then _ else _) = _ => destruct X eqn:E end; [|discriminate]. inv HS.
    apply andb_true_iff in E. destruct E as [E _]. cbn [negb orb] in E. apply andb_true_iff in E. destruct E as [E1 E2].
    apply Nat.ltb_lt in E1. split; [exact E1|]. split.
    - destruct (assoc c (fk_par H)) as [[[r' j'] m']|].
      + right. apply andb_true_iff in E2. destruct E2 as [E2 E3]. apply andb_true_iff in E2. destruct E2 as [E2 E4].
        apply list_eqb_nat_eq in E2. apply Nat.eqb_eq in E3, E4. congruence.
      + left. apply Nat.eqb_eq in E2. split; [exact E2|reflexivity].
    - cbn [fk_par]. destruct (Nat.ltb (S j) m).
      + cbn [assoc]. rewrite Nat.eqb_refl. reflexivity.
      + apply assoc_dropk_same.
  Qed.

  (* (f2) anything else started in the instance: no fork open, no branch in progress *)
  Lemma other_rule : forall cl H tk n H' c,
      fork_start FAN orc true cl H tk n = Some H' -> n_ctx n = Some c ->
      (forall r j m, classify (FAN (st_task (n_site n))) tk (st_path (n_site n)) <> FBranch r j m) ->
      assoc c (fk_par H) = None /\ fan_kid (FAN (st_task (n_site n))) false c (fk_tasks H) = false /\
      assoc c (fk_par H') = None.
  Proof.
    intros cl H tk n H' c HS Hc Hcl. unfold fork_start in HS. rewrite Hc in HS.
    destruct (classify (FAN (st_task (n_site n))) tk (st_path (n_site n))) as [r j m|r f|] eqn:Ec.
    - exfalso. exact (Hcl r j m eq_refl).
    - match type of HS with (if ?X then _ else _) = _ => destruct X eqn:E end; [|discriminate]. inv HS.
      apply andb_true_iff in E. destruct E as [E _]. cbn [negb orb] in E. apply andb_true_iff in E. destruct E as [E1 E2].
      destruct (assoc c (fk_par H)) eqn:Ep; [discriminate E1|]. apply negb_true_iff in E2.
      split; [reflexivity|]. split; [exact E2|exact Ep].
    - match type of HS with (if ?X then _ else _) = _ => destruct X eqn:E end; [|discriminate]. inv HS.
      apply andb_true_iff in E. destruct E as [E _]. cbn [negb orb] in E. apply andb_true_iff in E. destruct E as [E1 E2].
      destruct (assoc c (fk_par H)) eqn:Ep; [discriminate E1|]. apply negb_true_iff in E2.
      split; [reflexivity|]. split; [exact E2|exact Ep].
  Qed.

  (* (p1)(p2) an instance of a parallel loop *)
  Lemma inst_rule : forall cp H n H' c r f,
      fork_start FAN orc cp true H true n = Some H' -> n_ctx n = Some c ->
      classify (FAN (st_task (n_site n))) true (st_path (n_site n)) = FInst r f ->
      exists e1, assoc c (fk_pl H') = Some e1 /\ pe_task e1 = st_task (n_site n) /\ pe_pos e1 = r /\
                 (forall N, pe_exp e1 = Some N -> pe_cnt e1 <= N) /\
                 (* another instance of it in progress: the fork was opened in this call *)
                 (live c r (fk_tasks H) = true ->
                  match f with FVar _ _ => assoc c (fk_lastq H) = None | _ => True end ->
                  exists e, assoc c (fk_pl H) = Some e /\ pe_task e = st_task (n_site n) /\ pe_pos e = r /\
                            pe_cnt e1 = S (pe_cnt e) /\ pe_exp e1 = pe_exp e) /\
                 (* a new execution of a loop whose limit is read from a variable: announced by the query *)
                 (forall v p qi, f = FVar v p -> assoc c (fk_lastq H) = Some qi ->
                                 pe_cnt e1 = 1 /\ pe_exp e1 = limit_answer orc qi v p /\ pe_exp e1 <> None /\
                                 live c r (fk_tasks H) = false /\ pl_ok_opt FAN (assoc c (fk_pl H)) = true).
  Proof.
    intros cp H n H' c r f HS Hc Hcl. unfold fork_start in HS. rewrite Hc, Hcl in HS.
    match type of HS with (if ?X then _ else _) = _ => destruct X eqn:E end; [|discriminate]. inv HS.
    apply andb_true_iff in E. destruct E as [_ E]. cbn [negb orb] in E. apply andb_true_iff in E. destruct E as [E1 E2].
    eexists. split; [cbn [fk_pl assoc]; rewrite Nat.eqb_refl; reflexivity|].
    set (tn := st_task (n_site n)) in *.
    destruct f as [m|m|v p|]; try (unfold classify in Hcl; destruct (unsnoc _) as [[? ?]|]; [destruct (FAN _ _)|]; discriminate Hcl).
    - (* literal limit *)
      destruct (assoc c (fk_pl H)) as [e|] eqn:Ee.
      + destruct (Nat.eqb (pe_task e) tn && list_eqb Nat.eqb (pe_pos e) r) eqn:Es; cbn [negb] in *.
        * apply andb_true_iff in Es. destruct Es as [Es1 Es2]. apply Nat.eqb_eq in Es1. apply list_eqb_nat_eq in Es2.
          split; [reflexivity|]. split; [reflexivity|]. split.
          { intros N HN. cbn [pe_exp pe_cnt] in *. rewrite HN in E2. apply Nat.leb_le. exact E2. }
          split; [|intros v p qi Hf; discriminate Hf].
          intros _ _. exists e. repeat split; assumption.
        * split; [reflexivity|]. split; [reflexivity|]. split; [intros N HN; discriminate HN|].
          split; [|intros v p qi Hf; discriminate Hf].
          intros Hl _. apply andb_true_iff in E1. destruct E1 as [E1 _]. apply andb_true_iff in E1. destruct E1 as [_ E1].
          rewrite Hl in E1. discriminate E1.
      + cbn [negb] in *. split; [reflexivity|]. split; [reflexivity|]. split; [intros N HN; discriminate HN|].
        split; [|intros v p qi Hf; discriminate Hf].
        intros Hl _. apply andb_true_iff in E1. destruct E1 as [E1 _]. apply andb_true_iff in E1. destruct E1 as [_ E1].
        rewrite Hl in E1. discriminate E1.
    - (* limit read from a variable *)
      destruct (assoc c (fk_lastq H)) as [qi|] eqn:Eq.
      + split; [reflexivity|]. split; [reflexivity|]. split.
        { intros N HN. cbn [pe_exp pe_cnt] in *. rewrite HN in E2. apply Nat.leb_le. exact E2. }
        split; [intros _ Hq; discriminate Hq|].
        intros v0 p0 qi0 Hf Hq. inv Hf. inv Hq. cbn [pe_cnt pe_exp].
        apply andb_true_iff in E1. destruct E1 as [E1 E3]. apply andb_true_iff in E1. destruct E1 as [E1 E4].
        split; [reflexivity|]. split; [reflexivity|]. split.
        * destruct (limit_answer orc qi0 v0 p0); [discriminate|discriminate E3].
        * split; [apply negb_true_iff; exact E4|exact E1].
      + destruct (assoc c (fk_pl H)) as [e|] eqn:Ee; [|discriminate E1].
        apply andb_true_iff in E1. destruct E1 as [Es1 Es2]. apply Nat.eqb_eq in Es1. apply list_eqb_nat_eq in Es2.
        split; [reflexivity|]. split; [reflexivity|]. split.
        { intros N HN. cbn [pe_exp pe_cnt] in *. rewrite HN in E2. apply Nat.leb_le. exact E2. }
        split; [|intros v0 p0 qi Hf Hq; discriminate Hq].
        intros _ _. exists e. repeat split; assumption.
  Qed.

  Lemma settled_rule : forall cl S, fork_settled FAN true cl S = true -> fk_par S = [] /\ forall x, In x (fk_owe S) -> snd x = true.
  Proof.
    intros cl S H. unfold fork_settled in H. apply andb_true_iff in H. destruct H as [H _]. cbn [negb orb] in H.
    apply andb_true_iff in H. destruct H as [H1 H2]. split.
    - destruct (fk_par S); [reflexivity|discriminate H1].
    - rewrite forallb_forall in H2. exact H2.
  Qed.

  (* the fork of a Parallel stays open until the instance starts something *)
  Definition starts_in (c : nat) (e : entry) : bool :=
    match e with
    | ENotif 0 n _ => match n_kind n with
                      | TS | SS => option_eqb Nat.eqb (n_ctx n) (Some c)
                      | _ => false
                      end
    | _ => false
    end.

  Lemma par_persist : forall cp cl c v log S S',
      fork_log FAN orc cp cl S log = Some S' -> assoc c (fk_par S) = Some v ->
      (forall e, In e log -> starts_in c e = false) -> assoc c (fk_par S') = Some v.
  Proof.
    intros cp cl c v. induction log as [|e log IH]; intros S S' H Hv Hn; cbn [fork_log] in H; [inv H; exact Hv|].
    destruct (fork_entry FAN orc cp cl S e) as [S1|] eqn:E; [|discriminate].
    apply (IH S1 S' H); [|intros e0 He0; apply Hn; right; exact He0].
    pose proof (Hn e (or_introl eq_refl)) as Hs.
    destruct e as [[|l] n r| | | |]; cbn [fork_entry] in E; try (inv E; exact Hv).
    unfold fork_notif in E. cbn [starts_in] in Hs. destruct (n_kind n).
    - unfold fork_start in E. destruct (n_ctx n) as [c'|]; [|inv E; exact Hv].
      cbn [option_eqb] in Hs. apply Nat.eqb_neq in Hs.
      destruct (classify _ _ _); match type of E with (if ?X then _ else _) = _ => destruct X end; try discriminate; inv E;
        cbn [fk_par]; try exact Hv.
      destruct (Nat.ltb _ _); [cbn [assoc]; assert (Nat.eqb c c' = false) as -> by (apply Nat.eqb_neq; congruence)|];
        rewrite assoc_dropk_other by congruence; exact Hv.
    - unfold fork_finish_task in E. destruct (remove_first _ _); [|discriminate].
      match type of E with (if ?X then _ else _) = _ => destruct X end; try discriminate. inv E. exact Hv.
    - unfold fork_start in E. destruct (n_ctx n) as [c'|]; [|inv E; exact Hv].
      destruct (classify _ _ _) eqn:Ec; match type of E with (if ?X then _ else _) = _ => destruct X end; try discriminate; inv E;
        cbn [fk_par]; try exact Hv.
    - inv E. exact Hv.
  Qed.

  (* (f1) declaratively: after the task-started notification of branch j (not the last) of a
     Parallel in instance c, the next thing started in c is branch j+1 of that Parallel, in the
     same call *)
  Theorem fork_next_branch : forall cl tr pre r post a n rr b S0 c rp j m,
      fork_run FAN orc true cl S0 tr = true -> tr = pre ++ r :: post -> cr_log r = a ++ ENotif 0 n rr :: b ->
      n_kind n = TS -> n_ctx n = Some c ->
      classify (FAN (st_task (n_site n))) true (st_path (n_site n)) = FBranch rp j m -> S j < m ->
      exists b1 n' rr' b2,
        b = b1 ++ ENotif 0 n' rr' :: b2 /\ (forall e, In e b1 -> starts_in c e = false) /\
        n_kind n' = TS /\ n_ctx n' = Some c /\
        classify (FAN (st_task (n_site n'))) true (st_path (n_site n')) = FBranch rp (S j) m.
  Proof.
    intros cl tr pre r post a n rr b S0 c rp j m Hrun Htr Hlog Hk Hc Hcl Hj.
    destruct (fork_run_meaning FAN orc true cl tr pre r post a (ENotif 0 n rr) b S0 Hrun Htr Hlog)
      as (S1 & H & H' & S2 & _ & _ & He & Hb & Hs).
    cbn [fork_entry] in He. unfold fork_notif in He. rewrite Hk in He.
    destruct (branch_rule _ _ _ _ _ _ _ _ He Hc Hcl) as (_ & _ & Hp').
    assert (Nat.ltb (S j) m = true) as E by (apply Nat.ltb_lt; exact Hj). rewrite E in Hp'. clear E.
    destruct (first_such _ (starts_in c) b) as [Hnone|(b1 & x & b2 & -> & Hx & Hb1)].
    - exfalso. pose proof (par_persist _ _ _ _ _ _ _ Hb Hp' Hnone) as Hend.
      destruct (settled_rule _ _ Hs) as [Hnil _]. rewrite Hnil in Hend. discriminate Hend.
    - rewrite fork_log_app in Hb.
      destruct (fork_log FAN orc true cl H' b1) as [H1|] eqn:E1; [|discriminate]. cbn [fork_log] in Hb.
      destruct (fork_entry FAN orc true cl H1 x) as [H2|] eqn:E2; [|discriminate].
      pose proof (par_persist _ _ _ _ _ _ _ E1 Hp' Hb1) as Hp1.
      destruct x as [[|l] n' rr'| | | |]; cbn [starts_in] in Hx; try discriminate Hx.
      exists b1, n', rr', b2. split; [reflexivity|]. split; [exact Hb1|].
      cbn [fork_entry] in E2. unfold fork_notif in E2.
      assert (Hc' : n_ctx n' = Some c).
      { destruct (n_kind n'); try discriminate Hx; destruct (n_ctx n') as [c'|]; cbn in Hx; try discriminate Hx;
          apply Nat.eqb_eq in Hx; congruence. }
      destruct (n_kind n') eqn:Hk'; try discriminate Hx.
      + split; [reflexivity|]. split; [exact Hc'|].
        destruct (classify (FAN (st_task (n_site n'))) true (st_path (n_site n'))) as [r' j' m'|r' f'|] eqn:Ec'.
        * destruct (branch_rule _ _ _ _ _ _ _ _ E2 Hc' Ec') as (_ & [[_ Hq]|Hq] & _); rewrite Hp1 in Hq; [discriminate Hq|].
          inv Hq. reflexivity.
        * exfalso. destruct (other_rule _ _ _ _ _ _ E2 Hc') as (Hq & _); [intros ? ? ?; rewrite Ec'; discriminate|].
          rewrite Hp1 in Hq. discriminate Hq.
        * exfalso. destruct (other_rule _ _ _ _ _ _ E2 Hc') as (Hq & _); [intros ? ? ?; rewrite Ec'; discriminate|].
          rewrite Hp1 in Hq. discriminate Hq.
      + exfalso. destruct (other_rule _ _ _ _ _ _ E2 Hc') as (Hq & _); [intros ? ? ?; unfold classify; discriminate|].
        rewrite Hp1 in Hq. discriminate Hq.
  Qed.
End Rules.

(* ===================================================================== *)
(* 9. API calls and whole scripts                                          *)
(* ===================================================================== *)
Section ApiF.
  Variable FAN : name -> list nat -> fan.
  Variable orc : oracle.
  Variable imm : nat -> bool.
  Variable body : list xstmt.
  Hypothesis Hbody : forked_body FAN body.

  Notation FQ := (FQ FAN orc).
  Notation PLok := (PLok FAN).

  Definition FInv (s : sched) (L : life) (F : forkst) : Prop :=
    RefC07.Inv body s L /\ fk_tasks F = lf_tasks L /\ fk_q F = g_q (sc_g s) /\ fk_par F = [] /\ fk_owe F = [].

  Lemma PLok_nil : forall F X, fk_pl F = [] -> PLok F X.
  Proof. intros F X H k e Hk. rewrite H in Hk. discriminate. Qed.

  Lemma settled_ok : forall F, fk_par F = [] -> fk_owe F = [] -> PLok F [] -> fork_settled FAN true true F = true.
  Proof.
    intros F H1 H2 H3. unfold fork_settled. rewrite H1, H2. cbn [negb orb is_nil forallb andb].
    rewrite andb_true_r. apply forallb_forall. intros [k e] Hi. cbn [fst].
    destruct (assoc k (fk_pl F)) as [e'|] eqn:E; [|reflexivity]. cbn. destruct (H3 k e' E) as [_ [[]|Ho]]. exact Ho.
  Qed.

  Lemma FQ_init : forall F L g, fk_tasks F = lf_tasks L -> fk_q F = g_q g -> g_log g = [] ->
                                FQ (fork_new_call F) g L (fork_new_call F).
  Proof. intros F L g H1 H2 H3. split; [rewrite H3; reflexivity|]. split; assumption. Qed.

  Lemma all_false_nil : forall A (l : list A), (forall x, In x l -> False) -> l = [].
  Proof. intros A [|x l] H; [reflexivity|]. exfalso. apply (H x). left. reflexivity. Qed.

  (* the production task is reported finished *)
  Lemma finish_root_fork : forall L0 F0 L F g u g',
      finish_root g = Ok (u, g') -> lst_all (g_ls g) -> Acc L0 g L -> W L (g_tid g) (g_sid g) ->
      (forall tk, Permutation (sel tk L) (rootF tk)) -> FQ F0 g L F ->
      fk_par F = [] -> PLok F [] -> (forall x, In x (fk_owe F) -> fst x = 0) ->
      forall L', Acc L0 g' L' ->
      exists F', FQ F0 g' L' F' /\ fk_par F' = [] /\ fk_owe F' = [] /\ PLok F' [].
  Proof.
    intros L0 F0 L F g u g' H Hl HA HW HP HQ Hpar HPL Howe L' HA'. unfold finish_root in H.
    mstep as u1 g1 E1. unfold set_running in H. inv H.
    pose proof (emit_N _ _ _ _ _ E1 Hl) as C4.
    destruct (life_TF L _ _ production_task root_site 0 None [] (fun _ => []) HW) as (L1 & S1 & W1 & P1).
    - intro tk. rewrite app_nil_r. apply HP.
    - intros tk o [].
    - assert (HA1 : Acc L0 (g1 <| g_running := false |>) L1).
      { eapply Acc_app; [exact HA| |].
        - change (N (g1 <| g_running := false |>)) with (N g1). exact C4.
        - cbn [life_run]. rewrite S1. reflexivity. }
      rewrite <- (Acc_fun _ _ _ _ HA1 HA').
      destruct (ev_TF FAN orc F L (mk TF production_task root_site 0 None []) L1 (proj1 (proj2 HQ)) eq_refl S1)
        as (F1 & T1 & G1 & G2 & G3 & G4 & G5 & G6).
      { cbn. rewrite Hpar. reflexivity. }
      { cbn. eapply PLok_opt; [exact HPL|intros []]. }
      exists F1. split; [|split; [|split]].
      + eapply FQ_same; [eapply FQ_emit; [exact E1|exact Hl|exact HQ|exact S1|exact T1]|reflexivity|reflexivity].
      + rewrite G1. exact Hpar.
      + apply all_false_nil. intros x Hx. destruct (G6 eq_refl x Hx) as [Hy Hz]. apply Hz. cbn. apply Howe. exact Hy.
      + eapply PLok_drop; [exact HPL|exact G2].
  Qed.

  Lemma start_step_fork : forall f s F st g',
      RefC07.Inv body s life0 -> sc_root s = None -> g_tid (sc_g s) = 0 ->
      fk_tasks F = lf_tasks life0 -> fk_q F = g_q (sc_g s) -> fk_par F = [] -> fk_owe F = [] ->
      (set_running true ;;;
       id <- fresh_t ;;
       emit (mk TS production_task root_site id None []) ;;;
       r <- run_block orc imm f id [] body 0 ;;
       match r with
       | None => finish_root ;;; ret RDone
       | Some (i, st) => ret (RCall id i st)
       end) (clear_log (sc_g s)) = Ok (st, g') ->
      forall L', life_run life0 (N g') = Some L' ->
      exists F', flog FAN orc (fork_new_call F) (rev (g_log g')) = Some F' /\ fk_tasks F' = lf_tasks L' /\
                 fk_q F' = g_q g' /\ fk_par F' = [] /\ fk_owe F' = [] /\ PLok F' [].
  Proof.
    intros f s F st g' (Hl & _) Hroot Htid HT Hq Hpar Howe H L' HA'.
    set (g0 := clear_log (sc_g s)) in *.
    assert (Q0 : FQ (fork_new_call F) g0 life0 (fork_new_call F)) by (apply FQ_init; [exact HT|exact Hq|reflexivity]).
    mstep as u1 g1 E1. unfold set_running in E1. inv E1.
    set (g1 := g0 <| g_running := true |>) in *.
    assert (Hl1 : lst_all (g_ls g1)) by exact Hl.
    mstep as id g2 E2. mstep as u3 g3 E3.
    destruct (tstart_N _ _ _ _ _ _ _ _ _ E2 E3) as (-> & B1 & B2 & B3 & B4). specialize (B4 Hl1).
    change (g_tid g1) with (g_tid (sc_g s)) in *. rewrite Htid in *.
    change (N g1) with (@nil notif) in B4. cbn [app] in B4.
    set (nTS := mk TS production_task root_site 0 None []) in *.
    set (L1 := {| lf_tasks := [rootT]; lf_svcs := []; lf_used_t := [0]; lf_used_s := []; lf_seen_any := true |}).
    assert (S1 : life_step life0 nTS = Some L1) by reflexivity.
    assert (A3 : Acc life0 g3 L1) by (unfold Acc; rewrite B4; reflexivity).
    assert (W3 : W L1 (g_tid g3) (g_sid g3)).
    { rewrite B2. constructor; cbn.
      - reflexivity.
      - constructor; [lia|constructor].
      - constructor.
      - intros tk o c0 Hi Hc. destruct tk; cbn in Hi; [|contradiction]. destruct Hi as [<-|[]]. discriminate.
      - constructor; [cbn; lia|constructor].
      - constructor; [intros []|constructor]. }
    assert (Hl3 : lst_all (g_ls g3)) by (rewrite B1; exact Hl1).
    set (F1 := {| fk_tasks := oi_of nTS :: fk_tasks F; fk_par := fk_par F; fk_pl := []; fk_owe := fk_owe F; fk_q := fk_q F;
                  fk_lastq := dropk 0 (fk_lastq F) |}).
    assert (Q3 : FQ (fork_new_call F) g3 L1 F1).
    { apply (FQ_emit FAN orc (fork_new_call F) nTS false g2 u3 g3 life0 L1 (fork_new_call F) F1 E3).
      - unfold fresh_t in E2. inv E2. exact Hl1.
      - unfold fresh_t in E2. inv E2. eapply FQ_same; [exact Q0|reflexivity|reflexivity].
      - exact S1.
      - reflexivity. }
    assert (Hc3 : copen 0 (lf_tasks L1)) by (exists rootT; split; [left; reflexivity|reflexivity]).
    assert (NK3 : NoKidsT 0 L1).
    { intros o Hi Hc. cbn in Hi. destruct Hi as [<-|[]]. discriminate. }
    mstep as r g4 E4.
    pose proof (Eff_Fr _ _ _ (proj1 (proj2 (start_eff orc imm f)) _ _ _ _ _ _ _ E4)) as (F1' & F2' & F3').
    destruct (proj1 (proj2 (start_life orc imm f)) _ _ _ _ _ _ _ _ _ E4 Hl3 A3 W3 Hc3) as (L4 & A4 & W4 & P4).
    destruct Hbody as (HB0 & HB1).
    destruct (proj1 (proj2 (start_fork FAN orc imm f)) 0 [] body 0 g3 r g4 life0 (fork_new_call F) L1 F1 production_task [] []
                    E4 Hl3 A3 W3 Q3 HB1 Hc3 HB0 NK3) with (L' := L4) as (F4 & Q4 & X4 & PL4).
    { cbn [F1 fk_par]. rewrite Hpar. reflexivity. }
    { cbn [F1 fk_par]. rewrite Hpar. apply ParLt_nil. }
    { apply PLok_nil. reflexivity. }
    { intros []. }
    { apply XLt_nil. }
    { exact A4. }
    assert (Hx4 : forall x, In x (fk_owe F4) -> fst x = 0).
    { intros x Hx. destruct (fx_owe1 _ _ _ _ _ X4 x Hx) as [Hy|Hy]; [|exact Hy]. cbn [F1 fk_owe] in Hy. rewrite Howe in Hy. contradiction. }
    assert (Hp4 : fk_par F4 = []) by (rewrite (fx_par _ _ _ _ _ X4); cbn [F1 fk_par]; exact Hpar).
    destruct r as [[i sti]|].
    - mstep. change (Acc life0 g4 L') in HA'. rewrite <- (Acc_fun _ _ _ _ A4 HA').
      destruct Q4 as (Q41 & Q42 & Q43). exists F4. split; [exact Q41|]. split; [exact Q42|]. split; [exact Q43|].
      split; [exact Hp4|]. split; [|exact PL4]. apply (owe_nil _ 0 Hx4). apply (fx_owe2 _ _ _ _ _ X4). reflexivity.
    - mstep as u5 g5 E5. mstep. change (Acc life0 g5 L') in HA'.
      destruct (finish_root_fork life0 (fork_new_call F) L4 F4 _ _ _ E5 ltac:(rewrite F1'; exact Hl3) A4 W4 P4 Q4 Hp4 PL4 Hx4 L' HA')
        as (F5 & (Q51 & Q52 & Q53) & R1 & R2 & R3).
      exists F5. split; [exact Q51|]. split; [exact Q52|]. split; [exact Q53|]. split; [exact R1|]. split; [exact R2|exact R3].
  Qed.

  Lemma finish_step_fork : forall f s L F id i sti st g',
      RefC07.Inv body s L -> RefProgress.PInv body s -> sc_root s = Some (RCall 0 i sti) ->
      fk_tasks F = lf_tasks L -> fk_q F = g_q (sc_g s) -> fk_par F = [] -> fk_owe F = [] ->
      (unawait id ;;;
       r <- deliver_block orc imm f 0 [] body i sti id ;;
       match r with
       | None => lift Unsupported
       | Some None => finish_root ;;; ret RDone
       | Some (Some (j, st')) => ret (RCall 0 j st')
       end) (clear_log (sc_g s)) = Ok (st, g') ->
      forall L', life_run L (N g') = Some L' ->
      exists F', flog FAN orc (fork_new_call F) (rev (g_log g')) = Some F' /\ fk_tasks F' = lf_tasks L' /\
                 fk_q F' = g_q g' /\ fk_par F' = [] /\ fk_owe F' = [] /\ PLok F' [].
  Proof.
    intros f s L F id i sti st g' (Hl & Hr) (_ & HPI) Hroot HT Hq Hpar Howe H L' HA'.
    rewrite Hroot in Hr, HPI. destruct Hr as (_ & HW & HP). destruct HPI as (_ & Hwf).
    set (g0 := clear_log (sc_g s)) in *.
    assert (Q0 : FQ (fork_new_call F) g0 L (fork_new_call F)) by (apply FQ_init; [exact HT|exact Hq|reflexivity]).
    mstep as u1 g1 E1. unfold unawait in E1.
    match type of E1 with match ?X with _ => _ end = _ => destruct X as [aw1|] end; [|discriminate].
    unfold set_awaited in E1. inv E1.
    set (g1 := g0 <| g_awaited := aw1 |>) in *.
    assert (Hl1 : lst_all (g_ls g1)) by exact Hl.
    assert (A1 : Acc L g1 L) by reflexivity.
    assert (W1 : W L (g_tid g1) (g_sid g1)) by exact HW.
    assert (Q1 : FQ (fork_new_call F) g1 L (fork_new_call F)) by (eapply FQ_same; [exact Q0|reflexivity|reflexivity]).
    mstep as r g2 E2.
    pose proof (dres_ls _ _ _ _ _ _ (proj1 (proj2 (deliver_eff orc imm f)) _ _ _ _ _ _ _ _ _ E2)) as Ls2.
    assert (Hsep : sep rootF (map oi_id (opn_opt true 0 body (Some (i, sti))))).
    { intros tk o t Hi _. destruct tk; [|contradiction]. destruct Hi as [<-|[]]. discriminate. }
    assert (HF : copen 0 (rootF true)) by (exists rootT; split; [left; reflexivity|reflexivity]).
    assert (NKF : NoKidsTF 0 rootF).
    { intros o Hi Hc. destruct Hi as [<-|[]]. discriminate. }
    pose proof (proj1 (proj2 (deliver_life orc imm f)) _ _ _ _ _ _ _ _ _ _ _ _ E2 Hl1 A1 W1 HP HF Hsep) as R2.
    destruct Hbody as (HB0 & HB1).
    pose proof (proj1 (proj2 (deliver_fork FAN orc imm f)) 0 [] body i sti id g1 r g2 L (fork_new_call F) L (fork_new_call F) rootF
                      production_task [] E2 Hl1 A1 W1 HP HF Hsep Q1 HB1 Hwf HB0 NKF Hpar Howe (PLok_nil (fork_new_call F) [] eq_refl)) as R2'.
    destruct r as [[[j st']|]|]; cbn [dpost] in R2; [| |discriminate].
    - mstep. change (Acc L g2 L') in HA'. destruct (R2' L' HA') as (F2 & (Q21 & Q22 & Q23) & E3 & E4 & E5 & E6).
      exists F2. split; [exact Q21|]. split; [exact Q22|]. split; [exact Q23|]. split; [exact E3|]. split; [|exact E4].
      apply E6. reflexivity.
    - destruct R2 as (L2 & A2 & W2 & P2). destruct (R2' L2 A2) as (F2 & Q2 & E3 & E4 & E5 & _).
      mstep as u5 g5 E6. mstep. change (Acc L g5 L') in HA'.
      destruct (finish_root_fork L (fork_new_call F) L2 F2 _ _ _ E6 ltac:(rewrite Ls2; exact Hl1) A2 W2 P2 Q2 E3 E4 E5 L' HA')
        as (F5 & (Q51 & Q52 & Q53) & R1 & R3 & R4).
      exists F5. split; [exact Q51|]. split; [exact Q52|]. split; [exact Q53|]. split; [exact R1|]. split; [exact R3|exact R4].
  Qed.

  Lemma api_fork : forall f s L F c b s',
      FInv s L F -> RefProgress.PInv body s -> api_call orc imm f body s c = Ok (b, s') ->
      exists L' F', flog FAN orc (fork_new_call F) (cr_log (observe b s')) = Some F' /\
                    fork_settled FAN true true F' = true /\ FInv s' L' F'.
  Proof.
    intros f s L F c b s' HA HPI H. pose proof HA as (HI & HT & Hq & Hpar & Howe).
    destruct (RefC07.api_step orc imm body f s L c b s' HI H) as (L' & (_ & LR & _) & HI').
    change (map fst (ee_notifs (cr_log (observe b s')))) with (N (sc_g s')) in LR.
    change (cr_log (observe b s')) with (rev (g_log (sc_g s'))).
    assert (QS : g_log (sc_g s') = [] -> g_q (sc_g s') = g_q (sc_g s) -> L' = L ->
                 exists L' F', flog FAN orc (fork_new_call F) (rev (g_log (sc_g s'))) = Some F' /\
                               fork_settled FAN true true F' = true /\ FInv s' L' F').
    { intros E1 E2 ->. exists L, (fork_new_call F). rewrite E1. split; [reflexivity|]. split.
      - apply settled_ok; [exact Hpar|exact Howe|apply PLok_nil; reflexivity].
      - split; [exact HI'|]. split; [exact HT|]. split; [cbn; congruence|]. split; assumption. }
    assert (QL : N (sc_g s') = [] -> L' = L) by (intro E; rewrite E in LR; cbn in LR; congruence).
    assert (FIN : forall F', flog FAN orc (fork_new_call F) (rev (g_log (sc_g s'))) = Some F' /\ fk_tasks F' = lf_tasks L' /\
                      fk_q F' = g_q (sc_g s') /\ fk_par F' = [] /\ fk_owe F' = [] /\ PLok F' [] ->
                  exists L' F', flog FAN orc (fork_new_call F) (rev (g_log (sc_g s'))) = Some F' /\
                                fork_settled FAN true true F' = true /\ FInv s' L' F').
    { intros F' (X1 & X2 & X3 & X4 & X5 & X6). exists L', F'. split; [exact X1|]. split; [apply settled_ok; assumption|].
      split; [exact HI'|]. repeat split; assumption. }
    destruct c as [|id| |k l|o|o]; cbn [api_call] in H.
    - (* start *)
      destruct (sc_root s) as [r0|] eqn:Hroot.
      + inv H. apply QS; [reflexivity|reflexivity|apply QL; reflexivity].
      + match type of H with match ?X with _ => _ end = _ => destruct X as [[st g']| | |] eqn:E end;
          try discriminate. inv H.
        pose proof HI as (_ & Hr). rewrite Hroot in Hr. destruct Hr as [-> Htid].
        destruct (start_step_fork f _ F _ _ HI Hroot Htid HT Hq Hpar Howe E L' LR) as (F' & X). apply (FIN F'). exact X.
    - (* completion *)
      change (g_awaited (clear_log (sc_g s))) with (g_awaited (sc_g s)) in H.
      destruct (mem id (g_awaited (sc_g s))).
      + destruct (sc_root s) as [[|id'|cid i sti|sts|bb i sti|k i sti|sts]|] eqn:Hroot; try discriminate.
        match type of H with match ?X with _ => _ end = _ => destruct X as [[st g']| | |] eqn:E end;
          try discriminate. inv H.
        pose proof HI as (_ & Hr). rewrite Hroot in Hr. destruct Hr as (-> & _).
        destruct (finish_step_fork f _ L F id _ _ _ _ HI HPI Hroot HT Hq Hpar Howe E L' LR) as (F' & X). apply (FIN F'). exact X.
      + inv H. apply QS; [reflexivity|reflexivity|apply QL; reflexivity].
    - inv H. apply QS; [reflexivity|reflexivity|apply QL; reflexivity].
    - destruct (existsb _ (g_ls (clear_log (sc_g s)))); inv H; (apply QS; [reflexivity|reflexivity|apply QL; reflexivity]).
    - inv H. apply QS; [reflexivity|reflexivity|apply QL; reflexivity].
    - destruct (remove_first (Nat.eqb o) (g_obs (clear_log (sc_g s)))); [|discriminate]. inv H.
      apply QS; [reflexivity|reflexivity|apply QL; reflexivity].
  Qed.

  Theorem fork_run_ref : forall f cs s L F tr,
      FInv s L F -> RefProgress.PInv body s -> run_script orc imm f body s cs = Ok tr ->
      fork_run FAN orc true true F tr = true.
  Proof.
    intros f cs. induction cs as [|c cs IH]; intros s L F tr HA HPI H; cbn [run_script] in H.
    - inv H. reflexivity.
    - destruct (api_call orc imm f body s c) as [[b s']| | |] eqn:E; try discriminate.
      cbn [rbind] in H.
      destruct (run_script orc imm f body s' cs) as [t| | |] eqn:E2; try discriminate.
      cbn [rbind] in H. inv H.
      destruct (api_fork _ _ _ _ _ _ _ HA HPI E) as (L' & F' & X1 & X2 & X3).
      pose proof (RefProgress.api_pinv orc imm body _ _ _ _ _ HPI E) as HPI'.
      cbn [fork_run]. unfold flog in X1. rewrite X1, X2. cbn [andb]. eapply IH; eassumption.
  Qed.
End ApiF.

(* Every run of the reference semantics -- every oracle, set of immediately completed services,
   fuel, script, every body whose positions fan out as [FAN] says -- satisfies the fork / join
   monitor, with the Parallel rules, the parallel-loop rules, or both. *)
Theorem fork_with_ref : forall FAN orc imm body f cs tr cp cl,
    forked_body FAN body ->
    run_script orc imm f body sched0 cs = Ok tr -> holds_fork_with FAN orc cp cl tr = true.
Proof.
  intros FAN orc imm body f cs tr cp cl HB H. unfold holds_fork_with. apply fork_run_mono.
  eapply (fork_run_ref FAN orc imm body HB f cs sched0 life0 fork0); [| |exact H].
  - split; [|repeat split; reflexivity]. split; [apply lst_all_default|]. cbn. split; reflexivity.
  - apply RefProgress.PInv_sched0.
Qed.

Theorem fork_programs : forall (c : runcase) (tr : list callrec) cp cl,
    run_ref c = Ok tr ->
    holds_fork_with (fan_at (p_tasks (rc_prog c))) (orc_of (rc_vals c)) cp cl tr = true.
Proof.
  intros c tr cp cl H. unfold run_ref in H.
  destruct (existsb _ (rc_react c)); [discriminate|].
  destruct (unfold_program (p_tasks (rc_prog c)) 200) as [body| | |] eqn:U; try discriminate.
  cbn [rbind] in H. eapply fork_with_ref; [|exact H]. eapply unfold_program_forked. exact U.
Qed.

Theorem C03_fork_programs : forall (c : runcase) (tr : list callrec), run_ref c = Ok tr -> mon_C03fork c tr = true.
Proof. intros c tr H. exact (fork_programs c tr true false H). Qed.

Theorem C06_inst_programs : forall (c : runcase) (tr : list callrec), run_ref c = Ok tr -> mon_C06inst c tr = true.
Proof. intros c tr H. exact (fork_programs c tr false true H). Qed.

Theorem C03_programs : forall (c : runcase) (tr : list callrec), run_ref c = Ok tr -> mon_C03 c tr = true.
Proof. intros c tr H. unfold mon_C03. rewrite (C02_seq_programs c tr H), (C03_fork_programs c tr H). reflexivity. Qed.

Theorem C06_programs : forall (c : runcase) (tr : list callrec), run_ref c = Ok tr -> mon_C06 c tr = true.
Proof. intros c tr H. unfold mon_C06. rewrite (C02_seq_programs c tr H), (C06_inst_programs c tr H). reflexivity. Qed.

(* ===================================================================== *)
(* 11. examples: an accepted run, rejected tampered traces, the guard       *)
(* ===================================================================== *)
(*  Task productionTask:  Parallel {t5; t6};  S7;  Parallel Loop j To 2: t6;
                          Parallel Loop j To <variable 10>: t5;  S8
    Task t5: S11      Task t6: S12        the oracle answers 3 *)
Definition mkcall (n : name) : call := {| c_name := n; c_ins := []; c_outs := [] |}.
Definition fx_prog : program :=
  {| p_structs := [];
     p_tasks := [ {| t_name := 0; t_ins := []; t_outs := [];
                     t_body := [SParallel [mkcall 5; mkcall 6]; SService 7 [] [];
                                SCount true 9 (LimInt 2) [SCall (mkcall 6)];
                                SCount true 9 (LimPath 10 []) [SCall (mkcall 5)];
                                SService 8 [] []] |};
                  {| t_name := 5; t_ins := []; t_outs := []; t_body := [SService 11 [] []] |};
                  {| t_name := 6; t_ins := []; t_outs := []; t_body := [SService 12 [] []] |} ] |}.
Definition fx_case : runcase :=
  {| rc_prog := fx_prog; rc_vals := [VNum (Qmake 3 1)]; rc_imm := [];
     rc_script := [AStart; AFinish 1; AFinish 0; AFinish 2; AFinish 4; AFinish 3; AFinish 5; AFinish 7; AFinish 6; AFinish 8];
     rc_react := []; rc_react_all := false; rc_mutate := 0; rc_test_ids := true |}.
Definition fx_trace : list callrec := match run_ref fx_case with Ok t => t | _ => [] end.

Example fx_accepted :
  List.length fx_trace = 10 /\ existsb (fun r => cr_final r) fx_trace = true /\
  mon_C03fork fx_case fx_trace = true /\ mon_C06inst fx_case fx_trace = true /\
  mon_C03 fx_case fx_trace = true /\ mon_C06 fx_case fx_trace = true.
Proof. vm_compute. repeat split; reflexivity. Qed.

Example ex_case_fork_accepted :
  mon_C03 ex_case seq_ex_trace = true /\ mon_C06 ex_case seq_ex_trace = true.
Proof. vm_compute. split; reflexivity. Qed.

Definition with_log (f : list entry -> list entry) (r : callrec) : callrec :=
  {| cr_ret := cr_ret r; cr_log := f (cr_log r); cr_running := cr_running r; cr_awaited := cr_awaited r;
     cr_final := cr_final r |}.
(* the last k entries of call i are delivered at the beginning of call i+1 instead *)
Definition defer_tail (k i : nat) (tr : list callrec) : list callrec :=
  match nth_error tr i with
  | Some r =>
    let n := List.length (cr_log r) - k in
    upd_nth (S i) (with_log (fun l => skipn n (cr_log r) ++ l)) (upd_nth i (with_log (firstn n)) tr)
  | None => tr
  end.
(* everything about task instance [id] (its own notifications and those of its statements) removed *)
Definition about (id : nat) (e : entry) : bool :=
  match e with
  | ENotif _ n _ => (match n_kind n with TS | TF => Nat.eqb (n_id n) id | _ => false end)
                    || option_eqb Nat.eqb (n_ctx n) (Some id)
  | _ => false
  end.
Definition drop_instance (id : nat) (tr : list callrec) : list callrec :=
  map (with_log (filter (fun e => negb (about id e)))) tr.

(* (f1) the second branch of the Parallel started one call later *)
Example branch_deferred_rejected : mon_C03fork fx_case (defer_tail 2 0 fx_trace) = false.
Proof. vm_compute. reflexivity. Qed.

(* (f2) the statement after the Parallel started before the last branch is reported finished *)
Example follower_early_rejected :
  mon_C03fork fx_case (upd_nth 2 (with_log (fun l => match rev l with x :: t => x :: rev t | [] => [] end)) fx_trace) = false.
Proof. vm_compute. reflexivity. Qed.

(* (p1) the second instance of the parallel loop started one call later *)
Example instance_deferred_rejected : mon_C06inst fx_case (defer_tail 2 3 fx_trace) = false.
Proof. vm_compute. reflexivity. Qed.

(* (p2) an instance missing: literal limit 2 with one instance; limit 3 read from a variable with two *)
Example instance_missing_rejected :
  mon_C06inst fx_case (drop_instance 4 fx_trace) = false /\ mon_C06inst fx_case (drop_instance 7 fx_trace) = false.
Proof. vm_compute. split; reflexivity. Qed.

(* (p2) one instance too many: the oracle answers 2 where three instances are started *)
Example instance_surplus_rejected :
  mon_C06inst {| rc_prog := fx_prog; rc_vals := [VNum (Qmake 2 1)]; rc_imm := []; rc_script := rc_script fx_case;
                 rc_react := []; rc_react_all := false; rc_mutate := 0; rc_test_ids := true |} fx_trace = false.
Proof. vm_compute. reflexivity. Qed.

Example fx_forked : forked_body (fan_at (p_tasks fx_prog)) (match unfold_program (p_tasks fx_prog) 200 with Ok b => b | _ => [] end).
Proof.
  destruct (unfold_program (p_tasks fx_prog) 200) as [b| | |] eqn:U.
  - eapply unfold_program_forked. exact U.
  - vm_compute in U. discriminate U.
  - vm_compute in U. discriminate U.
  - vm_compute in U. discriminate U.
Qed.

(* without the guard the statement is false: a body whose Parallel is announced with a wrong
   arity by the classification (here: the classification of a different program) *)
Example fork_needs_guard_refuted :
  match run_ref fx_case with
  | Ok tr => holds_fork_with (fun tn p => match fan_at (p_tasks fx_prog) tn p with FPar _ => FPar 3 | f => f end)
                             (orc_of (rc_vals fx_case)) true false tr = false
  | _ => False
  end.
Proof. vm_compute. reflexivity. Qed.
