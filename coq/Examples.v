(* Examples.v — a concrete, non-trivial case (all statement kinds, a junk-laden script) on
   which the reference semantics runs to the end: the hypotheses of the property theorems
   are inhabited.  Generated once by the harness from this program:

     Struct Data
         count: number
         flag: boolean
         ratio: number
         label: string
         items: Item[]
         inner: Inner
     End
     
     Struct Inner
         n: number
         ok: boolean
     End
     
     Struct Item
         v: number
     End
     
     Task productionTask
         S1
             Out
                 d: Data
         Parallel
             t1
                 In
                     d
             t2
         Loop i To d.count
             S2
                 In
                     d.items[i]
         Condition
             d.ratio < 1
         Passed
             S3
         Parallel Loop j To 2
             t2
         Loop While d.flag
             S4
     End
     
     Task t1
         In
             p0: Data
         S5
             In
                 p0
         S6
     End
     
     Task t2
         S7
     End
     
   interned names: 0=productionTask, 1=mutated, 2=Mutated, 3=Data, 4=count, 5=flag, 6=ratio, 7=label, 8=items, 9=Item, 10=inner, 11=Inner, 12=n, 13=ok, 14=v, 15=S1, 16=d, 17=t1, 18=t2, 19=i, 20=S2, 21=S3, 22=j, 23=S4, 24=p0, 25=S5, 26=S6, 27=S7, 28='x *)
From PFDL Require Import RunCase Monitors.

Definition ex_case : runcase := {| rc_prog := {| p_structs := [{| s_name := 3; s_attrs := [(4, (TPlain TNumber)); (5, (TPlain TBoolean)); (6, (TPlain TNumber)); (7, (TPlain TString)); (8, (TArray (TStructName 9) LenNone)); (10, (TPlain (TStructName 11)))] |}; {| s_name := 11; s_attrs := [(12, (TPlain TNumber)); (13, (TPlain TBoolean))] |}; {| s_name := 9; s_attrs := [(14, (TPlain TNumber))] |}]; p_tasks := [{| t_name := 0; t_ins := []; t_body := [(SService 15 [] [(16, (TPlain (TStructName 3)))]); (SParallel [{| c_name := 17; c_ins := [(PVar 16)]; c_outs := [] |}; {| c_name := 18; c_ins := []; c_outs := [] |}]); (SCount false 19 (LimPath 16 [PF 4]) [(SService 20 [(PPath 16 [PF 8; PIdxVar 19])] [])]); (SCond (EBin OLt (EPath 16 [PF 6]) (ENum (Qmake (1)%Z 1%positive))) [(SService 21 [] [])] []); (SCount true 22 (LimInt 2) [(SCall {| c_name := 18; c_ins := []; c_outs := [] |})]); (SWhile (EPath 16 [PF 5]) [(SService 23 [] [])])]; t_outs := [] |}; {| t_name := 17; t_ins := [(24, (TPlain (TStructName 3)))]; t_body := [(SService 25 [(PVar 24)] []); (SService 26 [] [])]; t_outs := [] |}; {| t_name := 18; t_ins := []; t_body := [(SService 27 [] [])]; t_outs := [] |}] |}; rc_vals := [(VStruct [(4, (VNum (Qmake (2)%Z 1%positive))); (5, (VBool true)); (6, (VNum (Qmake (1)%Z 2%positive))); (7, (VStr 28)); (12, (VNum (Qmake (0)%Z 1%positive))); (13, (VBool true)); (14, (VNum (Qmake (-1)%Z 1%positive))); (10, (VStruct [(12, (VNum (Qmake (-1)%Z 1%positive))); (13, (VBool false))]))]); (VStruct [(4, (VNum (Qmake (2)%Z 1%positive))); (5, (VBool true)); (6, (VNum (Qmake (1)%Z 2%positive))); (7, (VStr 28)); (12, (VNum (Qmake (0)%Z 1%positive))); (13, (VBool true)); (14, (VNum (Qmake (-1)%Z 1%positive))); (10, (VStruct [(12, (VNum (Qmake (-1)%Z 1%positive))); (13, (VBool false))]))]); (VStruct [(4, (VNum (Qmake (2)%Z 1%positive))); (5, (VBool true)); (6, (VNum (Qmake (1)%Z 2%positive))); (7, (VStr 28)); (12, (VNum (Qmake (0)%Z 1%positive))); (13, (VBool true)); (14, (VNum (Qmake (-1)%Z 1%positive))); (10, (VStruct [(12, (VNum (Qmake (-1)%Z 1%positive))); (13, (VBool false))]))]); (VStruct [(4, (VNum (Qmake (2)%Z 1%positive))); (5, (VBool true)); (6, (VNum (Qmake (1)%Z 2%positive))); (7, (VStr 28)); (12, (VNum (Qmake (0)%Z 1%positive))); (13, (VBool true)); (14, (VNum (Qmake (-1)%Z 1%positive))); (10, (VStruct [(12, (VNum (Qmake (-1)%Z 1%positive))); (13, (VBool false))]))]); (VStruct [(4, (VNum (Qmake (2)%Z 1%positive))); (5, (VBool true)); (6, (VNum (Qmake (1)%Z 2%positive))); (7, (VStr 28)); (12, (VNum (Qmake (0)%Z 1%positive))); (13, (VBool true)); (14, (VNum (Qmake (-1)%Z 1%positive))); (10, (VStruct [(12, (VNum (Qmake (-1)%Z 1%positive))); (13, (VBool false))]))]); (VStruct [(4, (VNum (Qmake (2)%Z 1%positive))); (5, (VBool true)); (6, (VNum (Qmake (1)%Z 2%positive))); (7, (VStr 28)); (12, (VNum (Qmake (0)%Z 1%positive))); (13, (VBool true)); (14, (VNum (Qmake (-1)%Z 1%positive))); (10, (VStruct [(12, (VNum (Qmake (-1)%Z 1%positive))); (13, (VBool false))]))]); (VStruct [(4, (VNum (Qmake (0)%Z 1%positive))); (5, (VBool false)); (6, (VNum (Qmake (0)%Z 1%positive))); (7, (VStr 28)); (12, (VNum (Qmake (0)%Z 1%positive))); (13, (VBool false)); (14, (VNum (Qmake (0)%Z 1%positive))); (10, (VStruct [(12, (VNum (Qmake (0)%Z 1%positive))); (13, (VBool false))]))])]; rc_imm := [false; false; true; false; false; false; false; false; false; false; false; false; false; false; false; false; false; false; false; false; false; false; false]; rc_script := [(AFinish 0); AStart; (AFinish 0); (AFinish 1); (AFinish 3); (AFinish 4); (AFinish 3); (AFinish 5); (AFinish 6); (AFinish 4); (AFinish 7); (AFinish 8); AJunk; (AFinish 9); (AFinish 10); (AFinish 7)]; rc_react := []; rc_react_all := false; rc_mutate := 0; rc_test_ids := true |}.

Definition ex_body : list xstmt :=
  match unfold_program (p_tasks (rc_prog ex_case)) 200 with Ok b => b | _ => [] end.

Example ex_runs : exists tr, run_ref ex_case = Ok tr /\ List.length tr = 16
                             /\ existsb (fun r => cr_final r) tr = true.
Proof. eexists. split; [vm_compute; reflexivity|]. split; reflexivity. Qed.
