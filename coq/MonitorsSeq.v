(* MonitorsSeq.v — executable trace monitor for C02 (statements of a block run strictly in
   sequence, the next statement starts in the call that completes the previous one), for ALL
   schedules.  Definitions only (model support file); theorems: RefC02.v.

   The monitor reads what function 0 was told.  A started / finished notification names the
   enclosing task instance ([n_ctx]) and the static position of its statement ([n_site]: task
   name + index path in the SOURCE program: body index; loop body index; Condition: 0 = Passed,
   1 = Failed, then index; Parallel: index of the call; parallel loop: 0).  Per task instance it
   keeps the statements in progress and the position of the statement started last:

   (d) a statement is started in a task instance that is open, and its site lies in the task
       that instance executes;
   (a) when a statement of an instance is started, every statement of that instance that is
       still in progress is an EARLIER branch of the same Parallel / another instance of the
       same parallel loop (sibling statements of a block, or statements of different blocks of
       one instance, are never in progress together; a Parallel is not entered again while one
       of its branches is in progress);
   (b) consecutive starts of one instance are in source order: where the two positions diverge
       the later one has the larger index and the point of divergence is not a Condition (its
       branches exclude each other), unless the common prefix lies inside a loop (a new
       iteration); the same position is started again only if a proper prefix of it is a loop,
       or as the next instance of a parallel loop;
   (c) no deferral: a statement is started only in a call in which its instance was itself
       started or one of the instance's statements finished earlier in that call; and at the
       end of every call every open task instance has a statement in progress;
   (e) a task instance is reported finished only when none of its statements is in progress,
       finished notifications match an open statement.

   The program enters only through the classification [skind] of index paths; the program-free
   monitor [holds_C02seq] replaces it by the weakest reading (every non-empty common prefix may
   be a loop, any two task calls with the same parent may be parallel siblings). *)
From PFDL Require Export Monitors.

(* ---- what stands at an index path of the source program ---- *)
Inductive skind := Kleaf | Kpar | Kparloop | Kloop | Kcond | Knone.

Fixpoint kind_path (ss : list stmt) (p : list nat) {struct p} : skind :=
  match p with
  | [] => Knone
  | i :: rest =>
    match nth_error ss i with
    | None => Knone
    | Some (SService _ _ _) => match rest with [] => Kleaf | _ => Knone end
    | Some (SCall _) => match rest with [] => Kleaf | _ => Knone end
    | Some (SParallel cs) =>
      match rest with
      | [] => Kpar
      | [j] => if Nat.ltb j (List.length cs) then Kleaf else Knone
      | _ => Knone
      end
    | Some (SWhile _ b) => match rest with [] => Kloop | _ => kind_path b rest end
    | Some (SCount false _ _ b) => match rest with [] => Kloop | _ => kind_path b rest end
    | Some (SCount true _ _ _) =>
      match rest with
      | [] => Kparloop
      | [O] => Kleaf
      | _ => Knone
      end
    | Some (SCond _ ps fs) =>
      match rest with
      | [] => Kcond
      | O :: rest' => kind_path ps rest'
      | 1 :: rest' => kind_path fs rest'
      | _ => Knone
      end
    end
  end.

Definition kind_at (tasks : list task) (tn : name) (p : list nat) : skind :=
  match find_task tn tasks with
  | Some t => kind_path (t_body t) p
  | None => Knone
  end.

Definition is_loopk (k : skind) : bool := match k with Kloop => true | _ => false end.
Definition is_condk (k : skind) : bool := match k with Kcond => true | _ => false end.

(* ---- index paths ---- *)
(* common prefix and the two remainders *)
Fixpoint split3 (a b : list nat) : list nat * list nat * list nat :=
  match a, b with
  | x :: a', y :: b' =>
    if Nat.eqb x y then let '(r, u, v) := split3 a' b' in (x :: r, u, v) else ([], a, b)
  | _, _ => ([], a, b)
  end.

(* parent path and last index *)
Fixpoint unsnoc (p : list nat) : option (list nat * nat) :=
  match p with
  | [] => None
  | x :: r => match unsnoc r with
              | Some (q, j) => Some (x :: q, j)
              | None => Some ([], x)
              end
  end.

(* some non-empty prefix of [r] (read after [acc]) is a loop *)
Fixpoint in_loop (K : list nat -> skind) (acc r : list nat) : bool :=
  match r with
  | [] => false
  | x :: r' => is_loopk (K (acc ++ [x])) || in_loop K (acc ++ [x]) r'
  end.

(* (b) with the program: [t] was started last, [s] is started now.  The same position again:
   only inside a loop (a proper prefix is a loop) or as the next instance of a parallel loop.
   Another position: where the two diverge the later one has the larger index and the point of
   divergence is not a Condition (its two branches are never both executed), unless the common
   prefix lies in a loop *)
Definition is_nil {A} (l : list A) : bool := match l with [] => true | _ => false end.

Definition same_ok (K : list nat -> skind) (s : list nat) : bool :=
  match unsnoc s with
  | Some (q, _) => in_loop K [] q || (negb (is_nil q) && match K q with Kparloop => true | _ => false end)
  | None => false
  end.

Definition diff_ok (K : list nat -> skind) (t s : list nat) : bool :=
  let '(r, u, v) := split3 t s in
  in_loop K [] r
  || match u, v with
     | i :: _, j :: _ => Nat.ltb i j && negb (is_condk (K r))
     | _, _ => false
     end.

Definition okK (K : list nat -> skind) (t s : list nat) : bool :=
  if list_eqb Nat.eqb t s then same_ok K s else diff_ok K t s.

(* (a) with the program: [op] is in progress (a task call iff [otk]), [np] is started *)
Definition sibK (K : list nat -> skind) (otk : bool) (op : list nat) (ntk : bool) (np : list nat) : bool :=
  otk && ntk &&
  match unsnoc op, unsnoc np with
  | Some (q, i), Some (q', j) =>
    list_eqb Nat.eqb q q' &&
    match K q' with
    | Kparloop => Nat.eqb i j
    | Kpar => Nat.ltb i j
    | _ => false
    end
  | _, _ => false
  end.

(* the same two tests without the program: every non-empty common prefix may be a loop *)
Definition ok_free (t s : list nat) : bool :=
  if list_eqb Nat.eqb t s
  then match unsnoc s with Some (q, _) => negb (is_nil q) | None => false end
  else let '(r, u, v) := split3 t s in
       negb (is_nil r) || match u, v with i :: _, j :: _ => Nat.ltb i j | _, _ => false end.

Definition sib_free (otk : bool) (op : list nat) (ntk : bool) (np : list nat) : bool :=
  otk && ntk &&
  match unsnoc op, unsnoc np with
  | Some (q, _), Some (q', _) => list_eqb Nat.eqb q q'
  | _, _ => false
  end.

(* ---- the monitor ---- *)
Record seqst := {
  sq_tasks : list open_inst;          (* task instances started and not finished *)
  sq_svcs : list open_inst;           (* services started and not finished *)
  sq_last : list (nat * list nat);    (* task instance -> position of the statement started last in it *)
  sq_act : list nat                   (* instances started, or with a statement finished, in the current call *)
}.

Definition seq0 : seqst := {| sq_tasks := []; sq_svcs := []; sq_last := []; sq_act := [] |}.

Definition ctx_is (c : nat) (o : open_inst) : bool := option_eqb Nat.eqb (oi_ctx o) (Some c).
Definition has_kid (c : nat) (S : seqst) : bool :=
  existsb (ctx_is c) (sq_tasks S) || existsb (ctx_is c) (sq_svcs S).
Definition drop_key (k : nat) (l : list (nat * list nat)) : list (nat * list nat) :=
  filter (fun kv => negb (Nat.eqb (fst kv) k)) l.

Section Gen.
  (* task name, then the arguments of sibK / okK *)
  Variable sib : name -> bool -> list nat -> bool -> list nat -> bool.
  Variable sok : name -> list nat -> list nat -> bool.

  (* a statement [o] in progress in the instance in which the statement at [p] is started *)
  Definition kid_ok (tn : name) (otk : bool) (o : open_inst) (tk : bool) (p : list nat) : bool :=
    Nat.eqb (st_task (oi_site o)) tn && sib tn otk (st_path (oi_site o)) tk p.

  Definition seq_start (S : seqst) (tk : bool) (n : notif) : option seqst :=
    let last1 := if tk then drop_key (n_id n) (sq_last S) else sq_last S in
    let tasks1 := if tk then oi_of n :: sq_tasks S else sq_tasks S in
    let svcs1 := if tk then sq_svcs S else oi_of n :: sq_svcs S in
    let act1 := if tk then n_id n :: sq_act S else sq_act S in
    match n_ctx n with
    | None =>
      (* the production task *)
      if tk && negb (has_kid (n_id n) S)
      then Some {| sq_tasks := tasks1; sq_svcs := svcs1; sq_last := last1; sq_act := act1 |}
      else None
    | Some c =>
      let tn := st_task (n_site n) in
      let p := st_path (n_site n) in
      if existsb (fun o => Nat.eqb (oi_id o) c && Nat.eqb (oi_name o) tn) (sq_tasks S)
         && forallb (fun o => negb (ctx_is c o) || kid_ok tn true o tk p) (sq_tasks S)
         && forallb (fun o => negb (ctx_is c o) || kid_ok tn false o tk p) (sq_svcs S)
         && (match assoc c (sq_last S) with Some t => sok tn t p | None => true end)
         && mem c (sq_act S)
         && (negb tk || negb (has_kid (n_id n) S))
      then Some {| sq_tasks := tasks1; sq_svcs := svcs1;
                   sq_last := (c, p) :: drop_key c last1; sq_act := act1 |}
      else None
    end.

  Definition seq_finish (S : seqst) (tk : bool) (n : notif) : option seqst :=
    match remove_first (oi_eqb (oi_of n)) (if tk then sq_tasks S else sq_svcs S) with
    | None => None
    | Some rest =>
      let S1 := {| sq_tasks := if tk then rest else sq_tasks S;
                   sq_svcs := if tk then sq_svcs S else rest;
                   sq_last := sq_last S;
                   sq_act := match n_ctx n with Some c => c :: sq_act S | None => sq_act S end |} in
      if tk && has_kid (n_id n) S1 then None else Some S1
    end.

  Definition seq_notif (S : seqst) (n : notif) : option seqst :=
    match n_kind n with
    | TS => seq_start S true n
    | SS => seq_start S false n
    | TF => seq_finish S true n
    | SF => seq_finish S false n
    end.

  Fixpoint seq_notifs (S : seqst) (ns : list notif) : option seqst :=
    match ns with
    | [] => Some S
    | n :: t => match seq_notif S n with Some S' => seq_notifs S' t | None => None end
    end.

  (* at the end of a call every open task instance has a statement in progress *)
  Definition seq_settled (S : seqst) : bool := forallb (fun o => has_kid (oi_id o) S) (sq_tasks S).

  Definition new_call (S : seqst) : seqst :=
    {| sq_tasks := sq_tasks S; sq_svcs := sq_svcs S; sq_last := sq_last S; sq_act := [] |}.

  Fixpoint seq_run (S : seqst) (tr : list callrec) : bool :=
    match tr with
    | [] => true
    | r :: t =>
      match seq_notifs (new_call S) (map fst (ee_notifs (cr_log r))) with
      | Some S' => seq_settled S' && seq_run S' t
      | None => false
      end
    end.
End Gen.

(* with the program: the classification of the source program's index paths *)
Definition holds_C02seq_with (K : name -> list nat -> skind) (tr : list callrec) : bool :=
  seq_run (fun tn => sibK (K tn)) (fun tn => okK (K tn)) seq0 tr.

Definition holds_C02seq_prog (tasks : list task) (tr : list callrec) : bool :=
  holds_C02seq_with (kind_at tasks) tr.

(* without the program: trace only *)
Definition holds_C02seq (tr : list callrec) : bool :=
  seq_run (fun _ => sib_free) (fun _ => ok_free) seq0 tr.

Definition mon_C02seq (c : runcase) (tr : list callrec) : bool :=
  holds_C02seq_prog (p_tasks (rc_prog c)) tr.
Definition mon_C02seq_free (_ : runcase) (tr : list callrec) : bool := holds_C02seq tr.
