(* RefIds.v — identifiers are unique within an order (reference semantics): every
   task-started notification carries an identifier that no earlier task-started
   notification carried, likewise for service-started notifications; identifiers are handed
   out by two counters that only grow.  Proof file. *)
From PFDL Require Import RefSem RunCase Monitors RefBase RefClosure.

Definition started_kind (k : nkind) : Prop := k = TS \/ k = SS.

Definition ctr (k : nkind) (g : G) : nat := match k with TS | TF => g_tid g | SS | SF => g_sid g end.

(* what a computation adds to the log: started notifications carry identifiers drawn from
   the counters during that computation, and equal identifiers mean the same notification *)
Definition ids_new (g g' : G) (new : list entry) : Prop :=
  (forall l n r, In (ENotif l n r) new -> started_kind (n_kind n) ->
                 ctr (n_kind n) g <= n_id n < ctr (n_kind n) g') /\
  (forall l1 n1 r1 l2 n2 r2,
      In (ENotif l1 n1 r1) new -> In (ENotif l2 n2 r2) new ->
      started_kind (n_kind n1) -> n_kind n1 = n_kind n2 -> n_id n1 = n_id n2 -> n1 = n2).

Definition IdR (g g' : G) : Prop :=
  g_tid g <= g_tid g' /\ g_sid g <= g_sid g' /\
  exists new, g_log g' = new ++ g_log g /\ ids_new g g' new.

Lemma ctr_mono : forall k g g', g_tid g <= g_tid g' -> g_sid g <= g_sid g' -> ctr k g <= ctr k g'.
Proof. intros [] g g' H1 H2; cbn; lia. Qed.

Lemma IdR_refl : forall g, IdR g g.
Proof.
  intro g. split; [lia|]. split; [lia|]. exists []. split; [reflexivity|].
  split; intros; contradiction.
Qed.

Lemma IdR_trans : forall a b c, IdR a b -> IdR b c -> IdR a c.
Proof.
  intros a b c (A1 & A2 & n1 & A3 & A4 & A5) (B1 & B2 & n2 & B3 & B4 & B5).
  split; [lia|]. split; [lia|]. exists (n2 ++ n1). split; [rewrite B3, A3, app_assoc; reflexivity|].
  split.
  - intros l n r Hi Hk. apply in_app_iff in Hi. destruct Hi as [Hi|Hi].
    + specialize (B4 _ _ _ Hi Hk). pose proof (ctr_mono (n_kind n) _ _ A1 A2). lia.
    + specialize (A4 _ _ _ Hi Hk). pose proof (ctr_mono (n_kind n) _ _ B1 B2). lia.
  - intros l1 m1 r1 l2 m2 r2 H1 H2 Hk He Hid.
    assert (Hk2 : started_kind (n_kind m2)) by (rewrite <- He; exact Hk).
    apply in_app_iff in H1. apply in_app_iff in H2. destruct H1 as [H1|H1], H2 as [H2|H2].
    + eapply B5; eassumption.
    + specialize (B4 _ _ _ H1 Hk). specialize (A4 _ _ _ H2 Hk2). rewrite <- He in A4. lia.
    + specialize (A4 _ _ _ H1 Hk). specialize (B4 _ _ _ H2 Hk2). rewrite <- He in B4. lia.
    + eapply A5; eassumption.
Qed.

(* a step that logs nothing but queries / finished notifications *)
Lemma IdR_quiet : forall g g' new,
    g_tid g <= g_tid g' -> g_sid g <= g_sid g' -> g_log g' = new ++ g_log g ->
    (forall l n r, In (ENotif l n r) new -> ~ started_kind (n_kind n)) -> IdR g g'.
Proof.
  intros g g' new H1 H2 H3 H4. split; [exact H1|]. split; [exact H2|]. exists new. split; [exact H3|].
  split.
  - intros l n r Hi Hk. exfalso. exact (H4 _ _ _ Hi Hk).
  - intros l1 n1 r1 l2 n2 r2 Hi _ Hk. exfalso. exact (H4 _ _ _ Hi Hk).
Qed.

Lemma in_emit_entries : forall n flag g l m r,
    In (ENotif l m r)
       (rev (map (fun l0 => ENotif l0 n (g_running g)) (listeners_of (n_kind n) (g_ls g))
             ++ map (fun o => EObs o (n_kind n) (n_name n) (n_id n) flag) (g_obs g))) -> m = n.
Proof.
  intros n flag g l m r H. apply in_rev in H. apply in_app_iff in H. destruct H as [H|H].
  - apply in_map_iff in H. destruct H as (l0 & H & _). inv H. reflexivity.
  - apply in_map_iff in H. destruct H as (o & H & _). discriminate.
Qed.

Lemma emit_log : forall n flag g u g',
    emit_gen n flag g = Ok (u, g') ->
    g_tid g' = g_tid g /\ g_sid g' = g_sid g /\
    exists new, g_log g' = new ++ g_log g /\ forall l m r, In (ENotif l m r) new -> m = n.
Proof.
  intros n flag g u g' H. unfold emit_gen in H. apply log_entries_eff in H.
  destruct H as (_ & _ & _ & H4 & H5 & _ & _ & _ & H9). split; [exact H5|]. split; [exact H4|].
  eexists. split; [exact H9|]. intros l m r Hi. eapply in_emit_entries. exact Hi.
Qed.

Lemma IdR_emit_fin : forall n flag g u g',
    emit_gen n flag g = Ok (u, g') -> (n_kind n = TF \/ n_kind n = SF) -> IdR g g'.
Proof.
  intros n flag g u g' H Hk. apply emit_log in H. destruct H as (H1 & H2 & new & H3 & H4).
  eapply IdR_quiet; [lia|lia|exact H3|].
  intros l m r Hi [Hs|Hs]; rewrite (H4 _ _ _ Hi) in Hs; destruct Hk; congruence.
Qed.

(* drawing a fresh identifier and announcing it *)
Lemma IdR_emit_fresh : forall n g g1 u g2,
    started_kind (n_kind n) ->
    g_log g1 = g_log g -> g_tid g <= g_tid g1 -> g_sid g <= g_sid g1 ->
    ctr (n_kind n) g <= n_id n < ctr (n_kind n) g1 ->
    emit n g1 = Ok (u, g2) -> IdR g g2.
Proof.
  intros n g g1 u g2 Hk L T S Hr H. apply emit_log in H. destruct H as (H1 & H2 & new & H3 & H4).
  split; [lia|]. split; [lia|]. exists new. split; [rewrite H3, L; reflexivity|]. split.
  - intros l m r Hi _. rewrite (H4 _ _ _ Hi).
    assert (ctr (n_kind n) g2 = ctr (n_kind n) g1) by (destruct (n_kind n); cbn; congruence). lia.
  - intros l1 m1 r1 l2 m2 r2 Hi1 Hi2 _ _ _. rewrite (H4 _ _ _ Hi1), (H4 _ _ _ Hi2). reflexivity.
Qed.

Section WithEnv.
  Variable orc : oracle.
  Variable imm : nat -> bool.

  Lemma IdR_query : forall v c g u g', log_entry (EQuery v c) g = Ok (u, g') -> IdR g g'.
  Proof.
    intros v c g u g' H. unfold log_entry in H. apply log_entries_eff in H.
    destruct H as (_ & _ & _ & H4 & H5 & _ & _ & _ & H9).
    eapply IdR_quiet; [lia|lia|exact H9|]. intros l n r [Hi|[]]. discriminate.
  Qed.

  Lemma IdR_same : forall g g', g_tid g' = g_tid g -> g_sid g' = g_sid g -> g_log g' = g_log g -> IdR g g'.
  Proof.
    intros g g' H1 H2 H3. eapply (IdR_quiet g g' []); [lia|lia|exact H3|]. intros l n r [].
  Qed.

  Lemma IdR_queries : forall vs ctx g u g', log_queries vs ctx g = Ok (u, g') -> IdR g g'.
  Proof.
    induction vs as [|v vs IH]; intros ctx g u g' H; cbn [log_queries] in H.
    - mstep. apply IdR_refl.
    - mstep as u1 g1 E1. apply IdR_query in E1. eapply IdR_trans; [exact E1|]. eapply IH; eassumption.
  Qed.

  Lemma IdR_decide : forall e ctx g b g', decide_m orc e ctx g = Ok (b, g') -> IdR g g'.
  Proof.
    intros e ctx g b g' H. unfold decide_m in H.
    destruct (decide expected_ops orc e (g_q g)) as [[b0 k']| | |]; try discriminate.
    mstep as u1 g1 E1. apply IdR_queries in E1. mstep as u2 g2 E2. unfold set_q in E2. inv E2. mstep.
    eapply IdR_trans; [exact E1|]. apply IdR_same; reflexivity.
  Qed.

  Lemma IdR_limit : forall l ctx g n g', read_limit orc l ctx g = Ok (n, g') -> IdR g g'.
  Proof.
    intros l ctx g n g' H. destruct l as [k|v p]; cbn [read_limit] in H.
    - mstep. apply IdR_refl.
    - destruct (orc (g_q g) v) as [x|]; [|discriminate].
      destruct (resolve x p) as [[q| | |]| | |]; try discriminate.
      destruct (Pos.eqb (Qden q) 1); [|discriminate].
      mstep as u1 g1 E1. apply IdR_query in E1. mstep as u2 g2 E2. unfold set_q in E2. inv E2. mstep.
      eapply IdR_trans; [exact E1|]. apply IdR_same; reflexivity.
  Qed.

  Lemma IdR_service : forall n at_ ins ctx ie g st g',
      (id <- fresh_s ;;
       await id ;;;
       emit (mk SS n at_ id (Some ctx) (subst_params ie ins)) ;;;
       k <- tick_ss ;;
       if imm k
       then unawait id ;;; emit (mk SF n at_ id (Some ctx) (subst_params ie ins)) ;;; ret RDone
       else ret (RAwait id)) g = Ok (st, g') -> IdR g g'.
  Proof.
    intros n at_ ins ctx ie g st g' H.
    mstep as id g1 E1. unfold fresh_s in E1. inv E1.
    mstep as u2 g2 E2. unfold await, set_awaited in E2. inv E2.
    mstep as u3 g3 E3.
    eapply (IdR_emit_fresh _ g) in E3; [|right; reflexivity|reflexivity|cbn; lia|cbn; lia|cbn; lia].
    mstep as k g4 E4. unfold tick_ss in E4. inv E4.
    destruct (imm (g_ss g3)).
    - mstep as u5 g5 E5. unfold unawait in E5.
      match type of E5 with match ?X with _ => _ end = _ => destruct X as [l|] end; [|discriminate].
      unfold set_awaited in E5. inv E5.
      mstep as u6 g6 E6. eapply IdR_emit_fin in E6; [|right; reflexivity]. mstep.
      eapply IdR_trans; [exact E3|]. eapply IdR_trans; [|exact E6]. apply IdR_same; reflexivity.
    - mstep. eapply IdR_trans; [exact E3|]. apply IdR_same; reflexivity.
  Qed.

  Lemma IdR_tstart_gen : forall t at_ ctx ps g id g1 u g2,
      fresh_t g = Ok (id, g1) -> emit (mk TS t at_ id ctx ps) g1 = Ok (u, g2) -> IdR g g2.
  Proof.
    intros t at_ ctx ps g id g1 u g2 E1 E2. unfold fresh_t in E1. inv E1.
    eapply (IdR_emit_fresh _ g) in E2; [exact E2|left; reflexivity|reflexivity|cbn; lia|cbn; lia|cbn; lia].
  Qed.

  Definition start_ids := start_closed orc imm IdR IdR_refl IdR_trans IdR_decide IdR_limit IdR_service
                            (fun t at_ ctx ps => @IdR_tstart_gen t at_ (Some ctx) ps)
                            (fun t at_ id ctx ps g u g' H =>
                               IdR_emit_fin _ false g u g' H (or_introl eq_refl)).
  Definition deliver_ids := deliver_closed orc imm IdR IdR_refl IdR_trans IdR_decide IdR_limit IdR_service
                            (fun t at_ ctx ps => @IdR_tstart_gen t at_ (Some ctx) ps)
                            (fun t at_ id ctx ps g u g' H =>
                               IdR_emit_fin _ false g u g' H (or_introl eq_refl))
                            (fun n at_ id ctx ps g u g' H =>
                               IdR_emit_fin _ false g u g' H (or_intror eq_refl)).
End WithEnv.

(* ---- whole histories ---- *)
Definition ids_in (t s t' s' : nat) (log : list entry) : Prop :=
  (forall l n r, In (ENotif l n r) log -> started_kind (n_kind n) ->
                 (match n_kind n with TS | TF => t | _ => s end) <= n_id n
                 < (match n_kind n with TS | TF => t' | _ => s' end)) /\
  (forall l1 n1 r1 l2 n2 r2,
      In (ENotif l1 n1 r1) log -> In (ENotif l2 n2 r2) log ->
      started_kind (n_kind n1) -> n_kind n1 = n_kind n2 -> n_id n1 = n_id n2 -> n1 = n2).

(* consecutive calls draw their identifiers from consecutive, disjoint ranges *)
Fixpoint ranged (t s : nat) (tr : list callrec) : Prop :=
  match tr with
  | [] => True
  | r :: tr' => exists t' s', t <= t' /\ s <= s' /\ ids_in t s t' s' (cr_log r) /\ ranged t' s' tr'
  end.

Lemma ranged_lower : forall tr t s i ri l n r,
    ranged t s tr -> nth_error tr i = Some ri -> In (ENotif l n r) (cr_log ri) ->
    started_kind (n_kind n) -> (match n_kind n with TS | TF => t | _ => s end) <= n_id n.
Proof.
  induction tr as [|r0 tr IH]; intros t s i ri l n r H Hn Hi Hk; [destruct i; discriminate|].
  destruct H as (t' & s' & H1 & H2 & [H3 _] & H4). destruct i as [|i]; cbn in Hn.
  - inv Hn. apply (H3 _ _ _ Hi Hk).
  - specialize (IH _ _ _ _ _ _ _ H4 Hn Hi Hk). destruct (n_kind n); lia.
Qed.

(* no two task instances and no two service instances of an order carry the same identifier *)
Theorem ranged_unique : forall tr t s i j ri rj l1 n1 r1 l2 n2 r2,
    ranged t s tr ->
    nth_error tr i = Some ri -> nth_error tr j = Some rj ->
    In (ENotif l1 n1 r1) (cr_log ri) -> In (ENotif l2 n2 r2) (cr_log rj) ->
    started_kind (n_kind n1) -> n_kind n1 = n_kind n2 -> n_id n1 = n_id n2 ->
    i = j /\ n1 = n2.
Proof.
  induction tr as [|r0 tr IH]; intros t s i j ri rj l1 n1 r1 l2 n2 r2 H Hi Hj I1 I2 Hk He Hid;
    [destruct i; discriminate|].
  destruct H as (t' & s' & H1 & H2 & [H3 H3'] & H4).
  assert (Hk2 : started_kind (n_kind n2)) by (rewrite <- He; exact Hk).
  destruct i as [|i], j as [|j]; cbn in Hi, Hj.
  - inv Hi. inv Hj. split; [reflexivity|]. eapply H3'; eassumption.
  - inv Hi. exfalso. specialize (H3 _ _ _ I1 Hk).
    pose proof (ranged_lower _ _ _ _ _ _ _ _ H4 Hj I2 Hk2) as L. rewrite <- He in L. destruct (n_kind n1); lia.
  - inv Hj. exfalso. specialize (H3 _ _ _ I2 Hk2).
    pose proof (ranged_lower _ _ _ _ _ _ _ _ H4 Hi I1 Hk) as L. rewrite <- He in H3. destruct (n_kind n1); lia.
  - destruct (IH _ _ _ _ _ _ _ _ _ _ _ _ H4 Hi Hj I1 I2 Hk He Hid) as [E1 E2]. split; congruence.
Qed.

Section Api.
  Variable orc : oracle.
  Variable imm : nat -> bool.
  Variable body : list xstmt.

  Lemma IdR_ids_in : forall g g', IdR g g' -> g_log g = [] ->
                                  ids_in (g_tid g) (g_sid g) (g_tid g') (g_sid g') (rev (g_log g')).
  Proof.
    intros g g' (H1 & H2 & new & H3 & H4 & H5) Hn. rewrite H3, Hn, app_nil_r. split.
    - intros l n r Hi Hk. apply in_rev in Hi. specialize (H4 _ _ _ Hi Hk).
      unfold ctr in H4. destruct (n_kind n); exact H4.
    - intros l1 n1 r1 l2 n2 r2 I1 I2. apply in_rev in I1. apply in_rev in I2. eapply H5; eassumption.
  Qed.

  Lemma api_ids : forall f s c b s',
      api_call orc imm f body s c = Ok (b, s') ->
      g_tid (sc_g s) <= g_tid (sc_g s') /\ g_sid (sc_g s) <= g_sid (sc_g s') /\
      ids_in (g_tid (sc_g s)) (g_sid (sc_g s)) (g_tid (sc_g s')) (g_sid (sc_g s')) (cr_log (observe b s')).
  Proof.
    intros f s c b s' H.
    assert (Q : forall g0, g_tid g0 = g_tid (sc_g s) -> g_sid g0 = g_sid (sc_g s) -> g_log g0 = [] ->
                           g_tid (sc_g s) <= g_tid g0 /\ g_sid (sc_g s) <= g_sid g0 /\
                           ids_in (g_tid (sc_g s)) (g_sid (sc_g s)) (g_tid g0) (g_sid g0) (rev (g_log g0))).
    { intros g0 E1 E2 E3. rewrite E1, E2, E3. split; [lia|]. split; [lia|]. split; intros; contradiction. }
    assert (W : forall g0 gz, g_tid g0 = g_tid (sc_g s) -> g_sid g0 = g_sid (sc_g s) -> g_log g0 = [] ->
                              IdR g0 gz ->
                              g_tid (sc_g s) <= g_tid gz /\ g_sid (sc_g s) <= g_sid gz /\
                              ids_in (g_tid (sc_g s)) (g_sid (sc_g s)) (g_tid gz) (g_sid gz) (rev (g_log gz))).
    { intros g0 gz E1 E2 E3 R. pose proof (IdR_ids_in _ _ R E3) as X. rewrite E1, E2 in X.
      destruct R as (R1 & R2 & _). split; [lia|]. split; [lia|]. exact X. }
    destruct c as [|id| |k l|o|o]; cbn [api_call] in H.
    - destruct (sc_root s) as [r0|] eqn:Hroot.
      + inv H. apply (Q (clear_log (sc_g s))); reflexivity.
      + match type of H with match ?X with _ => _ end = _ => destruct X as [[st g']| | |] eqn:E end;
          try discriminate. inv H.
        mstep as u1 g1 E1. unfold set_running in E1. inv E1.
        set (g0 := clear_log (sc_g s) <| g_running := true |>) in *.
        mstep as id g2 E2. mstep as u3 g3 E3.
        pose proof (IdR_tstart_gen _ _ _ _ _ _ _ _ _ E2 E3) as A03.
        mstep as r g4 E4. apply (proj1 (proj2 (start_ids orc imm f))) in E4.
        assert (A04 : IdR g0 g4) by (eapply IdR_trans; eassumption).
        destruct r as [[i sti]|].
        * mstep. apply (W g0 g4); try reflexivity. exact A04.
        * mstep as u5 g5 E5. unfold finish_root in E5. mstep as u6 g6 E6.
          eapply IdR_emit_fin in E6; [|left; reflexivity]. unfold set_running in E5. inv E5. mstep.
          assert (A06 : IdR g0 g6) by (eapply IdR_trans; eassumption).
          apply (W g0 g6) in A06; try reflexivity. exact A06.
    - change (g_awaited (clear_log (sc_g s))) with (g_awaited (sc_g s)) in H.
      destruct (mem id (g_awaited (sc_g s))).
      + destruct (sc_root s) as [[|id'|cid i sti|sts|bb i sti|k i sti|sts]|] eqn:Hroot; try discriminate.
        match type of H with match ?X with _ => _ end = _ => destruct X as [[st g']| | |] eqn:E end;
          try discriminate. inv H.
        mstep as u1 g1 E1. unfold unawait in E1.
        match type of E1 with match ?X with _ => _ end = _ => destruct X as [aw1|] end; [|discriminate].
        unfold set_awaited in E1. inv E1.
        set (g0 := clear_log (sc_g s) <| g_awaited := aw1 |>) in *.
        mstep as r g2 E2. apply (proj1 (proj2 (deliver_ids orc imm f))) in E2.
        destruct r as [[[j st']|]|]; [| |discriminate].
        * mstep. apply (W g0 g2); try reflexivity. exact E2.
        * mstep as u5 g5 E5. unfold finish_root in E5. mstep as u6 g6 E6.
          eapply IdR_emit_fin in E6; [|left; reflexivity]. unfold set_running in E5. inv E5. mstep.
          assert (A06 : IdR g0 g6) by (eapply IdR_trans; eassumption).
          apply (W g0 g6) in A06; try reflexivity. exact A06.
      + inv H. apply (Q (clear_log (sc_g s))); reflexivity.
    - inv H. apply (Q (clear_log (sc_g s))); reflexivity.
    - destruct (existsb _ (g_ls (clear_log (sc_g s)))); inv H;
        match goal with |- _ <= g_tid (sc_g {| sc_g := ?g0; sc_root := _ |}) /\ _ => apply (Q g0); reflexivity end.
    - inv H. match goal with |- _ <= g_tid (sc_g {| sc_g := ?g0; sc_root := _ |}) /\ _ => apply (Q g0); reflexivity end.
    - destruct (remove_first (Nat.eqb o) (g_obs (clear_log (sc_g s)))); [|discriminate]. inv H.
      match goal with |- _ <= g_tid (sc_g {| sc_g := ?g0; sc_root := _ |}) /\ _ => apply (Q g0); reflexivity end.
  Qed.

  Theorem ranged_ref : forall f cs s tr,
      run_script orc imm f body s cs = Ok tr -> ranged (g_tid (sc_g s)) (g_sid (sc_g s)) tr.
  Proof.
    intros f cs. induction cs as [|c cs IH]; intros s tr H; cbn [run_script] in H.
    - inv H. exact I.
    - destruct (api_call orc imm f body s c) as [[b s']| | |] eqn:E; try discriminate.
      cbn [rbind] in H.
      destruct (run_script orc imm f body s' cs) as [t| | |] eqn:E2; try discriminate.
      cbn [rbind] in H. inv H.
      destruct (api_ids _ _ _ _ _ E) as (A1 & A2 & A3).
      cbn [ranged]. exists (g_tid (sc_g s')), (g_sid (sc_g s')).
      split; [exact A1|]. split; [exact A2|]. split; [exact A3|]. apply IH. exact E2.
  Qed.
End Api.
