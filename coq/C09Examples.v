(* C09Examples.v — the hypotheses of the run-time theorems of C09 are inhabited by a non-trivial
   program (Examples.ex_case: service with output, Parallel with a call that passes a parameter,
   counting loop whose limit is read from a value, Condition with an arithmetic guard, parallel
   loop, While loop; 16 API calls with premature / duplicate / junk events), and the witness that
   division by zero is real.  Proof file (computations). *)
From PFDL Require Import Base Syntax Expr Unfold RefSem RunCase Monitors Examples.
From PFDL Require Import C09Static C09Unfold C09Expr C09Run C09OracleCheck C09Runtime.
From PFDL.Check Require Import CheckModel Typing Guards CheckProofsC09.

Definition ex_prog : program := rc_prog ex_case.

Example ex_accepted : validate ex_prog = Ok [].
Proof. vm_compute. reflexivity. Qed.

Example ex_static :
  guards_typed ex_prog = true /\ limits_typed ex_prog = true /\ no_string_order ex_prog = true
  /\ runtime_typed ex_prog = true /\ division_safe ex_prog = true /\ paths_index_free ex_prog = true
  /\ sched_safe ex_prog = true /\ unfold_bound ex_prog = 6.
Proof. vm_compute. repeat split; reflexivity. Qed.

(* the seven answers of the case (the loop limit 2, the guards true / 1/2 < 1, finally false) are
   well-typed values of struct Data for the variables d (productionTask) and p0 (t1) *)
Example ex_oracle_typed : oracle_typed ex_prog (orc_of (rc_vals ex_case)).
Proof. apply oracle_typed_b_sound. vm_compute. reflexivity. Qed.

Example ex_script_ok : no_reactions ex_case = true /\ detaches_attached [] (rc_script ex_case) = true.
Proof. vm_compute. split; reflexivity. Qed.

(* the same case with observers and registrations in the script *)
Definition ex_case_obs : runcase :=
  {| rc_prog := rc_prog ex_case; rc_vals := rc_vals ex_case; rc_imm := rc_imm ex_case;
     rc_script := AAttach 7 :: ARegister TS 5 :: AAttach 8 :: ADetach 7 :: ARegister TS 5
                  :: rc_script ex_case ++ [ADetach 8; AStart; AJunk];
     rc_react := []; rc_react_all := false; rc_mutate := 0; rc_test_ids := true |}.

Example ex_obs_script_ok : detaches_attached [] (rc_script ex_case_obs) = true.
Proof. vm_compute. reflexivity. Qed.

Example ex_obs_runs : exists tr, run_ref ex_case_obs = Ok tr /\ List.length tr = 24
                                 /\ existsb (fun r => cr_final r) tr = true /\ holds_C01 tr = true.
Proof. eexists. split; [vm_compute; reflexivity|]. repeat split; vm_compute; reflexivity. Qed.

(* ---- division by zero ---- *)
(*  Struct Data            (3)            Task productionTask
        count: number      (4)                S1  Out d: Data            (15, 16)
        ratio: number      (6)                Condition  d.ratio / d.count < 1
        flag: boolean      (5)                Passed  S2                 (21)
    End                                       Failed  S3                 (22)
                                          End
    the engine answers d = {count: 0, ratio: 1.5, flag: true} — values of the declared types *)
Definition div_prog : program :=
  {| p_structs := [{| s_name := 3; s_attrs := [(4, TPlain TNumber); (6, TPlain TNumber); (5, TPlain TBoolean)] |}];
     p_tasks := [{| t_name := 0; t_ins := [];
                    t_body := [SService 15 [] [(16, TPlain (TStructName 3))];
                               SCond (EBin OLt (EBin ODiv (EPath 16 [PF 6]) (EPath 16 [PF 4]))
                                                (ENum (Qmake 1 1)))
                                     [SService 21 [] []] [SService 22 [] []]];
                    t_outs := [] |}] |}.

Definition div_case : runcase :=
  {| rc_prog := div_prog;
     rc_vals := [VStruct [(4, VNum (Qmake 0 1)); (6, VNum (Qmake 3 2)); (5, VBool true)]];
     rc_imm := []; rc_script := [AStart; AFinish 0];
     rc_react := []; rc_react_all := false; rc_mutate := 0; rc_test_ids := true |}.

Example div_hypotheses :
  validate div_prog = Ok [] /\ runtime_typed div_prog = true /\ paths_index_free div_prog = true
  /\ division_safe div_prog = false /\ unfold_bound div_prog <= 200
  /\ no_reactions div_case = true /\ detaches_attached [] (rc_script div_case) = true.
Proof. vm_compute. repeat split; try reflexivity. repeat constructor. Qed.

Example div_oracle_typed : oracle_typed div_prog (orc_of (rc_vals div_case)).
Proof. apply oracle_typed_b_sound. vm_compute. reflexivity. Qed.

Example div_raises : run_ref div_case = Exn ZeroDivisionError.
Proof. vm_compute. reflexivity. Qed.

(* the same with the literal divisor 0: "d.ratio / 0 < 1" is accepted as well *)
Definition div0_prog : program :=
  {| p_structs := p_structs div_prog;
     p_tasks := [{| t_name := 0; t_ins := [];
                    t_body := [SService 15 [] [(16, TPlain (TStructName 3))];
                               SCond (EBin OLt (EBin ODiv (EPath 16 [PF 6]) (ENum (Qmake 0 1)))
                                                (ENum (Qmake 1 1)))
                                     [SService 21 [] []] [SService 22 [] []]];
                    t_outs := [] |}] |}.

Example div0_accepted_and_raises :
  validate div0_prog = Ok [] /\ runtime_typed div0_prog = true
  /\ run_ref {| rc_prog := div0_prog; rc_vals := rc_vals div_case; rc_imm := []; rc_script := [AStart; AFinish 0];
                rc_react := []; rc_react_all := false; rc_mutate := 0; rc_test_ids := true |}
     = Exn ZeroDivisionError.
Proof. vm_compute. repeat split; reflexivity. Qed.

(* ---- the other side conditions are needed as well ---- *)

(* detaching an observer that is not attached: list.remove raises ValueError (model and code) *)
Example detach_unattached_raises :
  detaches_attached [] [ADetach 3] = false
  /\ run_script (orc_of (rc_vals ex_case)) (imm_of []) 100 ex_body sched0 [ADetach 3] = Exn ValueError.
Proof. vm_compute. split; reflexivity. Qed.

(* ordering two strings: accepted, typed boolean, but outside the expression model (Expr.py_cmp) *)
Definition strord_prog : program :=
  {| p_structs := [];
     p_tasks := [{| t_name := 0; t_ins := [];
                    t_body := [SCond (EBin OLt (EStr 1) (EStr 2)) [SService 21 [] []] []];
                    t_outs := [] |}] |}.

Example strord_outside_model :
  validate strord_prog = Ok [] /\ guards_typed strord_prog = true /\ limits_typed strord_prog = true
  /\ no_string_order strord_prog = false
  /\ run_ref {| rc_prog := strord_prog; rc_vals := rc_vals div_case; rc_imm := []; rc_script := [AStart];
                rc_react := []; rc_react_all := false; rc_mutate := 0; rc_test_ids := true |} = Unsupported.
Proof. vm_compute. repeat split; reflexivity. Qed.

(* a limit that is not a whole number: typed, accepted — outside the model (RefSem.read_limit) *)
Definition fraclim_prog : program :=
  {| p_structs := p_structs div_prog;
     p_tasks := [{| t_name := 0; t_ins := [];
                    t_body := [SService 15 [] [(16, TPlain (TStructName 3))];
                               SCount false 19 (LimPath 16 [PF 6]) [SService 21 [] []]];
                    t_outs := [] |}] |}.

Example fraclim_outside_model :
  validate fraclim_prog = Ok [] /\ runtime_typed fraclim_prog = true /\ division_safe fraclim_prog = true
  /\ oracle_typed_b fraclim_prog (rc_vals div_case) = false
  /\ run_ref {| rc_prog := fraclim_prog; rc_vals := rc_vals div_case; rc_imm := []; rc_script := [AStart; AFinish 0];
                rc_react := []; rc_react_all := false; rc_mutate := 0; rc_test_ids := true |} = Unsupported.
Proof. vm_compute. repeat split; reflexivity. Qed.
