(* RefDen.v — for the schedule in which every service is completed from inside its own
   service-started notification, the reference semantics computes a simple denotation of
   the program: statements of a block one after the other, all branches of a Parallel in
   source order, exactly the selected branch of a Condition, the body of a counting loop once
   per index 0 .. N-1 with the index substituted in the parameters, a while body once per
   true evaluation of its guard (evaluated before every iteration), N instances of a parallel
   loop's task with indices 0 .. N-1.  [den_*] below IS that denotation (readable on its own);
   the theorem is that the interpreter produces exactly it, for every program, oracle and
   registration / observer configuration.  Proof file. *)
From PFDL Require Import RefSem RunCase Monitors RefBase RefShape.

(* what was notified / asked, without identifiers *)
Inductive dev :=
| DN (k : nkind) (nm : name) (at_ : site) (ps : list param)
| DQ (v : name).

Definition erase (a : aev) : dev :=
  match a with
  | ANot n _ _ => DN (n_kind n) (n_name n) (n_site n) (n_params n)
  | AQ v _ => DQ v
  end.

Section Den.
  Variable orc : oracle.

  Definition den_decide (e : expr) (q : nat) : res (bool * list dev * nat) :=
    match decide expected_ops orc e q with
    | Ok (b, q') => Ok (b, map DQ (expr_vars e), q')
    | Fuel => Fuel | Exn k => Exn k | Unsupported => Unsupported
    end.

  Definition den_limit (l : limit) (q : nat) : res (Z * list dev * nat) :=
    match l with
    | LimInt n => Ok (Z.of_nat n, [], q)
    | LimPath v p =>
      match orc q v with
      | None => Unsupported
      | Some x =>
        match resolve x p with
        | Ok (VNum qq) => if Pos.eqb (Qden qq) 1 then Ok (Qnum qq, [DQ v], S q) else Unsupported
        | Ok _ => Unsupported
        | Fuel => Fuel | Exn k => Exn k | Unsupported => Unsupported
        end
      end
    end.

  Fixpoint den_stmt (f : nat) (ie : ienv) (s : xstmt) (q : nat) {struct f} : res (list dev * nat) :=
    match f with
    | O => Fuel
    | S f' =>
      match s with
      | XService n at_ ins =>
        Ok ([DN SS n at_ (subst_params ie ins); DN SF n at_ (subst_params ie ins)], q)
      | XCall t at_ ins body =>
        rbind (den_block f' [] body 0 q) (fun '(evs, q') =>
        Ok (DN TS t at_ (subst_params ie ins) :: evs ++ [DN TF t at_ (subst_params ie ins)], q'))
      | XParallel bs => den_list f' (map (fun b => (ie, b)) bs) q
      | XCond e p fl =>
        rbind (den_decide e q) (fun '(b, d, q1) =>
        rbind (den_block f' ie (if b then p else fl) 0 q1) (fun '(evs, q2) => Ok (d ++ evs, q2)))
      | XWhile _ _ | XCount _ _ _ => den_loop f' ie s 0 q
      | XParLoop v lim c =>
        rbind (den_limit lim q) (fun '(n, d, q1) =>
        rbind (den_list f' (insts ie v c (Z.to_nat n)) q1) (fun '(evs, q2) => Ok (d ++ evs, q2)))
      end
    end

  with den_block (f : nat) (ie : ienv) (ss : list xstmt) (i : nat) (q : nat) {struct f} : res (list dev * nat) :=
    match f with
    | O => Fuel
    | S f' =>
      match nth_error ss i with
      | None => Ok ([], q)
      | Some s1 =>
        rbind (den_stmt f' ie s1 q) (fun '(e1, q1) =>
        rbind (den_block f' ie ss (S i) q1) (fun '(e2, q2) => Ok (e1 ++ e2, q2)))
      end
    end

  with den_list (f : nat) (l : list (ienv * xstmt)) (q : nat) {struct f} : res (list dev * nat) :=
    match f with
    | O => Fuel
    | S f' =>
      match l with
      | [] => Ok ([], q)
      | (ie, b) :: r =>
        rbind (den_stmt f' ie b q) (fun '(e1, q1) =>
        rbind (den_list f' r q1) (fun '(e2, q2) => Ok (e1 ++ e2, q2)))
      end
    end

  with den_loop (f : nat) (ie : ienv) (s : xstmt) (k : nat) (q : nat) {struct f} : res (list dev * nat) :=
    match f with
    | O => Fuel
    | S f' =>
      match s with
      | XWhile e body =>
        rbind (den_decide e q) (fun '(b, d, q1) =>
        if b then
          rbind (den_block f' ie body 0 q1) (fun '(e1, q2) =>
          rbind (den_loop f' ie s (S k) q2) (fun '(e2, q3) => Ok (d ++ e1 ++ e2, q3)))
        else Ok (d, q1))
      | XCount v lim body =>
        rbind (den_limit lim q) (fun '(n, d, q1) =>
        if (Z.of_nat k <? n)%Z then
          rbind (den_block f' ((v, k) :: ie) body 0 q1) (fun '(e1, q2) =>
          rbind (den_loop f' ie s (S k) q2) (fun '(e2, q3) => Ok (d ++ e1 ++ e2, q3)))
        else Ok (d, q1))
      | _ => Unsupported
      end
    end.
End Den.

(* ---- the log relation with the abstract events made explicit ---- *)
Definition LogR (evs : list aev) (g g' : G) : Prop :=
  g_ls g' = g_ls g /\ g_obs g' = g_obs g /\ g_running g' = g_running g /\
  g_log g' = rev (flat_map (render (g_ls g) (g_obs g)) evs) ++ g_log g.

Lemma LogR_nil : forall g g',
    g_ls g' = g_ls g -> g_obs g' = g_obs g -> g_running g' = g_running g -> g_log g' = g_log g -> LogR [] g g'.
Proof. intros g g' H1 H2 H3 H4. repeat split; auto. Qed.

Lemma LogR_app : forall e1 e2 a b c, LogR e1 a b -> LogR e2 b c -> LogR (e1 ++ e2) a c.
Proof.
  intros e1 e2 a b c (A1 & A2 & A3 & A4) (B1 & B2 & B3 & B4). repeat split; try congruence.
  rewrite B4, A4, A1, A2, flat_map_app, rev_app_distr, app_assoc. reflexivity.
Qed.

Lemma LogR_emit : forall n g u g',
    emit n g = Ok (u, g') -> LogR [ANot n false (g_running g)] g g' /\ g_q g' = g_q g.
Proof.
  intros n g u g' H. unfold emit, emit_gen in H. apply log_entries_eff in H.
  destruct H as (H1 & H2 & H3 & _ & _ & _ & H7 & _ & H9). split; [|exact H7]. repeat split; auto.
  rewrite H9. cbn [flat_map render]. rewrite app_nil_r. reflexivity.
Qed.

Lemma LogR_queries : forall vs ctx g u g',
    log_queries vs ctx g = Ok (u, g') -> LogR (map (fun v => AQ v ctx) vs) g g' /\ g_q g' = g_q g.
Proof.
  induction vs as [|v vs IH]; intros ctx g u g' H; cbn [log_queries] in H.
  - mstep. split; [apply LogR_nil; reflexivity|reflexivity].
  - mstep as u1 g1 E1. unfold log_entry in E1. apply log_entries_eff in E1.
    destruct E1 as (H1 & H2 & H3 & _ & _ & _ & H7 & _ & H9).
    destruct (IH _ _ _ _ H) as [L Q]. split; [|congruence].
    change (map (fun v0 => AQ v0 ctx) (v :: vs)) with ([AQ v ctx] ++ map (fun v0 => AQ v0 ctx) vs).
    eapply LogR_app; [|exact L]. repeat split; auto.
Qed.

Definition itrue : nat -> bool := fun _ => true.

Definition Den (g g' : G) (d : res (list dev * nat)) : Prop :=
  exists evs, LogR evs g g' /\ d = Ok (map erase evs, g_q g').

Section Sync.
  Variable orc : oracle.

  Lemma den_decide_ok : forall e ctx g b g',
      decide_m orc e ctx g = Ok (b, g') ->
      exists evs, LogR evs g g' /\ den_decide orc e (g_q g) = Ok (b, map erase evs, g_q g').
  Proof.
    intros e ctx g b g' H. unfold decide_m in H. unfold den_decide.
    destruct (decide expected_ops orc e (g_q g)) as [[b0 k']| | |]; try discriminate.
    mstep as u1 g1 E1. apply LogR_queries in E1. destruct E1 as [L Q].
    mstep as u2 g2 E2. unfold set_q in E2. inv E2. mstep.
    exists (map (fun v => AQ v ctx) (expr_vars e)). split.
    - rewrite <- (app_nil_r (map _ _)). eapply LogR_app; [exact L|]. apply LogR_nil; reflexivity.
    - rewrite map_map. reflexivity.
  Qed.

  Lemma den_limit_ok : forall l ctx g n g',
      read_limit orc l ctx g = Ok (n, g') ->
      exists evs, LogR evs g g' /\ den_limit orc l (g_q g) = Ok (n, map erase evs, g_q g').
  Proof.
    intros l ctx g n g' H. destruct l as [k|v p]; cbn [read_limit den_limit] in *.
    - mstep. exists []. split; [apply LogR_nil; reflexivity|reflexivity].
    - destruct (orc (g_q g) v) as [x|]; [|discriminate].
      destruct (resolve x p) as [[q| | |]| | |]; try discriminate.
      destruct (Pos.eqb (Qden q) 1); [|discriminate].
      mstep as u1 g1 E1. unfold log_entry in E1. apply log_entries_eff in E1.
      destruct E1 as (H1 & H2 & H3 & _ & _ & _ & H7 & _ & H9).
      mstep as u2 g2 E2. unfold set_q in E2. inv E2. mstep.
      exists [AQ v ctx]. split; [|reflexivity]. repeat split; auto.
  Qed.

  (* unfolding equations (the mutual block is kept folded in the goals) *)
  Lemma den_stmt_S : forall f ie s q,
      den_stmt orc (S f) ie s q =
      match s with
      | XService n at_ ins =>
        Ok ([DN SS n at_ (subst_params ie ins); DN SF n at_ (subst_params ie ins)], q)
      | XCall t at_ ins body =>
        rbind (den_block orc f [] body 0 q) (fun '(evs, q') =>
        Ok (DN TS t at_ (subst_params ie ins) :: evs ++ [DN TF t at_ (subst_params ie ins)], q'))
      | XParallel bs => den_list orc f (map (fun b => (ie, b)) bs) q
      | XCond e p fl =>
        rbind (den_decide orc e q) (fun '(b, d, q1) =>
        rbind (den_block orc f ie (if b then p else fl) 0 q1) (fun '(evs, q2) => Ok (d ++ evs, q2)))
      | XWhile _ _ | XCount _ _ _ => den_loop orc f ie s 0 q
      | XParLoop v lim c =>
        rbind (den_limit orc lim q) (fun '(n, d, q1) =>
        rbind (den_list orc f (insts ie v c (Z.to_nat n)) q1) (fun '(evs, q2) => Ok (d ++ evs, q2)))
      end.
  Proof. reflexivity. Qed.

  Lemma den_block_S : forall f ie ss i q,
      den_block orc (S f) ie ss i q =
      match nth_error ss i with
      | None => Ok ([], q)
      | Some s1 =>
        rbind (den_stmt orc f ie s1 q) (fun '(e1, q1) =>
        rbind (den_block orc f ie ss (S i) q1) (fun '(e2, q2) => Ok (e1 ++ e2, q2)))
      end.
  Proof. reflexivity. Qed.

  Lemma den_list_S : forall f l q,
      den_list orc (S f) l q =
      match l with
      | [] => Ok ([], q)
      | (ie, b) :: r =>
        rbind (den_stmt orc f ie b q) (fun '(e1, q1) =>
        rbind (den_list orc f r q1) (fun '(e2, q2) => Ok (e1 ++ e2, q2)))
      end.
  Proof. reflexivity. Qed.

  Lemma den_loop_S : forall f ie s k q,
      den_loop orc (S f) ie s k q =
      match s with
      | XWhile e body =>
        rbind (den_decide orc e q) (fun '(b, d, q1) =>
        if b then
          rbind (den_block orc f ie body 0 q1) (fun '(e1, q2) =>
          rbind (den_loop orc f ie s (S k) q2) (fun '(e2, q3) => Ok (d ++ e1 ++ e2, q3)))
        else Ok (d, q1))
      | XCount v lim body =>
        rbind (den_limit orc lim q) (fun '(n, d, q1) =>
        if (Z.of_nat k <? n)%Z then
          rbind (den_block orc f ((v, k) :: ie) body 0 q1) (fun '(e1, q2) =>
          rbind (den_loop orc f ie s (S k) q2) (fun '(e2, q3) => Ok (d ++ e1 ++ e2, q3)))
        else Ok (d, q1))
      | _ => Unsupported
      end.
  Proof. reflexivity. Qed.

  Lemma Den_seq : forall g g1 g2 e1 (d2 : res (list dev * nat)),
      LogR e1 g g1 -> Den g1 g2 d2 ->
      exists evs, LogR evs g g2 /\
                  rbind d2 (fun '(x, q2) => Ok (map erase e1 ++ x, q2)) = Ok (map erase evs, g_q g2).
  Proof.
    intros g g1 g2 e1 d2 L (evs2 & L2 & ->). exists (e1 ++ evs2). split.
    - eapply LogR_app; eassumption.
    - cbn [rbind]. rewrite map_app. reflexivity.
  Qed.

  Lemma sync_den : forall f,
      (forall ctx ie s g st g',
          start_stmt orc itrue f ctx ie s g = Ok (st, g') ->
          st = RDone /\ Den g g' (den_stmt orc f ie s (g_q g))) /\
      (forall ctx ie ss i g r g',
          run_block orc itrue f ctx ie ss i g = Ok (r, g') ->
          r = None /\ Den g g' (den_block orc f ie ss i (g_q g))) /\
      (forall ctx l g sts g',
          start_list orc itrue f ctx l g = Ok (sts, g') ->
          all_done sts = true /\ Den g g' (den_list orc f l (g_q g))) /\
      (forall ctx ie s k g st g',
          loop_test orc itrue f ctx ie s k g = Ok (st, g') ->
          st = RDone /\ Den g g' (den_loop orc f ie s k (g_q g))).
  Proof.
    induction f as [|f IH]; [split; [|split; [|split]]; intros; discriminate|].
    destruct IH as (IHs & IHb & IHl & IHt).
    split; [|split; [|split]].
    - (* start_stmt *)
      intros ctx ie s g st g' H. cbn [start_stmt] in H. rewrite den_stmt_S.
      destruct s as [n at_ ins|t at_ ins body|bs|e p fl|e b|v lim b|v lim c].
      + (* service, completed immediately *)
        mstep as id g1 E1. unfold fresh_s in E1. inv E1.
        mstep as u2 g2 E2. unfold await, set_awaited in E2. inv E2.
        mstep as u3 g3 E3. apply LogR_emit in E3. destruct E3 as [E3 Q3].
        mstep as k g4 E4. unfold tick_ss in E4. inv E4.
        unfold itrue in H.
        mstep as u5 g5 E5. unfold unawait in E5.
        match type of E5 with match ?X with _ => _ end = _ => destruct X as [l|] end; [|discriminate].
        unfold set_awaited in E5. inv E5.
        mstep as u6 g6 E6. apply LogR_emit in E6. destruct E6 as [E6 Q6]. mstep.
        split; [reflexivity|]. eexists. split.
        * eapply LogR_app; [eapply LogR_app; [apply LogR_nil; reflexivity|exact E3]|].
          eapply LogR_app; [apply LogR_nil; reflexivity|exact E6].
        * cbn. rewrite Q6. cbn. rewrite Q3. reflexivity.
      + (* task call *)
        mstep as id g1 E1. unfold fresh_t in E1. inv E1.
        mstep as u2 g2 E2. apply LogR_emit in E2. destruct E2 as [E2 Q2].
        mstep as r g3 E3. apply IHb in E3. destruct E3 as [-> (evs & L3 & D3)].
        mstep as u4 g4 E4. apply LogR_emit in E4. destruct E4 as [E4 Q4]. mstep.
        split; [reflexivity|]. rewrite Q2 in D3. cbn [g_q set] in D3. rewrite D3. cbn [rbind].
        eexists. split.
        * eapply LogR_app; [apply LogR_nil; reflexivity|].
          eapply LogR_app; [exact E2|]. eapply LogR_app; [exact L3|exact E4].
        * cbn. rewrite !map_app. cbn. rewrite Q4. reflexivity.
      + (* parallel *)
        mstep as sts g1 E1. apply IHl in E1. destruct E1 as [D L]. rewrite D in H. mstep.
        split; [reflexivity|exact L].
      + (* condition *)
        mstep as b g1 E1. apply den_decide_ok in E1. destruct E1 as (e1 & L1 & D1).
        mstep as r g2 E2. apply IHb in E2. destruct E2 as [-> D2]. mstep.
        split; [reflexivity|]. rewrite D1. cbn [rbind].
        destruct (Den_seq _ _ _ _ _ L1 D2) as (evs & L & D). exists evs. split; [exact L|exact D].
      + apply IHt in H. exact H.
      + apply IHt in H. exact H.
      + (* parallel loop *)
        mstep as n g1 E1. apply den_limit_ok in E1. destruct E1 as (e1 & L1 & D1).
        mstep as sts g2 E2. apply IHl in E2. destruct E2 as [Dn D2]. rewrite Dn in H. mstep.
        split; [reflexivity|]. rewrite D1. cbn [rbind].
        destruct (Den_seq _ _ _ _ _ L1 D2) as (evs & L & D). exists evs. split; [exact L|exact D].
    - (* run_block *)
      intros ctx ie ss i g r g' H. cbn [run_block] in H. rewrite den_block_S.
      destruct (nth_error ss i) as [s1|].
      + mstep as st g1 E1. apply IHs in E1. destruct E1 as [-> (e1 & L1 & D1)]. cbn [is_done] in H.
        apply IHb in H. destruct H as [-> D2]. split; [reflexivity|]. rewrite D1. cbn [rbind].
        destruct (Den_seq _ _ _ _ _ L1 D2) as (evs & L & D). exists evs. split; [exact L|exact D].
      + mstep. split; [reflexivity|]. exists []. split; [apply LogR_nil; reflexivity|reflexivity].
    - (* start_list *)
      intros ctx l g sts g' H. cbn [start_list] in H. rewrite den_list_S.
      destruct l as [|[ie b] r].
      + mstep. split; [reflexivity|]. exists []. split; [apply LogR_nil; reflexivity|reflexivity].
      + mstep as st g1 E1. apply IHs in E1. destruct E1 as [-> (e1 & L1 & D1)].
        mstep as sts1 g2 E2. apply IHl in E2. destruct E2 as [Dn D2]. mstep.
        split; [cbn; exact Dn|]. rewrite D1. cbn [rbind].
        destruct (Den_seq _ _ _ _ _ L1 D2) as (evs & L & D). exists evs. split; [exact L|exact D].
    - (* loop_test *)
      intros ctx ie s k g st g' H. cbn [loop_test] in H. rewrite den_loop_S.
      destruct s as [n at_ ins|t at_ ins body|bs|e p fl|e b|v lim b|v lim c]; try discriminate.
      + mstep as bb g1 E1. apply den_decide_ok in E1. destruct E1 as (e1 & L1 & D1). rewrite D1. cbn [rbind].
        destruct bb.
        * mstep as r g2 E2. apply IHb in E2. destruct E2 as [-> (e2 & L2 & D2)].
          apply IHt in H. destruct H as [-> (e3 & L3 & D3)]. split; [reflexivity|].
          rewrite D2. cbn [rbind]. rewrite D3. cbn [rbind].
          exists (e1 ++ e2 ++ e3). split.
          -- eapply LogR_app; [exact L1|]. eapply LogR_app; eassumption.
          -- rewrite !map_app. reflexivity.
        * mstep. split; [reflexivity|]. exists e1. split; [exact L1|reflexivity].
      + mstep as n g1 E1. apply den_limit_ok in E1. destruct E1 as (e1 & L1 & D1). rewrite D1. cbn [rbind].
        destruct (Z.of_nat k <? n)%Z.
        * mstep as r g2 E2. apply IHb in E2. destruct E2 as [-> (e2 & L2 & D2)].
          apply IHt in H. destruct H as [-> (e3 & L3 & D3)]. split; [reflexivity|].
          rewrite D2. cbn [rbind]. rewrite D3. cbn [rbind].
          exists (e1 ++ e2 ++ e3). split.
          -- eapply LogR_app; [exact L1|]. eapply LogR_app; eassumption.
          -- rewrite !map_app. reflexivity.
        * mstep. split; [reflexivity|]. exists e1. split; [exact L1|reflexivity].
  Qed.
End Sync.

(* the whole order, when every service is completed from inside its notification: start()
   runs it to the end; the log of that one call is the rendering of
   "production task started, the denotation of its body, production task finished" *)
Theorem sync_order : forall orc body f (s : sched) b s',
    sc_root s = None ->
    api_call orc itrue f body s AStart = Ok (b, s') ->
    exists evs mid q',
      cr_log (observe b s') = flat_map (render (g_ls (sc_g s)) (g_obs (sc_g s))) evs
      /\ den_block orc f [] body 0 (g_q (sc_g s)) = Ok (mid, q')
      /\ map erase evs = DN TS production_task root_site [] :: mid ++ [DN TF production_task root_site []]
      /\ cr_final (observe b s') = true /\ cr_running (observe b s') = false.
Proof.
  intros orc body f s b s' Hroot H. cbn [api_call] in H. rewrite Hroot in H.
  match type of H with match ?X with _ => _ end = _ => destruct X as [[st g']| | |] eqn:E end;
    try discriminate. inv H.
  mstep as u1 g1 E1. unfold set_running in E1. inv E1.
  set (g0 := clear_log (sc_g s) <| g_running := true |>) in *.
  mstep as id g2 E2. unfold fresh_t in E2. inv E2.
  mstep as u3 g3 E3. apply LogR_emit in E3. destruct E3 as [E3 Q3].
  mstep as r g4 E4. apply (proj1 (proj2 (sync_den orc f))) in E4. destruct E4 as [-> (e4 & L4 & D4)].
  mstep as u5 g5 E5. unfold finish_root in E5. mstep as u6 g6 E6.
  unfold emit_gen in E6. apply log_entries_eff in E6.
  destruct E6 as (H1 & H2 & H3 & _ & _ & _ & H7 & _ & H9).
  unfold set_running in E5. inv E5. mstep.
  rewrite Q3 in D4. cbn [g_q set] in D4.
  assert (L03 : LogR [ANot (mk TS production_task root_site (g_tid g0) None []) false true] g0 g3).
  { change [ANot (mk TS production_task root_site (g_tid g0) None []) false true]
      with ([] ++ [ANot (mk TS production_task root_site (g_tid g0) None []) false true]).
    eapply LogR_app; [apply LogR_nil; reflexivity|exact E3]. }
  assert (L04 := LogR_app _ _ _ _ _ L03 L4).
  destruct L04 as (X1 & X2 & X3 & X4).
  eexists (([ANot (mk TS production_task root_site (g_tid g0) None []) false true] ++ e4)
             ++ [ANot (mk TF production_task root_site 0 None []) true (g_running g4)]), (map erase e4), _.
  split; [|split; [exact D4|split; [|split; reflexivity]]].
  - unfold observe. cbn [cr_log sc_g]. change (g_log (g6 <| g_running := false |>)) with (g_log g6).
    rewrite H9, X4. change (g_log g0) with (@nil entry). rewrite app_nil_r, rev_app_distr, !rev_involutive.
    rewrite !flat_map_app. cbn [flat_map render n_kind mk n_name n_id].
    rewrite !app_nil_r, X1, X2. reflexivity.
  - rewrite !map_app. reflexivity.
Qed.
