(* Unfold.v — the call-tree unfolding of a program: the finite tree of statement
   *occurrences* that PetriNetGenerator walks (generate_task_call inlines the called
   task's statements).  Model support file. *)
From PFDL Require Export Syntax.

(* static position of a statement in the source: task name + index path
   (body index; loop body index; Condition: 0 = Passed, 1 = Failed, then index;
   Parallel: index of the call) *)
Record site := { st_task : name; st_path : list nat }.

Inductive xstmt :=
| XService (n : name) (at_ : site) (ins : list param)
| XCall (t : name) (at_ : site) (ins : list param) (body : list xstmt)
| XParallel (bs : list xstmt)                         (* every element is an XCall *)
| XCond (e : expr) (p f : list xstmt)
| XWhile (e : expr) (b : list xstmt)
| XCount (v : name) (lim : limit) (b : list xstmt)
| XParLoop (v : name) (lim : limit) (c : xstmt).      (* c is an XCall *)

Section Unfold.
  Variable tasks : list task.

  (* fuel decreases at every statement and every call; a cyclic call graph exhausts
     any fuel, which is what Python reports as RecursionError *)
  Fixpoint unfold_stmt (f : nat) (tn : name) (path : list nat) (s : stmt) : res xstmt :=
    match f with
    | O => Exn RecursionError
    | S f' =>
      let block := fix block (pre : list nat) (i : nat) (ss : list stmt) : res (list xstmt) :=
        match ss with
        | [] => Ok []
        | s1 :: r =>
          rbind (unfold_stmt f' tn (pre ++ [i]) s1) (fun x =>
          rbind (block pre (S i) r) (fun xs => Ok (x :: xs)))
        end in
      let do_call := fun (pth : list nat) (c : call) =>
        match find_task (c_name c) tasks with
        | None => Exn KeyError
        | Some t =>
          rbind ((fix blk (i : nat) (ss : list stmt) : res (list xstmt) :=
                    match ss with
                    | [] => Ok []
                    | s1 :: r =>
                      rbind (unfold_stmt f' (t_name t) [i] s1) (fun x =>
                      rbind (blk (S i) r) (fun xs => Ok (x :: xs)))
                    end) 0 (t_body t))
                (fun body => Ok (XCall (c_name c) {| st_task := tn; st_path := pth |} (c_ins c) body))
        end in
      match s with
      | SService n ins _ => Ok (XService n {| st_task := tn; st_path := path |} ins)
      | SCall c => do_call path c
      | SParallel cs =>
        rbind ((fix calls (i : nat) (l : list call) : res (list xstmt) :=
                  match l with
                  | [] => Ok []
                  | c :: r =>
                    rbind (do_call (path ++ [i]) c) (fun x =>
                    rbind (calls (S i) r) (fun xs => Ok (x :: xs)))
                  end) 0 cs)
              (fun bs => Ok (XParallel bs))
      | SWhile e body => rbind (block path 0 body) (fun b => Ok (XWhile e b))
      | SCount false v lim body => rbind (block path 0 body) (fun b => Ok (XCount v lim b))
      | SCount true v lim body =>
        match body with
        | [SCall c] => rbind (do_call (path ++ [0]) c) (fun x => Ok (XParLoop v lim x))
        | _ => Unsupported     (* rejected by the validator *)
        end
      | SCond e p fl =>
        rbind (block (path ++ [0]) 0 p) (fun xp =>
        rbind (block (path ++ [1]) 0 fl) (fun xf => Ok (XCond e xp xf)))
      end
    end.

  Definition unfold_program (f : nat) : res (list xstmt) :=
    match find_task production_task tasks with
    | None => Exn KeyError
    | Some t =>
      (fix blk (i : nat) (ss : list stmt) : res (list xstmt) :=
         match ss with
         | [] => Ok []
         | s1 :: r =>
           rbind (unfold_stmt f production_task [i] s1) (fun x =>
           rbind (blk (S i) r) (fun xs => Ok (x :: xs)))
         end) 0 (t_body t)
    end.
End Unfold.
