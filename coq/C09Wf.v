(* C09Wf.v — programs that satisfy the documented rules (Typing.wf_dec / WF) satisfy the typing
   conditions of the run-time half of C09: guards_typed and limits_typed.  Proof file. *)
From PFDL Require Import Base Syntax C09Static.
From PFDL.Check Require Import CheckModel Typing Guards CheckProofsBase CheckProofsC09.

Lemma forallb_existsb_false : forall (Q R : stmt -> bool) l,
    Forall (fun s => Q s = true -> R s = false) l -> forallb Q l = true -> existsb R l = false.
Proof.
  intros Q R l H. induction H as [|x l Hx Hl IH]; cbn [forallb existsb]; [auto|].
  intro H. apply andb_true_iff in H. destruct H as [A B]. rewrite (Hx A), (IH B). reflexivity.
Qed.

Section One.
  Variable P : program.
  Variable vars : list (name * vtype).

  Lemma stmt_ok_guards : forall s lv,
      stmt_ok P vars lv s = true -> stmt_exists (guard_bad P vars) lv s = false.
  Proof.
    intro s.
    induction s as [n ins outs|c|cs|e b IHb|par v l b IHb|e p f IHp IHf] using stmt_ind';
      intros lv H; cbn [stmt_ok stmt_exists] in *; try reflexivity.
    - apply andb_true_iff in H. destruct H as [H H3]. apply andb_true_iff in H. destruct H as [H1 H2].
      unfold guard_bad at 1. rewrite H1. cbn [negb orb].
      eapply forallb_existsb_false; [|exact H3]. eapply Forall_impl; [|exact IHb]. cbn beta. auto.
    - destruct par; [reflexivity|].
      apply andb_true_iff in H. destruct H as [H1 H]. apply andb_true_iff in H. destruct H as [H2 H3].
      eapply forallb_existsb_false; [|exact H3]. eapply Forall_impl; [|exact IHb]. cbn beta. auto.
    - apply andb_true_iff in H. destruct H as [H H4]. apply andb_true_iff in H. destruct H as [H H3].
      apply andb_true_iff in H. destruct H as [H1 H2].
      unfold guard_bad at 1. rewrite H1. cbn [negb orb].
      assert (Ep : existsb (stmt_exists (guard_bad P vars) lv) p = false).
      { eapply forallb_existsb_false; [|exact H3]. eapply Forall_impl; [|exact IHp]. cbn beta. auto. }
      assert (Ef : existsb (stmt_exists (guard_bad P vars) lv) f = false).
      { eapply forallb_existsb_false; [|exact H4]. eapply Forall_impl; [|exact IHf]. cbn beta. auto. }
      rewrite Ep, Ef. reflexivity.
  Qed.

  Lemma stmt_ok_limits : forall s lv,
      stmt_ok P vars lv s = true ->
      stmt_forall (fun _ _ => true) (fun lv l => limit_ok P vars lv l) lv s = true.
  Proof.
    intro s.
    induction s as [n ins outs|c|cs|e b IHb|par v l b IHb|e p f IHp IHf] using stmt_ind';
      intros lv H; cbn [stmt_ok stmt_forall] in *; try reflexivity.
    - apply andb_true_iff in H. destruct H as [H H3]. cbn [andb].
      eapply forallb_Forall_imp; [|exact H3]. eapply Forall_impl; [|exact IHb]. cbn beta. auto.
    - apply andb_true_iff in H. destruct H as [H1 H]. destruct par; [exact H1|].
      apply andb_true_iff in H. destruct H as [H2 H3]. rewrite H1. cbn [andb].
      eapply forallb_Forall_imp; [|exact H3]. eapply Forall_impl; [|exact IHb]. cbn beta. auto.
    - apply andb_true_iff in H. destruct H as [H H4]. apply andb_true_iff in H. destruct H as [H H3].
      cbn [andb]. apply andb_true_iff. split.
      + eapply forallb_Forall_imp; [|exact H3]. eapply Forall_impl; [|exact IHp]. cbn beta. auto.
      + eapply forallb_Forall_imp; [|exact H4]. eapply Forall_impl; [|exact IHf]. cbn beta. auto.
  Qed.
End One.

Lemma wf_tasks_ok : forall p, wf_dec p = true -> forallb (task_ok p) (p_tasks p) = true.
Proof.
  intros p H. unfold wf_dec in H.
  apply andb_true_iff in H. destruct H as [H _]. apply andb_true_iff in H. apply H.
Qed.

Lemma task_ok_body : forall p t, task_ok p t = true -> forallb (stmt_ok p (vars_of_task t) []) (t_body t) = true.
Proof.
  intros p t H. unfold task_ok in H. cbv zeta in H.
  apply andb_true_iff in H. destruct H as [H _]. apply andb_true_iff in H. apply H.
Qed.

Theorem wf_guards_typed : forall p, wf_dec p = true -> guards_typed p = true.
Proof.
  intros p H. apply wf_tasks_ok in H. unfold guards_typed. apply negb_true_iff.
  unfold sh_bad_guard, tasks_exist.
  destruct (existsb _ (p_tasks p)) eqn:E; [|reflexivity]. exfalso.
  apply existsb_exists in E. destruct E as (t & Ht & E).
  apply existsb_exists in E. destruct E as (s & Hs & E).
  rewrite forallb_forall in H. pose proof (task_ok_body _ _ (H t Ht)) as Hb.
  rewrite forallb_forall in Hb. rewrite (stmt_ok_guards _ _ _ _ (Hb s Hs)) in E. discriminate.
Qed.

Theorem wf_limits_typed : forall p, wf_dec p = true -> limits_typed p = true.
Proof.
  intros p H. apply wf_tasks_ok in H. unfold limits_typed, tasks_forall, task_forall.
  apply forallb_forall. intros t Ht. apply forallb_forall. intros s Hs.
  rewrite forallb_forall in H. pose proof (task_ok_body _ _ (H t Ht)) as Hb.
  rewrite forallb_forall in Hb. exact (stmt_ok_limits _ _ _ _ (Hb s Hs)).
Qed.
