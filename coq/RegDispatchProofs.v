(* Theorems about the dispatch of registered functions under re-entrant registration
   (RegDispatch.v): for ALL callback lists, ALL reaction functions, ALL nestings of
   notifications and ALL interleavings with registrations from outside, whenever the run ends
   (fuel), the events of the run are determined by the registrations accepted so far:
   return values, lists, and the functions invoked for every notification. *)
From Coq Require Import List Arith Bool Lia.
From PFDL Require Import RegDispatch.
Import ListNotations.

Ltac splits := repeat match goal with |- _ /\ _ => split end.

(* ------------------------------------------------------------------ *)
(* lists and the four-list state                                      *)
(* ------------------------------------------------------------------ *)
Lemma memb_In : forall x l, memb x l = true <-> In x l.
Proof.
  intros x l. unfold memb. rewrite existsb_exists. split.
  - intros [y [H1 H2]]. apply Nat.eqb_eq in H2. subst. exact H1.
  - intros H. exists x. split; [exact H | apply Nat.eqb_refl].
Qed.

Lemma memb_not_In : forall x l, memb x l = false <-> ~ In x l.
Proof.
  intros x l. split.
  - intros H Hin. apply memb_In in Hin. congruence.
  - intros H. destruct (memb x l) eqn:E; [|reflexivity]. apply memb_In in E. contradiction.
Qed.

Lemma get_add : forall K' K g s,
  get K' (add K g s) = get K' s ++ (if kind_eqb K K' then [g] else []).
Proof.
  intros K' K g [[[a b] c] d]. destruct K, K'; simpl; rewrite ?app_nil_r; reflexivity.
Qed.

Lemma NoDup_snoc : forall (l : list nat) x, NoDup l -> ~ In x l -> NoDup (l ++ [x]).
Proof.
  induction l as [|y l IH]; intros x Hnd Hn; simpl.
  - constructor; [intros [] | constructor].
  - inversion Hnd; subst. constructor.
    + intros H. apply in_app_or in H. destruct H as [H|[H|[]]]; [contradiction|].
      subst. apply Hn. left; reflexivity.
    + apply IH; [assumption|]. intros H. apply Hn. right; exact H.
Qed.

Lemma skipn_nth : forall (l : list nat) i g,
  nth_error l i = Some g -> skipn i l = g :: skipn (S i) l.
Proof.
  induction l as [|x l IH]; intros i g H; destruct i; simpl in *; try discriminate.
  - inversion H; reflexivity.
  - apply IH. exact H.
Qed.

Lemma skipn_beyond : forall (l : list nat) i, nth_error l i = None -> skipn i l = [].
Proof. intros l i H. apply skipn_all2. apply nth_error_None. exact H. Qed.

(* ------------------------------------------------------------------ *)
(* replay, accepted, sound                                            *)
(* ------------------------------------------------------------------ *)
Lemma replay_cons : forall e ev s, replay (e :: ev) s = replay ev (apply_event e s).
Proof. reflexivity. Qed.

Lemma replay_app : forall a b s, replay (a ++ b) s = replay b (replay a s).
Proof. intros. unfold replay. apply fold_left_app. Qed.

Lemma accepted_app : forall K a b, accepted K (a ++ b) = accepted K a ++ accepted K b.
Proof. intros. unfold accepted. apply flat_map_app. Qed.

Lemma invoked_app : forall m a b, invoked m (a ++ b) = invoked m a ++ invoked m b.
Proof. intros. unfold invoked. apply flat_map_app. Qed.

Lemma accepted_cons : forall K e ev, accepted K (e :: ev) = accepted K [e] ++ accepted K ev.
Proof. intros. apply (accepted_app K [e] ev). Qed.

Lemma invoked_cons : forall m e ev, invoked m (e :: ev) = invoked m [e] ++ invoked m ev.
Proof. intros. apply (invoked_app m [e] ev). Qed.

(* the lists are the starting lists followed by the accepted functions, in order of acceptance *)
Lemma get_replay : forall K ev s, get K (replay ev s) = get K s ++ accepted K ev.
Proof.
  intros K. induction ev as [|e ev IH]; intros s.
  - simpl. rewrite app_nil_r. reflexivity.
  - rewrite replay_cons, IH.
    rewrite accepted_cons.
    rewrite app_assoc. f_equal.
    destruct e as [n K' g|n f K' g ok|K' g ok|n K' l]; simpl; try (rewrite app_nil_r; reflexivity).
    + destruct ok; simpl; [rewrite get_add | ]; rewrite ?app_nil_r; reflexivity.
    + destruct ok; simpl; [rewrite get_add | ]; rewrite ?app_nil_r; reflexivity.
Qed.

Lemma sound_app : forall a b s, sound s (a ++ b) <-> sound s a /\ sound (replay a s) b.
Proof.
  induction a as [|e a IH]; intros b s.
  - simpl. tauto.
  - rewrite replay_cons. change ((e :: a) ++ b) with (e :: (a ++ b)).
    change (sound s (e :: a ++ b)) with (ok_event s e /\ sound (apply_event e s) (a ++ b)).
    change (sound s (e :: a)) with (ok_event s e /\ sound (apply_event e s) a).
    rewrite IH. tauto.
Qed.

Lemma sound_nodup : forall ev s, sound s ev -> nodup s -> nodup (replay ev s).
Proof.
  induction ev as [|e ev IH]; intros s Hs Hnd; [exact Hnd|].
  destruct Hs as [Hok Hs]. rewrite replay_cons. apply IH; [exact Hs|].
  assert (Hadd : forall K g, memb g (get K s) = false -> nodup (add K g s)).
  { intros K g Hm K'. rewrite get_add. destruct (kind_eqb K K') eqn:E.
    - destruct K, K'; try discriminate; apply NoDup_snoc; auto; apply memb_not_In; exact Hm.
    - rewrite app_nil_r. apply Hnd. }
  destruct e as [n K' g|n f K' g ok|K' g ok|n K' l]; simpl in *; try exact Hnd.
  - destruct ok; [|exact Hnd]. apply Hadd. destruct (memb g (get K' s)); [discriminate|reflexivity].
  - destruct ok; [|exact Hnd]. apply Hadd. destruct (memb g (get K' s)); [discriminate|reflexivity].
Qed.

(* ------------------------------------------------------------------ *)
(* registrations inside one invocation                                *)
(* ------------------------------------------------------------------ *)
Definition is_reg (n f : nat) (e : event) : Prop := exists K g ok, e = EReg n f K g ok.

Lemma do_regs_spec : forall regs n f s ev s1,
  do_regs n f regs s = (ev, s1) ->
  sound s ev /\ s1 = replay ev s /\ Forall (is_reg n f) ev.
Proof.
  induction regs as [|[K g] regs IH]; intros n f s ev s1 H; simpl in H.
  - inversion H; subst. simpl. auto.
  - unfold register in H. destruct (memb g (get K s)) eqn:Hm.
    + destruct (do_regs n f regs s) as [ev' s2] eqn:E. inversion H; subst.
      destruct (IH n f s ev' s1 E) as [H1 [H2 H3]].
      simpl. rewrite Hm. splits; auto.
      constructor; [exists K, g, false; reflexivity | exact H3].
    + destruct (do_regs n f regs (add K g s)) as [ev' s2] eqn:E. inversion H; subst.
      destruct (IH n f (add K g s) ev' s1 E) as [H1 [H2 H3]].
      simpl. rewrite Hm. splits; auto.
      constructor; [exists K, g, true; reflexivity | exact H3].
Qed.

(* ------------------------------------------------------------------ *)
(* notification numbers                                               *)
(* ------------------------------------------------------------------ *)
Definition num (e : event) : option nat :=
  match e with
  | EInv n _ _ => Some n
  | EReg n _ _ _ _ => Some n
  | EEnd n _ _ => Some n
  | EOut _ _ _ => None
  end.

Lemma invoked_none : forall m ev,
  (forall e, In e ev -> num e = Some m -> False) -> invoked m ev = [].
Proof.
  intros m. induction ev as [|e ev IH]; intros H; [reflexivity|].
  rewrite invoked_cons.
  rewrite IH by (intros e' He'; apply H; right; exact He').
  rewrite app_nil_r. destruct e as [n K g| | |]; simpl; try reflexivity.
  destruct (Nat.eqb_spec n m); [|reflexivity].
  exfalso. apply (H (EInv n K g)); [left; reflexivity | simpl; congruence].
Qed.

Lemma invoked_regs : forall m n f ev, Forall (is_reg n f) ev -> invoked m ev = [].
Proof.
  intros m n f. induction ev as [|e ev IH]; intros H; [reflexivity|].
  inversion H; subst. destruct H2 as [K [g [ok E]]]. subst e. simpl. apply IH. exact H3.
Qed.

Lemma regs_no_end : forall n f ev m K l, Forall (is_reg n f) ev -> ~ In (EEnd m K l) ev.
Proof.
  intros n f ev m K l H Hin. rewrite Forall_forall in H.
  destruct (H _ Hin) as [K' [g [ok E]]]. discriminate.
Qed.

Lemma regs_no_inv : forall n f ev m K g, Forall (is_reg n f) ev -> ~ In (EInv m K g) ev.
Proof.
  intros n f ev m K g H Hin. rewrite Forall_forall in H.
  destruct (H _ Hin) as [K' [g' [ok E]]]. discriminate.
Qed.

Lemma regs_num : forall n f ev e m, Forall (is_reg n f) ev -> In e ev -> num e = Some m -> m = n.
Proof.
  intros n f ev e m H Hin Hn. rewrite Forall_forall in H.
  destruct (H _ Hin) as [K' [g' [ok E]]]. subst e. simpl in Hn. congruence.
Qed.

(* ------------------------------------------------------------------ *)
(* what holds of every part of a run                                  *)
(* ------------------------------------------------------------------ *)
(* a part that numbers its notifications lo .. hi-1 *)
Definition good (lo hi : nat) (s : cbs) (ev : list event) (s' : cbs) : Prop :=
  sound s ev /\ s' = replay ev s /\
  (forall e m, In e ev -> num e = Some m -> lo <= m < hi) /\
  (forall m K l, In (EEnd m K l) ev -> invoked m ev = l) /\
  (forall m K g, In (EInv m K g) ev -> exists l, In (EEnd m K l) ev).

(* the loop of notification n from index i on; nested notifications are numbered next .. next'-1 *)
Definition loop_good (K : kind) (n next next' i : nat) (s : cbs) (ev : list event) (s' : cbs) : Prop :=
  sound s ev /\ s' = replay ev s /\ next <= next' /\
  (forall e m, In e ev -> num e = Some m -> m = n \/ next <= m < next') /\
  (forall m K' l, m <> n -> In (EEnd m K' l) ev -> invoked m ev = l) /\
  (forall m K' g, m <> n -> In (EInv m K' g) ev -> exists l, In (EEnd m K' l) ev) /\
  invoked n ev = skipn i (get K s') /\
  (forall K' l, In (EEnd n K' l) ev -> l = get K s') /\
  In (EEnd n K (get K s')) ev /\
  (forall K' g, In (EInv n K' g) ev -> K' = K).

Lemma good_nil : forall lo hi s, good lo hi s [] s.
Proof.
  intros. unfold good. splits; simpl; auto; intros; contradiction.
Qed.

Lemma good_app : forall a b c s ev1 s1 ev2 s2,
  good a b s ev1 s1 -> good b c s1 ev2 s2 -> a <= b -> b <= c -> good a c s (ev1 ++ ev2) s2.
Proof.
  intros a b c s ev1 s1 ev2 s2 [S1 [F1 [R1 [C1 E1]]]] [S2 [F2 [R2 [C2 E2]]]] Hab Hbc.
  unfold good. splits.
  - apply sound_app. split; [exact S1 | rewrite <- F1; exact S2].
  - rewrite replay_app, <- F1. exact F2.
  - intros e m H H0. apply in_app_or in H. destruct H as [H|H].
    + destruct (R1 e m H H0). lia.
    + destruct (R2 e m H H0). lia.
  - intros m K l H. rewrite invoked_app. apply in_app_or in H. destruct H as [H|H].
    + rewrite (invoked_none m ev2).
      * rewrite app_nil_r. eapply C1; eauto.
      * intros e He Hn. destruct (R1 _ m H eq_refl). destruct (R2 e m He Hn). lia.
    + rewrite (invoked_none m ev1).
      * simpl. eapply C2; eauto.
      * intros e He Hn. destruct (R2 _ m H eq_refl). destruct (R1 e m He Hn). lia.
  - intros m K g H. apply in_app_or in H. destruct H as [H|H].
    + destruct (E1 m K g H) as [l Hl]. exists l. apply in_or_app. left; exact Hl.
    + destruct (E2 m K g H) as [l Hl]. exists l. apply in_or_app. right; exact Hl.
Qed.

Lemma get_replay_prefix3 : forall K a b c s,
  exists t, get K (replay c (replay b (replay a s))) = get K s ++ t.
Proof.
  intros. rewrite !get_replay. rewrite <- !app_assoc. eauto.
Qed.

Theorem run_parts_good : forall fuel,
  (forall react nd n s ev n' s',
      run_node fuel react nd n s = Some (ev, n', s') -> n < n' /\ good n n' s ev s') /\
  (forall react K ch n next i s ev next' s',
      n < next ->
      run_loop fuel react K ch n next i s = Some (ev, next', s') ->
      loop_good K n next next' i s ev s') /\
  (forall react ch next s ev next' s',
      run_forest fuel react ch next s = Some (ev, next', s') -> next <= next' /\ good next next' s ev s').
Proof.
  induction fuel as [|f [IHn [IHl IHf]]].
  { repeat split; intros; simpl in *; discriminate. }
  split; [|split].
  - (* a notification *)
    intros react [K ch] n s ev n' s' H. simpl in H.
    destruct (IHl react K ch n (S n) 0 s ev n' s' (Nat.lt_succ_diag_r n) H)
      as [S1 [F1 [Hle [R1 [C1 [E1 [I1 [D1 [In1 Kn1]]]]]]]]].
    split; [lia|]. unfold good. splits; auto.
    + intros e m H0 H1. destruct (R1 e m H0 H1); lia.
    + intros m K' l Hin. destruct (Nat.eq_dec m n) as [E|E].
      * subst m. rewrite I1. simpl. symmetry. eapply D1; eauto.
      * eapply C1; eauto.
    + intros m K' g Hin. destruct (Nat.eq_dec m n) as [E|E].
      * subst m. rewrite (Kn1 K' g Hin). eauto.
      * eapply E1; eauto.
  - (* the loop *)
    intros react K ch n next i s ev next' s' Hlt H. simpl in H.
    destruct (nth_error (get K s) i) as [g|] eqn:Hnth.
    + destruct (do_regs n g (react g n) s) as [evr s1] eqn:Hr.
      destruct (do_regs_spec _ _ _ _ _ _ Hr) as [Sr [Fr Rr]].
      destruct (if Nat.eqb g 0 then run_forest f react ch next s1 else Some ([], next, s1))
        as [[[evc next1] s2]|] eqn:Hc; [|discriminate].
      assert (Hgc : next <= next1 /\ good next next1 s1 evc s2).
      { destruct (Nat.eqb g 0).
        - apply IHf in Hc. exact Hc.
        - inversion Hc; subst. split; [lia | apply good_nil]. }
      destruct Hgc as [Hle1 [Sc [Fc [Rc [Cc Ec]]]]].
      destruct (run_loop f react K ch n next1 (S i) s2) as [[[ev' next2] s3]|] eqn:Hl; [|discriminate].
      inversion H; subst ev next' s'. clear H.
      assert (Hlt1 : n < next1) by lia.
      destruct (IHl react K ch n next1 (S i) s2 ev' next2 s3 Hlt1 Hl)
        as [S2 [F2 [Hle2 [R2 [C2 [E2 [I2 [D2 [In2 Kn2]]]]]]]]].
      assert (Hinv_r : forall m, invoked m evr = []) by (intros; eapply invoked_regs; eauto).
      assert (Hinv_c : invoked n evc = []).
      { apply invoked_none. intros e He Hn. destruct (Rc e n He Hn). lia. }
      unfold loop_good. splits.
      * simpl. split; [exact I|]. apply sound_app. split; [exact Sr|].
        rewrite <- Fr. apply sound_app. split; [exact Sc|]. rewrite <- Fc. exact S2.
      * rewrite replay_cons. simpl apply_event. rewrite !replay_app, <- Fr, <- Fc. exact F2.
      * lia.
      * intros e m Hin Hn. destruct Hin as [E|Hin].
        -- subst e. simpl in Hn. left. congruence.
        -- apply in_app_or in Hin. destruct Hin as [Hin|Hin].
           ++ left. eapply regs_num; eauto.
           ++ apply in_app_or in Hin. destruct Hin as [Hin|Hin].
              ** destruct (Rc e m Hin Hn). right. lia.
              ** destruct (R2 e m Hin Hn) as [E|E]; [left; exact E | right; lia].
      * intros m K' l Hne Hin. destruct Hin as [E|Hin]; [discriminate|].
        rewrite invoked_cons.
        rewrite !invoked_app, Hinv_r. simpl.
        destruct (Nat.eqb_spec n m) as [E|_]; [congruence|]. simpl.
        apply in_app_or in Hin. destruct Hin as [Hin|Hin]; [exfalso; eapply regs_no_end; eauto|].
        apply in_app_or in Hin. destruct Hin as [Hin|Hin].
        -- rewrite (invoked_none m ev').
           ++ rewrite app_nil_r. eapply Cc; eauto.
           ++ intros e He Hn. destruct (Rc _ m Hin eq_refl). destruct (R2 e m He Hn); lia.
        -- rewrite (invoked_none m evc).
           ++ simpl. eapply C2; eauto.
           ++ intros e He Hn. destruct (Rc e m He Hn).
              destruct (R2 _ m Hin eq_refl); lia.
      * intros m K' g' Hne Hin. destruct Hin as [E|Hin]; [inversion E; congruence|].
        apply in_app_or in Hin. destruct Hin as [Hin|Hin]; [exfalso; eapply regs_no_inv; eauto|].
        apply in_app_or in Hin. destruct Hin as [Hin|Hin].
        -- destruct (Ec m K' g' Hin) as [l Hxl]. exists l. right.
           apply in_or_app. right. apply in_or_app. left. exact Hxl.
        -- destruct (E2 m K' g' Hne Hin) as [l Hxl]. exists l. right.
           apply in_or_app. right. apply in_or_app. right. exact Hxl.
      * rewrite invoked_cons.
        rewrite !invoked_app, Hinv_r, Hinv_c, I2. simpl. rewrite Nat.eqb_refl. simpl.
        symmetry. apply skipn_nth.
        rewrite F2, Fc, Fr. destruct (get_replay_prefix3 K evr evc ev' s) as [t Ht]. rewrite Ht.
        rewrite nth_error_app1; [exact Hnth|]. apply nth_error_Some. congruence.
      * intros K' l Hin. destruct Hin as [E|Hin]; [discriminate|].
        apply in_app_or in Hin. destruct Hin as [Hin|Hin]; [exfalso; eapply regs_no_end; eauto|].
        apply in_app_or in Hin. destruct Hin as [Hin|Hin].
        -- destruct (Rc _ n Hin eq_refl). lia.
        -- eapply D2; eauto.
      * right. apply in_or_app. right. apply in_or_app. right. exact In2.
      * intros K' g' Hin. destruct Hin as [E|Hin]; [inversion E; reflexivity|].
        apply in_app_or in Hin. destruct Hin as [Hin|Hin]; [exfalso; eapply regs_no_inv; eauto|].
        apply in_app_or in Hin. destruct Hin as [Hin|Hin].
        -- destruct (Rc _ n Hin eq_refl). lia.
        -- eapply Kn2; eauto.
    + inversion H; subst ev next' s'. clear H.
      unfold loop_good. splits.
      * simpl. auto.
      * reflexivity.
      * lia.
      * intros e m [E|[]] Hn. subst e. simpl in Hn. left. congruence.
      * intros m K' l Hne [E|[]]. inversion E. congruence.
      * intros m K' g Hne [E|[]]. discriminate.
      * simpl. symmetry. apply skipn_beyond. exact Hnth.
      * intros K' l [E|[]]. inversion E. reflexivity.
      * left. reflexivity.
      * intros K' g [E|[]]. discriminate.
  - (* the notifications dispatched inside one invocation *)
    intros react ch next s ev next' s' H. simpl in H.
    destruct ch as [|nd rest].
    + inversion H; subst. split; [lia | apply good_nil].
    + destruct (run_node f react nd next s) as [[[ev1 nx] s1]|] eqn:Hn; [|discriminate].
      destruct (run_forest f react rest nx s1) as [[[ev2 nx2] s2]|] eqn:Hf; [|discriminate].
      inversion H; subst. clear H.
      destruct (IHn _ _ _ _ _ _ _ Hn) as [Hlt G1].
      destruct (IHf _ _ _ _ _ _ _ Hf) as [Hle G2].
      split; [lia|]. eapply good_app; eauto; lia.
Qed.

Lemma good_out : forall lo hi K g s ok s1,
  register K g s = (ok, s1) -> good lo hi s [EOut K g ok] s1.
Proof.
  intros lo hi K g s ok s1 H. unfold register in H.
  destruct (memb g (get K s)) eqn:Hm; inversion H; subst; unfold good; splits; simpl; rewrite ?Hm;
    auto; try (intros e m [E|[]] Hn; subst e; discriminate);
    try (intros m K' l [E|[]]; discriminate); try (intros m K' g' [E|[]]; discriminate).
Qed.

Lemma good_weaken : forall a b a' b' s ev s', good a b s ev s' -> a' <= a -> b <= b' -> good a' b' s ev s'.
Proof.
  intros a b a' b' s ev s' [S1 [F1 [R1 [C1 E1]]]] Ha Hb. unfold good. splits; auto.
  intros e m H H0. destruct (R1 e m H H0). lia.
Qed.

Theorem run_steps_good : forall steps fuel react n s ev n' s',
  run_steps fuel react steps n s = Some (ev, n', s') -> n <= n' /\ good n n' s ev s'.
Proof.
  induction steps as [|st steps IH]; intros fuel react n s ev n' s' H; simpl in H.
  - inversion H; subst. split; [lia | apply good_nil].
  - destruct st as [K g|nd].
    + destruct (register K g s) as [ok s1] eqn:Hr.
      destruct (run_steps fuel react steps n s1) as [[[ev2 n2] s2]|] eqn:Hs; [|discriminate].
      inversion H; subst. clear H.
      destruct (IH _ _ _ _ _ _ _ Hs) as [Hle G2]. split; [exact Hle|].
      change (EOut K g ok :: ev2) with ([EOut K g ok] ++ ev2).
      eapply good_app; [eapply (good_out n n); eauto | exact G2 | lia | lia].
    + destruct (run_node fuel react nd n s) as [[[ev1 n1] s1]|] eqn:Hn; [|discriminate].
      destruct (run_steps fuel react steps n1 s1) as [[[ev2 n2] s2]|] eqn:Hs; [|discriminate].
      inversion H; subst. clear H.
      destruct (proj1 (run_parts_good fuel) _ _ _ _ _ _ _ Hn) as [Hlt G1].
      destruct (IH _ _ _ _ _ _ _ Hs) as [Hle G2].
      split; [lia|]. eapply good_app; eauto; lia.
Qed.

(* ------------------------------------------------------------------ *)
(* the theorems about whole runs                                      *)
(* ------------------------------------------------------------------ *)
Section Run.
Variables (fuel : nat) (react : reaction) (steps : list step) (n0 : nat) (s : cbs).
Variables (ev : list event) (n' : nat) (s' : cbs).
Hypothesis Hrun : run_steps fuel react steps n0 s = Some (ev, n', s').

(* every return value and every list in the run is the one reconstructed from the events
   before it; the lists at the end are the starting lists plus the accepted functions *)
Theorem reg_run_sound : sound s ev /\ s' = replay ev s.
Proof. destruct (run_steps_good _ _ _ _ _ _ _ _ Hrun) as [_ [H1 [H2 _]]]. auto. Qed.

Theorem reg_final_lists : forall K, get K s' = get K s ++ accepted K ev.
Proof. intros K. rewrite (proj2 reg_run_sound). apply get_replay. Qed.

(* (3) the return value of a registration: False exactly if the function is in the list at
   that moment -- registered at the start, or accepted earlier in the run (between calls, in an
   earlier notification, earlier in the same dispatch, in the same callback) *)
Theorem reg_return_value : forall ev1 n f K g ok ev2,
  ev = ev1 ++ EReg n f K g ok :: ev2 ->
  ok = negb (memb g (get K s ++ accepted K ev1)).
Proof.
  intros ev1 n f K g ok ev2 E. destruct reg_run_sound as [Hs _]. rewrite E in Hs.
  apply sound_app in Hs. destruct Hs as [_ [Hok _]]. simpl in Hok. rewrite get_replay in Hok. exact Hok.
Qed.

Theorem reg_return_value_outside : forall ev1 K g ok ev2,
  ev = ev1 ++ EOut K g ok :: ev2 ->
  ok = negb (memb g (get K s ++ accepted K ev1)).
Proof.
  intros ev1 K g ok ev2 E. destruct reg_run_sound as [Hs _]. rewrite E in Hs.
  apply sound_app in Hs. destruct Hs as [_ [Hok _]]. simpl in Hok. rewrite get_replay in Hok. exact Hok.
Qed.

Theorem reg_present_is_refused : forall ev1 n f K g ok ev2,
  ev = ev1 ++ EReg n f K g ok :: ev2 ->
  In g (get K s) \/ In g (accepted K ev1) -> ok = false.
Proof.
  intros ev1 n f K g ok ev2 E Hin. rewrite (reg_return_value _ _ _ _ _ _ _ E).
  assert (H : memb g (get K s ++ accepted K ev1) = true).
  { apply memb_In. apply in_or_app. exact Hin. }
  rewrite H. reflexivity.
Qed.

(* (1), (2) the functions invoked for notification m, in order = the list of its kind when its
   loop ends = the starting list followed by the functions accepted for that kind before the
   loop ended, in order of acceptance *)
Theorem reg_invoked : forall ev1 m K l ev2,
  ev = ev1 ++ EEnd m K l :: ev2 ->
  invoked m ev = l /\ l = get K s ++ accepted K ev1.
Proof.
  intros ev1 m K l ev2 E.
  destruct (run_steps_good _ _ _ _ _ _ _ _ Hrun) as [_ [Hs [_ [_ [Hc _]]]]]. split.
  - eapply Hc. rewrite E. apply in_or_app. right. left. reflexivity.
  - rewrite E in Hs. apply sound_app in Hs. destruct Hs as [_ [Hok _]]. simpl in Hok.
    rewrite get_replay in Hok. exact Hok.
Qed.

(* split at the moment the dispatch of m starts: first the functions registered before, in
   registration order; then the functions accepted while m was being dispatched (by the
   callbacks of m or inside nested notifications), in order of acceptance *)
Theorem reg_invoked_before_then_during : forall ev0 e0 mid m K l ev2,
  ev = ev0 ++ e0 :: mid ++ EEnd m K l :: ev2 ->
  invoked m ev = (get K s ++ accepted K ev0) ++ accepted K (e0 :: mid).
Proof.
  intros ev0 e0 mid m K l ev2 E.
  assert (E' : ev = (ev0 ++ e0 :: mid) ++ EEnd m K l :: ev2) by (rewrite E, <- app_assoc; reflexivity).
  destruct (reg_invoked _ _ _ _ _ E') as [H1 H2]. rewrite H1, H2, accepted_app, app_assoc. reflexivity.
Qed.

(* every notification whose dispatch starts also ends (the run returned) *)
Theorem reg_every_dispatch_ends : forall m K g,
  In (EInv m K g) ev -> exists l, In (EEnd m K l) ev.
Proof.
  destruct (run_steps_good _ _ _ _ _ _ _ _ Hrun) as [_ [_ [_ [_ [_ He]]]]]. exact He.
Qed.

Hypothesis Hnodup : nodup s.

(* (4) the lists stay duplicate-free *)
Theorem reg_nodup_final : nodup s'.
Proof. destruct reg_run_sound as [H1 H2]. rewrite H2. apply sound_nodup; assumption. Qed.

Theorem reg_nodup_always : forall ev1 ev2, ev = ev1 ++ ev2 -> nodup (replay ev1 s).
Proof.
  intros ev1 ev2 E. destruct reg_run_sound as [H1 _]. rewrite E in H1.
  apply sound_app in H1. apply sound_nodup; tauto.
Qed.

(* nobody is invoked twice for one notification *)
Theorem reg_nobody_twice : forall ev1 m K l ev2,
  ev = ev1 ++ EEnd m K l :: ev2 -> NoDup (invoked m ev).
Proof.
  intros ev1 m K l ev2 E. destruct (reg_invoked _ _ _ _ _ E) as [H1 H2]. rewrite H1, H2.
  rewrite <- get_replay. apply (reg_nodup_always ev1 (EEnd m K l :: ev2) E).
Qed.

(* (5) a function that is registered for kind K -- from the start or by an accepted
   registration -- is invoked exactly once for every notification of kind K whose loop ends
   after that *)
Theorem reg_registered_invoked_once : forall ev1 m K l ev2 g,
  ev = ev1 ++ EEnd m K l :: ev2 ->
  In g (get K s) \/ In g (accepted K ev1) ->
  count_occ Nat.eq_dec (invoked m ev) g = 1.
Proof.
  intros ev1 m K l ev2 g E Hin.
  pose proof (reg_nobody_twice _ _ _ _ _ E) as Hnd.
  destruct (reg_invoked _ _ _ _ _ E) as [H1 H2].
  assert (Hg : In g (invoked m ev)) by (rewrite H1, H2; apply in_or_app; exact Hin).
  pose proof (proj1 (NoDup_count_occ Nat.eq_dec _) Hnd g).
  pose proof (proj1 (count_occ_In Nat.eq_dec _ g) Hg). lia.
Qed.

(* no function is accepted twice for a kind, and none that was registered at the start *)
Theorem reg_accepted_once : forall K, NoDup (get K s ++ accepted K ev).
Proof. intros K. rewrite <- reg_final_lists. apply reg_nodup_final. Qed.

Theorem reg_never_invoked_unless_registered : forall ev1 m K l ev2 g,
  ev = ev1 ++ EEnd m K l :: ev2 ->
  In g (invoked m ev) -> In g (get K s) \/ In g (accepted K ev1).
Proof.
  intros ev1 m K l ev2 g E Hin. destruct (reg_invoked _ _ _ _ _ E) as [H1 H2].
  rewrite H1, H2 in Hin. apply in_app_or. exact Hin.
Qed.

End Run.

(* ---- one notification (with everything nested in it), directly ---- *)
(* the functions invoked for it = the list of its kind when its loop ends = the list at the
   start followed by the functions accepted for that kind during the dispatch; the functions
   registered before come first, in registration order, each exactly once *)
Theorem reg_one_notification : forall fuel react K ch n s ev n' s',
  run_node fuel react (Notif K ch) n s = Some (ev, n', s') ->
  invoked n ev = get K s ++ accepted K ev /\ get K s' = get K s ++ accepted K ev /\
  (nodup s -> NoDup (invoked n ev)).
Proof.
  intros fuel react K ch n s ev n' s' H. destruct fuel as [|f]; [discriminate|]. simpl in H.
  destruct (proj1 (proj2 (run_parts_good f)) react K ch n (S n) 0 s ev n' s' (Nat.lt_succ_diag_r n) H)
    as [S1 [F1 [_ [_ [_ [_ [I1 _]]]]]]].
  simpl in I1. assert (E : get K s' = get K s ++ accepted K ev) by (rewrite F1; apply get_replay).
  rewrite I1. splits; auto.
  intros Hnd. rewrite F1. apply sound_nodup; assumption.
Qed.

Theorem reg_one_notification_once : forall fuel react K ch n s ev n' s' g,
  run_node fuel react (Notif K ch) n s = Some (ev, n', s') ->
  nodup s -> In g (get K s) -> count_occ Nat.eq_dec (invoked n ev) g = 1.
Proof.
  intros fuel react K ch n s ev n' s' g H Hnd Hin.
  destruct (reg_one_notification _ _ _ _ _ _ _ _ _ H) as [H1 [_ H3]].
  pose proof (proj1 (NoDup_count_occ Nat.eq_dec _) (H3 Hnd) g).
  assert (Hg : In g (invoked n ev)) by (rewrite H1; apply in_or_app; left; exact Hin).
  pose proof (proj1 (count_occ_In Nat.eq_dec _ g) Hg). lia.
Qed.

(* ------------------------------------------------------------------ *)
(* the deferred variant                                               *)
(* ------------------------------------------------------------------ *)
Definition deferred_react : reaction := react_of_table [((1, 0), [(TS, 5)]); ((2, 0), [(TS, 5)])].
Definition deferred_start : cbs := ([0; 1; 2], [0], [0], [0]).

Lemma deferred_start_nodup : nodup deferred_start.
Proof. intros K. destruct K; simpl; repeat constructor; simpl; intuition discriminate. Qed.

(* two callbacks register the same function during one dispatch: both are accepted, the lists
   are no longer duplicate-free *)
Theorem dispatch_deferred_refuted :
  ~ (forall react steps n s, nodup s -> nodup (snd (run_deferred react steps n s))).
Proof.
  intros H.
  pose proof (H deferred_react [DNotify TS; DNotify TS] 0 deferred_start deferred_start_nodup TS) as Hnd.
  pose proof (proj1 (NoDup_count_occ Nat.eq_dec _) Hnd 5) as Hc. vm_compute in Hc. lia.
Qed.

(* ... and the function fires twice for the next notification *)
Theorem dispatch_deferred_fires_twice :
  let ev := fst (run_deferred deferred_react [DNotify TS; DNotify TS] 0 deferred_start) in
  accepted TS ev = [5; 5] /\ count_occ Nat.eq_dec (invoked 1 ev) 5 = 2.
Proof. vm_compute. split; reflexivity. Qed.

(* the real loop on the same scenario: the second registration is refused, 5 is invoked once for
   the notification during which it was registered and once for the next one *)
Theorem dispatch_live_same_scenario :
  exists ev n s',
    run_steps 20 deferred_react [Top (Notif TS []); Top (Notif TS [])] 0 deferred_start = Some (ev, n, s')
    /\ accepted TS ev = [5] /\ invoked 0 ev = [0; 1; 2; 5] /\ invoked 1 ev = [0; 1; 2; 5]
    /\ get TS s' = [0; 1; 2; 5].
Proof. eexists. eexists. eexists. vm_compute. repeat split; reflexivity. Qed.

(* the deferred variant also lets an accepted function miss the notification during which it
   was accepted -- and with a nested run every notification until the outermost dispatch ends *)
Theorem dispatch_deferred_misses_current :
  invoked 0 (fst (run_deferred deferred_react [DNotify TS; DNotify TS] 0 deferred_start)) = [0; 1; 2].
Proof. vm_compute. reflexivity. Qed.

(* ------------------------------------------------------------------ *)
(* the theorems are not vacuous                                       *)
(* ------------------------------------------------------------------ *)
(* the engine registers 4 for task finished inside service started and completes the service at
   once; function 1 (service started) registers 4 again (refused) and 7 for its own kind *)
Definition react_ex : reaction :=
  react_of_table [((0, 0), [(TF, 4)]); ((1, 0), [(TF, 4); (SS, 7)]); ((4, 2), [(SF, 4)])].
Definition steps_ex : list step :=
  [Out SS 1; Out SS 1; Top (Notif SS [Notif SF []; Notif TF []]); Top (Notif SF [])].
Definition start_ex : cbs := ([0], [0], [0], [0]).

Lemma start_ex_nodup : nodup start_ex.
Proof. intros K. destruct K; simpl; repeat constructor; simpl; intuition. Qed.

Definition ev_ex : list event :=
  [EOut SS 1 true; EOut SS 1 false;
   EInv 0 SS 0; EReg 0 0 TF 4 true;
     EInv 1 SF 0; EEnd 1 SF [0];
     EInv 2 TF 0; EInv 2 TF 4; EReg 2 4 SF 4 true; EEnd 2 TF [0; 4];
   EInv 0 SS 1; EReg 0 1 TF 4 false; EReg 0 1 SS 7 true; EInv 0 SS 7; EEnd 0 SS [0; 1; 7];
   EInv 3 SF 0; EInv 3 SF 4; EEnd 3 SF [0; 4]].

Example ex_run : run_steps 30 react_ex steps_ex 0 start_ex = Some (ev_ex, 4, ([0], [0; 4], [0; 1; 7], [0; 4])).
Proof. vm_compute. reflexivity. Qed.

(* 4, accepted for task finished before notification 2 ended, is invoked exactly once for it *)
Example ex_invoked_once_applies : count_occ Nat.eq_dec (invoked 2 ev_ex) 4 = 1.
Proof.
  apply (reg_registered_invoked_once _ _ _ _ _ _ _ _ ex_run start_ex_nodup
           [EOut SS 1 true; EOut SS 1 false; EInv 0 SS 0; EReg 0 0 TF 4 true;
            EInv 1 SF 0; EEnd 1 SF [0]; EInv 2 TF 0; EInv 2 TF 4; EReg 2 4 SF 4 true]
           2 TF [0; 4]
           [EInv 0 SS 1; EReg 0 1 TF 4 false; EReg 0 1 SS 7 true; EInv 0 SS 7; EEnd 0 SS [0; 1; 7];
            EInv 3 SF 0; EInv 3 SF 4; EEnd 3 SF [0; 4]] 4).
  - reflexivity.
  - right. vm_compute. auto.
Qed.

(* the second registration of 4 for task finished, by another callback of the same run, is refused *)
Example ex_refused_applies :
  forall ok ev1 ev2, ev_ex = ev1 ++ EReg 0 1 TF 4 ok :: ev2 -> In 4 (accepted TF ev1) -> ok = false.
Proof.
  intros ok ev1 ev2 E Hin.
  apply (reg_present_is_refused _ _ _ _ _ _ _ _ ex_run ev1 0 1 TF 4 ok ev2 E). right. exact Hin.
Qed.
