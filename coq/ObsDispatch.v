(* Observer dispatch under RE-ENTRANT attach / detach (property C17).

   pfdl_scheduler/scheduler.py:

       def attach(self, observer):  self.observers.append(observer)
       def detach(self, observer):  self.observers.remove(observer)
       def notify(self, notification_type, data):
           for observer in list(self.observers):
               if observer in self.observers:
                   observer.update(notification_type, data)

   An observer's update() may itself call attach / detach (of itself or of others) while
   notify is iterating.  RefSem.v / NetModel.v cover attach / detach BETWEEN API calls only;
   this file models the loop itself, in three versions:

     dispatch_fixed     the code above (copy of the list + membership test at every turn);
     dispatch_live      the code before commit 20b97d8, `for observer in self.observers:
                        observer.update(...)`: CPython's list iterator keeps an INDEX into the
                        live list (i := 0; while i < len(l): update(l[i]); i += 1);
     dispatch_snapshot  the tempting wrong repair `for observer in tuple(self.observers):
                        observer.update(...)` (copy, no membership test).

   Observers are numbers.  The observer list is a [list nat] in attachment order; the same
   observer may be attached several times ([attach] appends, [detach x] removes the FIRST
   occurrence -- list.append / list.remove).

   detach of an observer that is not attached: list.remove raises ValueError in Python.  That
   case is OUTSIDE this model: [remove1] leaves the list unchanged, and the correspondence
   harness (harness/kind_obs.py) never generates such a detach (its generator tracks the list;
   a ValueError raised by the implementation is reported as a violation).  The theorems of
   ObsDispatchProofs.v hold for every reaction function, with this total reading of detach.

   Definitions only; stdlib only.  Theorems: ObsDispatchProofs.v, restated in
   Properties/C17obs.v. *)
From Coq Require Import List Arith Bool.
Import ListNotations.

Inductive action : Type :=
| Attach (x : nat)
| Detach (x : nat).

(* list.remove(x): the first occurrence *)
Fixpoint remove1 (x : nat) (l : list nat) : list nat :=
  match l with
  | [] => []
  | y :: t => if Nat.eqb x y then t else y :: remove1 x t
  end.

Definition apply_action (a : action) (l : list nat) : list nat :=
  match a with
  | Attach x => l ++ [x]
  | Detach x => remove1 x l
  end.

Definition apply_actions (acts : list action) (l : list nat) : list nat :=
  fold_left (fun l a => apply_action a l) acts l.

(* `observer in self.observers` *)
Definition mem (x : nat) (l : list nat) : bool := existsb (Nat.eqb x) l.

(* What the observers do inside update() during ONE notification: observer -> the attach /
   detach calls it makes, in order.  (An observer that is attached twice is updated twice and
   reacts the same way both times.) *)
Definition reaction := nat -> list action.

(* result of one notification: the observers updated, in order, and the list afterwards *)
Definition dispatcher := reaction -> list nat -> list nat * list nat.

(* ---- the current code ---- *)
Fixpoint dispatch_fixed_go (react : reaction) (snap cur : list nat) : list nat * list nat :=
  match snap with
  | [] => ([], cur)
  | o :: rest =>
      if mem o cur then
        let (u, fin) := dispatch_fixed_go react rest (apply_actions (react o) cur) in
        (o :: u, fin)
      else dispatch_fixed_go react rest cur
  end.

Definition dispatch_fixed : dispatcher := fun react l => dispatch_fixed_go react l l.

(* ---- the wrong repair: copy without membership test ---- *)
Fixpoint dispatch_snapshot_go (react : reaction) (snap cur : list nat) : list nat * list nat :=
  match snap with
  | [] => ([], cur)
  | o :: rest =>
      let (u, fin) := dispatch_snapshot_go react rest (apply_actions (react o) cur) in
      (o :: u, fin)
  end.

Definition dispatch_snapshot : dispatcher := fun react l => dispatch_snapshot_go react l l.

(* ---- the code before the fix: index into the live list ----
   An observer that attaches a new observer at every update makes the Python loop run for
   ever; hence the fuel ([None] = fuel exhausted).  Without attach actions [S (length l)] is
   enough. *)
Fixpoint dispatch_live_go (fuel : nat) (react : reaction) (i : nat) (cur : list nat)
  : option (list nat * list nat) :=
  match fuel with
  | 0 => None
  | S f =>
      match nth_error cur i with
      | None => Some ([], cur)
      | Some o =>
          match dispatch_live_go f react (S i) (apply_actions (react o) cur) with
          | Some (u, fin) => Some (o :: u, fin)
          | None => None
          end
      end
  end.

Definition dispatch_live (fuel : nat) (react : reaction) (l : list nat)
  : option (list nat * list nat) := dispatch_live_go fuel react 0 l.

(* as a [dispatcher]: when the fuel runs out nothing is reported *)
Definition dispatch_live_total (fuel : nat) : dispatcher :=
  fun react l => match dispatch_live fuel react l with Some r => r | None => ([], l) end.

(* ---- the list at the moment an observer is updated ----
   [u1] = the observers updated before it in this notification *)
Definition state_at (react : reaction) (l : list nat) (u1 : list nat) : list nat :=
  apply_actions (flat_map react u1) l.

(* u is l with some elements left out *)
Inductive subseq : list nat -> list nat -> Prop :=
| subseq_nil : subseq [] []
| subseq_skip : forall x u l, subseq u l -> subseq u (x :: l)
| subseq_take : forall x u l, subseq u l -> subseq (x :: u) (x :: l).

(* ---- the property of ONE notification, as predicates on a dispatcher ---- *)

(* "a detached observer receives nothing further": whoever is updated was attached when the
   notification started and is attached at the moment of its update *)
Definition detached_get_nothing (D : dispatcher) : Prop :=
  forall react l u1 o u2,
    fst (D react l) = u1 ++ o :: u2 ->
    In o l /\ In o (state_at react l u1).

(* nobody is skipped: attached at the start and detached by nobody during the notification *)
Definition nobody_skipped (D : dispatcher) : Prop :=
  forall react l o,
    In o l -> (forall p, ~ In (Detach o) (react p)) -> In o (fst (D react l)).

(* ---- sequences of notifications ----
   [react o k] = what observer o does inside its update for notification number k (global
   count of notifications, from 0); between notifications the application may attach / detach
   from outside ([Ext]). *)
Inductive step : Type :=
| Ext (a : action)
| Notify.

Fixpoint run_notifs (D : dispatcher) (react : nat -> nat -> list action) (k : nat)
         (steps : list step) (l : list nat) : list (list nat) * list nat :=
  match steps with
  | [] => ([], l)
  | Ext a :: rest => run_notifs D react k rest (apply_action a l)
  | Notify :: rest =>
      let (u, l') := D (fun o => react o k) l in
      let (us, fin) := run_notifs D react (S k) rest l' in
      (u :: us, fin)
  end.

Definition notifications (steps : list step) : nat :=
  length (filter (fun s => match s with Notify => true | Ext _ => false end) steps).

(* the notification numbers observer o receives, in order (k = number of the first entry of
   [us]; an observer updated twice in one notification receives that number twice) *)
Fixpoint received (o : nat) (k : nat) (us : list (list nat)) : list nat :=
  match us with
  | [] => []
  | u :: rest => repeat k (count_occ Nat.eq_dec u o) ++ received o (S k) rest
  end.

(* reaction functions given by a table (how the harness prints them): entries
   ((observer, notification number), actions); the first matching entry counts *)
Fixpoint react_of_table (t : list (nat * nat * list action)) (o k : nat) : list action :=
  match t with
  | [] => []
  | (o', k', acts) :: rest =>
      if Nat.eqb o o' && Nat.eqb k k' then acts else react_of_table rest o k
  end.

(* ---- computation examples ---- *)

(* 1 detaches itself: the current code still updates 2; the old loop skipped it *)
Example ex_fixed_self_detach :
  dispatch_fixed (fun o => if Nat.eqb o 1 then [Detach 1] else []) [1; 2] = ([1; 2], [2]).
Proof. reflexivity. Qed.

Example ex_live_self_detach :
  dispatch_live 5 (fun o => if Nat.eqb o 1 then [Detach 1] else []) [1; 2] = Some ([1], [2]).
Proof. reflexivity. Qed.

(* 1 detaches 2: the current code leaves 2 out; the copy without membership test does not *)
Example ex_fixed_detach_later :
  dispatch_fixed (fun o => if Nat.eqb o 1 then [Detach 2] else []) [1; 2; 3] = ([1; 3], [1; 3]).
Proof. reflexivity. Qed.

Example ex_snapshot_detach_later :
  dispatch_snapshot (fun o => if Nat.eqb o 1 then [Detach 2] else []) [1; 2; 3] = ([1; 2; 3], [1; 3]).
Proof. reflexivity. Qed.

(* an observer attached during the notification is not updated in it, but in the next one *)
Example ex_run_notifs :
  run_notifs dispatch_fixed
    (react_of_table [((1, 0), [Attach 4; Detach 2]); ((3, 1), [Detach 3; Attach 3])])
    0 [Ext (Attach 1); Ext (Attach 2); Ext (Attach 3); Notify; Notify; Ext (Detach 1); Notify] []
  = ([[1; 3]; [1; 3; 4]; [4; 3]], [4; 3]).
Proof. reflexivity. Qed.
