(* RunCase.v — executable glue for the correspondence check: a `run` case, running the
   reference semantics on it, and boolean equality of observable traces.  The harness
   writes cases and the implementation's traces as Gallina terms and evaluates
   [judge] with vm_compute.  Model support file. *)
From PFDL Require Export RefSem.

Record runcase := {
  rc_prog : program;
  rc_vals : list value;          (* answer to the k-th oracle call (last one repeats) *)
  rc_imm : list bool;            (* k-th service start completes immediately *)
  rc_script : list apicall;
  rc_react : list (option nat);  (* k-th notification to function 0: the engine completes the j-th
                                    pending service from inside it (NetModel only) *)
  rc_react_all : bool;           (* reactions also inside finished notifications *)
  rc_mutate : nat;               (* hostile engine mode (NetModel only; RefSem never shares lists) *)
  rc_test_ids : bool
}.

Definition orc_of (vals : list value) : oracle :=
  fun k _ => nth_error vals (Nat.min k (List.length vals - 1)).
Definition imm_of (l : list bool) : nat -> bool := fun k => nth k l false.

Definition default_fuel : nat := 3000.

(* the reference semantics does not describe completions of other services sent from inside
   notifications; such cases are outside it *)
Definition run_ref (c : runcase) : res (list callrec) :=
  if existsb (fun o => match o with Some _ => true | None => false end) (rc_react c) then Unsupported else
  rbind (unfold_program (p_tasks (rc_prog c)) 200) (fun body =>
  run_script (orc_of (rc_vals c)) (imm_of (rc_imm c)) default_fuel body sched0 (rc_script c)).

(* ---- boolean equalities ---- *)
Definition q_eqb (a b : Q) : bool := Qeq_bool a b.

Fixpoint json_eqb (a b : json) {struct a} : bool :=
  match a, b with
  | JNum x, JNum y => q_eqb x y
  | JBool x, JBool y => Bool.eqb x y
  | JStr x, JStr y => Nat.eqb x y
  | JObj fa, JObj fb =>
    (fix go (l1 : list (name * json)) (l2 : list (name * json)) : bool :=
       match l1, l2 with
       | [], [] => true
       | (k1, v1) :: t1, (k2, v2) :: t2 => Nat.eqb k1 k2 && json_eqb v1 v2 && go t1 t2
       | _, _ => false
       end) fa fb
  | JArr ea, JArr eb =>
    (fix go (l1 : list json) (l2 : list json) : bool :=
       match l1, l2 with
       | [], [] => true
       | v1 :: t1, v2 :: t2 => json_eqb v1 v2 && go t1 t2
       | _, _ => false
       end) ea eb
  | _, _ => false
  end.

Definition param_eqb (a b : param) : bool :=
  match a, b with
  | PVar x, PVar y => Nat.eqb x y
  | PPath x p, PPath y q => Nat.eqb x y && list_eqb pelem_eqb p q
  | PLit s j, PLit s' j' => Nat.eqb s s' && json_eqb j j'
  | _, _ => false
  end.

Definition site_eqb (a b : site) : bool :=
  Nat.eqb (st_task a) (st_task b) && list_eqb Nat.eqb (st_path a) (st_path b).

Definition notif_eqb (a b : notif) : bool :=
  nkind_eqb (n_kind a) (n_kind b) && Nat.eqb (n_name a) (n_name b) && site_eqb (n_site a) (n_site b)
  && Nat.eqb (n_id a) (n_id b) && option_eqb Nat.eqb (n_ctx a) (n_ctx b)
  && list_eqb param_eqb (n_params a) (n_params b).

Definition entry_eqb (a b : entry) : bool :=
  match a, b with
  | ENotif l x r, ENotif l' y r' => Nat.eqb l l' && notif_eqb x y && Bool.eqb r r'
  | EObs o k n i f, EObs o' k' n' i' f' =>
    Nat.eqb o o' && nkind_eqb k k' && Nat.eqb n n' && Nat.eqb i i' && Bool.eqb f f'
  | EQuery v c, EQuery v' c' => Nat.eqb v v' && Nat.eqb c c'
  | EFireIn i, EFireIn i' => Nat.eqb i i'
  | EFireOut i r, EFireOut i' r' => Nat.eqb i i' && Bool.eqb r r'
  | _, _ => false
  end.

Definition callrec_eqb (a b : callrec) : bool :=
  Bool.eqb (cr_ret a) (cr_ret b) && list_eqb entry_eqb (cr_log a) (cr_log b)
  && Bool.eqb (cr_running a) (cr_running b) && list_eqb Nat.eqb (cr_awaited a) (cr_awaited b)
  && Bool.eqb (cr_final a) (cr_final b).

(* index of the first call record that differs (for diagnostics) *)
Fixpoint first_diff (a b : list callrec) (i : nat) : option nat :=
  match a, b with
  | [], [] => None
  | x :: ta, y :: tb => if callrec_eqb x y then first_diff ta tb (S i) else Some i
  | _, _ => Some i
  end.

(* verdict codes: 0 = traces equal; 1 = traces differ; 2 = model out of fuel;
   3 = model predicts a Python exception; 4 = outside the model *)
Definition judge (c : runcase) (impl : list callrec) : nat * option nat :=
  match run_ref c with
  | Ok tr => match first_diff tr impl 0 with None => (0, None) | Some i => (1, Some i) end
  | Fuel => (2, None)
  | Exn _ => (3, None)
  | Unsupported => (4, None)
  end.
