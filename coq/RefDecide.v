(* RefDecide.v — every run of the reference semantics satisfies the decision-following monitor of
   MonitorsDecide.v (C04: exactly the selected branch of a Condition; C05: a While loop runs its
   body once per true evaluation of its guard, a counting loop enters iteration k iff k < the limit
   read before that test), for all schedules.  Proof file. *)
From PFDL Require Import RefSem RunCase Monitors MonitorsSeq MonitorsFork RefBase RefClosure RefShape
     RefC01 RefC07 RefC04 RefProgress RefC02 RefC03 RefMonitors Examples MonitorsDecide MonitorsParams.
From Coq Require Import Lia Permutation.

(* ===================================================================== *)
(* 1. the walk: more fuel never changes an answer                          *)
(* ===================================================================== *)
Section WalkFacts.
  Variable G : list nat -> gk.
  Variable orc : oracle.

  Lemma walk_mono : forall f,
      (forall pre i cn q r, walk G orc f pre i cn q = Some r -> forall k, walk G orc (f + k) pre i cn q = Some r) /\
      (forall pre cn q r, leave G orc f pre cn q = Some r -> forall k, leave G orc (f + k) pre cn q = Some r).
  Proof.
    induction f as [|f [IHw IHl]]; [split; intros; discriminate|]. split.
    - intros pre i cn q r H k. cbn [walk Nat.add] in *.
      destruct (G (pre ++ [i])) as [|n|lim|e|e|lim|]; try exact H.
      + destruct (Nat.eqb n 0); [apply IHw; exact H|exact H].
      + destruct (rlimit orc lim q) as [[N q']|]; [|discriminate]. destruct (Z.ltb 0 N); [exact H|apply IHw; exact H].
      + destruct (dec orc e q) as [[b q']|]; [|discriminate]. apply IHw. exact H.
      + destruct (dec orc e q) as [[[|] q']|]; [apply IHw; exact H|apply IHw; exact H|discriminate].
      + destruct (rlimit orc lim q) as [[N q']|]; [|discriminate]. destruct (Z.ltb 0 N); apply IHw; exact H.
      + apply IHl. exact H.
    - intros pre cn q r H k. cbn [leave Nat.add] in *.
      destruct (unsnoc pre) as [[pp x]|]; [|exact H].
      destruct (G pre) as [|n|lim|e|e|lim|];
        try (destruct (unsnoc pp) as [[pp2 x2]|]; [apply IHw; exact H|discriminate]).
      + destruct (dec orc e q) as [[[|] q']|]; [apply IHw; exact H|apply IHw; exact H|discriminate].
      + destruct (rlimit orc lim q) as [[N q']|]; [|discriminate].
        destruct (Z.ltb (Z.of_nat (S (getc pre cn))) N); apply IHw; exact H.
  Qed.

  Lemma walk_det : forall f f' pre i cn q r r',
      walk G orc f pre i cn q = Some r -> walk G orc f' pre i cn q = Some r' -> r = r'.
  Proof.
    intros f f' pre i cn q r r' H H'.
    pose proof (proj1 (walk_mono f) _ _ _ _ _ H f') as A. pose proof (proj1 (walk_mono f') _ _ _ _ _ H' f) as B.
    rewrite Nat.add_comm in B. congruence.
  Qed.
End WalkFacts.

(* ===================================================================== *)
(* 2. bodies whose positions carry their guards and limits                 *)
(* ===================================================================== *)
Section AllEnd.
  Variable A : Type.
  Variable P : nat -> A -> Prop.
  Variable E : nat -> Prop.
  Fixpoint all_end (i : nat) (l : list A) : Prop :=
    match l with
    | [] => E i
    | x :: r => P i x /\ all_end (S i) r
    end.
End AllEnd.
Arguments all_end {A} P E i l.

Lemma all_end_nth : forall A (P : nat -> A -> Prop) E l i0 i x,
    all_end P E i0 l -> nth_error l i = Some x -> P (i0 + i) x.
Proof.
  induction l as [|y l IH]; intros i0 i x H Hn; [destruct i; discriminate|].
  destruct H as [H1 H2]. destruct i as [|i]; cbn in Hn.
  - inv Hn. rewrite Nat.add_0_r. exact H1.
  - replace (i0 + S i) with (S i0 + i) by lia. eapply IH; eassumption.
Qed.

Lemma all_end_end : forall A (P : nat -> A -> Prop) E l i0 i,
    all_end P E i0 l -> nth_error l i = None -> List.length l <= i -> E (i0 + List.length l).
Proof.
  induction l as [|y l IH]; intros i0 i H Hn Hl; cbn [List.length].
  - rewrite Nat.add_0_r. exact H.
  - destruct H as [_ H2]. destruct i as [|i]; [discriminate|]. cbn in Hn, Hl.
    replace (i0 + S (List.length l)) with (S i0 + List.length l) by lia. eapply (IH _ i); [exact H2|exact Hn|lia].
Qed.

(* equations that [subst] leaves alone *)
Definition peq (a b : list param) : Prop := a = b.

Section Guarded.
  Variable GK : name -> list nat -> gk.
  Variable INS : name -> list nat -> list param.
  Variable LV : name -> list nat -> option name.

  Fixpoint guarded (tn : name) (q : list nat) (s : xstmt) {struct s} : Prop :=
    match s with
    | XService _ at_ ins => at_ = mksite tn q /\ GK tn q = GLeaf /\ peq (INS tn q) ins /\ LV tn q = None
    | XCall t at_ ins body =>
      at_ = mksite tn q /\ GK tn q = GLeaf /\ GK t [] = GNone /\
      all_end (fun i s1 => guarded t ([] ++ [i]) s1) (fun i => GK t ([] ++ [i]) = GNone) 0 body /\
      peq (INS tn q) ins /\ LV tn q = None
    | XParallel bs =>
      GK tn q = GPar (List.length bs) /\ all_from (fun j b => is_call b = true /\ guarded tn (q ++ [j]) b) 0 bs /\
      LV tn q = None
    | XCond e p f =>
      GK tn q = GCond e /\ GK tn (q ++ [0]) = GNone /\ GK tn (q ++ [1]) = GNone /\
      all_end (fun i s1 => guarded tn ((q ++ [0]) ++ [i]) s1) (fun i => GK tn ((q ++ [0]) ++ [i]) = GNone) 0 p /\
      all_end (fun i s1 => guarded tn ((q ++ [1]) ++ [i]) s1) (fun i => GK tn ((q ++ [1]) ++ [i]) = GNone) 0 f /\
      LV tn q = None /\ LV tn (q ++ [0]) = None /\ LV tn (q ++ [1]) = None
    | XWhile e b =>
      GK tn q = GWhile e /\ all_end (fun i s1 => guarded tn (q ++ [i]) s1) (fun i => GK tn (q ++ [i]) = GNone) 0 b /\
      LV tn q = None
    | XCount v lim b =>
      GK tn q = GCount lim /\ all_end (fun i s1 => guarded tn (q ++ [i]) s1) (fun i => GK tn (q ++ [i]) = GNone) 0 b /\
      LV tn q = Some v
    | XParLoop v lim c => GK tn q = GPLoop lim /\ is_call c = true /\ guarded tn (q ++ [0]) c /\ LV tn q = Some v
    end.

  Definition gblock (tn : name) (pre : list nat) (ss : list xstmt) : Prop :=
    all_end (fun i s1 => guarded tn (pre ++ [i]) s1) (fun i => GK tn (pre ++ [i]) = GNone) 0 ss.

  Definition guarded_body (body : list xstmt) : Prop := GK production_task [] = GNone /\ gblock production_task [] body.

  Lemma gblock_nth : forall tn pre ss i s, gblock tn pre ss -> nth_error ss i = Some s -> guarded tn (pre ++ [i]) s.
  Proof. intros tn pre ss i s H Hn. exact (all_end_nth _ _ _ _ 0 i s H Hn). Qed.

  Lemma gblock_end : forall tn pre ss i, gblock tn pre ss -> nth_error ss i = None -> List.length ss <= i ->
                                         GK tn (pre ++ [List.length ss]) = GNone.
  Proof. intros tn pre ss i H Hn Hl. exact (all_end_end _ _ _ _ 0 i H Hn Hl). Qed.
End Guarded.

(* ===================================================================== *)
(* 3. the monitor with enough fuel                                         *)
(* ===================================================================== *)
Section Ideal.
  Variable GK : name -> list nat -> gk.
  Variable orc : oracle.
  Variable chk : drec -> notif -> bool.

  (* one entry is accepted, with some amount of fuel, without giving up *)
  Definition istep (M : dst) (e : entry) (M' : dst) : Prop :=
    ds_lost M = false /\ ds_lost M' = false /\ exists f, dec_entry GK orc chk f M e = Some M'.

  Inductive ilog : dst -> list entry -> dst -> Prop :=
  | il_nil : forall M, ds_lost M = false -> ilog M [] M
  | il_cons : forall M e M1 l M2, istep M e M1 -> ilog M1 l M2 -> ilog M (e :: l) M2.

  Lemma ilog_lost : forall M l M', ilog M l M' -> ds_lost M = false /\ ds_lost M' = false.
  Proof.
    induction 1 as [M H|M e M1 l M2 (H1 & H2 & _) _ [_ IH]]; [split; exact H|split; assumption].
  Qed.

  Lemma ilog_app : forall M a M1 b M2, ilog M a M1 -> ilog M1 b M2 -> ilog M (a ++ b) M2.
  Proof. induction 1; intro H2; cbn [app]; [exact H2|econstructor; [eassumption|auto]]. Qed.

  Lemma ilog_one : forall M e M', istep M e M' -> ilog M [e] M'.
  Proof. intros M e M' H. econstructor; [exact H|]. constructor. apply H. Qed.

  Lemma istep_skip : forall M e, ds_lost M = false ->
      match e with ENotif 0 _ _ | EQuery _ _ => False | _ => True end -> istep M e M.
  Proof.
    intros M e Hl He. split; [exact Hl|]. split; [exact Hl|]. exists 0. unfold dec_entry. rewrite Hl.
    destruct e as [[|l] n r| | | |]; try contradiction; reflexivity.
  Qed.

  (* the entries of one notification *)
  Lemma ilog_notif : forall new n M M',
      Forall noq new -> map fst (ee_notifs new) = [n] ->
      (forall r, istep M (ENotif 0 n r) M') -> ilog M new M'.
  Proof.
    induction new as [|e new IH]; intros n M M' Hq Hn Hs; [discriminate|].
    inversion Hq as [|? ? He Hr]; subst. rewrite ee_cons in Hn.
    destruct e as [[|l] n0 r|o kk nm id fl|v cc|fi|fi fr]; cbn [app map fst] in Hn; try contradiction.
    - inv Hn. econstructor; [apply Hs|].
      assert (Hl' : ds_lost M' = false) by (destruct (Hs r) as (_ & X & _); exact X).
      clear - Hr H1 Hl'. revert Hr H1. induction new as [|e new IH]; intros Hr H1; [constructor; exact Hl'|].
      inversion Hr as [|? ? He Hr']; subst. rewrite ee_cons in H1.
      destruct e as [[|l] n0 r|o kk nm id fl|v cc|fi|fi fr]; cbn [app map fst] in H1; try contradiction; try discriminate;
        (econstructor; [apply istep_skip; [exact Hl'|exact I]|apply IH; assumption]).
    - econstructor; [apply istep_skip; [destruct (Hs true) as (X & _); exact X|exact I]|]. eapply IH; eassumption.
    - econstructor; [apply istep_skip; [destruct (Hs true) as (X & _); exact X|exact I]|]. eapply IH; eassumption.
    - econstructor; [apply istep_skip; [destruct (Hs true) as (X & _); exact X|exact I]|]. eapply IH; eassumption.
    - econstructor; [apply istep_skip; [destruct (Hs true) as (X & _); exact X|exact I]|]. eapply IH; eassumption.
  Qed.

  (* the monitor has read the log of [g] from [M0] and is at [M]; its query count is the oracle counter *)
  Definition DQ (M0 : dst) (g : G) (M : dst) : Prop := ilog M0 (rev (g_log g)) M /\ ds_q M = g_q g.

  Lemma DQ_new : forall M0 g g' M M' new,
      DQ M0 g M -> g_log g' = rev new ++ g_log g -> ilog M new M' -> ds_q M' = g_q g' -> DQ M0 g' M'.
  Proof.
    intros M0 g g' M M' new (H1 & H2) Hl Hn Hq. split; [|exact Hq].
    rewrite Hl, rev_app_distr, rev_involutive. eapply ilog_app; eassumption.
  Qed.

  Lemma DQ_same : forall M0 g g' M, DQ M0 g M -> g_log g' = g_log g -> g_q g' = g_q g -> DQ M0 g' M.
  Proof. intros M0 g g' M (H1 & H2) Hl Hq. split; [rewrite Hl; exact H1|congruence]. Qed.

  Lemma DQ_lost : forall M0 g M, DQ M0 g M -> ds_lost M = false.
  Proof. intros M0 g M (H & _). apply (ilog_lost _ _ _ H). Qed.

  Lemma DQ_emit : forall M0 n flag g u g' M M',
      emit_gen n flag g = Ok (u, g') -> lst_all (g_ls g) -> DQ M0 g M ->
      (forall r, istep M (ENotif 0 n r) M') -> ds_q M' = ds_q M -> DQ M0 g' M'.
  Proof.
    intros M0 n flag g u g' M M' H Hl HQ Hs Hq.
    destruct (emit_new _ _ _ _ _ H Hl) as (new & H1 & H2 & H3).
    apply emit_gen_facts in H. destruct H as (_ & _ & _ & _ & _ & _ & H7 & _).
    eapply DQ_new; [exact HQ|exact H1|eapply ilog_notif; eassumption|]. rewrite Hq, H7. apply HQ.
  Qed.

  (* a query in the context of instance c *)
  Definition qnote (c : nat) (M : dst) : dst :=
    {| ds_recs := note_query c (ds_q M) (ds_recs M); ds_q := S (ds_q M); ds_lost := false |}.

  Lemma istep_query : forall M v c, ds_lost M = false -> istep M (EQuery v c) (qnote c M).
  Proof. intros M v c Hl. split; [exact Hl|]. split; [reflexivity|]. exists 0. unfold dec_entry. rewrite Hl. reflexivity. Qed.
End Ideal.

(* ===================================================================== *)
(* 4. records and single events                                            *)
(* ===================================================================== *)
Definition grec (c : nat) (M : dst) : option drec := assoc c (ds_recs M).

Lemma assoc_setr_same : forall c r l, assoc c (setr c r l) = Some r.
Proof. intros. unfold setr. cbn [assoc]. rewrite Nat.eqb_refl. reflexivity. Qed.

Lemma assoc_setr_other : forall c k r l, k <> c -> assoc k (setr c r l) = assoc k l.
Proof.
  intros c k r l H. unfold setr. cbn [assoc]. assert (Nat.eqb k c = false) as -> by (apply Nat.eqb_neq; exact H).
  apply assoc_dropk_other. exact H.
Qed.

Lemma assoc_touch_other : forall c k l, k <> c -> assoc k (touch_rec c l) = assoc k l.
Proof. intros c k l H. unfold touch_rec. destruct (assoc c l); [apply assoc_setr_other; exact H|reflexivity]. Qed.

Lemma assoc_touch_same : forall c l r, assoc c l = Some r -> assoc c (touch_rec c l) = Some (clear_first r).
Proof. intros c l r H. unfold touch_rec. rewrite H. apply assoc_setr_same. Qed.

Lemma assoc_note_other : forall c k q l, k <> c -> assoc k (note_query c q l) = assoc k l.
Proof.
  intros c k q l H. unfold note_query. destruct (assoc c l) as [r|]; [|reflexivity].
  destruct (d_first r); [reflexivity|apply assoc_setr_other; exact H].
Qed.

Definition noted (q : nat) (r : drec) : drec :=
  match d_first r with
  | Some _ => r
  | None => {| d_task := d_task r; d_last := d_last r; d_cnt := d_cnt r; d_more := d_more r; d_first := Some q |}
  end.

Lemma assoc_note_same : forall c q l r, assoc c l = Some r -> assoc c (note_query c q l) = Some (noted q r).
Proof.
  intros c q l r H. unfold note_query, noted. rewrite H. destruct (d_first r); [exact H|apply assoc_setr_same].
Qed.

Section Events.
  Variable GK : name -> list nat -> gk.
  Variable orc : oracle.
  Variable chk : drec -> notif -> bool.

  Definition start_upd (M : dst) (tk : bool) (n : notif) (c : nat) (r' : drec) : dst :=
    {| ds_recs := (if tk then setr (n_id n) (new_rec (n_name n)) else fun l => l) (setr c r' (ds_recs M));
       ds_q := ds_q M; ds_lost := false |}.

  Lemma istart_walk : forall M (tk : bool) n c r tn p cn more,
      ds_lost M = false -> n_kind n = (if tk then TS else SS) -> n_ctx n = Some c -> n_site n = mksite tn p ->
      grec c M = Some r -> d_task r = tn -> d_more r = 0 ->
      (exists f, expect GK orc f r (ds_q M) = Some (Some (Some p, cn, ds_q M, more))) ->
      chk {| d_task := tn; d_last := Some p; d_cnt := cn; d_more := more; d_first := None |} n = true ->
      forall rr, istep GK orc chk M (ENotif 0 n rr)
                       (start_upd M tk n c {| d_task := tn; d_last := Some p; d_cnt := cn; d_more := more; d_first := None |}).
  Proof.
    intros M tk n c r tn p cn more Hl Hk Hc Hs Hr Ht Hm (f & Hf) Hchk rr. subst tn. split; [exact Hl|]. split; [reflexivity|].
    exists f. unfold dec_entry. rewrite Hl. unfold dec_notif. unfold grec in Hr.
    assert (E : on_start GK orc f r p (ds_q M) =
                Next {| d_task := d_task r; d_last := Some p; d_cnt := cn; d_more := more; d_first := None |}).
    { unfold on_start. rewrite Hm, Hf. cbn [option_eqb]. rewrite list_eqb_refl_nat, Nat.eqb_refl. reflexivity. }
    destruct tk; rewrite Hk, Hc, Hr, Hs; cbn [mksite st_task st_path]; rewrite Nat.eqb_refl; cbn [negb];
      rewrite E, Hchk; reflexivity.
  Qed.

  Lemma istart_sib : forall M n c r tn t p m,
      ds_lost M = false -> n_kind n = TS -> n_ctx n = Some c -> n_site n = mksite tn p ->
      grec c M = Some r -> d_task r = tn -> d_more r = S m -> d_last r = Some t -> d_first r = None ->
      sibling (GK tn) t = Some p ->
      chk {| d_task := tn; d_last := Some p; d_cnt := sib_cnt (GK tn) t (d_cnt r); d_more := m; d_first := None |} n = true ->
      forall rr, istep GK orc chk M (ENotif 0 n rr)
                       (start_upd M true n c {| d_task := tn; d_last := Some p; d_cnt := sib_cnt (GK tn) t (d_cnt r); d_more := m; d_first := None |}).
  Proof.
    intros M n c r tn t p m Hl Hk Hc Hs Hr Ht Hm Hla Hfi Hsib Hchk rr. subst tn. split; [exact Hl|]. split; [reflexivity|].
    exists 0. unfold dec_entry. rewrite Hl. unfold dec_notif. unfold grec in Hr.
    rewrite Hk, Hc, Hr, Hs. cbn [mksite st_task st_path]. rewrite Nat.eqb_refl. cbn [negb].
    unfold on_start. rewrite Hm, Hla, Hsib, Hfi. cbn [option_eqb is_none]. rewrite list_eqb_refl_nat. cbn [andb]. rewrite Hchk. reflexivity.
  Qed.

  Definition fin_upd (M : dst) (n : notif) : dst :=
    {| ds_recs := match n_ctx n with Some c => touch_rec c (ds_recs M) | None => ds_recs M end;
       ds_q := ds_q M; ds_lost := false |}.

  Lemma iend : forall M n r cn more,
      ds_lost M = false -> n_kind n = TF -> grec (n_id n) M = Some r -> d_more r = 0 ->
      (exists f, expect GK orc f r (ds_q M) = Some (Some (None, cn, ds_q M, more))) ->
      forall rr, istep GK orc chk M (ENotif 0 n rr) (fin_upd M n).
  Proof.
    intros M n r cn more Hl Hk Hr Hm (f & Hf) rr. split; [exact Hl|]. split; [reflexivity|].
    exists f. unfold dec_entry. rewrite Hl. unfold dec_notif. unfold grec in Hr. rewrite Hk, Hr.
    unfold on_end. rewrite Hm, Hf. cbn [option_eqb]. rewrite Nat.eqb_refl. reflexivity.
  Qed.

  Lemma isf : forall M n, ds_lost M = false -> n_kind n = SF -> forall rr, istep GK orc chk M (ENotif 0 n rr) (fin_upd M n).
  Proof.
    intros M n Hl Hk rr. split; [exact Hl|]. split; [reflexivity|]. exists 0. unfold dec_entry. rewrite Hl.
    unfold dec_notif. rewrite Hk. reflexivity.
  Qed.

  Lemma iroot : forall M n, ds_lost M = false -> n_kind n = TS -> n_ctx n = None ->
      forall rr, istep GK orc chk M (ENotif 0 n rr)
                       {| ds_recs := setr (n_id n) (new_rec (n_name n)) (ds_recs M); ds_q := ds_q M; ds_lost := false |}.
  Proof.
    intros M n Hl Hk Hc rr. split; [exact Hl|]. split; [reflexivity|]. exists 0. unfold dec_entry. rewrite Hl.
    unfold dec_notif. rewrite Hk, Hc. reflexivity.
  Qed.
End Events.

(* ===================================================================== *)
(* 5. the task instances of a state tree                                   *)
(* ===================================================================== *)
Fixpoint cids (st : rst) : list nat :=
  match st with
  | RCall id _ s => id :: cids s
  | RPar sts | RParLoop sts => flat_map cids sts
  | RCond _ _ s | RLoop _ _ s => cids s
  | _ => []
  end.
Definition cids_opt (r : option (nat * rst)) : list nat := match r with Some (_, st) => cids st | None => [] end.

Definition inrange (a b : nat) (l : list nat) : Prop := forall x, In x l -> a <= x < b.

Lemma NoDup_app_ranges : forall (l1 l2 : list nat) a b c,
    NoDup l1 -> NoDup l2 -> inrange a b l1 -> inrange b c l2 -> NoDup (l1 ++ l2).
Proof.
  induction l1 as [|x l1 IH]; intros l2 a b c H1 H2 R1 R2; [exact H2|]. inversion H1; subst. cbn. constructor.
  - intro Hi. apply in_app_iff in Hi. destruct Hi as [Hi|Hi]; [contradiction|].
    specialize (R1 x (or_introl eq_refl)). specialize (R2 x Hi). lia.
  - eapply IH; try eassumption. intros y Hy. apply R1. right. exact Hy.
Qed.

Lemma inrange_app : forall a b c l1 l2, a <= b -> b <= c -> inrange a b l1 -> inrange b c l2 -> inrange a c (l1 ++ l2).
Proof.
  intros a b c l1 l2 H1 H2 R1 R2 x Hx. apply in_app_iff in Hx. destruct Hx as [Hx|Hx]; [specialize (R1 x Hx)|specialize (R2 x Hx)]; lia.
Qed.

Lemma inrange_mono : forall a b a' b' l, inrange a b l -> a' <= a -> b <= b' -> inrange a' b' l.
Proof. intros a b a' b' l H H1 H2 x Hx. specialize (H x Hx). lia. Qed.

Section Cids.
  Variable orc : oracle.
  Variable imm : nat -> bool.

  Lemma all_done_cids : forall sts, all_done sts = true -> flat_map cids sts = [].
  Proof.
    induction sts as [|s sts IH]; [reflexivity|]. cbn. intro H. apply andb_true_iff in H. destruct H as [H1 H2].
    destruct s; try discriminate. cbn. apply IH. exact H2.
  Qed.

  Lemma start_cids : forall f,
      (forall ctx ie s g st g', start_stmt orc imm f ctx ie s g = Ok (st, g') ->
                                NoDup (cids st) /\ inrange (g_tid g) (g_tid g') (cids st)) /\
      (forall ctx ie ss i g r g', run_block orc imm f ctx ie ss i g = Ok (r, g') ->
                                  NoDup (cids_opt r) /\ inrange (g_tid g) (g_tid g') (cids_opt r)) /\
      (forall ctx l g sts g', start_list orc imm f ctx l g = Ok (sts, g') ->
                              NoDup (flat_map cids sts) /\ inrange (g_tid g) (g_tid g') (flat_map cids sts)) /\
      (forall ctx ie s k g st g', loop_test orc imm f ctx ie s k g = Ok (st, g') ->
                                  NoDup (cids st) /\ inrange (g_tid g) (g_tid g') (cids st)).
  Proof.
    induction f as [|f IH]; [split; [|split; [|split]]; intros; discriminate|].
    destruct IH as (IHs & IHb & IHl & IHt).
    assert (NIL : forall a b, NoDup (@nil nat) /\ inrange a b []) by (intros; split; [constructor|intros x []]).
    split; [|split; [|split]].
    - intros ctx ie s g st g' H. cbn [start_stmt] in H.
      destruct s as [n at_ ins|t at_ ins body|bs|e p fl|e b|v lim b|v lim c].
      + mstep as id g1 E1. mstep as u2 g2 E2. mstep as u3 g3 E3. mstep as k g4 E4.
        destruct (imm k); [mstep as u5 g5 E5; mstep as u6 g6 E6|]; mstep; apply NIL.
      + mstep as id g1 E1. mstep as u2 g2 E2.
        destruct (tstart_N _ _ _ _ _ _ _ _ _ E1 E2) as (-> & B1 & B2 & B3 & _).
        mstep as r g3 E3. pose proof (Eff_Fr _ _ _ (proj1 (proj2 (start_eff orc imm f)) _ _ _ _ _ _ _ E3)) as (_ & F2 & _).
        destruct (IHb _ _ _ _ _ _ _ E3) as (N1 & R1). rewrite B2 in R1, F2.
        destruct r as [[i sti]|].
        * mstep. cbn [cids cids_opt] in *. split.
          -- constructor; [|exact N1]. intro Hi. specialize (R1 _ Hi). lia.
          -- intros x [<-|Hx]; [lia|]. specialize (R1 _ Hx). lia.
        * mstep as u4 g4 E4. destruct (emit_frame _ _ _ _ _ E4) as (_ & C2 & _). mstep. apply NIL.
      + mstep as sts g1 E1. destruct (IHl _ _ _ _ _ E1) as (N1 & R1).
        destruct (all_done sts) eqn:D; mstep; [apply NIL|]. cbn [cids]. split; assumption.
      + mstep as bb g1 E1. pose proof (Eff_Fr _ _ _ (decide_m_eff _ _ _ _ _ _ E1)) as (_ & F2 & _).
        mstep as r g2 E2. destruct (IHb _ _ _ _ _ _ _ E2) as (N1 & R1).
        destruct r as [[i sti]|]; mstep; [|apply NIL]. cbn [cids cids_opt] in *. split; [exact N1|].
        eapply inrange_mono; [exact R1|exact F2|lia].
      + eapply IHt; eassumption.
      + eapply IHt; eassumption.
      + mstep as n g1 E1. pose proof (Eff_Fr _ _ _ (read_limit_eff _ _ _ _ _ _ E1)) as (_ & F2 & _).
        mstep as sts g2 E2. destruct (IHl _ _ _ _ _ E2) as (N1 & R1).
        destruct (all_done sts) eqn:D; mstep; [apply NIL|]. cbn [cids]. split; [exact N1|].
        eapply inrange_mono; [exact R1|exact F2|lia].
    - intros ctx ie ss i g r g' H. cbn [run_block] in H.
      destruct (nth_error ss i) as [s1|]; [|mstep; apply NIL].
      mstep as st g1 E1. pose proof (Eff_Fr _ _ _ (proj1 (start_eff orc imm f) _ _ _ _ _ _ E1)) as (_ & F2 & _).
      destruct (IHs _ _ _ _ _ _ E1) as (N1 & R1).
      destruct (is_done st) eqn:D.
      + pose proof (Eff_Fr _ _ _ (proj1 (proj2 (start_eff orc imm f)) _ _ _ _ _ _ _ H)) as (_ & G2 & _).
        destruct (IHb _ _ _ _ _ _ _ H) as (N2 & R2). split; [exact N2|]. eapply inrange_mono; [exact R2|exact F2|lia].
      + pose proof (Eff_Fr _ _ _ (proj1 (start_eff orc imm f) _ _ _ _ _ _ E1)). mstep. cbn [cids_opt]. split; assumption.
    - intros ctx l g sts g' H. cbn [start_list] in H.
      destruct l as [|[ie b] r]; [mstep; apply NIL|].
      mstep as st g1 E1. pose proof (Eff_Fr _ _ _ (proj1 (start_eff orc imm f) _ _ _ _ _ _ E1)) as (_ & F2 & _).
      destruct (IHs _ _ _ _ _ _ E1) as (N1 & R1).
      mstep as sts1 g2 E2. pose proof (Eff_Fr _ _ _ (proj1 (proj2 (proj2 (start_eff orc imm f))) _ _ _ _ _ E2)) as (_ & G2 & _).
      destruct (IHl _ _ _ _ _ E2) as (N2 & R2). mstep. cbn [flat_map]. split.
      + eapply NoDup_app_ranges; eassumption.
      + eapply inrange_app; eassumption.
    - intros ctx ie s k g st g' H. cbn [loop_test] in H.
      destruct s as [n at_ ins|t at_ ins body|bs|e p fl|e b|v lim b|v lim c]; try discriminate.
      + mstep as bb g1 E1. pose proof (Eff_Fr _ _ _ (decide_m_eff _ _ _ _ _ _ E1)) as (_ & F2 & _).
        destruct bb; [|mstep; apply NIL].
        mstep as r g2 E2. pose proof (Eff_Fr _ _ _ (proj1 (proj2 (start_eff orc imm f)) _ _ _ _ _ _ _ E2)) as (_ & G2 & _).
        destruct (IHb _ _ _ _ _ _ _ E2) as (N1 & R1).
        destruct r as [[i sti]|].
        * mstep. cbn [cids cids_opt] in *. split; [exact N1|]. eapply inrange_mono; [exact R1|exact F2|lia].
        * pose proof (Eff_Fr _ _ _ (proj2 (proj2 (proj2 (start_eff orc imm f))) _ _ _ _ _ _ _ H)) as (_ & K2 & _).
          destruct (IHt _ _ _ _ _ _ _ H) as (N2 & R2). split; [exact N2|]. eapply inrange_mono; [exact R2|lia|lia].
      + mstep as n g1 E1. pose proof (Eff_Fr _ _ _ (read_limit_eff _ _ _ _ _ _ E1)) as (_ & F2 & _).
        destruct (Z.of_nat k <? n)%Z; [|mstep; apply NIL].
        mstep as r g2 E2. pose proof (Eff_Fr _ _ _ (proj1 (proj2 (start_eff orc imm f)) _ _ _ _ _ _ _ E2)) as (_ & G2 & _).
        destruct (IHb _ _ _ _ _ _ _ E2) as (N1 & R1).
        destruct r as [[i sti]|].
        * mstep. cbn [cids cids_opt] in *. split; [exact N1|]. eapply inrange_mono; [exact R1|exact F2|lia].
        * pose proof (Eff_Fr _ _ _ (proj2 (proj2 (proj2 (start_eff orc imm f))) _ _ _ _ _ _ _ H)) as (_ & K2 & _).
          destruct (IHt _ _ _ _ _ _ _ H) as (N2 & R2). split; [exact N2|]. eapply inrange_mono; [exact R2|lia|lia].
  Qed.
End Cids.

Ltac sinv := match goal with Hx : Some _ = Some _ |- _ => inversion Hx; subst; clear Hx end.

Lemma NoDup_app_l' : forall A (a b : list A), NoDup (a ++ b) -> NoDup a.
Proof.
  induction a as [|x a IH]; intros b H; [constructor|]. inversion H; subst. constructor.
  - intro Hi. apply H2. apply in_or_app. left. exact Hi.
  - eapply IH. eassumption.
Qed.

Section CidsD.
  Variable orc : oracle.
  Variable imm : nat -> bool.

  Definition dcok (g g' : G) (old new : list nat) : Prop :=
    NoDup new /\ forall x, In x new -> In x old \/ (g_tid g <= x < g_tid g').

  Lemma dcok_disj : forall g g' old new other,
      dcok g g' old new -> NoDup (old ++ other) -> (forall x, In x other -> x < g_tid g) -> NoDup (new ++ other).
  Proof.
    intros g g' old new other (N1 & R1) N2 Hlt.
    assert (No : NoDup other) by (eapply NoDup_app_r; exact N2).
    clear - N1 R1 N2 Hlt No. induction new as [|x new IH]; [exact No|]. inversion N1; subst. cbn. constructor.
    - intro Hi. apply in_app_iff in Hi. destruct Hi as [Hi|Hi]; [contradiction|].
      destruct (R1 x (or_introl eq_refl)) as [Ho|Hr].
      + eapply (RefC07.NoDup_app_disj _ _ x N2); eassumption.
      + specialize (Hlt x Hi). lia.
    - apply IH; [assumption|]. intros y Hy. apply R1. right. exact Hy.
  Qed.

  Lemma deliver_cids : forall f,
      (forall ctx ie s st id g st' g', deliver orc imm f ctx ie s st id g = Ok (Some st', g') ->
            NoDup (cids st) -> (forall x, In x (cids st) -> x < g_tid g) -> dcok g g' (cids st) (cids st')) /\
      (forall ctx ie ss i sti id g r' g', deliver_block orc imm f ctx ie ss i sti id g = Ok (Some r', g') ->
            NoDup (cids sti) -> (forall x, In x (cids sti) -> x < g_tid g) -> dcok g g' (cids sti) (cids_opt r')) /\
      (forall ctx l sts id g sts' g', deliver_list orc imm f ctx l sts id g = Ok (Some sts', g') ->
            NoDup (flat_map cids sts) -> (forall x, In x (flat_map cids sts) -> x < g_tid g) ->
            dcok g g' (flat_map cids sts) (flat_map cids sts')).
  Proof.
    induction f as [|f IH]; [split; [|split]; intros; discriminate|].
    destruct IH as (IHd & IHb & IHl).
    assert (NIL : forall g g' old, dcok g g' old []) by (intros; split; [constructor|intros x []]).
    assert (FRESH : forall g g1 g' old new, dcok g g1 old [] -> g_tid g <= g_tid g1 ->
                     NoDup new -> inrange (g_tid g1) (g_tid g') new -> dcok g g' old new).
    { intros g g1 g' old new _ Hle N R. split; [exact N|]. intros x Hx. right. specialize (R x Hx). lia. }
    split; [|split].
    - intros ctx ie s st id g st' g' H ND Hlt. cbn [deliver] in H.
      destruct s as [n at_ ins|t at_ ins body|bs|e p fl|e b|v lim b|v lim c];
        destruct st as [|id'|cid i sti|sts|bb i sti|k i sti|sts]; try (mstep; discriminate).
      + destruct (Nat.eqb id id'); [mstep as u g1 E1|]; mstep; [|discriminate]. subst. apply NIL.
      + mstep as r1 g1 E1. cbn [cids] in ND, Hlt. inversion ND as [|? ? Hn ND']; subst.
        destruct r1 as [[[j st1]|]|]; [| |mstep; discriminate].
        * mstep. subst. destruct (IHb _ _ _ _ _ _ _ _ _ E1 ND' (fun x Hx => Hlt x (or_intror Hx))) as (N1 & R1).
          cbn [cids cids_opt] in *. split.
          -- constructor; [|exact N1]. intro Hi. destruct (R1 _ Hi) as [Ho|Hr]; [contradiction|].
             specialize (Hlt cid (or_introl eq_refl)). lia.
          -- intros x [<-|Hx]; [left; left; reflexivity|]. destruct (R1 x Hx) as [Ho|Hr]; [left; right; exact Ho|right; exact Hr].
        * mstep as u g2 E2. mstep. subst. apply NIL.
      + mstep as r1 g1 E1. destruct r1 as [sts'|]; [|mstep; discriminate]. cbn [cids] in ND, Hlt.
        destruct (IHl _ _ _ _ _ _ _ E1 ND Hlt) as (N1 & R1).
        destruct (all_done sts') eqn:D; mstep; subst; [apply NIL|]. cbn [cids]. split; assumption.
      + mstep as r1 g1 E1. cbn [cids] in ND, Hlt.
        destruct r1 as [[[j st1]|]|]; mstep; try discriminate; subst; [|apply NIL].
        exact (IHb _ _ _ _ _ _ _ _ _ E1 ND Hlt).
      + mstep as r1 g1 E1. cbn [cids] in ND, Hlt.
        destruct r1 as [[[j st1]|]|]; [| |mstep; discriminate].
        * mstep. subst. exact (IHb _ _ _ _ _ _ _ _ _ E1 ND Hlt).
        * pose proof (proj1 (proj2 (deliver_eff orc imm f)) _ _ _ _ _ _ _ _ _ E1) as DE. cbn [dres] in DE.
          mstep as st2 g2 E2. mstep. subst.
          destruct (proj2 (proj2 (proj2 (start_cids orc imm f))) _ _ _ _ _ _ _ E2) as (N2 & R2).
          eapply FRESH; [apply NIL|exact (d_tid _ _ _ _ DE)|exact N2|exact R2].
      + mstep as r1 g1 E1. cbn [cids] in ND, Hlt.
        destruct r1 as [[[j st1]|]|]; [| |mstep; discriminate].
        * mstep. subst. exact (IHb _ _ _ _ _ _ _ _ _ E1 ND Hlt).
        * pose proof (proj1 (proj2 (deliver_eff orc imm f)) _ _ _ _ _ _ _ _ _ E1) as DE. cbn [dres] in DE.
          mstep as st2 g2 E2. mstep. subst.
          destruct (proj2 (proj2 (proj2 (start_cids orc imm f))) _ _ _ _ _ _ _ E2) as (N2 & R2).
          eapply FRESH; [apply NIL|exact (d_tid _ _ _ _ DE)|exact N2|exact R2].
      + mstep as r1 g1 E1. destruct r1 as [sts'|]; [|mstep; discriminate]. cbn [cids] in ND, Hlt.
        destruct (IHl _ _ _ _ _ _ _ E1 ND Hlt) as (N1 & R1).
        destruct (all_done sts') eqn:D; mstep; subst; [apply NIL|]. cbn [cids]. split; assumption.
    - intros ctx ie ss i sti id g r' g' H ND Hlt. cbn [deliver_block] in H.
      destruct (nth_error ss i) as [s1|]; [|mstep; discriminate].
      mstep as r1 g1 E1. destruct r1 as [st1|]; [|mstep; discriminate].
      pose proof (IHd _ _ _ _ _ _ _ _ E1 ND Hlt) as D1.
      destruct (is_done st1) eqn:D.
      + pose proof (proj1 (deliver_eff orc imm f) _ _ _ _ _ _ _ _ E1) as DE. cbn [dres] in DE.
        mstep as r2 g2 E2. mstep. subst.
        destruct (proj1 (proj2 (start_cids orc imm f)) _ _ _ _ _ _ _ E2) as (N2 & R2).
        eapply FRESH; [apply NIL|exact (d_tid _ _ _ _ DE)|exact N2|exact R2].
      + mstep. subst. exact D1.
    - intros ctx l sts id g sts' g' H ND Hlt. cbn [deliver_list] in H.
      destruct l as [|[ie b] br]; [mstep; discriminate|]. destruct sts as [|st sr]; [mstep; discriminate|].
      cbn [flat_map] in ND, Hlt.
      mstep as r1 g1 E1. destruct r1 as [st1|].
      + mstep. subst. cbn [flat_map].
        pose proof (IHd _ _ _ _ _ _ _ _ E1 (NoDup_app_l' _ _ _ ND) (fun x Hx => Hlt x (in_or_app _ _ _ (or_introl Hx)))) as D1.
        split.
        * eapply dcok_disj; [exact D1|exact ND|]. intros x Hx. apply Hlt. apply in_or_app. right. exact Hx.
        * intros x Hx. apply in_app_iff in Hx. destruct Hx as [Hx|Hx].
          -- destruct (proj2 D1 x Hx) as [Ho|Hr]; [left; apply in_or_app; left; exact Ho|right; exact Hr].
          -- left. apply in_or_app. right. exact Hx.
      + pose proof (proj1 (deliver_eff orc imm f) _ _ _ _ _ _ _ _ E1) as DE. cbn [dres] in DE. subst g1.
        mstep as r2 g2 E2. destruct r2 as [sr'|]; mstep; [|discriminate]. subst. cbn [flat_map].
        assert (ND' : NoDup (flat_map cids sr ++ cids st)).
        { eapply Permutation_NoDup; [apply Permutation_app_comm|exact ND]. }
        pose proof (IHl _ _ _ _ _ _ _ E2 (NoDup_app_r _ _ _ ND) (fun x Hx => Hlt x (in_or_app _ _ _ (or_intror Hx)))) as D2.
        split.
        * eapply Permutation_NoDup; [apply Permutation_app_comm|].
          eapply dcok_disj; [exact D2|exact ND'|]. intros x Hx. apply Hlt. apply in_or_app. left. exact Hx.
        * intros x Hx. apply in_app_iff in Hx. destruct Hx as [Hx|Hx].
          -- left. apply in_or_app. left. exact Hx.
          -- destruct (proj2 D2 x Hx) as [Ho|Hr]; [left; apply in_or_app; right; exact Ho|right; exact Hr].
  Qed.
End CidsD.

(* ===================================================================== *)
(* 6. the monitor's records next to a state tree                           *)
(* ===================================================================== *)
Definition sext (q key : list nat) : Prop := exists j rest, key = q ++ j :: rest.
(* counters outside the block with prefix [pre] are untouched *)
Definition KeepB (pre : list nat) (cn cn' : cnts) : Prop := forall key, ~ sext pre key -> getc key cn' = getc key cn.

Lemma KeepB_refl : forall pre cn, KeepB pre cn cn.
Proof. intros pre cn key _. reflexivity. Qed.
Lemma KeepB_trans : forall pre a b c, KeepB pre a b -> KeepB pre b c -> KeepB pre a c.
Proof. intros pre a b c H1 H2 key Hk. rewrite H2, H1; auto. Qed.
Lemma sext_app : forall pre m key, sext (pre ++ m) key -> m <> [] -> sext pre key.
Proof.
  intros pre m key (j & rest & ->) Hm. destruct m as [|x m]; [contradiction|]. exists x, (m ++ j :: rest).
  rewrite <- app_assoc. reflexivity.
Qed.
Lemma KeepB_inner : forall pre m cn cn', m <> [] -> KeepB (pre ++ m) cn cn' -> KeepB pre cn cn'.
Proof. intros pre m cn cn' Hm H key Hk. apply H. intro Hs. apply Hk. eapply sext_app; eassumption. Qed.
Lemma getc_setc_other : forall k k' v cn, k <> k' -> getc k (setc k' v cn) = getc k cn.
Proof.
  intros k k' v cn H. unfold setc. cbn [getc]. destruct (list_eqb Nat.eqb k k') eqn:E; [|reflexivity].
  apply list_eqb_nat_eq in E. contradiction.
Qed.
Lemma getc_setc_same : forall k v cn, getc k (setc k v cn) = v.
Proof. intros. unfold setc. cbn [getc]. rewrite list_eqb_refl_nat. reflexivity. Qed.
Lemma KeepB_setc : forall pre i cn v, KeepB pre cn (setc (pre ++ [i]) v cn).
Proof.
  intros pre i cn v key Hk. apply getc_setc_other. intros ->. apply Hk. exists i, []. reflexivity.
Qed.

Section Tree.
  Variable GK : name -> list nat -> gk.
  Variable orc : oracle.

  Fixpoint leafp (q : list nat) (s : xstmt) (st : rst) {struct st} : list nat :=
    match st, s with
    | RPar _, XParallel bs => q ++ [List.length bs - 1]
    | RParLoop _, XParLoop _ _ _ => q ++ [0]
    | RCond b i st', XCond _ p f =>
      match nth_error (if b then p else f) i with
      | Some s' => leafp ((q ++ [if b then 0 else 1]) ++ [i]) s' st'
      | None => q
      end
    | RLoop _ i st', XWhile _ body => match nth_error body i with Some s' => leafp (q ++ [i]) s' st' | None => q end
    | RLoop _ i st', XCount _ _ body => match nth_error body i with Some s' => leafp (q ++ [i]) s' st' | None => q end
    | _, _ => q
    end.

  Fixpoint loopsp (q : list nat) (s : xstmt) (st : rst) {struct st} : list (list nat * nat) :=
    match st, s with
    | RCond b i st', XCond _ p f =>
      match nth_error (if b then p else f) i with
      | Some s' => loopsp ((q ++ [if b then 0 else 1]) ++ [i]) s' st'
      | None => []
      end
    | RLoop _ i st', XWhile _ body => match nth_error body i with Some s' => loopsp (q ++ [i]) s' st' | None => [] end
    | RLoop k i st', XCount _ _ body =>
      (q, k) :: match nth_error body i with Some s' => loopsp (q ++ [i]) s' st' | None => [] end
    | _, _ => []
    end.

  Definition spine_ok (M : dst) (ctx : nat) (tn : name) (q : list nat) (s : xstmt) (st : rst) : Prop :=
    exists r, grec ctx M = Some r /\ d_task r = tn /\ d_last r = Some (leafp q s st) /\ d_more r = 0 /\
              forall lp k, In (lp, k) (loopsp q s st) -> getc lp (d_cnt r) = k.

  Fixpoint nest_ok (M : dst) (s : xstmt) (st : rst) {struct st} : Prop :=
    match st, s with
    | RCall cid i st', XCall t _ _ body =>
      match nth_error body i with
      | Some s' => spine_ok M cid t ([] ++ [i]) s' st' /\ nest_ok M s' st'
      | None => False
      end
    | RPar sts, XParallel bs =>
      (fix zip (sts : list rst) (bs : list xstmt) {struct sts} : Prop :=
         match sts, bs with
         | st1 :: sr, b :: br => nest_ok M b st1 /\ zip sr br
         | _, _ => True
         end) sts bs
    | RParLoop sts, XParLoop _ _ c =>
      (fix go (sts : list rst) : Prop := match sts with st1 :: sr => nest_ok M c st1 /\ go sr | [] => True end) sts
    | RCond b i st', XCond _ p f =>
      match nth_error (if b then p else f) i with Some s' => nest_ok M s' st' | None => False end
    | RLoop _ i st', XWhile _ body => match nth_error body i with Some s' => nest_ok M s' st' | None => False end
    | RLoop _ i st', XCount _ _ body => match nth_error body i with Some s' => nest_ok M s' st' | None => False end
    | _, _ => True
    end.

  Fixpoint nest_list (M : dst) (bs : list xstmt) (sts : list rst) : Prop :=
    match sts, bs with
    | st1 :: sr, b :: br => nest_ok M b st1 /\ nest_list M br sr
    | _, _ => True
    end.

  Lemma nest_par : forall M bs sts, nest_ok M (XParallel bs) (RPar sts) = nest_list M bs sts.
  Proof.
    intros M bs sts. cbn [nest_ok]. revert bs. induction sts as [|st sr IH]; intros [|b br]; try reflexivity.
    cbn [nest_list]. rewrite <- IH. reflexivity.
  Qed.

  Lemma nest_parloop : forall M v lim c sts, nest_ok M (XParLoop v lim c) (RParLoop sts) = nest_list M (repeat c (List.length sts)) sts.
  Proof.
    intros M v lim c sts. cbn [nest_ok]. induction sts as [|st sr IH]; [reflexivity|].
    cbn [List.length repeat nest_list]. rewrite <- IH. reflexivity.
  Qed.

  Lemma spine_frame : forall M M' ctx tn q s st, grec ctx M' = grec ctx M -> spine_ok M ctx tn q s st -> spine_ok M' ctx tn q s st.
  Proof. intros M M' ctx tn q s st E (r & H). exists r. rewrite E. exact H. Qed.

  (* the invariant of a subtree depends on the records of its instances only *)
  Lemma nest_frame : forall M M' st s,
      (forall k, In k (cids st) -> grec k M' = grec k M) -> nest_ok M s st -> nest_ok M' s st.
  Proof.
    intros M M'. induction st using rst_ind'; intros s0 HE HN; destruct s0 as [n at_ ins|t at_ ins body|bs|e p fl|e b0|v lim b0|v lim c];
      try exact I; try exact HN.
    - cbn [nest_ok cids] in *. destruct (nth_error body i) as [s'|]; [|contradiction]. destruct HN as [H1 H2]. split.
      + eapply spine_frame; [apply HE; left; reflexivity|exact H1].
      + apply IHst; [intros k Hk; apply HE; right; exact Hk|exact H2].
    - rewrite nest_par in *. cbn [cids] in HE. revert bs HE HN. induction H as [|st sr Hst Hsr IH]; intros [|b br] HE HN; try exact I.
      cbn [nest_list flat_map] in *. destruct HN as [H1 H2]. split.
      + apply Hst; [intros k Hk; apply HE; apply in_or_app; left; exact Hk|exact H1].
      + apply IH; [intros k Hk; apply HE; apply in_or_app; right; exact Hk|exact H2].
    - cbn [nest_ok cids] in *. destruct (nth_error (if b then p else fl) i); [|contradiction]. apply IHst; assumption.
    - cbn [nest_ok cids] in *. destruct (nth_error b0 i); [|contradiction]. apply IHst; assumption.
    - cbn [nest_ok cids] in *. destruct (nth_error b0 i); [|contradiction]. apply IHst; assumption.
    - rewrite nest_parloop in *. cbn [cids] in HE. generalize dependent (repeat c (List.length sts)). intro bs.
      revert bs HE. induction H as [|st sr Hst Hsr IH]; intros [|b br] HE HN; try exact I.
      cbn [nest_list flat_map] in *. destruct HN as [H1 H2]. split.
      + apply Hst; [intros k Hk; apply HE; apply in_or_app; left; exact Hk|exact H1].
      + apply IH; [intros k Hk; apply HE; apply in_or_app; right; exact Hk|exact H2].
  Qed.

  Lemma nest_list_frame : forall M M' bs sts,
      (forall k, In k (flat_map cids sts) -> grec k M' = grec k M) -> nest_list M bs sts -> nest_list M' bs sts.
  Proof.
    intros M M' bs sts. revert bs. induction sts as [|st sr IH]; intros [|b br] HE HN; try exact I.
    cbn [nest_list flat_map] in *. destruct HN as [H1 H2]. split.
    - eapply nest_frame; [|exact H1]. intros k Hk. apply HE. apply in_or_app. left. exact Hk.
    - apply IH; [intros k Hk; apply HE; apply in_or_app; right; exact Hk|exact H2].
  Qed.

  (* walking mode: whatever the walk from statement i of block [pre] (counters [cn], queries so far)
     arrives at, the walk from the record of the instance arrives at *)
  Definition Wk (M : dst) (ctx : nat) (tn : name) (pre : list nat) (i : nat) (cn : cnts) : Prop :=
    exists r, grec ctx M = Some r /\ d_task r = tn /\ d_more r = 0 /\
              forall f res, walk (GK tn) orc f pre i cn (ds_q M) = Some res ->
                            exists f', expect GK orc f' r (ds_q M) = Some (Some res).
  Definition Lv (M : dst) (ctx : nat) (tn : name) (pre : list nat) (cn : cnts) : Prop :=
    exists r, grec ctx M = Some r /\ d_task r = tn /\ d_more r = 0 /\
              forall f res, leave (GK tn) orc f pre cn (ds_q M) = Some res ->
                            exists f', expect GK orc f' r (ds_q M) = Some (Some res).
End Tree.

(* ===================================================================== *)
(* 7. guard evaluations and limit readings                                 *)
(* ===================================================================== *)
Section Quiet.
  Variable GK : name -> list nat -> gk.
  Variable orc : oracle.
  Variable chk : drec -> notif -> bool.

  Definition same_pos (r r1 : drec) : Prop :=
    d_task r1 = d_task r /\ d_last r1 = d_last r /\ d_cnt r1 = d_cnt r /\ d_more r1 = d_more r.

  (* [M1] is [M] after some queries in the context of instance [ctx] *)
  Record QM (ctx : nat) (M M1 : dst) : Prop := {
    qm_lost : ds_lost M1 = false;
    qm_other : forall k, k <> ctx -> grec k M1 = grec k M;
    qm_none : grec ctx M = None -> grec ctx M1 = None;
    qm_rec : forall r, grec ctx M = Some r ->
                       exists r1, grec ctx M1 = Some r1 /\ same_pos r r1 /\ qstart r1 (ds_q M1) = qstart r (ds_q M)
  }.

  Lemma QM_refl : forall ctx M, ds_lost M = false -> QM ctx M M.
  Proof.
    intros ctx M H. constructor; auto. intros r Hr. exists r. split; [exact Hr|]. split; [repeat split|reflexivity].
  Qed.

  Lemma QM_trans : forall ctx M M1 M2, QM ctx M M1 -> QM ctx M1 M2 -> QM ctx M M2.
  Proof.
    intros ctx M M1 M2 [A1 A2 A3 A4] [B1 B2 B3 B4]. constructor; auto.
    - intros k Hk. rewrite B2, A2; auto.
    - intros r Hr. destruct (A4 r Hr) as (r1 & E1 & (S1 & S2 & S3 & S4) & Q1).
      destruct (B4 r1 E1) as (r2 & E2 & (T1 & T2 & T3 & T4) & Q2). exists r2. split; [exact E2|].
      split; [repeat split; congruence|congruence].
  Qed.

  Lemma QM_step : forall ctx M, QM ctx M (qnote ctx M).
  Proof.
    intros ctx M. constructor.
    - reflexivity.
    - intros k Hk. unfold grec, qnote. cbn [ds_recs]. apply assoc_note_other. exact Hk.
    - intro Hn. unfold grec, qnote in *. cbn [ds_recs]. unfold note_query. rewrite Hn. exact Hn.
    - intros r Hr. unfold grec, qnote in *. cbn [ds_recs ds_q]. rewrite (assoc_note_same _ _ _ _ Hr).
      exists (noted (ds_q M) r). split; [reflexivity|]. unfold noted, qstart.
      destruct (d_first r) eqn:E; [rewrite E|cbn]; (split; [repeat split|reflexivity]).
  Qed.

  Lemma DQ_queries : forall vs ctx g u g' M0 M,
      log_queries vs ctx g = Ok (u, g') -> ilog GK orc chk M0 (rev (g_log g)) M ->
      exists M1, ilog GK orc chk M0 (rev (g_log g')) M1 /\ QM ctx M M1 /\ ds_q M1 = ds_q M + List.length vs /\ g_q g' = g_q g.
  Proof.
    induction vs as [|v vs IH]; intros ctx g u g' M0 M H HQ; cbn [log_queries] in H.
    - mstep. exists M. split; [exact HQ|]. split; [apply QM_refl; apply (ilog_lost _ _ _ _ _ _ HQ)|]. split; [cbn; lia|reflexivity].
    - mstep as u1 g1 E1. unfold log_entry in E1. apply log_entries_eff in E1.
      destruct E1 as (_ & _ & _ & _ & _ & _ & H7 & _ & H9).
      assert (HQ1 : ilog GK orc chk M0 (rev (g_log g1)) (qnote ctx M)).
      { rewrite H9, rev_app_distr, rev_involutive. eapply ilog_app; [exact HQ|]. apply ilog_one. apply istep_query.
        apply (ilog_lost _ _ _ _ _ _ HQ). }
      destruct (IH _ _ _ _ M0 _ H HQ1) as (M1 & A1 & A2 & A3 & A4).
      exists M1. split; [exact A1|]. split; [eapply QM_trans; [apply QM_step|exact A2]|]. split; [rewrite A3; cbn; lia|congruence].
  Qed.

  Lemma DQ_decide : forall e ctx g b g' M0 M,
      decide_m orc e ctx g = Ok (b, g') -> DQ GK orc chk M0 g M ->
      exists M1, DQ GK orc chk M0 g' M1 /\ QM ctx M M1 /\ dec orc e (ds_q M) = Some (b, ds_q M1).
  Proof.
    intros e ctx g b g' M0 M H (H1 & H2). unfold decide_m in H. unfold dec. rewrite H2.
    destruct (decide expected_ops orc e (g_q g)) as [[b0 k']| | |] eqn:D; try discriminate.
    pose proof (decide_count _ _ _ _ _ _ D) as Dc.
    mstep as u1 g1 E1. destruct (DQ_queries _ _ _ _ _ M0 M E1 H1) as (M1 & A1 & A2 & A3 & A4).
    mstep as u2 g2 E2. unfold set_q in E2. inv E2. mstep.
    exists M1. split; [split; [exact A1|cbn; lia]|]. split; [exact A2|]. f_equal. f_equal. lia.
  Qed.

  Lemma DQ_limit : forall l ctx g n g' M0 M,
      read_limit orc l ctx g = Ok (n, g') -> DQ GK orc chk M0 g M ->
      exists M1, DQ GK orc chk M0 g' M1 /\ QM ctx M M1 /\ rlimit orc l (ds_q M) = Some (n, ds_q M1).
  Proof.
    intros l ctx g n g' M0 M H (H1 & H2). destruct l as [k|v p]; cbn [read_limit rlimit] in *.
    - mstep. exists M. split; [split; assumption|]. split; [apply QM_refl; apply (ilog_lost _ _ _ _ _ _ H1)|reflexivity].
    - rewrite H2. destruct (orc (g_q g) v) as [x|] eqn:Eo; [|discriminate].
      destruct (resolve x p) as [[q| | |]| | |] eqn:Er; try discriminate.
      destruct (Pos.eqb (Qden q) 1) eqn:Ed; [|discriminate].
      mstep as u1 g1 E1. unfold log_entry in E1. apply log_entries_eff in E1.
      destruct E1 as (_ & _ & _ & _ & _ & _ & H7 & _ & H9).
      mstep as u2 g2 E2. unfold set_q in E2. inv E2. mstep.
      exists (qnote ctx M). split; [|split; [apply QM_step|cbn; rewrite H2; reflexivity]].
      split; [|cbn; rewrite H2; reflexivity].
      change (g_log (g1 <| g_q := S (g_q g) |>)) with (g_log g1).
      rewrite H9, rev_app_distr, rev_involutive. eapply ilog_app; [exact H1|]. apply ilog_one. apply istep_query.
      apply (ilog_lost _ _ _ _ _ _ H1).
  Qed.

  (* generic continuation invariant *)
  Definition Wg (M : dst) (ctx : nat) (tn : name) (Phi : nat -> option (wres)) : Prop :=
    exists r, grec ctx M = Some r /\ d_task r = tn /\ d_more r = 0 /\
              forall f res, Phi f = Some res -> exists f', expect GK orc f' r (ds_q M) = Some (Some res).

  Lemma Wg_imp : forall M ctx tn (Phi Phi' : nat -> option wres),
      Wg M ctx tn Phi -> (forall f res, Phi' f = Some res -> exists f0, Phi f0 = Some res) -> Wg M ctx tn Phi'.
  Proof.
    intros M ctx tn Phi Phi' (r & H1 & H2 & H3 & H4) Hi. exists r. repeat split; try assumption.
    intros f res Hf. destruct (Hi f res Hf) as (f0 & H0). exact (H4 f0 res H0).
  Qed.

  Lemma expect_same : forall f r r1 q q1, same_pos r r1 -> qstart r1 q1 = qstart r q ->
                                          expect GK orc f r1 q1 = expect GK orc f r q.
  Proof. intros f r r1 q q1 (S1 & S2 & S3 & S4) Hq. unfold expect. rewrite S1, S2, S3, Hq. reflexivity. Qed.

  Lemma Wg_move : forall M M1 ctx tn Phi, Wg M ctx tn Phi -> QM ctx M M1 -> Wg M1 ctx tn Phi.
  Proof.
    intros M M1 ctx tn Phi (r & H1 & H2 & H3 & H4) HQ. destruct (qm_rec _ _ _ HQ r H1) as (r1 & E1 & SP & Q1).
    pose proof SP as (S1 & S2 & S3 & S4). exists r1. split; [exact E1|]. split; [congruence|]. split; [congruence|].
    intros f res Hf. destruct (H4 f res Hf) as (f' & Hf'). exists f'. rewrite (expect_same _ _ _ _ _ SP Q1). exact Hf'.
  Qed.
End Quiet.

(* ===================================================================== *)
(* 7b. index environments and instance numbers                             *)
(* ===================================================================== *)
Lemma ie_go_app : forall LVt cn a b q acc, ie_go LVt cn q (a ++ b) acc = ie_go LVt cn (q ++ a) b (ie_go LVt cn q a acc).
Proof.
  intros LVt cn. induction a as [|x a IH]; intros b q acc; cbn [app ie_go].
  - rewrite app_nil_r. reflexivity.
  - rewrite IH. rewrite <- app_assoc. reflexivity.
Qed.

Lemma ie_of_snoc : forall LVt cn pre i,
    ie_of LVt cn (pre ++ [i]) =
    match LVt (pre ++ [i]) with Some v => (v, getc (pre ++ [i]) cn) :: ie_of LVt cn pre | None => ie_of LVt cn pre end.
Proof. intros. unfold ie_of. rewrite ie_go_app. cbn [ie_go app]. reflexivity. Qed.

Lemma ie_keep : forall LVt pre cn cn', KeepB pre cn cn' -> ie_of LVt cn' pre = ie_of LVt cn pre.
Proof.
  intros LVt pre. induction pre as [|x p0 IH] using rev_ind; intros cn cn' HK; [reflexivity|].
  rewrite !ie_of_snoc. rewrite (HK (p0 ++ [x])).
  - rewrite (IH cn cn'); [reflexivity|]. eapply KeepB_inner; [|exact HK]. discriminate.
  - intros (j & rest & H). apply (f_equal (@List.length nat)) in H. rewrite !app_length in H. cbn in H. lia.
Qed.

Fixpoint cnt_par (P : list nat) (j : nat) (cn : cnts) : cnts :=
  match j with O => setc P 0 cn | S j' => setc P (S j') (cnt_par P j' cn) end.
Definition cnt_at (lim : option limit) (P : list nat) (j : nat) (cn : cnts) : cnts :=
  match lim with None => cn | Some _ => cnt_par P j cn end.

Lemma getc_cnt_par : forall P j cn, getc P (cnt_par P j cn) = j.
Proof. intros P [|j] cn; cbn [cnt_par]; apply getc_setc_same. Qed.

Lemma KeepB_cnt_par : forall pre i j cn, KeepB pre cn (cnt_par (pre ++ [i]) j cn).
Proof.
  intros pre i. induction j as [|j IH]; intro cn; cbn [cnt_par]; [apply KeepB_setc|].
  eapply KeepB_trans; [apply IH|apply KeepB_setc].
Qed.

Lemma KeepB_cnt_at : forall lim pre i j cn, KeepB pre cn (cnt_at lim (pre ++ [i]) j cn).
Proof. intros [lm|] pre i j cn; cbn [cnt_at]; [apply KeepB_cnt_par|apply KeepB_refl]. Qed.

(* an equation between index environments that [subst] leaves alone *)
Definition ieq (a b : ienv) : Prop := a = b.

Lemma params_eqb_refl : forall l : list param, list_eqb param_eqb l l = true.
Proof. induction l as [|x l IH]; [reflexivity|]. cbn. rewrite param_eqb_refl, IH. reflexivity. Qed.

Lemma chk_ok : forall INS LV tn p cn more k nm id ctx ie ins,
    INS tn p = ins -> ie_of (LV tn) cn p = ie ->
    chk_params INS LV {| d_task := tn; d_last := Some p; d_cnt := cn; d_more := more; d_first := None |}
               (mk k nm (mksite tn p) id ctx (subst_params ie ins)) = true.
Proof.
  intros INS LV tn p cn more k nm id ctx ie ins H1 H2. unfold chk_params. cbn [d_last d_task d_cnt mk n_params].
  rewrite H1, H2. apply params_eqb_refl.
Qed.

(* ===================================================================== *)
(* 8. the start family                                                     *)
(* ===================================================================== *)
Section StartD.
  Variable GK : name -> list nat -> gk.
  Variable INS : name -> list nat -> list param.
  Variable LV : name -> list nat -> option name.
  Notation CH := (chk_params INS LV).
  Variable orc : oracle.
  Variable imm : nat -> bool.

  Notation DQ := (DQ GK orc CH).
  Notation Wg := (Wg GK orc).

  Definition nofan (k : gk) : Prop := match k with GPar _ | GPLoop _ => False | _ => True end.

  Definition FrameLt (g : G) (ctx : nat) (M M' : dst) : Prop :=
    forall k, k < g_tid g -> k <> ctx -> grec k M' = grec k M.

  Lemma FrameLt_refl : forall g ctx M, FrameLt g ctx M M.
  Proof. intros g ctx M k _ _. reflexivity. Qed.
  Lemma FrameLt_trans : forall g g1 ctx M M1 M2, FrameLt g ctx M M1 -> FrameLt g1 ctx M1 M2 -> g_tid g <= g_tid g1 -> FrameLt g ctx M M2.
  Proof. intros g g1 ctx M M1 M2 H1 H2 Hle k Hk Hne. rewrite H2 by (try lia; assumption). apply H1; assumption. Qed.
  Lemma QM_frame : forall g ctx M M1, QM ctx M M1 -> FrameLt g ctx M M1.
  Proof. intros g ctx M M1 H k _ Hne. apply (qm_other _ _ _ H). exact Hne. Qed.

  Definition mkrec (tn : name) (p : list nat) (cn : cnts) (m : nat) : drec :=
    {| d_task := tn; d_last := Some p; d_cnt := cn; d_more := m; d_first := None |}.

  (* the result of a statement / block / loop test in the block with prefix [pre] *)
  Definition post_stmt (M' : dst) (ctx : nat) (tn : name) (pre : list nat) (i : nat) (s : xstmt) (st : rst) (cn : cnts) : Prop :=
    if is_done st
    then exists cn', Wg M' ctx tn (fun f => walk (GK tn) orc f pre (S i) cn' (ds_q M')) /\ KeepB pre cn cn'
    else spine_ok M' ctx tn (pre ++ [i]) s st /\ nest_ok M' s st /\
         exists r', grec ctx M' = Some r' /\ KeepB pre cn (d_cnt r').

  Definition SSd (f : nat) : Prop :=
    forall ctx ie s g st g' M0 M tn pre i cn,
      start_stmt orc imm f ctx ie s g = Ok (st, g') ->
      lst_all (g_ls g) -> DQ M0 g M -> guarded GK INS LV tn (pre ++ [i]) s -> ctx < g_tid g -> nofan (GK tn pre) ->
      Wg M ctx tn (fun f => walk (GK tn) orc f pre i cn (ds_q M)) -> ieq (ie_of (LV tn) cn pre) ie ->
      exists M', DQ M0 g' M' /\ FrameLt g ctx M M' /\ post_stmt M' ctx tn pre i s st cn.

  Definition RBd (f : nat) : Prop :=
    forall ctx ie ss i g r g' M0 M tn pre cn,
      run_block orc imm f ctx ie ss i g = Ok (r, g') ->
      lst_all (g_ls g) -> DQ M0 g M -> gblock GK INS LV tn pre ss -> i <= List.length ss -> ctx < g_tid g -> nofan (GK tn pre) ->
      Wg M ctx tn (fun f => walk (GK tn) orc f pre i cn (ds_q M)) -> ieq (ie_of (LV tn) cn pre) ie ->
      exists M', DQ M0 g' M' /\ FrameLt g ctx M M' /\
                 match r with
                 | None => exists cn', Wg M' ctx tn (fun f => leave (GK tn) orc f pre cn' (ds_q M')) /\ KeepB pre cn cn'
                 | Some (j, st) => exists s, nth_error ss j = Some s /\ spine_ok M' ctx tn (pre ++ [j]) s st /\ nest_ok M' s st /\
                                             exists r', grec ctx M' = Some r' /\ KeepB pre cn (d_cnt r')
                 end.

  (* the test of a loop: first (k = 0) or after an iteration *)
  Definition ltest (G : list nat -> gk) (f : nat) (pre : list nat) (i k : nat) (cn : cnts) (q : nat) : option wres :=
    match G (pre ++ [i]) with
    | GWhile e =>
      match dec orc e q with
      | Some (true, q') => walk G orc f (pre ++ [i]) 0 cn q'
      | Some (false, q') => walk G orc f pre (S i) cn q'
      | None => None
      end
    | GCount lim =>
      match rlimit orc lim q with
      | Some (N, q') => if Z.ltb (Z.of_nat k) N then walk G orc f (pre ++ [i]) 0 (setc (pre ++ [i]) k cn) q'
                        else walk G orc f pre (S i) cn q'
      | None => None
      end
    | _ => None
    end.

  Definition LTd (f : nat) : Prop :=
    forall ctx ie s k g st g' M0 M tn pre i cn,
      loop_test orc imm f ctx ie s k g = Ok (st, g') ->
      lst_all (g_ls g) -> DQ M0 g M -> guarded GK INS LV tn (pre ++ [i]) s -> ctx < g_tid g -> nofan (GK tn pre) ->
      Wg M ctx tn (fun f => ltest (GK tn) f pre i k cn (ds_q M)) -> ieq (ie_of (LV tn) cn pre) ie ->
      exists M', DQ M0 g' M' /\ FrameLt g ctx M M' /\ post_stmt M' ctx tn pre i s st cn.

  (* the record of the instance before element j of a fork at position P (n elements) *)
  Definition Bst (M : dst) (ctx : nat) (tn : name) (lim : option limit) (P : list nat) (j n : nat) (cn : cnts) : Prop :=
    match j with
    | O => exists r, grec ctx M = Some r /\ d_task r = tn /\ d_more r = 0 /\
                     exists f, expect GK orc f r (ds_q M) = Some (Some (Some (P ++ [0]), cnt_at lim P 0 cn, ds_q M, n - 1))
    | S j' => grec ctx M = Some (mkrec tn (P ++ [eidx lim j']) (cnt_at lim P j' cn) (n - j))
    end.

  Definition fankind (lim : option limit) (n : nat) (k : gk) : Prop :=
    match lim with None => k = GPar n | Some lm => k = GPLoop lm end.

  Fixpoint glist (lim : option limit) (tn : name) (P : list nat) (j : nat) (l : list (ienv * xstmt)) : Prop :=
    match l with
    | [] => True
    | (_, b) :: r => is_call b = true /\ guarded GK INS LV tn (P ++ [eidx lim j]) b /\ glist lim tn P (S j) r
    end.

  Definition BCd (f : nat) : Prop :=
    forall ctx ie t at_ ins body g st g' M0 M tn lim P j n cn,
      start_stmt orc imm f ctx ie (XCall t at_ ins body) g = Ok (st, g') ->
      lst_all (g_ls g) -> DQ M0 g M -> guarded GK INS LV tn (P ++ [eidx lim j]) (XCall t at_ ins body) -> ctx < g_tid g ->
      fankind lim n (GK tn P) -> j < n -> Bst M ctx tn lim P j n cn ->
      ieq (ie_of (LV tn) (cnt_at lim P j cn) (P ++ [eidx lim j])) ie ->
      exists M', DQ M0 g' M' /\ FrameLt g ctx M M' /\ Bst M' ctx tn lim P (S j) n cn /\
                 nest_ok M' (XCall t at_ ins body) st.

  Fixpoint gies (lim : option limit) (tn : name) (P : list nat) (j : nat) (cn : cnts) (l : list (ienv * xstmt)) : Prop :=
    match l with
    | [] => True
    | (ie, _) :: r => ieq (ie_of (LV tn) (cnt_at lim P j cn) (P ++ [eidx lim j])) ie /\ gies lim tn P (S j) cn r
    end.

  Definition SLd (f : nat) : Prop :=
    forall ctx l g sts g' M0 M tn lim P j n cn,
      start_list orc imm f ctx l g = Ok (sts, g') ->
      lst_all (g_ls g) -> DQ M0 g M -> glist lim tn P j l -> ctx < g_tid g ->
      fankind lim n (GK tn P) -> j + List.length l = n -> Bst M ctx tn lim P j n cn -> gies lim tn P j cn l ->
      exists M', DQ M0 g' M' /\ FrameLt g ctx M M' /\ Bst M' ctx tn lim P n n cn /\ nest_list M' (map snd l) sts.

  Lemma Wg_new : forall M id t, grec id M = Some (new_rec t) ->
                                Wg M id t (fun f => walk (GK t) orc f [] 0 [] (ds_q M)).
  Proof.
    intros M id t H. exists (new_rec t). split; [exact H|]. split; [reflexivity|]. split; [reflexivity|].
    intros f res Hf. exists f. unfold expect. cbn [new_rec d_last d_task d_cnt qstart d_first]. rewrite Hf. reflexivity.
  Qed.

  (* the body of a call and its task-finished notification, after its task-started notification *)
  Lemma dcall_rest : forall f, RBd f ->
      forall ctx ie t tn q ins body g2 st g' M0 M1 idn r1,
        (r <- run_block orc imm f idn [] body 0 ;;
         match r with
         | None => emit (mk TF t (mksite tn q) idn (Some ctx) (subst_params ie ins)) ;;; ret RDone
         | Some (i, sti) => ret (RCall idn i sti)
         end) g2 = Ok (st, g') ->
        lst_all (g_ls g2) -> DQ M0 g2 M1 -> g_tid g2 = S idn -> ctx < idn ->
        gblock GK INS LV t [] body -> GK t [] = GNone -> grec idn M1 = Some (new_rec t) -> grec ctx M1 = Some r1 -> d_first r1 = None ->
        exists M', DQ M0 g' M' /\ (forall k, k < idn -> k <> ctx -> grec k M' = grec k M1) /\ grec ctx M' = Some r1 /\
                   nest_ok M' (XCall t (mksite tn q) ins body) st.
  Proof.
    intros f RB ctx ie t tn q ins body g2 st g' M0 M1 idn r1 H Hl2 Q1 Htid Hlt Hbody HG0 Hid Hctx Hfirst.
    mstep as r g3 E3.
    pose proof (Eff_Fr _ _ _ (proj1 (proj2 (start_eff orc imm f)) _ _ _ _ _ _ _ E3)) as (F1' & F2' & F3').
    destruct (RB idn [] body 0 g2 r g3 M0 M1 t [] [] E3 Hl2 Q1 Hbody ltac:(lia) ltac:(lia)) as (M3 & Q3 & FR3 & P3).
    { rewrite HG0. exact I. }
    { apply Wg_new. exact Hid. }
    { exact eq_refl. }
    assert (Hctx3 : grec ctx M3 = Some r1) by (rewrite (FR3 ctx) by lia; exact Hctx).
    destruct r as [[i0 sti]|].
    - mstep. destruct P3 as (s0 & Hn0 & SP & NE & _). exists M3. split; [exact Q3|]. split.
      + intros k Hk Hne. apply FR3; lia.
      + split; [exact Hctx3|]. cbn [nest_ok]. rewrite Hn0. split; assumption.
    - destruct P3 as (cn' & (r3 & R1 & R2 & R3 & R4) & _).
      mstep as u4 g4 E4. mstep.
      destruct (R4 1 (None, cn', ds_q M3, 0)) as (f' & Hf'); [reflexivity|].
      set (nTF := mk TF t (mksite tn q) idn (Some ctx) (subst_params ie ins)) in *.
      exists (fin_upd M3 nTF). split; [|split; [|split]].
      + eapply DQ_emit; [exact E4|rewrite F1'; exact Hl2|exact Q3| |reflexivity].
        eapply iend; [apply (DQ_lost _ _ _ _ _ _ Q3)|reflexivity|exact R1|exact R3|]. exists f'. exact Hf'.
      + intros k Hk Hne. unfold grec, fin_upd. cbn [nTF mk n_ctx ds_recs]. rewrite assoc_touch_other by exact Hne. apply FR3; lia.
      + unfold grec, fin_upd. cbn [nTF mk n_ctx ds_recs]. rewrite (assoc_touch_same _ _ _ Hctx3).
        destruct r1; cbn in Hfirst; subst; reflexivity.
      + exact I.
  Qed.

  Lemma not_sext_self : forall q : list nat, ~ sext q q.
  Proof.
    intros q (j & rest & H). apply (f_equal (@List.length nat)) in H. rewrite app_length in H. cbn in H. lia.
  Qed.

  Lemma resume_leaf : forall tn pre i, nofan (GK tn pre) -> resume (GK tn) (pre ++ [i]) = Some (pre, S i).
  Proof. intros tn pre i H. unfold resume. rewrite unsnoc_app. destruct (GK tn pre); try reflexivity; contradiction. Qed.

  Lemma resume_fan : forall tn pre i x lim n, fankind lim n (GK tn (pre ++ [i])) -> resume (GK tn) ((pre ++ [i]) ++ [x]) = Some (pre, S i).
  Proof.
    intros tn pre i x lim n H. unfold resume. rewrite unsnoc_app. destruct lim; cbn in H; rewrite H, unsnoc_app; reflexivity.
  Qed.

  (* after the statement started last has completed: the walk resumes behind it *)
  Lemma Wg_after : forall M ctx tn p pre i cn,
      grec ctx M = Some (mkrec tn p cn 0) -> resume (GK tn) p = Some (pre, S i) ->
      Wg M ctx tn (fun f => walk (GK tn) orc f pre (S i) cn (ds_q M)).
  Proof.
    intros M ctx tn p pre i cn H Hr. exists (mkrec tn p cn 0). split; [exact H|]. split; [reflexivity|]. split; [reflexivity|].
    intros f res Hf. exists f. unfold expect. cbn [mkrec d_last d_task d_cnt qstart d_first]. rewrite Hr, Hf. reflexivity.
  Qed.

  Lemma start_upd_ctx : forall M (tk : bool) n c r', n_id n <> c \/ tk = false -> grec c (start_upd M tk n c r') = Some r'.
  Proof.
    intros M tk n c r' H. unfold grec, start_upd. cbn [ds_recs]. destruct tk.
    - destruct H as [H|H]; [|discriminate]. rewrite assoc_setr_other by (intro E; apply H; congruence). apply assoc_setr_same.
    - apply assoc_setr_same.
  Qed.

  Lemma start_upd_other : forall M (tk : bool) n c r' k, k <> c -> (tk = true -> k <> n_id n) -> grec k (start_upd M tk n c r') = grec k M.
  Proof.
    intros M tk n c r' k H1 H2. unfold grec, start_upd. cbn [ds_recs]. destruct tk.
    - rewrite assoc_setr_other by (apply H2; reflexivity). apply assoc_setr_other. exact H1.
    - apply assoc_setr_other. exact H1.
  Qed.

  Lemma start_upd_id : forall M n c r', grec (n_id n) (start_upd M true n c r') = Some (new_rec (n_name n)).
  Proof. intros. unfold grec, start_upd. cbn [ds_recs]. apply assoc_setr_same. Qed.

  Lemma fin_upd_ctx : forall M n c r, n_ctx n = Some c -> grec c M = Some r -> d_first r = None -> grec c (fin_upd M n) = Some r.
  Proof.
    intros M n c r Hc Hr Hf. unfold grec, fin_upd in *. cbn [ds_recs]. rewrite Hc, (assoc_touch_same _ _ _ Hr).
    destruct r; cbn in Hf; subst; reflexivity.
  Qed.

  Lemma fin_upd_other : forall M n c k, n_ctx n = Some c -> k <> c -> grec k (fin_upd M n) = grec k M.
  Proof. intros M n c k Hc Hk. unfold grec, fin_upd. cbn [ds_recs]. rewrite Hc. apply assoc_touch_other. exact Hk. Qed.

  Lemma glist_par : forall tn P (ie : ienv) bs j,
      all_from (fun j b => is_call b = true /\ guarded GK INS LV tn (P ++ [j]) b) j bs ->
      glist None tn P j (map (fun b => (ie, b)) bs).
  Proof.
    intros tn P ie bs. induction bs as [|b bs IH]; intros j H; [exact I|].
    destruct H as [[H1 H2] H3]. cbn [map glist eidx]. split; [exact H1|]. split; [exact H2|]. apply IH. exact H3.
  Qed.

  Lemma glist_insts : forall tn P lm ie v c n j,
      is_call c = true -> guarded GK INS LV tn (P ++ [0]) c -> glist (Some lm) tn P j (insts ie v c n).
  Proof.
    intros tn P lm ie v c n j H1 H2. unfold insts. generalize (seq 0 n). intro l. revert j.
    induction l as [|x l IH]; intro j; [exact I|]. cbn [map glist eidx]. split; [exact H1|]. split; [exact H2|]. apply IH.
  Qed.

  Lemma sib_cnt_at : forall tn lim P j n cn x,
      fankind lim n (GK tn P) -> sib_cnt (GK tn) (P ++ [x]) (cnt_at lim P j cn) = cnt_at lim P (S j) cn.
  Proof.
    intros tn lim P j n cn x HK. unfold sib_cnt. rewrite unsnoc_app. destruct lim as [lm|]; cbn in HK; rewrite HK; cbn [cnt_at cnt_par].
    - rewrite getc_cnt_par. reflexivity.
    - reflexivity.
  Qed.

  Lemma call_lv : forall tn q c, is_call c = true -> guarded GK INS LV tn q c -> LV tn q = None.
  Proof.
    intros tn q c H1 H2. destruct c as [?|t at_ ins body|?|? ? ?|? ?|? ? ?|? ? ?]; try discriminate H1.
    cbn [guarded] in H2. apply H2.
  Qed.

  Lemma gies_par : forall tn P ie bs j cn,
      all_from (fun j b => is_call b = true /\ guarded GK INS LV tn (P ++ [j]) b) j bs ->
      ie_of (LV tn) cn P = ie -> gies None tn P j cn (map (fun b => (ie, b)) bs).
  Proof.
    intros tn P ie bs. induction bs as [|b bs IH]; intros j cn H Hie; [exact I|].
    destruct H as [[H1 H2] H3]. cbn [map gies eidx cnt_at]. split; [|apply IH; assumption].
    rewrite ie_of_snoc, (call_lv _ _ _ H1 H2). exact Hie.
  Qed.

  Lemma gies_insts : forall tn pre i lm ie v c n cn,
      is_call c = true -> guarded GK INS LV tn ((pre ++ [i]) ++ [0]) c -> LV tn (pre ++ [i]) = Some v ->
      ie_of (LV tn) cn pre = ie -> gies (Some lm) tn (pre ++ [i]) 0 cn (insts ie v c n).
  Proof.
    intros tn pre i lm ie v c n cn H1 H2 HV Hie. unfold insts. generalize 0.
    induction n as [|n IH]; intro j; [exact I|]. cbn [seq map gies eidx cnt_at]. split; [|apply IH].
    rewrite ie_of_snoc, (call_lv _ _ _ H1 H2), ie_of_snoc, HV, getc_cnt_par.
    rewrite (ie_keep _ _ _ _ (KeepB_cnt_par pre i j cn)), Hie. reflexivity.
  Qed.

  Theorem start_dec : forall f, SSd f /\ RBd f /\ SLd f /\ LTd f /\ BCd f.
  Proof.
    induction f as [|f IH].
    { split; [|split; [|split; [|split]]]; red; intros; discriminate. }
    destruct IH as (IHs & IHb & IHl & IHt & IHc).
    split; [|split; [|split; [|split]]].
    - (* start_stmt *)
      intros ctx ie s g st g' M0 M tn pre i cn H Hl HQ Hg Hlt Hnf HW Hie.
      pose proof (DQ_lost _ _ _ _ _ _ HQ) as Hlost.
      cbn [start_stmt] in H.
      destruct s as [n at_ ins|t at_ ins body|bs|e p fl|e b|v lim b|v lim c].
      + (* service *)
        cbn [guarded] in Hg. destruct Hg as (-> & HG & HI & HV).
        mstep as id g1 E1. unfold fresh_s in E1. inv E1.
        mstep as u2 g2 E2. unfold await, set_awaited in E2. inv E2.
        mstep as u3 g3 E3.
        destruct HW as (r & R1 & R2 & R3 & R4).
        destruct (R4 1 (Some (pre ++ [i]), cn, ds_q M, 0)) as (f' & Hf'); [cbn [walk]; rewrite HG; reflexivity|].
        set (nSS := mk SS n (mksite tn (pre ++ [i])) (g_sid g) (Some ctx) (subst_params ie ins)) in *.
        set (M1 := start_upd M false nSS ctx (mkrec tn (pre ++ [i]) cn 0)).
        assert (Q3 : DQ M0 g3 M1).
        { eapply DQ_emit; [exact E3|exact Hl|eapply DQ_same; [exact HQ|reflexivity|reflexivity]| |reflexivity].
          eapply istart_walk; try eassumption; try reflexivity;
            [exists f'; exact Hf'|apply chk_ok; [exact HI|rewrite ie_of_snoc, HV; exact Hie]]. }
        assert (C1 : grec ctx M1 = Some (mkrec tn (pre ++ [i]) cn 0)) by (apply start_upd_ctx; right; reflexivity).
        assert (FR1 : FrameLt g ctx M M1).
        { intros k _ Hne. apply start_upd_other; [exact Hne|discriminate]. }
        destruct (emit_frame _ _ _ _ _ E3) as (B1 & _ & _). cbn in B1.
        clear R2. mstep as k g4 E4. unfold tick_ss in E4. inv E4.
        destruct (imm (g_ss g3)).
        * mstep as u5 g5 E5. unfold unawait in E5.
          match type of E5 with match ?Y with _ => _ end = _ => destruct Y as [l|] end; [|discriminate].
          unfold set_awaited in E5. inv E5.
          mstep as u6 g6 E6. mstep.
          set (nSF := mk SF n (mksite tn (pre ++ [i])) (g_sid g) (Some ctx) (subst_params ie ins)) in *.
          exists (fin_upd M1 nSF). split; [|split].
          -- eapply DQ_emit; [exact E6|cbn; rewrite B1; exact Hl|eapply DQ_same; [exact Q3|reflexivity|reflexivity]| |reflexivity].
             apply isf; [reflexivity|reflexivity].
          -- intros k0 Hk Hne. rewrite (fin_upd_other _ nSF ctx) by (try reflexivity; exact Hne). apply FR1; assumption.
          -- unfold post_stmt. cbn [is_done]. exists cn. split; [|apply KeepB_refl].
             eapply Wg_after; [apply (fin_upd_ctx _ nSF ctx); [reflexivity|exact C1|reflexivity]|apply resume_leaf; exact Hnf].
        * mstep. exists M1. split; [eapply DQ_same; [exact Q3|reflexivity|reflexivity]|]. split; [exact FR1|].
          unfold post_stmt. cbn [is_done]. split; [|split; [exact I|]].
          -- exists (mkrec tn (pre ++ [i]) cn 0). split; [exact C1|]. repeat split. intros lp k0 [].
          -- exists (mkrec tn (pre ++ [i]) cn 0). split; [exact C1|apply KeepB_refl].
      + (* task call *)
        cbn [guarded] in Hg. destruct Hg as (-> & HG & HG0 & Hbody & HI & HV).
        destruct HW as (r & R1 & R2 & R3 & R4).
        destruct (R4 1 (Some (pre ++ [i]), cn, ds_q M, 0)) as (f' & Hf'); [cbn [walk]; rewrite HG; reflexivity|].
        mstep as id g1 E1. mstep as u2 g2 E2.
        destruct (tstart_N _ _ _ _ _ _ _ _ _ E1 E2) as (-> & B1 & B2 & B3 & _).
        set (nTS := mk TS t (mksite tn (pre ++ [i])) (g_tid g) (Some ctx) (subst_params ie ins)) in *.
        set (M1 := start_upd M true nTS ctx (mkrec tn (pre ++ [i]) cn 0)).
        assert (Q2 : DQ M0 g2 M1).
        { unfold fresh_t in E1. inv E1.
          eapply DQ_emit; [exact E2|exact Hl|eapply DQ_same; [exact HQ|reflexivity|reflexivity]| |reflexivity].
          eapply istart_walk; try eassumption; try reflexivity;
            [exists f'; exact Hf'|apply chk_ok; [exact HI|rewrite ie_of_snoc, HV; exact Hie]]. }
        assert (C1 : grec ctx M1 = Some (mkrec tn (pre ++ [i]) cn 0)) by (apply start_upd_ctx; left; cbn; lia).
        destruct (dcall_rest f IHb ctx ie t tn (pre ++ [i]) ins body g2 st g' M0 M1 (g_tid g) _ H
                             ltac:(rewrite B1; exact Hl) Q2 B2 Hlt Hbody HG0 (start_upd_id _ nTS _ _) C1 eq_refl)
          as (M' & Q' & FR' & C' & N').
        exists M'. split; [exact Q'|]. split.
        * intros k Hk Hne. rewrite FR' by assumption. apply start_upd_other; [exact Hne|intros _; cbn; lia].
        * unfold post_stmt. destruct (is_done st) eqn:D.
          -- exists cn. split; [|apply KeepB_refl]. eapply Wg_after; [exact C'|apply resume_leaf; exact Hnf].
          -- split; [|split; [exact N'|]].
             ++ exists (mkrec tn (pre ++ [i]) cn 0). split; [exact C'|]. split; [reflexivity|].
                split; [destruct st; reflexivity|]. split; [reflexivity|]. intros lp k0 Hin. destruct st; destruct Hin.
             ++ exists (mkrec tn (pre ++ [i]) cn 0). split; [exact C'|apply KeepB_refl].
      + (* parallel *)
        cbn [guarded] in Hg. destruct Hg as (HG & Hbs & HV).
        mstep as sts g1 E1.
        destruct bs as [|b0 bs'].
        * (* no branch *)
          destruct f; [discriminate|]. cbn [map start_list] in E1. unfold ret in E1. inv E1. cbn [all_done] in H. mstep.
          exists M. split; [exact HQ|]. split; [apply FrameLt_refl|]. unfold post_stmt. cbn [is_done].
          exists cn. split; [|apply KeepB_refl]. eapply Wg_imp; [exact HW|].
          intros f0 res Hf0. exists (S f0). cbn [walk]. rewrite HG. cbn [List.length Nat.eqb]. exact Hf0.
        * set (bs := b0 :: bs') in *. set (n := List.length bs) in *.
          assert (Hn : 0 < n) by (cbn; lia).
          destruct HW as (r & R1 & R2 & R3 & R4).
          destruct (R4 1 (Some ((pre ++ [i]) ++ [0]), cn, ds_q M, n - 1)) as (f' & Hf').
          { cbn [walk]. rewrite HG. fold n. destruct n; [lia|]. reflexivity. }
          destruct (IHl ctx _ g sts g1 M0 M tn None (pre ++ [i]) 0 n cn E1 Hl HQ (glist_par _ _ _ _ _ Hbs) Hlt HG)
            as (M' & Q' & FR' & B' & N').
          { unfold n. rewrite map_length. reflexivity. }
          { cbn [Bst]. exists r. repeat split; try assumption. exists f'. exact Hf'. }
          { apply gies_par; [exact Hbs|]. rewrite ie_of_snoc, HV. exact Hie. }
          assert (C' : grec ctx M' = Some (mkrec tn ((pre ++ [i]) ++ [n - 1]) cn 0)).
          { unfold Bst in B'. destruct n as [|n']; [lia|]. cbn [eidx] in B'. rewrite Nat.sub_diag in B'.
            replace (S n' - 1) with n' by lia. exact B'. }
          exists M'. split; [destruct (all_done sts); mstep; exact Q'|]. split; [exact FR'|].
          unfold post_stmt. destruct (all_done sts) eqn:D; mstep; cbn [is_done].
          -- exists cn. split; [|apply KeepB_refl]. eapply Wg_after; [exact C'|eapply (resume_fan _ _ _ _ None); exact HG].
          -- split; [|split].
             ++ exists (mkrec tn ((pre ++ [i]) ++ [n - 1]) cn 0). split; [exact C'|]. repeat split. intros lp k0 [].
             ++ rewrite nest_par. rewrite map_snd_pair in N'. exact N'.
             ++ exists (mkrec tn ((pre ++ [i]) ++ [n - 1]) cn 0). split; [exact C'|apply KeepB_refl].
      + (* condition *)
        cbn [guarded] in Hg. destruct Hg as (HG & HG0 & HG1 & Hp & Hf & HV & HV0 & HV1).
        mstep as bb g1 E1.
        pose proof (Eff_Fr _ _ _ (decide_m_eff _ _ _ _ _ _ E1)) as (FL1 & FR1 & _).
        destruct (DQ_decide GK orc CH _ _ _ _ _ M0 M E1 HQ) as (M1 & Q1 & QM1 & Hd).
        mstep as r g2 E2.
        set (pre' := (pre ++ [i]) ++ [if bb then 0 else 1]).
        destruct (IHb ctx ie _ 0 g1 r g2 M0 M1 tn pre' cn E2 ltac:(rewrite FL1; exact Hl) Q1) as (M2 & Q2 & FR2 & P2).
        { unfold pre'. destruct bb; assumption. }
        { lia. }
        { lia. }
        { unfold pre'. destruct bb; [rewrite HG0|rewrite HG1]; exact I. }
        { eapply Wg_move; [|exact QM1]. eapply Wg_imp; [exact HW|].
          intros f0 res Hf0. exists (S f0). cbn [walk]. rewrite HG, Hd. exact Hf0. }
        { unfold pre'. destruct bb; rewrite ie_of_snoc; [rewrite HV0|rewrite HV1]; rewrite ie_of_snoc, HV; exact Hie. }
        exists M2. split; [destruct r as [[j st2]|]; mstep; exact Q2|]. split.
        { eapply FrameLt_trans; [apply QM_frame; exact QM1|exact FR2|exact FR1]. }
        assert (KI : forall a b0, KeepB pre' a b0 -> KeepB pre a b0).
        { intros a b0 HK. unfold pre' in HK. rewrite <- app_assoc in HK. eapply KeepB_inner; [|exact HK]. discriminate. }
        unfold post_stmt. destruct r as [[j st2]|]; mstep; cbn [is_done].
        * destruct P2 as (s2 & Hn2 & SP & NE & r' & Hr' & HK). split; [|split].
          -- destruct SP as (r0 & A1 & A2 & A3 & A4 & A5). exists r0. split; [exact A1|]. split; [exact A2|].
             cbn [leafp loopsp]. rewrite Hn2. repeat split; assumption.
          -- cbn [nest_ok]. rewrite Hn2. exact NE.
          -- exists r'. split; [exact Hr'|apply KI; exact HK].
        * destruct P2 as (cn' & HW2 & HK). exists cn'. split; [|apply KI; exact HK].
          eapply Wg_imp; [exact HW2|]. intros f0 res Hf0. exists (S f0). cbn [leave]. unfold pre'. rewrite unsnoc_app.
          fold pre'. assert (EG : GK tn pre' = GNone) by (unfold pre'; destruct bb; assumption). rewrite EG, unsnoc_app. exact Hf0.
      + (* while *)
        pose proof Hg as Hg0. cbn [guarded] in Hg. destruct Hg as (HG & _).
        eapply (IHt ctx ie (XWhile e b) 0); try eassumption.
        eapply Wg_imp; [exact HW|]. intros f0 res Hf0. exists (S f0). cbn [walk]. rewrite HG. unfold ltest in Hf0. rewrite HG in Hf0. exact Hf0.
      + (* counting loop *)
        pose proof Hg as Hg0. cbn [guarded] in Hg. destruct Hg as (HG & _).
        eapply (IHt ctx ie (XCount v lim b) 0); try eassumption.
        eapply Wg_imp; [exact HW|]. intros f0 res Hf0. exists (S f0). cbn [walk]. rewrite HG. unfold ltest in Hf0. rewrite HG in Hf0. exact Hf0.
      + (* parallel loop *)
        cbn [guarded] in Hg. destruct Hg as (HG & Hcc & Hcs & HV).
        mstep as nz g1 E1.
        pose proof (Eff_Fr _ _ _ (read_limit_eff _ _ _ _ _ _ E1)) as (FL1 & FR1 & _).
        destruct (DQ_limit GK orc CH _ _ _ _ _ M0 M E1 HQ) as (M1 & Q1 & QM1 & Hd).
        mstep as sts g2 E2.
        destruct (Z.ltb 0 nz) eqn:Ez.
        * apply Z.ltb_lt in Ez. set (n := Z.to_nat nz) in *. assert (Hn : 0 < n) by (unfold n; lia).
          assert (HW1 : Wg M1 ctx tn (fun _ : nat => Some (Some ((pre ++ [i]) ++ [0]), setc (pre ++ [i]) 0 cn, ds_q M1, n - 1))).
          { eapply Wg_move; [|exact QM1]. eapply Wg_imp; [exact HW|].
            intros f0 res Hf0. exists 1. cbn [walk]. rewrite HG, Hd.
            assert (Z.ltb 0 nz = true) as -> by (apply Z.ltb_lt; exact Ez). exact Hf0. }
          destruct HW1 as (r & R1 & R2 & R3 & R4). destruct (R4 0 _ eq_refl) as (f' & Hf').
          destruct (IHl ctx _ g1 sts g2 M0 M1 tn (Some lim) (pre ++ [i]) 0 n cn E2 ltac:(rewrite FL1; exact Hl) Q1
                        (glist_insts _ _ _ _ _ _ _ _ Hcc Hcs) ltac:(lia) HG) as (M' & Q' & FR' & B' & N').
          { cbn. unfold insts. rewrite map_length, seq_length. reflexivity. }
          { cbn [Bst]. exists r. repeat split; try assumption. exists f'. exact Hf'. }
          { apply gies_insts; assumption. }
          set (cnE := cnt_at (Some lim) (pre ++ [i]) (n - 1) cn).
          assert (C' : grec ctx M' = Some (mkrec tn ((pre ++ [i]) ++ [0]) cnE 0)).
          { unfold Bst in B'. unfold cnE. destruct n as [|n']; [lia|]. cbn [eidx] in B'. rewrite Nat.sub_diag in B'.
            replace (S n' - 1) with n' by lia. exact B'. }
          exists M'. split; [destruct (all_done sts); mstep; exact Q'|]. split.
          { eapply FrameLt_trans; [apply QM_frame; exact QM1|exact FR'|exact FR1]. }
          unfold post_stmt. destruct (all_done sts) eqn:D; mstep; cbn [is_done].
          -- exists cnE. split; [|apply KeepB_cnt_at]. eapply Wg_after; [exact C'|eapply (resume_fan _ _ _ _ (Some lim) 0); exact HG].
          -- split; [|split].
             ++ exists (mkrec tn ((pre ++ [i]) ++ [0]) cnE 0). split; [exact C'|]. repeat split. intros lp k0 [].
             ++ rewrite nest_parloop.
                assert (Hlen : List.length sts = n).
                { pose proof (start_list_length _ _ _ _ _ _ _ _ E2) as Len. unfold insts in Len. rewrite map_length, seq_length in Len. exact Len. }
                rewrite Hlen. unfold insts in N'. rewrite map_map in N'. cbn [snd] in N'.
                replace (repeat c n) with (map (fun _ : nat => c) (seq 0 n)); [exact N'|].
                clear. generalize 0. induction n as [|n IH]; intro k; [reflexivity|]. cbn. f_equal. apply IH.
             ++ exists (mkrec tn ((pre ++ [i]) ++ [0]) cnE 0). split; [exact C'|apply KeepB_cnt_at].
        * (* no instance *)
          assert (En : Z.to_nat nz = 0) by (apply Z.ltb_ge in Ez; lia). rewrite En in E2. cbn [insts seq map] in E2.
          destruct f; [discriminate|]. cbn [start_list] in E2. unfold ret in E2. inv E2. cbn [all_done] in H. mstep.
          exists M1. split; [exact Q1|]. split; [apply QM_frame; exact QM1|]. unfold post_stmt. cbn [is_done].
          exists cn. split; [|apply KeepB_refl]. eapply Wg_move; [|exact QM1]. eapply Wg_imp; [exact HW|].
          intros f0 res Hf0. exists (S f0). cbn [walk]. rewrite HG, Hd, Ez. exact Hf0.
    - (* run_block *)
      intros ctx ie ss i g r g' M0 M tn pre cn H Hl HQ Hgb Hi Hlt Hnf HW Hie.
      cbn [run_block] in H. destruct (nth_error ss i) as [s1|] eqn:Hn.
      + mstep as st g1 E1.
        pose proof (Eff_Fr _ _ _ (proj1 (start_eff orc imm f) _ _ _ _ _ _ E1)) as (FL1 & FR1 & _).
        destruct (IHs ctx ie s1 g st g1 M0 M tn pre i cn E1 Hl HQ (gblock_nth _ _ _ _ _ _ _ _ Hgb Hn) Hlt Hnf HW Hie) as (M1 & Q1 & F1 & P1).
        unfold post_stmt in P1. destruct (is_done st) eqn:D.
        * destruct P1 as (cn1 & HW1 & HK1).
          assert (Hi' : S i <= List.length ss) by (apply nth_error_Some; congruence).
          destruct (IHb ctx ie ss (S i) g1 r g' M0 M1 tn pre cn1 H ltac:(rewrite FL1; exact Hl) Q1 Hgb Hi' ltac:(lia) Hnf HW1
                        ltac:(rewrite (ie_keep _ _ _ _ HK1); exact Hie))
            as (M2 & Q2 & F2 & P2).
          exists M2. split; [exact Q2|]. split; [eapply FrameLt_trans; eassumption|].
          destruct r as [[j st2]|].
          -- destruct P2 as (s2 & A1 & A2 & A3 & r' & A4 & A5). exists s2. repeat split; try assumption.
             exists r'. split; [exact A4|eapply KeepB_trans; eassumption].
          -- destruct P2 as (cn2 & A1 & A2). exists cn2. split; [exact A1|eapply KeepB_trans; eassumption].
        * mstep. exists M1. split; [exact Q1|]. split; [exact F1|]. destruct P1 as (A2 & A3 & A4).
          exists s1. repeat split; assumption.
      + mstep. exists M. split; [exact HQ|]. split; [apply FrameLt_refl|]. exists cn. split; [|apply KeepB_refl].
        assert (Ei : i = List.length ss) by (apply nth_error_None in Hn; lia). subst i.
        eapply Wg_imp; [exact HW|]. intros f0 res Hf0. exists (S f0). cbn [walk].
        rewrite (gblock_end _ _ _ _ _ _ _ Hgb Hn (le_n _)). exact Hf0.
    - (* start_list *)
      intros ctx l g sts g' M0 M tn lim P j n cn H Hl HQ Hgl Hlt HK Hlen HB Hgi.
      cbn [start_list] in H. destruct l as [|[ie b] r].
      + mstep. cbn [List.length] in Hlen. rewrite Nat.add_0_r in Hlen. subst j.
        exists M. split; [exact HQ|]. split; [apply FrameLt_refl|]. split; [exact HB|exact I].
      + destruct Hgl as (Hcb & Hgb & Hgr). destruct Hgi as (Hi1 & Hir).
        destruct b as [?|t at_ ins body|?|? ? ?|? ?|? ? ?|? ? ?]; try discriminate Hcb.
        cbn [List.length] in Hlen.
        mstep as st g1 E1.
        pose proof (Eff_Fr _ _ _ (proj1 (start_eff orc imm f) _ _ _ _ _ _ E1)) as (FL1 & FR1 & _).
        destruct (IHc ctx ie t at_ ins body g st g1 M0 M tn lim P j n cn E1 Hl HQ Hgb Hlt HK ltac:(lia) HB Hi1) as (M1 & Q1 & F1 & B1 & N1).
        mstep as sts1 g2 E2.
        destruct (IHl ctx r g1 sts1 g2 M0 M1 tn lim P (S j) n cn E2 ltac:(rewrite FL1; exact Hl) Q1 Hgr ltac:(lia) HK ltac:(lia) B1 Hir)
          as (M2 & Q2 & F2 & B2 & N2).
        mstep. exists M2. split; [exact Q2|]. split; [eapply FrameLt_trans; eassumption|]. split; [exact B2|].
        cbn [map snd nest_list]. split; [|exact N2].
        eapply nest_frame; [|exact N1]. intros k Hk. apply F2.
        * destruct (proj1 (start_cids orc imm f) _ _ _ _ _ _ E1) as (_ & R1). specialize (R1 k Hk). lia.
        * destruct (proj1 (start_cids orc imm f) _ _ _ _ _ _ E1) as (_ & R1). specialize (R1 k Hk). lia.
    - (* loop_test *)
      intros ctx ie s k g st g' M0 M tn pre i cn H Hl HQ Hg Hlt Hnf HW Hie.
      cbn [loop_test] in H.
      destruct s as [n at_ ins|t at_ ins body|bs|e p fl|e b|v lim b|v lim c]; try discriminate.
      + (* while *)
        pose proof Hg as Hg0. cbn [guarded] in Hg. destruct Hg as (HG & Hb & HV).
        mstep as bb g1 E1.
        pose proof (Eff_Fr _ _ _ (decide_m_eff _ _ _ _ _ _ E1)) as (FL1 & FR1 & _).
        destruct (DQ_decide GK orc CH _ _ _ _ _ M0 M E1 HQ) as (M1 & Q1 & QM1 & Hd).
        destruct bb.
        * mstep as r g2 E2.
          pose proof (Eff_Fr _ _ _ (proj1 (proj2 (start_eff orc imm f)) _ _ _ _ _ _ _ E2)) as (FL2 & FR2 & _).
          destruct (IHb ctx ie b 0 g1 r g2 M0 M1 tn (pre ++ [i]) cn E2 ltac:(rewrite FL1; exact Hl) Q1 Hb ltac:(lia) ltac:(lia))
            as (M2 & Q2 & F2 & P2).
          { rewrite HG. exact I. }
          { eapply Wg_move; [|exact QM1]. eapply Wg_imp; [exact HW|].
            intros f0 res Hf0. exists f0. unfold ltest. rewrite HG, Hd. exact Hf0. }
          { rewrite ie_of_snoc, HV. exact Hie. }
          assert (F02 : FrameLt g ctx M M2) by (eapply FrameLt_trans; [apply QM_frame; exact QM1|exact F2|exact FR1]).
          destruct r as [[j st2]|].
          -- mstep. exists M2. split; [exact Q2|]. split; [exact F02|]. unfold post_stmt. cbn [is_done].
             destruct P2 as (s2 & Hn2 & SP & NE & r' & Hr' & HKp). split; [|split].
             ++ destruct SP as (r0 & A1 & A2 & A3 & A4 & A5). exists r0. split; [exact A1|]. split; [exact A2|].
                cbn [leafp loopsp]. rewrite Hn2. repeat split; assumption.
             ++ cbn [nest_ok]. rewrite Hn2. exact NE.
             ++ exists r'. split; [exact Hr'|]. eapply KeepB_inner; [|exact HKp]. discriminate.
          -- destruct P2 as (cn2 & HW2 & HK2).
             destruct (IHt ctx ie (XWhile e b) (S k) g2 st g' M0 M2 tn pre i cn2 H ltac:(rewrite FL2, FL1; exact Hl) Q2 Hg0
                           ltac:(lia) Hnf) as (M3 & Q3 & F3 & P3).
             { eapply Wg_imp; [exact HW2|]. intros f0 res Hf0. exists (S f0). cbn [leave]. rewrite unsnoc_app, HG.
               unfold ltest in Hf0. rewrite HG in Hf0. exact Hf0. }
             { erewrite ie_keep; [exact Hie|]. eapply KeepB_inner; [|exact HK2]. discriminate. }
             exists M3. split; [exact Q3|]. split; [eapply FrameLt_trans; [exact F02|exact F3|lia]|].
             assert (HK2' : KeepB pre cn cn2) by (eapply KeepB_inner; [|exact HK2]; discriminate).
             unfold post_stmt in *. destruct (is_done st).
             ++ destruct P3 as (cn3 & A1 & A2). exists cn3. split; [exact A1|eapply KeepB_trans; eassumption].
             ++ destruct P3 as (A1 & A2 & r' & A3 & A4). split; [exact A1|]. split; [exact A2|]. exists r'.
                split; [exact A3|eapply KeepB_trans; eassumption].
        * mstep. exists M1. split; [exact Q1|]. split; [apply QM_frame; exact QM1|]. unfold post_stmt. cbn [is_done].
          exists cn. split; [|apply KeepB_refl]. eapply Wg_move; [|exact QM1]. eapply Wg_imp; [exact HW|].
          intros f0 res Hf0. exists f0. unfold ltest. rewrite HG, Hd. exact Hf0.
      + (* counting loop *)
        pose proof Hg as Hg0. cbn [guarded] in Hg. destruct Hg as (HG & Hb & HV).
        mstep as nz g1 E1.
        pose proof (Eff_Fr _ _ _ (read_limit_eff _ _ _ _ _ _ E1)) as (FL1 & FR1 & _).
        destruct (DQ_limit GK orc CH _ _ _ _ _ M0 M E1 HQ) as (M1 & Q1 & QM1 & Hd).
        destruct (Z.of_nat k <? nz)%Z eqn:Ez.
        * mstep as r g2 E2.
          pose proof (Eff_Fr _ _ _ (proj1 (proj2 (start_eff orc imm f)) _ _ _ _ _ _ _ E2)) as (FL2 & FR2 & _).
          set (cn1 := setc (pre ++ [i]) k cn).
          destruct (IHb ctx ((v, k) :: ie) b 0 g1 r g2 M0 M1 tn (pre ++ [i]) cn1 E2 ltac:(rewrite FL1; exact Hl) Q1 Hb ltac:(lia) ltac:(lia))
            as (M2 & Q2 & F2 & P2).
          { rewrite HG. exact I. }
          { eapply Wg_move; [|exact QM1]. eapply Wg_imp; [exact HW|].
            intros f0 res Hf0. exists f0. unfold ltest. rewrite HG, Hd, Ez. exact Hf0. }
          { unfold ieq in *. rewrite ie_of_snoc, HV. unfold cn1. rewrite getc_setc_same. f_equal.
            rewrite (ie_keep _ _ _ _ (KeepB_setc pre i cn k)). exact Hie. }
          assert (F02 : FrameLt g ctx M M2) by (eapply FrameLt_trans; [apply QM_frame; exact QM1|exact F2|exact FR1]).
          assert (HK01 : KeepB pre cn cn1) by apply KeepB_setc.
          destruct r as [[j st2]|].
          -- mstep. exists M2. split; [exact Q2|]. split; [exact F02|]. unfold post_stmt. cbn [is_done].
             destruct P2 as (s2 & Hn2 & SP & NE & r' & Hr' & HKp). split; [|split].
             ++ destruct SP as (r0 & A1 & A2 & A3 & A4 & A5). exists r0. split; [exact A1|]. split; [exact A2|].
                cbn [leafp loopsp]. rewrite Hn2. split; [exact A3|]. split; [exact A4|].
                intros lp k0 [E|Hin]; [|apply A5; exact Hin]. inv E.
                rewrite A1 in Hr'. inv Hr'. rewrite (HKp (pre ++ [i]) (not_sext_self _)). apply getc_setc_same.
             ++ cbn [nest_ok]. rewrite Hn2. exact NE.
             ++ exists r'. split; [exact Hr'|]. eapply KeepB_trans; [exact HK01|]. eapply KeepB_inner; [|exact HKp]. discriminate.
          -- destruct P2 as (cn2 & HW2 & HK2).
             assert (Ek : getc (pre ++ [i]) cn2 = k).
             { rewrite (HK2 (pre ++ [i]) (not_sext_self _)). apply getc_setc_same. }
             destruct (IHt ctx ie (XCount v lim b) (S k) g2 st g' M0 M2 tn pre i cn2 H ltac:(rewrite FL2, FL1; exact Hl) Q2 Hg0
                           ltac:(lia) Hnf) as (M3 & Q3 & F3 & P3).
             { eapply Wg_imp; [exact HW2|]. intros f0 res Hf0. exists (S f0). cbn [leave]. rewrite unsnoc_app, HG, Ek.
               unfold ltest in Hf0. rewrite HG in Hf0. exact Hf0. }
             { erewrite ie_keep; [exact Hie|]. eapply KeepB_trans; [exact HK01|]. eapply KeepB_inner; [|exact HK2]. discriminate. }
             exists M3. split; [exact Q3|]. split; [eapply FrameLt_trans; [exact F02|exact F3|lia]|].
             assert (HK2' : KeepB pre cn cn2).
             { eapply KeepB_trans; [exact HK01|]. eapply KeepB_inner; [|exact HK2]. discriminate. }
             unfold post_stmt in *. destruct (is_done st).
             ++ destruct P3 as (cn3 & A1 & A2). exists cn3. split; [exact A1|eapply KeepB_trans; eassumption].
             ++ destruct P3 as (A1 & A2 & r' & A3 & A4). split; [exact A1|]. split; [exact A2|]. exists r'.
                split; [exact A3|eapply KeepB_trans; eassumption].
        * mstep. exists M1. split; [exact Q1|]. split; [apply QM_frame; exact QM1|]. unfold post_stmt. cbn [is_done].
          exists cn. split; [|apply KeepB_refl]. eapply Wg_move; [|exact QM1]. eapply Wg_imp; [exact HW|].
          intros f0 res Hf0. exists f0. unfold ltest. rewrite HG, Hd, Ez. exact Hf0.
    - (* branch / instance *)
      intros ctx ie t at_ ins body g st g' M0 M tn lim P j n cn H Hl HQ Hg Hlt HK Hj HB Hie.
      pose proof (DQ_lost _ _ _ _ _ _ HQ) as Hlost.
      cbn [start_stmt] in H. cbn [guarded] in Hg. destruct Hg as (-> & HG & HG0 & Hbody & HI & HV).
      mstep as id g1 E1. mstep as u2 g2 E2.
      destruct (tstart_N _ _ _ _ _ _ _ _ _ E1 E2) as (-> & B1 & B2 & B3 & _).
      set (p := P ++ [eidx lim j]) in *.
      set (nTS := mk TS t (mksite tn p) (g_tid g) (Some ctx) (subst_params ie ins)) in *.
      set (r1 := mkrec tn p (cnt_at lim P j cn) (n - S j)).
      set (M1 := start_upd M true nTS ctx r1).
      assert (Q2 : DQ M0 g2 M1).
      { unfold fresh_t in E1. inv E1.
        eapply DQ_emit; [exact E2|exact Hl|eapply DQ_same; [exact HQ|reflexivity|reflexivity]| |reflexivity].
        destruct j as [|j']; cbn [Bst] in HB.
        - destruct HB as (r & R1 & R2 & R3 & f' & Hf').
          assert (Ep : P ++ [0] = p) by (unfold p; destruct lim; reflexivity). rewrite Ep in Hf'.
          exact (istart_walk GK orc CH M true nTS ctx r tn p (cnt_at lim P 0 cn) (n - 1) Hlost eq_refl eq_refl eq_refl R1 R2 R3 (ex_intro _ f' Hf')
                             (chk_ok INS LV tn p (cnt_at lim P 0 cn) (n - 1) TS t (g_tid g) (Some ctx) ie ins HI Hie)).
        - unfold M1, r1. rewrite <- (sib_cnt_at tn lim P j' n cn (eidx lim j') HK).
          eapply (istart_sib GK orc CH M nTS ctx (mkrec tn (P ++ [eidx lim j']) (cnt_at lim P j' cn) (n - S j')) tn (P ++ [eidx lim j']) p (n - S (S j')));
            try eassumption; try reflexivity.
          + cbn [mkrec d_more]. lia.
          + unfold sibling, p. rewrite unsnoc_app. destruct lim as [lm|]; cbn in HK; rewrite HK; reflexivity.
          + cbn [mkrec d_cnt]. rewrite (sib_cnt_at tn lim P j' n cn (eidx lim j') HK). apply chk_ok; [exact HI|exact Hie]. }
      assert (C1 : grec ctx M1 = Some r1) by (apply start_upd_ctx; left; cbn; lia).
      destruct (dcall_rest f IHb ctx ie t tn p ins body g2 st g' M0 M1 (g_tid g) r1 H
                           ltac:(rewrite B1; exact Hl) Q2 B2 Hlt Hbody HG0 (start_upd_id _ nTS _ _) C1 eq_refl)
        as (M' & Q' & FR' & C' & N').
      exists M'. split; [exact Q'|]. split.
      + intros k Hk Hne. rewrite FR' by assumption. apply start_upd_other; [exact Hne|intros _; cbn; lia].
      + split; [|exact N']. cbn [Bst]. exact C'.
  Qed.
End StartD.

(* ===================================================================== *)
(* 9. the deliver family                                                   *)
(* ===================================================================== *)
Section DeliverD.
  Variable GK : name -> list nat -> gk.
  Variable INS : name -> list nat -> list param.
  Variable LV : name -> list nat -> option name.
  Notation CH := (chk_params INS LV).
  Variable orc : oracle.
  Variable imm : nat -> bool.

  Notation DQ := (DQ GK orc CH).
  Notation Wg := (Wg GK orc).

  Definition FrameD (g : G) (ctx : nat) (ids : list nat) (M M' : dst) : Prop :=
    forall k, k < g_tid g -> k <> ctx -> ~ In k ids -> grec k M' = grec k M.

  Definition cidok (g : G) (ctx : nat) (ids : list nat) : Prop :=
    NoDup ids /\ ~ In ctx ids /\ forall x, In x ids -> x < g_tid g.

  Lemma clear_mkrec : forall r tn p, d_task r = tn -> d_last r = Some p -> d_more r = 0 ->
                                     clear_first r = mkrec tn p (d_cnt r) 0.
  Proof. intros [t l c m fi] tn p H1 H2 H3. cbn in *. subst. reflexivity. Qed.

  Lemma samepos_mkrec : forall r r' tn p, same_pos r r' -> d_task r = tn -> d_last r = Some p -> d_more r = 0 -> d_first r' = None ->
                                          r' = mkrec tn p (d_cnt r) 0.
  Proof. intros r [t l c m fi] tn p (S1 & S2 & S3 & S4) H1 H2 H3 H4. cbn in *. subst. rewrite H2, H3. reflexivity. Qed.

  (* deliver into a task call (a statement of a block, a branch, an instance) *)
  Definition DCd (f : nat) : Prop :=
    forall ctx ie t at_ ins body st id g r g' M0 M tn q rc,
      deliver orc imm f ctx ie (XCall t at_ ins body) st id g = Ok (r, g') ->
      lst_all (g_ls g) -> DQ M0 g M -> guarded GK INS LV tn q (XCall t at_ ins body) -> wf (XCall t at_ ins body) st ->
      ctx < g_tid g -> cidok g ctx (cids st) -> grec ctx M = Some rc -> nest_ok M (XCall t at_ ins body) st ->
      match r with
      | None => True
      | Some st' =>
        exists M', DQ M0 g' M' /\ FrameD g ctx (cids st) M M' /\ nest_ok M' (XCall t at_ ins body) st' /\
                   exists rc', grec ctx M' = Some rc' /\ same_pos rc rc' /\ (is_done st' = true -> d_first rc' = None)
      end.

  Definition DDd (f : nat) : Prop :=
    forall ctx ie s st id g r g' M0 M tn pre i rc,
      deliver orc imm f ctx ie s st id g = Ok (r, g') ->
      lst_all (g_ls g) -> DQ M0 g M -> guarded GK INS LV tn (pre ++ [i]) s -> wf s st -> nofan (GK tn pre) ->
      ctx < g_tid g -> cidok g ctx (cids st) -> grec ctx M = Some rc ->
      spine_ok M ctx tn (pre ++ [i]) s st -> nest_ok M s st -> ieq (ie_of (LV tn) (d_cnt rc) pre) ie ->
      match r with
      | None => True
      | Some st' => exists M', DQ M0 g' M' /\ FrameD g ctx (cids st) M M' /\ post_stmt GK orc M' ctx tn pre i s st' (d_cnt rc)
      end.

  Definition DBd (f : nat) : Prop :=
    forall ctx ie ss i sti id g r g' M0 M tn pre rc,
      deliver_block orc imm f ctx ie ss i sti id g = Ok (r, g') ->
      lst_all (g_ls g) -> DQ M0 g M -> gblock GK INS LV tn pre ss -> wf_block ss i sti -> nofan (GK tn pre) ->
      ctx < g_tid g -> cidok g ctx (cids sti) -> grec ctx M = Some rc ->
      (forall s, nth_error ss i = Some s -> spine_ok M ctx tn (pre ++ [i]) s sti /\ nest_ok M s sti) ->
      ieq (ie_of (LV tn) (d_cnt rc) pre) ie ->
      match r with
      | None => True
      | Some r' =>
        exists M', DQ M0 g' M' /\ FrameD g ctx (cids sti) M M' /\
                   match r' with
                   | None => exists cn', Wg M' ctx tn (fun f => leave (GK tn) orc f pre cn' (ds_q M')) /\ KeepB pre (d_cnt rc) cn'
                   | Some (j, st) => exists s, nth_error ss j = Some s /\ spine_ok M' ctx tn (pre ++ [j]) s st /\ nest_ok M' s st /\
                                               exists r', grec ctx M' = Some r' /\ KeepB pre (d_cnt rc) (d_cnt r')
                   end
      end.

  Definition DLd (f : nat) : Prop :=
    forall ctx l sts id g r g' M0 M tn lim P j rc,
      deliver_list orc imm f ctx l sts id g = Ok (r, g') ->
      lst_all (g_ls g) -> DQ M0 g M -> glist GK INS LV lim tn P j l -> wf_list l sts ->
      ctx < g_tid g -> cidok g ctx (flat_map cids sts) -> grec ctx M = Some rc -> nest_list M (map snd l) sts ->
      match r with
      | None => True
      | Some sts' =>
        exists M', DQ M0 g' M' /\ FrameD g ctx (flat_map cids sts) M M' /\ nest_list M' (map snd l) sts' /\
                   exists rc', grec ctx M' = Some rc' /\ same_pos rc rc' /\ (all_done sts' = true -> d_first rc' = None)
      end.

  Lemma snd_insts : forall ie v c n, map snd (insts ie v c n) = repeat c n.
  Proof.
    intros ie v c n. unfold insts. rewrite map_map. cbn [snd]. generalize 0.
    induction n as [|n IH]; intro k; [reflexivity|]. cbn. f_equal. apply IH.
  Qed.

  Lemma F2_length : forall A B (R : A -> B -> Prop) l l', Forall2 R l l' -> List.length l = List.length l'.
  Proof. intros A B R l l' H. induction H; cbn; congruence. Qed.

  Lemma leafp_call : forall q t at_ ins body st, leafp q (XCall t at_ ins body) st = q.
  Proof. intros. destruct st; reflexivity. Qed.
  Lemma loopsp_call : forall q t at_ ins body st, loopsp q (XCall t at_ ins body) st = [].
  Proof. intros. destruct st; reflexivity. Qed.

  Lemma FrameD_lt : forall g g1 ctx ids M M1 M2,
      FrameD g ctx ids M M1 -> FrameLt g1 ctx M1 M2 -> g_tid g <= g_tid g1 -> FrameD g ctx ids M M2.
  Proof. intros g g1 ctx ids M M1 M2 H1 H2 Hle k Hk Hne Hni. rewrite H2 by (try lia; assumption). apply H1; assumption. Qed.

  Theorem deliver_dec : forall f, DCd f /\ DDd f /\ DBd f /\ DLd f.
  Proof.
    induction f as [|f IH].
    { split; [|split; [|split]]; red; intros; discriminate. }
    destruct IH as (IHc & IHd & IHb & IHl).
    destruct (start_dec GK INS LV orc imm f) as (STs & STb & STl & STt & STc).
    assert (DC : DCd (S f)).
    { intros ctx ie t at_ ins body st id g r g' M0 M tn q rc H Hl HQ Hg Hwf Hlt Hcid Hrc HN.
      cbn [deliver] in H. destruct st as [|id'|cid i sti|sts|bb i sti|k i sti|sts]; try (mstep; exact I).
      inversion Hwf as [| |? ? ? ? ? ? s1 ? Hn1 Hw1| | | | |]; subst.
      cbn [guarded] in Hg. destruct Hg as (-> & HG & HG0 & Hbody & _ & _).
      cbn [nest_ok] in HN. rewrite Hn1 in HN. destruct HN as (SP & NE).
      destruct Hcid as (ND & Hnin & Hb). cbn [cids] in ND, Hnin, Hb. inversion ND as [|? ? Hcn ND']; subst.
      pose proof SP as (rcid & RC1 & _).
      mstep as r1 g1 E1.
      pose proof (proj1 (proj2 (deliver_eff orc imm f)) _ _ _ _ _ _ _ _ _ E1) as DE.
      assert (PB := IHb cid [] body i sti id g r1 g1 M0 M t [] rcid E1 Hl HQ Hbody (ex_intro _ s1 (conj Hn1 Hw1))).
      assert (Hc1 : cid < g_tid g) by (apply Hb; left; reflexivity).
      assert (Hne : ctx <> cid) by (intro E; apply Hnin; left; congruence).
      assert (Hni : ~ In ctx (cids sti)) by (intro E; apply Hnin; right; exact E).
      destruct r1 as [[[j st1]|]|].
      - destruct PB as (M1 & Q1 & F1 & s2 & Hn2 & SP2 & NE2 & _).
        { rewrite HG0. exact I. }
        { exact Hc1. }
        { split; [exact ND'|]. split; [exact Hcn|]. intros x Hx. apply Hb. right. exact Hx. }
        { exact RC1. }
        { intros s Hs. assert (s = s1) by congruence. subst s. split; assumption. }
        { exact eq_refl. }
        mstep. exists M1. split; [exact Q1|]. split; [|split].
        + intros k Hk Hnk Hnik. apply F1; [exact Hk|intro; apply Hnik; left; congruence|intro; apply Hnik; right; assumption].
        + cbn [nest_ok]. rewrite Hn2. split; assumption.
        + exists rc. split; [rewrite (F1 ctx Hlt Hne Hni); exact Hrc|]. split; [repeat split|]. intro D; discriminate D.
      - destruct PB as (M1 & Q1 & F1 & cn' & (r3 & R1 & R2 & R3 & R4) & _).
        { rewrite HG0. exact I. }
        { exact Hc1. }
        { split; [exact ND'|]. split; [exact Hcn|]. intros x Hx. apply Hb. right. exact Hx. }
        { exact RC1. }
        { intros s Hs. assert (s = s1) by congruence. subst s. split; assumption. }
        { exact eq_refl. }
        cbn [dres] in DE.
        mstep as u2 g2 E2. mstep.
        destruct (R4 1 (None, cn', ds_q M1, 0)) as (f' & Hf'); [reflexivity|].
        set (nTF := mk TF t (mksite tn q) cid (Some ctx) (subst_params ie ins)) in *.
        assert (Hctx1 : grec ctx M1 = Some rc) by (rewrite (F1 ctx Hlt Hne Hni); exact Hrc).
        exists (fin_upd M1 nTF). split; [|split; [|split]].
        + eapply DQ_emit; [exact E2|rewrite (d_ls _ _ _ _ DE); exact Hl|exact Q1| |reflexivity].
          eapply iend; [apply (DQ_lost _ _ _ _ _ _ Q1)|reflexivity|exact R1|exact R3|]. exists f'. exact Hf'.
        + intros k Hk Hnk Hnik. rewrite (fin_upd_other _ nTF ctx) by (try reflexivity; exact Hnk).
          apply F1; [exact Hk|intro; apply Hnik; left; congruence|intro; apply Hnik; right; assumption].
        + exact I.
        + exists (clear_first rc). split.
          * unfold grec, fin_upd. cbn [nTF mk n_ctx ds_recs]. rewrite (assoc_touch_same _ _ _ Hctx1). reflexivity.
          * split; [destruct rc; repeat split|]. intros _. destruct rc; reflexivity.
      - mstep. exact I. }
    split; [exact DC|]. split; [|split].
    - (* deliver *)
      intros ctx ie s st id g r g' M0 M tn pre i rc H Hl HQ Hg Hwf Hnf Hlt Hcid Hrc SP HN Hie.
      destruct s as [n at_ ins|t at_ ins body|bs|e p fl|e b|v lim b|v lim c].
      + (* service *)
        cbn [deliver] in H. destruct st as [|id'|cid i0 sti|sts|bb i0 sti|k i0 sti|sts]; try (mstep; exact I).
        destruct (Nat.eqb id id'); [|mstep; exact I].
        mstep as u1 g1 E1. mstep.
        cbn [guarded] in Hg. destruct Hg as (-> & HG & _ & _).
        destruct SP as (r0 & A1 & A2 & A3 & A4 & _). assert (r0 = rc) by congruence. subst r0. cbn [leafp] in A3.
        set (nSF := mk SF n (mksite tn (pre ++ [i])) id (Some ctx) (subst_params ie ins)) in *.
        exists (fin_upd M nSF). split; [|split].
        * eapply DQ_emit; [exact E1|exact Hl|exact HQ| |reflexivity]. apply isf; [apply (DQ_lost _ _ _ _ _ _ HQ)|reflexivity].
        * intros k Hk Hnk _. apply (fin_upd_other _ nSF ctx); [reflexivity|exact Hnk].
        * unfold post_stmt. cbn [is_done]. exists (d_cnt rc). split; [|apply KeepB_refl].
          eapply Wg_after; [|apply resume_leaf; exact Hnf].
          unfold grec, fin_upd. cbn [nSF mk n_ctx ds_recs]. rewrite (assoc_touch_same _ _ _ Hrc).
          f_equal. apply clear_mkrec; assumption.
      + (* call *)
        pose proof (DC ctx ie t at_ ins body st id g r g' M0 M tn (pre ++ [i]) rc H Hl HQ Hg Hwf Hlt Hcid Hrc HN) as PC.
        destruct r as [st'|]; [|exact I].
        destruct PC as (M' & Q' & F' & N' & rc' & C' & SPos & Dn).
        exists M'. split; [exact Q'|]. split; [exact F'|].
        destruct SP as (r0 & A1 & A2 & A3 & A4 & _). assert (r0 = rc) by congruence. subst r0. rewrite leafp_call in A3.
        unfold post_stmt. destruct (is_done st') eqn:D.
        * exists (d_cnt rc). split; [|apply KeepB_refl]. eapply Wg_after; [|apply resume_leaf; exact Hnf].
          rewrite C'. f_equal. eapply (samepos_mkrec rc); [exact SPos|exact A2|exact A3|exact A4|auto].
        * destruct SPos as (S1 & S2 & S3 & S4). split; [|split; [exact N'|]].
          -- exists rc'. split; [exact C'|]. split; [congruence|]. rewrite leafp_call, loopsp_call.
             split; [congruence|]. split; [congruence|]. intros lp k0 [].
          -- exists rc'. split; [exact C'|]. rewrite S3. apply KeepB_refl.
      + (* parallel *)
        cbn [deliver] in H. destruct st as [|id'|cid i0 sti|sts|bb i0 sti|k i0 sti|sts]; try (mstep; exact I).
        mstep as r1 g1 E1. destruct r1 as [sts'|]; [|mstep; exact I].
        cbn [guarded] in Hg. destruct Hg as (HG & Hbs & _).
        inversion Hwf as [| | |? ? HF| | | |]; subst.
        cbn [cids] in Hcid. rewrite nest_par in HN.
        destruct (IHl ctx _ sts id g (Some sts') g1 M0 M tn None (pre ++ [i]) 0 rc E1 Hl HQ (glist_par _ _ _ _ _ _ _ _ Hbs)
                      (wf_list_map_intro _ _ _ HF) Hlt Hcid Hrc) as (M' & Q' & F' & N' & rc' & C' & SPos & Dn).
        { rewrite map_snd_pair. exact HN. }
        destruct SP as (r0 & A1 & A2 & A3 & A4 & _). assert (r0 = rc) by congruence. subst r0. cbn [leafp] in A3.
        destruct (all_done sts') eqn:D; mstep; (exists M'; split; [exact Q'|]; split; [exact F'|]; unfold post_stmt; cbn [is_done]).
        * exists (d_cnt rc). split; [|apply KeepB_refl].
          eapply Wg_after; [|eapply (resume_fan _ _ _ _ _ None); exact HG].
          rewrite C'. f_equal. eapply (samepos_mkrec rc); [exact SPos|exact A2|exact A3|exact A4|auto].
        * destruct SPos as (S1 & S2 & S3 & S4). split; [|split].
          -- exists rc'. split; [exact C'|]. split; [congruence|]. cbn [leafp loopsp].
             split; [congruence|]. split; [congruence|]. intros lp k0 [].
          -- rewrite nest_par. rewrite map_snd_pair in N'. exact N'.
          -- exists rc'. split; [exact C'|]. rewrite S3. apply KeepB_refl.
      + (* condition *)
        cbn [deliver] in H. destruct st as [|id'|cid i0 sti|sts|bb j sti|k i0 sti|sts]; try (mstep; exact I).
        mstep as r1 g1 E1.
        cbn [guarded] in Hg. destruct Hg as (HG & HG0 & HG1 & Hp & Hf & HV & HV0 & HV1).
        inversion Hwf as [| | | |? ? ? ? ? s1 ? Hn1 Hw1| | |]; subst.
        set (pre' := (pre ++ [i]) ++ [if bb then 0 else 1]).
        cbn [cids] in Hcid. cbn [nest_ok] in HN. rewrite Hn1 in HN.
        assert (SP1 : spine_ok M ctx tn (pre' ++ [j]) s1 sti).
        { destruct SP as (r0 & A1 & A2 & A3 & A4 & A5). cbn [leafp loopsp] in A3, A5. rewrite Hn1 in A3, A5.
          exists r0. repeat split; assumption. }
        assert (PB := IHb ctx ie _ j sti id g r1 g1 M0 M tn pre' rc E1 Hl HQ).
        assert (KI : forall a b0, KeepB pre' a b0 -> KeepB pre a b0).
        { intros a b0 HK. unfold pre' in HK. rewrite <- app_assoc in HK. eapply KeepB_inner; [|exact HK]. discriminate. }
        destruct r1 as [[[j' st1]|]|]; mstep; [| |exact I].
        * destruct PB as (M1 & Q1 & F1 & s2 & Hn2 & SP2 & NE2 & r' & Hr' & HK).
          { unfold pre'. destruct bb; assumption. }
          { exists s1. split; assumption. }
          { unfold pre'. destruct bb; [rewrite HG0|rewrite HG1]; exact I. }
          { exact Hlt. } { exact Hcid. } { exact Hrc. }
          { intros s Hs. assert (s = s1) by congruence. subst s. split; assumption. }
          { unfold pre'. destruct bb; rewrite ie_of_snoc; [rewrite HV0|rewrite HV1]; rewrite ie_of_snoc, HV; exact Hie. }
          exists M1. split; [exact Q1|]. split; [exact F1|]. unfold post_stmt. cbn [is_done]. split; [|split].
          -- destruct SP2 as (r0 & A1 & A2 & A3 & A4 & A5). exists r0. split; [exact A1|]. split; [exact A2|].
             cbn [leafp loopsp]. rewrite Hn2. repeat split; assumption.
          -- cbn [nest_ok]. rewrite Hn2. exact NE2.
          -- exists r'. split; [exact Hr'|apply KI; exact HK].
        * destruct PB as (M1 & Q1 & F1 & cn' & HW2 & HK).
          { unfold pre'. destruct bb; assumption. }
          { exists s1. split; assumption. }
          { unfold pre'. destruct bb; [rewrite HG0|rewrite HG1]; exact I. }
          { exact Hlt. } { exact Hcid. } { exact Hrc. }
          { intros s Hs. assert (s = s1) by congruence. subst s. split; assumption. }
          { unfold pre'. destruct bb; rewrite ie_of_snoc; [rewrite HV0|rewrite HV1]; rewrite ie_of_snoc, HV; exact Hie. }
          exists M1. split; [exact Q1|]. split; [exact F1|]. unfold post_stmt. cbn [is_done].
          exists cn'. split; [|apply KI; exact HK].
          eapply Wg_imp; [exact HW2|]. intros f0 res Hf0. exists (S f0). cbn [leave]. unfold pre'. rewrite unsnoc_app.
          fold pre'. assert (EG : GK tn pre' = GNone) by (unfold pre'; destruct bb; assumption). rewrite EG, unsnoc_app. exact Hf0.
      + (* while *)
        pose proof Hg as Hg0.
        cbn [deliver] in H. destruct st as [|id'|cid i0 sti|sts|bb i0 sti|k j sti|sts]; try (mstep; exact I).
        mstep as r1 g1 E1.
        pose proof (proj1 (proj2 (deliver_eff orc imm f)) _ _ _ _ _ _ _ _ _ E1) as DE.
        cbn [guarded] in Hg. destruct Hg as (HG & Hb & HV).
        inversion Hwf as [| | | | |? ? ? ? s1 ? Hn1 Hw1| |]; subst.
        cbn [cids] in Hcid. cbn [nest_ok] in HN. rewrite Hn1 in HN.
        assert (SP1 : spine_ok M ctx tn ((pre ++ [i]) ++ [j]) s1 sti).
        { destruct SP as (r0 & A1 & A2 & A3 & A4 & A5). cbn [leafp loopsp] in A3, A5. rewrite Hn1 in A3, A5.
          exists r0. repeat split; assumption. }
        assert (PB := IHb ctx ie b j sti id g r1 g1 M0 M tn (pre ++ [i]) rc E1 Hl HQ Hb (ex_intro _ s1 (conj Hn1 Hw1))).
        destruct r1 as [[[j' st1]|]|]; [| |mstep; exact I].
        * mstep. destruct PB as (M1 & Q1 & F1 & s2 & Hn2 & SP2 & NE2 & r' & Hr' & HK).
          { rewrite HG. exact I. } { exact Hlt. } { exact Hcid. } { exact Hrc. }
          { intros s Hs. assert (s = s1) by congruence. subst s. split; assumption. }
          { rewrite ie_of_snoc, HV. exact Hie. }
          exists M1. split; [exact Q1|]. split; [exact F1|]. unfold post_stmt. cbn [is_done]. split; [|split].
          -- destruct SP2 as (r0 & A1 & A2 & A3 & A4 & A5). exists r0. split; [exact A1|]. split; [exact A2|].
             cbn [leafp loopsp]. rewrite Hn2. repeat split; assumption.
          -- cbn [nest_ok]. rewrite Hn2. exact NE2.
          -- exists r'. split; [exact Hr'|]. eapply KeepB_inner; [|exact HK]. discriminate.
        * destruct PB as (M1 & Q1 & F1 & cn1 & HW1 & HK1).
          { rewrite HG. exact I. } { exact Hlt. } { exact Hcid. } { exact Hrc. }
          { intros s Hs. assert (s = s1) by congruence. subst s. split; assumption. }
          { rewrite ie_of_snoc, HV. exact Hie. }
          cbn [dres] in DE.
          mstep as st2 g2 E2. mstep.
          destruct (STt ctx ie (XWhile e b) (S k) g1 st2 g2 M0 M1 tn pre i cn1 E2 ltac:(rewrite (d_ls _ _ _ _ DE); exact Hl) Q1 Hg0
                        ltac:(pose proof (d_tid _ _ _ _ DE); lia) Hnf) as (M2 & Q2 & F2 & P2).
          { eapply Wg_imp; [exact HW1|]. intros f0 res Hf0. exists (S f0). cbn [leave]. rewrite unsnoc_app, HG.
            unfold ltest in Hf0. rewrite HG in Hf0. exact Hf0. }
          { erewrite ie_keep; [exact Hie|]. eapply KeepB_inner; [|exact HK1]. discriminate. }
          exists M2. split; [exact Q2|]. split; [eapply FrameD_lt; [exact F1|exact F2|exact (d_tid _ _ _ _ DE)]|].
          assert (HK1' : KeepB pre (d_cnt rc) cn1) by (eapply KeepB_inner; [|exact HK1]; discriminate).
          unfold post_stmt in *. destruct (is_done st2).
          -- destruct P2 as (cn3 & A1 & A2). exists cn3. split; [exact A1|eapply KeepB_trans; eassumption].
          -- destruct P2 as (A1 & A2 & r' & A3 & A4). split; [exact A1|]. split; [exact A2|]. exists r'.
             split; [exact A3|eapply KeepB_trans; eassumption].
      + (* counting loop *)
        pose proof Hg as Hg0.
        cbn [deliver] in H. destruct st as [|id'|cid i0 sti|sts|bb i0 sti|k j sti|sts]; try (mstep; exact I).
        mstep as r1 g1 E1.
        pose proof (proj1 (proj2 (deliver_eff orc imm f)) _ _ _ _ _ _ _ _ _ E1) as DE.
        cbn [guarded] in Hg. destruct Hg as (HG & Hb & HV).
        inversion Hwf as [| | | | | |? ? ? ? ? s1 ? Hn1 Hw1|]; subst.
        cbn [cids] in Hcid. cbn [nest_ok] in HN. rewrite Hn1 in HN.
        assert (Hk : getc (pre ++ [i]) (d_cnt rc) = k).
        { destruct SP as (r0 & A1 & A2 & A3 & A4 & A5). assert (r0 = rc) by congruence. subst r0.
          apply A5. cbn [loopsp]. left. reflexivity. }
        assert (SP1 : spine_ok M ctx tn ((pre ++ [i]) ++ [j]) s1 sti).
        { destruct SP as (r0 & A1 & A2 & A3 & A4 & A5). cbn [leafp loopsp] in A3, A5. rewrite Hn1 in A3, A5.
          exists r0. split; [exact A1|]. split; [exact A2|]. split; [exact A3|]. split; [exact A4|].
          intros lp k0 Hin. apply A5. right. exact Hin. }
        assert (PB := IHb ctx ((v, k) :: ie) b j sti id g r1 g1 M0 M tn (pre ++ [i]) rc E1 Hl HQ Hb (ex_intro _ s1 (conj Hn1 Hw1))).
        destruct r1 as [[[j' st1]|]|]; [| |mstep; exact I].
        * mstep. destruct PB as (M1 & Q1 & F1 & s2 & Hn2 & SP2 & NE2 & r' & Hr' & HK).
          { rewrite HG. exact I. } { exact Hlt. } { exact Hcid. } { exact Hrc. }
          { intros s Hs. assert (s = s1) by congruence. subst s. split; assumption. }
          { unfold ieq in *. rewrite ie_of_snoc, HV, Hk. f_equal. exact Hie. }
          exists M1. split; [exact Q1|]. split; [exact F1|]. unfold post_stmt. cbn [is_done]. split; [|split].
          -- destruct SP2 as (r0 & A1 & A2 & A3 & A4 & A5). exists r0. split; [exact A1|]. split; [exact A2|].
             cbn [leafp loopsp]. rewrite Hn2. split; [exact A3|]. split; [exact A4|].
             intros lp k0 [E|Hin]; [|apply A5; exact Hin]. inv E.
             assert (r0 = r') by congruence. subst r0. rewrite (HK (pre ++ [i]) (not_sext_self _)). reflexivity.
          -- cbn [nest_ok]. rewrite Hn2. exact NE2.
          -- exists r'. split; [exact Hr'|]. eapply KeepB_inner; [|exact HK]. discriminate.
        * destruct PB as (M1 & Q1 & F1 & cn1 & HW1 & HK1).
          { rewrite HG. exact I. } { exact Hlt. } { exact Hcid. } { exact Hrc. }
          { intros s Hs. assert (s = s1) by congruence. subst s. split; assumption. }
          { unfold ieq in *. rewrite ie_of_snoc, HV, Hk. f_equal. exact Hie. }
          cbn [dres] in DE.
          mstep as st2 g2 E2. mstep.
          assert (Ek : getc (pre ++ [i]) cn1 = k) by (rewrite (HK1 (pre ++ [i]) (not_sext_self _)); exact Hk).
          destruct (STt ctx ie (XCount v lim b) (S k) g1 st2 g2 M0 M1 tn pre i cn1 E2 ltac:(rewrite (d_ls _ _ _ _ DE); exact Hl) Q1 Hg0
                        ltac:(pose proof (d_tid _ _ _ _ DE); lia) Hnf) as (M2 & Q2 & F2 & P2).
          { eapply Wg_imp; [exact HW1|]. intros f0 res Hf0. exists (S f0). cbn [leave]. rewrite unsnoc_app, HG, Ek.
            unfold ltest in Hf0. rewrite HG in Hf0. exact Hf0. }
          { erewrite ie_keep; [exact Hie|]. eapply KeepB_inner; [|exact HK1]. discriminate. }
          exists M2. split; [exact Q2|]. split; [eapply FrameD_lt; [exact F1|exact F2|exact (d_tid _ _ _ _ DE)]|].
          assert (HK1' : KeepB pre (d_cnt rc) cn1) by (eapply KeepB_inner; [|exact HK1]; discriminate).
          unfold post_stmt in *. destruct (is_done st2).
          -- destruct P2 as (cn3 & A1 & A2). exists cn3. split; [exact A1|eapply KeepB_trans; eassumption].
          -- destruct P2 as (A1 & A2 & r' & A3 & A4). split; [exact A1|]. split; [exact A2|]. exists r'.
             split; [exact A3|eapply KeepB_trans; eassumption].
      + (* parallel loop *)
        cbn [deliver] in H. destruct st as [|id'|cid i0 sti|sts|bb i0 sti|k i0 sti|sts]; try (mstep; exact I).
        mstep as r1 g1 E1. destruct r1 as [sts'|]; [|mstep; exact I].
        cbn [guarded] in Hg. destruct Hg as (HG & Hcc & Hcs & _).
        inversion Hwf as [| | | | | | |? ? ? ? HF]; subst.
        cbn [cids] in Hcid. rewrite nest_parloop in HN.
        pose proof (proj2 (proj2 (deliver_wf orc imm f)) _ _ _ _ _ _ _ E1 (wf_list_insts _ _ _ _ HF)) as Hw'. cbn [wf_lo] in Hw'.
        assert (Hlen : List.length sts' = List.length sts).
        { apply F2_length in Hw'. unfold insts in Hw'. rewrite map_length, seq_length in Hw'. congruence. }
        destruct (IHl ctx _ sts id g (Some sts') g1 M0 M tn (Some lim) (pre ++ [i]) 0 rc E1 Hl HQ (glist_insts _ _ _ _ _ _ _ _ _ _ _ Hcc Hcs)
                      (wf_list_insts _ _ _ _ HF) Hlt Hcid Hrc) as (M' & Q' & F' & N' & rc' & C' & SPos & Dn).
        { rewrite snd_insts. exact HN. }
        destruct SP as (r0 & A1 & A2 & A3 & A4 & _). assert (r0 = rc) by congruence. subst r0. cbn [leafp] in A3.
        destruct (all_done sts') eqn:D; mstep; (exists M'; split; [exact Q'|]; split; [exact F'|]; unfold post_stmt; cbn [is_done]).
        * exists (d_cnt rc). split; [|apply KeepB_refl].
          eapply Wg_after; [|eapply (resume_fan _ _ _ _ _ (Some lim) 0); exact HG].
          rewrite C'. f_equal. eapply (samepos_mkrec rc); [exact SPos|exact A2|exact A3|exact A4|auto].
        * destruct SPos as (S1 & S2 & S3 & S4). split; [|split].
          -- exists rc'. split; [exact C'|]. split; [congruence|]. cbn [leafp loopsp].
             split; [congruence|]. split; [congruence|]. intros lp k0 [].
          -- rewrite nest_parloop, Hlen. rewrite snd_insts in N'. exact N'.
          -- exists rc'. split; [exact C'|]. rewrite S3. apply KeepB_refl.
    - (* deliver_block *)
      intros ctx ie ss i sti id g r g' M0 M tn pre rc H Hl HQ Hgb (s1 & Hn1 & Hw1) Hnf Hlt Hcid Hrc Hsp Hie.
      cbn [deliver_block] in H. rewrite Hn1 in H. mstep as r1 g1 E1. destruct r1 as [st1|]; [|mstep; exact I].
      pose proof (proj1 (deliver_eff orc imm f) _ _ _ _ _ _ _ _ E1) as DE. cbn [dres] in DE.
      destruct (Hsp s1 Hn1) as (SP & NE).
      destruct (IHd ctx ie s1 sti id g (Some st1) g1 M0 M tn pre i rc E1 Hl HQ (gblock_nth _ _ _ _ _ _ _ _ Hgb Hn1) Hw1 Hnf Hlt Hcid Hrc SP NE Hie)
        as (M1 & Q1 & F1 & P1).
      unfold post_stmt in P1. destruct (is_done st1) eqn:D.
      + destruct P1 as (cn1 & HW1 & HK1).
        mstep as r2 g2 E2. mstep.
        assert (Hi' : S i <= List.length ss) by (apply nth_error_Some; congruence).
        destruct (STb ctx ie ss (S i) g1 r2 g2 M0 M1 tn pre cn1 E2 ltac:(rewrite (d_ls _ _ _ _ DE); exact Hl) Q1 Hgb Hi'
                      ltac:(pose proof (d_tid _ _ _ _ DE); lia) Hnf HW1
                      ltac:(rewrite (ie_keep _ _ _ _ HK1); exact Hie)) as (M2 & Q2 & F2 & P2).
        exists M2. split; [exact Q2|]. split; [eapply FrameD_lt; [exact F1|exact F2|exact (d_tid _ _ _ _ DE)]|].
        destruct r2 as [[j st2]|].
        * destruct P2 as (s2 & A1 & A2 & A3 & r' & A4 & A5). exists s2. repeat split; try assumption.
          exists r'. split; [exact A4|eapply KeepB_trans; eassumption].
        * destruct P2 as (cn2 & A1 & A2). exists cn2. split; [exact A1|eapply KeepB_trans; eassumption].
      + mstep. exists M1. split; [exact Q1|]. split; [exact F1|]. destruct P1 as (A2 & A3 & A4).
        exists s1. repeat split; assumption.
    - (* deliver_list *)
      intros ctx l sts id g r g' M0 M tn lim P j rc H Hl HQ Hgl Hwf Hlt Hcid Hrc HN.
      cbn [deliver_list] in H. destruct l as [|[ie b] br]; [mstep; exact I|]. destruct sts as [|st sr]; [mstep; exact I|].
      destruct Hgl as (Hcb & Hgb & Hgr).
      destruct b as [?|t at_ ins body|?|? ? ?|? ?|? ? ?|? ? ?]; try discriminate Hcb.
      inversion Hwf as [|? ? ? ? Hw1 Hwr]; subst. cbn [snd] in Hw1.
      cbn [map snd nest_list] in HN. destruct HN as (N1 & Nr).
      destruct Hcid as (ND & Hnin & Hb). cbn [flat_map] in ND, Hnin, Hb.
      mstep as r1 g1 E1. destruct r1 as [st1|].
      + mstep.
        destruct (IHc ctx ie t at_ ins body st id g (Some st1) g1 M0 M tn (P ++ [eidx lim j]) rc E1 Hl HQ Hgb Hw1 Hlt)
          as (M' & Q' & F' & N' & rc' & C' & SPos & Dn).
        { split; [eapply NoDup_app_l'; exact ND|]. split; [intro E; apply Hnin; apply in_or_app; left; exact E|].
          intros x Hx. apply Hb. apply in_or_app. left. exact Hx. }
        { exact Hrc. } { exact N1. }
        exists M'. split; [exact Q'|]. split; [|split].
        * intros k Hk Hnk Hnik. apply F'; [exact Hk|exact Hnk|]. intro E. apply Hnik. cbn [flat_map]. apply in_or_app. left. exact E.
        * cbn [map snd nest_list]. split; [exact N'|]. eapply nest_list_frame; [|exact Nr].
          intros k Hk. apply F'.
          -- apply Hb. apply in_or_app. right. exact Hk.
          -- intro E. subst k. apply Hnin. apply in_or_app. right. exact Hk.
          -- intro E. eapply (RefC07.NoDup_app_disj _ _ k ND); eassumption.
        * exists rc'. split; [exact C'|]. split; [exact SPos|]. intro D. cbn [all_done] in D. apply andb_prop in D. apply Dn. apply D.
      + pose proof (proj1 (deliver_eff orc imm f) _ _ _ _ _ _ _ _ E1) as DE. cbn [dres] in DE. subst g1.
        mstep as r2 g2 E2. destruct r2 as [sr'|]; mstep; [|exact I].
        destruct (IHl ctx br sr id g (Some sr') g2 M0 M tn lim P (S j) rc E2 Hl HQ Hgr Hwr Hlt)
          as (M' & Q' & F' & N' & rc' & C' & SPos & Dn).
        { split; [eapply NoDup_app_r; exact ND|]. split; [intro E; apply Hnin; apply in_or_app; right; exact E|].
          intros x Hx. apply Hb. apply in_or_app. right. exact Hx. }
        { exact Hrc. } { exact Nr. }
        exists M'. split; [exact Q'|]. split; [|split].
        * intros k Hk Hnk Hnik. apply F'; [exact Hk|exact Hnk|]. intro E. apply Hnik. cbn [flat_map]. apply in_or_app. right. exact E.
        * cbn [map snd nest_list]. split; [|exact N']. eapply nest_frame; [|exact N1].
          intros k Hk. apply F'.
          -- apply Hb. apply in_or_app. left. exact Hk.
          -- intro E. subst k. apply Hnin. apply in_or_app. left. exact Hk.
          -- intro E. eapply (RefC07.NoDup_app_disj _ _ k ND); eassumption.
        * exists rc'. split; [exact C'|]. split; [exact SPos|]. intro D. cbn [all_done] in D. apply andb_prop in D. apply Dn. apply D.
  Qed.
End DeliverD.

(* ===================================================================== *)
(* 10. the executable monitor follows the ideal one or gives up            *)
(* ===================================================================== *)
Section Exec.
  Variable GK : name -> list nat -> gk.
  Variable orc : oracle.
  Variable chk : drec -> notif -> bool.

  Lemma expect_fuel : forall f F r q res, expect GK orc f r q = Some (Some res) ->
      expect GK orc F r q = Some (Some res) \/ expect GK orc F r q = Some None.
  Proof.
    unfold expect. intros f F r q res H. destruct (d_last r) as [p|].
    - destruct (resume (GK (d_task r)) p) as [[pre i]|]; [|discriminate]. injection H as H.
      destruct (walk (GK (d_task r)) orc F pre i (d_cnt r) (qstart r q)) as [res'|] eqn:E; [left|right; reflexivity].
      f_equal. f_equal. eapply walk_det; eassumption.
    - injection H as H.
      destruct (walk (GK (d_task r)) orc F [] 0 (d_cnt r) (qstart r q)) as [res'|] eqn:E; [left|right; reflexivity].
      f_equal. f_equal. eapply walk_det; eassumption.
  Qed.

  Lemma on_start_fuel : forall f F r p q r', on_start GK orc f r p q = Next r' ->
      on_start GK orc F r p q = Next r' \/ on_start GK orc F r p q = GiveUp.
  Proof.
    unfold on_start. intros f F r p q r' H. destruct (d_more r); [|left; exact H].
    destruct (expect GK orc f r q) as [[res|]|] eqn:E; try discriminate.
    destruct (expect_fuel f F _ _ _ E) as [E'|E']; rewrite E'; [left; exact H|right; reflexivity].
  Qed.

  Lemma on_end_fuel : forall f F r q r', on_end GK orc f r q = Next r' ->
      on_end GK orc F r q = Next r' \/ on_end GK orc F r q = GiveUp.
  Proof.
    unfold on_end. intros f F r q r' H. destruct (d_more r); [|left; exact H].
    destruct (expect GK orc f r q) as [[res|]|] eqn:E; try discriminate.
    destruct (expect_fuel f F _ _ _ E) as [E'|E']; rewrite E'; [left; exact H|right; reflexivity].
  Qed.

  Lemma dec_notif_fuel : forall f F M n M1, dec_notif GK orc chk f M n = Some M1 -> ds_lost M1 = false ->
      exists X, dec_notif GK orc chk F M n = Some X /\ (X = M1 \/ ds_lost X = true).
  Proof.
    intros f F M n M1 H Hl. unfold dec_notif in *.
    assert (ST : forall add,
               match n_ctx n with
               | None => Some {| ds_recs := add (ds_recs M); ds_q := ds_q M; ds_lost := false |}
               | Some c =>
                 match assoc c (ds_recs M) with
                 | None => None
                 | Some r =>
                   if negb (Nat.eqb (d_task r) (st_task (n_site n))) then None
                   else match on_start GK orc f r (st_path (n_site n)) (ds_q M) with
                        | Reject => None
                        | GiveUp => Some (lose M)
                        | Next r' => if chk r' n then Some {| ds_recs := add (setr c r' (ds_recs M)); ds_q := ds_q M; ds_lost := false |} else None
                        end
                 end
               end = Some M1 ->
               exists X,
                 match n_ctx n with
                 | None => Some {| ds_recs := add (ds_recs M); ds_q := ds_q M; ds_lost := false |}
                 | Some c =>
                   match assoc c (ds_recs M) with
                   | None => None
                   | Some r =>
                     if negb (Nat.eqb (d_task r) (st_task (n_site n))) then None
                     else match on_start GK orc F r (st_path (n_site n)) (ds_q M) with
                          | Reject => None
                          | GiveUp => Some (lose M)
                          | Next r' => if chk r' n then Some {| ds_recs := add (setr c r' (ds_recs M)); ds_q := ds_q M; ds_lost := false |} else None
                          end
                   end
                 end = Some X /\ (X = M1 \/ ds_lost X = true)).
    { intros add H0. destruct (n_ctx n) as [c|]; [|exists M1; split; [exact H0|left; reflexivity]].
      destruct (assoc c (ds_recs M)) as [r|]; [|discriminate].
      destruct (negb (Nat.eqb (d_task r) (st_task (n_site n)))); [discriminate|].
      destruct (on_start GK orc f r (st_path (n_site n)) (ds_q M)) as [| |r'] eqn:E; [discriminate| |].
      - inv H0. cbn in Hl. discriminate.
      - destruct (on_start_fuel _ F _ _ _ _ E) as [E'|E']; rewrite E'.
        + exists M1. split; [exact H0|left; reflexivity].
        + exists (lose M). split; [reflexivity|right; reflexivity]. }
    destruct (n_kind n).
    - exact (ST (fun l => setr (n_id n) (new_rec (n_name n)) l) H).
    - destruct (assoc (n_id n) (ds_recs M)) as [r|]; [|discriminate].
      destruct (on_end GK orc f r (ds_q M)) as [| |r'] eqn:E; [discriminate| |].
      + inv H. cbn in Hl. discriminate.
      + destruct (on_end_fuel _ F _ _ _ E) as [E'|E']; rewrite E'.
        * exists M1. split; [exact H|left; reflexivity].
        * exists (lose M). split; [reflexivity|right; reflexivity].
    - exact (ST (fun l => l) H).
    - exists M1. split; [exact H|left; reflexivity].
  Qed.

  Lemma dec_entry_fuel : forall F M e M1, istep GK orc chk M e M1 ->
      exists X, dec_entry GK orc chk F M e = Some X /\ (X = M1 \/ ds_lost X = true).
  Proof.
    intros F M e M1 (H1 & H2 & f & Hf). unfold dec_entry in *. rewrite H1 in *.
    destruct e as [[|l] n r|o kk nm id fl|v cc|fi|fi fr]; try (exists M1; split; [exact Hf|left; reflexivity]).
    eapply dec_notif_fuel; eassumption.
  Qed.

  Lemma dec_log_lost : forall F l X, ds_lost X = true -> dec_log GK orc chk F X l = Some X.
  Proof. intros F. induction l as [|e l IH]; intros X H; [reflexivity|]. cbn [dec_log]. unfold dec_entry. rewrite H. apply IH. exact H. Qed.

  Lemma dec_log_fuel : forall F M l M', ilog GK orc chk M l M' ->
      exists X, dec_log GK orc chk F M l = Some X /\ (X = M' \/ ds_lost X = true).
  Proof.
    intros F M l M' H. induction H as [M H|M e M1 l M2 Hs _ IH].
    - exists M. split; [reflexivity|left; reflexivity].
    - destruct (dec_entry_fuel F _ _ _ Hs) as (X & E & [->|Hx]); cbn [dec_log]; rewrite E.
      + exact IH.
      + exists X. split; [apply dec_log_lost; exact Hx|right; exact Hx].
  Qed.

  Lemma dec_run_lost : forall F tr X, ds_lost X = true -> dec_run GK orc chk F X tr = true.
  Proof.
    intros F. induction tr as [|r t IH]; intros X H; [reflexivity|]. cbn [dec_run]. rewrite dec_log_lost by exact H. apply IH. exact H.
  Qed.
End Exec.

(* ===================================================================== *)
(* 11. the API level                                                       *)
(* ===================================================================== *)
Section ApiD.
  Variable GK : name -> list nat -> gk.
  Variable INS : name -> list nat -> list param.
  Variable LV : name -> list nat -> option name.
  Notation CH := (chk_params INS LV).
  Variable orc : oracle.
  Variable imm : nat -> bool.
  Variable body : list xstmt.
  Hypothesis Hbody : guarded_body GK INS LV body.

  Notation DQ := (DQ GK orc CH).

  Definition rootinv (s : sched) (M : dst) : Prop :=
    match sc_root s with
    | Some (RCall cid i sti) =>
      0 < g_tid (sc_g s) /\ cidok (sc_g s) 0 (cids sti) /\ (exists rc, grec 0 M = Some rc) /\
      forall s1, nth_error body i = Some s1 -> spine_ok M 0 production_task ([] ++ [i]) s1 sti /\ nest_ok M s1 sti
    | _ => True
    end.

  Definition DInv (s : sched) (L : life) (M : dst) : Prop :=
    RefC07.Inv body s L /\ RefProgress.PInv body s /\ ds_q M = g_q (sc_g s) /\ ds_lost M = false /\ rootinv s M.

  Lemma finish_root_dec : forall M0 g u g' M cn,
      finish_root g = Ok (u, g') -> lst_all (g_ls g) -> DQ M0 g M ->
      Wg GK orc M 0 production_task (fun f => leave (GK production_task) orc f [] cn (ds_q M)) ->
      exists M', DQ M0 g' M'.
  Proof.
    intros M0 g u g' M cn H Hl HQ (r & R1 & R2 & R3 & R4). unfold finish_root in H.
    mstep as u1 g1 E1. unfold set_running in H. inv H.
    destruct (R4 1 (None, cn, ds_q M, 0) eq_refl) as (f' & Hf').
    set (nTF := mk TF production_task root_site 0 None []) in *.
    exists (fin_upd M nTF).
    eapply DQ_same; [eapply DQ_emit; [exact E1|exact Hl|exact HQ| |reflexivity]|reflexivity|reflexivity].
    eapply iend; [apply (DQ_lost _ _ _ _ _ _ HQ)|reflexivity|exact R1|exact R3|]. exists f'. exact Hf'.
  Qed.

  Lemma start_step_dec : forall f s M st g',
      lst_all (g_ls (sc_g s)) -> g_tid (sc_g s) = 0 -> ds_q M = g_q (sc_g s) -> ds_lost M = false ->
      (set_running true ;;;
       id <- fresh_t ;;
       emit (mk TS production_task root_site id None []) ;;;
       r <- run_block orc imm f id [] body 0 ;;
       match r with
       | None => finish_root ;;; ret RDone
       | Some (i, st) => ret (RCall id i st)
       end) (clear_log (sc_g s)) = Ok (st, g') ->
      exists M', ilog GK orc CH M (rev (g_log g')) M' /\ ds_q M' = g_q g' /\
                 rootinv {| sc_g := g'; sc_root := Some st |} M'.
  Proof.
    intros f s M st g' Hl Htid Hq Hlost H.
    set (g0 := clear_log (sc_g s)) in *.
    assert (Q0 : DQ M g0 M) by (split; [constructor; exact Hlost|exact Hq]).
    mstep as u1 g1 E1. unfold set_running in E1. inv E1.
    set (g1 := g0 <| g_running := true |>) in *.
    assert (Hl1 : lst_all (g_ls g1)) by exact Hl.
    mstep as id g2 E2. mstep as u3 g3 E3.
    destruct (tstart_N _ _ _ _ _ _ _ _ _ E2 E3) as (-> & B1 & B2 & B3 & _).
    change (g_tid g1) with (g_tid (sc_g s)) in *. rewrite Htid in *.
    set (nTS := mk TS production_task root_site 0 None []) in *.
    set (M1 := {| ds_recs := setr 0 (new_rec production_task) (ds_recs M); ds_q := ds_q M; ds_lost := false |}).
    assert (Q3 : DQ M g3 M1).
    { unfold fresh_t in E2. inv E2.
      eapply DQ_emit; [exact E3|exact Hl1|eapply DQ_same; [exact Q0|reflexivity|reflexivity]| |reflexivity].
      apply (iroot GK orc CH M nTS); [exact Hlost|reflexivity|reflexivity]. }
    assert (Hl3 : lst_all (g_ls g3)) by (rewrite B1; exact Hl1).
    mstep as r g4 E4.
    pose proof (Eff_Fr _ _ _ (proj1 (proj2 (start_eff orc imm f)) _ _ _ _ _ _ _ E4)) as (FL4 & FR4 & _).
    destruct Hbody as (HB0 & HB1).
    destruct (proj1 (proj2 (start_dec GK INS LV orc imm f)) 0 [] body 0 g3 r g4 M M1 production_task [] [] E4 Hl3 Q3 HB1
                    ltac:(lia) ltac:(lia)) as (M4 & Q4 & F4 & P4).
    { rewrite HB0. exact I. }
    { apply Wg_new. unfold grec, M1. cbn [ds_recs]. apply assoc_setr_same. }
    { exact eq_refl. }
    destruct r as [[i sti]|].
    - mstep. exists M4. split; [apply Q4|]. split; [apply Q4|]. unfold rootinv. cbn [sc_root sc_g].
      destruct P4 as (s1 & Hn & SP & NE & r' & Hr' & _).
      destruct (proj1 (proj2 (start_cids orc imm f)) _ _ _ _ _ _ _ E4) as (ND & R). cbn [cids_opt] in ND, R.
      split; [lia|]. split; [|split; [exists r'; exact Hr'|]].
      + split; [exact ND|]. split; [intro Hin; specialize (R 0 Hin); lia|]. intros x Hx. specialize (R x Hx). lia.
      + intros s0 Hs0. assert (s0 = s1) by congruence. subst s0. split; assumption.
    - destruct P4 as (cn' & HW & _). mstep as u5 g5 E5. mstep.
      destruct (finish_root_dec M _ _ _ M4 cn' E5 ltac:(rewrite FL4; exact Hl3) Q4 HW) as (M5 & Q5).
      exists M5. split; [apply Q5|]. split; [apply Q5|exact I].
  Qed.

  Lemma finish_step_dec : forall f s M id i sti st g',
      lst_all (g_ls (sc_g s)) -> wf_block body i sti -> ds_q M = g_q (sc_g s) -> ds_lost M = false ->
      rootinv s M -> sc_root s = Some (RCall 0 i sti) ->
      (unawait id ;;;
       r <- deliver_block orc imm f 0 [] body i sti id ;;
       match r with
       | None => lift Unsupported
       | Some None => finish_root ;;; ret RDone
       | Some (Some (j, st')) => ret (RCall 0 j st')
       end) (clear_log (sc_g s)) = Ok (st, g') ->
      exists M', ilog GK orc CH M (rev (g_log g')) M' /\ ds_q M' = g_q g' /\
                 rootinv {| sc_g := g'; sc_root := Some st |} M'.
  Proof.
    intros f s M id i sti st g' Hl Hwf Hq Hlost HR Hroot H.
    unfold rootinv in HR. rewrite Hroot in HR. destruct HR as (Ht & Hc & (rc & Hrc) & Hsp).
    set (g0 := clear_log (sc_g s)) in *.
    assert (Q0 : DQ M g0 M) by (split; [constructor; exact Hlost|exact Hq]).
    mstep as u1 g1 E1. unfold unawait in E1.
    match type of E1 with match ?X with _ => _ end = _ => destruct X as [aw1|] end; [|discriminate].
    unfold set_awaited in E1. inv E1.
    set (g1 := g0 <| g_awaited := aw1 |>) in *.
    assert (Hl1 : lst_all (g_ls g1)) by exact Hl.
    assert (Q1 : DQ M g1 M) by (eapply DQ_same; [exact Q0|reflexivity|reflexivity]).
    mstep as r g2 E2.
    pose proof (proj1 (proj2 (deliver_eff orc imm f)) _ _ _ _ _ _ _ _ _ E2) as DE.
    destruct Hbody as (HB0 & HB1).
    pose proof (proj1 (proj2 (proj2 (deliver_dec GK INS LV orc imm f))) 0 [] body i sti id g1 r g2 M M production_task [] rc
                      E2 Hl1 Q1 HB1 Hwf ltac:(rewrite HB0; exact I) Ht Hc Hrc Hsp eq_refl) as PB.
    destruct r as [[[j st']|]|]; [| |discriminate].
    - mstep. cbn [dres] in DE. destruct PB as (M2 & Q2 & F2 & s2 & Hn2 & SP2 & NE2 & r' & Hr' & _).
      exists M2. split; [apply Q2|]. split; [apply Q2|]. unfold rootinv. cbn [sc_root sc_g].
      destruct Hc as (ND & Hnin & Hb).
      destruct (proj1 (proj2 (deliver_cids orc imm f)) _ _ _ _ _ _ _ _ _ E2 ND Hb) as (N1 & R1). cbn [cids_opt] in N1, R1.
      pose proof (d_tid _ _ _ _ DE) as Ht2. change (g_tid g1) with (g_tid (sc_g s)) in *.
      split; [lia|]. split; [|split; [exists r'; exact Hr'|]].
      + split; [exact N1|]. split.
        * intro Hin. destruct (R1 0 Hin) as [Ho|Hr]; [contradiction|lia].
        * intros x Hx. destruct (R1 x Hx) as [Ho|Hr]; [specialize (Hb x Ho); lia|lia].
      + intros s0 Hs0. assert (s0 = s2) by congruence. subst s0. split; assumption.
    - cbn [dres] in DE. destruct PB as (M2 & Q2 & F2 & cn' & HW & _). mstep as u5 g5 E5. mstep.
      destruct (finish_root_dec M _ _ _ M2 cn' E5 ltac:(rewrite (d_ls _ _ _ _ DE); exact Hl1) Q2 HW) as (M5 & Q5).
      exists M5. split; [apply Q5|]. split; [apply Q5|exact I].
  Qed.

  Lemma api_dec : forall f s L M c b s',
      DInv s L M -> api_call orc imm f body s c = Ok (b, s') ->
      exists L' M', ilog GK orc CH M (cr_log (observe b s')) M' /\ DInv s' L' M'.
  Proof.
    intros f s L M c b s' (HI & HP & Hq & Hlost & HR) H.
    destruct (RefC07.api_step orc imm body f s L c b s' HI H) as (L' & _ & HI').
    pose proof (RefProgress.api_pinv orc imm body _ _ _ _ _ HP H) as HP'.
    change (cr_log (observe b s')) with (rev (g_log (sc_g s'))).
    assert (QS : g_log (sc_g s') = [] -> g_q (sc_g s') = g_q (sc_g s) -> g_tid (sc_g s') = g_tid (sc_g s) ->
                 sc_root s' = sc_root s ->
                 exists L' M', ilog GK orc CH M (rev (g_log (sc_g s'))) M' /\ DInv s' L' M').
    { intros E1 E2 E3 E4. exists L', M. rewrite E1. split; [constructor; exact Hlost|].
      split; [exact HI'|]. split; [exact HP'|]. split; [congruence|]. split; [exact Hlost|].
      unfold rootinv in *. rewrite E4. destruct (sc_root s) as [[|id'|cid i sti|sts|bb i sti|k i sti|sts]|]; try exact I.
      unfold cidok in *. rewrite E3. exact HR. }
    assert (FIN : forall M', ilog GK orc CH M (rev (g_log (sc_g s'))) M' /\ ds_q M' = g_q (sc_g s') /\ rootinv s' M' ->
                  exists L' M', ilog GK orc CH M (rev (g_log (sc_g s'))) M' /\ DInv s' L' M').
    { intros M' (X1 & X2 & X3). exists L', M'. split; [exact X1|]. split; [exact HI'|]. split; [exact HP'|].
      split; [exact X2|]. split; [apply (ilog_lost _ _ _ _ _ _ X1)|exact X3]. }
    destruct c as [|id| |k l|o|o]; cbn [api_call] in H.
    - destruct (sc_root s) as [r0|] eqn:Hroot.
      + inv H. apply QS; reflexivity || (cbn; congruence).
      + match type of H with match ?X with _ => _ end = _ => destruct X as [[st g']| | |] eqn:E end;
          try discriminate. inv H.
        pose proof HI as (Hl & Hr). rewrite Hroot in Hr. destruct Hr as [_ Htid].
        destruct (start_step_dec f _ M _ _ Hl Htid Hq Hlost E) as (M' & X). apply (FIN M'). exact X.
    - change (g_awaited (clear_log (sc_g s))) with (g_awaited (sc_g s)) in H.
      destruct (mem id (g_awaited (sc_g s))).
      + destruct (sc_root s) as [[|id'|cid i sti|sts|bb i sti|k i sti|sts]|] eqn:Hroot; try discriminate.
        match type of H with match ?X with _ => _ end = _ => destruct X as [[st g']| | |] eqn:E end;
          try discriminate. inv H.
        pose proof HI as (Hl & Hr). rewrite Hroot in Hr. destruct Hr as (-> & _).
        pose proof HP as (_ & HPI). rewrite Hroot in HPI. destruct HPI as (_ & Hwf).
        destruct (finish_step_dec f _ M id _ _ _ _ Hl Hwf Hq Hlost HR Hroot E) as (M' & X). apply (FIN M'). exact X.
      + inv H. apply QS; reflexivity.
    - inv H. apply QS; reflexivity.
    - destruct (existsb _ (g_ls (clear_log (sc_g s)))); inv H; apply QS; reflexivity.
    - inv H. apply QS; reflexivity.
    - destruct (remove_first (Nat.eqb o) (g_obs (clear_log (sc_g s)))); [|discriminate]. inv H. apply QS; reflexivity.
  Qed.

  Theorem decide_run_ref : forall F f cs s L M X tr,
      DInv s L M -> X = M \/ ds_lost X = true -> run_script orc imm f body s cs = Ok tr ->
      dec_run GK orc CH F X tr = true.
  Proof.
    intros F f cs. induction cs as [|c cs IH]; intros s L M X tr HA HX H; cbn [run_script] in H.
    - inv H. reflexivity.
    - destruct (api_call orc imm f body s c) as [[b s']| | |] eqn:E; try discriminate.
      cbn [rbind] in H.
      destruct (run_script orc imm f body s' cs) as [t| | |] eqn:E2; try discriminate.
      cbn [rbind] in H. inv H.
      destruct HX as [->|HX]; [|apply dec_run_lost; exact HX].
      destruct (api_dec _ _ _ _ _ _ _ HA E) as (L' & M' & X1 & X2).
      destruct (dec_log_fuel GK orc CH F _ _ _ X1) as (X & D1 & D2).
      cbn [dec_run]. rewrite D1. eapply IH; eassumption.
  Qed.
End ApiD.

(* the additional test can only be weakened: it never changes the state of the monitor *)
Section ChkMono.
  Variable GK : name -> list nat -> gk.
  Variable orc : oracle.
  Variables chk1 chk2 : drec -> notif -> bool.
  Variable F : nat.
  Hypothesis Hc : forall r n, chk1 r n = true -> chk2 r n = true.

  Lemma dec_notif_weaken : forall M n M1, dec_notif GK orc chk1 F M n = Some M1 -> dec_notif GK orc chk2 F M n = Some M1.
  Proof.
    intros M n M1. unfold dec_notif. destruct (n_kind n); try (intro H; exact H);
      (destruct (n_ctx n) as [c|]; [|intro H; exact H]; destruct (assoc c (ds_recs M)) as [r|]; [|intro H; exact H];
       destruct (negb (Nat.eqb (d_task r) (st_task (n_site n)))); [intro H; exact H|];
       destruct (on_start GK orc F r (st_path (n_site n)) (ds_q M)) as [| |r']; try (intro H; exact H);
       destruct (chk1 r' n) eqn:E; [rewrite (Hc _ _ E); intro H; exact H|discriminate]).
  Qed.

  Lemma dec_log_weaken : forall l M M1, dec_log GK orc chk1 F M l = Some M1 -> dec_log GK orc chk2 F M l = Some M1.
  Proof.
    induction l as [|e l IH]; intros M M1 H; [exact H|]. cbn [dec_log] in *.
    destruct (dec_entry GK orc chk1 F M e) as [M2|] eqn:E; [|discriminate].
    assert (E2 : dec_entry GK orc chk2 F M e = Some M2).
    { unfold dec_entry in *. destruct (ds_lost M); [exact E|]. destruct e as [[|l0] n r|o kk nm id fl|v cc|fi|fi fr]; try exact E.
      apply dec_notif_weaken. exact E. }
    rewrite E2. apply IH. exact H.
  Qed.

  Lemma dec_run_weaken : forall tr M, dec_run GK orc chk1 F M tr = true -> dec_run GK orc chk2 F M tr = true.
  Proof.
    induction tr as [|r t IH]; intros M H; [reflexivity|]. cbn [dec_run] in *.
    destruct (dec_log GK orc chk1 F M (cr_log r)) as [M1|] eqn:E; [|discriminate].
    rewrite (dec_log_weaken _ _ _ E). apply IH. exact H.
  Qed.
End ChkMono.

(* Every run of the reference semantics -- every oracle, set of immediately completed services,
   fuel, script, monitor fuel, every body whose positions are classified as GK / INS / LV say --
   satisfies the decision-following monitor with the parameter test, hence without it. *)
Theorem params_with_ref : forall GK INS LV orc imm body f cs tr F,
    guarded_body GK INS LV body ->
    run_script orc imm f body sched0 cs = Ok tr -> holds_check_with GK orc (chk_params INS LV) F tr = true.
Proof.
  intros GK INS LV orc imm body f cs tr F HB H. unfold holds_check_with.
  eapply (decide_run_ref GK INS LV orc imm body HB F f cs sched0 life0 dst0 dst0); [|left; reflexivity|exact H].
  split; [|split; [apply RefProgress.PInv_sched0|repeat split]].
  split; [apply lst_all_default|]. cbn. split; reflexivity.
Qed.

Theorem decide_with_ref : forall GK INS LV orc imm body f cs tr F,
    guarded_body GK INS LV body ->
    run_script orc imm f body sched0 cs = Ok tr -> holds_decide_with GK orc F tr = true.
Proof.
  intros GK INS LV orc imm body f cs tr F HB H. unfold holds_decide_with, holds_check_with.
  eapply dec_run_weaken; [|exact (params_with_ref GK INS LV orc imm body f cs tr F HB H)]. reflexivity.
Qed.

(* ===================================================================== *)
(* 12. the call-tree unfolding produces guarded bodies                     *)
(* ===================================================================== *)
Lemma blk_all_end : forall (P : nat -> xstmt -> Prop) (E : nat -> Prop) (g : nat -> stmt -> res xstmt) ss i xs,
    (forall k s x, nth_error ss k = Some s -> g (i + k) s = Ok x -> P (i + k) x) ->
    E (i + List.length ss) ->
    (fix blk (i : nat) (ss : list stmt) {struct ss} : res (list xstmt) :=
       match ss with
       | [] => Ok []
       | s1 :: r => rbind (g i s1) (fun x => rbind (blk (S i) r) (fun xs => Ok (x :: xs)))
       end) i ss = Ok xs -> all_end P E i xs.
Proof.
  intros P E g. induction ss as [|s1 r IHr]; intros i xs Hg HE H.
  - inv H. cbn in *. rewrite Nat.add_0_r in HE. exact HE.
  - destruct (g i s1) as [x| | |] eqn:E1; try discriminate. cbn [rbind] in H.
    match type of H with rbind ?X _ = _ => destruct X as [xs'| | |] eqn:E2 end; try discriminate.
    cbn [rbind] in H. inv H. split.
    + specialize (Hg 0 s1 x eq_refl). rewrite Nat.add_0_r in Hg. apply Hg. exact E1.
    + apply (IHr (S i) xs'); [| |exact E2].
      * intros k s x0 Hk Hx. replace (S i + k) with (i + S k) in * by lia. apply (Hg (S k) s x0 Hk Hx).
      * cbn [List.length] in HE. replace (S i + List.length r) with (i + S (List.length r)) by lia. exact HE.
Qed.

Lemma block_all_end : forall (P : nat -> xstmt -> Prop) (E : nat -> Prop) (g : list nat -> nat -> stmt -> res xstmt) pre ss i xs,
    (forall k s x, nth_error ss k = Some s -> g pre (i + k) s = Ok x -> P (i + k) x) ->
    E (i + List.length ss) ->
    (fix block (pre : list nat) (i : nat) (ss : list stmt) {struct ss} : res (list xstmt) :=
       match ss with
       | [] => Ok []
       | s1 :: r => rbind (g pre i s1) (fun x => rbind (block pre (S i) r) (fun xs => Ok (x :: xs)))
       end) pre i ss = Ok xs -> all_end P E i xs.
Proof.
  intros P E g pre. induction ss as [|s1 r IHr]; intros i xs Hg HE H.
  - inv H. cbn in *. rewrite Nat.add_0_r in HE. exact HE.
  - destruct (g pre i s1) as [x| | |] eqn:E1; try discriminate. cbn [rbind] in H.
    match type of H with rbind ?X _ = _ => destruct X as [xs'| | |] eqn:E2 end; try discriminate.
    cbn [rbind] in H. inv H. split.
    + specialize (Hg 0 s1 x eq_refl). rewrite Nat.add_0_r in Hg. apply Hg. exact E1.
    + apply (IHr (S i) xs'); [| |exact E2].
      * intros k s x0 Hk Hx. replace (S i + k) with (i + S k) in * by lia. apply (Hg (S k) s x0 Hk Hx).
      * cbn [List.length] in HE. replace (S i + List.length r) with (i + S (List.length r)) by lia. exact HE.
Qed.

Lemma calls_all_from_nth : forall (P : nat -> xstmt -> Prop) (g : nat -> call -> res xstmt) ss i xs,
    (forall k x c, nth_error ss k = Some c -> g (i + k) c = Ok x -> P (i + k) x) ->
    (fix calls (i : nat) (l : list call) {struct l} : res (list xstmt) :=
       match l with
       | [] => Ok []
       | c :: r => rbind (g i c) (fun x => rbind (calls (S i) r) (fun xs => Ok (x :: xs)))
       end) i ss = Ok xs -> all_from P i xs.
Proof.
  intros P g. induction ss as [|s1 r IHr]; intros i xs Hg H.
  - inv H. exact I.
  - destruct (g i s1) as [x| | |] eqn:E1; try discriminate. cbn [rbind] in H.
    match type of H with rbind ?X _ = _ => destruct X as [xs'| | |] eqn:E2 end; try discriminate.
    cbn [rbind] in H. inv H. split.
    + specialize (Hg 0 x s1 eq_refl). rewrite Nat.add_0_r in Hg. apply Hg. exact E1.
    + apply (IHr (S i) xs'); [|exact E2]. intros k x0 c Hk Hx.
      replace (S i + k) with (i + S k) in * by lia. apply (Hg (S k) x0 c Hk Hx).
Qed.

Definition gblk_at (body : list stmt) (pre : list nat) (ss : list stmt) : Prop :=
  (forall p, p <> [] -> gk_path body (pre ++ p) = gk_path ss p) /\
  (forall p, p <> [] -> ins_path body (pre ++ p) = ins_path ss p) /\
  (forall p, p <> [] -> lv_path body (pre ++ p) = lv_path ss p).

Lemma gblk_at_root : forall body, gblk_at body [] body.
Proof. intros body. repeat split; intros p _; reflexivity. Qed.

Section UnfoldGuarded.
  Variable tasks : list task.

  Lemma gk_at_nil : forall t, gk_at tasks t [] = GNone.
  Proof. intro t. unfold gk_at. destruct (find_task t tasks); reflexivity. Qed.

  Lemma gk_path_end : forall ss, gk_path ss [List.length ss] = GNone.
  Proof. intro ss. cbn [gk_path]. assert (nth_error ss (List.length ss) = None) as -> by (apply nth_error_None; lia). reflexivity. Qed.

  Lemma unfold_guarded : forall f tn t0 pre i ss s x,
      find_task tn tasks = Some t0 -> gblk_at (t_body t0) pre ss -> nth_error ss i = Some s ->
      unfold_stmt tasks f tn (pre ++ [i]) s = Ok x -> guarded (gk_at tasks) (ins_at tasks) (lv_at tasks) tn (pre ++ [i]) x.
  Proof.
    induction f as [|f IH]; intros tn t0 pre i ss s x Hft Hblk Hn H; [discriminate|].
    cbn [unfold_stmt] in H.
    assert (KA : forall p, p <> [] -> gk_at tasks tn (pre ++ p) = gk_path ss p).
    { intros p Hp. unfold gk_at. rewrite Hft. apply Hblk. exact Hp. }
    assert (KAI : forall p, p <> [] -> ins_at tasks tn (pre ++ p) = ins_path ss p).
    { intros p Hp. unfold ins_at. rewrite Hft. apply Hblk. exact Hp. }
    assert (KAV : forall p, p <> [] -> lv_at tasks tn (pre ++ p) = lv_path ss p).
    { intros p Hp. unfold lv_at. rewrite Hft. apply Hblk. exact Hp. }
    assert (SUB : forall b1 q1 ss1,
               (forall p, p <> [] -> gk_path ss (i :: q1 ++ p) = gk_path ss1 p) ->
               (forall p, p <> [] -> ins_path ss (i :: q1 ++ p) = ins_path ss1 p) ->
               (forall p, p <> [] -> lv_path ss (i :: q1 ++ p) = lv_path ss1 p) ->
               b1 = (pre ++ [i]) ++ q1 -> gblk_at (t_body t0) b1 ss1).
    { intros b1 q1 ss1 A1 A2 A3 ->. destruct Hblk as (B1 & B2 & B3).
      repeat split; intros p Hp; rewrite <- !app_assoc; cbn [app];
        [rewrite (B1 (i :: q1 ++ p)) by discriminate; apply A1|rewrite (B2 (i :: q1 ++ p)) by discriminate; apply A2
         |rewrite (B3 (i :: q1 ++ p)) by discriminate; apply A3]; exact Hp. }
    assert (DC : forall pth c y,
               gk_at tasks tn pth = GLeaf -> ins_at tasks tn pth = c_ins c -> lv_at tasks tn pth = None ->
               match find_task (c_name c) tasks with
               | Some t =>
                 rbind
                   ((fix blk (i : nat) (ss : list stmt) {struct ss} : res (list xstmt) :=
                       match ss with
                       | [] => Ok []
                       | s1 :: r =>
                         rbind (unfold_stmt tasks f (t_name t) [i] s1)
                               (fun x : xstmt => rbind (blk (S i) r) (fun xs : list xstmt => Ok (x :: xs)))
                       end) 0 (t_body t))
                   (fun body : list xstmt =>
                      Ok (XCall (c_name c) {| st_task := tn; st_path := pth |} (c_ins c) body))
               | None => Exn KeyError
               end = Ok y -> is_call y = true /\ guarded (gk_at tasks) (ins_at tasks) (lv_at tasks) tn pth y).
    { intros pth c y HL HI HV Hy. destruct (find_task (c_name c) tasks) as [t|] eqn:Ft; [|discriminate].
      match type of Hy with rbind ?X _ = _ => destruct X as [body| | |] eqn:E end; try discriminate.
      cbn [rbind] in Hy. inv Hy. split; [reflexivity|]. cbn [guarded]. split; [reflexivity|]. split; [exact HL|].
      split; [apply gk_at_nil|]. split; [|split; [exact HI|exact HV]].
      pose proof (find_task_name _ _ _ Ft) as Hname.
      apply (blk_all_end (fun k s1 => guarded (gk_at tasks) (ins_at tasks) (lv_at tasks) (c_name c) ([] ++ [k]) s1)
                         (fun k => gk_at tasks (c_name c) ([] ++ [k]) = GNone)
                         (fun k s1 => unfold_stmt tasks f (t_name t) [k] s1)) in E; [exact E| |].
      - intros k s1 x1 Hk Hx. cbn [Nat.add] in *. rewrite <- Hname.
        apply (IH (t_name t) t [] k (t_body t) s1 x1); [rewrite Hname; exact Ft|apply gblk_at_root|exact Hk|exact Hx].
      - cbn [Nat.add app]. unfold gk_at. rewrite Ft. apply gk_path_end. }
    assert (BL : forall pre0 ss0 xs,
               gblk_at (t_body t0) pre0 ss0 ->
               (fix block (pre : list nat) (i : nat) (ss : list stmt) {struct ss} : res (list xstmt) :=
                  match ss with
                  | [] => Ok []
                  | s1 :: r =>
                    rbind (unfold_stmt tasks f tn (pre ++ [i]) s1)
                          (fun x : xstmt => rbind (block pre (S i) r) (fun xs : list xstmt => Ok (x :: xs)))
                  end) pre0 0 ss0 = Ok xs ->
               all_end (fun k s1 => guarded (gk_at tasks) (ins_at tasks) (lv_at tasks) tn (pre0 ++ [k]) s1)
                       (fun k => gk_at tasks tn (pre0 ++ [k]) = GNone) 0 xs).
    { intros pre0 ss0 xs Hb Hx.
      apply (block_all_end (fun k s1 => guarded (gk_at tasks) (ins_at tasks) (lv_at tasks) tn (pre0 ++ [k]) s1)
                           (fun k => gk_at tasks tn (pre0 ++ [k]) = GNone)
                           (fun pre i s1 => unfold_stmt tasks f tn (pre ++ [i]) s1)) in Hx; [exact Hx| |].
      - intros k s1 x1 Hk Hx1. cbn [Nat.add] in *. eapply IH; eassumption.
      - cbn [Nat.add]. unfold gk_at. rewrite Hft. rewrite (proj1 Hb [List.length ss0]) by discriminate. apply gk_path_end. }
    pose proof (KA [i] ltac:(discriminate)) as Ki. cbn [gk_path] in Ki. rewrite Hn in Ki.
    assert (K2 : forall j, gk_at tasks tn ((pre ++ [i]) ++ [j]) = gk_path ss [i; j]).
    { intro j. rewrite <- app_assoc. cbn [app]. apply KA. discriminate. }
    assert (K2I : forall j, ins_at tasks tn ((pre ++ [i]) ++ [j]) = ins_path ss [i; j]).
    { intro j. rewrite <- app_assoc. cbn [app]. apply KAI. discriminate. }
    assert (K2V : forall j, lv_at tasks tn ((pre ++ [i]) ++ [j]) = lv_path ss [i; j]).
    { intro j. rewrite <- app_assoc. cbn [app]. apply KAV. discriminate. }
    pose proof (KAI [i] ltac:(discriminate)) as KiI. cbn [ins_path] in KiI. rewrite Hn in KiI.
    pose proof (KAV [i] ltac:(discriminate)) as KiV. cbn [lv_path] in KiV. rewrite Hn in KiV.
    destruct s as [n ins outs|c|cs|e body|par v lim body|e p fl].
    - inv H. cbn [guarded]. split; [reflexivity|]. split; [exact Ki|]. split; [first [exact KiI|exact eq_refl]|exact KiV].
    - apply DC in H; [apply H|exact Ki|exact KiI|exact KiV].
    - match type of H with rbind ?X _ = _ => destruct X as [bs| | |] eqn:E end; try discriminate.
      cbn [rbind] in H. inv H. cbn [guarded].
      assert (Hlen : List.length bs = List.length cs).
      { eapply (calls_length (fun j c => match find_task (c_name c) tasks with
               | Some t =>
                 rbind
                   ((fix blk (i0 : nat) (ss : list stmt) {struct ss} : res (list xstmt) :=
                       match ss with
                       | [] => Ok []
                       | s1 :: r0 =>
                         rbind (unfold_stmt tasks f (t_name t) [i0] s1)
                               (fun x : xstmt => rbind (blk (S i0) r0) (fun xs : list xstmt => Ok (x :: xs)))
                       end) 0 (t_body t))
                   (fun body : list xstmt =>
                      Ok (XCall (c_name c) {| st_task := tn; st_path := (pre ++ [i]) ++ [j] |} (c_ins c) body))
               | None => Exn KeyError
               end)). exact E. }
      split; [rewrite Ki, Hlen; reflexivity|]. split; [|exact KiV].
      apply (calls_all_from_nth (fun j b => is_call b = true /\ guarded (gk_at tasks) (ins_at tasks) (lv_at tasks) tn ((pre ++ [i]) ++ [j]) b)
               (fun j c => match find_task (c_name c) tasks with
               | Some t =>
                 rbind
                   ((fix blk (i0 : nat) (ss : list stmt) {struct ss} : res (list xstmt) :=
                       match ss with
                       | [] => Ok []
                       | s1 :: r0 =>
                         rbind (unfold_stmt tasks f (t_name t) [i0] s1)
                               (fun x : xstmt => rbind (blk (S i0) r0) (fun xs : list xstmt => Ok (x :: xs)))
                       end) 0 (t_body t))
                   (fun body : list xstmt =>
                      Ok (XCall (c_name c) {| st_task := tn; st_path := (pre ++ [i]) ++ [j] |} (c_ins c) body))
               | None => Exn KeyError
               end)) in E; [exact E|].
      intros j y c Hj Hy. cbn [Nat.add] in *. eapply DC; [| | |exact Hy].
      + rewrite K2. cbn [gk_path]. rewrite Hn.
        assert (j < List.length cs) as Hlt by (apply nth_error_Some; congruence).
        apply Nat.ltb_lt in Hlt. rewrite Hlt. reflexivity.
      + rewrite K2I. cbn [ins_path]. rewrite Hn, Hj. reflexivity.
      + rewrite K2V. cbn [lv_path]. rewrite Hn. reflexivity.
    - match type of H with rbind ?X _ = _ => destruct X as [b| | |] eqn:E end; try discriminate.
      cbn [rbind] in H. inv H. cbn [guarded]. split; [exact Ki|]. split; [|exact KiV]. eapply BL; [|exact E].
      apply (SUB _ [] _); [| | |rewrite app_nil_r; reflexivity]; intros p Hp; cbn [app gk_path ins_path lv_path]; rewrite Hn;
        (destruct p; [contradiction|reflexivity]).
    - destruct par.
      + destruct body as [|[n0 i0 o0|c|cs0|e0 b0|p0 v0 l0 b0|e0 p0 f0] [|s2 r2]]; try discriminate.
        match type of H with rbind ?X _ = _ => destruct X as [y| | |] eqn:E end; try discriminate.
        cbn [rbind] in H. inv H. cbn [guarded]. split; [exact Ki|].
        assert (X : is_call y = true /\ guarded (gk_at tasks) (ins_at tasks) (lv_at tasks) tn ((pre ++ [i]) ++ [0]) y).
        { apply DC in E; [exact E| | |].
          - rewrite K2. cbn [gk_path]. rewrite Hn. reflexivity.
          - rewrite K2I. cbn [ins_path]. rewrite Hn. reflexivity.
          - rewrite K2V. cbn [lv_path]. rewrite Hn. reflexivity. }
        split; [apply X|]. split; [apply X|exact KiV].
      + match type of H with rbind ?X _ = _ => destruct X as [b| | |] eqn:E end; try discriminate.
        cbn [rbind] in H. inv H. cbn [guarded]. split; [exact Ki|]. split; [|exact KiV]. eapply BL; [|exact E].
        apply (SUB _ [] _); [| | |rewrite app_nil_r; reflexivity]; intros p Hp; cbn [app gk_path ins_path lv_path]; rewrite Hn;
          (destruct p; [contradiction|reflexivity]).
    - match type of H with rbind ?X _ = _ => destruct X as [xp| | |] eqn:E1 end; try discriminate.
      cbn [rbind] in H.
      match type of H with rbind ?X _ = _ => destruct X as [xf| | |] eqn:E2 end; try discriminate.
      cbn [rbind] in H. inv H. cbn [guarded].
      split; [exact Ki|]. split; [|split; [|split; [|split; [|split; [exact KiV|split]]]]].
      + rewrite K2. cbn [gk_path]. rewrite Hn. reflexivity.
      + rewrite K2. cbn [gk_path]. rewrite Hn. reflexivity.
      + eapply BL; [|exact E1].
        apply (SUB _ [0] _); [| | |reflexivity]; intros q Hq; cbn [app gk_path ins_path lv_path]; rewrite Hn; reflexivity.
      + eapply BL; [|exact E2].
        apply (SUB _ [1] _); [| | |reflexivity]; intros q Hq; cbn [app gk_path ins_path lv_path]; rewrite Hn; reflexivity.
      + rewrite K2V. cbn [lv_path]. rewrite Hn. reflexivity.
      + rewrite K2V. cbn [lv_path]. rewrite Hn. reflexivity.
  Qed.

  Lemma unfold_program_guarded : forall f body,
      unfold_program tasks f = Ok body -> guarded_body (gk_at tasks) (ins_at tasks) (lv_at tasks) body.
  Proof.
    intros f body H. unfold unfold_program in H.
    destruct (find_task production_task tasks) as [t|] eqn:Ft; [|discriminate].
    split; [apply gk_at_nil|]. unfold gblock.
    apply (blk_all_end (fun k s1 => guarded (gk_at tasks) (ins_at tasks) (lv_at tasks) production_task ([] ++ [k]) s1)
                       (fun k => gk_at tasks production_task ([] ++ [k]) = GNone)
                       (fun k s1 => unfold_stmt tasks f production_task [k] s1)) in H; [exact H| |].
    - intros k s1 x1 Hk Hx. cbn [Nat.add] in *.
      apply (unfold_guarded f production_task t [] k (t_body t) s1 x1 Ft (gblk_at_root _) Hk Hx).
    - cbn [Nat.add app]. unfold gk_at. rewrite Ft. apply gk_path_end.
  Qed.
End UnfoldGuarded.

Theorem decide_programs : forall (c : runcase) (tr : list callrec) F,
    run_ref c = Ok tr ->
    holds_decide_with (gk_at (p_tasks (rc_prog c))) (orc_of (rc_vals c)) F tr = true.
Proof.
  intros c tr F H. unfold run_ref in H.
  destruct (existsb _ (rc_react c)); [discriminate|].
  destruct (unfold_program (p_tasks (rc_prog c)) 200) as [body| | |] eqn:U; try discriminate.
  cbn [rbind] in H. eapply decide_with_ref; [|exact H]. eapply unfold_program_guarded. exact U.
Qed.

Theorem C04_decide_programs : forall (c : runcase) (tr : list callrec), run_ref c = Ok tr -> mon_decide c tr = true.
Proof. intros c tr H. exact (decide_programs c tr decide_fuel H). Qed.

Theorem C05_iter_programs : forall (c : runcase) (tr : list callrec), run_ref c = Ok tr -> mon_decide c tr = true.
Proof. exact C04_decide_programs. Qed.

(* ===================================================================== *)
(* 13. the monitors of C04 and C05 accept every reference trace             *)
(* ===================================================================== *)
Theorem C04_programs : forall (c : runcase) (tr : list callrec), run_ref c = Ok tr -> mon_C04 c tr = true.
Proof.
  intros c tr H. unfold mon_C04.
  rewrite (C04_context_monitors_programs c tr H), (C02_seq_programs c tr H), (C04_decide_programs c tr H). reflexivity.
Qed.

Theorem C05_programs : forall (c : runcase) (tr : list callrec), run_ref c = Ok tr -> mon_C05 c tr = true.
Proof.
  intros c tr H. unfold mon_C05. rewrite (C02_seq_programs c tr H), (C05_iter_programs c tr H). reflexivity.
Qed.

(* ===================================================================== *)
(* 14. what acceptance means                                               *)
(* ===================================================================== *)
Section MeaningD.
  Variable GK : name -> list nat -> gk.
  Variable orc : oracle.
  Variable chk : drec -> notif -> bool.
  Variable F : nat.

  (* the state of the monitor after a prefix of the calls *)
  Fixpoint dhist (S0 : dst) (tr : list callrec) : option dst :=
    match tr with
    | [] => Some S0
    | r :: t => match dec_log GK orc chk F S0 (cr_log r) with Some S1 => dhist S1 t | None => None end
    end.

  Lemma dec_log_app : forall a b S0 S2, dec_log GK orc chk F S0 (a ++ b) = Some S2 ->
                                        exists S1, dec_log GK orc chk F S0 a = Some S1 /\ dec_log GK orc chk F S1 b = Some S2.
  Proof.
    induction a as [|e a IH]; intros b S0 S2 H; cbn [app dec_log] in *.
    - exists S0. split; [reflexivity|exact H].
    - destruct (dec_entry GK orc chk F S0 e) as [S1|]; [|discriminate]. exact (IH _ _ _ H).
  Qed.

  (* every entry of an accepted run passed the test of the monitor in the state reached by the
     history before it *)
  Theorem decide_run_meaning : forall tr pre r post a e b S0,
      dec_run GK orc chk F S0 tr = true -> tr = pre ++ r :: post -> cr_log r = a ++ e :: b ->
      exists S1 H H', dhist S0 pre = Some S1 /\ dec_log GK orc chk F S1 a = Some H /\ dec_entry GK orc chk F H e = Some H'.
  Proof.
    intros tr pre. revert tr. induction pre as [|r0 pre IH]; intros tr r post a e b S0 H -> Hl; cbn [app dec_run] in H.
    - destruct (dec_log GK orc chk F S0 (cr_log r)) as [S1|] eqn:E; [|discriminate]. rewrite Hl in E.
      destruct (dec_log_app _ _ _ _ E) as (H1 & A1 & A2). cbn [dec_log] in A2.
      destruct (dec_entry GK orc chk F H1 e) as [H'|] eqn:E2; [|discriminate].
      exists S0, H1, H'. repeat split; assumption.
    - destruct (dec_log GK orc chk F S0 (cr_log r0)) as [S1|] eqn:E; [|discriminate].
      destruct (IH _ r post a e b S1 H eq_refl Hl) as (S2 & H1 & H' & A1 & A2 & A3).
      exists S2, H1, H'. cbn [dhist]. rewrite E. repeat split; assumption.
  Qed.

  (* a started statement: exactly where the walk through the program arrives from the statement
     started last in that instance -- with the decisions recomputed from the oracle's answers --
     and the walk consumed exactly the queries asked so far *)
  Theorem start_rule : forall H n H' c,
      dec_notif GK orc chk F H n = Some H' -> ds_lost H' = false ->
      n_kind n = TS \/ n_kind n = SS -> n_ctx n = Some c ->
      exists r, assoc c (ds_recs H) = Some r /\ d_task r = st_task (n_site n) /\
                match d_more r with
                | O => exists cn more, expect GK orc F r (ds_q H) = Some (Some (Some (st_path (n_site n)), cn, ds_q H, more))
                | S _ => exists t, d_last r = Some t /\ sibling (GK (d_task r)) t = Some (st_path (n_site n)) /\ d_first r = None
                end.
  Proof.
    intros H n H' c Hd Hl Hk Hc. unfold dec_notif in Hd. rewrite Hc in Hd.
    assert (Z : exists r r', assoc c (ds_recs H) = Some r /\ Nat.eqb (d_task r) (st_task (n_site n)) = true /\
                             on_start GK orc F r (st_path (n_site n)) (ds_q H) = Next r').
    { destruct Hk as [Hk|Hk]; rewrite Hk in Hd; destruct (assoc c (ds_recs H)) as [r|]; try discriminate;
        destruct (Nat.eqb (d_task r) (st_task (n_site n))) eqn:Et; cbn [negb] in Hd; try discriminate;
          destruct (on_start GK orc F r (st_path (n_site n)) (ds_q H)) as [| |r'] eqn:Eo; try discriminate;
            try (inv Hd; cbn in Hl; discriminate); exists r, r'; repeat split; (reflexivity || assumption). }
    destruct Z as (r & r' & Er & Et & Y). exists r. split; [exact Er|]. apply Nat.eqb_eq in Et. split; [exact Et|].
    unfold on_start in Y. destruct (d_more r).
    - destruct (expect GK orc F r (ds_q H)) as [[[[[e cn] q'] more]|]|]; try discriminate.
      destruct (option_eqb (list_eqb Nat.eqb) e (Some (st_path (n_site n)))) eqn:E1; [|discriminate].
      destruct (Nat.eqb q' (ds_q H)) eqn:E2; [|discriminate]. apply Nat.eqb_eq in E2. subst q'.
      destruct e as [e|]; [|discriminate]. cbn [option_eqb] in E1. apply list_eqb_nat_eq in E1. subst e.
      exists cn, more. reflexivity.
    - destruct (d_last r) as [t|]; [|discriminate]. exists t. split; [reflexivity|].
      destruct (sibling (GK (d_task r)) t) as [sb|]; [|discriminate]. cbn [option_eqb] in Y.
      destruct (list_eqb Nat.eqb sb (st_path (n_site n))) eqn:E1; [|discriminate]. apply list_eqb_nat_eq in E1. subst sb.
      split; [reflexivity|]. destruct (d_first r); [discriminate|reflexivity].
  Qed.

  (* a task-finished notification: the walk through the instance arrives at the end of its body *)
  Theorem end_rule : forall H n H',
      dec_notif GK orc chk F H n = Some H' -> ds_lost H' = false -> n_kind n = TF ->
      exists r cn more, assoc (n_id n) (ds_recs H) = Some r /\ d_more r = 0 /\
                        expect GK orc F r (ds_q H) = Some (Some (None, cn, ds_q H, more)).
  Proof.
    intros H n H' Hd Hl Hk. unfold dec_notif in Hd. rewrite Hk in Hd.
    destruct (assoc (n_id n) (ds_recs H)) as [r|]; [|discriminate]. exists r.
    destruct (on_end GK orc F r (ds_q H)) as [| |r'] eqn:E; [discriminate|inv Hd; cbn in Hl; discriminate|].
    unfold on_end in E. destruct (d_more r); [|discriminate].
    destruct (expect GK orc F r (ds_q H)) as [[[[[e cn] q'] more]|]|]; try discriminate.
    destruct (option_eqb (list_eqb Nat.eqb) e None) eqn:E1; [|discriminate].
    destruct (Nat.eqb q' (ds_q H)) eqn:E2; [|discriminate]. apply Nat.eqb_eq in E2. subst q'.
    destruct e; [discriminate|]. exists cn, more. repeat split.
  Qed.

  (* the walk at the three deciding statements (G = the classification of one task) *)
  Variable G : list nat -> gk.

  (* (d1) a Condition: the first statement of the Passed block if the guard is true with the
     answers numbered from q, of the Failed block if it is false (an empty or absent block is left
     at once: what follows the Condition) *)
  Theorem walk_condition : forall f pre i cn q e b q',
      G (pre ++ [i]) = GCond e -> decide expected_ops orc e q = Ok (b, q') ->
      walk G orc (S f) pre i cn q = walk G orc f ((pre ++ [i]) ++ [if b then 0 else 1]) 0 cn q'.
  Proof. intros f pre i cn q e b q' HG Hd. cbn [walk]. rewrite HG. unfold dec. rewrite Hd. reflexivity. Qed.

  Theorem leave_branch : forall f pre i b cn q,
      G ((pre ++ [i]) ++ [b]) = GNone ->
      leave G orc (S f) ((pre ++ [i]) ++ [b]) cn q = walk G orc f pre (S i) cn q.
  Proof. intros f pre i b cn q HG. cbn [leave]. rewrite unsnoc_app, HG, unsnoc_app. reflexivity. Qed.

  (* (d2) a while loop: when reached and after every iteration the guard is evaluated; true: the
     first statement of the body; false: what follows the loop *)
  Theorem walk_while : forall f pre i cn q e b q',
      G (pre ++ [i]) = GWhile e -> decide expected_ops orc e q = Ok (b, q') ->
      walk G orc (S f) pre i cn q = (if b then walk G orc f (pre ++ [i]) 0 cn q' else walk G orc f pre (S i) cn q') /\
      leave G orc (S f) (pre ++ [i]) cn q = (if b then walk G orc f (pre ++ [i]) 0 cn q' else walk G orc f pre (S i) cn q').
  Proof.
    intros f pre i cn q e b q' HG Hd. cbn [walk leave]. rewrite unsnoc_app, HG. unfold dec. rewrite Hd.
    destruct b; split; reflexivity.
  Qed.

  (* (d3) a counting loop: the limit is read before EVERY test (a variable limit: one query per
     test); iteration k (from 0) starts iff k < limit; the counter of the loop is k *)
  Theorem walk_count : forall f pre i cn q lim N q',
      G (pre ++ [i]) = GCount lim -> rlimit orc lim q = Some (N, q') ->
      walk G orc (S f) pre i cn q =
        (if (0 <? N)%Z then walk G orc f (pre ++ [i]) 0 (setc (pre ++ [i]) 0 cn) q' else walk G orc f pre (S i) cn q') /\
      leave G orc (S f) (pre ++ [i]) cn q =
        (let k := S (getc (pre ++ [i]) cn) in
         if (Z.of_nat k <? N)%Z then walk G orc f (pre ++ [i]) 0 (setc (pre ++ [i]) k cn) q' else walk G orc f pre (S i) cn q').
  Proof.
    intros f pre i cn q lim N q' HG Hd. cbn [walk leave]. rewrite unsnoc_app, HG, Hd. split; reflexivity.
  Qed.

  Theorem rlimit_literal : forall n q, rlimit orc (LimInt n) q = Some (Z.of_nat n, q).
  Proof. reflexivity. Qed.

  (* a literal limit n: iteration k starts iff k < n, so the body is started exactly n times *)
  Theorem count_literal : forall f pre i cn q n,
      G (pre ++ [i]) = GCount (LimInt n) ->
      leave G orc (S f) (pre ++ [i]) cn q =
        (if Nat.ltb (S (getc (pre ++ [i]) cn)) n
         then walk G orc f (pre ++ [i]) 0 (setc (pre ++ [i]) (S (getc (pre ++ [i]) cn)) cn) q
         else walk G orc f pre (S i) cn q).
  Proof.
    intros f pre i cn q n HG. destruct (walk_count f pre i cn q _ _ _ HG (rlimit_literal n q)) as [_ ->]. cbn zeta.
    destruct (Nat.ltb (S (getc (pre ++ [i]) cn)) n) eqn:E.
    - apply Nat.ltb_lt in E. assert ((Z.of_nat (S (getc (pre ++ [i]) cn)) <? Z.of_nat n)%Z = true) as -> by (apply Z.ltb_lt; lia). reflexivity.
    - apply Nat.ltb_ge in E. assert ((Z.of_nat (S (getc (pre ++ [i]) cn)) <? Z.of_nat n)%Z = false) as -> by (apply Z.ltb_ge; lia). reflexivity.
  Qed.
End MeaningD.

(* ===================================================================== *)
(* 15. examples                                                            *)
(* ===================================================================== *)
(*  Task productionTask:
      0: Condition v10 { Passed: S1 } { Failed: S2 }
      1: Loop i To v10 { S3 }                 (limit read from a variable)
      2: Loop While v10 { S4 }
      3: Condition 1 < 2 { Passed: t7 }        (constant guard: no query)
      4: Loop i To 2 { Condition v10 { Passed: S5 } }   (literal limit, nested Condition without Failed)
      5: S6
    Task t7: S8
    every service completes at once; the oracle answers, in order:
      true | 2 2 2 | true false | (no query) | true false | *)
Definition dx_prog : program :=
  {| p_structs := [];
     p_tasks := [ {| t_name := 0; t_ins := []; t_outs := [];
                     t_body := [SCond (EPath 10 []) [SService 1 [] []] [SService 2 [] []];
                                SCount false 9 (LimPath 10 []) [SService 3 [] []];
                                SWhile (EPath 10 []) [SService 4 [] []];
                                SCond (EBin OLt (ENum (Qmake 1 1)) (ENum (Qmake 2 1))) [SCall (mkcall 7)] [];
                                SCount false 9 (LimInt 2) [SCond (EPath 10 []) [SService 5 [] []] []];
                                SService 6 [] []] |};
                  {| t_name := 7; t_ins := []; t_outs := []; t_body := [SService 8 [] []] |} ] |}.
Definition two : value := VNum (Qmake 2 1).
Definition dx_with (vals : list value) : runcase :=
  {| rc_prog := dx_prog; rc_vals := vals; rc_imm := repeat true 20;
     rc_script := [AStart]; rc_react := []; rc_react_all := false; rc_mutate := 0; rc_test_ids := true |}.
Definition dx_vals : list value := [VBool true; two; two; two; VBool true; VBool false; VBool true; VBool false].
Definition dx_case : runcase := dx_with dx_vals.
Definition trace_of (c : runcase) : list callrec := match run_ref c with Ok t => t | _ => [] end.
Definition dx_trace : list callrec := trace_of dx_case.


Example dx_accepted :
  List.length dx_trace = 1 /\ existsb (fun r => cr_final r) dx_trace = true /\
  mon_decide dx_case dx_trace = true /\ mon_C04 dx_case dx_trace = true /\ mon_C05 dx_case dx_trace = true.
Proof. vm_compute. repeat split; reflexivity. Qed.

Example ex_case_decide_accepted : mon_C04 ex_case seq_ex_trace = true /\ mon_C05 ex_case seq_ex_trace = true.
Proof. vm_compute. split; reflexivity. Qed.

Lemma dx_guarded : guarded_body (gk_at (p_tasks dx_prog)) (ins_at (p_tasks dx_prog)) (lv_at (p_tasks dx_prog)) (match unfold_program (p_tasks dx_prog) 200 with Ok b => b | _ => [] end).
Proof.
  destruct (unfold_program (p_tasks dx_prog) 200) as [b| | |] eqn:E; try (vm_compute in E; discriminate).
  eapply unfold_program_guarded. exact E.
Qed.

(* the statements started, by name and position *)
Definition started (tr : list callrec) : list (name * list nat) :=
  flat_map (fun r => flat_map (fun e => match e with
                                        | ENotif 0 n _ => match n_kind n with TS | SS => [(n_name n, st_path (n_site n))] | _ => [] end
                                        | _ => [] end) (cr_log r)) tr.

Example dx_started :
  started dx_trace = [(0, []); (1, [0; 0; 0]); (3, [1; 0]); (3, [1; 0]); (4, [2; 0]); (7, [3; 0; 0]); (8, [0]);
                      (5, [4; 0; 0; 0]); (6, [5])].
Proof. vm_compute. reflexivity. Qed.

(* a trace in which something else happened, judged with the answers of dx_case *)
Definition other (vals : list value) : list callrec := trace_of (dx_with vals).

(* (d1) the Failed branch is started although the guard is true *)
Example failed_branch_although_true :
  let tr := other [VBool false; two; two; two; VBool true; VBool false; VBool true; VBool false] in
  existsb (fun x => Nat.eqb (fst x) 2) (started tr) = true /\ mon_decide dx_case tr = false /\ mon_C04 dx_case tr = false.
Proof. vm_compute. repeat split; reflexivity. Qed.

(* the same by relabelling: the notifications of S1 carry the position of the Failed branch *)
Definition relabel (nm : name) (p : list nat) (e : entry) : entry :=
  match e with
  | ENotif l n r => if Nat.eqb (n_name n) nm
                    then ENotif l (mk (n_kind n) (n_name n) (mksite (st_task (n_site n)) p) (n_id n) (n_ctx n) (n_params n)) r
                    else e
  | _ => e
  end.
Example passed_relabelled_rejected : mon_decide dx_case (map (with_log (map (relabel 1 [0; 1; 0]))) dx_trace) = false.
Proof. vm_compute. reflexivity. Qed.

(* (d3) one iteration too many / too few of the loop whose limit is read from a variable *)
Definition three : value := VNum (Qmake 3 1).
Definition one : value := VNum (Qmake 1 1).
Example one_iteration_too_many :
  let tr := other [VBool true; three; three; three; three; VBool true; VBool false; VBool true; VBool false] in
  List.length (filter (fun x => Nat.eqb (fst x) 3) (started tr)) = 3 /\
  mon_decide dx_case tr = false /\ mon_C05 dx_case tr = false.
Proof. vm_compute. repeat split; reflexivity. Qed.

Example one_iteration_too_few :
  let tr := other [VBool true; one; one; VBool true; VBool false; VBool true; VBool false] in
  List.length (filter (fun x => Nat.eqb (fst x) 3) (started tr)) = 1 /\
  mon_decide dx_case tr = false /\ mon_C05 dx_case tr = false.
Proof. vm_compute. repeat split; reflexivity. Qed.

(* the same by deletion: the notifications of the second iteration (service identifier 2) removed *)
Definition about_service (id : nat) (e : entry) : bool :=
  match e with
  | ENotif _ n _ => match n_kind n with SS | SF => Nat.eqb (n_id n) id | _ => false end
  | _ => false
  end.
Example iteration_removed_rejected :
  mon_decide dx_case (map (with_log (filter (fun e => negb (about_service 2 e)))) dx_trace) = false.
Proof. vm_compute. reflexivity. Qed.

(* (d2) the body of the while loop is started after a false guard *)
Example body_after_false_guard :
  let tr := other [VBool true; two; two; two; VBool true; VBool true; VBool false; VBool true; VBool false] in
  List.length (filter (fun x => Nat.eqb (fst x) 4) (started tr)) = 2 /\
  mon_decide dx_case tr = false /\ mon_C05 dx_case tr = false.
Proof. vm_compute. repeat split; reflexivity. Qed.

(* ... and the loop is left although the guard is true *)
Example while_left_although_true :
  mon_decide dx_case (other [VBool true; two; two; two; VBool false; VBool true; VBool false]) = false.
Proof. vm_compute. reflexivity. Qed.

(* a Condition with a constant guard asks nothing; its branch is checked by position: the call
   of t7 (instance 1) and everything in it removed *)
Example constant_guard_branch_skipped_rejected : mon_decide dx_case (drop_instance 1 dx_trace) = false.
Proof. vm_compute. reflexivity. Qed.

(* a Condition without Failed block inside a loop with a literal limit: started in the second
   iteration although the guard is false there *)
Example nested_condition_rejected :
  mon_decide dx_case (other [VBool true; two; two; two; VBool true; VBool false; VBool true; VBool true]) = false.
Proof. vm_compute. reflexivity. Qed.

(* the guard of the theorems is needed: with a classification that negates the guards of the
   Conditions the reference trace is rejected *)
Example decide_needs_guard_refuted :
  holds_decide_with (fun tn p => match gk_at (p_tasks dx_prog) tn p with GCond e => GCond (ENot e) | k => k end)
                    (orc_of dx_vals) decide_fuel dx_trace = false.
Proof. vm_compute. reflexivity. Qed.
