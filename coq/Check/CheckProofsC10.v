(* CheckProofsC10.v — the descent lemma (an error inside a statement is an error of the
   enclosing statement, at any nesting depth — by induction on the statement tree) in two
   forms, the lifting from statements to the verdict of the program, and one local lemma
   per fault class of the catalogue. *)
From PFDL Require Import Base Syntax.
From PFDL.Check Require Import CheckModel CheckProofsBase CheckProofsC16.

(* ------------------------------------------------------------------------------ *)
(* sub-statements the validator looks at: loop bodies, Passed, Failed at any depth, and the
   task call that is the body of a parallel loop *)
(* ------------------------------------------------------------------------------ *)
Inductive visible_sub : stmt -> list nat -> stmt -> Prop :=
| vs_here : forall s, visible_sub s [] s
| vs_while : forall e body i s1 rel s',
    nth_error body i = Some s1 -> visible_sub s1 rel s' -> visible_sub (SWhile e body) (i :: rel) s'
| vs_count : forall v lim body i s1 rel s',
    nth_error body i = Some s1 -> visible_sub s1 rel s' -> visible_sub (SCount false v lim body) (i :: rel) s'
| vs_parloop : forall v lim c,
    visible_sub (SCount true v lim [SCall c]) [0] (SCall c)
| vs_passed : forall e p f i s1 rel s',
    nth_error p i = Some s1 -> visible_sub s1 rel s' -> visible_sub (SCond e p f) (0 :: i :: rel) s'
| vs_failed : forall e p f i s1 rel s',
    nth_error f i = Some s1 -> visible_sub s1 rel s' -> visible_sub (SCond e p f) (1 :: i :: rel) s'.

Section Descent.
  Variable E : env.
  Variable T : tdef.

  (* Descent, relational form: whatever is reported for a visible sub-statement (at its own
     position pi ++ rel) is reported for the enclosing statement, and the enclosing
     statement is valid only if the sub-statement is. *)
  Lemma descent : forall s rel s',
    visible_sub s rel s' ->
    forall pi b es, check_stmt E T pi s = Ok (b, es) ->
    exists b' es', check_stmt E T (pi ++ rel) s' = Ok (b', es') /\ incl es' es /\ (b = true -> b' = true).
  Proof.
    intros s rel s' Hv. induction Hv; intros pi b es Hc.
    - exists b, es. rewrite app_nil_r. split; [assumption|]. split; [apply incl_refl | auto].
    - cbn [check_stmt] in Hc. apply band_ok in Hc.
      destruct Hc as (x & e1 & y & e2 & H1 & H2 & Hb & Hes).
      destruct (forall_from_nth _ _ _ _ _ _ _ _ H1 H) as (b1 & es1 & Hf & Hi & Hbt). cbn in Hf.
      destruct (IHHv _ _ _ Hf) as (b' & es' & Hc' & Hi' & Hb').
      exists b', es'. replace (pi ++ i :: rel) with ((pi ++ [i]) ++ rel) by (rewrite <- app_assoc; reflexivity).
      split; [assumption|]. split.
      + subst es. apply incl_appl. eapply incl_tran; eassumption.
      + intro Hbb. subst b. apply andb_true_iff in Hbb. apply Hb'. apply Hbt. apply Hbb.
    - cbn [check_stmt] in Hc. apply band_ok in Hc.
      destruct Hc as (x & e1 & y & e2 & H1 & H2 & Hb & Hes).
      destruct (forall_from_nth _ _ _ _ _ _ _ _ H2 H) as (b1 & es1 & Hf & Hi & Hbt). cbn in Hf.
      destruct (IHHv _ _ _ Hf) as (b' & es' & Hc' & Hi' & Hb').
      exists b', es'. replace (pi ++ i :: rel) with ((pi ++ [i]) ++ rel) by (rewrite <- app_assoc; reflexivity).
      split; [assumption|]. split.
      + subst es. apply incl_appr. eapply incl_tran; eassumption.
      + intro Hbb. subst b. apply andb_true_iff in Hbb. apply Hb'. apply Hbt. apply Hbb.
    - cbn [check_stmt] in Hc. apply band_ok in Hc.
      destruct Hc as (x & e1 & y & e2 & H1 & H2 & Hb & Hes).
      exists y, e2. split; [exact H2|]. split.
      + subst es. apply incl_appr. apply incl_refl.
      + intro Hbb. subst b. apply andb_true_iff in Hbb. apply Hbb.
    - cbn [check_stmt] in Hc. apply band_ok in Hc.
      destruct Hc as (x & e1 & y & e2 & H1 & H2 & Hb & Hes).
      destruct (forall_from_nth _ _ _ _ _ _ _ _ H1 H) as (b1 & es1 & Hf & Hi & Hbt). cbn in Hf.
      destruct (IHHv _ _ _ Hf) as (b' & es' & Hc' & Hi' & Hb').
      exists b', es'.
      replace (pi ++ 0 :: i :: rel) with ((pi ++ [0; i]) ++ rel) by (rewrite <- app_assoc; reflexivity).
      split; [assumption|]. split.
      + subst es. apply incl_appl. eapply incl_tran; eassumption.
      + intro Hbb. subst b. apply andb_true_iff in Hbb. apply Hb'. apply Hbt. apply Hbb.
    - cbn [check_stmt] in Hc. apply band_ok in Hc.
      destruct Hc as (x & e1 & y & e2 & H1 & H2 & Hb & Hes).
      apply band_ok in H2. destruct H2 as (x2 & e21 & y2 & e22 & H21 & H22 & Hb2 & Hes2).
      destruct (forall_from_nth _ _ _ _ _ _ _ _ H21 H) as (b1 & es1 & Hf & Hi & Hbt). cbn in Hf.
      destruct (IHHv _ _ _ Hf) as (b' & es' & Hc' & Hi' & Hb').
      exists b', es'.
      replace (pi ++ 1 :: i :: rel) with ((pi ++ [1; i]) ++ rel) by (rewrite <- app_assoc; reflexivity).
      split; [assumption|]. split.
      + subst es e2. apply incl_appr. apply incl_appl. eapply incl_tran; eassumption.
      + intro Hbb. subst b y. apply andb_true_iff in Hbb. destruct Hbb as [_ Hbb].
        apply andb_true_iff in Hbb. apply Hb'. apply Hbt. apply Hbb.
  Qed.

  (* Descent, functional form: if a local defect P of a statement node always makes that
     node invalid, then a statement with such a node anywhere the validator looks is invalid *)
  Section Local.
    Variable P : stmt -> bool.
    Variable local : forall pi s b es, P s = true -> check_stmt E T pi s = Ok (b, es) -> b = false.

    Fixpoint visible_exists (s : stmt) : bool :=
      P s ||
      match s with
      | SWhile _ b => existsb visible_exists b
      | SCount false _ _ b => existsb visible_exists b
      | SCount true _ _ [SCall c] => P (SCall c)
      | SCond _ p f => existsb visible_exists p || existsb visible_exists f
      | _ => false
      end.

    Lemma existsb_block_false : forall (body : list stmt) (f : nat -> stmt -> chk) i v es,
      Forall (fun s => forall j b e, visible_exists s = true -> f j s = Ok (b, e) -> b = false) body ->
      existsb visible_exists body = true ->
      forall_from f i body = Ok (v, es) -> v = false.
    Proof.
      intros body f i v es HF Hex Hc. apply existsb_exists in Hex. destruct Hex as (x & Hin & Hx).
      apply In_nth_error in Hin. destruct Hin as [j Hj].
      destruct (forall_from_nth _ _ _ _ _ _ _ _ Hc Hj) as (b1 & e1 & Hf & _ & Hbt).
      rewrite Forall_forall in HF. specialize (HF x (nth_error_In _ _ Hj) _ _ _ Hx Hf).
      destruct v; [|reflexivity]. rewrite (Hbt eq_refl) in HF. discriminate.
    Qed.

    Lemma descent_exists : forall s pi b es,
      visible_exists s = true -> check_stmt E T pi s = Ok (b, es) -> b = false.
    Proof.
      intro s. induction s using stmt_ind'; intros pi b0 es Hv Hc; cbn [visible_exists] in Hv;
        apply orb_true_iff in Hv; destruct Hv as [Hv|Hv]; try (eapply local; eassumption);
        try discriminate.
      - cbn [check_stmt] in Hc. apply band_ok in Hc.
        destruct Hc as (x & e1 & y & e2 & H1 & H2 & Hb & Hes).
        assert (x = false).
        { eapply existsb_block_false; [|exact Hv|exact H1].
          eapply Forall_impl; [|exact H]. intros a Ha j b1 e0 Hva Hca. eapply Ha; eassumption. }
        subst. reflexivity.
      - destruct par; cbn [check_stmt] in Hc; apply band_ok in Hc;
          destruct Hc as (x & e1 & y & e2 & H1 & H2 & Hb & Hes).
        + destruct b as [|s0 [|s1 r]]; try discriminate; [|destruct s0; discriminate].
          destruct s0; try discriminate.
          assert (y = false) by (eapply (local (pi ++ [0]) (SCall c)); [exact Hv | exact H2]).
          subst. apply andb_false_r.
        + assert (y = false).
          { eapply existsb_block_false; [|exact Hv|exact H2].
            eapply Forall_impl; [|exact H]. intros a Ha j b1 e0 Hva Hca. eapply Ha; eassumption. }
          subst. apply andb_false_r.
      - cbn [check_stmt] in Hc. apply band_ok in Hc.
        destruct Hc as (x & e1 & y & e2 & H1 & H2 & Hb & Hes).
        apply band_ok in H2. destruct H2 as (x2 & e21 & y2 & e22 & H21 & H22 & Hb2 & Hes2).
        apply orb_true_iff in Hv. destruct Hv as [Hv|Hv].
        + assert (x = false).
          { eapply existsb_block_false; [|exact Hv|exact H1].
            eapply Forall_impl; [|exact H]. intros a Ha j b1 e0 Hva Hca. eapply Ha; eassumption. }
          subst. reflexivity.
        + assert (x2 = false).
          { eapply existsb_block_false; [|exact Hv|exact H21].
            eapply Forall_impl; [|exact H0]. intros a Ha j b1 e0 Hva Hca. eapply Ha; eassumption. }
          subst. rewrite andb_false_r. reflexivity.
    Qed.
  End Local.
End Descent.

(* ------------------------------------------------------------------------------ *)
(* from statements to the verdict                                                  *)
(* ------------------------------------------------------------------------------ *)
Lemma validate_ok_nil : forall p,
  validate p = Ok [] ->
  visit_errs p = [] /\ validate_process (visit_env p) = Ok (true, []).
Proof.
  intros p H. unfold validate in H.
  destruct (validate_process (visit_env p)) as [[b es]| |k|] eqn:Hv; try discriminate.
  injection H as Happ. apply app_eq_nil in Happ. destruct Happ as [H1 H2]. subst es.
  split; [assumption|].
  pose proof (validate_process_flag_matches_output _ _ _ Hv) as Hb.
  assert (b = true) by (apply Hb; reflexivity). subst. reflexivity.
Qed.

Lemma forall_from_true_all : forall A (f : nat -> A -> chk) xs i es x,
  forall_from f i xs = Ok (true, es) -> In x xs -> exists j e, f j x = Ok (true, e).
Proof.
  intros A f xs i es x H Hin. apply In_nth_error in Hin. destruct Hin as [j Hj].
  destruct (forall_from_nth _ f xs i true es j x H Hj) as (b & e & Hf & _ & Hb).
  exists (i + j), e. rewrite Hf. rewrite (Hb eq_refl). reflexivity.
Qed.

Section Accepted.
  Variable p : program.
  Variable Hacc : validate p = Ok [].
  Notation E := (visit_env p).

  Lemma accepted_structs : check_structs E = Ok (true, []).
  Proof.
    destruct (validate_ok_nil p Hacc) as [_ Hv]. unfold validate_process in Hv.
    apply band_ok in Hv. destruct Hv as (x & e1 & y & e2 & H1 & H2 & Hb & Hes).
    symmetry in Hes. apply app_eq_nil in Hes. destruct Hes; subst.
    symmetry in Hb. apply andb_true_iff in Hb. destruct Hb; subst. assumption.
  Qed.

  Lemma accepted_tasks : check_tasks E = Ok (true, []).
  Proof.
    destruct (validate_ok_nil p Hacc) as [_ Hv]. unfold validate_process in Hv.
    apply band_ok in Hv. destruct Hv as (x & e1 & y & e2 & H1 & H2 & Hb & Hes).
    symmetry in Hes. apply app_eq_nil in Hes. destruct Hes; subst.
    symmetry in Hb. apply andb_true_iff in Hb. destruct Hb; subst. assumption.
  Qed.

  Lemma accepted_has_start_task : has_key production_task (e_tasks E) = true.
  Proof.
    pose proof accepted_tasks as H. unfold check_tasks in H.
    destruct (forall_from _ 0 (e_tasks E)) as [[valid es]| |k|]; try discriminate.
    destruct (has_key production_task (e_tasks E)); [reflexivity|].
    inversion H.
  Qed.

  Lemma accepted_task : forall kv, In kv (e_tasks E) -> exists e, check_task E (snd kv) = Ok (true, e).
  Proof.
    intros kv Hin. pose proof accepted_tasks as H. unfold check_tasks in H.
    destruct (forall_from _ 0 (e_tasks E)) as [[valid es]| |k|] eqn:Hf; try discriminate.
    destruct (has_key production_task (e_tasks E)); [|inversion H].
    inversion H; subst.
    destruct (forall_from_true_all _ _ _ _ _ _ Hf Hin) as (j & e & He). exists e. exact He.
  Qed.

  Lemma accepted_stmt : forall kv s, In kv (e_tasks E) -> In s (td_body (snd kv)) ->
    exists pi e, check_stmt E (snd kv) pi s = Ok (true, e).
  Proof.
    intros kv s Hin Hs. destruct (accepted_task kv Hin) as [e He]. unfold check_task in He.
    apply band_ok in He. destruct He as (x & e1 & y & e2 & H1 & H2 & Hb & Hes).
    symmetry in Hb. apply andb_true_iff in Hb. destruct Hb; subst.
    unfold check_statements in H1.
    destruct (forall_from_true_all _ _ _ _ _ _ H1 Hs) as (j & e' & He'). exists [j], e'. exact He'.
  Qed.

  Lemma accepted_task_io : forall kv, In kv (e_tasks E) ->
    (exists e, check_task_inputs E (snd kv) = Ok (true, e)) /\
    (exists e, check_task_outputs (snd kv) = Ok (true, e)).
  Proof.
    intros kv Hin. destruct (accepted_task kv Hin) as [e He]. unfold check_task in He.
    apply band_ok in He. destruct He as (x & e1 & y & e2 & H1 & H2 & Hb & Hes).
    symmetry in Hb. apply andb_true_iff in Hb. destruct Hb as [_ Hy]. subst y.
    apply band_ok in H2. destruct H2 as (x2 & e21 & y2 & e22 & H21 & H22 & Hb2 & Hes2).
    symmetry in Hb2. apply andb_true_iff in Hb2. destruct Hb2; subst. eauto.
  Qed.
End Accepted.

(* a local defect, anywhere the validator looks, in any task: the program is not accepted *)
Definition fault_somewhere (P : env -> tdef -> stmt -> bool) (p : program) : bool :=
  let E := visit_env p in
  existsb (fun kv => existsb (visible_exists (P E (snd kv))) (td_body (snd kv))) (e_tasks E).

Lemma fault_somewhere_rejected : forall (P : env -> tdef -> stmt -> bool),
  (forall E T pi s b es, P E T s = true -> check_stmt E T pi s = Ok (b, es) -> b = false) ->
  forall p, fault_somewhere P p = true -> validate p <> Ok [].
Proof.
  intros P Hlocal p Hf Hacc. unfold fault_somewhere in Hf.
  apply existsb_exists in Hf. destruct Hf as (kv & Hin & Hf).
  apply existsb_exists in Hf. destruct Hf as (s & Hs & Hv).
  destruct (accepted_stmt p Hacc kv s Hin Hs) as (pi & e & He).
  assert (true = false).
  { eapply (descent_exists (visit_env p) (snd kv) (P (visit_env p) (snd kv))); [|exact Hv|exact He].
    intros. eapply Hlocal; eassumption. }
  discriminate.
Qed.

(* ------------------------------------------------------------------------------ *)
(* local lemmas, one per fault class                                               *)
(* ------------------------------------------------------------------------------ *)
Lemma forall_from_false_at : forall A (f : nat -> A -> chk) xs i v es x,
  forall_from f i xs = Ok (v, es) -> In x xs ->
  (forall j b e, f j x = Ok (b, e) -> b = false) -> v = false.
Proof.
  intros A f xs i v es x H Hin Hx. apply In_nth_error in Hin. destruct Hin as [j Hj].
  destruct (forall_from_nth _ f xs i v es j x H Hj) as (b & e & Hf & _ & Hb).
  specialize (Hx _ _ _ Hf). destruct v; [|reflexivity]. rewrite (Hb eq_refl) in Hx. discriminate.
Qed.

Section LocalFaults.
  Variable E : env.
  Variable T : tdef.

  (* ---- F01: call of an unknown task (plain call, call inside a Parallel block) ---- *)
  Definition unknown_call (c : call) : bool := negb (has_key (c_name c) (e_tasks E)).

  Definition f_unknown_task (s : stmt) : bool :=
    match s with
    | SCall c => unknown_call c
    | SParallel cs => existsb unknown_call cs
    | _ => false
    end.

  Lemma unknown_call_false : forall ti pi c b es,
    unknown_call c = true -> check_task_call E T ti pi c = Ok (b, es) -> b = false.
  Proof.
    intros ti pi c b es Hu Hc. unfold unknown_call in Hu. unfold check_task_call in Hc.
    destruct (has_key (c_name c) (e_tasks E)); [discriminate|]. inversion Hc. reflexivity.
  Qed.

  Lemma local_unknown_task : forall pi s b es,
    f_unknown_task s = true -> check_stmt E T pi s = Ok (b, es) -> b = false.
  Proof.
    intros pi s b es Hf Hc. destruct s; try discriminate; cbn [f_unknown_task check_stmt] in *.
    - eapply unknown_call_false; eassumption.
    - apply existsb_exists in Hf. destruct Hf as (c & Hin & Hu).
      eapply forall_from_false_at; [exact Hc | exact Hin|].
      intros j b1 e1 H1; cbn beta in H1. eapply unknown_call_false; eassumption.
  Qed.

  (* ---- F20: ill-formed parallel loop ---- *)
  Definition f_bad_parloop (s : stmt) : bool :=
    match s with
    | SCount true _ _ body => negb (is_single_call body)
    | _ => false
    end.

  Lemma local_bad_parloop : forall pi s b es,
    f_bad_parloop s = true -> check_stmt E T pi s = Ok (b, es) -> b = false.
  Proof.
    intros pi s b es Hf Hc. destruct s; try discriminate. destruct par; [|discriminate].
    cbn [f_bad_parloop check_stmt] in *. apply band_ok in Hc.
    destruct Hc as (x & e1 & y & e2 & H1 & H2 & -> & _).
    destruct body as [|s0 [|s1 r]]; try (inversion H2; apply andb_false_r).
    - destruct s0; try discriminate; inversion H2; apply andb_false_r.
    - destruct s0; inversion H2; apply andb_false_r.
  Qed.

  (* ---- parameters of services and calls ---- *)
  Definition stmt_params (s : stmt) : list (list param) :=
    match s with
    | SService _ ins _ => [ins]
    | SCall c => [c_ins c]
    | SParallel cs => map c_ins cs
    | _ => []
    end.

  Lemma check_call_parameters_false_param : forall ti pi ins outs b es x,
    check_call_parameters E T ti pi ins outs = Ok (b, es) -> In x ins ->
    (forall k b1 e1, check_input_param E T ti pi k x = Ok (b1, e1) -> b1 = false) -> b = false.
  Proof.
    intros ti pi ins outs b es x Hc Hin Hx. unfold check_call_parameters in Hc.
    apply band_ok in Hc. destruct Hc as (x1 & e1 & y & e2 & H1 & H2 & Hb & Hes).
    destruct ins as [|p0 r0]; [destruct Hin|]. unfold check_call_inputs in H1.
    assert (x1 = false) by (eapply forall_from_false_at; [exact H1 | exact Hin | exact Hx]).
    subst. reflexivity.
  Qed.

  Lemma check_task_call_false_param : forall ti pi c b es x,
    check_task_call E T ti pi c = Ok (b, es) -> In x (c_ins c) ->
    (forall k b1 e1, check_input_param E T ti pi k x = Ok (b1, e1) -> b1 = false) -> b = false.
  Proof.
    intros ti pi c b es x Hc Hin Hx. unfold check_task_call in Hc.
    destruct (has_key (c_name c) (e_tasks E)); [|inversion Hc; reflexivity].
    destruct (task_reaches E (length (e_tasks E)) (c_name c) (td_name T)); [inversion Hc; reflexivity|].
    apply andthen_ok in Hc. destruct Hc as (x1 & e1 & H1 & [(Hx1 & Hb & _) | (Hx1 & e2 & H2 & _)]).
    - assumption.
    - subst x1. assert (true = false) by (eapply check_call_parameters_false_param; eassumption).
      discriminate.
  Qed.

  (* a parameter defect makes the statement invalid *)
  Lemma local_param_fault : forall (bad : param -> bool),
    (forall ti pi k x b1 e1, bad x = true -> check_input_param E T ti pi k x = Ok (b1, e1) -> b1 = false) ->
    forall pi s b es,
      existsb (existsb bad) (stmt_params s) = true -> check_stmt E T pi s = Ok (b, es) -> b = false.
  Proof.
    intros bad Hbad pi s b es Hf Hc.
    apply existsb_exists in Hf. destruct Hf as (ins & Hins & Hf).
    apply existsb_exists in Hf. destruct Hf as (x & Hx & Hbx).
    destruct s; cbn [stmt_params] in Hins; try (destruct Hins; fail); cbn [check_stmt] in Hc.
    - destruct Hins as [Hins|[]]. subst ins0.
      eapply check_call_parameters_false_param; [exact Hc | exact Hx|].
      intros. eapply Hbad; eassumption.
    - destruct Hins as [Hins|[]]. subst ins.
      eapply check_task_call_false_param; [exact Hc | exact Hx|].
      intros. eapply Hbad; eassumption.
    - apply in_map_iff in Hins. destruct Hins as (c & Hc1 & Hc2). subst ins.
      eapply forall_from_false_at; [exact Hc | exact Hc2|].
      intros j b1 e1 H1; cbn beta in H1. eapply check_task_call_false_param; [exact H1 | exact Hx|].
      intros. eapply Hbad; eassumption.
  Qed.

  (* ---- F04: undeclared variable as parameter ---- *)
  Definition bad_var_param (x : param) : bool :=
    match x with
    | PVar v => negb (has_key v (td_vars T))
    | PPath v _ => negb (has_key v (td_vars T))
    | _ => false
    end.

  Lemma bad_var_param_false : forall ti pi k x b1 e1,
    bad_var_param x = true -> check_input_param E T ti pi k x = Ok (b1, e1) -> b1 = false.
  Proof.
    intros ti pi k x b1 e1 Hb Hc. destruct x; try discriminate; cbn in *.
    - destruct (has_key v (td_vars T)); [discriminate|]. inversion Hc. reflexivity.
    - unfold check_attribute_access in Hc. unfold has_key in Hb.
      destruct (assoc v (td_vars T)); [discriminate|]. inversion Hc. reflexivity.
  Qed.

  (* ---- F02: literal of an unknown struct ---- *)
  Definition bad_struct_literal (x : param) : bool :=
    match x with
    | PLit s (JObj _) => negb (has_key s (e_structs E))
    | _ => false
    end.

  Lemma bad_struct_literal_false : forall ti pi k x b1 e1,
    bad_struct_literal x = true -> check_input_param E T ti pi k x = Ok (b1, e1) -> b1 = false.
  Proof.
    intros ti pi k x b1 e1 Hb Hc. destruct x as [| |s j]; try discriminate. destruct j; try discriminate.
    cbn [bad_struct_literal check_input_param] in *. unfold check_literal in Hc.
    cbn [parse_json] in Hc. unfold find_struct in Hc. unfold has_key in Hb.
    destruct (assoc s (e_structs E)); [discriminate|]. inversion Hc. reflexivity.
  Qed.

  (* ---- F05: unknown first attribute of a path parameter ---- *)
  Definition bad_first_attribute (x : param) : bool :=
    match x with
    | PPath v (PF a :: _) =>
      match assoc v (td_vars T) with
      | Some (TPlain p) =>
        match struct_of_prim E p with
        | Some sd => negb (has_key a (sd_attrs sd))
        | None => false
        end
      | _ => false
      end
    | _ => false
    end.

  Lemma bad_first_attribute_false : forall ti pi k x b1 e1,
    bad_first_attribute x = true -> check_input_param E T ti pi k x = Ok (b1, e1) -> b1 = false.
  Proof.
    intros ti pi k x b1 e1 Hb Hc. destruct x as [|v es|]; try discriminate.
    destruct es as [|e rest]; try discriminate. destruct e; try discriminate.
    cbn [bad_first_attribute check_input_param] in *. unfold check_attribute_access in Hc.
    destruct (assoc v (td_vars T)) as [[p|p l]|]; try discriminate.
    destruct (struct_of_prim E p) as [sd|]; [|discriminate].
    cbn [caa_loop] in Hc. unfold has_key in Hb.
    destruct (assoc n (sd_attrs sd)); [discriminate|]. inversion Hc. reflexivity.
  Qed.

  (* ---- F03: unknown type of a call output ---- *)
  Definition type_exists (t : vtype) : bool :=
    variable_type_exists E (match t with TPlain p => p | TArray p _ => p end).

  Definition stmt_outs (s : stmt) : list (list (name * vtype)) :=
    match s with
    | SService _ _ outs => [call_outs outs]
    | SCall c => [call_outs (c_outs c)]
    | SParallel cs => map (fun c => call_outs (c_outs c)) cs
    | _ => []
    end.

  Definition f_unknown_out_type (s : stmt) : bool :=
    existsb (existsb (fun o => negb (type_exists (snd o)))) (stmt_outs s).

  Lemma check_call_parameters_false_out : forall ti pi ins outs b es o,
    check_call_parameters E T ti pi ins outs = Ok (b, es) -> In o (call_outs outs) ->
    type_exists (snd o) = false -> b = false.
  Proof.
    intros ti pi ins outs b es o Hc Hin Ht. unfold check_call_parameters in Hc.
    apply band_ok in Hc. destruct Hc as (x1 & e1 & y & e2 & H1 & H2 & Hb & Hes).
    destruct (call_outs outs) as [|o0 r0] eqn:Ho; [destruct Hin|].
    unfold check_call_outputs in H2. rewrite Ho in H2.
    assert (y = false).
    { eapply forall_from_false_at; [exact H2 | exact Hin|].
      intros j b1 e0 H0. unfold check_vardef in H0. unfold type_exists in Ht. rewrite Ht in H0.
      inversion H0. reflexivity. }
    subst. apply andb_false_r.
  Qed.

  Lemma check_task_call_false_out : forall ti pi c b es o,
    check_task_call E T ti pi c = Ok (b, es) -> In o (call_outs (c_outs c)) ->
    type_exists (snd o) = false -> b = false.
  Proof.
    intros ti pi c b es o Hc Hin Ht. unfold check_task_call in Hc.
    destruct (has_key (c_name c) (e_tasks E)); [|inversion Hc; reflexivity].
    destruct (task_reaches E (length (e_tasks E)) (c_name c) (td_name T)); [inversion Hc; reflexivity|].
    apply andthen_ok in Hc. destruct Hc as (x1 & e1 & H1 & [(Hx1 & Hb & _) | (Hx1 & e2 & H2 & _)]).
    - assumption.
    - subst x1. assert (true = false) by (eapply check_call_parameters_false_out; eassumption).
      discriminate.
  Qed.

  Lemma local_unknown_out_type : forall pi s b es,
    f_unknown_out_type s = true -> check_stmt E T pi s = Ok (b, es) -> b = false.
  Proof.
    intros pi s b es Hf Hc. unfold f_unknown_out_type in Hf.
    apply existsb_exists in Hf. destruct Hf as (outs & Houts & Hf).
    apply existsb_exists in Hf. destruct Hf as (o & Ho & Hbo).
    apply negb_true_iff in Hbo.
    destruct s; cbn [stmt_outs] in Houts; try (destruct Houts; fail); cbn [check_stmt] in Hc.
    - destruct Houts as [Houts|[]]. subst outs.
      eapply check_call_parameters_false_out; eassumption.
    - destruct Houts as [Houts|[]]. subst outs.
      eapply check_task_call_false_out; eassumption.
    - apply in_map_iff in Houts. destruct Houts as (c & Hc1 & Hc2). subst outs.
      eapply forall_from_false_at; [exact Hc | exact Hc2|].
      intros j b1 e1 H1; cbn beta in H1. eapply check_task_call_false_out; eassumption.
  Qed.

  (* ---- F16: wrong number of inputs or outputs of a task call ---- *)
  Definition wrong_arity (c : call) : bool :=
    match find_tdef E (c_name c) with
    | Some called =>
      negb (Nat.eqb (length (td_ins called)) (length (c_ins c)))
      || negb (Nat.eqb (length (td_outs called)) (length (call_outs (c_outs c))))
    | None => false
    end.

  Definition f_wrong_arity (s : stmt) : bool :=
    match s with
    | SCall c => wrong_arity c
    | SParallel cs => existsb wrong_arity cs
    | _ => false
    end.

  Lemma wrong_arity_false : forall ti pi c b es,
    wrong_arity c = true -> check_task_call E T ti pi c = Ok (b, es) -> b = false.
  Proof.
    intros ti pi c b es Hw Hc. unfold wrong_arity in Hw. unfold check_task_call in Hc.
    destruct (has_key (c_name c) (e_tasks E)); [|inversion Hc; reflexivity].
    destruct (task_reaches E (length (e_tasks E)) (c_name c) (td_name T)); [inversion Hc; reflexivity|].
    apply andthen_ok in Hc. destruct Hc as (x1 & e1 & H1 & [(Hx1 & Hb & _) | (Hx1 & e2 & H2 & _)]);
      [assumption|].
    unfold check_call_matches in H2.
    destruct (find_tdef E (c_name c)) as [called|]; [|discriminate].
    apply andthen_ok in H2. destruct H2 as (x2 & e3 & H3 & [(Hx2 & Hb & _) | (Hx2 & e4 & H4 & _)]);
      [assumption|].
    subst x2. unfold check_length_match in H3.
    destruct (negb (Nat.eqb (length (td_ins called)) (length (c_ins c)))); [inversion H3|].
    destruct (negb (Nat.eqb (length (td_outs called)) (length (call_outs (c_outs c))))); [inversion H3|].
    discriminate.
  Qed.

  Lemma local_wrong_arity : forall pi s b es,
    f_wrong_arity s = true -> check_stmt E T pi s = Ok (b, es) -> b = false.
  Proof.
    intros pi s b es Hf Hc. destruct s; try discriminate; cbn [f_wrong_arity check_stmt] in *.
    - eapply wrong_arity_false; eassumption.
    - apply existsb_exists in Hf. destruct Hf as (c & Hin & Hu).
      eapply forall_from_false_at; [exact Hc | exact Hin|].
      intros j b1 e1 H1; cbn beta in H1. eapply wrong_arity_false; eassumption.
  Qed.
End LocalFaults.

(* ------------------------------------------------------------------------------ *)
(* decidable fault predicates of the catalogue and their theorems                  *)
(* ------------------------------------------------------------------------------ *)
Definition f_param (bad : param -> bool) (s : stmt) : bool := existsb (existsb bad) (stmt_params s).

(* F01 *) Definition has_fault_unknown_task : program -> bool :=
  fault_somewhere (fun E _ => f_unknown_task E).
(* F02 *) Definition has_fault_unknown_struct_literal : program -> bool :=
  fault_somewhere (fun E _ => f_param (bad_struct_literal E)).
(* F03 *) Definition has_fault_unknown_output_type : program -> bool :=
  fault_somewhere (fun E _ => f_unknown_out_type E).
(* F04 *) Definition has_fault_undeclared_variable : program -> bool :=
  fault_somewhere (fun _ T => f_param (bad_var_param T)).
(* F05 *) Definition has_fault_unknown_attribute : program -> bool :=
  fault_somewhere (fun E T => f_param (bad_first_attribute E T)).
(* F16 *) Definition has_fault_wrong_arity : program -> bool :=
  fault_somewhere (fun E _ => f_wrong_arity E).
(* F20 *) Definition has_fault_bad_parallel_loop : program -> bool :=
  fault_somewhere (fun _ _ => f_bad_parloop).

Theorem unknown_task_rejected : forall p, has_fault_unknown_task p = true -> validate p <> Ok [].
Proof.
  apply (fault_somewhere_rejected (fun E _ => f_unknown_task E)).
  intros. eapply local_unknown_task; eassumption.
Qed.

Theorem unknown_struct_literal_rejected : forall p,
  has_fault_unknown_struct_literal p = true -> validate p <> Ok [].
Proof.
  apply (fault_somewhere_rejected (fun E _ => f_param (bad_struct_literal E))).
  intros E T pi s b es H Hc. eapply (local_param_fault E T (bad_struct_literal E)); [|exact H|exact Hc].
  intros. eapply bad_struct_literal_false; eassumption.
Qed.

Theorem unknown_output_type_rejected : forall p,
  has_fault_unknown_output_type p = true -> validate p <> Ok [].
Proof.
  apply (fault_somewhere_rejected (fun E _ => f_unknown_out_type E)).
  intros. eapply local_unknown_out_type; eassumption.
Qed.

Theorem undeclared_variable_rejected : forall p,
  has_fault_undeclared_variable p = true -> validate p <> Ok [].
Proof.
  apply (fault_somewhere_rejected (fun _ T => f_param (bad_var_param T))).
  intros E T pi s b es H Hc. eapply (local_param_fault E T (bad_var_param T)); [|exact H|exact Hc].
  intros. eapply bad_var_param_false; eassumption.
Qed.

Theorem unknown_attribute_rejected : forall p,
  has_fault_unknown_attribute p = true -> validate p <> Ok [].
Proof.
  apply (fault_somewhere_rejected (fun E T => f_param (bad_first_attribute E T))).
  intros E T pi s b es H Hc. eapply (local_param_fault E T (bad_first_attribute E T)); [|exact H|exact Hc].
  intros. eapply bad_first_attribute_false; eassumption.
Qed.

Theorem wrong_arity_rejected : forall p, has_fault_wrong_arity p = true -> validate p <> Ok [].
Proof.
  apply (fault_somewhere_rejected (fun E _ => f_wrong_arity E)).
  intros. eapply local_wrong_arity; eassumption.
Qed.

Theorem bad_parallel_loop_rejected : forall p, has_fault_bad_parallel_loop p = true -> validate p <> Ok [].
Proof.
  apply (fault_somewhere_rejected (fun _ _ => f_bad_parloop)).
  intros. eapply local_bad_parloop; eassumption.
Qed.

(* ---- definitions: duplicates (F10–F13), productionTask (F14), outputs (F15), types (F03) ---- *)

(* some name occurs a second time *)
Fixpoint fresh_nodup (seen l : list name) : bool :=
  match l with
  | [] => true
  | x :: r => negb (mem x seen) && fresh_nodup (x :: seen) r
  end.
Definition has_dup (l : list name) : bool := negb (fresh_nodup [] l).

Lemma dup_positions_nonempty : forall V (l : list (name * V)) seen i,
  fresh_nodup seen (map fst l) = false -> dup_positions seen i l <> [].
Proof.
  intros V l. induction l as [|[k v] r IH]; intros seen i H; cbn in *; [discriminate|].
  destruct (mem k seen); [discriminate|]. cbn in H. apply IH. exact H.
Qed.

Definition stmt_call_outs (s : stmt) : list outparams :=
  match s with
  | SService _ _ outs => [outs]
  | SCall c => [c_outs c]
  | SParallel cs => map c_outs cs
  | _ => []
  end.

(* F10 *) Definition has_fault_duplicate_struct (p : program) : bool := has_dup (map s_name (p_structs p)).
(* F11 *) Definition has_fault_duplicate_task (p : program) : bool := has_dup (map t_name (p_tasks p)).
(* F12 *) Definition has_fault_duplicate_attribute (p : program) : bool :=
  existsb (fun s => has_dup (map fst (s_attrs s))) (p_structs p).
(* F13 *) Definition has_fault_duplicate_task_input (p : program) : bool :=
  existsb (fun t => has_dup (map fst (t_ins t))) (p_tasks p).
(* F14 *) Definition has_fault_no_start_task (p : program) : bool :=
  negb (mem production_task (map t_name (p_tasks p))).

Lemma visit_errs_nil_parts : forall p, visit_errs p = [] ->
  flat_map (fun ix => struct_visit_errs (fst ix) (snd ix)) (index_from 0 (p_structs p)) = []
  /\ dup_positions [] 0 (map (fun s => (s_name s, tt)) (p_structs p)) = []
  /\ flat_map (fun ix => task_visit_errs (fst ix) (snd ix)) (index_from 0 (p_tasks p)) = []
  /\ dup_positions [] 0 (map (fun t => (t_name t, tt)) (p_tasks p)) = [].
Proof.
  intros p H. unfold visit_errs in H.
  apply app_eq_nil in H. destruct H as [H1 H].
  apply app_eq_nil in H. destruct H as [H2 H].
  apply app_eq_nil in H. destruct H as [H3 H4].
  repeat split; try assumption.
  - destruct (dup_positions [] 0 (map (fun s => (s_name s, tt)) (p_structs p))); [reflexivity | discriminate].
  - destruct (dup_positions [] 0 (map (fun t => (t_name t, tt)) (p_tasks p))); [reflexivity | discriminate].
Qed.

Theorem duplicate_struct_rejected : forall p, has_fault_duplicate_struct p = true -> validate p <> Ok [].
Proof.
  intros p Hf Hacc. destruct (validate_ok_nil p Hacc) as [Hv _].
  destruct (visit_errs_nil_parts p Hv) as (_ & H2 & _ & _).
  unfold has_fault_duplicate_struct, has_dup in Hf. apply negb_true_iff in Hf.
  eapply (dup_positions_nonempty unit); [|exact H2]. rewrite map_map. exact Hf.
Qed.

Theorem duplicate_task_rejected : forall p, has_fault_duplicate_task p = true -> validate p <> Ok [].
Proof.
  intros p Hf Hacc. destruct (validate_ok_nil p Hacc) as [Hv _].
  destruct (visit_errs_nil_parts p Hv) as (_ & _ & _ & H4).
  unfold has_fault_duplicate_task, has_dup in Hf. apply negb_true_iff in Hf.
  eapply (dup_positions_nonempty unit); [|exact H4]. rewrite map_map. exact Hf.
Qed.

Lemma flat_map_nil_in : forall A B (f : A -> list B) l x, flat_map f l = [] -> In x l -> f x = [].
Proof.
  intros A B f l. induction l as [|y r IH]; intros x H Hin; [destruct Hin|].
  cbn in H. apply app_eq_nil in H. destruct H as [H1 H2].
  destruct Hin as [->|Hin]; [assumption | apply IH; assumption].
Qed.

Lemma in_index_from : forall A (l : list A) i x, In x l -> exists j, In (j, x) (index_from i l).
Proof.
  intros A l. induction l as [|y r IH]; intros i x Hin; [destruct Hin|].
  destruct Hin as [->|Hin].
  - exists i. left. reflexivity.
  - destruct (IH (S i) x Hin) as [j Hj]. exists j. right. exact Hj.
Qed.

Theorem duplicate_attribute_rejected : forall p, has_fault_duplicate_attribute p = true -> validate p <> Ok [].
Proof.
  intros p Hf Hacc. destruct (validate_ok_nil p Hacc) as [Hv _].
  destruct (visit_errs_nil_parts p Hv) as (H1 & _ & _ & _).
  unfold has_fault_duplicate_attribute in Hf. apply existsb_exists in Hf. destruct Hf as (s & Hin & Hd).
  destruct (in_index_from _ _ 0 s Hin) as [j Hj].
  pose proof (flat_map_nil_in _ _ _ _ (j, s) H1 Hj) as Hs. cbn [fst snd] in Hs.
  unfold struct_visit_errs in Hs. apply app_eq_nil in Hs. destruct Hs as [_ Hs].
  unfold has_dup in Hd. apply negb_true_iff in Hd.
  apply (dup_positions_nonempty _ (s_attrs s) [] 0 Hd).
  destruct (dup_positions [] 0 (s_attrs s)); [reflexivity | discriminate].
Qed.

Theorem duplicate_task_input_rejected : forall p, has_fault_duplicate_task_input p = true -> validate p <> Ok [].
Proof.
  intros p Hf Hacc. destruct (validate_ok_nil p Hacc) as [Hv _].
  destruct (visit_errs_nil_parts p Hv) as (_ & _ & H3 & _).
  unfold has_fault_duplicate_task_input in Hf. apply existsb_exists in Hf. destruct Hf as (t & Hin & Hd).
  destruct (in_index_from _ _ 0 t Hin) as [j Hj].
  pose proof (flat_map_nil_in _ _ _ _ (j, t) H3 Hj) as Hs. cbn [fst snd] in Hs.
  unfold task_visit_errs in Hs. apply app_eq_nil in Hs. destruct Hs as [_ Hs].
  apply app_eq_nil in Hs. destruct Hs as [Hs _].
  unfold has_dup in Hd. apply negb_true_iff in Hd.
  apply (dup_positions_nonempty _ (t_ins t) [] 0 Hd).
  destruct (dup_positions [] 0 (t_ins t)); [reflexivity | discriminate].
Qed.

Lemma has_key_dedup_first : forall V (l : list (name * V)) seen k,
  has_key k (dedup_first seen l) = true -> mem k (map fst l) = true.
Proof.
  intros V l. induction l as [|[k' v] r IH]; intros seen k H; [discriminate|].
  cbn [dedup_first] in H. cbn [map fst mem].
  destruct (mem k' seen).
  - rewrite (IH _ _ H). apply orb_true_r.
  - unfold has_key in H. cbn [assoc] in H. destruct (Nat.eqb k k'); [reflexivity|].
    cbn [orb]. apply (IH (k' :: seen)). unfold has_key. exact H.
Qed.

Lemma map_fst_indexed : forall A B (key : A -> name) (g : nat -> A -> B) l i,
  map fst (map (fun ix => (key (snd ix), g (fst ix) (snd ix))) (index_from i l)) = map key l.
Proof.
  intros A B key g l. induction l as [|x r IH]; intro i; [reflexivity|].
  cbn. rewrite IH. reflexivity.
Qed.

Theorem no_start_task_rejected : forall p, has_fault_no_start_task p = true -> validate p <> Ok [].
Proof.
  intros p Hf Hacc. pose proof (accepted_has_start_task p Hacc) as Hk.
  unfold visit_env in Hk. cbn [e_tasks] in Hk.
  apply has_key_dedup_first in Hk. rewrite map_fst_indexed in Hk.
  unfold has_fault_no_start_task in Hf. rewrite Hk in Hf. discriminate.
Qed.

(* F15 *) Definition has_fault_undeclared_task_output (p : program) : bool :=
  existsb (fun kv => existsb (fun o => negb (has_key o (td_vars (snd kv)))) (td_outs (snd kv)))
          (e_tasks (visit_env p)).

Theorem undeclared_task_output_rejected : forall p,
  has_fault_undeclared_task_output p = true -> validate p <> Ok [].
Proof.
  intros p Hf Hacc. unfold has_fault_undeclared_task_output in Hf.
  apply existsb_exists in Hf. destruct Hf as (kv & Hin & Hf).
  apply existsb_exists in Hf. destruct Hf as (o & Ho & Hbo). apply negb_true_iff in Hbo.
  destruct (accepted_task_io p Hacc kv Hin) as [_ [e He]]. unfold check_task_outputs in He.
  assert (true = false).
  { eapply forall_from_false_at; [exact He | exact Ho|].
    intros j b e0 H0. cbn beta in H0. rewrite Hbo in H0. inversion H0. reflexivity. }
  discriminate.
Qed.

(* F03 *) Definition has_fault_unknown_attribute_type (p : program) : bool :=
  let E := visit_env p in
  existsb (fun kv => existsb (fun a => negb (type_exists E (snd a))) (sd_attrs (snd kv))) (e_structs E).
(* F03 *) Definition has_fault_unknown_input_type (p : program) : bool :=
  let E := visit_env p in
  existsb (fun kv => existsb (fun a => negb (type_exists E (snd a))) (td_ins (snd kv))) (e_tasks E).

Theorem unknown_attribute_type_rejected : forall p,
  has_fault_unknown_attribute_type p = true -> validate p <> Ok [].
Proof.
  intros p Hf Hacc. unfold has_fault_unknown_attribute_type in Hf. cbn zeta in Hf.
  apply existsb_exists in Hf. destruct Hf as (kv & Hin & Hf).
  apply existsb_exists in Hf. destruct Hf as (a & Ha & Hba). apply negb_true_iff in Hba.
  pose proof (accepted_structs p Hacc) as Hs. unfold check_structs in Hs.
  assert (true = false).
  { eapply forall_from_false_at; [exact Hs | exact Hin|].
    intros j b e0 H0. cbn beta in H0. unfold check_struct_def in H0.
    eapply forall_from_false_at; [exact H0 | exact Ha|].
    intros j' b' e' H'. cbn beta in H'. unfold check_vardef in H'. unfold type_exists in Hba.
    rewrite Hba in H'. inversion H'. reflexivity. }
  discriminate.
Qed.

Theorem unknown_input_type_rejected : forall p,
  has_fault_unknown_input_type p = true -> validate p <> Ok [].
Proof.
  intros p Hf Hacc. unfold has_fault_unknown_input_type in Hf. cbn zeta in Hf.
  apply existsb_exists in Hf. destruct Hf as (kv & Hin & Hf).
  apply existsb_exists in Hf. destruct Hf as (a & Ha & Hba). apply negb_true_iff in Hba.
  destruct (accepted_task_io p Hacc kv Hin) as [[e He] _]. unfold check_task_inputs in He.
  assert (true = false).
  { eapply forall_from_false_at; [exact He | exact Ha|].
    intros j b e0 H0. cbn beta in H0. unfold check_vardef in H0. unfold type_exists in Hba.
    rewrite Hba in H0. inversion H0. reflexivity. }
  discriminate.
Qed.

(* ---- F13: an output parameter defined twice in one call (anywhere, parallel loops included:
   the visitor walks every statement) ---- *)
Fixpoint concat_from (f : nat -> stmt -> list err) (i : nat) (l : list stmt) : list err :=
  match l with
  | [] => []
  | s1 :: r => f i s1 ++ concat_from f (S i) r
  end.

Lemma concat_from_nonempty : forall f l i x,
  In x l -> (forall j, f j x <> []) -> concat_from f i l <> [].
Proof.
  intros f l. induction l as [|y r IH]; intros i x Hin Hx H; [destruct Hin|].
  cbn in H. apply app_eq_nil in H. destruct H as [H1 H2].
  destruct Hin as [->|Hin]; [exact (Hx i H1) | exact (IH (S i) x Hin Hx H2)].
Qed.

Fixpoint anywhere_exists (P : stmt -> bool) (s : stmt) : bool :=
  P s ||
  match s with
  | SWhile _ b => existsb (anywhere_exists P) b
  | SCount _ _ _ b => existsb (anywhere_exists P) b
  | SCond _ p f => existsb (anywhere_exists P) p || existsb (anywhere_exists P) f
  | _ => false
  end.

Definition f_duplicate_output (s : stmt) : bool :=
  existsb (fun outs => has_dup (map fst outs)) (stmt_call_outs s).

Lemma outs_visit_errs_nonempty : forall ti pi outs,
  has_dup (map fst outs) = true -> outs_visit_errs ti pi outs <> [].
Proof.
  intros ti pi outs Hd H. unfold outs_visit_errs in H. apply app_eq_nil in H. destruct H as [_ H].
  unfold has_dup in Hd. apply negb_true_iff in Hd.
  apply (dup_positions_nonempty _ outs [] 0 Hd).
  destruct (dup_positions [] 0 outs); [reflexivity | discriminate].
Qed.

Lemma fix_eq_concat : forall (g : nat -> stmt -> list err) l i,
  (fix go (i : nat) (l : list stmt) : list err :=
     match l with [] => [] | s1 :: r => g i s1 ++ go (S i) r end) i l = concat_from g i l.
Proof.
  intros g l. induction l as [|s1 r IH]; intro i; [reflexivity|]. cbn [concat_from]. rewrite <- IH. reflexivity.
Qed.

Lemma stmt_visit_errs_unfold : forall ti pi s,
  stmt_visit_errs ti pi s =
  match s with
  | SService _ ins outs => lit_visit_errs ti pi ins ++ outs_visit_errs ti pi outs
  | SCall c => lit_visit_errs ti pi (c_ins c) ++ outs_visit_errs ti pi (c_outs c)
  | SParallel cs =>
    flat_map (fun ic => lit_visit_errs ti (pi ++ [fst ic]) (c_ins (snd ic))
                        ++ outs_visit_errs ti (pi ++ [fst ic]) (c_outs (snd ic))) (index_from 0 cs)
  | SWhile _ body => concat_from (fun i s1 => stmt_visit_errs ti (pi ++ [i]) s1) 0 body
  | SCount _ _ _ body => concat_from (fun i s1 => stmt_visit_errs ti (pi ++ [i]) s1) 0 body
  | SCond _ p f =>
    concat_from (fun i s1 => stmt_visit_errs ti (pi ++ [0; i]) s1) 0 p
    ++ concat_from (fun i s1 => stmt_visit_errs ti (pi ++ [1; i]) s1) 0 f
  end.
Proof.
  intros ti pi s. destruct s; try reflexivity; cbn [stmt_visit_errs].
  - apply (fix_eq_concat (fun i s1 => stmt_visit_errs ti (pi ++ [i]) s1)).
  - apply (fix_eq_concat (fun i s1 => stmt_visit_errs ti (pi ++ [i]) s1)).
  - f_equal.
    + apply (fix_eq_concat (fun i s1 => stmt_visit_errs ti (pi ++ [0; i]) s1)).
    + apply (fix_eq_concat (fun i s1 => stmt_visit_errs ti (pi ++ [1; i]) s1)).
Qed.

Lemma duplicate_output_visit_errs : forall ti s pi,
  anywhere_exists f_duplicate_output s = true -> stmt_visit_errs ti pi s <> [].
Proof.
  intros ti s. induction s using stmt_ind'; intros pi Hv; rewrite stmt_visit_errs_unfold;
    cbn [anywhere_exists] in Hv; apply orb_true_iff in Hv.
  - destruct Hv as [Hv|Hv]; [|discriminate]. unfold f_duplicate_output in Hv. cbn in Hv.
    rewrite orb_false_r in Hv. intro H. apply app_eq_nil in H. destruct H as [_ H]. revert H.
    apply outs_visit_errs_nonempty. exact Hv.
  - destruct Hv as [Hv|Hv]; [|discriminate]. unfold f_duplicate_output in Hv. cbn in Hv.
    rewrite orb_false_r in Hv. intro H. apply app_eq_nil in H. destruct H as [_ H]. revert H.
    apply outs_visit_errs_nonempty. exact Hv.
  - destruct Hv as [Hv|Hv]; [|discriminate]. unfold f_duplicate_output in Hv. cbn [stmt_call_outs] in Hv.
    apply existsb_exists in Hv. destruct Hv as (outs & Hin & Hd).
    apply in_map_iff in Hin. destruct Hin as (c & Hc & Hin). subst outs.
    destruct (in_index_from _ _ 0 c Hin) as [j Hj]. intro H.
    pose proof (flat_map_nil_in _ _ _ _ (j, c) H Hj) as Hs. cbn [fst snd] in Hs.
    apply app_eq_nil in Hs. destruct Hs as [_ Hs].
    exact (outs_visit_errs_nonempty _ _ _ Hd Hs).
  - destruct Hv as [Hv|Hv]; [discriminate|].
    apply existsb_exists in Hv. destruct Hv as (x & Hin & Hx).
    eapply concat_from_nonempty; [exact Hin|]. intro j. rewrite Forall_forall in H. apply H; assumption.
  - destruct Hv as [Hv|Hv]; [discriminate|].
    apply existsb_exists in Hv. destruct Hv as (x & Hin & Hx).
    eapply concat_from_nonempty; [exact Hin|]. intro j. rewrite Forall_forall in H. apply H; assumption.
  - destruct Hv as [Hv|Hv]; [discriminate|]. apply orb_true_iff in Hv. intro Happ.
    apply app_eq_nil in Happ. destruct Happ as [Hp Hf]. destruct Hv as [Hv|Hv].
    + apply existsb_exists in Hv. destruct Hv as (x & Hin & Hx). revert Hp.
      eapply concat_from_nonempty; [exact Hin|]. intro j. rewrite Forall_forall in H. apply H; assumption.
    + apply existsb_exists in Hv. destruct Hv as (x & Hin & Hx). revert Hf.
      eapply concat_from_nonempty; [exact Hin|]. intro j. rewrite Forall_forall in H0. apply H0; assumption.
Qed.

Definition has_fault_duplicate_call_output (p : program) : bool :=
  existsb (fun t => existsb (anywhere_exists f_duplicate_output) (t_body t)) (p_tasks p).

Lemma body_visit_errs_concat : forall ti l i,
  body_visit_errs ti i l = concat_from (fun j s => stmt_visit_errs ti [j] s) i l.
Proof.
  intros ti l. induction l as [|s r IH]; intro i; [reflexivity|]. cbn. rewrite IH. reflexivity.
Qed.

Theorem duplicate_call_output_rejected : forall p,
  has_fault_duplicate_call_output p = true -> validate p <> Ok [].
Proof.
  intros p Hf Hacc. destruct (validate_ok_nil p Hacc) as [Hv _].
  destruct (visit_errs_nil_parts p Hv) as (_ & _ & H3 & _).
  unfold has_fault_duplicate_call_output in Hf. apply existsb_exists in Hf. destruct Hf as (t & Hin & Hd).
  apply existsb_exists in Hd. destruct Hd as (s & Hs & Hd).
  destruct (in_index_from _ _ 0 t Hin) as [j Hj].
  pose proof (flat_map_nil_in _ _ _ _ (j, t) H3 Hj) as Ht. cbn [fst snd] in Ht.
  unfold task_visit_errs in Ht. apply app_eq_nil in Ht. destruct Ht as [_ Ht].
  apply app_eq_nil in Ht. destruct Ht as [_ Ht]. rewrite body_visit_errs_concat in Ht.
  revert Ht. eapply concat_from_nonempty; [exact Hs|]. intro k.
  apply duplicate_output_visit_errs. exact Hd.
Qed.

(* ---- "reported", not merely "not accepted": under the guard of C16 a fault yields a
   non-empty list of messages ---- *)
Definition reported (p : program) : Prop := exists es, validate p = Ok es /\ es <> [].

Lemma not_accepted_reported : forall p,
  (exists es, validate p = Ok es) -> validate p <> Ok [] -> reported p.
Proof.
  intros p [es Hes] Hn. exists es. split; [assumption|]. intro; subst. contradiction.
Qed.

(* ---- F06 / F07 at the top level of a struct literal ---- *)
Section LiteralFaults.
  Variable E : env.
  Variable T : tdef.

  Definition literal_fields (j : json) : list (name * pv) :=
    match parse_json j with PVStruct fs => fs | _ => [] end.

  (* F07: a key of the literal that the struct definition lacks *)
  Definition bad_literal_key (x : param) : bool :=
    match x with
    | PLit s (JObj fs) =>
      match find_struct E s with
      | Some sd => existsb (fun kv => negb (has_key (fst kv) (sd_attrs sd))) (literal_fields (JObj fs))
      | None => false
      end
    | _ => false
    end.

  Lemma bad_literal_key_false : forall ti pi k x b1 e1,
    bad_literal_key x = true -> check_input_param E T ti pi k x = Ok (b1, e1) -> b1 = false.
  Proof.
    intros ti pi k x b1 e1 Hb Hc. destruct x as [| |s j]; try discriminate. destruct j; try discriminate.
    cbn [bad_literal_key check_input_param] in *. unfold check_literal in Hc. unfold literal_fields in Hb.
    destruct (parse_json (JObj fs)) as [| | |fs'|]; try discriminate.
    destruct (find_struct E s) as [sd|]; [|discriminate].
    apply band_ok in Hc. destruct Hc as (x1 & er1 & y & er2 & H1 & H2 & -> & _).
    apply existsb_exists in Hb. destruct Hb as (kv & Hin & Hk). apply negb_true_iff in Hk.
    assert (y = false).
    { eapply forall_from_false_at; [exact H2 | exact Hin|].
      intros j b e0 H0. cbn beta in H0. rewrite Hk in H0. inversion H0. reflexivity. }
    subst. apply andb_false_r.
  Qed.

  (* F06: an attribute of the struct definition that the literal lacks *)
  Definition bad_literal_missing (x : param) : bool :=
    match x with
    | PLit s (JObj fs) =>
      match find_struct E s with
      | Some sd => existsb (fun a => negb (has_key (fst a) (literal_fields (JObj fs)))) (sd_attrs sd)
      | None => false
      end
    | _ => false
    end.

  Lemma check_missing_false : forall c defattrs (fs : list (name * pv)) b e,
    existsb (fun a => negb (has_key (fst a) fs)) defattrs = true ->
    check_missing c defattrs fs = Ok (b, e) -> b = false.
  Proof.
    intros c defattrs fs. induction defattrs as [|[a t] r IH]; intros b e Hex Hc; [discriminate|].
    cbn [existsb fst] in Hex. cbn [check_missing] in Hc.
    destruct (has_key a fs); cbn [negb orb] in Hex; [eapply IH; eassumption|]. inversion Hc. reflexivity.
  Qed.

  Lemma bad_literal_missing_false : forall ti pi k x b1 e1,
    bad_literal_missing x = true -> check_input_param E T ti pi k x = Ok (b1, e1) -> b1 = false.
  Proof.
    intros ti pi k x b1 e1 Hb Hc. destruct x as [| |s j]; try discriminate. destruct j; try discriminate.
    cbn [bad_literal_missing check_input_param] in *. unfold check_literal in Hc. unfold literal_fields in Hb.
    destruct (parse_json (JObj fs)) as [| | |fs'|]; try discriminate.
    destruct (find_struct E s) as [sd|]; [|discriminate].
    apply band_ok in Hc. destruct Hc as (x1 & er1 & y & er2 & H1 & H2 & -> & _).
    rewrite (check_missing_false _ _ _ _ _ Hb H1). reflexivity.
  Qed.
End LiteralFaults.

(* F06 *) Definition has_fault_literal_missing_attribute : program -> bool :=
  fault_somewhere (fun E _ => f_param (bad_literal_missing E)).
(* F07 *) Definition has_fault_literal_unknown_attribute : program -> bool :=
  fault_somewhere (fun E _ => f_param (bad_literal_key E)).

Theorem literal_missing_attribute_rejected : forall p,
  has_fault_literal_missing_attribute p = true -> validate p <> Ok [].
Proof.
  apply (fault_somewhere_rejected (fun E _ => f_param (bad_literal_missing E))).
  intros E T pi s b es H Hc. eapply (local_param_fault E T (bad_literal_missing E)); [|exact H|exact Hc].
  intros. eapply bad_literal_missing_false; eassumption.
Qed.

Theorem literal_unknown_attribute_rejected : forall p,
  has_fault_literal_unknown_attribute p = true -> validate p <> Ok [].
Proof.
  apply (fault_somewhere_rejected (fun E _ => f_param (bad_literal_key E))).
  intros E T pi s b es H Hc. eapply (local_param_fault E T (bad_literal_key E)); [|exact H|exact Hc].
  intros. eapply bad_literal_key_false; eassumption.
Qed.

(* ---- F19 recursion, and F04 / F05 / F18 in a loop limit ---- *)
Section RecursionAndLimits.
  Variable E : env.
  Variable T : tdef.

  (* the called task exists and the calling task can be reached from it again *)
  Definition recursive_call (c : call) : bool :=
    has_key (c_name c) (e_tasks E) && task_reaches E (length (e_tasks E)) (c_name c) (td_name T).

  Definition f_recursive_call (s : stmt) : bool :=
    match s with
    | SCall c => recursive_call c
    | SParallel cs => existsb recursive_call cs
    | _ => false
    end.

  Lemma recursive_call_false : forall ti pi c b es,
    recursive_call c = true -> check_task_call E T ti pi c = Ok (b, es) -> b = false.
  Proof.
    intros ti pi c b es Hr Hc. unfold recursive_call in Hr. apply andb_true_iff in Hr. destruct Hr as [Hk Hr].
    unfold check_task_call in Hc. rewrite Hk, Hr in Hc. inversion Hc. reflexivity.
  Qed.

  Lemma local_recursive_call : forall pi s b es,
    f_recursive_call s = true -> check_stmt E T pi s = Ok (b, es) -> b = false.
  Proof.
    intros pi s b es Hf Hc. destruct s; try discriminate; cbn [f_recursive_call check_stmt] in *.
    - eapply recursive_call_false; eassumption.
    - apply existsb_exists in Hf. destruct Hf as (c & Hin & Hu).
      eapply forall_from_false_at; [exact Hc | exact Hin|].
      intros j b1 e1 H1; cbn beta in H1. eapply recursive_call_false; eassumption.
  Qed.

  (* the limit of a counting loop (parallel or not) does not resolve to a number: undeclared
     variable, unknown attribute, attribute of another type *)
  Definition f_bad_limit (s : stmt) : bool :=
    match s with
    | SCount _ _ (LimPath v es) _ => negb (expression_is_number E T (EPath v es))
    | _ => false
    end.

  Lemma check_limit_false : forall c v es b e,
    expression_is_number E T (EPath v es) = false ->
    check_limit E T c (LimPath v es) = Ok (b, e) -> b = false.
  Proof.
    intros c v es b e Hn Hc. unfold check_limit in Hc. rewrite Hn in Hc.
    apply andthen_ok in Hc. destruct Hc as (x & e1 & H1 & [(_ & Hb & _) | (_ & e2 & H2 & _)]); [assumption|].
    inversion H2. reflexivity.
  Qed.

  Lemma local_bad_limit : forall pi s b es,
    f_bad_limit s = true -> check_stmt E T pi s = Ok (b, es) -> b = false.
  Proof.
    intros pi s b es Hf Hc. destruct s; try discriminate. destruct lim as [n|v0 es0]; [discriminate|].
    cbn [f_bad_limit] in Hf. apply negb_true_iff in Hf.
    destruct par; cbn [check_stmt] in Hc; apply band_ok in Hc;
      destruct Hc as (x & e1 & y & e2 & H1 & H2 & -> & _);
      rewrite (check_limit_false _ _ _ _ _ Hf H1); reflexivity.
  Qed.
End RecursionAndLimits.

(* F19 *) Definition has_fault_recursive_call : program -> bool :=
  fault_somewhere (fun E T => f_recursive_call E T).
(* F04/F05/F18 in a limit *) Definition has_fault_bad_limit : program -> bool :=
  fault_somewhere (fun E T => f_bad_limit E T).

Theorem recursive_call_rejected : forall p, has_fault_recursive_call p = true -> validate p <> Ok [].
Proof.
  apply (fault_somewhere_rejected (fun E T => f_recursive_call E T)).
  intros. eapply local_recursive_call; eassumption.
Qed.

Theorem bad_limit_rejected : forall p, has_fault_bad_limit p = true -> validate p <> Ok [].
Proof.
  apply (fault_somewhere_rejected (fun E T => f_bad_limit E T)).
  intros. eapply local_bad_limit; eassumption.
Qed.

(* ---- F08: an array that directly contains an array, in a struct literal anywhere (the visitor
   walks every statement) ---- *)
Definition nested_array_param (x : param) : bool :=
  match x with
  | PLit _ j => negb (Nat.eqb (nested_in j) 0)
  | _ => false
  end.

Definition f_nested_array (s : stmt) : bool := existsb (existsb nested_array_param) (stmt_params s).

Lemma lit_visit_errs_nonempty : forall ti pi ins,
  existsb nested_array_param ins = true -> lit_visit_errs ti pi ins <> [].
Proof.
  intros ti pi ins Hex H. apply existsb_exists in Hex. destruct Hex as (x & Hin & Hx).
  unfold lit_visit_errs in H. destruct (in_index_from _ _ 0 x Hin) as [k Hk].
  pose proof (flat_map_nil_in _ _ _ _ (k, x) H Hk) as Hs. cbn [fst snd] in Hs.
  destruct x as [| |s j]; try discriminate. cbn [nested_array_param] in Hx.
  destruct (nested_in j); [discriminate | discriminate].
Qed.

Lemma nested_array_visit_errs : forall ti s pi,
  anywhere_exists f_nested_array s = true -> stmt_visit_errs ti pi s <> [].
Proof.
  intros ti s. induction s using stmt_ind'; intros pi Hv; rewrite stmt_visit_errs_unfold;
    cbn [anywhere_exists] in Hv; apply orb_true_iff in Hv.
  - destruct Hv as [Hv|Hv]; [|discriminate]. unfold f_nested_array in Hv. cbn in Hv.
    rewrite orb_false_r in Hv. intro H. apply app_eq_nil in H. destruct H as [H _]. revert H.
    apply lit_visit_errs_nonempty. exact Hv.
  - destruct Hv as [Hv|Hv]; [|discriminate]. unfold f_nested_array in Hv. cbn in Hv.
    rewrite orb_false_r in Hv. intro H. apply app_eq_nil in H. destruct H as [H _]. revert H.
    apply lit_visit_errs_nonempty. exact Hv.
  - destruct Hv as [Hv|Hv]; [|discriminate]. unfold f_nested_array in Hv. cbn [stmt_params] in Hv.
    apply existsb_exists in Hv. destruct Hv as (ins & Hin & Hd).
    apply in_map_iff in Hin. destruct Hin as (c & Hc & Hin). subst ins.
    destruct (in_index_from _ _ 0 c Hin) as [j Hj]. intro H.
    pose proof (flat_map_nil_in _ _ _ _ (j, c) H Hj) as Hs. cbn [fst snd] in Hs.
    apply app_eq_nil in Hs. destruct Hs as [Hs _].
    exact (lit_visit_errs_nonempty _ _ _ Hd Hs).
  - destruct Hv as [Hv|Hv]; [discriminate|].
    apply existsb_exists in Hv. destruct Hv as (x & Hin & Hx).
    eapply concat_from_nonempty; [exact Hin|]. intro j. rewrite Forall_forall in H. apply H; assumption.
  - destruct Hv as [Hv|Hv]; [discriminate|].
    apply existsb_exists in Hv. destruct Hv as (x & Hin & Hx).
    eapply concat_from_nonempty; [exact Hin|]. intro j. rewrite Forall_forall in H. apply H; assumption.
  - destruct Hv as [Hv|Hv]; [discriminate|]. apply orb_true_iff in Hv. intro Happ.
    apply app_eq_nil in Happ. destruct Happ as [Hp Hf]. destruct Hv as [Hv|Hv].
    + apply existsb_exists in Hv. destruct Hv as (x & Hin & Hx). revert Hp.
      eapply concat_from_nonempty; [exact Hin|]. intro j. rewrite Forall_forall in H. apply H; assumption.
    + apply existsb_exists in Hv. destruct Hv as (x & Hin & Hx). revert Hf.
      eapply concat_from_nonempty; [exact Hin|]. intro j. rewrite Forall_forall in H0. apply H0; assumption.
Qed.

Definition has_fault_nested_array_literal (p : program) : bool :=
  existsb (fun t => existsb (anywhere_exists f_nested_array) (t_body t)) (p_tasks p).

Theorem nested_array_literal_rejected : forall p,
  has_fault_nested_array_literal p = true -> validate p <> Ok [].
Proof.
  intros p Hf Hacc. destruct (validate_ok_nil p Hacc) as [Hv _].
  destruct (visit_errs_nil_parts p Hv) as (_ & _ & H3 & _).
  unfold has_fault_nested_array_literal in Hf. apply existsb_exists in Hf. destruct Hf as (t & Hin & Hd).
  apply existsb_exists in Hd. destruct Hd as (s & Hs & Hd).
  destruct (in_index_from _ _ 0 t Hin) as [j Hj].
  pose proof (flat_map_nil_in _ _ _ _ (j, t) H3 Hj) as Ht. cbn [fst snd] in Ht.
  unfold task_visit_errs in Ht. apply app_eq_nil in Ht. destruct Ht as [_ Ht].
  apply app_eq_nil in Ht. destruct Ht as [_ Ht]. rewrite body_visit_errs_concat in Ht.
  revert Ht. eapply concat_from_nonempty; [exact Hs|]. intro k.
  apply nested_array_visit_errs. exact Hd.
Qed.
