(* CheckProofsC10b.v — fault classes of C10 about *types*: arguments of task calls (F17),
   operands of guards and loop limits (F04 / F05 / F18 as far as they are reported), values in
   struct literals (F08 / F09, at any depth) and the deeper steps of attribute paths (F05e–i).
   Every class is a decidable predicate on the statement node (relative to the environment and
   the task the validator has built), a local lemma "a node with the defect is invalid", and the
   program-level theorem through the descent lemma of CheckProofsC10.v (any statement position,
   any nesting, parallel-loop bodies included).

   The predicates do not use the validator's own type lookups: the type of a path is computed
   by [walk_ty] below (field steps through struct types, index steps through array types), and
   the lookups of the validator are shown to agree with it wherever they yield a type. *)
From PFDL Require Import Base Syntax.
From PFDL.Check Require Import CheckModel CheckProofsBase CheckProofsC16 CheckProofsNoExn CheckProofsC10 CheckProofsC11
     Guards Witnesses WitnessesC10b.

(* ------------------------------------------------------------------------------ *)
(* the lifting, for predicates whose local lemma needs a property of the environment the
   visitor builds                                                                  *)
(* ------------------------------------------------------------------------------ *)
Lemma fault_somewhere_rejected_at : forall (P : env -> tdef -> stmt -> bool) p,
  (forall T pi s b es, P (visit_env p) T s = true -> check_stmt (visit_env p) T pi s = Ok (b, es) -> b = false) ->
  fault_somewhere P p = true -> validate p <> Ok [].
Proof.
  intros P p Hlocal Hf Hacc. unfold fault_somewhere in Hf.
  apply existsb_exists in Hf. destruct Hf as (kv & Hin & Hf).
  apply existsb_exists in Hf. destruct Hf as (s & Hs & Hv).
  destruct (accepted_stmt p Hacc kv s Hin Hs) as (pi & e & He).
  assert (true = false).
  { eapply (descent_exists (visit_env p) (snd kv) (P (visit_env p) (snd kv))); [|exact Hv|exact He].
    intros. eapply Hlocal; eassumption. }
  discriminate.
Qed.

(* process.structs is keyed by the name of the struct *)
Definition env_named (E : env) : Prop := forall s sd, find_struct E s = Some sd -> sd_name sd = s.

Lemma assoc_dedup_first_in : forall V (l : list (name * V)) seen k v,
  assoc k (dedup_first seen l) = Some v -> In (k, v) l.
Proof.
  intros V l. induction l as [|[k' v'] r IH]; intros seen k v H; [discriminate|].
  cbn [dedup_first] in H. destruct (mem k' seen).
  - right. eapply IH. exact H.
  - cbn [assoc] in H. destruct (Nat.eqb k k') eqn:Hk.
    + apply Nat.eqb_eq in Hk. inversion H; subst. left. reflexivity.
    + right. eapply IH. exact H.
Qed.

Lemma visit_env_named : forall p, env_named (visit_env p).
Proof.
  intros p s sd H. unfold find_struct, visit_env in H. cbn [e_structs] in H.
  apply assoc_dedup_first_in in H. apply in_map_iff in H. destruct H as (ix & Heq & _).
  inversion Heq; subst. reflexivity.
Qed.

(* positional matching of two lists *)
Fixpoint exists2b {A B} (f : A -> B -> bool) (l1 : list A) (l2 : list B) : bool :=
  match l1, l2 with
  | x :: r1, y :: r2 => f x y || exists2b f r1 r2
  | _, _ => false
  end.

Lemma forall2_chk_false_at : forall A B (f : A -> B -> chk) (g : A -> B -> bool) l1 l2 v es,
  (forall x y b e, g x y = true -> f x y = Ok (b, e) -> b = false) ->
  exists2b g l1 l2 = true -> forall2_chk f l1 l2 = Ok (v, es) -> v = false.
Proof.
  intros A B f g l1. induction l1 as [|x r1 IH]; intros l2 v es Hg Hex Hc; [discriminate|].
  destruct l2 as [|y r2]; [discriminate|]. cbn [exists2b] in Hex. cbn [forall2_chk] in Hc.
  apply band_ok in Hc. destruct Hc as (b1 & e1 & b2 & e2 & H1 & H2 & -> & _).
  apply orb_true_iff in Hex. destruct Hex as [Hex|Hex].
  - rewrite (Hg _ _ _ _ Hex H1). reflexivity.
  - rewrite (IH _ _ _ Hg Hex H2). apply andb_false_r.
Qed.

(* ------------------------------------------------------------------------------ *)
(* the type of a path                                                              *)
(* ------------------------------------------------------------------------------ *)
Section Paths.
  Variable E : env.
  Variable T : tdef.

  (* the type reached from a value of type t: a field step needs a struct type that has the
     attribute, an index step needs an array type *)
  Fixpoint walk_ty (t : vtype) (es : list pelem) : option vtype :=
    match es with
    | [] => Some t
    | PF a :: rest =>
      match struct_of_type E t with
      | Some sd => match assoc a (sd_attrs sd) with Some t' => walk_ty t' rest | None => None end
      | None => None
      end
    | _ :: rest =>
      match t with
      | TArray p _ => walk_ty (TPlain p) rest
      | TPlain _ => None
      end
    end.

  (* the type of variable.path in the task: None when the variable is not declared or a step
     is not possible *)
  Definition path_ty (v : name) (es : list pelem) : option vtype :=
    match assoc v (td_vars T) with
    | Some t => walk_ty t es
    | None => None
    end.

  (* whenever helpers.get_type_of_variable_list yields a type it is the type of the path *)
  Lemma gtvl_loop_walk : forall rest e sd t ty,
    struct_of_type E t = Some sd -> gtvl_loop E sd e rest = Some ty -> walk_ty t (e :: rest) = Some ty.
  Proof.
    induction rest as [|e' r IH]; intros e sd t ty Hs Hg.
    - cbn [gtvl_loop] in Hg. destruct e; try discriminate. cbn [attr_of] in Hg.
      cbn [walk_ty]. rewrite Hs, Hg. reflexivity.
    - cbn [gtvl_loop] in Hg. destruct e; try discriminate. cbn [attr_of] in Hg.
      destruct (assoc n (sd_attrs sd)) as [t1|] eqn:Ha; [|discriminate].
      destruct (struct_of_type E t1) as [sd1|] eqn:Hs1; [|discriminate].
      cbn [walk_ty]. rewrite Hs, Ha. eapply IH; eassumption.
  Qed.

  Lemma gtvl_path_ty : forall v e rest ty,
    get_type_of_variable_list E T v (e :: rest) = Some ty -> path_ty v (e :: rest) = Some ty.
  Proof.
    intros v e rest ty H. unfold get_type_of_variable_list in H. unfold path_ty.
    destruct (assoc v (td_vars T)) as [t|]; [|discriminate].
    destruct (struct_of_type E t) as [sd|] eqn:Hs; [|discriminate].
    eapply gtvl_loop_walk; eassumption.
  Qed.

  (* ---- class 4: deeper path steps ------------------------------------------------- *)
  (* a step of the path that is not possible (pred = the struct the path has reached):
     - a field the struct does not have                         (q.inner.nosuch)
     - a further step after an attribute that is no struct      (q.count.x)
     - an index on an attribute that is no array                (q.inner[0])
     - a field directly after an array attribute                (q.items.n)
     NOT a fault and not claimed: an element of an array of primitives (q.nums[0]) — that one
     the validator rejects although it is well-formed (finding D25) *)
  Fixpoint bad_step (pred : sdef) (es : list pelem) : bool :=
    match es with
    | [] => false
    | PF a :: rest =>
      match assoc a (sd_attrs pred) with
      | None => true
      | Some ty =>
        match rest with
        | [] => false
        | e2 :: _ =>
          match ty with
          | TArray p _ =>
            if is_index e2 then match struct_of_prim E p with Some sd => bad_step sd rest | None => false end
            else true
          | TPlain p =>
            if is_index e2 then true
            else match struct_of_prim E p with Some sd => bad_step sd rest | None => true end
          end
        end
      end
    | _ :: rest => bad_step pred rest
    end.

  Lemma bad_step_caa : forall es sd c b e,
    bad_step sd es = true -> caa_loop E c sd es = Ok (b, e) -> b = false.
  Proof.
    induction es as [|e1 rest IH]; intros sd c b e Hb Hc; [discriminate|].
    destruct e1 as [a| | |].
    - cbn [bad_step caa_loop] in Hb, Hc.
      destruct (assoc a (sd_attrs sd)) as [ty|]; [|inversion Hc; reflexivity].
      destruct rest as [|e2 r]; [discriminate|].
      destruct ty as [p|p l]; destruct (is_index e2).
      + inversion Hc; reflexivity.
      + destruct (struct_of_prim E p) as [sd'|]; [|inversion Hc; reflexivity].
        eapply IH; eassumption.
      + destruct (struct_of_prim E p) as [sd'|]; [|discriminate].
        eapply IH; eassumption.
      + inversion Hc; reflexivity.
    - cbn [bad_step caa_loop] in Hb, Hc. eapply IH; eassumption.
    - cbn [bad_step caa_loop] in Hb, Hc. eapply IH; eassumption.
    - cbn [bad_step caa_loop] in Hb, Hc. eapply IH; eassumption.
  Qed.

  (* such a path does not have a type *)
  Lemma bad_step_no_type_n : forall n es sd t,
    length es <= n -> struct_of_type E t = Some sd -> bad_step sd es = true -> walk_ty t es = None.
  Proof.
    induction n as [|n IH]; intros es sd t Hlen Hs Hb.
    - destruct es; [discriminate | cbn in Hlen; lia].
    - destruct es as [|e1 rest]; [discriminate|].
      assert (Hidx : is_index e1 = true -> walk_ty t (e1 :: rest) = None).
      { intro Hi. destruct t as [p|p l]; [|discriminate]. destruct e1; try discriminate; reflexivity. }
      destruct e1 as [a| | |]; try (apply Hidx; reflexivity).
      cbn [bad_step] in Hb. cbn [walk_ty]. rewrite Hs.
      destruct (assoc a (sd_attrs sd)) as [ty|]; [|reflexivity].
      destruct rest as [|e2 r]; [discriminate|].
      destruct ty as [p|p l]; destruct (is_index e2) eqn:Hi.
      + destruct e2; try discriminate; reflexivity.
      + destruct (struct_of_prim E p) as [sd'|] eqn:Hsp.
        * eapply (IH (e2 :: r) sd' (TPlain p)); [cbn in *; lia | exact Hsp | exact Hb].
        * destruct e2; try discriminate. cbn [walk_ty struct_of_type]. rewrite Hsp. reflexivity.
      + destruct (struct_of_prim E p) as [sd'|] eqn:Hsp; [|discriminate].
        destruct e2; try discriminate; cbn [walk_ty]; cbn [bad_step] in Hb;
          (eapply (IH r sd' (TPlain p)); [cbn in *; lia | exact Hsp | exact Hb]).
      + destruct e2; try discriminate. reflexivity.
  Qed.

  Lemma bad_step_no_type : forall es sd t,
    struct_of_type E t = Some sd -> bad_step sd es = true -> walk_ty t es = None.
  Proof. intros es sd t. apply (bad_step_no_type_n (length es)). apply le_n. Qed.

  (* the path parameter variable.es: the variable is declared, and it is an array, or of a type
     that is no struct, or a step of the path is not possible *)
  Definition bad_path_param (x : param) : bool :=
    match x with
    | PPath v es =>
      match assoc v (td_vars T) with
      | Some (TPlain p) => match struct_of_prim E p with Some sd => bad_step sd es | None => true end
      | Some (TArray _ _) => true
      | None => false
      end
    | _ => false
    end.

  Lemma bad_path_param_false : forall ti pi k x b1 e1,
    bad_path_param x = true -> check_input_param E T ti pi k x = Ok (b1, e1) -> b1 = false.
  Proof.
    intros ti pi k x b1 e1 Hb Hc. destruct x as [|v es|]; try discriminate.
    cbn [bad_path_param check_input_param] in *. unfold check_attribute_access in Hc.
    destruct (assoc v (td_vars T)) as [[p|p l]|]; try discriminate.
    - destruct (struct_of_prim E p) as [sd|]; [|inversion Hc; reflexivity].
      eapply bad_step_caa; eassumption.
    - inversion Hc; reflexivity.
  Qed.

  (* ---- class 2: operands of guards and loop limits -------------------------------- *)
  (* the path has the primitive type pr (a variable without attribute cannot be written in a
     guard; nothing is claimed about it) *)
  Definition path_is (pr : prim) (v : name) (es : list pelem) : bool :=
    match es with
    | [] => true
    | _ => match path_ty v es with Some (TPlain p) => prim_eqb p pr | _ => false end
    end.

  Lemma gtvl_path_is : forall pr v es,
    get_type_of_variable_list E T v es = Some (TPlain pr) -> path_is pr v es = true.
  Proof.
    intros pr v es H. destruct es as [|e rest]; [reflexivity|]. unfold path_is.
    rewrite (gtvl_path_ty _ _ _ _ H). destruct pr; cbn; try reflexivity. apply Nat.eqb_refl.
  Qed.

  (* every leaf of an operand of an arithmetic operator or of < <= > >= is a number: a number
     literal, a path of type number, — and a boolean literal, which the validator lets pass
     (finding D12b); ! never yields a number *)
  Fixpoint num_operand_ok (e : expr) : bool :=
    match e with
    | ENum _ | EBool _ => true
    | EStr _ => false
    | EPath v es => path_is TNumber v es
    | EParen e1 => num_operand_ok e1
    | EBin _ l r => num_operand_ok l && num_operand_ok r
    | ENot _ => false
    end.

  Definition str_operand_ok (e : expr) : bool :=
    match e with
    | EStr _ => true
    | EPath v es => path_is TString v es
    | _ => false
    end.

  Lemma is_number_num_operand_ok : forall e, expression_is_number E T e = true -> num_operand_ok e = true.
  Proof.
    induction e; intro H; cbn [expression_is_number num_operand_ok] in *; try reflexivity; try discriminate.
    - apply gtvl_path_is. destruct (get_type_of_variable_list E T v p) as [[[| | |s]|]|]; try discriminate. reflexivity.
    - apply IHe. exact H.
    - apply andb_true_iff in H. destruct H as [H1 H2]. rewrite (IHe1 H1), (IHe2 H2). reflexivity.
  Qed.

  Lemma is_string_str_operand_ok : forall e, expression_is_string E T e = true -> str_operand_ok e = true.
  Proof.
    intros e H. destruct e; cbn [expression_is_string str_operand_ok] in *; try reflexivity; try discriminate.
    apply gtvl_path_is. destruct (get_type_of_variable_list E T v p) as [[[| | |s]|]|]; try discriminate. reflexivity.
  Qed.

  (* a path where a boolean is required (the whole guard, an operand of And Or ! == !=): it
     does not resolve (undeclared variable, unknown attribute at any step, impossible step) or
     its type is neither boolean nor number (string, struct, array).  A number is let pass
     (finding D12b). *)
  Definition bool_path_fault (v : name) (es : list pelem) : bool :=
    match es with
    | [] => false
    | _ => match path_ty v es with
           | Some (TPlain TNumber) | Some (TPlain TBoolean) => false
           | _ => true
           end
    end.

  Lemma bool_path_fault_false : forall c v es b e,
    bool_path_fault v es = true -> check_single_path E T c v es = Ok (b, e) -> b = false.
  Proof.
    intros c v es b e Hf Hc. unfold check_single_path in Hc.
    apply andthen_ok in Hc. destruct Hc as (x & e1 & H1 & [(_ & Hb & _) | (_ & e2 & H2 & _)]); [assumption|].
    destruct es as [|e0 rest]; [discriminate|]. unfold bool_path_fault in Hf.
    destruct (get_type_of_variable_list E T v (e0 :: rest)) as [ty|] eqn:Hg.
    - rewrite (gtvl_path_ty _ _ _ _ Hg) in Hf.
      destruct ty as [[| | |s]|p l]; try discriminate; inversion H2; reflexivity.
    - inversion H2; reflexivity.
  Qed.

  (* the guard contains, in a position the validator looks at, an operand that is reported *)
  Fixpoint guard_fault (e : expr) : bool :=
    match e with
    | ENum _ | EBool _ | EStr _ => false
    | EPath v es => bool_path_fault v es
    | ENot e1 => guard_fault e1
    | EParen e1 => guard_fault e1
    | EBin o l r =>
      if is_cmp o then
        negb (num_operand_ok l && num_operand_ok r) && negb (str_operand_ok l && str_operand_ok r)
      else if is_arith o then negb (num_operand_ok l && num_operand_ok r)
      else guard_fault l || guard_fault r
    end.

  Lemma guard_fault_false : forall e c b es,
    guard_fault e = true -> check_expression E T c e = Ok (b, es) -> b = false.
  Proof.
    induction e; intros c bv es Hf Hc; cbn [guard_fault check_expression] in *; try discriminate.
    - eapply bool_path_fault_false; eassumption.
    - eapply IHe; eassumption.
    - eapply IHe; eassumption.
    - destruct (is_cmp o).
      + apply andb_true_iff in Hf. destruct Hf as [Hn Hs].
        destruct (expression_is_number E T e1 && expression_is_number E T e2) eqn:Hnum.
        { apply andb_true_iff in Hnum. destruct Hnum as [N1 N2].
          rewrite (is_number_num_operand_ok _ N1), (is_number_num_operand_ok _ N2) in Hn. discriminate. }
        destruct (expression_is_string E T e1 && expression_is_string E T e2) eqn:Hstr.
        { apply andb_true_iff in Hstr. destruct Hstr as [S1 S2].
          rewrite (is_string_str_operand_ok _ S1), (is_string_str_operand_ok _ S2) in Hs. discriminate. }
        inversion Hc; reflexivity.
      + destruct (is_arith o).
        * destruct (expression_is_number E T e1 && expression_is_number E T e2) eqn:Hnum.
          { apply andb_true_iff in Hnum. destruct Hnum as [N1 N2].
            rewrite (is_number_num_operand_ok _ N1), (is_number_num_operand_ok _ N2) in Hf. discriminate. }
          inversion Hc; reflexivity.
        * apply andthen_ok in Hc. destruct Hc as (x & ex & H1 & [(_ & Hb & _) | (Hx & e2' & H2 & _)]); [assumption|].
          apply orb_true_iff in Hf. destruct Hf as [Hf|Hf].
          -- subst x. assert (true = false) by (eapply IHe1; eassumption). discriminate.
          -- eapply IHe2; eassumption.
  Qed.

  Definition f_guard_fault (s : stmt) : bool :=
    match s with
    | SWhile e _ => guard_fault e
    | SCond e _ _ => guard_fault e
    | _ => false
    end.

  Lemma local_guard_fault : forall pi s b es,
    f_guard_fault s = true -> check_stmt E T pi s = Ok (b, es) -> b = false.
  Proof.
    intros pi s b es Hf Hc. destruct s; try discriminate; cbn [f_guard_fault check_stmt] in *.
    - apply band_ok in Hc. destruct Hc as (x & e1 & y & e2 & H1 & H2 & -> & _).
      rewrite (guard_fault_false _ _ _ _ Hf H2). apply andb_false_r.
    - apply band_ok in Hc. destruct Hc as (x & e1 & y & e2 & H1 & H2 & -> & _).
      apply band_ok in H2. destruct H2 as (x2 & e21 & y2 & e22 & H21 & H22 & -> & _).
      rewrite (guard_fault_false _ _ _ _ Hf H22). rewrite !andb_false_r. reflexivity.
  Qed.

  (* the limit of a counting loop (parallel or not) is a path that is not of type number *)
  Definition f_limit_fault (s : stmt) : bool :=
    match s with
    | SCount _ _ (LimPath v es) _ => negb (path_is TNumber v es)
    | _ => false
    end.

  Lemma local_limit_fault : forall pi s b es,
    f_limit_fault s = true -> check_stmt E T pi s = Ok (b, es) -> b = false.
  Proof.
    intros pi s b es Hf Hc. eapply (local_bad_limit E T); [|exact Hc].
    destruct s; try discriminate. destruct lim as [n|v0 es0]; [discriminate|].
    cbn [f_limit_fault f_bad_limit] in *. apply negb_true_iff in Hf. apply negb_true_iff.
    destruct (expression_is_number E T (EPath v0 es0)) eqn:Hn; [|reflexivity].
    apply is_number_num_operand_ok in Hn. cbn [num_operand_ok] in Hn. rewrite Hn in Hf. discriminate.
  Qed.

  (* ---- class 1: arguments of task calls -------------------------------------------- *)
  (* the type of an argument: the declared type of a variable, the type of a path, the struct
     named by a literal *)
  Definition arg_type (x : param) : option vtype :=
    match x with
    | PVar v => assoc v (td_vars T)
    | PPath v es => match es with [] => None | _ => path_ty v es end
    | PLit s _ => Some (TPlain (TStructName s))
    end.

  Definition arg_mismatch (x : param) (declared : vtype) : bool :=
    match arg_type x with
    | Some t => negb (vtype_eqb t declared)
    | None => false
    end.

  (* the walk of check_if_input_parameter_matches arrives at the type of the path *)
  Lemma ipm_given_type : env_named E -> forall n es sd t ty cur d,
    length es <= n -> es <> [] -> struct_of_type E t = Some sd -> walk_ty t es = Some ty ->
    ipm_walk E sd es = Ok cur ->
    (is_index (last es d) = true -> ty = TPlain (TStructName (sd_name cur)))
    /\ (is_index (last es d) = false -> attr_of cur (last es d) = Some ty).
  Proof.
    intros Hnamed. induction n as [|n IH]; intros es sd t ty cur d Hlen Hne Hs Hw Hi.
    - destruct es; [contradiction | cbn in Hlen; lia].
    - destruct es as [|e [|e2 rest2]]; [contradiction| |].
      + (* one element *)
        cbn [ipm_walk] in Hi. inversion Hi; subst cur. cbn [last].
        destruct e as [a| | |]; try (destruct t; cbn in Hs, Hw; discriminate).
        cbn [walk_ty] in Hw. rewrite Hs in Hw.
        destruct (assoc a (sd_attrs sd)) as [t'|] eqn:Ha; [|discriminate]. cbn [walk_ty] in Hw. inversion Hw; subst.
        split; [discriminate|]. intros _. exact Ha.
      + rewrite (ipm_walk_cons2 E) in Hi.
        destruct e as [a| | |]; try (destruct t; cbn in Hs, Hw; discriminate).
        cbn [attr_of] in Hi. cbn [walk_ty] in Hw. rewrite Hs in Hw.
        destruct (assoc a (sd_attrs sd)) as [t1|] eqn:Ha; [|discriminate].
        rewrite (last_cons _ (e2 :: rest2) (PF a) d).
        destruct t1 as [p|p l].
        * (* plain attribute: the walk continues with the next element *)
          destruct (struct_of_prim E p) as [sd1|] eqn:Hsp; [|discriminate].
          eapply (IH (e2 :: rest2) sd1 (TPlain p)); [cbn in *; lia | discriminate | exact Hsp | exact Hw | exact Hi].
        * (* array attribute: the index is skipped *)
          destruct (struct_of_prim E p) as [sd1|] eqn:Hsp; [|discriminate].
          destruct e2 as [b| | |]; [cbn [walk_ty struct_of_type] in Hw; discriminate| | |].
          all: cbn [walk_ty] in Hw.
          all: rewrite (last_cons _ rest2 _ (PF a)).
          all: destruct rest2 as [|e3 rest3];
            [ cbn [walk_ty] in Hw; inversion Hw; subst ty; cbn [ipm_walk] in Hi; inversion Hi; subst cur;
              cbn [last]; split; [intros _|discriminate];
              destruct p as [| | |s]; try discriminate; cbn [struct_of_prim] in Hsp;
              rewrite (Hnamed _ _ Hsp); reflexivity
            | eapply (IH (e3 :: rest3) sd1 (TPlain p)); [cbn in *; lia | discriminate | exact Hsp | exact Hw | exact Hi] ].
  Qed.

  Lemma arg_mismatch_false : env_named E -> forall ti pi x declared b e,
    arg_mismatch x declared = true -> check_input_matches E T ti pi x declared = Ok (b, e) -> b = false.
  Proof.
    intros Hnamed ti pi x declared b e Hm Hc. unfold arg_mismatch in Hm.
    destruct x as [v|v es|s j]; cbn [arg_type check_input_matches] in *.
    - destruct (assoc v (td_vars T)) as [t|]; [|discriminate].
      apply negb_true_iff in Hm. rewrite Hm in Hc. inversion Hc; reflexivity.
    - destruct es as [|e0 rest]; [discriminate|]. unfold path_ty in Hm.
      destruct (assoc v (td_vars T)) as [t|]; [|discriminate].
      destruct (walk_ty t (e0 :: rest)) as [ty|] eqn:Hw; [|discriminate].
      destruct t as [p0|p0 l0]; [|discriminate].
      destruct (struct_of_prim E p0) as [sd0|] eqn:Hsp; [|discriminate].
      destruct (ipm_walk E sd0 (e0 :: rest)) as [cur| |k|] eqn:Hi; try discriminate.
      destruct (ipm_given_type Hnamed (length (e0 :: rest)) (e0 :: rest) sd0 (TPlain p0) ty cur (PF v)
                  (le_n _) ltac:(discriminate) Hsp Hw Hi) as [Hidx Hfld].
      apply negb_true_iff in Hm.
      destruct (is_index (last (e0 :: rest) (PF v))) eqn:Hl.
      + specialize (Hidx eq_refl). subst ty. cbn [given_differs] in Hc. rewrite Hm in Hc.
        cbn [negb] in Hc. inversion Hc; reflexivity.
      + rewrite (Hfld eq_refl) in Hc. cbn [given_differs] in Hc. rewrite Hm in Hc.
        cbn [negb] in Hc. inversion Hc; reflexivity.
    - apply negb_true_iff in Hm. rewrite Hm in Hc. inversion Hc; reflexivity.
  Qed.

  (* the type a task call declares for an output differs from the type the variable handed
     back has in the called task *)
  Definition out_mismatch (called : tdef) (o : name * vtype) (out_name : name) : bool :=
    match assoc out_name (td_vars called) with
    | Some t => negb (vtype_eqb t (snd o))
    | None => false
    end.

  (* inputs are matched by position with the declared inputs of the called task *)
  Definition call_arg_mismatch (c : call) : bool :=
    match find_tdef E (c_name c) with
    | Some called => exists2b (fun x d => arg_mismatch x (snd d)) (c_ins c) (td_ins called)
    | None => false
    end.

  Definition call_out_mismatch (c : call) : bool :=
    match find_tdef E (c_name c) with
    | Some called => exists2b (out_mismatch called) (call_outs (c_outs c)) (td_outs called)
    | None => false
    end.

  Lemma check_task_call_matches : forall ti pi c b es,
    check_task_call E T ti pi c = Ok (b, es) -> b = true ->
    exists called e1 e2,
      find_tdef E (c_name c) = Some called
      /\ forall2_chk (fun p def => check_input_matches E T ti pi p (snd def)) (c_ins c) (td_ins called) = Ok (true, e1)
      /\ forall2_chk (fun o out_name => check_output_matches ti pi called out_name (snd o))
                     (call_outs (c_outs c)) (td_outs called) = Ok (true, e2).
  Proof.
    intros ti pi c b es Hc Hb. subst b. unfold check_task_call in Hc.
    destruct (has_key (c_name c) (e_tasks E)); [|inversion Hc].
    destruct (task_reaches E (length (e_tasks E)) (c_name c) (td_name T)); [inversion Hc|].
    apply andthen_ok in Hc. destruct Hc as (x1 & e1 & H1 & [(_ & Hb & _) | (_ & e2 & H2 & _)]); [discriminate|].
    unfold check_call_matches in H2.
    destruct (find_tdef E (c_name c)) as [called|]; [|discriminate].
    apply andthen_ok in H2. destruct H2 as (x2 & e3 & H3 & [(_ & Hb & _) | (_ & e4 & H4 & _)]); [discriminate|].
    apply band_ok in H4. destruct H4 as (b1 & er1 & b2 & er2 & Hi & Ho & Hb & _).
    symmetry in Hb. apply andb_true_iff in Hb. destruct Hb; subst. exists called, er1, er2. auto.
  Qed.

  Lemma call_arg_mismatch_false : env_named E -> forall ti pi c b es,
    call_arg_mismatch c = true -> check_task_call E T ti pi c = Ok (b, es) -> b = false.
  Proof.
    intros Hnamed ti pi c b es Hm Hc. destruct b; [|reflexivity].
    destruct (check_task_call_matches _ _ _ _ _ Hc eq_refl) as (called & e1 & e2 & Hf & Hi & _).
    unfold call_arg_mismatch in Hm. rewrite Hf in Hm.
    eapply (forall2_chk_false_at _ _ _ (fun x d => arg_mismatch x (snd d))); [|exact Hm|exact Hi].
    intros x y b e Hg Hx. cbn beta in Hg, Hx. eapply (arg_mismatch_false Hnamed); eassumption.
  Qed.

  Lemma call_out_mismatch_false : forall ti pi c b es,
    call_out_mismatch c = true -> check_task_call E T ti pi c = Ok (b, es) -> b = false.
  Proof.
    intros ti pi c b es Hm Hc. destruct b; [|reflexivity].
    destruct (check_task_call_matches _ _ _ _ _ Hc eq_refl) as (called & e1 & e2 & Hf & _ & Ho).
    unfold call_out_mismatch in Hm. rewrite Hf in Hm.
    eapply (forall2_chk_false_at _ _ _ (out_mismatch called)); [|exact Hm|exact Ho].
    intros o out_name b e Hg Hx. unfold out_mismatch in Hg. unfold check_output_matches in Hx.
    destruct (assoc out_name (td_vars called)) as [t|]; [|discriminate].
    apply negb_true_iff in Hg. rewrite Hg in Hx. inversion Hx; reflexivity.
  Qed.

  Definition f_call (bad : call -> bool) (s : stmt) : bool :=
    match s with
    | SCall c => bad c
    | SParallel cs => existsb bad cs
    | _ => false
    end.

  Lemma local_call_fault : forall (bad : call -> bool),
    (forall ti pi c b es, bad c = true -> check_task_call E T ti pi c = Ok (b, es) -> b = false) ->
    forall pi s b es, f_call bad s = true -> check_stmt E T pi s = Ok (b, es) -> b = false.
  Proof.
    intros bad Hbad pi s b es Hf Hc. destruct s; try discriminate; cbn [f_call check_stmt] in *.
    - eapply Hbad; eassumption.
    - apply existsb_exists in Hf. destruct Hf as (c & Hin & Hu).
      eapply forall_from_false_at; [exact Hc | exact Hin|].
      intros j b1 e1 H1; cbn beta in H1. eapply Hbad; eassumption.
  Qed.
End Paths.

(* ------------------------------------------------------------------------------ *)
(* class 3: values in struct literals                                              *)
(* ------------------------------------------------------------------------------ *)
Section LiteralValues.
  Variable E : env.

  (* the number of elements differs from the declared length (an empty list included) *)
  Definition wrong_length (n : nat) (len : alen) : bool :=
    match len with
    | LenNat k => negb (Nat.eqb n k)
    | _ => false
    end.

  (* [value_fault t v]: the value v of a literal (after json.loads) is not a value of the type t,
     at any depth:
     - a primitive type and a value of another class (a number for a boolean, a string for a
       number, a struct or a list for a primitive, …);
     - a struct type and a value that is no struct, or a struct that lacks an attribute of the
       definition, has an attribute the definition lacks, or has an attribute whose value is
       not a value of its declared type;
     - an array type and a value that is no list, a list of the wrong length, or a list with
       an element that is not a value of the element type.
     Nothing is claimed for an attribute whose struct type is not defined (that is class F03). *)
  Fixpoint value_fault (t : vtype) (v : pv) {struct v} : bool :=
    match t with
    | TPlain TNumber => match v with PVNum => false | _ => true end
    | TPlain TBoolean => match v with PVBool => false | _ => true end
    | TPlain TString => match v with PVStr => false | _ => true end
    | TPlain (TStructName s) =>
      match find_struct E s with
      | None => false
      | Some sd =>
        match v with
        | PVStruct fs =>
          existsb (fun a => negb (has_key (fst a) fs)) (sd_attrs sd)
          || (fix go (l : list (name * pv)) : bool :=
                match l with
                | [] => false
                | (k, v') :: r =>
                  (match assoc k (sd_attrs sd) with Some t' => value_fault t' v' | None => true end) || go r
                end) fs
        | _ => true
        end
      end
    | TArray p len =>
      match v with
      | PVArray vs =>
        wrong_length (length vs) len
        || (fix go (l : list pv) : bool :=
              match l with [] => false | x :: r => value_fault (TPlain p) x || go r end) vs
      | _ => true
      end
    end.

  Lemma go_fields_false_at : forall (f : name -> pv -> chk) (g : name -> pv -> bool) l b e,
    Forall (fun kv => forall b1 e1, g (fst kv) (snd kv) = true -> f (fst kv) (snd kv) = Ok (b1, e1) -> b1 = false) l ->
    (fix go (l : list (name * pv)) : bool :=
       match l with [] => false | (k, v') :: r => g k v' || go r end) l = true ->
    (fix go (l : list (name * pv)) : chk :=
       match l with [] => ok_true | (id', v') :: r => band (f id' v') (go r) end) l = Ok (b, e) ->
    b = false.
  Proof.
    intros f g l. induction l as [|[k v] r IH]; intros b e HF Hg Hc; [discriminate|].
    inversion HF; subst. apply band_ok in Hc. destruct Hc as (x & e1 & y & e2 & H1' & H2' & -> & _).
    apply orb_true_iff in Hg. destruct Hg as [Hg|Hg].
    - rewrite (H1 _ _ Hg H1'). reflexivity.
    - rewrite (IH _ _ H2 Hg H2'). apply andb_false_r.
  Qed.

  Lemma wrong_length_incorrect : forall n len, wrong_length n len = true -> array_length_correct n len = false.
  Proof.
    intros n len H. destruct len as [|k|v]; try discriminate. cbn in *.
    apply negb_true_iff in H. rewrite H. apply andb_false_r.
  Qed.

  Definition Qv (v : pv) : Prop :=
    forall t def id jctx ictx b e,
      assoc id (sd_attrs def) = Some t -> value_fault t v = true ->
      check_attr_type E jctx ictx def id v = Ok (b, e) -> b = false.

  (* the struct an array element is checked against, as an attribute of a one-attribute struct *)
  Definition one_attr (p : prim) : sdef := {| sd_idx := 0; sd_name := 0; sd_attrs := [(0, TPlain p)] |}.

  Lemma inst_chk_as_attr : forall p jctx fs sd',
    struct_of_prim E p = Some sd' ->
    inst_chk E p jctx (PVStruct fs) = check_attr_type E jctx jctx (one_attr p) 0 (PVStruct fs).
  Proof.
    intros p jctx fs sd' Hsp. unfold inst_chk. cbn [check_attr_type one_attr sd_attrs assoc Nat.eqb].
    rewrite Hsp. reflexivity.
  Qed.

  Lemma elems_f_false : forall p jctx K vs b e,
    Forall (fun x => value_fault (TPlain p) x = true ->
                     (forall b1 e1, inst_chk E p jctx x = Ok (b1, e1) -> b1 = false)
                     \/ check_type_of_value E x (Some p) p = false) vs ->
    (forall bk ek, K = Ok (bk, ek) -> bk = false)
    \/ (fix go (l : list pv) : bool :=
          match l with [] => false | x :: r => value_fault (TPlain p) x || go r end) vs = true ->
    elems_f E p jctx K vs = Ok (b, e) -> b = false.
  Proof.
    intros p jctx K vs. induction vs as [|x r IH]; intros b e HF Hor Hc.
    - cbn [elems_f] in Hc. destruct Hor as [HK|Hg]; [eapply HK; exact Hc | discriminate].
    - inversion HF; subst. cbn [elems_f] in Hc.
      apply andthen_ok in Hc. destruct Hc as (x1 & e1 & Hi & [(_ & Hb & _) | (Hx1 & e2 & Hr & _)]); [assumption|].
      subst x1. destruct (check_type_of_value E x (Some p) p) eqn:Hctv; [|inversion Hr; reflexivity].
      destruct Hor as [HK|Hg].
      + eapply IH; [exact H2 | left; exact HK | exact Hr].
      + apply orb_true_iff in Hg. destruct Hg as [Hg|Hg].
        * destruct (H1 Hg) as [Hinst|Hc']; [|congruence].
          specialize (Hinst _ _ Hi). discriminate.
        * eapply IH; [exact H2 | right; exact Hg | exact Hr].
  Qed.

  Lemma value_fault_rejected : forall v, Qv v.
  Proof.
    intro v. induction v using pv_ind'; unfold Qv; intros t def id jctx ictx b e Ha Hf Hc.
    - cbn [check_attr_type] in Hc. rewrite Ha in Hc.
      destruct t as [[| | |s]|p len]; cbn [value_fault struct_of_prim check_type_of_value] in *;
        try discriminate; try (inversion Hc; reflexivity).
      destruct (find_struct E s); [inversion Hc; reflexivity | discriminate].
    - cbn [check_attr_type] in Hc. rewrite Ha in Hc.
      destruct t as [[| | |s]|p len]; cbn [value_fault struct_of_prim check_type_of_value] in *;
        try discriminate; try (inversion Hc; reflexivity).
      destruct (find_struct E s); [inversion Hc; reflexivity | discriminate].
    - cbn [check_attr_type] in Hc. rewrite Ha in Hc.
      destruct t as [[| | |s]|p len]; cbn [value_fault struct_of_prim check_type_of_value] in *;
        try discriminate; try (inversion Hc; reflexivity).
      destruct (find_struct E s); [inversion Hc; reflexivity | discriminate].
    - (* a struct value *)
      cbn [check_attr_type] in Hc. rewrite Ha in Hc.
      destruct t as [[| | |s]|p len]; cbn [value_fault struct_of_prim check_type_of_value] in *;
        try discriminate; try (inversion Hc; reflexivity).
      destruct (find_struct E s) as [sd|]; [|discriminate].
      apply band_ok in Hc. destruct Hc as (x & e1 & y & e2 & H1 & H2 & -> & _).
      apply orb_true_iff in Hf. destruct Hf as [Hm|Hg].
      + rewrite (check_missing_false _ _ _ _ _ Hm H1). reflexivity.
      + assert (y = false); [|subst; apply andb_false_r].
        eapply (go_fields_false_at
                  (fun id' v' => if has_key id' (sd_attrs sd) then check_attr_type E jctx jctx sd id' v'
                                 else fail1 KUnknownAttrInLit jctx)
                  (fun k v' => match assoc k (sd_attrs sd) with Some t' => value_fault t' v' | None => true end));
          [|exact Hg|exact H2].
        eapply Forall_impl; [|exact H]. intros [k v'] HQ b1 e1' Hg1 Hf1. cbn [fst snd] in *.
        unfold has_key in Hf1. destruct (assoc k (sd_attrs sd)) as [t'|] eqn:Hk.
        * eapply HQ; [exact Hk | exact Hg1 | exact Hf1].
        * inversion Hf1; reflexivity.
    - (* a list *)
      destruct t as [[| | |s]|p len].
      1-3: cbn [check_attr_type] in Hc; rewrite Ha in Hc; cbn [struct_of_prim check_type_of_value] in Hc;
        inversion Hc; reflexivity.
      + cbn [check_attr_type] in Hc; rewrite Ha in Hc. cbn [value_fault struct_of_prim] in *.
        destruct (find_struct E s); [inversion Hc; reflexivity | discriminate].
      + rewrite (check_attr_type_array_eq _ _ _ _ _ _ _ _ Ha) in Hc. cbn [value_fault] in Hf.
        destruct (elems_f E p jctx (if array_length_correct (length vs) len then ok_true else fail1 KArrayLength jctx) vs)
          as [[b' e']| |k|] eqn:Hel; try discriminate.
        assert (b' = false).
        { eapply (elems_f_false p jctx _ vs); [| |exact Hel].
          - eapply Forall_impl; [|exact H]. intros x HQ Hfx.
            destruct x as [| | |fs|vs'].
            + right. destruct p as [| | |s]; cbn [value_fault check_type_of_value struct_of_prim] in *; try discriminate; try reflexivity.
              destruct (find_struct E s); [reflexivity | discriminate].
            + right. destruct p as [| | |s]; cbn [value_fault check_type_of_value struct_of_prim] in *; try discriminate; try reflexivity.
              destruct (find_struct E s); [reflexivity | discriminate].
            + right. destruct p as [| | |s]; cbn [value_fault check_type_of_value struct_of_prim] in *; try discriminate; try reflexivity.
              destruct (find_struct E s); [reflexivity | discriminate].
            + left. intros b1 e1 Hi.
              destruct (struct_of_prim E p) as [sd'|] eqn:Hsp.
              * rewrite (inst_chk_as_attr _ _ _ _ Hsp) in Hi.
                eapply (HQ (TPlain p) (one_attr p) 0); [reflexivity | exact Hfx | exact Hi].
              * unfold inst_chk in Hi. rewrite Hsp in Hi. inversion Hi; reflexivity.
            + right. destruct p as [| | |s]; cbn [value_fault check_type_of_value struct_of_prim] in *; try discriminate; try reflexivity.
              destruct (find_struct E s); [reflexivity | discriminate].
          - apply orb_true_iff in Hf. destruct Hf as [Hl|Hg]; [left | right; exact Hg].
            intros bk ek HK. rewrite (wrong_length_incorrect _ _ Hl) in HK. inversion HK; reflexivity. }
        subst b'. inversion Hc; reflexivity.
  Qed.

  (* a literal of a defined struct with an attribute whose value is not a value of the declared
     type (the attributes of the literal are those json.loads keeps: the last of equal keys) *)
  Definition bad_literal_value (x : param) : bool :=
    match x with
    | PLit s (JObj fs) =>
      match find_struct E s with
      | Some sd =>
        existsb (fun kv => match assoc (fst kv) (sd_attrs sd) with
                           | Some t => value_fault t (snd kv)
                           | None => false
                           end) (literal_fields (JObj fs))
      | None => false
      end
    | _ => false
    end.

  Lemma bad_literal_value_false : forall T ti pi k x b1 e1,
    bad_literal_value x = true -> check_input_param E T ti pi k x = Ok (b1, e1) -> b1 = false.
  Proof.
    intros T ti pi k x b1 e1 Hb Hc. destruct x as [| |s j]; try discriminate. destruct j; try discriminate.
    cbn [bad_literal_value check_input_param] in *. unfold check_literal in Hc. unfold literal_fields in Hb.
    destruct (parse_json (JObj fs)) as [| | |fs'|]; try discriminate.
    destruct (find_struct E s) as [sd|]; [|discriminate].
    apply band_ok in Hc. destruct Hc as (x1 & er1 & y & er2 & H1 & H2 & -> & _).
    apply existsb_exists in Hb. destruct Hb as (kv & Hin & Hk).
    assert (y = false).
    { eapply forall_from_false_at; [exact H2 | exact Hin|].
      intros j b e0 H0. cbn beta in H0. unfold has_key in H0.
      destruct (assoc (fst kv) (sd_attrs sd)) as [t|] eqn:Ha; [|discriminate].
      eapply value_fault_rejected; [exact Ha | exact Hk | exact H0]. }
    subst. apply andb_false_r.
  Qed.
End LiteralValues.

(* ------------------------------------------------------------------------------ *)
(* the fault predicates on programs and their theorems                             *)
(* ------------------------------------------------------------------------------ *)
(* F17 *) Definition has_fault_argument_type : program -> bool :=
  fault_somewhere (fun E T => f_call (call_arg_mismatch E T)).
(* F17f *) Definition has_fault_output_type : program -> bool :=
  fault_somewhere (fun E _ => f_call (call_out_mismatch E)).
(* F04c,d,g F05b,c,i F18 *) Definition has_fault_guard_operand : program -> bool :=
  fault_somewhere (fun E T => f_guard_fault E T).
(* F04e F05d F18f,q,s *) Definition has_fault_limit_type : program -> bool :=
  fault_somewhere (fun E T => f_limit_fault E T).
(* F08 F09 F06b,c F07b,c *) Definition has_fault_literal_value : program -> bool :=
  fault_somewhere (fun E _ => f_param (bad_literal_value E)).
(* F05e-h *) Definition has_fault_path_step : program -> bool :=
  fault_somewhere (fun E T => f_param (bad_path_param E T)).

Theorem argument_type_rejected : forall p, has_fault_argument_type p = true -> validate p <> Ok [].
Proof.
  intro p. apply (fault_somewhere_rejected_at (fun E T => f_call (call_arg_mismatch E T))).
  intros T pi s b es H Hc. eapply (local_call_fault (visit_env p) T (call_arg_mismatch (visit_env p) T)); [|exact H|exact Hc].
  intros. eapply call_arg_mismatch_false; [apply visit_env_named | eassumption | eassumption].
Qed.

Theorem output_type_rejected : forall p, has_fault_output_type p = true -> validate p <> Ok [].
Proof.
  apply (fault_somewhere_rejected (fun E _ => f_call (call_out_mismatch E))).
  intros E T pi s b es H Hc. eapply (local_call_fault E T (call_out_mismatch E)); [|exact H|exact Hc].
  intros. eapply call_out_mismatch_false; eassumption.
Qed.

Theorem guard_operand_rejected : forall p, has_fault_guard_operand p = true -> validate p <> Ok [].
Proof.
  apply (fault_somewhere_rejected (fun E T => f_guard_fault E T)).
  intros. eapply local_guard_fault; eassumption.
Qed.

Theorem limit_type_rejected : forall p, has_fault_limit_type p = true -> validate p <> Ok [].
Proof.
  apply (fault_somewhere_rejected (fun E T => f_limit_fault E T)).
  intros. eapply local_limit_fault; eassumption.
Qed.

Theorem literal_value_rejected : forall p, has_fault_literal_value p = true -> validate p <> Ok [].
Proof.
  apply (fault_somewhere_rejected (fun E _ => f_param (bad_literal_value E))).
  intros E T pi s b es H Hc. eapply (local_param_fault E T (bad_literal_value E)); [|exact H|exact Hc].
  intros. eapply bad_literal_value_false; eassumption.
Qed.

Theorem path_step_rejected : forall p, has_fault_path_step p = true -> validate p <> Ok [].
Proof.
  apply (fault_somewhere_rejected (fun E T => f_param (bad_path_param E T))).
  intros E T pi s b es H Hc. eapply (local_param_fault E T (bad_path_param E T)); [|exact H|exact Hc].
  intros. eapply bad_path_param_false; eassumption.
Qed.

(* a path with an impossible step has no type: in a guard or a limit it is covered by
   has_fault_guard_operand / has_fault_limit_type *)
Theorem path_step_has_no_type : forall E T v es p sd,
  assoc v (td_vars T) = Some (TPlain p) -> struct_of_prim E p = Some sd ->
  bad_step E sd es = true -> path_ty E T v es = None.
Proof.
  intros E T v es p sd Hv Hs Hb. unfold path_ty. rewrite Hv. eapply bad_step_no_type; [|exact Hb]. exact Hs.
Qed.

(* … and therefore it is a reported operand wherever the validator looks at it in a guard, and
   no number as a limit *)
Theorem path_step_in_guard : forall E T v es p sd pr,
  assoc v (td_vars T) = Some (TPlain p) -> struct_of_prim E p = Some sd -> bad_step E sd es = true ->
  bool_path_fault E T v es = true /\ path_is E T pr v es = false.
Proof.
  intros E T v es p sd pr Hv Hs Hb. pose proof (path_step_has_no_type E T v es p sd Hv Hs Hb) as Hn.
  destruct es as [|e rest]; [discriminate|]. unfold bool_path_fault, path_is. rewrite Hn. split; reflexivity.
Qed.

(* ---- F03f: an array length given by a name (struct attribute, task input, output of a call in
   any statement — the visitor walks every statement) ---- *)
Definition len_by_name (kv : name * vtype) : bool :=
  match snd kv with TArray _ (LenVar _) => true | _ => false end.

Lemma arraylen_errs_nonempty : forall mk l, existsb len_by_name l = true -> arraylen_errs mk l <> [].
Proof.
  intros mk l Hex H. apply existsb_exists in Hex. destruct Hex as (kv & Hin & Hl).
  destruct (in_index_from _ _ 0 kv Hin) as [j Hj]. unfold arraylen_errs in H.
  pose proof (flat_map_nil_in _ _ _ _ (j, kv) H Hj) as Hs. cbn [fst snd] in Hs.
  unfold len_by_name in Hl. destruct (snd kv) as [|q [| |w]]; discriminate.
Qed.

Definition f_len_by_name_out (s : stmt) : bool := existsb (existsb len_by_name) (stmt_call_outs s).

Lemma anywhere_visit_errs : forall (P : stmt -> bool),
  (forall ti pi s, P s = true -> stmt_visit_errs ti pi s <> []) ->
  forall ti s pi, anywhere_exists P s = true -> stmt_visit_errs ti pi s <> [].
Proof.
  intros P HP ti s. induction s using stmt_ind'; intros pi Hv;
    cbn [anywhere_exists] in Hv; apply orb_true_iff in Hv; destruct Hv as [Hv|Hv];
    try (apply HP; exact Hv); try discriminate; rewrite stmt_visit_errs_unfold.
  - apply existsb_exists in Hv. destruct Hv as (x & Hin & Hx).
    eapply concat_from_nonempty; [exact Hin|]. intro j. rewrite Forall_forall in H. apply H; assumption.
  - apply existsb_exists in Hv. destruct Hv as (x & Hin & Hx).
    eapply concat_from_nonempty; [exact Hin|]. intro j. rewrite Forall_forall in H. apply H; assumption.
  - apply orb_true_iff in Hv. intro Happ. apply app_eq_nil in Happ. destruct Happ as [Hp Hf]. destruct Hv as [Hv|Hv].
    + apply existsb_exists in Hv. destruct Hv as (x & Hin & Hx). revert Hp.
      eapply concat_from_nonempty; [exact Hin|]. intro j. rewrite Forall_forall in H. apply H; assumption.
    + apply existsb_exists in Hv. destruct Hv as (x & Hin & Hx). revert Hf.
      eapply concat_from_nonempty; [exact Hin|]. intro j. rewrite Forall_forall in H0. apply H0; assumption.
Qed.

Lemma outs_visit_errs_len : forall ti pi outs, existsb len_by_name outs = true -> outs_visit_errs ti pi outs <> [].
Proof.
  intros ti pi outs Hl H. unfold outs_visit_errs in H. apply app_eq_nil in H. destruct H as [H _].
  revert H. apply arraylen_errs_nonempty. exact Hl.
Qed.

Lemma len_by_name_out_visit_errs : forall ti pi s, f_len_by_name_out s = true -> stmt_visit_errs ti pi s <> [].
Proof.
  intros ti pi s Hf. unfold f_len_by_name_out in Hf. rewrite stmt_visit_errs_unfold.
  destruct s; cbn [stmt_call_outs existsb] in Hf; try discriminate.
  - rewrite orb_false_r in Hf. intro H. apply app_eq_nil in H. destruct H as [_ H]. revert H.
    apply outs_visit_errs_len. exact Hf.
  - rewrite orb_false_r in Hf. intro H. apply app_eq_nil in H. destruct H as [_ H]. revert H.
    apply outs_visit_errs_len. exact Hf.
  - apply existsb_exists in Hf. destruct Hf as (outs & Hin & Hd).
    apply in_map_iff in Hin. destruct Hin as (c & Hc & Hin). subst outs.
    destruct (in_index_from _ _ 0 c Hin) as [j Hj]. intro H.
    pose proof (flat_map_nil_in _ _ _ _ (j, c) H Hj) as Hs. cbn [fst snd] in Hs.
    apply app_eq_nil in Hs. destruct Hs as [_ Hs].
    exact (outs_visit_errs_len _ _ _ Hd Hs).
Qed.

(* F03f *) Definition has_fault_array_length_by_name (p : program) : bool :=
  existsb (fun s => existsb len_by_name (s_attrs s)) (p_structs p)
  || existsb (fun t => existsb len_by_name (t_ins t)) (p_tasks p)
  || existsb (fun t => existsb (anywhere_exists f_len_by_name_out) (t_body t)) (p_tasks p).

Theorem array_length_by_name_rejected : forall p,
  has_fault_array_length_by_name p = true -> validate p <> Ok [].
Proof.
  intros p Hf Hacc. destruct (validate_ok_nil p Hacc) as [Hv _].
  destruct (visit_errs_nil_parts p Hv) as (H1 & _ & H3 & _).
  unfold has_fault_array_length_by_name in Hf.
  apply orb_true_iff in Hf. destruct Hf as [Hf|Hf]; [apply orb_true_iff in Hf; destruct Hf as [Hf|Hf]|].
  - apply existsb_exists in Hf. destruct Hf as (s & Hin & Hd).
    destruct (in_index_from _ _ 0 s Hin) as [j Hj].
    pose proof (flat_map_nil_in _ _ _ _ (j, s) H1 Hj) as Hs. cbn [fst snd] in Hs.
    unfold struct_visit_errs in Hs. apply app_eq_nil in Hs. destruct Hs as [Hs _].
    revert Hs. apply arraylen_errs_nonempty. exact Hd.
  - apply existsb_exists in Hf. destruct Hf as (t & Hin & Hd).
    destruct (in_index_from _ _ 0 t Hin) as [j Hj].
    pose proof (flat_map_nil_in _ _ _ _ (j, t) H3 Hj) as Hs. cbn [fst snd] in Hs.
    unfold task_visit_errs in Hs. apply app_eq_nil in Hs. destruct Hs as [Hs _].
    revert Hs. apply arraylen_errs_nonempty. exact Hd.
  - apply existsb_exists in Hf. destruct Hf as (t & Hin & Hd).
    apply existsb_exists in Hd. destruct Hd as (s & Hs & Hd).
    destruct (in_index_from _ _ 0 t Hin) as [j Hj].
    pose proof (flat_map_nil_in _ _ _ _ (j, t) H3 Hj) as Ht. cbn [fst snd] in Ht.
    unfold task_visit_errs in Ht. apply app_eq_nil in Ht. destruct Ht as [_ Ht].
    apply app_eq_nil in Ht. destruct Ht as [_ Ht]. rewrite body_visit_errs_concat in Ht.
    revert Ht. eapply concat_from_nonempty; [exact Hs|]. intro k.
    apply (anywhere_visit_errs f_len_by_name_out); [|exact Hd].
    intros. apply len_by_name_out_visit_errs. assumption.
Qed.

(* ------------------------------------------------------------------------------ *)
(* examples, by computation (programs: WitnessesC10b.v, generated from harness/faults.py: the
   fault sits in the Failed branch of a Condition inside a counting loop of productionTask;
   wb_parloop_* / wb_parallel_*: inside a parallel loop / a Parallel block)         *)
(* ------------------------------------------------------------------------------ *)
Lemma type_fault_predicates_inhabited :
  has_fault_argument_type wb_f_F17a = true /\ has_fault_argument_type wb_f_F17b = true
  /\ has_fault_argument_type wb_f_F17c = true /\ has_fault_argument_type wb_f_F17d = true
  /\ has_fault_argument_type wb_f_F17e = true /\ has_fault_argument_type wb_f_F17g = true
  /\ has_fault_argument_type wb_f_F17h = true /\ has_fault_argument_type wb_parloop_arg_mismatch = true
  /\ has_fault_argument_type wb_parallel_arg_mismatch = true /\ has_fault_output_type wb_f_F17f = true
  /\ has_fault_guard_operand wb_f_F04c = true /\ has_fault_guard_operand wb_f_F04d = true
  /\ has_fault_guard_operand wb_f_F04g = true /\ has_fault_guard_operand wb_f_F05b = true
  /\ has_fault_guard_operand wb_f_F05c = true /\ has_fault_guard_operand wb_f_F05i = true
  /\ has_fault_guard_operand wb_f_F18a = true /\ has_fault_guard_operand wb_f_F18b = true
  /\ has_fault_guard_operand wb_f_F18c = true /\ has_fault_guard_operand wb_f_F18i = true
  /\ has_fault_guard_operand wb_f_F18k = true /\ has_fault_guard_operand wb_f_F18l = true
  /\ has_fault_guard_operand wb_f_F18m = true /\ has_fault_guard_operand wb_f_F18n = true
  /\ has_fault_guard_operand wb_f_F18o = true /\ has_fault_guard_operand wb_f_F18p = true
  /\ has_fault_guard_operand wb_f_F18r = true /\ has_fault_limit_type wb_f_F04e = true
  /\ has_fault_limit_type wb_f_F05d = true /\ has_fault_limit_type wb_f_F18f = true
  /\ has_fault_limit_type wb_f_F18q = true /\ has_fault_limit_type wb_f_F18s = true
  /\ has_fault_literal_value wb_f_F08a = true /\ has_fault_literal_value wb_f_F08b = true
  /\ has_fault_literal_value wb_f_F08c = true /\ has_fault_literal_value wb_f_F08d = true
  /\ has_fault_literal_value wb_f_F08e = true /\ has_fault_literal_value wb_f_F08f = true
  /\ has_fault_literal_value wb_f_F08g = true /\ has_fault_literal_value wb_f_F08h = true
  /\ has_fault_literal_value wb_f_F08i = true /\ has_fault_literal_value wb_f_F08j = true
  /\ has_fault_literal_value wb_f_F08k = true /\ has_fault_literal_value wb_f_F08l = true
  /\ has_fault_literal_value wb_f_F08m = true /\ has_fault_literal_value wb_f_F08n = true
  /\ has_fault_literal_value wb_f_F08o = true /\ has_fault_literal_value wb_f_F09a = true
  /\ has_fault_literal_value wb_f_F09b = true /\ has_fault_literal_value wb_f_F09c = true
  /\ has_fault_literal_value wb_f_F09d = true /\ has_fault_literal_value wb_f_F09e = true
  /\ has_fault_literal_value wb_f_F09f = true /\ has_fault_literal_value wb_f_F09g = true
  /\ has_fault_literal_value wb_f_F09h = true /\ has_fault_literal_value wb_f_F09i = true
  /\ has_fault_literal_value wb_f_F06b = true /\ has_fault_literal_value wb_f_F06c = true
  /\ has_fault_literal_value wb_f_F07b = true /\ has_fault_literal_value wb_f_F07c = true
  /\ has_fault_literal_value wb_parloop_literal_value = true /\ has_fault_path_step wb_f_F05e = true
  /\ has_fault_path_step wb_f_F05f = true /\ has_fault_path_step wb_f_F05g = true
  /\ has_fault_path_step wb_f_F05h = true /\ has_fault_path_step wb_parloop_path_step = true.
Proof. vm_compute. repeat split; reflexivity. Qed.

Lemma type_fault_predicates_false_on_good :
  has_fault_argument_type wb_good_small = false /\ has_fault_output_type wb_good_small = false
  /\ has_fault_guard_operand wb_good_small = false /\ has_fault_limit_type wb_good_small = false
  /\ has_fault_literal_value wb_good_small = false /\ has_fault_path_step wb_good_small = false.
Proof. vm_compute. repeat split; reflexivity. Qed.

(* the report carries the position of the offending statement *)
Lemma type_faults_reported_at_their_position :
  validate wb_f_F17b = Ok [(KInTypeMismatch, CStmt 0 [0; 0; 1; 1])]
  /\ validate wb_f_F17f = Ok [(KOutTypeMismatch, CStmt 0 [0; 0; 1; 1])]
  /\ validate wb_f_F18c = Ok [(KCmpTypes, CStmt 0 [0; 0; 1; 1])]
  /\ validate wb_f_F18s = Ok [(KLimitNotNumber, CStmt 0 [0; 0; 1; 1])]
  /\ validate wb_f_F08n = Ok [(KArrayElem, CLitJson 0 [0; 0; 1; 1] 0); (KWrongTypeArray, CLitJson 0 [0; 0; 1; 1] 0);
                             (KWrongTypeArray, CLit 0 [0; 0; 1; 1] 0)]
  /\ validate wb_f_F09e = Ok [(KArrayLength, CLitJson 0 [0; 0; 1; 1] 0); (KWrongTypeArray, CLit 0 [0; 0; 1; 1] 0)]
  /\ validate wb_f_F05g = Ok [(KNoAttribute, CStmtIn 0 [0; 0; 1; 1])]
  /\ validate wb_parloop_arg_mismatch = Ok [(KInTypeMismatch, CStmt 0 [1; 0])]
  /\ validate wb_parallel_arg_mismatch = Ok [(KInTypeMismatch, CStmt 0 [1; 1])]
  /\ validate wb_parloop_path_step = Ok [(KNoAttribute, CStmtIn 0 [1; 0])].
Proof. vm_compute. repeat split; reflexivity. Qed.

(* still accepted (finding D12b, guards are not typed as a whole): == / != between operands of
   different types; a comparison used as a number.  None of the predicates above holds of them. *)
Lemma equality_operand_types_accepted :
  (sh_bad_guard wb_eq_number_string = true /\ validate wb_eq_number_string = Ok [])
  /\ (sh_bad_guard wb_ne_number_boolean = true /\ validate wb_ne_number_boolean = Ok [])
  /\ (sh_bad_guard wb_comparison_as_number = true /\ validate wb_comparison_as_number = Ok []).
Proof. vm_compute. repeat split; reflexivity. Qed.

Lemma type_fault_predicates_false_on_accepted :
  has_fault_guard_operand wb_eq_number_string = false /\ has_fault_guard_operand wb_ne_number_boolean = false
  /\ has_fault_guard_operand wb_comparison_as_number = false.
Proof. vm_compute. repeat split; reflexivity. Qed.

Lemma array_length_by_name_examples :
  has_fault_array_length_by_name w_D21_array_length_by_name = true
  /\ has_fault_array_length_by_name wb_len_by_name_input = true
  /\ has_fault_array_length_by_name wb_len_by_name_output = true
  /\ has_fault_array_length_by_name wb_good_small = false
  /\ validate wb_len_by_name_input = Ok [(KArrayLen, CTaskInParam 2 0)]
  /\ validate wb_len_by_name_output = Ok [(KArrayLen, CStmtOutParam 0 [1; 0] 0); (KOutTypeMismatch, CStmt 0 [1; 0])].
Proof. vm_compute. repeat split; reflexivity. Qed.
