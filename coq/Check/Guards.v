(* Guards.v — executable predicates naming the program shapes on which the implementation
   raises (crash sites, DESIGN §8 D11) or silently accepts a catalogued error (D8–D10,
   D12).  They delimit the `_partial` theorems and are the shape predicates of the known
   findings (known_findings.json): the harness evaluates them on every generated case
   inside coqc and attributes a failure to a finding only when its predicate holds.
   Definitions only. *)
From PFDL Require Import Base Syntax.
From PFDL.Check Require Import CheckModel Typing.

Section Guards.
  Variable E : env.

  (* ---- D11a: get_type_of_variable_list on a path that is not a chain of plain struct
     attributes of a declared struct variable (undeclared variable, unknown attribute,
     array element, attribute of a primitive).  [plain_chain sd last es]: the lookups of
     gtvl_loop all succeed. *)
  Fixpoint plain_chain (cur : sdef) (last : pelem) (es : list pelem) : bool :=
    match es with
    | [] => match attr_of cur last with Some _ => true | None => false end
    | e :: rest =>
      match attr_of cur last with
      | Some (TPlain p) =>
        match struct_of_prim E p with
        | Some sd => plain_chain sd e rest
        | None => false
        end
      | _ => false
      end
    end.

  Definition plain_path (T : tdef) (v : name) (es : list pelem) : bool :=
    match assoc v (td_vars T) with
    | Some (TPlain p) =>
      match struct_of_prim E p with
      | Some sd =>
        match es with
        | [] => has_key v (sd_attrs sd)
        | e :: rest => plain_chain sd e rest
        end
      | None => false
      end
    | _ => false
    end.

  (* ---- D11a + D11b: operands of a comparison / arithmetic operator as
     expression_is_number walks them: no '!' below, every path a plain chain *)
  Fixpoint operand_safe (T : tdef) (e : expr) : bool :=
    match e with
    | ENum _ | EBool _ | EStr _ => true
    | EPath v es => plain_path T v es
    | EParen e1 => operand_safe T e1
    | EBin _ l r => operand_safe T l && operand_safe T r
    | ENot _ => false
    end.

  (* ---- D11c: check_attribute_access on a path that puts an index after a non-array
     attribute, a field after an array attribute, an index after an array of primitives
     (or of an undefined struct), or starts at an array-typed variable *)
  Fixpoint access_safe_loop (pred : sdef) (es : list pelem) : bool :=
    match es with
    | [] => true
    | PF a :: rest =>
      match assoc a (sd_attrs pred) with
      | None => true
      | Some ty =>
        match rest with
        | [] => true
        | PF _ :: _ =>
          match ty with
          | TArray _ _ => false
          | TPlain p =>
            match struct_of_prim E p with
            | None => true
            | Some sd => access_safe_loop sd rest
            end
          end
        | _ :: _ =>
          match ty with
          | TPlain _ => false
          | TArray p _ =>
            match struct_of_prim E p with
            | None => false
            | Some sd => access_safe_loop sd rest
            end
          end
        end
      end
    | _ :: rest => access_safe_loop pred rest
    end.

  (* the shape the grammar gives every attribute_access: it starts with ".field" and an
     index only follows a field (attribute_access: ID (DOT ID array?)+) *)
  Fixpoint no_double_index (es : list pelem) : bool :=
    match es with
    | e1 :: ((e2 :: _) as rest) => negb (is_index e1 && is_index e2) && no_double_index rest
    | _ => true
    end.

  Definition grammar_path (es : list pelem) : bool :=
    match es with
    | PF _ :: _ => no_double_index es
    | _ => false
    end.

  Definition access_safe (T : tdef) (v : name) (es : list pelem) : bool :=
    grammar_path es &&
    match assoc v (td_vars T) with
    | None => true
    | Some (TArray _ _) => false
    | Some (TPlain p) =>
      match struct_of_prim E p with
      | None => true
      | Some sd => access_safe_loop sd es
      end
    end.

  (* a path used as a whole condition (check_single_expression): the access is safe and,
     because get_type_of_variable_list knows no indices, it has none *)
  Definition cond_path_safe (T : tdef) (v : name) (es : list pelem) : bool :=
    access_safe T v es && forallb (fun e => negb (is_index e)) es.

  (* the two crash families of check_expression, separately *)
  Fixpoint expr_operands_safe (T : tdef) (e : expr) : bool :=
    match e with
    | ENum _ | EBool _ | EStr _ | EPath _ _ => true
    | ENot e1 => expr_operands_safe T e1
    | EParen e1 => expr_operands_safe T e1
    | EBin o l r =>
      if is_cmp o || is_arith o then operand_safe T l && operand_safe T r
      else expr_operands_safe T l && expr_operands_safe T r
    end.

  Fixpoint expr_paths_safe (T : tdef) (e : expr) : bool :=
    match e with
    | ENum _ | EBool _ | EStr _ => true
    | EPath v es => cond_path_safe T v es
    | ENot e1 => expr_paths_safe T e1
    | EParen e1 => expr_paths_safe T e1
    | EBin o l r =>
      if is_cmp o || is_arith o then true
      else expr_paths_safe T l && expr_paths_safe T r
    end.

  Definition expr_safe (T : tdef) (e : expr) : bool :=
    expr_operands_safe T e && expr_paths_safe T e.

  (* ---- D11d: a struct literal whose nested object (attribute of struct type, not an
     array element) has a key that its struct definition lacks *)
  Fixpoint value_safe (def : sdef) (id : name) (v : pv) {struct v} : bool :=
    match assoc id (sd_attrs def) with
    | None => false
    | Some (TPlain p) =>
      match struct_of_prim E p with
      | Some sd' =>
        match v with
        | PVStruct fs =>
          (fix go (l : list (name * pv)) : bool :=
             match l with
             | [] => true
             | (id', v') :: r => value_safe sd' id' v' && go r
             end) fs
        | _ => true
        end
      | None => true
      end
    | Some (TArray p _) =>
      match v with
      | PVArray vs =>
        (fix elems (l : list pv) : bool :=
           match l with
           | [] => true
           | value :: r =>
             match value with
             | PVStruct fs =>
               match struct_of_prim E p with
               | None => true
               | Some sd' =>
                 (fix go (l2 : list (name * pv)) : bool :=
                    match l2 with
                    | [] => true
                    | (id', v') :: r2 =>
                      (if has_key id' (sd_attrs sd') then value_safe sd' id' v' else true) && go r2
                    end) fs
               end
             | _ => true
             end && elems r
           end) vs
      | _ => true
      end
    end.

  Definition literal_safe (s : name) (j : json) : bool :=
    match parse_json j with
    | PVStruct fs =>
      match find_struct E s with
      | None => true
      | Some sd =>
        forallb (fun kv => if has_key (fst kv) (sd_attrs sd) then value_safe sd (fst kv) (snd kv) else true) fs
      end
    | _ => false
    end.

  Definition param_access_safe (T : tdef) (p : param) : bool :=
    match p with
    | PPath v es => access_safe T v es
    | _ => true
    end.

  Definition param_literal_safe (p : param) : bool :=
    match p with
    | PLit s j => literal_safe s j
    | _ => true
    end.

  (* statements as check_statement walks them (nothing below a parallel loop is looked
     at): [fe] holds of every guard, [fp] of every call parameter *)
  Section Walk.
    Variable fe : expr -> bool.
    Variable fp : param -> bool.
    Definition call_all (c : call) : bool := forallb fp (c_ins c).
    Fixpoint stmt_all (s : stmt) {struct s} : bool :=
      match s with
      | SService _ ins _ => forallb fp ins
      | SCall c => call_all c
      | SParallel cs => forallb call_all cs
      | SWhile e body => forallb stmt_all body && fe e
      | SCount true _ _ _ => true
      | SCount false _ _ body => forallb stmt_all body
      | SCond e p f => forallb stmt_all p && forallb stmt_all f && fe e
      end.
  End Walk.

  Definition task_all (fe : tdef -> expr -> bool) (fp : tdef -> param -> bool) (T : tdef) : bool :=
    forallb (stmt_all (fe T) (fp T)) (td_body T).
End Guards.

Definition prog_all (fe : env -> tdef -> expr -> bool) (fp : env -> tdef -> param -> bool)
           (p : program) : bool :=
  let E := visit_env p in
  forallb (fun kv => task_all (fe E) (fp E) (snd kv)) (e_tasks E).

(* D11a/b: every operand of a comparison or arithmetic operator is free of '!' and every
   path below it is a chain of plain struct attributes of a declared variable *)
Definition g_operands : program -> bool :=
  prog_all (fun E T e => expr_operands_safe E T e) (fun _ _ _ => true).
(* D11c: no attribute path trips check_attribute_access / get_type_of_variable_list *)
Definition g_access : program -> bool :=
  prog_all (fun E T e => expr_paths_safe E T e) (fun E T p => param_access_safe E T p).
(* D11d: no nested literal object has a key its definition lacks *)
Definition g_literal : program -> bool :=
  prog_all (fun _ _ _ => true) (fun E _ p => param_literal_safe E p).

(* the guard of C16_no_exception_partial: none of the crash shapes occurs *)
Definition crash_free (p : program) : bool := g_operands p && g_access p && g_literal p.

(* ------------------------------------------------------------------------------ *)
(* shapes of silently accepted errors                                              *)
(* ------------------------------------------------------------------------------ *)

Fixpoint stmt_has_parloop (s : stmt) : bool :=
  match s with
  | SCount true _ _ _ => true
  | SCount false _ _ b => existsb stmt_has_parloop b
  | SWhile _ b => existsb stmt_has_parloop b
  | SCond _ p f => existsb stmt_has_parloop p || existsb stmt_has_parloop f
  | _ => false
  end.

(* D9: some parallel loop exists (its body call is never checked) *)
Definition has_parloop (p : program) : bool :=
  existsb (fun t => existsb stmt_has_parloop (t_body t)) (p_tasks p).

(* D10: some counting loop has a limit that is not an integer or a number path *)
Section Limits.
  Variable P : program.
  Fixpoint stmt_bad_limit (vars : list (name * vtype)) (loopvars : list name) (s : stmt) : bool :=
    match s with
    | SCount par i lim b =>
      negb (limit_ok P vars loopvars lim)
      || (if par then false else existsb (stmt_bad_limit vars (i :: loopvars)) b)
    | SWhile _ b => existsb (stmt_bad_limit vars loopvars) b
    | SCond _ p f => existsb (stmt_bad_limit vars loopvars) p || existsb (stmt_bad_limit vars loopvars) f
    | _ => false
    end.
End Limits.

Definition has_bad_limit (p : program) : bool :=
  existsb (fun t => existsb (stmt_bad_limit p (vars_of_task t) []) (t_body t)) (p_tasks p).

(* D8: the call graph has a cycle (some chain of calls is as long as the task list) *)
Definition has_recursion (p : program) : bool := negb (acyclic p).

(* ---- shapes of the remaining deviations (evaluated by the harness for attribution) ---- *)
Section Shapes.
  Variable P : program.

  (* D9: the call inside some parallel loop breaks rule R5/R4 *)
  Fixpoint stmt_parloop_call_bad (vars : list (name * vtype)) (loopvars : list name) (s : stmt) : bool :=
    match s with
    | SCount true i _ [SCall c] => negb (call_ok P vars (i :: loopvars) c)
    | SCount true _ _ _ => false
    | SCount false i _ b => existsb (stmt_parloop_call_bad vars (i :: loopvars)) b
    | SWhile _ b => existsb (stmt_parloop_call_bad vars loopvars) b
    | SCond _ p f => existsb (stmt_parloop_call_bad vars loopvars) p
                     || existsb (stmt_parloop_call_bad vars loopvars) f
    | _ => false
    end.

  (* D12: some struct literal (outside parallel loops) names a defined struct but does not
     match it (rule R4) *)
  Definition param_bad_literal (p : param) : bool :=
    match p with
    | PLit s j => mem s (struct_names P) && negb (json_ok P (TPlain (TStructName s)) j)
    | _ => false
    end.

  (* D12: some guard is not of type boolean (rule R6) *)
  Definition guard_bad (vars : list (name * vtype)) (loopvars : list name) (e : expr) : bool :=
    negb (guard_ok P vars loopvars e).

  Fixpoint stmt_exists (fe : list name -> expr -> bool) (fp : param -> bool) (loopvars : list name)
           (s : stmt) {struct s} : bool :=
    match s with
    | SService _ ins _ => existsb fp ins
    | SCall c => existsb fp (c_ins c)
    | SParallel cs => existsb (fun c => existsb fp (c_ins c)) cs
    | SWhile e b => fe loopvars e || existsb (stmt_exists fe fp loopvars) b
    | SCount true _ _ _ => false
    | SCount false i _ b => existsb (stmt_exists fe fp (i :: loopvars)) b
    | SCond e p f => fe loopvars e || existsb (stmt_exists fe fp loopvars) p
                     || existsb (stmt_exists fe fp loopvars) f
    end.

  (* C11: a path of type string in a position where check_single_expression looks at it
     (operand of == != And Or !, or the whole guard), or a parenthesised string operand of
     < <= > >= (expression_is_string does not look through parentheses) *)
  Definition paren_string (vars : list (name * vtype)) (loopvars : list name) (e : expr) : bool :=
    match e with
    | EParen _ => match expr_type P vars loopvars e with Some TyStr => true | _ => false end
    | _ => false
    end.

  Fixpoint string_path_checked (vars : list (name * vtype)) (loopvars : list name) (e : expr) : bool :=
    match e with
    | EPath v es =>
      match param_path_type P vars loopvars v es with
      | Some (TPlain TString) => true
      | _ => false
      end
    | ENot e1 | EParen e1 => string_path_checked vars loopvars e1
    | EBin o l r =>
      if is_cmp o then paren_string vars loopvars l || paren_string vars loopvars r
      else if is_arith o then false
      else string_path_checked vars loopvars l || string_path_checked vars loopvars r
    | _ => false
    end.

  Fixpoint has_lenvar_defs (l : list (name * vtype)) : bool :=
    match l with
    | [] => false
    | (_, TArray _ (LenVar _)) :: _ => true
    | _ :: r => has_lenvar_defs r
    end.
End Shapes.

Definition tasks_exist (f : program -> task -> bool) (p : program) : bool :=
  existsb (f p) (p_tasks p).

Definition sh_parloop_call (p : program) : bool :=
  tasks_exist (fun p t => existsb (stmt_parloop_call_bad p (vars_of_task t) []) (t_body t)) p.
Definition sh_bad_literal (p : program) : bool :=
  tasks_exist (fun p t => existsb (stmt_exists (fun _ _ => false) (param_bad_literal p) []) (t_body t)) p.
Definition sh_bad_guard (p : program) : bool :=
  tasks_exist (fun p t => existsb (stmt_exists (guard_bad p (vars_of_task t)) (fun _ => false) []) (t_body t)) p.
Definition sh_string_eq (p : program) : bool :=
  tasks_exist (fun p t => existsb (stmt_exists (string_path_checked p (vars_of_task t)) (fun _ => false) [])
                                  (t_body t)) p.
Fixpoint stmt_decls_raw (s : stmt) : list (name * vtype) :=
  match s with
  | SService _ _ outs => outs
  | SCall c => c_outs c
  | SParallel cs => flat_map c_outs cs
  | SWhile _ body => flat_map stmt_decls_raw body
  | SCount _ _ _ body => flat_map stmt_decls_raw body
  | SCond _ p f => flat_map stmt_decls_raw p ++ flat_map stmt_decls_raw f
  end.

(* C19: an array length given by a name is reported without a position (line 0) *)
Definition sh_lenvar (p : program) : bool :=
  existsb (fun s => has_lenvar_defs (s_attrs s)) (p_structs p)
  || existsb (fun t => has_lenvar_defs (t_ins t) || has_lenvar_defs (flat_map stmt_decls_raw (t_body t)))
             (p_tasks p).

(* the guard of C11_wf_accepted_partial: no crash shape in guards and path parameters (D11a,
   D11c), no string attribute in a position where only numbers and booleans are accepted and
   no parenthesised string operand (D20) *)
Definition c11_guard (p : program) : bool :=
  prog_all (fun E T e => expr_safe E T e) (fun E T x => param_access_safe E T x) p
  && negb (sh_string_eq p).
