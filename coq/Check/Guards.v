(* Guards.v — executable predicates that delimit the `_partial` theorems and serve as the
   shape predicates of the known findings (known_findings.json): the harness evaluates them
   on every generated case inside coqc and attributes a failure to a finding only when its
   predicate holds.  Definitions only.

   After the repairs D8–D12a, D21 (see known_findings.json, status fixed) what is left:
   - from_grammar : a condition on the *AST*, not on the program: attribute paths have the
     shape the grammar gives them and struct literals are JSON objects.  The parser guarantees
     it; the theorems over all ASTs need it as a hypothesis.
   - sh_bad_guard (D12b)      : some guard is not of type boolean — still accepted.
   - sh_string_eq (D24)       : a string attribute under == != And Or !, or a parenthesised
                                string operand of < <= > >= — rejected although well-formed.
   - sh_array_element (D25)   : an array element inside a guard or a loop limit, or an element
                                of an array of primitives as parameter — rejected although
                                well-formed. *)
From PFDL Require Import Base Syntax.
From PFDL.Check Require Import CheckModel Typing.

(* ------------------------------------------------------------------------------ *)
(* the shape the grammar gives every AST                                           *)
(* ------------------------------------------------------------------------------ *)
(* attribute_access: ID (DOT ID array?)+ — it starts with ".field" and an index only follows
   a field *)
Fixpoint no_double_index (es : list pelem) : bool :=
  match es with
  | e1 :: ((e2 :: _) as rest) => negb (is_index e1 && is_index e2) && no_double_index rest
  | _ => true
  end.

Definition grammar_path (es : list pelem) : bool :=
  match es with
  | PF _ :: _ => no_double_index es
  | _ => false
  end.

(* struct_initialization: NAME json_object *)
Definition param_from_grammar (x : param) : bool :=
  match x with
  | PVar _ => true
  | PPath _ es => grammar_path es
  | PLit _ (JObj _) => true
  | PLit _ _ => false
  end.

(* every call parameter of the program (guards and limits are only read by total functions) *)
Fixpoint stmt_params_all (fp : param -> bool) (s : stmt) {struct s} : bool :=
  match s with
  | SService _ ins _ => forallb fp ins
  | SCall c => forallb fp (c_ins c)
  | SParallel cs => forallb (fun c => forallb fp (c_ins c)) cs
  | SWhile _ body => forallb (stmt_params_all fp) body
  | SCount _ _ _ body => forallb (stmt_params_all fp) body
  | SCond _ p f => forallb (stmt_params_all fp) p && forallb (stmt_params_all fp) f
  end.

Definition from_grammar (p : program) : bool :=
  forallb (fun t => forallb (stmt_params_all param_from_grammar) (t_body t)) (p_tasks p).

(* ------------------------------------------------------------------------------ *)
(* D25: array elements where the validator cannot type them                        *)
(* ------------------------------------------------------------------------------ *)
Definition path_index_free (es : list pelem) : bool := forallb (fun e => negb (is_index e)) es.

Fixpoint expr_index_free (e : expr) : bool :=
  match e with
  | EPath _ es => path_index_free es
  | ENot e1 | EParen e1 => expr_index_free e1
  | EBin _ l r => expr_index_free l && expr_index_free r
  | _ => true
  end.

Definition limit_index_free (l : limit) : bool :=
  match l with
  | LimInt _ => true
  | LimPath _ es => path_index_free es
  end.

Section Access.
  Variable E : env.

  (* false exactly when an index is applied to an array whose elements are not structs *)
  Fixpoint access_safe_loop (pred : sdef) (es : list pelem) : bool :=
    match es with
    | [] => true
    | PF a :: rest =>
      match assoc a (sd_attrs pred) with
      | None => true
      | Some ty =>
        match rest with
        | [] => true
        | e2 :: _ =>
          match ty with
          | TArray p _ =>
            if is_index e2 then
              match struct_of_prim E p with
              | None => false
              | Some sd => access_safe_loop sd rest
              end
            else true
          | TPlain p =>
            if is_index e2 then true
            else match struct_of_prim E p with
                 | None => true
                 | Some sd => access_safe_loop sd rest
                 end
          end
        end
      end
    | _ :: rest => access_safe_loop pred rest
    end.

  Definition access_safe (T : tdef) (v : name) (es : list pelem) : bool :=
    match assoc v (td_vars T) with
    | Some (TPlain p) =>
      match struct_of_prim E p with
      | None => true
      | Some sd => access_safe_loop sd es
      end
    | _ => true
    end.

  Definition param_access_safe (T : tdef) (x : param) : bool :=
    match x with
    | PPath v es => access_safe T v es
    | _ => true
    end.
End Access.

(* statements as check_statement walks them: [fe] holds of every guard, [fl] of every loop
   limit, [fp] of every call parameter *)
Section Walk.
  Variable fe : expr -> bool.
  Variable fl : limit -> bool.
  Variable fp : param -> bool.
  Definition call_all (c : call) : bool := forallb fp (c_ins c).
  Fixpoint stmt_all (s : stmt) {struct s} : bool :=
    match s with
    | SService _ ins _ => forallb fp ins
    | SCall c => call_all c
    | SParallel cs => forallb call_all cs
    | SWhile e body => forallb stmt_all body && fe e
    | SCount true _ lim body => fl lim && match body with [SCall c] => call_all c | _ => true end
    | SCount false _ lim body => fl lim && forallb stmt_all body
    | SCond e p f => forallb stmt_all p && forallb stmt_all f && fe e
    end.
End Walk.

Definition prog_all (fe : expr -> bool) (fl : limit -> bool) (fp : env -> tdef -> param -> bool)
           (p : program) : bool :=
  let E := visit_env p in
  forallb (fun kv => forallb (stmt_all fe fl (fp E (snd kv))) (td_body (snd kv))) (e_tasks E).

Definition g_array_elements : program -> bool :=
  prog_all expr_index_free limit_index_free (fun E T x => param_access_safe E T x).
Definition sh_array_element (p : program) : bool := negb (g_array_elements p).

(* ------------------------------------------------------------------------------ *)
(* D12b, D24: guards                                                               *)
(* ------------------------------------------------------------------------------ *)
Section Shapes.
  Variable P : program.

  (* D12b: some guard is not of type boolean (rule R6) *)
  Definition guard_bad (vars : list (name * vtype)) (loopvars : list name) (e : expr) : bool :=
    negb (guard_ok P vars loopvars e).

  Fixpoint stmt_exists (fe : list name -> expr -> bool) (loopvars : list name)
           (s : stmt) {struct s} : bool :=
    match s with
    | SWhile e b => fe loopvars e || existsb (stmt_exists fe loopvars) b
    | SCount true _ _ _ => false
    | SCount false i _ b => existsb (stmt_exists fe (i :: loopvars)) b
    | SCond e p f => fe loopvars e || existsb (stmt_exists fe loopvars) p
                     || existsb (stmt_exists fe loopvars) f
    | _ => false
    end.

  (* D24: a path of type string in a position where check_single_expression looks at it
     (operand of == != And Or !, or the whole guard), or a parenthesised string operand of
     < <= > >= (expression_is_string does not look through parentheses) *)
  Definition paren_string (vars : list (name * vtype)) (loopvars : list name) (e : expr) : bool :=
    match e with
    | EParen _ => match expr_type P vars loopvars e with Some TyStr => true | _ => false end
    | _ => false
    end.

  Fixpoint string_path_checked (vars : list (name * vtype)) (loopvars : list name) (e : expr) : bool :=
    match e with
    | EPath v es =>
      match param_path_type P vars loopvars v es with
      | Some (TPlain TString) => true
      | _ => false
      end
    | ENot e1 | EParen e1 => string_path_checked vars loopvars e1
    | EBin o l r =>
      if is_cmp o then paren_string vars loopvars l || paren_string vars loopvars r
      else if is_arith o then false
      else string_path_checked vars loopvars l || string_path_checked vars loopvars r
    | _ => false
    end.
End Shapes.

Definition tasks_exist (f : program -> task -> bool) (p : program) : bool :=
  existsb (f p) (p_tasks p).

Definition sh_bad_guard (p : program) : bool :=
  tasks_exist (fun p t => existsb (stmt_exists (guard_bad p (vars_of_task t)) []) (t_body t)) p.
Definition sh_string_eq (p : program) : bool :=
  tasks_exist (fun p t => existsb (stmt_exists (string_path_checked p (vars_of_task t)) []) (t_body t)) p.

(* the guard of C11_wf_accepted_partial: none of the two false-rejection shapes *)
Definition c11_guard (p : program) : bool := g_array_elements p && negb (sh_string_eq p).
