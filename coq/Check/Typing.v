(* Typing.v — the *documented* static rules of PFDL (docs/pfdl/*.md: struct.md, task.md,
   service.md, loop.md, condition.md, parallel.md), written independently of the
   implementation, as a declarative predicate [WF : program -> Prop], and a decision
   procedure [wf_dec].  [wf_dec_correct] is proved in TypingProofs.v.

   Rules (reader-checkable summary; each numbered item is one conjunct below):
   R1  struct names are unique; attribute names are unique within a struct; every
       attribute type names a primitive or a defined struct; an array length is absent
       (dynamic) or a positive integer.                                      (struct.md)
   R2  task names are unique; a task "productionTask" exists.                 (task.md)
   R3  input names of a task are unique and their types exist; within a task every
       declaration of a variable name (task input, output of a service/task call) gives
       it the same type ("PFDL is strongly typed"); every name in the task's Out list is
       a variable of the task.                                                (task.md)
   R4  a call parameter is a variable of the task, an attribute path that resolves
       against the struct definitions (an array attribute may be followed by an index:
       an integer or the counting variable of an enclosing loop), or a struct literal
       that matches its definition recursively (exactly the defined attributes, values of
       the defined types, fixed arrays of the defined length).            (service.md, struct.md)
   R5  a task call names a defined task, passes as many inputs and receives as many
       outputs as the task defines, and the types agree position by position. (task.md)
   R6  the guard of a While loop and of a Condition is a boolean expression; operands of
       arithmetic are numbers; < <= > >= compare two numbers or two strings; == != compare
       two values of the same primitive type; And Or ! take booleans.   (loop.md, condition.md)
   R7  the limit of a counting loop is an integer or a path of type number.   (loop.md)
   R8  the body of a parallel loop is a single task call; a Parallel block contains task
       calls only (syntactically enforced) and at least one.        (loop.md, parallel.md)
   R9  tasks do not call each other recursively: every chain of calls is shorter than the
       number of tasks.                                                       (task.md)

   Also here: the executable guards that delimit the `_partial` theorems (shapes on which
   the implementation raises or deviates — the known findings), and the decidable fault
   predicates has_fault_* of the catalogue (DESIGN.md Appendix B).
   Definitions only. *)
From PFDL Require Import Base Syntax.
From PFDL.Check Require Import CheckModel.

(* ------------------------------------------------------------------------------ *)
(* lookup helpers (independent of the model's dict semantics)                      *)
(* ------------------------------------------------------------------------------ *)

Definition struct_names (p : program) : list name := map s_name (p_structs p).
Definition task_names (p : program) : list name := map t_name (p_tasks p).

Fixpoint find_structdef (n : name) (ss : list structdef) : option structdef :=
  match ss with
  | [] => None
  | s :: r => if Nat.eqb n (s_name s) then Some s else find_structdef n r
  end.

Fixpoint nodupb (l : list name) : bool :=
  match l with
  | [] => true
  | x :: r => negb (mem x r) && nodupb r
  end.

Inductive ety := TyNum | TyBool | TyStr.

Definition ety_eqb (a b : ety) : bool :=
  match a, b with
  | TyNum, TyNum | TyBool, TyBool | TyStr, TyStr => true
  | _, _ => false
  end.

Section Rules.
  Variable P : program.
  Notation structs := (p_structs P).
  Notation tasks := (p_tasks P).

  (* ---- R1: types ------------------------------------------------------------ *)
  Definition prim_ok (p : prim) : bool :=
    match p with
    | TStructName s => mem s (struct_names P)
    | _ => true
    end.

  Definition type_ok (t : vtype) : bool :=
    match t with
    | TPlain p => prim_ok p
    | TArray p LenNone => prim_ok p
    | TArray p (LenNat n) => prim_ok p && Nat.ltb 0 n
    | TArray _ (LenVar _) => false
    end.

  Definition struct_ok (s : structdef) : bool :=
    nodupb (map fst (s_attrs s)) && forallb (fun a => type_ok (snd a)) (s_attrs s).

  (* ---- R4: attribute paths ------------------------------------------------------ *)
  (* type of the value reached from a value of type t by the path elements es;
     loopvars: counting variables of the enclosing loops *)
  Fixpoint path_type (loopvars : list name) (t : vtype) (es : list pelem) : option vtype :=
    match es with
    | [] => Some t
    | PF a :: rest =>
      match t with
      | TPlain (TStructName s) =>
        match find_structdef s structs with
        | Some sd =>
          match assoc a (s_attrs sd) with
          | Some t' => path_type loopvars t' rest
          | None => None
          end
        | None => None
        end
      | _ => None
      end
    | PIdxLit _ :: rest =>
      match t with
      | TArray p _ => path_type loopvars (TPlain p) rest
      | _ => None
      end
    | PIdxVar i :: rest =>
      match t with
      | TArray p _ => if mem i loopvars then path_type loopvars (TPlain p) rest else None
      | _ => None
      end
    | PIdxNone :: _ => None
    end.

  (* ---- R4: struct literals ------------------------------------------------------ *)
  Section Json.
    (* [json_ok t j]: the JSON value j is a value of type t *)
    Fixpoint json_ok (t : vtype) (j : json) {struct j} : bool :=
      match t with
      | TPlain TNumber => match j with JNum _ => true | _ => false end
      | TPlain TBoolean => match j with JBool _ => true | _ => false end
      | TPlain TString => match j with JStr _ => true | _ => false end
      | TPlain (TStructName s) =>
        match j with
        | JObj fs =>
          match find_structdef s structs with
          | None => false
          | Some sd =>
            nodupb (map fst fs)
            && forallb (fun a => mem (fst a) (map fst fs)) (s_attrs sd)
            && (fix go (l : list (name * json)) : bool :=
                  match l with
                  | [] => true
                  | (k, v) :: r =>
                    match assoc k (s_attrs sd) with
                    | Some t' => json_ok t' v && go r
                    | None => false
                    end
                  end) fs
          end
        | _ => false
        end
      | TArray p len =>
        match j with
        | JArr es =>
          (match len with LenNat n => Nat.eqb (length es) n | _ => true end)
          && (fix go (l : list json) : bool :=
                match l with
                | [] => true
                | e :: r => json_ok (TPlain p) e && go r
                end) es
        | _ => false
        end
      end.
  End Json.

  (* ---- R6: expressions ------------------------------------------------------- *)
  Definition ety_of (t : vtype) : option ety :=
    match t with
    | TPlain TNumber => Some TyNum
    | TPlain TBoolean => Some TyBool
    | TPlain TString => Some TyStr
    | _ => None
    end.

  Section Task.
    Variable vars : list (name * vtype).      (* the variables of the task *)

    Definition var_type (v : name) : option vtype := assoc v vars.

    Definition param_path_type (loopvars : list name) (v : name) (es : list pelem) : option vtype :=
      match var_type v with
      | Some t =>
        match es with
        | PF _ :: _ => path_type loopvars t es      (* attribute_access: variable "." field … *)
        | _ => None
        end
      | None => None
      end.

    Fixpoint expr_type (loopvars : list name) (e : expr) : option ety :=
      match e with
      | ENum _ => Some TyNum
      | EBool _ => Some TyBool
      | EStr _ => Some TyStr
      | EPath v es =>
        match param_path_type loopvars v es with
        | Some t => ety_of t
        | None => None
        end
      | ENot e1 =>
        match expr_type loopvars e1 with Some TyBool => Some TyBool | _ => None end
      | EParen e1 => expr_type loopvars e1
      | EBin o l r =>
        match expr_type loopvars l, expr_type loopvars r with
        | Some a, Some b =>
          match o with
          | OAdd | OSub | OMul | ODiv =>
            match a, b with TyNum, TyNum => Some TyNum | _, _ => None end
          | OLt | OLe | OGt | OGe =>
            match a, b with
            | TyNum, TyNum | TyStr, TyStr => Some TyBool
            | _, _ => None
            end
          | OEq | ONe => if ety_eqb a b then Some TyBool else None
          | OAnd | OOr =>
            match a, b with TyBool, TyBool => Some TyBool | _, _ => None end
          end
        | _, _ => None
        end
      end.

    Definition guard_ok (loopvars : list name) (e : expr) : bool :=
      match expr_type loopvars e with Some TyBool => true | _ => false end.

    (* ---- R7 ---- *)
    Definition limit_ok (loopvars : list name) (l : limit) : bool :=
      match l with
      | LimInt _ => true
      | LimPath v es =>
        match param_path_type loopvars v es with
        | Some (TPlain TNumber) => true
        | _ => false
        end
      end.

    (* ---- R4: parameters ---- *)
    Definition param_type (loopvars : list name) (p : param) : option vtype :=
      match p with
      | PVar v => var_type v
      | PPath v es => param_path_type loopvars v es
      | PLit s j =>
        if json_ok (TPlain (TStructName s)) j then Some (TPlain (TStructName s)) else None
      end.

    Definition param_ok (loopvars : list name) (p : param) : bool :=
      match param_type loopvars p with Some _ => true | None => false end.

    Definition outs_ok (outs : outparams) : bool :=
      nodupb (map fst outs) && forallb (fun o => type_ok (snd o)) outs.

    (* ---- R5: task calls ---- *)
    Definition vars_of_task (t : task) : list (name * vtype) :=
      t_ins t ++ flat_map stmt_decls (t_body t).

    Definition call_ok (loopvars : list name) (c : call) : bool :=
      match find_task (c_name c) tasks with
      | None => false
      | Some callee =>
        outs_ok (c_outs c)
        && Nat.eqb (length (c_ins c)) (length (t_ins callee))
        && Nat.eqb (length (c_outs c)) (length (t_outs callee))
        && forallb (fun pf =>
             match param_type loopvars (fst pf) with
             | Some t => vtype_eqb t (snd (snd pf))
             | None => false
             end) (combine (c_ins c) (t_ins callee))
        && forallb (fun oo =>
             match assoc (snd oo) (vars_of_task callee) with
             | Some t => vtype_eqb t (snd (fst oo))
             | None => false
             end) (combine (c_outs c) (t_outs callee))
      end.

    (* ---- statements ---- *)
    Fixpoint stmt_ok (loopvars : list name) (s : stmt) {struct s} : bool :=
      match s with
      | SService _ ins outs => forallb (param_ok loopvars) ins && outs_ok outs
      | SCall c => call_ok loopvars c
      | SParallel cs => negb (Nat.eqb (length cs) 0) && forallb (call_ok loopvars) cs
      | SWhile e body =>
        guard_ok loopvars e && negb (Nat.eqb (length body) 0) && forallb (stmt_ok loopvars) body
      | SCount par i lim body =>
        limit_ok loopvars lim
        && (if par then match body with [SCall c] => call_ok (i :: loopvars) c | _ => false end
            else negb (Nat.eqb (length body) 0) && forallb (stmt_ok (i :: loopvars)) body)
      | SCond e p f =>
        guard_ok loopvars e && negb (Nat.eqb (length p) 0)
        && forallb (stmt_ok loopvars) p && forallb (stmt_ok loopvars) f
      end.
  End Task.

  (* ---- R3 ---- *)
  (* every declaration of a name in the list gives the same type *)
  Fixpoint consistent (l : list (name * vtype)) : bool :=
    match l with
    | [] => true
    | (k, t) :: r =>
      forallb (fun kv => negb (Nat.eqb k (fst kv)) || vtype_eqb t (snd kv)) r && consistent r
    end.

  Definition task_ok (t : task) : bool :=
    let vars := vars_of_task t in
    nodupb (map fst (t_ins t))
    && forallb (fun a => type_ok (snd a)) (t_ins t)
    && consistent vars
    && negb (Nat.eqb (length (t_body t)) 0)
    && forallb (stmt_ok vars []) (t_body t)
    && forallb (fun o => mem o (map fst vars)) (t_outs t).

  (* ---- R9: no recursion ---- *)
  Definition task_calls (t : task) : list name := flat_map stmt_calls (t_body t).

  (* every chain of calls starting at task n has fewer than k links *)
  Fixpoint depth_lt (k : nat) (n : name) : bool :=
    match k with
    | O => false
    | S k' =>
      match find_task n tasks with
      | None => true
      | Some t => forallb (depth_lt k') (task_calls t)
      end
    end.

  Definition acyclic : bool := forallb (fun t => depth_lt (S (length tasks)) (t_name t)) tasks.

  Definition wf_dec : bool :=
    nodupb (struct_names P) && forallb struct_ok structs             (* R1 *)
    && nodupb (task_names P) && mem production_task (task_names P)   (* R2 *)
    && forallb task_ok tasks                                         (* R3-R8 *)
    && acyclic.                                                      (* R9 *)

  (* ============================================================================ *)
  (* the same rules as propositions (NoDup, Forall, In, exists): this is [WF]      *)
  (* ============================================================================ *)

  Definition prim_wf (p : prim) : Prop :=
    match p with
    | TStructName s => In s (struct_names P)
    | _ => True
    end.

  Definition type_wf (t : vtype) : Prop :=
    match t with
    | TPlain p => prim_wf p
    | TArray p LenNone => prim_wf p
    | TArray p (LenNat n) => prim_wf p /\ 0 < n
    | TArray _ (LenVar _) => False
    end.

  Definition struct_wf (s : structdef) : Prop :=
    NoDup (map fst (s_attrs s)) /\ Forall (fun a => type_wf (snd a)) (s_attrs s).

  (* a JSON value of a given type *)
  Fixpoint json_wt (t : vtype) (j : json) {struct j} : Prop :=
    match t with
    | TPlain TNumber => match j with JNum _ => True | _ => False end
    | TPlain TBoolean => match j with JBool _ => True | _ => False end
    | TPlain TString => match j with JStr _ => True | _ => False end
    | TPlain (TStructName s) =>
      match j with
      | JObj fs =>
        exists sd, find_structdef s structs = Some sd
        /\ NoDup (map fst fs)                                          (* no key twice *)
        /\ Forall (fun a => In (fst a) (map fst fs)) (s_attrs sd)      (* no attribute missing *)
        /\ (fix go (l : list (name * json)) : Prop :=                  (* every key defined, value typed *)
              match l with
              | [] => True
              | (k, v) :: r =>
                (exists t', assoc k (s_attrs sd) = Some t' /\ json_wt t' v) /\ go r
              end) fs
      | _ => False
      end
    | TArray p len =>
      match j with
      | JArr es =>
        (match len with LenNat n => length es = n | _ => True end)
        /\ (fix go (l : list json) : Prop :=
              match l with
              | [] => True
              | e :: r => json_wt (TPlain p) e /\ go r
              end) es
      | _ => False
      end
    end.

  Section TaskWf.
    Variable vars : list (name * vtype).

    (* [param_wt loopvars p t]: parameter p has type t *)
    Definition param_wt (loopvars : list name) (p : param) (t : vtype) : Prop :=
      match p with
      | PVar v => var_type vars v = Some t
      | PPath v es => param_path_type vars loopvars v es = Some t
      | PLit s j => t = TPlain (TStructName s) /\ json_wt t j
      end.

    Definition outs_wf (outs : outparams) : Prop :=
      NoDup (map fst outs) /\ Forall (fun o => type_wf (snd o)) outs.

    Definition call_wf (loopvars : list name) (c : call) : Prop :=
      exists callee, find_task (c_name c) tasks = Some callee
      /\ outs_wf (c_outs c)
      /\ length (c_ins c) = length (t_ins callee)
      /\ length (c_outs c) = length (t_outs callee)
      /\ Forall (fun pf => param_wt loopvars (fst pf) (snd (snd pf))) (combine (c_ins c) (t_ins callee))
      /\ Forall (fun oo => assoc (snd oo) (vars_of_task callee) = Some (snd (fst oo)))
                (combine (c_outs c) (t_outs callee)).

    Fixpoint stmt_wf (loopvars : list name) (s : stmt) {struct s} : Prop :=
      match s with
      | SService _ ins outs =>
        Forall (fun p => exists t, param_wt loopvars p t) ins /\ outs_wf outs
      | SCall c => call_wf loopvars c
      | SParallel cs => cs <> [] /\ Forall (call_wf loopvars) cs
      | SWhile e body =>
        expr_type vars loopvars e = Some TyBool /\ body <> []
        /\ (fix go (l : list stmt) : Prop :=
              match l with [] => True | s1 :: r => stmt_wf loopvars s1 /\ go r end) body
      | SCount par i lim body =>
        limit_ok vars loopvars lim = true
        /\ (if par then exists c, body = [SCall c] /\ call_wf (i :: loopvars) c
            else body <> []
                 /\ (fix go (l : list stmt) : Prop :=
                       match l with [] => True | s1 :: r => stmt_wf (i :: loopvars) s1 /\ go r end) body)
      | SCond e p f =>
        expr_type vars loopvars e = Some TyBool /\ p <> []
        /\ (fix go (l : list stmt) : Prop :=
              match l with [] => True | s1 :: r => stmt_wf loopvars s1 /\ go r end) p
        /\ (fix go (l : list stmt) : Prop :=
              match l with [] => True | s1 :: r => stmt_wf loopvars s1 /\ go r end) f
      end.
  End TaskWf.

  (* every declaration of a name gives it the same type *)
  Definition consistent_wf (l : list (name * vtype)) : Prop :=
    forall k t1 t2, In (k, t1) l -> In (k, t2) l -> t1 = t2.

  Definition task_wf (t : task) : Prop :=
    let vars := vars_of_task t in
    NoDup (map fst (t_ins t))
    /\ Forall (fun a => type_wf (snd a)) (t_ins t)
    /\ consistent_wf vars
    /\ t_body t <> []
    /\ Forall (stmt_wf vars []) (t_body t)
    /\ Forall (fun o => In o (map fst vars)) (t_outs t).

  (* R9: every chain of calls starting at n has fewer than k links *)
  Fixpoint chains_shorter (k : nat) (n : name) : Prop :=
    match k with
    | O => False
    | S k' =>
      match find_task n tasks with
      | None => True
      | Some t => Forall (chains_shorter k') (task_calls t)
      end
    end.

  Definition WF : Prop :=
    NoDup (struct_names P) /\ Forall struct_wf structs
    /\ NoDup (task_names P) /\ In production_task (task_names P)
    /\ Forall task_wf tasks
    /\ Forall (fun t => chains_shorter (S (length tasks)) (t_name t)) tasks.
End Rules.
